package main

import (
	"bytes"
	"context"
	"errors"
	"fmt"
	"github.com/muktihari/fit/profile/factory"
	"io"
	"os"
	"time"

	"github.com/muktihari/fit/decoder"
	"github.com/muktihari/fit/profile/filedef"
	"github.com/muktihari/fit/proto"
)

func init() { cmds["c03"] = c03 }

// mutate: structure-aware damage to a valid stream.
func (r *rng) mutate(b []byte) []byte {
	m := append([]byte(nil), b...)
	for k := 0; k < 1+r.intn(4) && len(m) > 0; k++ {
		switch r.intn(9) {
		case 0:
			m[r.intn(len(m))] ^= byte(1 << uint(r.intn(8)))
		case 1:
			m[r.intn(len(m))] = byte(r.u64())
		case 2:
			m = m[:r.intn(len(m)+1)]
		case 3: // field sizes / base types inside definitions
			if len(m) > 20 {
				m[14+r.intn(len(m)-14)] = byte(r.pick(0, 1, 2, 3, 7, 8, 9, 0x0D, 0x40, 0x80, 0xFF, 131, 132, 133, 134, 136, 137, 139, 140, 142, 143, 144, 255))
			}
		case 4: // header fields
			if len(m) > 12 {
				m[r.intn(12)] = byte(r.pick(0, 12, 14, 0xFF, '.', 'F'))
			}
		case 5: // duplicate a slice of records (redefinition, data without definition)
			if len(m) > 30 {
				i := 14 + r.intn(len(m)-20)
				j := i + r.intn(len(m)-i)
				m = append(m[:j], append(append([]byte(nil), m[i:j]...), m[j:]...)...)
			}
		case 6: // drop a slice
			if len(m) > 30 {
				i := 14 + r.intn(len(m)-20)
				j := i + r.intn(minInt(12, len(m)-i))
				m = append(m[:i], m[j:]...)
			}
		case 7: // flip the developer-data bit / compressed bit of some byte
			m[r.intn(len(m))] ^= byte(r.pick(0x20, 0x40, 0x80))
		default:
			m = append(m, r.bytes(r.intn(20))...)
		}
	}
	return m
}

func minInt(a, b int) int {
	if a < b {
		return a
	}
	return b
}

var guardTimeouts int

type entryResult struct {
	name     string
	err      error
	panicked any
	timeout  bool
	note     string
}

// guarded runs fn under recover and a watchdog.
func guarded(name string, fn func() (error, string)) entryResult {
	if guardTimeouts >= 2 { // two entry points already hang (reported): do not wait 8 s for each of the remaining inputs
		return entryResult{name: name}
	}
	done := make(chan entryResult, 1)
	go func() {
		res := entryResult{name: name}
		defer func() {
			if p := recover(); p != nil {
				res.panicked = p
			}
			done <- res
		}()
		res.err, res.note = fn()
	}()
	select {
	case r := <-done:
		return r
	case <-time.After(8 * time.Second):
		guardTimeouts++
		return entryResult{name: name, timeout: true}
	}
}

type oneByteReader struct{ r io.Reader }

func (o oneByteReader) Read(p []byte) (int, error) {
	if len(p) == 0 {
		return 0, nil
	}
	return o.r.Read(p[:1])
}

// allEntryPoints drives every decoding entry point over b; returns violations of C03 as descriptions.
func allEntryPoints(b []byte, r *rng) []string {
	var bad []string
	check := func(res entryResult) {
		switch {
		case res.timeout:
			bad = append(bad, res.name+": no result within 8 s")
		case res.panicked != nil:
			bad = append(bad, fmt.Sprintf("%s: panic: %v", res.name, res.panicked))
		case res.note != "":
			bad = append(bad, res.name+": "+res.note)
		}
	}
	optSets := [][]decoder.Option{nil, {decoder.WithIgnoreChecksum()}, {decoder.WithNoComponentExpansion()},
		{decoder.WithBroadcastOnly()}, {decoder.WithReadBufferSize(r.pick(0, 1, 765, 766, 1024))}, {decoder.WithBroadcastMesgCopy(), decoder.WithIgnoreChecksum()},
		{decoder.WithFactory(factory.StandardFactory())}, {decoder.WithFactory(factory.New()), decoder.WithReadBufferSize(r.pick(0, 766, 5000))}, {decoder.WithLogWriter(io.Discard)}}
	opts := optSets[r.intn(len(optSets))]
	newReader := func() io.Reader {
		if r.chance(1, 4) {
			return oneByteReader{bytes.NewReader(b)}
		}
		return bytes.NewReader(b)
	}
	// full decode with a typed-file listener and a definition listener
	check(guarded("Decode+listeners", func() (error, string) {
		var lopts []filedef.Option
		if r.chance(1, 2) { // the typed-file listener's own option: queue length between decoder and worker, down to none
			lopts = append(lopts, filedef.WithChannelBuffer(uint(r.pick(0, 0, 1, 2, 128))))
		}
		lis := filedef.NewListener(lopts...)
		defer lis.Close()
		dec := decoder.New(newReader(), append(append([]decoder.Option(nil), opts...), decoder.WithMesgListener(lis), decoder.WithMesgDefListener(defSink{}))...)
		var first error
		for dec.Next() {
			fit, err := dec.Decode()
			if err != nil {
				if fit != nil {
					return err, "error returned together with a FIT value"
				}
				first = err
				break
			}
			if fit == nil {
				return nil, "nil FIT with nil error"
			}
			_ = lis.File()
		}
		if first != nil { // sticky
			for i := 0; i < 2; i++ {
				fit, err := dec.Decode()
				if fit != nil || err == nil || errClass(err) != errClass(first) {
					return err, fmt.Sprintf("error not sticky: first %v then %v", first, err)
				}
			}
			if dec.Next() {
				return first, "Next() true after an error"
			}
			if _, err := dec.PeekFileHeader(); err == nil {
				return first, "PeekFileHeader succeeded after an error"
			}
			if err := dec.Discard(); err == nil {
				return first, "Discard succeeded after an error"
			}
		}
		return first, ""
	}))
	// a reused decoder: Reset with another read-buffer size (the old array is kept when it is large enough), then a full decode
	check(guarded("Reset+Decode (reused decoder)", func() (error, string) {
		first := r.pick(0, 1, 766, 1024, 4096, 5000)
		dec := decoder.New(newReader(), decoder.WithReadBufferSize(first))
		for dec.Next() {
			if _, err := dec.Decode(); err != nil {
				break
			}
		}
		second := maxInt(first, 765) + r.pick(-700, 0, 1, 2, 100, 764, 765, 766, 3000)
		dec.Reset(newReader(), append(append([]decoder.Option(nil), opts...), decoder.WithReadBufferSize(second))...)
		for dec.Next() {
			fit, err := dec.Decode()
			if err != nil {
				if fit != nil {
					return err, "error returned together with a FIT value"
				}
				return err, ""
			}
		}
		return nil, ""
	}))
	check(guarded("DecodeWithContext", func() (error, string) {
		dec := decoder.New(newReader(), opts...)
		ctx, cancel := context.WithCancel(context.Background())
		defer cancel()
		for dec.Next() {
			fit, err := dec.DecodeWithContext(ctx)
			if err != nil {
				if fit != nil {
					return err, "error returned together with a FIT value"
				}
				return err, ""
			}
		}
		return nil, ""
	}))
	// a cancelled (or nil) context: DecodeWithContext returns the context's error and no FIT, and keeps returning it
	check(guarded("DecodeWithContext (cancelled / nil context)", func() (error, string) {
		dec := decoder.New(newReader(), opts...)
		ctx, cancel := context.WithCancel(context.Background())
		cancel()
		fit, err := dec.DecodeWithContext(ctx)
		if fit != nil {
			return err, "FIT returned under a cancelled context"
		}
		if err == nil {
			return nil, "no error under a cancelled context"
		}
		if fit2, err2 := dec.DecodeWithContext(context.Background()); fit2 != nil || err2 == nil {
			return err2, fmt.Sprintf("error not sticky after a cancelled context: first %v then %v", err, err2)
		}
		dec2 := decoder.New(newReader(), opts...)
		var nilCtx context.Context
		for dec2.Next() { // a nil context is the background context
			fit, err := dec2.DecodeWithContext(nilCtx)
			if err != nil {
				if fit != nil {
					return err, "error returned together with a FIT value"
				}
				return err, ""
			}
		}
		return nil, ""
	}))
	// the raw decoder's callback returns an error at its k-th call: Decode stops there and returns that error
	check(guarded("RawDecoder (callback error)", func() (error, string) {
		stopAt := r.intn(12)
		calls := 0
		sentinel := errors.New("callback says stop")
		_, err := decoder.NewRaw().Decode(newReader(), func(flag decoder.RawFlag, seg []byte) error {
			calls++
			if calls-1 == stopAt {
				return sentinel
			}
			if calls-1 > stopAt {
				return errors.New("called again after an error")
			}
			return nil
		})
		if calls > stopAt && !errors.Is(err, sentinel) {
			return err, fmt.Sprintf("callback returned an error at call %d of %d, Decode returned %v", stopAt, calls, err)
		}
		return err, ""
	}))
	check(guarded("Peek/Discard", func() (error, string) {
		dec := decoder.New(newReader(), opts...)
		for i := 0; i < 6; i++ {
			if _, err := dec.PeekFileHeader(); err != nil {
				return err, ""
			}
			if r.chance(1, 2) {
				if fid, err := dec.PeekFileId(); err != nil {
					if fid != nil {
						return err, "PeekFileId returned a value with an error"
					}
					return err, ""
				}
			}
			if err := dec.Discard(); err != nil {
				return err, ""
			}
			if !dec.Next() {
				return nil, ""
			}
		}
		return nil, ""
	}))
	check(guarded("CheckIntegrity", func() (error, string) {
		dec := decoder.New(bytes.NewReader(b), opts...)
		n, err := dec.CheckIntegrity()
		if n < 0 {
			return err, "negative sequence count"
		}
		if err == nil && n == 0 {
			return err, "CheckIntegrity succeeded with zero sequences"
		}
		return err, ""
	}))
	check(guarded("RawDecoder", func() (error, string) {
		raw := decoder.NewRaw()
		var total int64
		n, err := raw.Decode(newReader(), func(flag decoder.RawFlag, seg []byte) error {
			total += int64(len(seg))
			return nil
		})
		if n < total {
			return err, fmt.Sprintf("segments (%d bytes) exceed the consumed count %d", total, n)
		}
		if err == nil && n != int64(len(b)) {
			return err, fmt.Sprintf("success but consumed %d of %d bytes", n, len(b))
		}
		return err, ""
	}))
	return bad
}

type defSink struct{}

func (defSink) OnMesgDef(proto.MessageDefinition) {}

// c03: arbitrary bytes and structure-aware mutations through every entry point (direct oracle), and the same inputs through the
// decoder model (correspondence: outcome class, messages).
func c03(args []string) {
	c, fs := commonFlags("c03", args)
	fs.Parse(args)
	r := newRng(c.seed)
	n := c.n
	if n == 0 {
		n = 400
		if c.tier == "thorough" {
			n = 8000
		}
	}
	var pool [][]byte
	for _, p := range fixtureFiles(3300) {
		if b, err := os.ReadFile(p); err == nil {
			pool = append(pool, b)
		}
	}
	for len(pool) < 40 {
		cfg := mesgGenCfg{wellFormed: true, maxFields: 6, unknown: true, tsMode: r.pick(0, 1, 2, 3, 4, 5, 5, 6)}
		ec := r.encCfg()
		ec.protoVer = proto.V2
		if b, err := encodeFit(ec, r.genFit(cfg, 1+r.intn(6), r.chance(1, 2))); err == nil {
			pool = append(pool, b)
		}
	}
	// boundary corpus (deterministic, always first): extreme record sizes and every declared size / base type against the
	// profile's own type for a few well-known fields
	for bi, b := range boundaryInputs() {
		stat("boundary_inputs", 1)
		for _, why := range allEntryPoints(b, r) {
			emitJSON("FAIL", "", map[string]any{"kind": "entry-point", "why": why, "bytes_len": len(b), "bytes": fmt.Sprintf("%x", b[:minInt(len(b), 2000)]), "boundary": true})
		}
		if len(b) <= 200 && bi%3 == int(c.seed%3) {
			res := decodeBytes(b, true, true)
			emit("CASE", fmt.Sprintf("(%s, %s, %s, %s)", coqBool(true), coqBool(true), coqBytes(b), coqDecodeResult(res)))
		}
	}
	for i := 0; i < n; i++ {
		var b []byte
		switch r.intn(10) {
		case 0:
			b = r.bytes(r.intn(60))
		case 1:
			b = append([]byte{14, 0x20, 0, 0, byte(r.intn(40)), 0, 0, 0, '.', 'F', 'I', 'T', 0, 0}, r.bytes(r.intn(60))...)
		case 2:
			b = append(append([]byte(nil), pool[r.intn(len(pool))]...), pool[r.intn(len(pool))]...)
			b = r.mutate(b)
		default:
			b = r.mutate(pool[r.intn(len(pool))])
		}
		stat(fmt.Sprintf("input_len_%s", bucket(len(b))), 1)
		for _, why := range allEntryPoints(b, r) {
			emitJSON("FAIL", "", map[string]any{"kind": "entry-point", "why": why, "bytes": fmt.Sprintf("%x", b)})
		}
		if len(b) <= 3300 {
			cs, ex := r.chance(2, 3), r.chance(1, 2)
			res := decodeBytes(b, cs, ex)
			emit("CASE", fmt.Sprintf("(%s, %s, %s, %s)", coqBool(cs), coqBool(ex), coqBytes(b), coqDecodeResult(res)))
			switch {
			case res.panicked != nil:
				stat("outcome_panic", 1)
			case res.err != nil:
				stat(fmt.Sprintf("outcome_err%d", errClass(res.err)), 1)
				if errClass(res.err) == 99 && !errors.Is(res.err, context.Canceled) {
					emitJSON("FAIL", "", map[string]any{"kind": "unmapped-error", "err": res.err.Error(), "bytes": fmt.Sprintf("%x", b)})
				}
			default:
				stat("outcome_ok", 1)
			}
		}
		if i < 3 {
			emit("SAMPLE", fmt.Sprintf("%d bytes: %x...", len(b), b[:minInt(len(b), 40)]))
		}
	}
}

// boundaryInputs: hand-built CRC-valid sequences at the limits the decoders' fixed buffers and size guards are written for.
func boundaryInputs() [][]byte {
	var out [][]byte
	// (1) the largest possible message: 255 fields and 255 developer fields of 255 bytes each, then one data record
	for _, nf := range []int{255, 254} {
		def := []byte{0x60, 0, 0, 0xFF, 0xFE, byte(nf)}
		for i := 0; i < nf; i++ {
			def = append(def, byte(i), 255, 0x0D)
		}
		def = append(def, byte(nf))
		for i := 0; i < nf; i++ {
			def = append(def, byte(i), 255, 0)
		}
		rec := append(def, 0x00)
		rec = append(rec, make([]byte, nf*255*2)...)
		out = append(out, rawSeq(rec))
	}
	// (2) declared size x declared base type, for fields whose profile type is wider / different
	type fld struct{ mesg, num byte }
	baseTypes := []byte{0x00, 0x01, 0x02, 0x83, 0x84, 0x85, 0x86, 0x07, 0x88, 0x89, 0x0A, 0x8B, 0x8C, 0x0D, 0x8E, 0x8F, 0x90, 0x13, 0x87}
	for _, f := range []fld{{20, 253}, {20, 0}, {20, 5}, {0, 3}, {0, 0}, {20, 8}, {132, 9}, {78, 0}} {
		for size := 0; size <= 9; size++ {
			for _, bt := range baseTypes {
				for _, arch := range []byte{0, 1} {
					rec := []byte{0x40, 0, arch, f.mesg, 0, 1, f.num, byte(size), bt, 0x00}
					if arch == 1 {
						rec[3], rec[4] = 0, f.mesg
					}
					for i := 0; i < size; i++ {
						rec = append(rec, byte(0x11*(i+1)))
					}
					out = append(out, rawSeq(rec))
				}
			}
		}
	}
	return out
}
