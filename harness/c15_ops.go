package main

// c15_ops.go: the operation generators of the c15 workload (see c15.go).
//
// Rules every generator follows:
//   - everything random about WHAT the operation does is drawn from the generator's rng `r` at build time
//     (or from a sub-seed stored in the closure), never from the perturbation rng e.pr;
//   - everything the operation touches is created inside mk / inside the returned closure: its own copy of
//     the fixture bytes, its own reader, decoder, encoder, buffers, listener, messages;
//   - what is shared between goroutines: the library's package-level state, e.nilOpts / e.preset, and the
//     decoder pool of the opener pattern (c15DecPool, the point of that pattern).

import (
	"bufio"
	"bytes"
	"context"
	"crypto/sha256"
	"encoding/hex"
	"errors"
	"fmt"
	"io"
	"math"
	"sort"
	"strings"
	"sync"
	"time"

	"github.com/muktihari/fit/cmd/fitactivity/opener"
	"github.com/muktihari/fit/decoder"
	"github.com/muktihari/fit/encoder"
	"github.com/muktihari/fit/kit/datetime"
	"github.com/muktihari/fit/kit/scaleoffset"
	"github.com/muktihari/fit/kit/semicircles"
	"github.com/muktihari/fit/profile"
	"github.com/muktihari/fit/profile/basetype"
	"github.com/muktihari/fit/profile/factory"
	"github.com/muktihari/fit/profile/filedef"
	"github.com/muktihari/fit/profile/mesgdef"
	"github.com/muktihari/fit/profile/typedef"
	"github.com/muktihari/fit/proto"
)

// ---------------------------------------------------------------------------------------------------------
// helpers

func c15RandMesgNum(r *rng) typedef.MesgNum {
	switch x := r.intn(10); {
	case x < 5:
		return typedef.MesgNum(r.intn(410)) // the factory's array range (with holes)
	case x < 7:
		common := []typedef.MesgNum{typedef.MesgNumFileId, typedef.MesgNumRecord, typedef.MesgNumSession, typedef.MesgNumLap,
			typedef.MesgNumEvent, typedef.MesgNumDeviceInfo, typedef.MesgNumActivity, typedef.MesgNumHr, typedef.MesgNumWorkoutStep}
		return common[r.intn(len(common))]
	case x < 8:
		return c15MfgMesgNum
	case x < 9:
		return typedef.MesgNum(0xFF00 + r.intn(0xFF))
	}
	return typedef.MesgNum(410 + r.intn(65536-410)) // unknown
}

// c15OwnFits decodes the operation's own copy of a fixture with a plain decoder (all sequences that decode).
// Messages per sequence are capped (the first ones are kept: file_id, definitions of developer data).
func c15OwnFits(fx *c15Fixture, pr *rng, max int) (fits []*proto.FIT, err error) {
	rd := c15NewReader(fx.data, pr, 8, 0)
	dec := decoder.New(rd)
	for i := 0; i < 64 && dec.Next(); i++ {
		fit, e := dec.Decode()
		if e != nil {
			return fits, e
		}
		if max > 0 && len(fit.Messages) > max {
			fit.Messages = fit.Messages[:max:max]
		}
		fits = append(fits, fit)
	}
	return fits, nil
}

// c15Synthetic builds a small activity-like FIT from factory.CreateField and proto values.
func c15Synthetic(sub uint64, n int) *proto.FIT {
	r := newRng(sub)
	mk := func(num typedef.MesgNum, fnum byte, v proto.Value) proto.Field {
		f := factory.CreateField(num, fnum)
		f.Value = v
		return f
	}
	t0 := uint32(1000000000 + r.intn(1000000))
	fit := &proto.FIT{}
	fit.Messages = append(fit.Messages, proto.Message{Num: typedef.MesgNumFileId, Fields: []proto.Field{
		mk(typedef.MesgNumFileId, 0, proto.Uint8(uint8(typedef.FileActivity))),
		mk(typedef.MesgNumFileId, 1, proto.Uint16(uint16(typedef.ManufacturerDevelopment))),
		mk(typedef.MesgNumFileId, 2, proto.Uint16(uint16(r.intn(4000)))),
		mk(typedef.MesgNumFileId, 3, proto.Uint32(uint32(1+r.intn(1<<30)))),
		mk(typedef.MesgNumFileId, 4, proto.Uint32(t0)),
		mk(typedef.MesgNumFileId, 8, proto.String("c15 synthetic")),
	}})
	ts := t0
	dist := uint32(0)
	for i := 0; i < n; i++ {
		ts += uint32(r.pick(1, 1, 1, 2, 5, 40))
		switch r.intn(8) {
		case 0:
			fit.Messages = append(fit.Messages, proto.Message{Num: typedef.MesgNumEvent, Fields: []proto.Field{
				mk(typedef.MesgNumEvent, 253, proto.Uint32(ts)),
				mk(typedef.MesgNumEvent, 0, proto.Uint8(uint8(r.intn(10)))),
				mk(typedef.MesgNumEvent, 1, proto.Uint8(uint8(r.intn(4)))),
				mk(typedef.MesgNumEvent, 3, proto.Uint32(uint32(r.intn(1000)))),
			}})
		case 1:
			// a manufacturer specific message: the factory serves fresh "unknown" field bases (the caller's own),
			// which the caller types itself
			tsf := mk(c15MfgMesgNum, 253, proto.Uint32(ts))
			tsf.BaseType, tsf.Type = basetype.Uint32, profile.Uint32
			bf := mk(c15MfgMesgNum, 7, proto.SliceUint8([]byte{byte(r.intn(250)), byte(r.intn(250)), byte(i)}))
			bf.BaseType, bf.Type, bf.Array = basetype.Byte, profile.Byte, true
			fit.Messages = append(fit.Messages, proto.Message{Num: c15MfgMesgNum, Fields: []proto.Field{tsf, bf}})
		default:
			dist += uint32(r.intn(900))
			fs := []proto.Field{
				mk(typedef.MesgNumRecord, 253, proto.Uint32(ts)),
				mk(typedef.MesgNumRecord, 0, proto.Int32(int32(r.intn(1<<30)-(1<<29)))),
				mk(typedef.MesgNumRecord, 1, proto.Int32(int32(r.intn(1<<30)-(1<<29)))),
				mk(typedef.MesgNumRecord, 5, proto.Uint32(dist)),
				mk(typedef.MesgNumRecord, 3, proto.Uint8(uint8(60+r.intn(120)))),
			}
			if r.chance(1, 2) {
				fs = append(fs, mk(typedef.MesgNumRecord, 4, proto.Uint8(uint8(r.intn(120)))))
			}
			if r.chance(1, 2) {
				fs = append(fs, mk(typedef.MesgNumRecord, 7, proto.Uint16(uint16(r.intn(900)))))
			}
			if r.chance(1, 3) {
				fs = append(fs, mk(typedef.MesgNumRecord, 6, proto.Uint16(uint16(r.intn(20000)))))
			}
			fit.Messages = append(fit.Messages, proto.Message{Num: typedef.MesgNumRecord, Fields: fs})
		}
	}
	return fit
}

func c15FileIdType(ms []proto.Message) typedef.File {
	for i := range ms {
		if ms[i].Num == typedef.MesgNumFileId {
			return typedef.File(ms[i].FieldValueByNum(0).Uint8())
		}
	}
	return typedef.FileInvalid
}

func c15Hex(p []byte) string {
	s := sha256.Sum256(p)
	return hex.EncodeToString(s[:])
}

// ---------------------------------------------------------------------------------------------------------
// factory_first_call

func c15GenFactoryFirst(c *c15Cfg, r *rng) c15Op {
	nums := []typedef.MesgNum{typedef.MesgNumRecord, typedef.MesgNumFileId, typedef.MesgNumSession, 65000}
	for i := 0; i < 3; i++ {
		nums = append(nums, c15RandMesgNum(r))
	}
	rot := r.intn(len(nums)) // goroutines start with different numbers
	nums = append(nums[rot:], nums[:rot]...)
	private := r.chance(1, 3)
	return c15Op{name: "factory_create_mesg", params: fmt.Sprintf("nums=%v private_factory=%t", nums, private),
		mk: func(e *c15Env) func() string {
			return func() string {
				d := c15NewDig()
				var fac *factory.Factory
				if private {
					fac = factory.New() // own object; CreateMesg still goes through the package-level cache
				}
				for _, n := range nums {
					var m proto.Message
					if fac != nil {
						m = fac.CreateMesg(n)
					} else {
						m = factory.CreateMesg(n)
					}
					d.factoryMesg(&m)
					f := factory.CreateField(n, proto.FieldNumTimestamp)
					d.field(&f)
					f = factory.CreateField(n, byte(n%7))
					d.field(&f)
					m2 := factory.StandardFactory().CreateMesg(n)
					d.f("again%d,%d;", m2.Num, len(m2.Fields))
				}
				return d.sum()
			}
		}}
}

// ---------------------------------------------------------------------------------------------------------
// factory_lookups

func c15GenFactoryLookups(c *c15Cfg, r *rng) c15Op {
	sub := r.u64()
	n := 400 + r.intn(1200)
	return c15Op{name: "factory_lookups", params: fmt.Sprintf("sub=%#x n=%d", sub, n),
		mk: func(e *c15Env) func() string {
			return func() string {
				r := newRng(sub)
				y := c15Yield{e.pr, 64}
				d := c15NewDig()
				fac := factory.New() // own factory; RegisterMesg only ever on this one
				mfg := []typedef.MesgNum{typedef.MesgNum(0xFF00 + r.intn(0xFE)), typedef.MesgNum(0xFF00 + r.intn(0xFE))}
				for i, num := range mfg {
					err := fac.RegisterMesg(proto.Message{Num: num, Fields: []proto.Field{
						{FieldBase: &proto.FieldBase{Name: "c15_a", Num: 0, Type: profile.Uint8, BaseType: basetype.Uint8, Scale: 1}},
						{FieldBase: &proto.FieldBase{Name: "c15_b", Num: byte(1 + i), Type: profile.Uint16, BaseType: basetype.Uint16,
							Scale: 100, Offset: 5, Units: "m"}},
						{FieldBase: &proto.FieldBase{Name: "c15_ts", Num: 253, Type: profile.DateTime, BaseType: basetype.Uint32, Scale: 1, Units: "s"}},
					}})
					d.err(err)
				}
				d.err(fac.RegisterMesg(proto.Message{Num: typedef.MesgNumRecord}))  // reserved -> error
				d.err(fac.RegisterMesg(proto.Message{Num: typedef.MesgNumInvalid})) // out of range -> error
				for i := 0; i < n; i++ {
					y.maybe()
					num := c15RandMesgNum(r)
					if r.chance(1, 6) {
						num = mfg[r.intn(len(mfg))]
					}
					fnum := byte(r.intn(256))
					if r.chance(1, 2) {
						fnum = byte(r.pick(0, 1, 2, 3, 4, 5, 6, 7, 8, 253, 254))
					}
					var f proto.Field
					switch r.intn(4) {
					case 0:
						f = factory.CreateField(num, fnum)
					case 1:
						f = factory.StandardFactory().CreateField(num, fnum)
					default:
						f = fac.CreateField(num, fnum)
					}
					d.f("%d/%d:", num, fnum)
					d.field(&f)
					if i%16 == 0 {
						var m proto.Message
						if r.chance(1, 2) {
							m = fac.CreateMesg(num)
						} else {
							m = factory.CreateMesg(num)
						}
						// the returned Fields slice is the caller's: writing to it must not show elsewhere
						for j := range m.Fields {
							m.Fields[j].Value = proto.Uint8(byte(j))
						}
						d.factoryMesg(&m)
					}
				}
				return d.sum()
			}
		}}
}

// ---------------------------------------------------------------------------------------------------------
// typedef_tables

func c15GenTypedef(c *c15Cfg, r *rng) c15Op {
	sub := r.u64()
	n := 600 + r.intn(1400)
	return c15Op{name: "typedef_tables", params: fmt.Sprintf("sub=%#x n=%d", sub, n),
		mk: func(e *c15Env) func() string {
			return func() string {
				r := newRng(sub)
				y := c15Yield{e.pr, 64}
				d := c15NewDig()
				u16 := func() uint16 {
					if r.chance(1, 2) {
						return uint16(r.intn(512))
					}
					return uint16(r.intn(65536))
				}
				for i := 0; i < n; i++ {
					y.maybe()
					switch r.intn(20) {
					case 0:
						v := typedef.MesgNum(u16())
						if r.chance(1, 8) {
							v = c15MfgMesgNum
						}
						s := v.String()
						d.f("mn%d=%s>%d;", v, s, typedef.MesgNumFromString(s))
					case 1:
						v := typedef.Sport(r.intn(256))
						s := v.String()
						d.f("sp%d=%s>%d;", v, s, typedef.SportFromString(s))
					case 2:
						v := typedef.File(r.intn(256))
						if r.chance(1, 8) {
							v = c15MfgFile
						}
						s := v.String()
						d.f("fi%d=%s>%d;", v, s, typedef.FileFromString(s))
					case 3:
						v := typedef.Manufacturer(u16())
						s := v.String()
						d.f("ma%d=%s>%d;", v, s, typedef.ManufacturerFromString(s))
					case 4:
						v := typedef.GarminProduct(u16())
						s := v.String()
						d.f("gp%d=%s>%d;", v, s, typedef.GarminProductFromString(s))
					case 5:
						names := []string{"c15_mfg_mesg", "c15_mfg_file", "record", "activity", "garmin", "running", "nope", ""}
						s := names[r.intn(len(names))]
						d.f("fs%s>%d,%d,%d,%d,%d;", s, typedef.MesgNumFromString(s), typedef.FileFromString(s),
							typedef.ManufacturerFromString(s), typedef.SportFromString(s), typedef.BoolFromString(s))
					case 6:
						switch r.intn(5) {
						case 0:
							l := typedef.ListMesgNum()
							sort.Slice(l, func(a, b int) bool { return l[a] < l[b] })
							d.f("lmn%d,%v;", len(l), l[len(l)-4:])
						case 1:
							l := typedef.ListFile()
							sort.Slice(l, func(a, b int) bool { return l[a] < l[b] })
							d.f("lfi%d,%v;", len(l), l)
						case 2:
							l := typedef.ListSport()
							d.f("lsp%d,%s;", len(l), l[r.intn(len(l))])
						case 3:
							l := typedef.ListManufacturer()
							d.f("lma%d,%s;", len(l), l[r.intn(len(l))])
						case 4:
							l := typedef.ListGarminProduct()
							d.f("lgp%d,%s;", len(l), l[r.intn(len(l))])
						}
					case 7:
						v := profile.ProfileType(r.intn(260))
						s := v.String()
						d.f("pt%d=%s>%d,%d;", v, s, profile.ProfileTypeFromString(s), v.BaseType())
					case 8:
						l := profile.ListProfileType()
						v := l[r.intn(len(l))]
						d.f("lpt%d,%s,%s;", len(l), v, v.BaseType())
					case 9:
						v := basetype.BaseType(r.intn(256))
						s := v.String()
						d.f("bt%d=%s>%d,%d,%t,%s,%v,%d;", v, s, basetype.FromString(s), v.Size(), v.Valid(), v.GoType(), v.Invalid(),
							profile.ProfileTypeFromBaseType(v))
					case 10:
						l := basetype.List()
						d.f("lbt%d,%s;", len(l), l[r.intn(len(l))])
					case 11:
						v := proto.Type(r.intn(30))
						d.f("vt%d=%s;", v, v)
					case 12:
						v := uint32(r.u64())
						if r.chance(1, 10) {
							v = basetype.Uint32Invalid
						}
						t := datetime.ToTime(v)
						d.f("dt%d=%d,%d,%t;", v, t.Unix(), datetime.ToUint32(t), t.IsZero())
						lt := datetime.ToLocalTime(t, r.intn(25)-12)
						d.f("%s,%d,%d;", lt.Format(time.RFC3339), datetime.TzOffsetHours(lt, t),
							datetime.TzOffsetHoursFromUint32(v+uint32(3600*r.intn(12)), v))
						d.f("%s,%s;", typedef.DateTime(v), typedef.DateTimeFromString(typedef.DateTime(v).String()))
					case 13:
						v := int32(r.u64())
						deg := semicircles.ToDegrees(v)
						d.f("sc%d=%v>%d;", v, deg, semicircles.ToSemicircles(deg))
					case 14:
						scale := []float64{1, 2, 5, 100, 1000, 1.5}[r.intn(6)]
						off := []float64{0, 0, 500, -10}[r.intn(4)]
						raw := uint16(r.u64())
						a := scaleoffset.Apply(raw, scale, off)
						d.f("so%d,%v,%v=%v>%v;", raw, scale, off, a, scaleoffset.Discard(a, scale, off))
					case 15:
						scale := []float64{1, 2, 100, 1000}[r.intn(4)]
						off := []float64{0, 500}[r.intn(2)]
						vals := []proto.Value{proto.Uint16(uint16(r.u64())), proto.Int32(int32(r.u64())), proto.Uint8(byte(r.u64())),
							proto.SliceUint16([]uint16{uint16(r.u64()), uint16(r.u64())}), proto.String("x"), proto.Float32(float32(r.intn(1000)) / 8)}
						v := vals[r.intn(len(vals))]
						a := scaleoffset.ApplyValue(v, scale, off)
						bts := []basetype.BaseType{basetype.Uint16, basetype.Sint32, basetype.Uint8, basetype.Uint32, basetype.Float32}
						bt := bts[r.intn(len(bts))]
						b := scaleoffset.DiscardValue(a, bt, scale, off)
						d.f("sv%v,%v:", scale, off)
						d.value(v)
						d.value(a)
						d.value(b)
						d.f(",%v,%v;", scaleoffset.ApplyAny(v.Any(), scale, off), scaleoffset.DiscardAny(a.Any(), bt, scale, off))
					case 16:
						v := typedef.Bool(r.pick(0, 1, 2, 255))
						d.f("bo%d=%s>%d,%d;", v, v, typedef.BoolFromString(v.String()), typedef.BoolFromBool(r.chance(1, 2)))
					case 17:
						vals := []proto.Value{proto.Uint8(byte(r.u64())), proto.Uint16(0xFFFF), proto.Int32(math.MaxInt32), proto.String(""),
							proto.SliceUint8([]byte{0xFF, 0xFF}), proto.Float64(math.NaN()), proto.Uint32(uint32(r.u64())), {}}
						v := vals[r.intn(len(vals))]
						bt := basetype.List()[r.intn(len(basetype.List()))]
						d.f("va%s,%d,%t,%t;", v.Type(), v.Size(), v.Valid(bt), v.Align(bt))
					case 18:
						v := proto.Version(r.intn(256))
						d.f("pv%d=%d.%d,%d;", v, v.Major(), v.Minor(), proto.CreateVersion(v.Major(), v.Minor()))
					case 19:
						h := byte(r.intn(256))
						d.f("lm%d=%d;", h, proto.LocalMesgNum(h))
					}
				}
				return d.sum()
			}
		}}
}

// ---------------------------------------------------------------------------------------------------------
// decode

type c15CountListener struct{ mesgs, fields int }

func (l *c15CountListener) OnMesg(m proto.Message) { l.mesgs++; l.fields += len(m.Fields) }

var c15DecodeVariants = []string{"default", "ignore_checksum", "no_component_expansion", "check_integrity_seek_decode",
	"peek_fileid_discard", "with_context", "peek_fileheader", "private_factory", "log_writer"}

func c15GenDecode(c *c15Cfg, r *rng) c15Op {
	fx := c.pick(r)
	variant := r.intn(len(c15DecodeVariants))
	rbs := r.pick(0, 0, 765, 1024, 8192)
	count := r.chance(1, 2)
	parity := r.intn(2)
	chunk := r.pick(0, 64, 300, 2000)
	return c15Op{name: "decode", params: fmt.Sprintf("fixture=%s variant=%s readbuf=%d count_listener=%t discard_parity=%d",
		fx.name, c15DecodeVariants[variant], rbs, count, parity),
		mk: func(e *c15Env) func() string {
			rd := c15NewReader(fx.data, e.pr, 3, chunk)
			return func() string { return c15RunDecode(c, rd, variant, rbs, count, parity, nil) }
		}}
}

// c15RunDecode: one full decode of rd with its own decoder (or with `reuse`, a decoder from a pool, Reset first).
func c15RunDecode(c *c15Cfg, rd *c15Reader, variant, rbs int, count bool, parity int, reuse *decoder.Decoder) string {
	d := c15NewDig()
	var opts []decoder.Option
	var logw strings.Builder
	switch variant {
	case 1:
		opts = append(opts, decoder.WithIgnoreChecksum())
	case 2:
		opts = append(opts, decoder.WithNoComponentExpansion())
	case 7:
		fac := factory.New()
		_ = fac.RegisterMesg(proto.Message{Num: c15MfgMesgNum, Fields: []proto.Field{
			{FieldBase: &proto.FieldBase{Name: "c15_ts", Num: 253, Type: profile.DateTime, BaseType: basetype.Uint32, Scale: 1}},
			{FieldBase: &proto.FieldBase{Name: "c15_bytes", Num: 7, Type: profile.Byte, BaseType: basetype.Byte, Array: true, Scale: 1}},
		}})
		opts = append(opts, decoder.WithFactory(fac))
	case 8:
		opts = append(opts, decoder.WithLogWriter(&logw))
	}
	if rbs > 0 {
		opts = append(opts, decoder.WithReadBufferSize(rbs))
	}
	var cl *c15CountListener
	if count {
		cl = &c15CountListener{}
		opts = append(opts, decoder.WithMesgListener(cl))
	}
	dec := reuse
	if dec == nil {
		dec = decoder.New(rd, opts...)
	} else {
		dec.Reset(rd, opts...)
	}
	if variant == 3 {
		seq, err := dec.CheckIntegrity()
		d.tag("integrity=%d", seq)
		d.errTag("integrity", err)
		rd.Seek(0, io.SeekStart) // as documented: reset the reader, then decode with the same decoder
		if err != nil {
			dec.Reset(rd, opts...)
		}
	}
	for seq := 0; seq < 64 && dec.Next(); seq++ {
		if variant == 4 && (seq+parity)%2 == 0 {
			fid, err := dec.PeekFileId()
			d.f("P%d;", seq)
			d.errTag("peek", err)
			if err != nil {
				break
			}
			d.tag("discard(%s)", fid.Type)
			d.f("%d,%d,%d,%d,%d,%d,%q;", fid.Type, fid.Manufacturer, fid.Product, fid.SerialNumber, fid.TimeCreatedUint32(),
				fid.Number, fid.ProductName)
			err = dec.Discard()
			d.errTag("discard", err)
			if err != nil {
				break
			}
			continue
		}
		if variant == 6 {
			fh, err := dec.PeekFileHeader()
			d.f("PH%d;", seq)
			d.err(err)
			if err != nil {
				break
			}
			d.header(fh)
		}
		var fit *proto.FIT
		var err error
		if variant == 5 {
			fit, err = dec.DecodeWithContext(context.Background())
		} else {
			fit, err = dec.Decode()
		}
		if err != nil { // an error outcome is a legitimate result: class, text, how far the decoder got
			d.f("E%d;", seq)
			d.errTag("decode", err)
			break
		}
		d.tag("seq%d:%dmesgs", seq, len(fit.Messages))
		d.fit(fit, c.maxMesgs)
	}
	if cl != nil {
		d.f("listener=%d,%d;", cl.mesgs, cl.fields)
	}
	d.f("log=%d,%s;", logw.Len(), c15Hex([]byte(logw.String())))
	return d.sum()
}

// ---------------------------------------------------------------------------------------------------------
// decode_raw

var errC15Stop = errors.New("c15: stop")

func c15GenDecodeRaw(c *c15Cfg, r *rng) c15Op {
	fx := c.pick(r)
	buffered := r.chance(1, 2)
	stopAfter := 0
	if r.chance(1, 5) {
		stopAfter = 1 + r.intn(200)
	}
	return c15Op{name: "decode_raw", params: fmt.Sprintf("fixture=%s bufio=%t stop_after=%d", fx.name, buffered, stopAfter),
		mk: func(e *c15Env) func() string {
			var rd io.Reader
			if buffered {
				rd = bufio.NewReaderSize(c15NewReader(fx.data, e.pr, 3, 700), 1024)
			} else {
				rd = c15NewReader(fx.data, e.pr, 200, 0) // one Read per io.ReadFull: very many calls, yield rarely
			}
			return func() string {
				d := c15NewDig()
				dec := decoder.NewRaw() // own, ~130 KB
				var cnt [4]int
				calls := 0
				n, err := dec.Decode(rd, func(flag decoder.RawFlag, b []byte) error {
					calls++
					if int(flag) < len(cnt) {
						cnt[flag]++
					}
					d.f("%d,", flag)
					d.bytes(b)
					if stopAfter > 0 && calls >= stopAfter {
						return errC15Stop
					}
					return nil
				})
				d.tag("n=%d cnt=%v", n, cnt)
				d.f("flagnames=%s/%s;", decoder.RawFlagMesgDef, decoder.RawFlag(9))
				d.errTag("raw", err)
				return d.sum()
			}
		}}
}

// ---------------------------------------------------------------------------------------------------------
// encode / encode_stream

type c15EncParams struct {
	pv        int // 0 none, 1 V1, 2 V2
	bigEndian bool
	hdr       int // 0 none, 1 normal, 2 compressed timestamp
	local     byte
	wbs       int // -1 default
	preserve  bool
	ctx       bool
	sink      int
}

func c15RandEncParams(r *rng, sinks ...int) c15EncParams {
	p := c15EncParams{pv: r.pick(0, 0, 1, 2, 2), bigEndian: r.chance(1, 3), hdr: r.pick(0, 1, 1, 2, 2), wbs: r.pick(-1, -1, 0, 64, 1000, 8192),
		preserve: r.chance(1, 4), ctx: r.chance(1, 4), sink: sinks[r.intn(len(sinks))]}
	switch p.hdr {
	case 1:
		p.local = byte(r.intn(16))
	case 2:
		p.local = byte(r.intn(4))
	}
	return p
}

func (p c15EncParams) String() string {
	return fmt.Sprintf("protocol=%d big_endian=%t header_option=%d local_mesg_type=%d write_buffer=%d preserve_invalid=%t ctx=%t writer=%s",
		p.pv, p.bigEndian, p.hdr, p.local, p.wbs, p.preserve, p.ctx, c15SinkNames[p.sink])
}

func (p c15EncParams) options() []encoder.Option {
	var o []encoder.Option
	switch p.pv {
	case 1:
		o = append(o, encoder.WithProtocolVersion(proto.V1))
	case 2:
		o = append(o, encoder.WithProtocolVersion(proto.V2))
	}
	if p.bigEndian {
		o = append(o, encoder.WithBigEndian())
	}
	switch p.hdr {
	case 1:
		o = append(o, encoder.WithHeaderOption(encoder.HeaderOptionNormal, p.local)) // up to local+1 definitions interleaved
	case 2:
		o = append(o, encoder.WithHeaderOption(encoder.HeaderOptionCompressedTimestamp, p.local))
	}
	if p.wbs >= 0 {
		o = append(o, encoder.WithWriteBufferSize(p.wbs))
	}
	if p.preserve {
		o = append(o, encoder.WithMessageValidator(encoder.NewMessageValidator(encoder.ValidatorWithPreserveInvalidValues())))
	}
	return o
}

// c15EncInput: the operation's own FIT values -- decoded inside the operation from its own copy of the
// fixture bytes, or synthetic when asked for / when the fixture yields nothing.
func c15EncInput(c *c15Cfg, fx *c15Fixture, synthetic bool, sub uint64, pr *rng) []*proto.FIT {
	if !synthetic {
		fits, _ := c15OwnFits(fx, pr, c.maxMesgs)
		if len(fits) > 0 {
			return fits
		}
	}
	r := newRng(sub)
	return []*proto.FIT{c15Synthetic(sub, 20+r.intn(200))}
}

func c15GenEncode(c *c15Cfg, r *rng) c15Op {
	fx := c.pick(r)
	synthetic := r.chance(1, 4)
	sub := r.u64()
	p := c15RandEncParams(r, 0, 1, 2)
	return c15Op{name: "encode", params: fmt.Sprintf("fixture=%s synthetic=%t sub=%#x %s", fx.name, synthetic, sub, p),
		mk: func(e *c15Env) func() string {
			return func() string {
				d := c15NewDig()
				fits := c15EncInput(c, fx, synthetic, sub, e.pr)
				sink := c15NewSink(p.sink, e.pr, 4)
				enc := encoder.New(sink.w, p.options()...)
				for i, fit := range fits {
					var err error
					if p.ctx {
						err = enc.EncodeWithContext(context.Background(), fit)
					} else {
						err = enc.Encode(fit)
					}
					d.f("E%d;", i)
					d.errTag("encode", err)
					d.header(&fit.FileHeader)
					d.f("C%d,N%d;", fit.CRC, len(fit.Messages))
				}
				d.tag("fits=%d bytes=%d", len(fits), len(sink.get()))
				d.bytes(sink.get())
				return d.sum()
			}
		}}
}

func c15GenEncodeStream(c *c15Cfg, r *rng) c15Op {
	fx := c.pick(r)
	synthetic := r.chance(1, 4)
	sub := r.u64()
	p := c15RandEncParams(r, 1, 1, 1, 1, 2, 2, 2, 0) // sink 0 (io.Writer only): NewStream must refuse it
	reset := r.chance(1, 4)
	return c15Op{name: "encode_stream", params: fmt.Sprintf("fixture=%s synthetic=%t sub=%#x reset_reuse=%t %s", fx.name, synthetic, sub, reset, p),
		mk: func(e *c15Env) func() string {
			return func() string {
				d := c15NewDig()
				fits := c15EncInput(c, fx, synthetic, sub, e.pr)
				sink := c15NewSink(p.sink, e.pr, 4)
				senc, err := encoder.NewStream(sink.w, p.options()...)
				d.errTag("newstream", err)
				if err != nil {
					return d.sum()
				}
				write := func() {
					for i, fit := range fits {
						var werr error
						for j := range fit.Messages {
							if werr = senc.WriteMessage(&fit.Messages[j]); werr != nil {
								d.f("W%d,%d;", i, j)
								break
							}
						}
						d.errTag("write", werr)
						d.errTag("completed", senc.SequenceCompleted())
					}
				}
				write()
				d.tag("fits=%d bytes=%d", len(fits), len(sink.get()))
				d.bytes(sink.get())
				if reset { // the same stream encoder, reset onto a second writer, fresh input
					fits = c15EncInput(c, fx, synthetic, sub, e.pr)
					sink2 := c15NewSink(3-p.sink, e.pr, 4)
					d.err(senc.Reset(sink2.w, p.options()...))
					write()
					d.bytes(sink2.get())
				}
				return d.sum()
			}
		}}
}

// ---------------------------------------------------------------------------------------------------------
// proto_marshal

func c15IsSlice(t proto.Type) bool { return t >= proto.TypeSliceBool && t <= proto.TypeSliceString }

func c15GenProtoMarshal(c *c15Cfg, r *rng) c15Op {
	fx := c.pickSmall(r)
	synthetic := r.chance(1, 5)
	sub := r.u64()
	arch := byte(r.intn(2))
	preserve := r.chance(1, 3)
	return c15Op{name: "proto_marshal", params: fmt.Sprintf("fixture=%s synthetic=%t sub=%#x arch=%d preserve_invalid=%t", fx.name, synthetic, sub, arch, preserve),
		mk: func(e *c15Env) func() string {
			return func() string {
				d := c15NewDig()
				y := c15Yield{e.pr, 32}
				fits := c15EncInput(c, fx, synthetic, sub, e.pr)
				v1, v2 := proto.NewValidator(proto.V1), proto.NewValidator(proto.V2)
				var vopts []encoder.ValidatorOption
				if preserve {
					vopts = append(vopts, encoder.ValidatorWithPreserveInvalidValues())
				}
				mv := encoder.NewMessageValidator(vopts...)
				buf := make([]byte, 0, 1024)
				for _, fit := range fits {
					if fit.FileHeader.DataType == "" { // synthetic input: MarshalAppend requires a filled header
						fit.FileHeader = proto.FileHeader{Size: 14, ProtocolVersion: proto.V2, ProfileVersion: profile.Version, DataType: proto.DataTypeFIT}
					}
					hb, err := fit.FileHeader.MarshalAppend(buf[:0])
					d.bytes(hb)
					d.err(err)
					for i := range fit.Messages {
						y.maybe()
						m := &fit.Messages[i]
						md, err := proto.NewMessageDefinition(m)
						d.err(err)
						if md != nil {
							md.Architecture = arch
							b, err := md.MarshalAppend(buf[:0])
							d.bytes(b)
							d.err(err)
							d.err(v1.ValidateMessageDefinition(md))
							d.err(v2.ValidateMessageDefinition(md))
						}
						b, err := m.MarshalAppend(buf[:0], arch)
						d.bytes(b)
						d.err(err)
						for j := range m.Fields {
							f := &m.Fields[j]
							vb, err := f.Value.MarshalAppend(nil, arch)
							d.bytes(vb)
							d.err(err)
							if err == nil && len(vb) > 0 && f.FieldBase != nil && len(vb)%int(max(f.BaseType.Size(), 1)) == 0 {
								back, err := proto.UnmarshalValue(vb, arch, f.BaseType, f.Type, c15IsSlice(f.Value.Type()))
								d.value(back)
								d.err(err)
							}
						}
						d.err(v1.ValidateMessage(m))
						d.err(v2.ValidateMessage(m))
						d.err(mv.Validate(m)) // rewrites the operation's own message
						d.mesg(m)
					}
					mv.Reset()
					d.tag("mesgs=%d", len(fit.Messages))
				}
				return d.sum()
			}
		}}
}

// ---------------------------------------------------------------------------------------------------------
// mesgdef_shared_nil_factory / mesgdef_shared_options

var c15Convertible = map[typedef.MesgNum]bool{ // the cases of c15Convert; read only
	typedef.MesgNumFileId: true, typedef.MesgNumRecord: true, typedef.MesgNumSession: true, typedef.MesgNumLap: true,
	typedef.MesgNumEvent: true, typedef.MesgNumDeviceInfo: true, typedef.MesgNumActivity: true, typedef.MesgNumLength: true,
	typedef.MesgNumHr: true, typedef.MesgNumUserProfile: true, typedef.MesgNumSport: true, typedef.MesgNumDeveloperDataId: true,
	typedef.MesgNumFieldDescription: true, typedef.MesgNumFileCreator: true, typedef.MesgNumWorkout: true,
	typedef.MesgNumWorkoutStep: true, typedef.MesgNumMonitoring: true, typedef.MesgNumMonitoringInfo: true,
	typedef.MesgNumWeightScale: true, typedef.MesgNumDeviceSettings: true, typedef.MesgNumZonesTarget: true,
	typedef.MesgNumTimeInZone: true, typedef.MesgNumSoftware: true,
}

// c15Convert: proto.Message -> typed message -> proto.Message for the common message types.
func c15Convert(m *proto.Message, o *mesgdef.Options) (proto.Message, bool) {
	switch m.Num {
	case typedef.MesgNumFileId:
		return mesgdef.NewFileId(m).ToMesg(o), true
	case typedef.MesgNumRecord:
		return mesgdef.NewRecord(m).ToMesg(o), true
	case typedef.MesgNumSession:
		return mesgdef.NewSession(m).ToMesg(o), true
	case typedef.MesgNumLap:
		return mesgdef.NewLap(m).ToMesg(o), true
	case typedef.MesgNumEvent:
		return mesgdef.NewEvent(m).ToMesg(o), true
	case typedef.MesgNumDeviceInfo:
		return mesgdef.NewDeviceInfo(m).ToMesg(o), true
	case typedef.MesgNumActivity:
		return mesgdef.NewActivity(m).ToMesg(o), true
	case typedef.MesgNumLength:
		return mesgdef.NewLength(m).ToMesg(o), true
	case typedef.MesgNumHr:
		return mesgdef.NewHr(m).ToMesg(o), true
	case typedef.MesgNumUserProfile:
		return mesgdef.NewUserProfile(m).ToMesg(o), true
	case typedef.MesgNumSport:
		return mesgdef.NewSport(m).ToMesg(o), true
	case typedef.MesgNumDeveloperDataId:
		return mesgdef.NewDeveloperDataId(m).ToMesg(o), true
	case typedef.MesgNumFieldDescription:
		return mesgdef.NewFieldDescription(m).ToMesg(o), true
	case typedef.MesgNumFileCreator:
		return mesgdef.NewFileCreator(m).ToMesg(o), true
	case typedef.MesgNumWorkout:
		return mesgdef.NewWorkout(m).ToMesg(o), true
	case typedef.MesgNumWorkoutStep:
		return mesgdef.NewWorkoutStep(m).ToMesg(o), true
	case typedef.MesgNumMonitoring:
		return mesgdef.NewMonitoring(m).ToMesg(o), true
	case typedef.MesgNumMonitoringInfo:
		return mesgdef.NewMonitoringInfo(m).ToMesg(o), true
	case typedef.MesgNumWeightScale:
		return mesgdef.NewWeightScale(m).ToMesg(o), true
	case typedef.MesgNumDeviceSettings:
		return mesgdef.NewDeviceSettings(m).ToMesg(o), true
	case typedef.MesgNumZonesTarget:
		return mesgdef.NewZonesTarget(m).ToMesg(o), true
	case typedef.MesgNumTimeInZone:
		return mesgdef.NewTimeInZone(m).ToMesg(o), true
	case typedef.MesgNumSoftware:
		return mesgdef.NewSoftware(m).ToMesg(o), true
	}
	return proto.Message{}, false
}

const (
	c15OptNilFactory      = iota // the round's shared &mesgdef.Options{} (Factory nil)
	c15OptNil                    // nil options
	c15OptPreset                 // the round's shared options with Factory preset
	c15OptOwnDefault             // the operation's own value from mesgdef.DefaultOptions(), customised by the operation
	c15OptOwnDefaultPlain        // the same, IncludeExpandedFields left as it came
)

var c15OptNames = []string{"shared_nil_factory", "nil", "shared_preset", "own_default_customised", "own_default"}

// c15MesgdefOp: the messages are the operation's own (decoded in mk from its own copy of the fixture);
// the concurrent part is only the typed conversion.
func c15MesgdefOp(c *c15Cfg, r *rng, name string, optKind int) c15Op {
	fx := c.pickSmall(r)
	synthetic := r.chance(1, 6)
	sub := r.u64()
	offPermille := r.intn(1000)
	count := 40 + r.intn(c.maxMesgs)
	lead := r.intn(64)
	return c15Op{name: name, params: fmt.Sprintf("fixture=%s synthetic=%t sub=%#x options=%s window=%d/1000+%d lead=%d", fx.name, synthetic, sub,
		c15OptNames[optKind], offPermille, count, lead),
		mk: func(e *c15Env) func() string {
			var all []proto.Message
			for _, fit := range c15EncInput(&c15Cfg{maxMesgs: 0}, fx, synthetic, sub, e.pr) {
				all = append(all, fit.Messages...)
			}
			// The window: one leading message whose type varies from operation to operation (so that the first
			// conversions of a round -- the ones that find the shared Factory nil -- are of different types),
			// then the first messages of the file (file_id, ...), then a slice from the middle.
			var kinds []typedef.MesgNum
			first := map[typedef.MesgNum]int{}
			for i := range all {
				if _, seen := first[all[i].Num]; !seen && c15Convertible[all[i].Num] {
					first[all[i].Num] = i
					kinds = append(kinds, all[i].Num)
				}
			}
			var win []proto.Message
			if len(kinds) > 0 {
				win = append(win, all[first[kinds[lead%len(kinds)]]])
			}
			head := min(len(all), 8)
			off := head + (len(all)-head)*offPermille/1000
			win = append(append(win, all[:head]...), all[off:min(len(all), off+count)]...)
			var o *mesgdef.Options
			switch optKind {
			case c15OptNilFactory:
				o = e.nilOpts
			case c15OptPreset:
				o = e.preset
			}
			y := c15Yield{e.pr, 16}
			return func() string {
				d := c15NewDig()
				conv := 0
				switch optKind {
				case c15OptOwnDefault: // documented use: take the defaults, adjust the own copy
					o = mesgdef.DefaultOptions()
					o.IncludeExpandedFields = true
				case c15OptOwnDefaultPlain:
					o = mesgdef.DefaultOptions()
					o.IncludeExpandedFields = false
				}
				for i := range win {
					out, ok := c15Convert(&win[i], o)
					if !ok {
						d.f("skip%d;", win[i].Num)
						continue
					}
					conv++
					d.mesg(&out)
					y.maybe()
				}
				d.tag("converted=%d/%d", conv, len(win))
				return d.sum()
			}
		}}
}

func c15GenMesgdefNilFactory(c *c15Cfg, r *rng) c15Op {
	return c15MesgdefOp(c, r, "mesgdef_tomesg_shared_nil_factory", c15OptNilFactory)
}

func c15GenMesgdefShared(c *c15Cfg, r *rng) c15Op {
	return c15MesgdefOp(c, r, "mesgdef_tomesg", r.pick(c15OptNil, c15OptPreset, c15OptNil, c15OptOwnDefault, c15OptOwnDefaultPlain))
}

// ---------------------------------------------------------------------------------------------------------
// filedef_build

func c15BuildFile(t typedef.File, ms []proto.Message) filedef.File {
	switch t {
	case typedef.FileActivity:
		return filedef.NewActivity(ms...)
	case typedef.FileActivitySummary:
		return filedef.NewActivitySummary(ms...)
	case typedef.FileBloodPressure:
		return filedef.NewBloodPressure(ms...)
	case typedef.FileCourse:
		return filedef.NewCourse(ms...)
	case typedef.FileDevice:
		return filedef.NewDevice(ms...)
	case typedef.FileGoals:
		return filedef.NewGoals(ms...)
	case typedef.FileMonitoringA, typedef.FileMonitoringB:
		return filedef.NewMonitoringAB(ms...)
	case typedef.FileMonitoringDaily:
		return filedef.NewMonitoringDaily(ms...)
	case typedef.FileSchedules:
		return filedef.NewSchedules(ms...)
	case typedef.FileSegment:
		return filedef.NewSegment(ms...)
	case typedef.FileSegmentList:
		return filedef.NewSegmentList(ms...)
	case typedef.FileSettings:
		return filedef.NewSettings(ms...)
	case typedef.FileSport:
		return filedef.NewSport(ms...)
	case typedef.FileTotals:
		return filedef.NewTotals(ms...)
	case typedef.FileWeight:
		return filedef.NewWeight(ms...)
	case typedef.FileWorkout:
		return filedef.NewWorkout(ms...)
	}
	return filedef.NewActivity(ms...)
}

func c15GenFiledef(c *c15Cfg, r *rng) c15Op {
	fx := c.pick(r)
	synthetic := r.chance(1, 6)
	sub := r.u64()
	forced := []typedef.File{typedef.FileInvalid, typedef.FileInvalid, typedef.FileInvalid, typedef.FileActivity, typedef.FileCourse, typedef.FileWorkout}[r.intn(6)]
	return c15Op{name: "filedef_build", params: fmt.Sprintf("fixture=%s synthetic=%t sub=%#x forced_type=%s", fx.name, synthetic, sub, forced),
		mk: func(e *c15Env) func() string {
			fits := c15EncInput(c, fx, synthetic, sub, e.pr) // own messages
			return func() string {
				d := c15NewDig()
				for _, fit := range fits {
					t := forced
					if t == typedef.FileInvalid {
						t = c15FileIdType(fit.Messages) // by the file_id of the fixture; default Activity
					}
					f := c15BuildFile(t, fit.Messages)
					d.tag("%T", f)
					f1 := f.ToFIT(nil)
					d.tag("%d->%d", len(fit.Messages), len(f1.Messages))
					d.fit(&f1, c.maxMesgs)
					f2 := f.ToFIT(e.preset) // shared, Factory preset: only read
					d.fit(&f2, c.maxMesgs)
				}
				return d.sum()
			}
		}}
}

// ---------------------------------------------------------------------------------------------------------
// listener

func c15ListenerOpts(buf int) []filedef.Option {
	if buf <= 0 { // never WithChannelBuffer(0): a known deadlock, another property's business
		return nil
	}
	return []filedef.Option{filedef.WithChannelBuffer(uint(buf))}
}

func c15GenListener(c *c15Cfg, r *rng) c15Op {
	fx1, fx2 := c.pickSmall(r), c.pickTiny(r) // a listener costs four channel operations per message
	for try := 0; !c.thorough && len(fx1.data) > 70<<10 && try < 8; try++ {
		fx1 = c.pickSmall(r) // quick tier: the smaller mid-size fixtures only
	}
	buf1, buf2 := r.pick(-1, 1, 2, 128), r.pick(-1, -1, 1, 2, 128)
	mode := r.intn(3) // 0 broadcast only, 1 broadcast only + mesg copy, 2 retain messages too
	reuse := r.chance(2, 3)
	if c.dev != nil && r.chance(1, 2) { // developer fields handed over by a decoder that reuses its scratch array for the next message
		fx1 = c.dev
		if r.chance(1, 2) {
			mode = 0
		}
	}
	return c15Op{name: "listener", params: fmt.Sprintf("fixture=%s then=%s channel_buffer=%d then=%d mode=%d reuse=%t", fx1.name, fx2.name, buf1, buf2, mode, reuse),
		mk: func(e *c15Env) func() string {
			rd1 := c15NewReader(fx1.data, e.pr, 3, 500)
			rd2 := c15NewReader(fx2.data, e.pr, 3, 500)
			return func() string {
				d := c15NewDig()
				lis := filedef.NewListener(c15ListenerOpts(buf1)...) // own listener (and its goroutine)
				defer lis.Close()
				run := func(rd *c15Reader, fx *c15Fixture) {
					opts := []decoder.Option{decoder.WithMesgListener(lis)}
					switch mode {
					case 0:
						opts = append(opts, decoder.WithBroadcastOnly())
					case 1:
						opts = append(opts, decoder.WithBroadcastOnly(), decoder.WithBroadcastMesgCopy())
					}
					dec := decoder.New(rd, opts...)
					for seq := 0; seq < 64 && dec.Next(); seq++ {
						fit, err := dec.Decode()
						f := lis.File() // closes the listener for this sequence and waits for its goroutine
						d.f("L%d;", seq)
						d.errTag("decode", err)
						if err != nil {
							d.f("%T;", f)
							break
						}
						d.tag("%T", f)
						d.f("retained=%d;", len(fit.Messages))
						if f != nil {
							out := f.ToFIT(nil)
							d.tag("%s:%d", c15FileIdType(out.Messages), len(out.Messages))
							d.mesgs(out.Messages, c.maxMesgs)
							if fx == c.dev && seq == 0 { // two objects, no shared memory: what the listener built does not live in the decoder's scratch arrays
								if ref, rerr := decoder.New(bytes.NewReader(c.dev.data)).Decode(); rerr == nil {
									want := c15BuildFile(c15FileIdType(ref.Messages), ref.Messages).ToFIT(nil)
									a, b := c15NewDig(), c15NewDig()
									a.mesgs(out.Messages, 0)
									b.mesgs(want.Messages, 0)
									if a.sum() != b.sum() {
										c15OutMu.Lock()
										emitJSON("FAIL", "", map[string]any{"phase": "listener", "op": "listener", "kind": "the file a listener built from a broadcast-only decoder differs from the file built from the decoded messages (aliasing between the two objects)",
											"fixture": c.dev.name, "mode": mode, "channel_buffer": buf1, "messages": len(out.Messages), "seed": c.seed})
										c15OutMu.Unlock()
									}
								}
							}
						}
					}
				}
				run(rd1, fx1)
				if reuse { // the same goroutine reuses the same listener for a second decode
					lis.Reset(c15ListenerOpts(buf2)...)
					run(rd2, fx2)
				}
				lis.Close()
				return d.sum()
			}
		}}
}

type c15DefListener struct {
	d            *c15Dig
	defs, fields int
	mesgs        int
}

func (l *c15DefListener) OnMesgDef(md proto.MessageDefinition) {
	l.defs++
	l.fields += len(md.FieldDefinitions)
	l.d.f("D%d,%d,%d,%d,%v,%v;", md.Header, md.Reserved, md.Architecture, md.MesgNum, md.FieldDefinitions, md.DeveloperFieldDefinitions)
}

func (l *c15DefListener) OnMesg(m proto.Message) { l.mesgs++ }

func c15GenListenerMesgDef(c *c15Cfg, r *rng) c15Op {
	fx := c.pick(r)
	both := r.chance(1, 2)
	return c15Op{name: "listener_mesgdef", params: fmt.Sprintf("fixture=%s also_mesg_listener=%t", fx.name, both),
		mk: func(e *c15Env) func() string {
			rd := c15NewReader(fx.data, e.pr, 3, 500)
			return func() string {
				d := c15NewDig()
				l := &c15DefListener{d: d}
				opts := []decoder.Option{decoder.WithMesgDefListener(l), decoder.WithBroadcastOnly()}
				if both {
					opts = append(opts, decoder.WithMesgListener(l))
				}
				dec := decoder.New(rd, opts...)
				for seq := 0; seq < 64 && dec.Next(); seq++ {
					fit, err := dec.Decode()
					d.f("Q%d;", seq)
					d.errTag("decode", err)
					if err != nil {
						break
					}
					d.header(&fit.FileHeader)
					d.f("C%d,N%d;", fit.CRC, len(fit.Messages))
				}
				d.tag("defs=%d fields=%d mesgs=%d", l.defs, l.fields, l.mesgs)
				return d.sum()
			}
		}}
}

// ---------------------------------------------------------------------------------------------------------
// opener_pool

// probeOpenOK: which fixtures the opener pattern decodes without error (driver goroutine, own decoder).
func (c *c15Cfg) probeOpenOK() []*c15Fixture {
	c.openOnce.Do(func() {
		for _, fx := range c.all {
			if len(fx.data) > 300<<10 {
				continue
			}
			if _, err := c15OpenerDecode(context.Background(), decoder.New(nil), c15NewReader(fx.data, newRng(1), 1<<30, 0)); err == nil {
				c.openOK = append(c.openOK, fx)
			}
		}
		if len(c.openOK) == 0 {
			c.openOK = c.all
		}
	})
	return c.openOK
}

// c15OpenerDecode: the decode loop of cmd/fitactivity/opener with a given (pooled) decoder.
func c15OpenerDecode(ctx context.Context, dec *decoder.Decoder, rd io.Reader) (fits []*proto.FIT, err error) {
	dec.Reset(rd)
	for dec.Next() {
		var fileId *mesgdef.FileId
		if fileId, err = dec.PeekFileId(); err != nil {
			return
		}
		if fileId.Type != typedef.FileActivity {
			if err = dec.Discard(); err != nil {
				return
			}
			continue
		}
		var fit *proto.FIT
		if fit, err = dec.DecodeWithContext(ctx); err != nil {
			return
		}
		fits = append(fits, fit)
	}
	return
}

func c15SortedFitDigest(c *c15Cfg, fits []*proto.FIT) string {
	ds := make([]string, len(fits))
	for i, fit := range fits {
		d := c15NewDig()
		d.fit(fit, c.maxMesgs)
		ds[i] = d.sum()
	}
	sort.Strings(ds) // Open returns results in completion order
	return fmt.Sprintf("%s activity_fits=%d", c15Hex([]byte(strings.Join(ds, ","))), len(ds))
}

func c15GenOpener(c *c15Cfg, r *rng) c15Op {
	ok := c.probeOpenOK()
	isOK := map[*c15Fixture]bool{}
	for _, fx := range ok {
		isOK[fx] = true
	}
	n := 1 + r.intn(5) // <= NumCPU, so an early error return of Open never leaves a worker blocked
	if !c.thorough {
		n = 1 + r.intn(3)
	}
	var paths, names []string
	for i := 0; i < n; i++ {
		fx := ok[r.intn(len(ok))]
		for try := 0; try < 8; try++ { // the usual size bias, restricted to the fixtures that open
			if cand := c.pickSmall(r); isOK[cand] {
				fx = cand
				break
			}
		}
		paths = append(paths, fx.path)
		names = append(names, fx.name)
	}
	bad := ""
	if r.chance(1, 8) { // exactly one failing path: Open returns that error
		if r.chance(1, 2) {
			bad = "/nonexistent/c15.fit"
		} else {
			for _, fx := range c.all {
				if !isOK[fx] && len(fx.data) < 300<<10 {
					bad = fx.path
					break
				}
			}
		}
		if bad != "" {
			paths = append(paths, bad)
			names = append(names, "BAD:"+bad)
		}
	}
	return c15Op{name: "opener_open", params: fmt.Sprintf("paths=%v", names),
		mk: func(e *c15Env) func() string {
			own := append([]string(nil), paths...)
			return func() string {
				fits, err := opener.Open(context.Background(), own)
				if err != nil {
					return "ERR"
				}
				return c15SortedFitDigest(c, fits)
			}
		}}
}

// c15DecPool: the harness's own pool of decoders, shared by the operations of a round like opener's pool is
// shared by its workers: Get, Reset(reader), decode, Put.
var c15DecPool = sync.Pool{New: func() any { return decoder.New(nil) }}

func c15GenOwnPool(c *c15Cfg, r *rng) c15Op {
	fx := c.pick(r)
	style := r.intn(2) // 0: the opener loop (peek, discard non-activity, DecodeWithContext); 1: a plain decode variant
	variant := r.pick(0, 1, 2, 5, 6)
	rbs := r.pick(0, 0, 765, 2048)
	return c15Op{name: "own_pool_decode", params: fmt.Sprintf("fixture=%s style=%d variant=%s readbuf=%d", fx.name, style, c15DecodeVariants[variant], rbs),
		mk: func(e *c15Env) func() string {
			rd := c15NewReader(fx.data, e.pr, 3, 700)
			return func() string {
				dec := c15DecPool.Get().(*decoder.Decoder)
				defer c15DecPool.Put(dec)
				if style == 0 {
					fits, err := c15OpenerDecode(context.Background(), dec, rd)
					if err != nil {
						return "ERR:" + err.Error()
					}
					return c15SortedFitDigest(c, fits)
				}
				return c15RunDecode(c, rd, variant, rbs, false, 0, dec)
			}
		}}
}
