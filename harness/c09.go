package main

import (
	"bytes"
	"errors"
	"fmt"
	"io"

	"github.com/muktihari/fit/decoder"
	"github.com/muktihari/fit/encoder"
	"github.com/muktihari/fit/proto"
)

func init() { cmds["c09"] = c09; cmds["c11"] = c11 }

// scripted destination: a byte vector with a cursor; operation failAt (counting Write/Seek/WriteAt) fails, a failing
// Write/WriteAt first takes min(accept, len-1) bytes.
type destCore struct {
	data   []byte
	cur    int
	ops    int
	failAt int
	accept int
	log    []string
}

var errDest = errors.New("injected destination error")

func (d *destCore) putAt(at int, p []byte) {
	for len(d.data) < at+len(p) {
		d.data = append(d.data, 0)
	}
	copy(d.data[at:], p)
}
func (d *destCore) write(p []byte) (int, error) {
	idx := d.ops
	d.ops++
	if idx == d.failAt {
		n := minInt(d.accept, len(p)-1)
		if n < 0 {
			n = 0
		}
		d.putAt(d.cur, p[:n])
		d.cur += n
		d.log = append(d.log, fmt.Sprintf("Write(%d bytes)->%d,err", len(p), n))
		return n, errDest
	}
	d.putAt(d.cur, p)
	d.cur += len(p)
	d.log = append(d.log, fmt.Sprintf("Write(%d bytes)", len(p)))
	return len(p), nil
}
func (d *destCore) seek(off int64, whence int) (int64, error) {
	idx := d.ops
	d.ops++
	if idx == d.failAt {
		d.log = append(d.log, fmt.Sprintf("Seek(%d)->err", off))
		return int64(d.cur), errDest
	}
	switch whence {
	case io.SeekCurrent:
		d.cur += int(off)
	case io.SeekStart:
		d.cur = int(off)
	case io.SeekEnd:
		d.cur = len(d.data) + int(off)
	}
	d.log = append(d.log, fmt.Sprintf("Seek(%d)", off))
	return int64(d.cur), nil
}
func (d *destCore) writeAt(p []byte, off int64) (int, error) {
	idx := d.ops
	d.ops++
	if idx == d.failAt {
		n := minInt(d.accept, len(p)-1)
		if n < 0 {
			n = 0
		}
		d.putAt(int(off), p[:n])
		d.log = append(d.log, fmt.Sprintf("WriteAt(%d bytes,%d)->%d,err", len(p), off, n))
		return n, errDest
	}
	d.putAt(int(off), p)
	d.log = append(d.log, fmt.Sprintf("WriteAt(%d bytes,%d)", len(p), off))
	return len(p), nil
}

type plainDest struct{ c *destCore }
type writerAtDest struct{ c *destCore }
type seekerDest struct{ c *destCore }
type bothDest struct{ c *destCore }

func (d plainDest) Write(p []byte) (int, error)                  { return d.c.write(p) }
func (d writerAtDest) Write(p []byte) (int, error)               { return d.c.write(p) }
func (d writerAtDest) WriteAt(p []byte, off int64) (int, error)  { return d.c.writeAt(p, off) }
func (d seekerDest) Write(p []byte) (int, error)                 { return d.c.write(p) }
func (d seekerDest) Seek(off int64, whence int) (int64, error)   { return d.c.seek(off, whence) }
func (d bothDest) Write(p []byte) (int, error)                   { return d.c.write(p) }
func (d bothDest) WriteAt(p []byte, off int64) (int, error)      { return d.c.writeAt(p, off) }
func (d bothDest) Seek(off int64, whence int) (int64, error)     { return d.c.seek(off, whence) }

var kindNames = []string{"KPlain", "KWriterAt", "KSeeker", "KBoth"}

func newDest(kind int, failAt, accept int) (io.Writer, *destCore) {
	c := &destCore{failAt: failAt, accept: accept}
	switch kind {
	case 0:
		return plainDest{c}, c
	case 1:
		return writerAtDest{c}, c
	case 2:
		return seekerDest{c}, c
	}
	return bothDest{c}, c
}

type runResult struct {
	errs     []bool
	data     []byte
	ops      int
	panicked any
	log      []string
}

// runEncode: batch (chain of Encode calls on one encoder) or stream (WriteMessage*, SequenceCompleted per file); stops at the first error.
func runEncode(ec encCfg, files []encFile, kind int, bufSize int, stream bool, failAt, accept int, presetDS []uint32) (res runResult) {
	w, core := newDest(kind, failAt, accept)
	defer func() {
		if p := recover(); p != nil {
			res.panicked = p
		}
		res.data, res.ops, res.log = core.data, core.ops, core.log
	}()
	opts := append(ec.options(), encoder.WithWriteBufferSize(bufSize))
	if !stream {
		enc := encoder.New(w, opts...)
		for i, f := range files {
			fit := &proto.FIT{FileHeader: proto.FileHeader{Size: f.hsize, ProtocolVersion: f.proto, ProfileVersion: f.profile}, Messages: cloneMessages(f.msgs)}
			if presetDS != nil {
				fit.FileHeader.DataSize = presetDS[i]
			}
			err := enc.Encode(fit)
			res.errs = append(res.errs, err != nil)
			if err != nil {
				return
			}
		}
		return
	}
	senc, err := encoder.NewStream(w, opts...)
	if err != nil {
		res.errs = append(res.errs, true)
		return
	}
	for _, f := range files {
		failed := false
		msgs := cloneMessages(f.msgs)
		for k := range msgs {
			if err := senc.WriteMessage(&msgs[k]); err != nil {
				failed = true
				break
			}
		}
		if !failed {
			failed = senc.SequenceCompleted() != nil
		}
		res.errs = append(res.errs, failed)
		if failed {
			return
		}
	}
	return
}

func coqBools(bs []bool) string {
	items := make([]string, len(bs))
	for i, b := range bs {
		items[i] = coqBool(b)
	}
	return coqList(items)
}

// genWritable: a chain of files all of which the encoder accepts (so that every strategy gets to write).
func (r *rng) genWritable() (encCfg, []encFile, []uint32) {
	for {
		ec, files := r.genChain(true)
		for i := range files {
			files[i].proto, files[i].profile = 0, 0 // as a stream encoder's own header
			if len(files[i].msgs) > 5 {
				files[i].msgs = files[i].msgs[:5]
			}
		}
		ec.headerSize = 14
		for i := range files {
			files[i].hsize = 14
		}
		if len(files) > 2 {
			files = files[:2]
		}
		b, wb, err := encodeChain(ec, files)
		_ = b
		if err != nil {
			continue
		}
		var ds []uint32
		for i := range wb {
			var a, bb, c, d, e, f uint32
			fmt.Sscanf(wb[i], "((%d, %d, %d, %d, %d), %d)", &a, &bb, &c, &d, &e, &f)
			ds = append(ds, d)
		}
		return ec, files, ds
	}
}

func emitWriterCase(ec encCfg, files []encFile, kind, bufSize int, stream bool, failAt, accept int, preset bool, res runResult) {
	fault := "None"
	if failAt >= 0 {
		fault = fmt.Sprintf("(Some (mkfault %d %d))", failAt, accept)
	}
	emit("CASE", fmt.Sprintf("(%s, %s, %s, %s, %s, %s, %s, %s, %s)", ec.coq(), coqEFiles(files), kindNames[kind], coqZ(int64(bufSize)), coqBool(stream), fault, coqBool(preset),
		coqBools(res.errs), coqBytes(res.data)))
}

// c09: the destination content is the same for every writer kind, buffer size, batch/stream and for chains.
func c09(args []string) {
	c, fs := commonFlags("c09", args)
	fs.Parse(args)
	r := newRng(c.seed)
	n := c.n
	if n == 0 {
		n = 40
		if c.tier == "thorough" {
			n = 600
		}
	}
	bufSizes := []int{-1, 0, 1, 7, 64, 4096}
	for i := 0; i < n; i++ {
		ec, files, ds := r.genWritable()
		ref := runEncode(ec, files, 0, 4096, false, -1, 0, nil)
		if ref.panicked != nil || anyTrue(ref.errs) {
			emitJSON("FAIL", "", map[string]any{"kind": "reference-run-failed", "errs": ref.errs, "panic": fmt.Sprint(ref.panicked)})
			continue
		}
		casesLeft := 6
		for kind := 0; kind < 4; kind++ {
			for _, bs := range bufSizes {
				for _, stream := range []bool{false, true} {
					if stream && kind == 0 {
						continue
					}
					for _, preset := range []bool{false, true} {
						if preset && (stream || r.chance(2, 3)) {
							continue
						}
						var p []uint32
						if preset {
							p = ds
						}
						res := runEncode(ec, files, kind, bs, stream, -1, 0, p)
						stat("oracle_configurations", 1)
						if res.panicked != nil || anyTrue(res.errs) || !bytes.Equal(res.data, ref.data) {
							emitJSON("FAIL", "", map[string]any{"kind": "content-depends-on-writer", "writer": kindNames[kind], "bufsize": bs, "stream": stream, "preset_datasize": preset,
								"errs": res.errs, "panic": fmt.Sprint(res.panicked), "cfg": ec.coq(), "input": coqEFiles(files), "got": fmt.Sprintf("%x", res.data), "want": fmt.Sprintf("%x", ref.data), "ops": res.log})
						}
						if casesLeft > 0 && r.chance(1, 6) {
							emitWriterCase(ec, files, kind, bs, stream, -1, 0, preset, res)
							casesLeft--
						}
					}
				}
			}
		}
		if i < 2 {
			emit("SAMPLE", fmt.Sprintf("cfg {%s} chain %d -> %d bytes identical over 4 kinds x %d buffer sizes x batch/stream", ec.coq(), len(files), len(ref.data), len(bufSizes)))
		}
	}
}

func anyTrue(bs []bool) bool {
	for _, b := range bs {
		if b {
			return true
		}
	}
	return false
}

func integrityAccepts(b []byte) bool {
	n, err := decoder.New(bytes.NewReader(b)).CheckIntegrity()
	return err == nil && n > 0
}

// c11: every operation index of the destination fails in turn (after taking 0..len-1 bytes): the call in progress returns an
// error, nothing panics, and what the destination holds is never accepted by the integrity check unless it is exactly the
// content at a boundary between completed sequences.
func c11(args []string) {
	c, fs := commonFlags("c11", args)
	fs.Parse(args)
	r := newRng(c.seed)
	n := c.n
	if n == 0 {
		n = 6
		if c.tier == "thorough" {
			n = 80
		}
	}
	for i := 0; i < n; i++ {
		ec, files, _ := r.genWritable()
		for kind := 0; kind < 4; kind++ {
			for _, bs := range []int{0, 1, 7, 64, 4096} {
				for _, stream := range []bool{false, true} {
					if stream && kind == 0 {
						continue
					}
					clean := runEncode(ec, files, kind, bs, stream, -1, 0, nil)
					if clean.panicked != nil || anyTrue(clean.errs) {
						emitJSON("FAIL", "", map[string]any{"kind": "clean-run-failed", "writer": kindNames[kind], "bufsize": bs})
						continue
					}
					// contents at the boundaries between completed sequences
					boundaries := map[string]bool{"": true}
					for k := 1; k <= len(files); k++ {
						part := runEncode(ec, files[:k], kind, bs, stream, -1, 0, nil)
						boundaries[string(part.data)] = true
					}
					emittedHere := 0
					for k := 0; k < clean.ops; k++ {
						for _, accept := range []int{0, 1, 5, 1 << 20} {
							res := runEncode(ec, files, kind, bs, stream, k, accept, nil)
							stat("oracle_fault_runs", 1)
							js := map[string]any{"writer": kindNames[kind], "bufsize": bs, "stream": stream, "fail_at": k, "accept": accept, "cfg": ec.coq(),
								"input": coqEFiles(files), "ops": res.log, "errs": res.errs}
							if res.panicked != nil {
								js["kind"], js["panic"] = "panic-on-destination-failure", fmt.Sprint(res.panicked)
								emitJSON("FAIL", "", js)
								continue
							}
							if !anyTrue(res.errs) {
								js["kind"] = "destination-failure-not-reported"
								emitJSON("FAIL", "", js)
							}
							if integrityAccepts(res.data) && !boundaries[string(res.data)] {
								js["kind"], js["content"] = "incomplete-output-accepted-by-integrity-check", fmt.Sprintf("%x", res.data)
								emitJSON("FAIL", "", js)
							}
							if emittedHere < 1 && r.chance(1, 12) {
								emitWriterCase(ec, files, kind, bs, stream, k, accept, false, res)
								emittedHere++
							}
						}
					}
				}
			}
		}
		if i < 2 {
			emit("SAMPLE", fmt.Sprintf("cfg {%s} chain %d: every destination operation fails in turn x accept {0,1,5,all-1} x 4 kinds x 5 buffer sizes x batch/stream", ec.coq(), len(files)))
		}
	}
}
