package main

import (
	"bytes"
	"context"
	"errors"
	"fmt"
	"github.com/muktihari/fit/profile/basetype"
	"io"

	"github.com/muktihari/fit/decoder"
	"github.com/muktihari/fit/encoder"
	"github.com/muktihari/fit/profile/factory"
	"github.com/muktihari/fit/profile/untyped/fieldnum"
	"github.com/muktihari/fit/profile/untyped/mesgnum"
	"github.com/muktihari/fit/proto"
)

func init() { cmds["c09"] = c09; cmds["c11"] = c11 }

// scripted destination: a byte vector with a cursor; operation failAt (counting Write/Seek/WriteAt) fails, a failing
// Write/WriteAt first takes min(accept, len-1) bytes.
type destCore struct {
	data   []byte
	cur    int
	ops    int
	failAt int
	accept int
	log    []string
}

var errDest = errors.New("injected destination error")

func (d *destCore) putAt(at int, p []byte) {
	for len(d.data) < at+len(p) {
		d.data = append(d.data, 0)
	}
	copy(d.data[at:], p)
}
func (d *destCore) write(p []byte) (int, error) {
	idx := d.ops
	d.ops++
	if idx == d.failAt {
		n := minInt(d.accept, len(p)-1)
		if n < 0 {
			n = 0
		}
		d.putAt(d.cur, p[:n])
		d.cur += n
		d.log = append(d.log, fmt.Sprintf("Write(%d bytes)->%d,err", len(p), n))
		return n, errDest
	}
	d.putAt(d.cur, p)
	d.cur += len(p)
	d.log = append(d.log, fmt.Sprintf("Write(%d bytes)", len(p)))
	return len(p), nil
}
func (d *destCore) seek(off int64, whence int) (int64, error) {
	idx := d.ops
	d.ops++
	if idx == d.failAt {
		d.log = append(d.log, fmt.Sprintf("Seek(%d)->err", off))
		return int64(d.cur), errDest
	}
	switch whence {
	case io.SeekCurrent:
		d.cur += int(off)
	case io.SeekStart:
		d.cur = int(off)
	case io.SeekEnd:
		d.cur = len(d.data) + int(off)
	}
	d.log = append(d.log, fmt.Sprintf("Seek(%d)", off))
	return int64(d.cur), nil
}
func (d *destCore) writeAt(p []byte, off int64) (int, error) {
	idx := d.ops
	d.ops++
	if idx == d.failAt {
		n := minInt(d.accept, len(p)-1)
		if n < 0 {
			n = 0
		}
		d.putAt(int(off), p[:n])
		d.log = append(d.log, fmt.Sprintf("WriteAt(%d bytes,%d)->%d,err", len(p), off, n))
		return n, errDest
	}
	d.putAt(int(off), p)
	d.log = append(d.log, fmt.Sprintf("WriteAt(%d bytes,%d)", len(p), off))
	return len(p), nil
}

type plainDest struct{ c *destCore }
type writerAtDest struct{ c *destCore }
type seekerDest struct{ c *destCore }
type bothDest struct{ c *destCore }

func (d plainDest) Write(p []byte) (int, error)                 { return d.c.write(p) }
func (d writerAtDest) Write(p []byte) (int, error)              { return d.c.write(p) }
func (d writerAtDest) WriteAt(p []byte, off int64) (int, error) { return d.c.writeAt(p, off) }
func (d seekerDest) Write(p []byte) (int, error)                { return d.c.write(p) }
func (d seekerDest) Seek(off int64, whence int) (int64, error)  { return d.c.seek(off, whence) }
func (d bothDest) Write(p []byte) (int, error)                  { return d.c.write(p) }
func (d bothDest) WriteAt(p []byte, off int64) (int, error)     { return d.c.writeAt(p, off) }
func (d bothDest) Seek(off int64, whence int) (int64, error)    { return d.c.seek(off, whence) }

var kindNames = []string{"KPlain", "KWriterAt", "KSeeker", "KBoth"}

func newDest(kind int, failAt, accept int, pre []byte) (io.Writer, *destCore) {
	c := &destCore{failAt: failAt, accept: accept, data: append([]byte(nil), pre...), cur: len(pre)}
	switch kind {
	case 0:
		return plainDest{c}, c
	case 1:
		return writerAtDest{c}, c
	case 2:
		return seekerDest{c}, c
	}
	return bothDest{c}, c
}

type runResult struct {
	errs     []bool
	data     []byte
	ops      int
	panicked any
	log      []string
}

// runEncode: batch (chain of Encode calls on one encoder) or stream (WriteMessage*, SequenceCompleted per file); stops at the first error.
func runEncode(ec encCfg, files []encFile, kind int, bufSize int, stream bool, failAt, accept int, presetDS []uint32) (res runResult) {
	return runEncodePre(ec, files, kind, bufSize, stream, failAt, accept, presetDS, nil)
}

// runEncodePre: as runEncode, on a destination that already holds pre (cursor at its end), with a fresh encoder.
func runEncodePre(ec encCfg, files []encFile, kind int, bufSize int, stream bool, failAt, accept int, presetDS []uint32, pre []byte) (res runResult) {
	w, core := newDest(kind, failAt, accept, pre)
	defer func() {
		if p := recover(); p != nil {
			res.panicked = p
		}
		res.data, res.ops, res.log = core.data, core.ops, core.log
	}()
	opts := append(ec.options(), encoder.WithWriteBufferSize(bufSize))
	// a reused encoder: first a run with quite another configuration into a throw-away destination, then Reset to this one
	other := encCfg{bigEndian: !ec.bigEndian, headerOpt: encoder.HeaderOptionCompressedTimestamp, localTypes: 3, protoVer: proto.V2, bufSize: 7, headerSize: 14}
	if ec.headerOpt == encoder.HeaderOptionCompressedTimestamp {
		other.headerOpt, other.localTypes = encoder.HeaderOptionNormal, 15
	}
	if !stream {
		enc := encoder.New(w, opts...)
		if ec.reuse {
			junk, _ := newDest(3, -1, 0, nil)
			enc = encoder.New(junk, other.options()...)
			for _, f := range files {
				_ = enc.Encode(&proto.FIT{Messages: cloneMessages(f.msgs)})
			}
			enc.Reset(w, opts...)
		}
		for i, f := range files {
			fit := &proto.FIT{FileHeader: proto.FileHeader{Size: f.hsize, ProtocolVersion: f.proto, ProfileVersion: f.profile}, Messages: cloneMessages(f.msgs)}
			if presetDS != nil {
				fit.FileHeader.DataSize = presetDS[i]
			}
			var err error
			if (kind+bufSize+i)%2 == 1 { // the context variant has its own copy of the write path; same contract
				err = enc.EncodeWithContext(context.Background(), fit)
			} else {
				err = enc.Encode(fit)
			}
			res.errs = append(res.errs, err != nil)
			if err != nil {
				return
			}
		}
		return
	}
	senc, err := encoder.NewStream(w, opts...)
	if err != nil {
		res.errs = append(res.errs, true)
		return
	}
	if ec.reuse {
		junk, _ := newDest(3, -1, 0, nil)
		if senc, err = encoder.NewStream(junk, other.options()...); err != nil {
			res.errs = append(res.errs, true)
			return
		}
		for _, f := range files[:1] { // left in the middle of a sequence: no SequenceCompleted
			msgs := cloneMessages(f.msgs)
			for k := range msgs {
				_ = senc.WriteMessage(&msgs[k])
			}
		}
		if err := senc.Reset(w, opts...); err != nil {
			res.errs = append(res.errs, true)
			return
		}
	}
	for _, f := range files {
		failed := false
		msgs := cloneMessages(f.msgs)
		for k := range msgs {
			if err := senc.WriteMessage(&msgs[k]); err != nil {
				failed = true
				break
			}
		}
		if !failed {
			failed = senc.SequenceCompleted() != nil
		}
		res.errs = append(res.errs, failed)
		if failed {
			return
		}
	}
	return
}

func coqBools(bs []bool) string {
	items := make([]string, len(bs))
	for i, b := range bs {
		items[i] = coqBool(b)
	}
	return coqList(items)
}

// genWritable: a chain of files all of which the encoder accepts (so that every strategy gets to write).
func (r *rng) genWritable() (encCfg, []encFile, []uint32) {
	for {
		ec, files := r.genChain(true)
		for i := range files {
			files[i].proto, files[i].profile = 0, 0 // as a stream encoder's own header
			if len(files[i].msgs) > 5 {
				files[i].msgs = files[i].msgs[:5]
			}
		}
		ec.headerSize = 14
		for i := range files {
			files[i].hsize = 14
		}
		if len(files) > 2 {
			files = files[:2]
		}
		b, wb, err := encodeChain(ec, files)
		_ = b
		if err != nil {
			continue
		}
		var ds []uint32
		for i := range wb {
			var a, bb, c, d, e, f uint32
			fmt.Sscanf(wb[i], "((%d, %d, %d, %d, %d), %d)", &a, &bb, &c, &d, &e, &f)
			ds = append(ds, d)
		}
		return ec, files, ds
	}
}

func emitWriterCase(ec encCfg, files []encFile, kind, bufSize int, stream bool, failAt, accept int, preset bool, res runResult) {
	emitWriterCasePre(ec, files, kind, bufSize, stream, failAt, accept, preset, res, nil)
}

func emitWriterCasePre(ec encCfg, files []encFile, kind, bufSize int, stream bool, failAt, accept int, preset bool, res runResult, pre []byte) {
	fault := "None"
	if failAt >= 0 {
		fault = fmt.Sprintf("(Some (mkfault %d %d))", failAt, accept)
	}
	emit("CASE", fmt.Sprintf("(%s, %s, %s, %s, %s, %s, %s, %s, %s, %s)", ec.coq(), coqEFiles(files), kindNames[kind], coqZ(int64(bufSize)), coqBool(stream), fault, coqBool(preset),
		coqBytes(pre), coqBools(res.errs), coqBytes(res.data)))
}

// genWritableChain: like genWritable, with longer chains, 12-byte headers and (for compressed timestamp headers) timestamps
// that continue from one file of the chain into the next within the 32 s window.
func (r *rng) genWritableChain() (encCfg, []encFile, []uint32) {
	for {
		ec, files := r.genChain(true)
		want := 1 + r.intn(3)
		for len(files) < want {
			_, more := r.genChain(true)
			files = append(files, more[0])
		}
		files = files[:want]
		if want > 1 && r.chance(1, 3) { // the same file again: equal data sizes, so a stream encoder's retained header needs no update
			files[1] = encFile{hsize: files[0].hsize, proto: files[0].proto, profile: files[0].profile, msgs: cloneMessages(files[0].msgs)}
			stat("chain_with_repeated_file", 1)
		}
		hs := byte(14)
		if r.chance(1, 4) {
			hs = 12
		} else if r.chance(1, 8) {
			hs = byte(r.pick(0, 13, 20, 255))
		}
		ec.headerSize = hs
		continueTs := r.chance(1, 2)
		sawTs := !continueTs && r.chance(1, 2) // back and forth inside a 45 s window: the dry run of a plain writer must make the same choices as the real run
		ts := uint32(1000000000 + r.intn(100000))
		for i := range files {
			files[i].proto, files[i].profile, files[i].hsize = 0, 0, hs
			if len(files[i].msgs) > 5 {
				files[i].msgs = files[i].msgs[:5]
			}
			if continueTs || sawTs {
				for mi := range files[i].msgs {
					for fi := range files[i].msgs[mi].Fields {
						f := &files[i].msgs[mi].Fields[fi]
						if f.Num == proto.FieldNumTimestamp && f.Value.Type() == proto.TypeUint32 {
							if sawTs {
								f.Value = proto.Uint32(ts + uint32(r.intn(46)))
								continue
							}
							ts += uint32(r.intn(9))
							f.Value = proto.Uint32(ts)
						}
					}
				}
			}
		}
		_, wb, err := encodeChain(ec, files)
		if err != nil {
			continue
		}
		var ds []uint32
		for i := range wb {
			var a, bb, c, d, e, f uint32
			fmt.Sscanf(wb[i], "((%d, %d, %d, %d, %d), %d)", &a, &bb, &c, &d, &e, &f)
			ds = append(ds, d)
		}
		return ec, files, ds
	}
}

// c09: the destination content is the same for every writer kind, buffer size, batch/stream and for chains.
func c09(args []string) {
	c, fs := commonFlags("c09", args)
	fs.Parse(args)
	r := newRng(c.seed)
	n := c.n
	if n == 0 {
		n = 40
		if c.tier == "thorough" {
			n = 600
		}
	}
	bufSizes := []int{-1, 0, 1, 7, 64, 4096}
	pats := append(tsPatternChains(r), redeclaredChains(r)...)
	for i := -len(pats); i < n; i++ {
		var ec encCfg
		var files []encFile
		var ds []uint32
		if i < 0 { // deterministic corpus: timestamp orders that make a stale compression reference visible
			ec, files = pats[i+len(pats)].ec, pats[i+len(pats)].files
			var err error
			if ds, err = chainDataSizes(ec, files); err != nil {
				continue
			}
			stat("timestamp_pattern_chains", 1)
		} else {
			ec, files, ds = r.genWritableChain()
		}
		stat(fmt.Sprintf("chain_len_%d", len(files)), 1)
		stat(fmt.Sprintf("header_size_%d", files[0].hsize), 1)
		ref := runEncode(ec, files, 0, 4096, false, -1, 0, nil)
		if ref.panicked != nil || anyTrue(ref.errs) {
			emitJSON("FAIL", "", map[string]any{"kind": "reference-run-failed", "errs": ref.errs, "panic": fmt.Sprint(ref.panicked)})
			continue
		}
		casesLeft := 6
		for kind := 0; kind < 4; kind++ {
			for _, bs := range bufSizes {
				for _, stream := range []bool{false, true} {
					if stream && (kind == 0 || files[0].hsize != 14) { // a stream encoder writes its own 14-byte header
						continue
					}
					for _, preset := range []bool{false, true} {
						if preset && (stream || r.chance(2, 3)) {
							continue
						}
						var p []uint32
						if preset {
							p = ds
						}
						res := runEncode(ec, files, kind, bs, stream, -1, 0, p)
						stat("oracle_configurations", 1)
						if res.panicked != nil || anyTrue(res.errs) || !bytes.Equal(res.data, ref.data) {
							emitJSON("FAIL", "", map[string]any{"kind": "content-depends-on-writer", "writer": kindNames[kind], "bufsize": bs, "stream": stream, "preset_datasize": preset,
								"errs": res.errs, "panic": fmt.Sprint(res.panicked), "cfg": ec.coq(), "input": coqEFiles(files), "got": fmt.Sprintf("%x", res.data), "want": fmt.Sprintf("%x", ref.data), "ops": res.log})
						}
						if casesLeft > 0 && r.chance(1, 6) {
							emitWriterCase(ec, files, kind, bs, stream, -1, 0, preset, res)
							casesLeft--
						}
						if r.chance(1, 5) && !(stream && kind == 0) { // the same through an encoder that was used before and Reset
							ec2 := ec
							ec2.reuse = true
							var ds2 []uint32
							if preset {
								ds2 = ds
							}
							res2 := runEncode(ec2, files, kind, bs, stream, -1, 0, ds2)
							stat("oracle_reused_encoder", 1)
							if res2.panicked != nil || anyTrue(res2.errs) || !bytes.Equal(res2.data, ref.data) {
								emitJSON("FAIL", "", map[string]any{"kind": "content-depends-on-what-the-encoder-did-before-Reset", "writer": kindNames[kind], "bufsize": bs, "stream": stream,
									"errs": res2.errs, "panic": fmt.Sprint(res2.panicked), "cfg": ec.coq(), "input": coqEFiles(files), "got": fmt.Sprintf("%x", res2.data), "want": fmt.Sprintf("%x", ref.data)})
							}
						}
					}
				}
			}
		}
		// destination that already holds bytes (an earlier file, or anything), cursor at its end, fresh encoder: plain, seekable and
		// seekable+write-at destinations must append exactly the same bytes and leave what was there untouched
		if i >= 0 && i%2 == 0 {
			pre := append([]byte(nil), ref.data...)
			if r.chance(1, 3) {
				pre = r.bytes(1 + r.intn(40))
			}
			want := append(append([]byte(nil), pre...), ref.data...)
			preCases := 2
			for _, kind := range []int{0, 2, 3} {
				for _, bs := range []int{0, 1, 64, 4096} {
					for _, stream := range []bool{false, true} {
						if stream && (kind == 0 || files[0].hsize != 14) {
							continue
						}
						res := runEncodePre(ec, files, kind, bs, stream, -1, 0, nil, pre)
						stat("oracle_configurations_preexisting", 1)
						if res.panicked != nil || anyTrue(res.errs) || !bytes.Equal(res.data, want) {
							emitJSON("FAIL", "", map[string]any{"kind": "content-depends-on-writer (destination with earlier content)", "writer": kindNames[kind], "bufsize": bs, "stream": stream,
								"errs": res.errs, "panic": fmt.Sprint(res.panicked), "cfg": ec.coq(), "input": coqEFiles(files), "pre": fmt.Sprintf("%x", pre), "got": fmt.Sprintf("%x", res.data), "want": fmt.Sprintf("%x", want), "ops": res.log})
						}
						if preCases > 0 && r.chance(1, 5) {
							emitWriterCasePre(ec, files, kind, bs, stream, -1, 0, false, res, pre)
							preCases--
						}
					}
				}
			}
		}
		if i >= 0 && i < 2 {
			emit("SAMPLE", fmt.Sprintf("cfg {%s} chain %d -> %d bytes identical over 4 kinds x %d buffer sizes x batch/stream", ec.coq(), len(files), len(ref.data), len(bufSizes)))
		}
	}
}

func anyTrue(bs []bool) bool {
	for _, b := range bs {
		if b {
			return true
		}
	}
	return false
}

func integrityAccepts(b []byte) bool {
	n, err := decoder.New(bytes.NewReader(b)).CheckIntegrity()
	return err == nil && n > 0
}

// c11: every operation index of the destination fails in turn (after taking 0..len-1 bytes): the call in progress returns an
// error, nothing panics, and what the destination holds is never accepted by the integrity check unless it is exactly the
// content at a boundary between completed sequences.
func c11(args []string) {
	c, fs := commonFlags("c11", args)
	fs.Parse(args)
	r := newRng(c.seed)
	n := c.n
	if n == 0 {
		n = 6
		if c.tier == "thorough" {
			n = 80
		}
	}
	for i := 0; i < n; i++ {
		ec, files, _ := r.genWritable()
		switch i % 4 {
		case 1: // the same file twice: equal data sizes, a stream encoder's retained header needs no update for the second one
			files = []encFile{files[0], {hsize: files[0].hsize, proto: files[0].proto, profile: files[0].profile, msgs: cloneMessages(files[0].msgs)}}
			stat("fault_chains_with_repeated_file", 1)
		case 3: // a real chain: failures inside and at the start of a later file
			for len(files) < 2 {
				ec, files, _ = r.genWritable()
			}
		}
		stat(fmt.Sprintf("fault_chain_len_%d", len(files)), 1)
		for kind := 0; kind < 4; kind++ {
			for _, bs := range []int{0, 1, 7, 64, 4096} {
				for _, stream := range []bool{false, true} {
					if stream && kind == 0 {
						continue
					}
					clean := runEncode(ec, files, kind, bs, stream, -1, 0, nil)
					if clean.panicked != nil || anyTrue(clean.errs) {
						emitJSON("FAIL", "", map[string]any{"kind": "clean-run-failed", "writer": kindNames[kind], "bufsize": bs})
						continue
					}
					// contents at the boundaries between completed sequences
					boundaries := map[string]bool{"": true}
					for k := 1; k <= len(files); k++ {
						part := runEncode(ec, files[:k], kind, bs, stream, -1, 0, nil)
						boundaries[string(part.data)] = true
					}
					emittedHere := 0
					for k := 0; k < clean.ops; k++ {
						for _, accept := range []int{0, 1, 5, 1 << 20} {
							res := runEncode(ec, files, kind, bs, stream, k, accept, nil)
							stat("oracle_fault_runs", 1)
							js := map[string]any{"writer": kindNames[kind], "bufsize": bs, "stream": stream, "fail_at": k, "accept": accept, "cfg": ec.coq(),
								"input": coqEFiles(files), "ops": res.log, "errs": res.errs}
							if res.panicked != nil {
								js["kind"], js["panic"] = "panic-on-destination-failure", fmt.Sprint(res.panicked)
								emitJSON("FAIL", "", js)
								continue
							}
							if !anyTrue(res.errs) {
								js["kind"] = "destination-failure-not-reported"
								emitJSON("FAIL", "", js)
							}
							if integrityAccepts(res.data) && !boundaries[string(res.data)] {
								js["kind"], js["content"] = "incomplete-output-accepted-by-integrity-check", fmt.Sprintf("%x", res.data)
								emitJSON("FAIL", "", js)
							}
							if emittedHere < 1 && r.chance(1, 12) {
								emitWriterCase(ec, files, kind, bs, stream, k, accept, false, res)
								emittedHere++
							}
						}
					}
				}
			}
		}
		if i < 2 {
			emit("SAMPLE", fmt.Sprintf("cfg {%s} chain %d: every destination operation fails in turn x accept {0,1,5,all-1} x 4 kinds x 5 buffer sizes x batch/stream", ec.coq(), len(files)))
		}
	}
}

func chainDataSizes(ec encCfg, files []encFile) ([]uint32, error) {
	_, wb, err := encodeChain(ec, files)
	if err != nil {
		return nil, err
	}
	var ds []uint32
	for i := range wb {
		var a, bb, c, d, e, f uint32
		fmt.Sscanf(wb[i], "((%d, %d, %d, %d, %d), %d)", &a, &bb, &c, &d, &e, &f)
		ds = append(ds, d)
	}
	return ds, nil
}

// tsPatternChains: records whose timestamps go back and forth across the 32 s reach of the compressed-timestamp reference, alone
// and chained, with the compressed-timestamp header option (local message types 0..3) and without.
func tsPatternChains(r *rng) []oddInput {
	loadFactory()
	base := uint32(1000000000)
	patterns := [][]int{{10, 25, -10}, {1020, 1040, 1000, 1001}, {0, 10, 5, 6}, {31, 0, 32}, {0, 40, 8, 41}, {5, 5, 5}, {0, 31, 62, 30}, {100, 0, 33, 1}}
	mk := func(p []int) []proto.Message {
		msgs := []proto.Message{fileIdMesg(r)}
		for k, off := range p {
			m := proto.Message{Num: mesgnum.Record}
			t := factory.CreateField(mesgnum.Record, proto.FieldNumTimestamp)
			t.Value = proto.Uint32(uint32(int64(base) + int64(off)))
			m.Fields = append(m.Fields, t)
			h := factory.CreateField(mesgnum.Record, fieldnum.RecordHeartRate)
			h.Value = proto.Uint8(uint8(60 + k))
			m.Fields = append(m.Fields, h)
			if k%2 == 1 { // a second shape, so that more than one local message type is in use
				c := factory.CreateField(mesgnum.Record, fieldnum.RecordCadence)
				c.Value = proto.Uint8(uint8(80 + k))
				m.Fields = append(m.Fields, c)
			}
			msgs = append(msgs, m)
		}
		return msgs
	}
	var out []oddInput
	for pi, p := range patterns {
		for _, lt := range []byte{0, 3} {
			ec := encCfg{headerSize: 14, protoVer: proto.V2, localTypes: lt, headerOpt: encoder.HeaderOptionCompressedTimestamp, bigEndian: pi%2 == 1}
			out = append(out, oddInput{ec, []encFile{{hsize: 14, msgs: mk(p)}}})
			out = append(out, oddInput{ec, []encFile{{hsize: 14, msgs: mk(p)}, {hsize: 14, msgs: mk(patterns[(pi+1)%len(patterns)])}}})
		}
	}
	return out
}

// redeclaredChains: chains whose files declare the same (developer data index, field number) with different base types, with
// values that are the invalid sentinel of one declaration and an ordinary value of the other -- every file is validated
// against its own declarations only, whichever encoder writes it.
func redeclaredChains(r *rng) []oddInput {
	loadFactory()
	mkFile := func(bt basetype.BaseType, v proto.Value, hr uint8) []proto.Message {
		msgs := []proto.Message{fileIdMesg(r)}
		dd := proto.Message{Num: mesgnum.DeveloperDataId}
		f := factory.CreateField(mesgnum.DeveloperDataId, fieldnum.DeveloperDataIdDeveloperDataIndex)
		f.Value = proto.Uint8(0)
		dd.Fields = append(dd.Fields, f)
		msgs = append(msgs, dd)
		fd := proto.Message{Num: mesgnum.FieldDescription}
		add := func(num byte, v proto.Value) {
			f := factory.CreateField(mesgnum.FieldDescription, num)
			f.Value = v
			fd.Fields = append(fd.Fields, f)
		}
		add(fieldnum.FieldDescriptionDeveloperDataIndex, proto.Uint8(0))
		add(fieldnum.FieldDescriptionFieldDefinitionNumber, proto.Uint8(0))
		add(fieldnum.FieldDescriptionFitBaseTypeId, proto.Uint8(uint8(bt)))
		add(fieldnum.FieldDescriptionFieldName, proto.SliceString([]string{"x"}))
		msgs = append(msgs, fd)
		m := proto.Message{Num: mesgnum.Record}
		h := factory.CreateField(mesgnum.Record, fieldnum.RecordHeartRate)
		h.Value = proto.Uint8(hr)
		m.Fields = append(m.Fields, h)
		m.DeveloperFields = append(m.DeveloperFields, proto.DeveloperField{Num: 0, DeveloperDataIndex: 0, Value: v})
		return append(msgs, m)
	}
	type decl struct {
		bt basetype.BaseType
		v  proto.Value
	}
	pairs := [][2]decl{
		{{basetype.Uint8, proto.Uint8(5)}, {basetype.Uint8z, proto.Uint8(0)}},
		{{basetype.Uint8z, proto.Uint8(5)}, {basetype.Uint8, proto.Uint8(255)}},
		{{basetype.Uint8, proto.Uint8(0)}, {basetype.Uint8z, proto.Uint8(255)}},
		{{basetype.Uint16, proto.Uint16(7)}, {basetype.Uint16z, proto.Uint16(0)}},
		{{basetype.Uint32z, proto.Uint32(9)}, {basetype.Uint32, proto.Uint32(0xFFFFFFFF)}},
		{{basetype.Enum, proto.Uint8(1)}, {basetype.Uint8z, proto.Uint8(0)}},
	}
	var out []oddInput
	for pi, p := range pairs {
		ec := encCfg{headerSize: 14, protoVer: proto.V2, bigEndian: pi%2 == 1}
		out = append(out, oddInput{ec, []encFile{{hsize: 14, msgs: mkFile(p[0].bt, p[0].v, 60)}, {hsize: 14, msgs: mkFile(p[1].bt, p[1].v, 70)}}})
		stat("redeclared_developer_field_chains", 1)
	}
	return out
}
