package main

// Structured generators shared by the checks: messages over the whole factory (every field kind), unknown
// messages/fields, developer fields with their descriptions, timestamp patterns, encoder option combinations.

import (
	"math"
	"sort"

	"github.com/muktihari/fit/encoder"
	"github.com/muktihari/fit/profile"
	"github.com/muktihari/fit/profile/basetype"
	"github.com/muktihari/fit/profile/factory"
	"github.com/muktihari/fit/profile/typedef"
	"github.com/muktihari/fit/profile/untyped/fieldnum"
	"github.com/muktihari/fit/profile/untyped/mesgnum"
	"github.com/muktihari/fit/proto"
)

type knownMesg struct {
	num    typedef.MesgNum
	fields []byte
}

var knownMesgs []knownMesg

func loadFactory() {
	if knownMesgs != nil {
		return
	}
	for m := 0; m < 65536; m++ {
		var fs []byte
		for f := 0; f < 256; f++ {
			if fld := factory.CreateField(typedef.MesgNum(m), byte(f)); fld.Name != factory.NameUnknown {
				fs = append(fs, byte(f))
			}
		}
		if len(fs) > 0 {
			knownMesgs = append(knownMesgs, knownMesg{typedef.MesgNum(m), fs})
		}
	}
	sort.Slice(knownMesgs, func(i, j int) bool { return knownMesgs[i].num < knownMesgs[j].num })
}

// valueFor: a value whose type aligns with base type bt (profile type bool -> Bool), array or scalar.
// mode: 0 valid-ish random, 1 boundary, 2 invalid sentinel
func (r *rng) valueFor(bt basetype.BaseType, pt profile.ProfileType, array bool, mode int, maxElems int) proto.Value {
	n := 1 + r.intn(maxElems)
	if r.chance(1, 12) {
		n = 0
	}
	pick := func(bits int) uint64 {
		switch mode {
		case 2:
			switch bt {
			case basetype.Sint8, basetype.Sint16, basetype.Sint32, basetype.Sint64:
				return uint64(1)<<(uint(bits)-1) - 1
			case basetype.Uint8z, basetype.Uint16z, basetype.Uint32z, basetype.Uint64z:
				return 0
			}
			return math.MaxUint64
		case 1:
			return r.word()
		}
		v := r.u64() >> uint(r.intn(64))
		return v
	}
	switch bt {
	case basetype.Enum, basetype.Byte, basetype.Uint8, basetype.Uint8z:
		if pt == profile.Bool {
			if array {
				s := make([]typedef.Bool, n)
				for i := range s {
					s[i] = typedef.Bool(pick(8) & 1)
					if mode == 2 {
						s[i] = 255
					}
				}
				return proto.SliceBool(s)
			}
			if mode == 2 {
				return proto.Bool(255)
			}
			return proto.Bool(typedef.Bool(pick(8) & 1))
		}
		if array {
			s := make([]uint8, n)
			for i := range s {
				s[i] = uint8(pick(8))
			}
			return proto.SliceUint8(s)
		}
		return proto.Uint8(uint8(pick(8)))
	case basetype.Sint8:
		if array {
			s := make([]int8, n)
			for i := range s {
				s[i] = int8(pick(8))
			}
			return proto.SliceInt8(s)
		}
		return proto.Int8(int8(pick(8)))
	case basetype.Sint16:
		if array {
			s := make([]int16, n)
			for i := range s {
				s[i] = int16(pick(16))
			}
			return proto.SliceInt16(s)
		}
		return proto.Int16(int16(pick(16)))
	case basetype.Uint16, basetype.Uint16z:
		if array {
			s := make([]uint16, n)
			for i := range s {
				s[i] = uint16(pick(16))
			}
			return proto.SliceUint16(s)
		}
		return proto.Uint16(uint16(pick(16)))
	case basetype.Sint32:
		if array {
			s := make([]int32, n)
			for i := range s {
				s[i] = int32(pick(32))
			}
			return proto.SliceInt32(s)
		}
		return proto.Int32(int32(pick(32)))
	case basetype.Uint32, basetype.Uint32z:
		if array {
			s := make([]uint32, n)
			for i := range s {
				s[i] = uint32(pick(32))
			}
			return proto.SliceUint32(s)
		}
		return proto.Uint32(uint32(pick(32)))
	case basetype.Sint64:
		if array {
			s := make([]int64, n)
			for i := range s {
				s[i] = int64(pick(64))
			}
			return proto.SliceInt64(s)
		}
		return proto.Int64(int64(pick(64)))
	case basetype.Uint64, basetype.Uint64z:
		if array {
			s := make([]uint64, n)
			for i := range s {
				s[i] = pick(64)
			}
			return proto.SliceUint64(s)
		}
		return proto.Uint64(pick(64))
	case basetype.Float32:
		if array {
			s := make([]float32, n)
			for i := range s {
				s[i] = math.Float32frombits(uint32(pick(32)))
			}
			return proto.SliceFloat32(s)
		}
		return proto.Float32(math.Float32frombits(uint32(pick(32))))
	case basetype.Float64:
		if array {
			s := make([]float64, n)
			for i := range s {
				s[i] = math.Float64frombits(pick(64))
			}
			return proto.SliceFloat64(s)
		}
		return proto.Float64(math.Float64frombits(pick(64)))
	case basetype.String:
		mk := func() string {
			if mode == 2 {
				return ""
			}
			names := []string{"a", "fit", "Garmin Edge 530", "日本語", "é", "x y", "name-with-a-longer-text-0123456789"}
			return names[r.intn(len(names))]
		}
		if array {
			s := make([]string, n)
			for i := range s {
				s[i] = mk()
			}
			return proto.SliceString(s)
		}
		return proto.String(mk())
	}
	return proto.Value{}
}

type mesgGenCfg struct {
	wellFormed bool // values agree with the field's array flag, one field per number, no empty strings in slices ... (C01's wf_input)
	maxFields  int
	unknown    bool // allow unknown messages / fields
	tsMode     int  // 0 none special, 1 monotone, 2 back inside window, 3 jumps, 4 below DateTimeMin / invalid
}

type tsGen struct {
	cur  uint32
	mode int
}

func (t *tsGen) next(r *rng) uint32 {
	switch t.mode {
	case 1:
		t.cur += uint32(r.intn(4))
	case 2:
		if r.chance(1, 4) {
			t.cur -= uint32(r.intn(8))
		} else {
			t.cur += uint32(r.intn(12))
		}
	case 3:
		if r.chance(1, 5) {
			t.cur += uint32(20 + r.intn(100))
		} else {
			t.cur += uint32(r.intn(3))
		}
	case 5: // anywhere inside a 45 s window: back and forth across the 32 s reach of the compression reference
		return t.cur + uint32(r.intn(46))
	case 6: // running backwards
		t.cur -= uint32(r.intn(6))
	case 4:
		switch r.intn(6) {
		case 0:
			return uint32(r.intn(0x10000000))
		case 1:
			return 0xFFFFFFFF
		default:
			t.cur += uint32(r.intn(5))
		}
	default:
		t.cur += uint32(r.intn(40))
	}
	return t.cur
}

var unknownBaseTypes = []basetype.BaseType{basetype.Enum, basetype.Sint8, basetype.Uint8, basetype.Sint16, basetype.Uint16, basetype.Sint32,
	basetype.Uint32, basetype.String, basetype.Float32, basetype.Float64, basetype.Uint8z, basetype.Uint16z, basetype.Uint32z, basetype.Byte,
	basetype.Sint64, basetype.Uint64, basetype.Uint64z}

// genMessage: one message. Fields come from the factory (or are unknown); at most one field per number.
func (r *rng) genMessage(cfg mesgGenCfg, ts *tsGen) proto.Message {
	loadFactory()
	var km knownMesg
	known := true
	if cfg.unknown && r.chance(1, 7) {
		known = false
		km = knownMesg{num: typedef.MesgNum(0xFF00 + r.intn(200))}
		if r.chance(1, 3) {
			km.num = typedef.MesgNum(410 + r.intn(1000))
		}
	} else {
		km = knownMesgs[r.intn(len(knownMesgs))]
		if r.chance(1, 3) {
			km = knownMesgs[findMesg(mesgnum.Record)]
		}
	}
	mesg := proto.Message{Num: km.num}
	nf := 1 + r.intn(cfg.maxFields)
	used := map[byte]bool{}
	if ts != nil && r.chance(5, 6) {
		f := factory.CreateField(km.num, proto.FieldNumTimestamp)
		if f.Name == factory.NameUnknown {
			f.BaseType, f.Type = basetype.Uint32, profile.DateTime
		}
		if f.BaseType == basetype.Uint32 {
			f.Value = proto.Uint32(ts.next(r))
			used[proto.FieldNumTimestamp] = true
			mesg.Fields = append(mesg.Fields, f)
		}
	}
	for i := 0; i < nf; i++ {
		var num byte
		if known && len(km.fields) > 0 && !(cfg.unknown && r.chance(1, 10)) {
			num = km.fields[r.intn(len(km.fields))]
		} else {
			num = byte(r.intn(253))
		}
		if used[num] {
			continue
		}
		used[num] = true
		f := factory.CreateField(km.num, num)
		mode := r.pick(0, 0, 0, 1, 1, 2)
		if f.Name == factory.NameUnknown {
			if !cfg.unknown {
				continue
			}
			f.BaseType = unknownBaseTypes[r.intn(len(unknownBaseTypes))]
			f.Type = profile.ProfileType(f.BaseType & basetype.BaseTypeNumMask)
			arr := r.chance(1, 4)
			v := r.valueFor(f.BaseType, f.Type, arr, mode, 6)
			if cfg.wellFormed && arr {
				// an unknown field carries no array flag on the wire: a slice must have at least two elements
				for tries := 0; tries < 10 && sliceLen(v) < 2; tries++ {
					v = r.valueFor(f.BaseType, f.Type, arr, mode, 6)
				}
				if sliceLen(v) < 2 {
					continue
				}
			}
			f.Value = v
		} else {
			arr := f.Array
			if !cfg.wellFormed && r.chance(1, 10) {
				arr = !arr
			}
			f.Value = r.valueFor(f.BaseType, f.Type, arr, mode, 6)
		}
		if cfg.wellFormed {
			if f.Value.Type() == proto.TypeSliceString && hasEmpty(f.Value.SliceString()) {
				continue
			}
			if sliceLen(f.Value) == 0 { // an empty slice has size 0: the decoder skips zero-size fields (lossy shape, outside wf_input)
				continue
			}
		}
		mesg.Fields = append(mesg.Fields, f)
	}
	return mesg
}

func hasEmpty(ss []string) bool {
	for _, s := range ss {
		if s == "" {
			return true
		}
	}
	return len(ss) == 0
}

func sliceLen(v proto.Value) int {
	if v.Type() == proto.TypeSliceString {
		return len(v.SliceString())
	}
	if v.Type() <= proto.TypeString {
		return -1
	}
	sz := v.Size()
	w := map[proto.Type]int{proto.TypeSliceBool: 1, proto.TypeSliceInt8: 1, proto.TypeSliceUint8: 1, proto.TypeSliceInt16: 2, proto.TypeSliceUint16: 2,
		proto.TypeSliceInt32: 4, proto.TypeSliceUint32: 4, proto.TypeSliceInt64: 8, proto.TypeSliceUint64: 8, proto.TypeSliceFloat32: 4, proto.TypeSliceFloat64: 8}[v.Type()]
	return sz / w
}

func findMesg(num typedef.MesgNum) int {
	for i := range knownMesgs {
		if knownMesgs[i].num == num {
			return i
		}
	}
	return 0
}

func fileIdMesg(r *rng) proto.Message {
	m := proto.Message{Num: mesgnum.FileId}
	add := func(num byte, v proto.Value) {
		f := factory.CreateField(mesgnum.FileId, num)
		f.Value = v
		m.Fields = append(m.Fields, f)
	}
	add(fieldnum.FileIdType, proto.Uint8(uint8(typedef.FileActivity)))
	add(fieldnum.FileIdManufacturer, proto.Uint16(uint16(1+r.intn(300))))
	add(fieldnum.FileIdProduct, proto.Uint16(uint16(r.intn(5000))))
	add(fieldnum.FileIdTimeCreated, proto.Uint32(uint32(1000000000+r.intn(100000))))
	return m
}

// devSetup: developer_data_id + field_description messages for developer data index idx describing nfields fields.
type devField struct {
	num  byte
	base basetype.BaseType
}

func (r *rng) devSetup(idx byte, nfields int) ([]proto.Message, []devField) {
	var out []proto.Message
	dd := proto.Message{Num: mesgnum.DeveloperDataId}
	f := factory.CreateField(mesgnum.DeveloperDataId, fieldnum.DeveloperDataIdDeveloperDataIndex)
	f.Value = proto.Uint8(idx)
	dd.Fields = append(dd.Fields, f)
	f = factory.CreateField(mesgnum.DeveloperDataId, fieldnum.DeveloperDataIdApplicationVersion)
	f.Value = proto.Uint32(uint32(r.intn(1000)))
	dd.Fields = append(dd.Fields, f)
	out = append(out, dd)
	var dfs []devField
	for i := 0; i < nfields; i++ {
		bt := unknownBaseTypes[r.intn(len(unknownBaseTypes))]
		fd := proto.Message{Num: mesgnum.FieldDescription}
		add := func(num byte, v proto.Value) {
			f := factory.CreateField(mesgnum.FieldDescription, num)
			f.Value = v
			fd.Fields = append(fd.Fields, f)
		}
		add(fieldnum.FieldDescriptionDeveloperDataIndex, proto.Uint8(idx))
		add(fieldnum.FieldDescriptionFieldDefinitionNumber, proto.Uint8(uint8(i)))
		add(fieldnum.FieldDescriptionFitBaseTypeId, proto.Uint8(uint8(bt)))
		add(fieldnum.FieldDescriptionFieldName, proto.SliceString([]string{"dev" + string(rune('a'+i))}))
		add(fieldnum.FieldDescriptionUnits, proto.SliceString([]string{"u"}))
		out = append(out, fd)
		dfs = append(dfs, devField{byte(i), bt})
	}
	return out, dfs
}

type encCfg struct {
	bigEndian  bool
	headerOpt  encoder.HeaderOption
	localTypes byte
	protoVer   proto.Version
	preserve   bool
	bufSize    int
	headerSize byte
	profileVer uint16
	reuse      bool // the encoder was used before with another configuration and destination, then Reset (harness-side only; the model's encoder is always fresh)
}

func (r *rng) encCfg() encCfg {
	c := encCfg{bigEndian: r.chance(1, 2), headerSize: 14, bufSize: r.pick(0, 1, 7, 64, 4096)}
	if r.chance(1, 2) {
		c.headerOpt = encoder.HeaderOptionCompressedTimestamp
		c.localTypes = byte(r.intn(5))
	} else {
		c.localTypes = byte(r.intn(17))
	}
	switch r.intn(4) {
	case 0:
		c.protoVer = proto.V1
	case 1:
		c.protoVer = proto.V2
	case 2:
		c.protoVer = 0
	default:
		c.protoVer = proto.V2
	}
	c.preserve = r.chance(1, 4)
	if r.chance(1, 5) {
		c.headerSize = 12
	} else if r.chance(1, 6) { // a caller-supplied size that is neither 12 nor 14 must come out as 14
		c.headerSize = byte(r.pick(0, 1, 11, 13, 15, 20, 255))
	}
	if r.chance(1, 4) {
		c.profileVer = uint16(r.intn(30000))
	}
	return c
}

func (c encCfg) options() []encoder.Option {
	opts := []encoder.Option{encoder.WithHeaderOption(c.headerOpt, c.localTypes), encoder.WithWriteBufferSize(c.bufSize)}
	if c.bigEndian {
		opts = append(opts, encoder.WithBigEndian())
	}
	if c.protoVer != 0 {
		opts = append(opts, encoder.WithProtocolVersion(c.protoVer))
	}
	if c.preserve {
		opts = append(opts, encoder.WithMessageValidator(encoder.NewMessageValidator(encoder.ValidatorWithPreserveInvalidValues())))
	}
	return opts
}

// genFit: a list of messages for one sequence (file_id first), optionally with developer fields.
func (r *rng) genFit(cfg mesgGenCfg, nmsgs int, withDev bool) []proto.Message {
	msgs := []proto.Message{fileIdMesg(r)}
	var dfs []devField
	var idx byte
	if withDev {
		idx = byte(r.intn(3))
		setup, d := r.devSetup(idx, 1+r.intn(4))
		msgs = append(msgs, setup...)
		dfs = d
	}
	ts := &tsGen{cur: 1000000000 + uint32(r.intn(1000)), mode: cfg.tsMode}
	redescribe := withDev && len(dfs) > 0 && r.chance(1, 3)
	for i := 0; i < nmsgs; i++ {
		if redescribe && i == nmsgs/2 {
			// the same (developer index, field number) described again with another base type: the first description stays in force
			d := dfs[r.intn(len(dfs))]
			bt := unknownBaseTypes[r.intn(len(unknownBaseTypes))]
			if bt != d.base {
				fd := proto.Message{Num: mesgnum.FieldDescription}
				add := func(num byte, v proto.Value) {
					f := factory.CreateField(mesgnum.FieldDescription, num)
					f.Value = v
					fd.Fields = append(fd.Fields, f)
				}
				add(fieldnum.FieldDescriptionDeveloperDataIndex, proto.Uint8(idx))
				add(fieldnum.FieldDescriptionFieldDefinitionNumber, proto.Uint8(d.num))
				add(fieldnum.FieldDescriptionFitBaseTypeId, proto.Uint8(uint8(bt)))
				add(fieldnum.FieldDescriptionFieldName, proto.SliceString([]string{"again"}))
				msgs = append(msgs, fd)
			}
		}
		m := r.genMessage(cfg, ts)
		if len(m.Fields) == 0 {
			continue
		}
		if withDev && (redescribe || r.chance(1, 2)) {
			for _, d := range dfs {
				if r.chance(1, 2) {
					arr := r.chance(1, 4)
					v := r.valueFor(d.base, profile.ProfileType(d.base&basetype.BaseTypeNumMask), arr, r.pick(0, 0, 1), 5)
					if arr && sliceLen(v) < 2 {
						continue
					}
					if v.Type() == proto.TypeSliceString && hasEmpty(v.SliceString()) {
						continue
					}
					m.DeveloperFields = append(m.DeveloperFields, proto.DeveloperField{Num: d.num, DeveloperDataIndex: idx, Value: v})
				}
			}
		}
		msgs = append(msgs, m)
	}
	return msgs
}

// cloneMessages: deep enough copy (the encoder and the validator mutate the caller's messages in place).
func cloneMessages(in []proto.Message) []proto.Message {
	out := make([]proto.Message, len(in))
	for i, m := range in {
		out[i] = m
		out[i].Fields = append([]proto.Field(nil), m.Fields...)
		out[i].DeveloperFields = append([]proto.DeveloperField(nil), m.DeveloperFields...)
	}
	return out
}
