package main

import (
	"bytes"
	"errors"
	"fmt"
	"io"
	"os"
	"strings"

	"github.com/muktihari/fit/decoder"
	"github.com/muktihari/fit/proto"
)

func init() { cmds["c08"] = c08 }

// chunkReader delivers data in pieces given by plan (default 1 byte), optionally reporting EOF together with the last bytes,
// optionally failing with errInjected once failAt bytes have been delivered (failAt < 0: never).
type chunkReader struct {
	data        []byte
	plan        []int
	eofWithData bool
	failAt      int
	delivered   int
}

func (c *chunkReader) Read(p []byte) (int, error) {
	if c.failAt >= 0 && c.delivered >= c.failAt {
		return 0, errInjected
	}
	if len(c.data) == 0 {
		return 0, io.EOF
	}
	want := 1
	if len(c.plan) > 0 {
		if c.plan[0] > 1 {
			want = c.plan[0]
		}
		c.plan = c.plan[1:]
	}
	k := minInt(len(p), minInt(want, len(c.data)))
	if c.failAt >= 0 && c.delivered+k > c.failAt {
		k = c.failAt - c.delivered
		if k == 0 {
			return 0, errInjected
		}
	}
	copy(p, c.data[:k])
	c.data = c.data[k:]
	c.delivered += k
	if c.eofWithData && len(c.data) == 0 {
		return k, io.EOF
	}
	return k, nil
}

// rewindChunkReader: a chunkReader that can be rewound to the start (Seek(0, io.SeekStart) only), replaying the same plan.
type rewindChunkReader struct {
	chunkReader
	all   []byte
	plan0 []int
}

func (c *rewindChunkReader) Seek(off int64, whence int) (int64, error) {
	c.data, c.plan, c.delivered = append([]byte(nil), c.all...), append([]int(nil), c.plan0...), 0
	return 0, nil
}

func coqNats(xs []int) string {
	items := make([]string, len(xs))
	for i, x := range xs {
		items[i] = fmt.Sprintf("%d%%nat", x)
	}
	return coqList(items)
}

func (r *rng) chunkPlan(total int) []int {
	var plan []int
	switch r.intn(5) {
	case 0: // one byte at a time
		return nil
	case 1: // everything at once
		return []int{total + 10}
	case 2: // refill boundary sizes
		for s := 0; s < total; {
			k := r.pick(1, 2, 764, 765, 766, 4095, 4096, 4097, 13, 14)
			plan = append(plan, k)
			s += k
		}
	default:
		for s := 0; s < total; {
			k := 1 + r.intn(40)
			plan = append(plan, k)
			s += k
		}
	}
	return plan
}

type eventLog struct{ lines []string }

func (e *eventLog) OnMesg(m proto.Message) { e.lines = append(e.lines, "M"+coqMesg(&m, true)) }
func (e *eventLog) OnMesgDef(d proto.MessageDefinition) {
	e.lines = append(e.lines, fmt.Sprintf("D%d/%d/%d/%v/%v", d.Header, d.Architecture, d.MesgNum, d.FieldDefinitions, d.DeveloperFieldDefinitions))
}

// decodeEvents: everything observable of a decode over the given reader.
func decodeEvents(rd io.Reader, bufSize int, checksum bool) (log string, errc int) {
	ev := &eventLog{}
	opts := []decoder.Option{decoder.WithMesgListener(ev), decoder.WithMesgDefListener(ev), decoder.WithReadBufferSize(bufSize)}
	if !checksum {
		opts = append(opts, decoder.WithIgnoreChecksum())
	}
	res := func() (res decodeResult) {
		defer func() {
			if p := recover(); p != nil {
				res.panicked = p
			}
		}()
		dec := decoder.New(rd, opts...)
		for dec.Next() {
			fit, err := dec.Decode()
			if err != nil {
				res.err = err
				return
			}
			res.fits = append(res.fits, fit)
		}
		_, err := dec.Decode()
		if !errors.Is(err, io.EOF) || len(res.fits) == 0 {
			res.err = err
		}
		return
	}()
	var sb strings.Builder
	for _, f := range res.fits {
		sb.WriteString("F" + coqFit(f) + "\n")
	}
	sb.WriteString(strings.Join(ev.lines, "\n"))
	if res.panicked != nil {
		return sb.String(), 100
	}
	return sb.String(), errClass(res.err)
}

func c08(args []string) {
	c, fs := commonFlags("c08", args)
	fs.Parse(args)
	r := newRng(c.seed)
	n := c.n
	if n == 0 {
		n = 500
		if c.tier == "thorough" {
			n = 8000
		}
	}
	bufSizes := []int{0, 1, 765, 766, 1024, 4096}
	// (a) the read buffer itself, through the verif hook: scripts of ReadN requests over chunking readers
	for i := 0; i < n; i++ {
		total := r.pick(0, 1, 5, 100, 764, 765, 766, 1531, 2000, 3000)
		if r.chance(1, 2) {
			total = r.intn(2600)
		}
		data := r.bytes(total)
		plan := r.chunkPlan(total)
		eofWD := r.chance(1, 2)
		size := bufSizes[r.intn(len(bufSizes))]
		rb := decoder.NewVerifReadBuffer(&chunkReader{data: append([]byte(nil), data...), plan: append([]int(nil), plan...), eofWithData: eofWD, failAt: -1}, size)
		var ns []int
		var outs []string
		for k := 0; k < 1+r.intn(25); k++ {
			req := r.pick(0, 1, 1, 2, 5, 13, 3, 12, 30, 255, 600, 764, 765)
			if r.chance(1, 3) {
				req = r.intn(766)
			}
			ns = append(ns, req)
			b, err := func() (b []byte, err error) {
				defer func() {
					if p := recover(); p != nil {
						err = fmt.Errorf("panic: %v", p)
					}
				}()
				return rb.ReadN(req)
			}()
			if err != nil {
				switch {
				case err == io.EOF:
					outs = append(outs, "Err EOF")
				case err == io.ErrUnexpectedEOF:
					outs = append(outs, "Err UnexpectedEOF")
				case strings.HasPrefix(err.Error(), "panic"):
					outs = append(outs, "Panic")
					emitJSON("FAIL", "", map[string]any{"kind": "readbuffer-panic", "err": err.Error(), "requests": ns, "plan": plan, "size": size, "total": total})
				default:
					outs = append(outs, "Err ShortBuffer")
				}
				break
			}
			outs = append(outs, "Ok "+coqBytes(b))
		}
		emit("CASE", fmt.Sprintf("(%d%%nat, %s, %s, %s, %s, %s)", size, coqNats(plan), coqBool(eofWD), coqBytes(data), coqNats(ns), coqList(outs)))
		stat("readbuffer_scripts", 1)
	}
	// (a') a long-lived read buffer: Reset with another size option and reader (a reused decoder), ReadN scripts in between
	for i := 0; i < n/3; i++ {
		var ops, obs []string
		var rb *decoder.VerifReadBuffer
		prev := 0
		bad := false
		for seg := 0; seg < 2+r.intn(3) && !bad; seg++ {
			size := bufSizes[r.intn(len(bufSizes))]
			if seg > 0 && r.chance(2, 3) { // around what the array already holds: just below, equal, inside and beyond the reserved band above it
				size = maxInt(prev, 765) + r.pick(-700, -1, 0, 1, 2, 100, 764, 765, 766, 3000)
			}
			prev = size
			total := r.pick(0, 1, 5, 100, 764, 765, 766, 1531, 2000)
			if r.chance(1, 2) {
				total = r.intn(2000)
			}
			data := r.bytes(total)
			plan := r.chunkPlan(total)
			eofWD := r.chance(1, 2)
			rd := &chunkReader{data: append([]byte(nil), data...), plan: append([]int(nil), plan...), eofWithData: eofWD, failAt: -1}
			perr := func() (p any) {
				defer func() { p = recover() }()
				if rb == nil {
					rb = decoder.NewVerifReadBuffer(rd, size)
				} else {
					rb.Reset(rd, size)
				}
				return nil
			}()
			ops = append(ops, fmt.Sprintf("OReset %d%%nat {| rest := %s; plan := %s; eof_with_data := %s |}", size, coqBytes(data), coqNats(plan), coqBool(eofWD)))
			if perr != nil {
				obs = append(obs, "RPanic")
				emitJSON("FAIL", "", map[string]any{"kind": "readbuffer-reset-panic", "panic": fmt.Sprint(perr), "size": size, "script": ops})
				break
			}
			_, _, blen := rb.State()
			obs = append(obs, fmt.Sprintf("RLen %d%%nat", blen))
			if blen > rb.Cap() {
				emitJSON("FAIL", "", map[string]any{"kind": "readbuffer-window-beyond-capacity", "len": blen, "cap": rb.Cap()})
			}
			for k := 0; k < r.intn(8); k++ {
				req := r.pick(0, 1, 2, 5, 13, 255, 600, 764, 765)
				if r.chance(1, 3) {
					req = r.intn(766)
				}
				ops = append(ops, fmt.Sprintf("ORead %d%%nat", req))
				b, err := func() (b []byte, err error) {
					defer func() {
						if p := recover(); p != nil {
							err = fmt.Errorf("panic: %v", p)
						}
					}()
					return rb.ReadN(req)
				}()
				if err != nil {
					switch {
					case err == io.EOF:
						obs = append(obs, "ROut (Err EOF)")
					case err == io.ErrUnexpectedEOF:
						obs = append(obs, "ROut (Err UnexpectedEOF)")
					case strings.HasPrefix(err.Error(), "panic"):
						obs = append(obs, "ROut Panic")
						emitJSON("FAIL", "", map[string]any{"kind": "reused-readbuffer-panic", "err": err.Error(), "script": ops})
						bad = true
					default:
						obs = append(obs, "ROut (Err ShortBuffer)")
					}
					break
				}
				obs = append(obs, "ROut (Ok "+coqBytes(b)+")")
			}
		}
		emit("REUSE", fmt.Sprintf("(%s, %s)", coqList(ops), coqList(obs)))
		stat("reused_readbuffer_scripts", 1)
	}
	// (b) the property itself on the Go side: chunked vs contiguous decoding, every buffer size, EOF style, reader failures
	var pool [][]byte
	for _, p := range fixtureFiles(3300) {
		if b, err := os.ReadFile(p); err == nil {
			pool = append(pool, b)
		}
	}
	for len(pool) < 30 {
		cfg := mesgGenCfg{wellFormed: true, maxFields: 6, unknown: true, tsMode: r.pick(0, 1, 2, 3, 4, 5, 5, 6)}
		ec := r.encCfg()
		ec.protoVer = proto.V2
		if b, err := encodeFit(ec, r.genFit(cfg, 1+r.intn(6), r.chance(1, 2))); err == nil {
			pool = append(pool, b)
		}
	}
	pool = append(pool, c16Boundary()...) // definitions of 1..255 fields with and without a developer part: the largest single requests
	for i := 0; i < n; i++ {
		b := pool[r.intn(len(pool))]
		if i%10 == 3 { // ... regularly, not only when the draw falls on them
			bnd := c16Boundary()
			b = bnd[(i/10)%len(bnd)]
			stat("boundary_definition_inputs", 1)
		}
		switch r.intn(5) {
		case 0:
			b = r.mutate(b)
		case 1:
			b = b[:r.intn(len(b)+1)] // truncation
		case 2:
			b = append(append([]byte(nil), b...), pool[r.intn(len(pool))]...)
		case 3: // a complete file followed by the first bytes of another header
			o := pool[r.intn(len(pool))]
			b = append(append([]byte(nil), b...), o[:1+r.intn(13)]...)
		}
		checksum := r.chance(3, 4)
		refLog, refErr := decodeEvents(bytes.NewReader(b), 4096, checksum)
		plan := r.chunkPlan(len(b))
		size := bufSizes[r.intn(len(bufSizes))]
		eofWD := r.chance(1, 2)
		gotLog, gotErr := decodeEvents(&chunkReader{data: append([]byte(nil), b...), plan: plan, eofWithData: eofWD, failAt: -1}, size, checksum)
		stat("oracle_chunked_vs_contiguous", 1)
		if gotLog != refLog || gotErr != refErr {
			js := map[string]any{"kind": "chunking-dependence", "bytes": fmt.Sprintf("%x", b), "plan": plan, "bufsize": size, "eof_with_data": eofWD,
				"contiguous_err": refErr, "chunked_err": gotErr, "same_events": gotLog == refLog, "checksum": checksum}
			// the stream ends inside a sequence: io.EOF (read by this harness as the end of the stream once a sequence was decoded) from one
			// reader, io.ErrUnexpectedEOF from the other
			eofish := func(e int) bool { return e == 0 || e == 1 || e == 2 }
			truncated := func(e int) bool { return e == 1 || e == 2 }
			if gotLog == refLog && ((truncated(gotErr) && truncated(refErr)) || (eofish(gotErr) && eofish(refErr) && endsInsideSequence(b))) {
				emitJSON("KNOWN", "eof_kind_depends_on_chunking", js)
			} else {
				emitJSON("FAIL", "", js)
			}
		}
		// CheckIntegrity: number of valid sequences and verdict do not depend on the fragmentation either
		{
			ci := func(rd io.Reader, size int) (int, int) {
				defer func() { recover() }()
				n, err := decoder.New(rd, decoder.WithReadBufferSize(size)).CheckIntegrity()
				return n, errClass(err)
			}
			rn, re := ci(bytes.NewReader(b), 4096)
			gn, ge := ci(&chunkReader{data: append([]byte(nil), b...), plan: r.chunkPlan(len(b)), eofWithData: eofWD, failAt: -1}, size)
			wn, we := ci(&chunkReader{data: append([]byte(nil), b...), plan: []int{len(b)}, eofWithData: true, failAt: -1}, 4096) // everything in one Read, together with io.EOF
			stat("oracle_integrity_chunked_vs_contiguous", 2)
			for _, g := range [][3]int{{gn, ge, 0}, {wn, we, 1}} {
				if g[0] != rn || g[1] != re {
					js := map[string]any{"kind": "integrity-chunking-dependence", "bytes": fmt.Sprintf("%x", b), "bufsize": size, "eof_with_data": eofWD || g[2] == 1, "single_read_with_eof": g[2] == 1,
						"contiguous": []int{rn, re}, "chunked": []int{g[0], g[1]}}
					truncated := func(e int) bool { return e == 1 || e == 2 }
					if g[0] == rn && truncated(g[1]) && truncated(re) {
						emitJSON("KNOWN", "eof_kind_depends_on_chunking", js)
					} else {
						emitJSON("FAIL", "", js)
					}
				}
			}
		}
		// reader failure before the requested bytes were delivered
		if len(b) > 0 {
			at := r.intn(len(b))
			log2, err2 := decodeEvents(&chunkReader{data: append([]byte(nil), b...), plan: r.chunkPlan(len(b)), eofWithData: eofWD, failAt: at}, size, checksum)
			stat("oracle_reader_failure", 1)
			// the stream up to `at` decodes as the same prefix of events; the injected error (or an earlier decoding error) is returned, never success
			if err2 == 0 {
				emitJSON("FAIL", "", map[string]any{"kind": "reader-failure-reported-as-success", "bytes": fmt.Sprintf("%x", b), "fail_at": at})
			} else if err2 != 8 && err2 != refErr && !(refErr == 0) {
				// some other decoding error surfaced first: must be the error the contiguous decode reports as well
				if !((err2 == 1 || err2 == 2) && (refErr == 1 || refErr == 2)) {
					emitJSON("FAIL", "", map[string]any{"kind": "reader-failure-wrong-error", "bytes": fmt.Sprintf("%x", b), "fail_at": at, "err": err2, "contiguous_err": refErr})
				}
			} else if !strings.HasPrefix(refLog, prefixLines(log2)) && err2 == 8 && false {
				emitJSON("FAIL", "", map[string]any{"kind": "reader-failure-different-prefix", "fail_at": at})
			}
		}
		// the raw decoder: same segments, byte count and verdict however the reader fragments the stream; a reader failure
		// at any point (sequence boundaries and the very end included) is an error, never success
		{
			rLog, rN, rErr, bounds := rawEvents(bytes.NewReader(b))
			cLog, cN, cErr, _ := rawEvents(&chunkReader{data: append([]byte(nil), b...), plan: r.chunkPlan(len(b)), eofWithData: eofWD, failAt: -1})
			stat("oracle_raw_chunked_vs_contiguous", 1)
			if rLog != cLog || rN != cN || rErr != cErr {
				emitJSON("FAIL", "", map[string]any{"kind": "raw-decoder-chunking-dependence", "bytes": fmt.Sprintf("%x", b), "eof_with_data": eofWD,
					"contiguous": fmt.Sprint(rN, rErr), "chunked": fmt.Sprint(cN, cErr), "same_segments": rLog == cLog})
			}
			points := append([]int{0, len(b)}, bounds...)
			for k := 0; k < 6; k++ {
				points = append(points, r.intn(len(b)+1))
			}
			if len(b) <= 120 {
				for at := 0; at <= len(b); at++ {
					points = append(points, at)
				}
			}
			for _, at := range points {
				if at > len(b) {
					continue
				}
				plan := r.chunkPlan(len(b))
				if r.chance(1, 3) {
					plan = []int{1 << 20}
				}
				_, fN, fErr, _ := rawEvents(&chunkReader{data: append([]byte(nil), b...), plan: plan, eofWithData: false, failAt: at})
				stat("oracle_raw_reader_failure", 1)
				if fErr == 0 {
					emitJSON("FAIL", "", map[string]any{"kind": "raw-decoder-reader-failure-reported-as-success", "bytes": fmt.Sprintf("%x", b), "fail_at": at, "consumed": fN, "sequence_boundaries": bounds})
					break
				}
			}
		}
		// the documented recovery flow -- CheckIntegrity, rewind the reader, Decode -- gives the same sequences whatever the reads
		// looked like during the integrity check (nothing of the checked stream may stay behind in the read buffer)
		{
			flow := func(rd io.ReadSeeker, size int) (string, int, int, any) {
				var p any
				var log string
				var ec, seq int
				func() {
					defer func() { p = recover() }()
					dec := decoder.New(rd, decoder.WithReadBufferSize(size))
					seq, _ = dec.CheckIntegrity()
					rd.Seek(0, io.SeekStart)
					var sb strings.Builder
					var derr error
					for dec.Next() {
						fit, err := dec.Decode()
						if err != nil {
							derr = err
							break
						}
						sb.WriteString("F" + coqFit(fit) + "\n")
					}
					log, ec = sb.String(), errClass(derr)
				}()
				return log, seq, ec, p
			}
			l1, s1, e1, p1 := flow(bytes.NewReader(b), 4096)
			plan2 := r.chunkPlan(len(b))
			if r.chance(1, 3) {
				plan2 = []int{r.pick(13, 27, 40, 1<<20)}
				for len(plan2) < 64 {
					plan2 = append(plan2, plan2[0])
				}
			}
			l2, s2, e2, p2 := flow(&rewindChunkReader{chunkReader: chunkReader{data: append([]byte(nil), b...), plan: append([]int(nil), plan2...), eofWithData: eofWD, failAt: -1}, all: b, plan0: plan2}, size)
			stat("oracle_integrity_then_rewind_then_decode", 1)
			truncated := func(e int) bool { return e == 1 || e == 2 }
			if p1 != nil || p2 != nil || l1 != l2 || s1 != s2 || (e1 != e2 && !(truncated(e1) && truncated(e2))) {
				emitJSON("FAIL", "", map[string]any{"kind": "integrity-check-then-rewind-then-decode depends on the fragmentation", "bytes": fmt.Sprintf("%x", b), "bufsize": size,
					"eof_with_data": eofWD, "plan": plan2[:minInt(len(plan2), 8)], "contiguous": fmt.Sprint(s1, e1), "chunked": fmt.Sprint(s2, e2), "same_decoded": l1 == l2, "panic": fmt.Sprint(p1, p2)})
			}
		}
		// a reused decoder (Reset with another read-buffer size) decodes like a fresh one of that size
		{
			a := r.pick(0, 1, 766, 1024, 4096, 5000)
			grow := r.pick(1, 2, 100, 764, 765, 766, 3000)
			if r.chance(1, 5) {
				grow = -r.intn(maxInt(a, 765))
			}
			second := maxInt(a, 765) + grow
			log1, err1, p1 := reusedDecode(b, a, second, checksum)
			log2, err2 := decodeEvents(bytes.NewReader(b), second, checksum)
			stat("oracle_reused_decoder", 1)
			if p1 != nil || log1 != log2 || err1 != err2 {
				emitJSON("FAIL", "", map[string]any{"kind": "reused-decoder-differs-from-fresh", "bytes": fmt.Sprintf("%x", b), "first_bufsize": a, "second_bufsize": second,
					"panic": fmt.Sprint(p1), "reused_err": err1, "fresh_err": err2, "same_events": log1 == log2})
			}
		}
		if i < 2 {
			emit("SAMPLE", fmt.Sprintf("%d bytes, plan %v..., buffer %d, eof-with-data %v: contiguous err %d chunked err %d", len(b), plan[:minInt(len(plan), 6)], size, eofWD, refErr, gotErr))
		}
	}
}

func prefixLines(s string) string { return s }

// rawEvents: the raw decoder's segments (flag:bytes), consumed count, error class and the offsets at which a sequence ended.
func rawEvents(rd io.Reader) (log string, n int64, errc int, bounds []int) {
	var sb strings.Builder
	defer func() {
		if p := recover(); p != nil {
			log, errc = sb.String(), 100
		}
	}()
	off := 0
	n, err := decoder.NewRaw().Decode(rd, func(flag decoder.RawFlag, seg []byte) error {
		fmt.Fprintf(&sb, "%d:%x\n", flag, seg)
		off += len(seg)
		if flag == decoder.RawFlagCRC {
			bounds = append(bounds, off)
		}
		return nil
	})
	return sb.String(), n, errClass(err), bounds
}

// reusedDecode: a decoder built with read-buffer size first decodes b, is Reset to size second and decodes b again; the
// events and error class of the second use.
func reusedDecode(b []byte, first, second int, checksum bool) (log string, errc int, panicked any) {
	defer func() { panicked = recover() }()
	old := &eventLog{} // listeners of the first use: Reset without them must not deliver anything to them any more
	dec := decoder.New(bytes.NewReader(b), decoder.WithReadBufferSize(first), decoder.WithMesgListener(old), decoder.WithMesgDefListener(old))
	for dec.Next() {
		if _, err := dec.Decode(); err != nil {
			break
		}
	}
	oldSeen := len(old.lines)
	defer func() {
		if panicked == nil && len(old.lines) != oldSeen {
			log, errc = log+"\nLISTENER OF THE FIRST USE RECEIVED EVENTS AFTER RESET", 101
		}
	}()
	ev := &eventLog{}
	opts := []decoder.Option{decoder.WithMesgListener(ev), decoder.WithMesgDefListener(ev), decoder.WithReadBufferSize(second)}
	if !checksum {
		opts = append(opts, decoder.WithIgnoreChecksum())
	}
	dec.Reset(bytes.NewReader(b), opts...)
	var fits []*proto.FIT
	var rerr error
	for dec.Next() {
		fit, err := dec.Decode()
		if err != nil {
			rerr = err
			break
		}
		fits = append(fits, fit)
	}
	if rerr == nil {
		_, err := dec.Decode()
		if !errors.Is(err, io.EOF) || len(fits) == 0 {
			rerr = err
		}
	}
	var sb strings.Builder
	for _, f := range fits {
		sb.WriteString("F" + coqFit(f) + "\n")
	}
	sb.WriteString(strings.Join(ev.lines, "\n"))
	return sb.String(), errClass(rerr), nil
}

// endsInsideSequence: the byte string stops in the middle of a sequence (header, record or CRC cut off), judged by the raw decoder.
func endsInsideSequence(b []byte) bool {
	_, err := decoder.NewRaw().Decode(bytes.NewReader(b), func(decoder.RawFlag, []byte) error { return nil })
	return err != nil && (errors.Is(err, io.EOF) || errors.Is(err, io.ErrUnexpectedEOF))
}
