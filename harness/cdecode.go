package main

import (
	"bytes"
	"fmt"
	"os"
	"path/filepath"
	"sort"

	"github.com/muktihari/fit/encoder"
	"github.com/muktihari/fit/proto"
)

func init() { cmds["decode-cases"] = decodeCases }

func fixtureFiles(maxSize int64) []string {
	var out []string
	root := repoRoot() + "/testdata"
	filepath.Walk(root, func(p string, info os.FileInfo, err error) error {
		if err == nil && !info.IsDir() && filepath.Ext(p) == ".fit" && info.Size() <= maxSize {
			out = append(out, p)
		}
		return nil
	})
	sort.Strings(out)
	return out
}

func repoRoot() string {
	if r := os.Getenv("VERIF_REPO"); r != "" {
		return r
	}
	return "/repo"
}

// encodeFit: batch-encode messages with the configuration into a fresh buffer (plain writer).
func encodeFit(c encCfg, msgs []proto.Message) ([]byte, error) {
	var buf bytes.Buffer
	enc := encoder.New(&buf, c.options()...)
	fit := &proto.FIT{FileHeader: proto.FileHeader{Size: c.headerSize, ProfileVersion: c.profileVer}, Messages: msgs}
	err := enc.Encode(fit)
	return buf.Bytes(), err
}

// decode-cases: the decoder model against the implementation on fixtures, encoder outputs and mutations.
func decodeCases(args []string) {
	c, fs := commonFlags("decode-cases", args)
	maxFix := fs.Int64("maxfixture", 3300, "largest fixture used")
	fs.Parse(args)
	r := newRng(c.seed)
	n := c.n
	if n == 0 {
		n = 150
	}
	emitCase := func(b []byte, checksum, expand bool, tag string) {
		res := decodeBytes(b, checksum, expand)
		emit("CASE", fmt.Sprintf("(%s, %s, %s, %s)", coqBool(checksum), coqBool(expand), coqBytes(b), coqDecodeResult(res)))
		stat("decode_"+tag, 1)
		switch {
		case res.panicked != nil:
			stat("decode_outcome_panic", 1)
			emitJSON("FAIL", "", map[string]any{"kind": "panic", "bytes": fmt.Sprintf("%x", b), "panic": fmt.Sprint(res.panicked)})
		case res.err != nil:
			stat(fmt.Sprintf("decode_outcome_err%d", errClass(res.err)), 1)
		default:
			stat("decode_outcome_ok", 1)
		}
	}
	for _, p := range fixtureFiles(*maxFix) {
		b, err := os.ReadFile(p)
		if err != nil {
			continue
		}
		emitCase(b, true, true, "fixture")
		emitCase(b, false, false, "fixture")
	}
	for i := 0; i < n; i++ {
		cfg := mesgGenCfg{wellFormed: r.chance(3, 4), maxFields: 8, unknown: true, tsMode: r.pick(0, 1, 2, 3, 4, 5, 5, 6)}
		ec := r.encCfg()
		msgs := r.genFit(cfg, 1+r.intn(8), r.chance(1, 3))
		if ec.protoVer == proto.V1 {
			msgs = r.genFit(cfg, 1+r.intn(8), false)
		}
		b, err := encodeFit(ec, msgs)
		if err != nil {
			stat("encode_rejected", 1)
			continue
		}
		emitCase(b, true, r.chance(1, 2), "encoded")
		if r.chance(1, 2) {
			m := append([]byte(nil), b...)
			for k := 0; k < 1+r.intn(3); k++ {
				switch r.intn(4) {
				case 0:
					m[r.intn(len(m))] ^= byte(1 << uint(r.intn(8)))
				case 1:
					m[r.intn(len(m))] = byte(r.u64())
				case 2:
					m = m[:r.intn(len(m)+1)]
				default:
					if len(m) > 16 {
						m[14+r.intn(len(m)-14)] = byte(r.pick(0, 1, 2, 7, 0x40, 0x80, 0xFF, 131, 132, 134, 255))
					}
				}
				if len(m) == 0 {
					break
				}
			}
			emitCase(m, r.chance(1, 2), r.chance(1, 2), "mutated")
		}
	}
}
