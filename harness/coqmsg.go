package main

import (
	"bytes"
	"context"
	"errors"
	"fmt"
	"io"
	"strings"

	"github.com/muktihari/fit/decoder"
	"github.com/muktihari/fit/proto"
)

// projected observables (Run/RunDecode.v): field = (num, base type, value, expanded), dev = (num, index, value),
// message = (header, num, fields, devs), fit = ((size, proto, profile, datasize, crc), messages, crc)
func coqMesg(m *proto.Message, withHeader bool) string {
	fs := make([]string, len(m.Fields))
	for i := range m.Fields {
		f := &m.Fields[i]
		fs[i] = fmt.Sprintf("(%d, %d, %s, %s)", f.Num, f.BaseType, coqValue(f.Value), coqBool(f.IsExpandedField))
	}
	ds := make([]string, len(m.DeveloperFields))
	for i := range m.DeveloperFields {
		d := &m.DeveloperFields[i]
		ds[i] = fmt.Sprintf("(%d, %d, %s)", d.Num, d.DeveloperDataIndex, coqValue(d.Value))
	}
	h := m.Header
	if !withHeader {
		h = 0
	}
	return fmt.Sprintf("(%d, %d, %s, %s)", h, m.Num, coqList(fs), coqList(ds))
}

func coqProtoMesgs(ms []proto.Message, withHeader bool) string {
	items := make([]string, len(ms))
	for i := range ms {
		items[i] = coqMesg(&ms[i], withHeader)
	}
	return "[" + strings.Join(items, "; ") + "]"
}

func coqFit(f *proto.FIT) string {
	h := f.FileHeader
	return fmt.Sprintf("((%d, %d, %d, %d, %d), %s, %d)", h.Size, h.ProtocolVersion, h.ProfileVersion, h.DataSize, h.CRC, coqProtoMesgs(f.Messages, true), f.CRC)
}

// error classes of Model/Base.v
func errClass(err error) int {
	switch {
	case err == nil:
		return 0
	case errors.Is(err, io.EOF):
		return 1
	case errors.Is(err, io.ErrUnexpectedEOF):
		return 2
	case errors.Is(err, decoder.ErrNotFITFile):
		return 3
	case errors.Is(err, decoder.ErrCRCChecksumMismatch):
		return 4
	case errors.Is(err, decoder.ErrMesgDefMissing):
		return 5
	case strings.Contains(err.Error(), "invalid basetype"):
		return 6
	case errors.Is(err, proto.ErrTypeNotSupported):
		return 7
	case errors.Is(err, errInjected):
		return 8
	case errors.Is(err, context.Canceled), errors.Is(err, context.DeadlineExceeded):
		return 9
	}
	return 99
}

var errInjected = errors.New("injected reader error")

type decodeResult struct {
	fits     []*proto.FIT
	err      error
	panicked any
}

// decodeAll drives a decoder over a whole (possibly chained) stream the way callers do: for Next() { Decode() },
// then asks once more so that a sticky error behind a false Next() becomes visible (a clean end is io.EOF with
// nothing consumed after the last sequence).
func decodeAll(r io.Reader, total int, opts ...decoder.Option) (res decodeResult) {
	defer func() {
		if p := recover(); p != nil {
			res.panicked = p
		}
	}()
	dec := decoder.New(r, opts...)
	for dec.Next() {
		fit, err := dec.Decode()
		if err != nil {
			res.err = err
			return
		}
		res.fits = append(res.fits, fit)
	}
	_, err := dec.Decode()
	if errors.Is(err, io.EOF) && len(res.fits) > 0 && consumedAll(r) {
		return
	}
	res.err = err
	return
}

type lenReader interface{ Len() int }

func consumedAll(r io.Reader) bool {
	if lr, ok := r.(lenReader); ok {
		return lr.Len() == 0
	}
	return true
}

func coqDecodeResult(res decodeResult) string {
	if res.panicked != nil {
		return "OPanic"
	}
	if res.err != nil {
		return fmt.Sprintf("OErr %d", errClass(res.err))
	}
	items := make([]string, len(res.fits))
	for i, f := range res.fits {
		items[i] = coqFit(f)
	}
	return "OFits " + coqList(items)
}

func decodeBytes(b []byte, checksum, expand bool) decodeResult {
	var opts []decoder.Option
	if !checksum {
		opts = append(opts, decoder.WithIgnoreChecksum())
	}
	if !expand {
		opts = append(opts, decoder.WithNoComponentExpansion())
	}
	return decodeAll(bytes.NewReader(b), len(b), opts...)
}
