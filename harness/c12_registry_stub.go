//go:build !c12reg

package main

// Without the generated registry (harness/c12_registry_gen.go, build tag c12reg, written by checks/c12.py from the
// translated accessor list) the accessor route of `c12` is skipped.
var c12Registry = map[string]func() any{}
