package main

import (
	"strconv"
	"strings"
)

// Coq term printers (N scope).
func coqBytes(b []byte) string {
	var sb strings.Builder
	sb.WriteByte('[')
	for i, x := range b {
		if i > 0 {
			sb.WriteByte(';')
		}
		sb.WriteString(strconv.Itoa(int(x)))
	}
	sb.WriteByte(']')
	return sb.String()
}

func coqList(items []string) string { return "[" + strings.Join(items, "; ") + "]" }

func coqBool(b bool) string {
	if b {
		return "true"
	}
	return "false"
}

func coqN(v uint64) string { return strconv.FormatUint(v, 10) }

func coqZ(v int64) string {
	if v < 0 {
		return "(" + strconv.FormatInt(v, 10) + ")%Z"
	}
	return strconv.FormatInt(v, 10) + "%Z"
}

func coqOpt(present bool, s string) string {
	if !present {
		return "None"
	}
	return "(Some " + s + ")"
}
