package main

import (
	"bytes"
	"fmt"
	"io"
	"math"
	"unicode/utf8"

	"github.com/muktihari/fit/encoder"
	"github.com/muktihari/fit/kit/scaleoffset"
	"github.com/muktihari/fit/profile"
	"github.com/muktihari/fit/profile/basetype"
	"github.com/muktihari/fit/profile/factory"
	"github.com/muktihari/fit/profile/typedef"
	"github.com/muktihari/fit/profile/untyped/fieldnum"
	"github.com/muktihari/fit/profile/untyped/mesgnum"
	"github.com/muktihari/fit/proto"
)

func init() { cmds["c10"] = c10 }

// nastyValue: any value type against any base type, sizes around 255 bytes, malformed UTF-8, scaled float input.
func (r *rng) nastyValue(f *proto.Field) proto.Value {
	switch r.intn(36) {
	case 0: // wrong type on purpose
		return r.randValue(proto.Type(1 + r.intn(24)))
	case 1, 2: // value size around the 255-byte limit
		n := r.pick(254, 255, 256, 300)
		switch f.BaseType {
		case basetype.String:
			b := make([]byte, n-1)
			for i := range b {
				b[i] = byte('a' + i%26)
			}
			return proto.String(string(b))
		case basetype.Uint16, basetype.Uint16z:
			return proto.SliceUint16(make([]uint16, n/2))
		case basetype.Uint32, basetype.Uint32z:
			return proto.SliceUint32(make([]uint32, n/4))
		default:
			if f.BaseType.Size() == 1 && f.Type != profile.Bool && f.BaseType != basetype.Sint8 {
				return proto.SliceUint8(r.bytes(n))
			}
		}
	case 3, 4, 5: // malformed UTF-8 on string fields
		if f.BaseType == basetype.String {
			b := r.utf8ish(6)
			if r.chance(1, 2) {
				return proto.SliceString([]string{"ok", string(b)})
			}
			return proto.String(string(b))
		}
	case 6, 7, 8, 9: // scaled (float64) input on any field
		x := float64(r.intn(100000))/float64(1+r.intn(1000)) - float64(r.intn(600))
		if (f.Scale != 1 || f.Offset != 0) && r.chance(1, 3) { // the scaled form of the base type's invalid sentinel (or its neighbour): restored first, judged after
			var inv float64
			switch f.BaseType {
			case basetype.Uint8, basetype.Enum, basetype.Byte:
				inv = 0xFF
			case basetype.Sint8:
				inv = 0x7F
			case basetype.Uint16:
				inv = 0xFFFF
			case basetype.Sint16:
				inv = 0x7FFF
			case basetype.Uint32:
				inv = 0xFFFFFFFF
			case basetype.Sint32:
				inv = 0x7FFFFFFF
			}
			if inv != 0 {
				x = (inv-float64(r.pick(0, 0, 0, 1)))/f.Scale - f.Offset
				stat("scaled_input_at_invalid_sentinel", 1)
			}
		}
		if f.Array || r.chance(1, 8) {
			return proto.SliceFloat64([]float64{x, float64(r.intn(5000)) / 7, 0})
		}
		return proto.Float64(x)
	}
	return r.valueFor(f.BaseType, f.Type, f.Array, r.pick(0, 0, 1, 2), 6)
}

// sane64: float64 -> integer conversions out of the target range are implementation-defined in Go (excluded by C12/C10's
// statement); keep Float64 inputs finite and small enough for every integer target
func sane64(v proto.Value) proto.Value {
	fix := func(x float64) float64 {
		if x != x || x > 1e6 || x < -1e6 {
			return float64(int64(math.Float64bits(x)%200000)) / 8
		}
		return x
	}
	switch v.Type() {
	case proto.TypeFloat64:
		return proto.Float64(fix(v.Float64()))
	case proto.TypeSliceFloat64:
		in := v.SliceFloat64()
		out := make([]float64, len(in))
		for i := range in {
			out[i] = fix(in[i])
		}
		return proto.SliceFloat64(out)
	}
	return v
}

func (r *rng) nastyMessage() proto.Message {
	loadFactory()
	km := knownMesgs[r.intn(len(knownMesgs))]
	if r.chance(1, 3) {
		km = knownMesgs[findMesg(mesgnum.Record)]
	}
	if r.chance(1, 4) {
		km = knownMesgs[findMesg(mesgnum.Session)]
	}
	m := proto.Message{Num: km.num}
	nf := r.intn(10)
	if r.chance(1, 25) {
		nf = r.pick(254, 255, 256, 257, 300)
	}
	for i := 0; i < nf; i++ {
		var f proto.Field
		if r.chance(1, 8) || nf > 200 {
			f = factory.CreateField(0xFF00, byte(r.intn(256)))
			f.BaseType = unknownBaseTypes[r.intn(len(unknownBaseTypes))]
			f.Type = profile.ProfileType(f.BaseType & basetype.BaseTypeNumMask)
			f.Array = r.chance(1, 4)
			m.Num = km.num
		} else {
			f = factory.CreateField(km.num, km.fields[r.intn(len(km.fields))])
		}
		if nf > 200 {
			f.Value = r.valueFor(f.BaseType, f.Type, false, r.pick(0, 0, 0, 2), 3)
		} else {
			f.Value = sane64(r.nastyValue(&f))
		}
		f.IsExpandedField = r.chance(1, 12)
		m.Fields = append(m.Fields, f)
	}
	return m
}

// devScenario: developer data ids / field descriptions (complete, missing, with native overrides or scale/offset) and messages using them.
func (r *rng) devScenario() []proto.Message {
	var msgs []proto.Message
	idx := byte(r.intn(3))
	if !r.chance(1, 6) { // sometimes the developer data id is missing
		dd := proto.Message{Num: mesgnum.DeveloperDataId}
		f := factory.CreateField(mesgnum.DeveloperDataId, fieldnum.DeveloperDataIdDeveloperDataIndex)
		f.Value = proto.Uint8(idx)
		dd.Fields = append(dd.Fields, f)
		msgs = append(msgs, dd)
	}
	type dfd struct {
		num  byte
		base basetype.BaseType
	}
	var dfs []dfd
	for i := 0; i < 1+r.intn(3); i++ {
		bt := unknownBaseTypes[r.intn(len(unknownBaseTypes))]
		fd := proto.Message{Num: mesgnum.FieldDescription}
		add := func(num byte, v proto.Value) {
			f := factory.CreateField(mesgnum.FieldDescription, num)
			f.Value = v
			fd.Fields = append(fd.Fields, f)
		}
		add(fieldnum.FieldDescriptionDeveloperDataIndex, proto.Uint8(idx))
		add(fieldnum.FieldDescriptionFieldDefinitionNumber, proto.Uint8(uint8(i)))
		add(fieldnum.FieldDescriptionFitBaseTypeId, proto.Uint8(uint8(bt)))
		add(fieldnum.FieldDescriptionFieldName, proto.SliceString([]string{"dev"}))
		switch r.intn(5) {
		case 0: // native override of a scaled profile field
			add(fieldnum.FieldDescriptionNativeMesgNum, proto.Uint16(uint16(mesgnum.Record)))
			add(fieldnum.FieldDescriptionNativeFieldNum, proto.Uint8(uint8(r.pick(2, 5, 6, 3, 250))))
		case 1: // own scale / offset (float32 targets need a double->single rounding the model does not have)
			if bt == basetype.Float32 {
				break
			}
			add(fieldnum.FieldDescriptionScale, proto.Uint8(uint8(r.pick(1, 2, 10, 100))))
			add(fieldnum.FieldDescriptionOffset, proto.Int8(int8(r.pick(0, 5, -5))))
		}
		dfs = append(dfs, dfd{byte(i), bt})
		if !r.chance(1, 7) { // sometimes the description is missing
			msgs = append(msgs, fd)
		}
	}
	for k := 0; k < 1+r.intn(3); k++ {
		m := r.nastyMessage()
		for _, d := range dfs {
			if r.chance(2, 3) {
				var v proto.Value
				switch r.intn(5) {
				case 0:
					v = proto.Float64(float64(r.intn(1000)) / 4)
				case 1:
					v = r.randValue(proto.Type(1 + r.intn(24)))
				default:
					v = r.valueFor(d.base, profile.ProfileType(d.base&basetype.BaseTypeNumMask), r.chance(1, 4), r.pick(0, 0, 2), 5)
				}
				m.DeveloperFields = append(m.DeveloperFields, proto.DeveloperField{Num: d.num, DeveloperDataIndex: idx, Value: sane64(v)})
			}
		}
		if r.chance(1, 30) {
			for j := 0; j < r.pick(255, 256); j++ {
				m.DeveloperFields = append(m.DeveloperFields, proto.DeveloperField{Num: dfs[0].num, DeveloperDataIndex: idx,
					Value: r.valueFor(dfs[0].base, profile.ProfileType(dfs[0].base&basetype.BaseTypeNumMask), false, 0, 2)})
			}
		}
		msgs = append(msgs, m)
	}
	return msgs
}

func withinLimits(m *proto.Message) string {
	if len(m.Fields) > 255 {
		return "more than 255 fields"
	}
	if len(m.DeveloperFields) > 255 {
		return "more than 255 developer fields"
	}
	for i := range m.Fields {
		f := &m.Fields[i]
		if f.Value.Size() > 255 {
			return fmt.Sprintf("field %d longer than 255 bytes", f.Num)
		}
		if !f.Value.Align(f.BaseType) {
			return fmt.Sprintf("field %d value type does not match base type", f.Num)
		}
		switch f.Value.Type() {
		case proto.TypeString:
			if !utf8.ValidString(f.Value.String()) {
				return "invalid UTF-8"
			}
		case proto.TypeSliceString:
			for _, s := range f.Value.SliceString() {
				if !utf8.ValidString(s) {
					return "invalid UTF-8"
				}
			}
		}
	}
	return ""
}

// c10: message validation (stateful over a sequence), protocol validation through the encoder.
func c10(args []string) {
	c, fs := commonFlags("c10", args)
	fs.Parse(args)
	r := newRng(c.seed)
	n := c.n
	if n == 0 {
		n = 500
		if c.tier == "thorough" {
			n = 8000
		}
	}
	runOne := func(i int, msgs []proto.Message, preserve bool) {
		var opts []encoder.ValidatorOption
		if preserve {
			opts = append(opts, encoder.ValidatorWithPreserveInvalidValues())
		}
		switch i % 3 { // the factory option: the standard factory given explicitly, or a fresh factory with the same contents, changes nothing
		case 1:
			opts = append(opts, encoder.ValidatorWithFactory(factory.StandardFactory()))
		case 2:
			opts = append(opts, encoder.ValidatorWithFactory(factory.New()))
		}
		v := encoder.NewMessageValidator(opts...)
		if i >= 0 && i%4 == 3 { // a used validator: declarations from an earlier sequence, then Reset -- as fresh
			junk := r.devScenario()
			for k := range junk {
				_ = v.Validate(&junk[k])
			}
			v.Reset()
			stat("validator_reused_after_reset", 1)
		}
		work := cloneMessages(msgs)
		var results []string
		for k := range work {
			in := cloneMessages(work[k : k+1])[0]
			err := v.Validate(&work[k])
			if err != nil {
				results = append(results, fmt.Sprintf("VErr %d", encErrClass(err)))
				stat(fmt.Sprintf("validate_err%d", encErrClass(err)), 1)
				break
			}
			stat("validate_ok", 1)
			results = append(results, "VOk "+coqMesg(&work[k], false))
			// direct oracle: limits, frame, idempotence (same validator state: descriptions already registered)
			if why := withinLimits(&work[k]); why != "" {
				emitJSON("FAIL", "", map[string]any{"kind": "accepted-outside-limits", "why": why, "input": coqIMesg(&in)})
			}
			if why := frameOK(&in, &work[k], preserve); why != "" {
				emitJSON("FAIL", "", map[string]any{"kind": "frame", "why": why, "input": coqIMesg(&in), "output": coqMesg(&work[k], false)})
			}
			if work[k].Num != mesgnum.DeveloperDataId && work[k].Num != mesgnum.FieldDescription {
				again := cloneMessages(work[k : k+1])[0]
				if err2 := v.Validate(&again); err2 != nil || coqMesg(&again, false) != coqMesg(&work[k], false) {
					js := map[string]any{"kind": "idempotence", "first": coqMesg(&work[k], false), "second": coqMesg(&again, false), "err": fmt.Sprint(err2)}
					if len(work[k].Fields) == 0 && len(work[k].DeveloperFields) == 0 {
						emitJSON("KNOWN", "validate_empty_after_dev_filter", js)
					} else if err2 == nil && onlyFloat64DevDiffer(&work[k], &again) {
						emitJSON("KNOWN", "dev_float64_with_scale", js)
					} else {
						emitJSON("FAIL", "", js)
					}
				}
			}
		}
		emit("CASE", fmt.Sprintf("(%s, %s, %s)", coqBool(preserve), coqIMesgs(msgs), coqList(results)))
		if i >= 0 && i < 2 {
			emit("SAMPLE", fmt.Sprintf("preserve=%v %d messages -> %v", preserve, len(msgs), results))
		}
	}
	// boundary corpus (deterministic, always first): every size limit from both sides
	for _, msgs := range boundaryMessages() {
		stat("boundary_messages", 1)
		runOne(-1, msgs, false)
		runOne(-1, msgs, true)
	}
	for i := 0; i < n; i++ {
		preserve := r.chance(1, 3)
		var msgs []proto.Message
		if r.chance(1, 3) {
			msgs = r.devScenario()
		} else {
			for k := 0; k < 1+r.intn(3); k++ {
				msgs = append(msgs, r.nastyMessage())
			}
		}
		runOne(i, msgs, preserve)
	}
	// sequence scoping: developer data ids and field descriptions of one sequence do not carry over into the next, whether the
	// sequences come from successive Encode calls or from one stream encoder
	for i := 0; i < 6+n/50; i++ {
		idx, num := byte(r.intn(3)), byte(r.intn(4))
		setup, dfs := r.devSetup(idx, int(num)+1)
		d := dfs[num]
		mkRec := func() proto.Message {
			rec := proto.Message{Num: mesgnum.Record}
			hr := factory.CreateField(mesgnum.Record, fieldnum.RecordHeartRate)
			hr.Value = proto.Uint8(uint8(60 + r.intn(100)))
			rec.Fields = append(rec.Fields, hr)
			rec.DeveloperFields = append(rec.DeveloperFields, proto.DeveloperField{Num: d.num, DeveloperDataIndex: idx,
				Value: r.valueFor(d.base, profile.ProfileType(d.base&basetype.BaseTypeNumMask), false, 0, 3)})
			return rec
		}
		A := append(append([]proto.Message{fileIdMesg(r)}, setup...), mkRec())
		failFirst := r.chance(1, 3) // the first sequence is rejected after its developer data was declared: nothing of it may survive
		if failFirst {
			bad := proto.Message{Num: 0xFF00}
			bf := factory.CreateField(0xFF00, 9)
			bf.BaseType, bf.Type, bf.Array = basetype.Byte, profile.Byte, true
			bf.Value = proto.SliceUint8(make([]byte, 256))
			bad.Fields = append(bad.Fields, bf)
			A = append(A, bad)
		}
		ownSetup := r.chance(1, 3)
		B := []proto.Message{fileIdMesg(r)}
		if ownSetup {
			B = append(B, setup...)
		}
		B = append(B, mkRec())
		for _, stream := range []bool{false, true} {
			if stream && failFirst { // a failed WriteMessage leaves the stream encoder inside the same sequence
				continue
			}
			w, _ := newDest(3, -1, 0, nil)
			var errA, errB error
			if !stream {
				enc := encoder.New(w, encoder.WithProtocolVersion(proto.V2))
				errA = enc.Encode(&proto.FIT{Messages: cloneMessages(A)})
				errB = enc.Encode(&proto.FIT{Messages: cloneMessages(B)})
			} else {
				senc, err := encoder.NewStream(w, encoder.WithProtocolVersion(proto.V2))
				if err != nil {
					continue
				}
				write := func(ms []proto.Message) error {
					ms = cloneMessages(ms)
					for k := range ms {
						if err := senc.WriteMessage(&ms[k]); err != nil {
							return err
						}
					}
					return senc.SequenceCompleted()
				}
				errA = write(A)
				errB = write(B)
			}
			stat("oracle_sequence_scoping", 1)
			if (errA != nil) != failFirst || (errB == nil) != ownSetup {
				emitJSON("FAIL", "", map[string]any{"kind": "developer-data-scope", "stream": stream, "second_sequence_has_own_descriptions": ownSetup, "first_sequence_rejected_on_purpose": failFirst,
					"first_err": fmt.Sprint(errA), "second_err": fmt.Sprint(errB), "first": coqIMesgs(A), "second": coqIMesgs(B)})
			}
		}
	}
	// protocol 1.0 through the encoder: developer fields and 64-bit base types are rejected, nothing else
	for i := 0; i < n/4; i++ {
		msgs := r.genFit(mesgGenCfg{wellFormed: true, maxFields: 6, unknown: true}, 1+r.intn(4), r.chance(1, 3))
		ec := r.encCfg()
		ec.protoVer = proto.V1
		b, err := encodeFit(ec, cloneMessages(msgs))
		want := false
		for _, m := range msgs {
			if len(m.DeveloperFields) > 0 {
				want = true
			}
			for _, f := range m.Fields {
				if f.BaseType&basetype.BaseTypeNumMask > basetype.Byte&basetype.BaseTypeNumMask {
					want = true
				}
			}
		}
		stat("v1_cases", 1)
		if (encErrClass(err) == 27) != want {
			emitJSON("FAIL", "", map[string]any{"kind": "protocol-v1", "err": fmt.Sprint(err), "want_reject": want, "input": coqIMesgs(msgs)})
		}
		if err != nil && len(b) != 0 {
			emitJSON("FAIL", "", map[string]any{"kind": "rejected-but-wrote", "bytes": len(b), "err": err.Error()})
		}
	}
	// the version gate follows each file's own header along a chain written by ONE encoder (fresh, or reused after Reset): the
	// effective version of a file is the option's if set, else its header's, else 1.0 -- never the one a previous file of the
	// chain, or a previous life of the encoder, left in the validator; a rejected file writes nothing and the encoder goes on
	for i := 0; i < n/6; i++ {
		opt := proto.Version(0)
		if r.chance(1, 4) {
			opt = proto.Version(r.pick(0x10, 0x20))
		}
		reuse := r.chance(1, 3)
		var buf bytes.Buffer
		enc := encoder.New(&buf, encoder.WithProtocolVersion(opt))
		if reuse {
			enc = encoder.New(io.Discard, encoder.WithProtocolVersion(proto.Version(r.pick(0x10, 0x20))))
			_ = enc.Encode(&proto.FIT{FileHeader: proto.FileHeader{ProtocolVersion: proto.Version(r.pick(0, 0x10, 0x20))}, Messages: []proto.Message{fileIdMesg(r)}})
			enc.Reset(&buf, encoder.WithProtocolVersion(opt))
		}
		var hist []string
		for k, nf := 0, 2+r.intn(3); k < nf; k++ {
			hv := proto.Version(r.pick(0, 0, 0x10, 0x20, 0x21))
			msgs := r.genFit(mesgGenCfg{wellFormed: true, maxFields: 5, unknown: true}, 1+r.intn(3), r.chance(1, 2))
			needsV2 := false
			for _, m := range msgs {
				needsV2 = needsV2 || len(m.DeveloperFields) > 0
				for _, f := range m.Fields {
					needsV2 = needsV2 || f.BaseType&basetype.BaseTypeNumMask > basetype.Byte&basetype.BaseTypeNumMask
				}
			}
			eff := hv
			if opt != 0 {
				eff = opt
			} else if hv == 0 {
				eff = proto.V1
			}
			want := eff == proto.V1 && needsV2
			before := buf.Len()
			fit := &proto.FIT{FileHeader: proto.FileHeader{ProtocolVersion: hv}, Messages: cloneMessages(msgs)}
			err := enc.Encode(fit)
			hist = append(hist, fmt.Sprintf("Encode(header version %d, needs 2.0: %v) -> %v", hv, needsV2, err))
			stat("version_gate_chain_files", 1)
			if want {
				stat("version_gate_chain_rejections_expected", 1)
			}
			if (encErrClass(err) == 27) != want || (err != nil && buf.Len() != before) || (err == nil && byte(fit.FileHeader.ProtocolVersion) != byte(eff)) {
				emitJSON("FAIL", "", map[string]any{"kind": "protocol-version-gate-along-a-chain", "option_version": opt, "encoder_reused_after_reset": reuse, "history": hist, "file": k,
					"effective_version": eff, "want_reject": want, "err": fmt.Sprint(err), "bytes_written_by_the_call": buf.Len() - before,
					"header_version_written_back": fit.FileHeader.ProtocolVersion, "input": coqIMesgs(msgs)})
				break
			}
		}
	}
	_ = typedef.MesgNumInvalid
}

// frameOK: validation removes only expanded and (unless preserving) invalid-valued fields and keeps order and values of
// the rest (float64 input on scaled fields is restored to the integer representation: compared after restoration by type only).
func frameOK(in, out *proto.Message, preserve bool) string {
	type exp struct {
		num      byte
		val      string
		restored bool
	}
	var want []exp
	for i := range in.Fields {
		f := &in.Fields[i]
		if f.FieldBase == nil || f.IsExpandedField {
			continue
		}
		restored := (f.Value.Type() == proto.TypeFloat64 || f.Value.Type() == proto.TypeSliceFloat64) && (f.Scale != 1 || f.Offset != 0)
		v := f.Value
		if restored {
			v = scaleoffset.DiscardValue(f.Value, f.BaseType, f.Scale, f.Offset)
		}
		if !preserve && !v.Valid(f.BaseType) {
			continue
		}
		want = append(want, exp{f.Num, coqValue(v), restored})
	}
	if len(want) != len(out.Fields) {
		return fmt.Sprintf("kept %d fields, expected %d", len(out.Fields), len(want))
	}
	for i := range want {
		if out.Fields[i].Num != want[i].num || coqValue(out.Fields[i].Value) != want[i].val {
			return fmt.Sprintf("kept field %d is (%d, %s), expected (%d, %s)", i, out.Fields[i].Num, coqValue(out.Fields[i].Value), want[i].num, want[i].val)
		}
		if out.Fields[i].IsExpandedField {
			return "expanded field kept"
		}
	}
	return ""
}

// classifier of the known finding dev_float64_with_scale: the two validations differ only in developer fields (or fields of
// base type float64) that hold Float64 values both times -- a restored float64 is indistinguishable from a scaled one
func onlyFloat64DevDiffer(a, b *proto.Message) bool {
	if len(a.Fields) != len(b.Fields) || len(a.DeveloperFields) != len(b.DeveloperFields) {
		return false
	}
	isF64 := func(v proto.Value) bool { return v.Type() == proto.TypeFloat64 || v.Type() == proto.TypeSliceFloat64 }
	for i := range a.Fields {
		if coqValue(a.Fields[i].Value) != coqValue(b.Fields[i].Value) &&
			!(isF64(a.Fields[i].Value) && isF64(b.Fields[i].Value) && a.Fields[i].BaseType == basetype.Float64) {
			return false
		}
	}
	for i := range a.DeveloperFields {
		if coqValue(a.DeveloperFields[i].Value) != coqValue(b.DeveloperFields[i].Value) &&
			!(isF64(a.DeveloperFields[i].Value) && isF64(b.DeveloperFields[i].Value)) {
			return false
		}
	}
	return true
}

// boundaryMessages: values of 254 / 255 / 256 bytes of every kind, 254 / 255 / 256 fields and developer fields.
func boundaryMessages() [][]proto.Message {
	loadFactory()
	var out [][]proto.Message
	mk := func(num typedef.MesgNum, f proto.Field) {
		out = append(out, []proto.Message{{Num: num, Fields: []proto.Field{f}}})
	}
	rep := func(ch byte, n int) string { return string(bytes.Repeat([]byte{ch}, n)) }
	for _, n := range []int{252, 253, 254, 255, 256, 257} {
		f := factory.CreateField(mesgnum.FileId, fieldnum.FileIdProductName)
		f.Value = proto.String(rep('a', n))
		mk(mesgnum.FileId, f)
		f = factory.CreateField(mesgnum.FileId, fieldnum.FileIdProductName)
		f.Value = proto.String(rep('a', n-3) + "\u00e9") // multi-byte rune at the end
		mk(mesgnum.FileId, f)
		g := factory.CreateField(mesgnum.FieldDescription, fieldnum.FieldDescriptionFieldName)
		g.Value = proto.SliceString([]string{rep('x', n/2), rep('y', n-n/2-2)}) // two terminators: size n
		mk(mesgnum.FieldDescription, g)
		u := factory.CreateField(0xFF00, 7)
		u.BaseType, u.Type, u.Array = basetype.Byte, profile.Byte, true
		u.Value = proto.SliceUint8(bytes.Repeat([]byte{7}, n))
		mk(0xFF00, u)
		us := factory.CreateField(0xFF00, 8)
		us.BaseType, us.Type = basetype.String, profile.String
		us.Value = proto.String(rep('z', n))
		mk(0xFF00, us)
	}
	for _, n := range []int{126, 127, 128} {
		u := factory.CreateField(0xFF00, 9)
		u.BaseType, u.Type, u.Array = basetype.Uint16, profile.Uint16, true
		u.Value = proto.SliceUint16(make([]uint16, n))
		mk(0xFF00, u)
	}
	for _, n := range []int{63, 64} {
		u := factory.CreateField(0xFF00, 10)
		u.BaseType, u.Type, u.Array = basetype.Uint32, profile.Uint32, true
		u.Value = proto.SliceUint32(make([]uint32, n))
		mk(0xFF00, u)
	}
	for _, n := range []int{31, 32} {
		u := factory.CreateField(0xFF00, 11)
		u.BaseType, u.Type, u.Array = basetype.Uint64, profile.Uint64, true
		u.Value = proto.SliceUint64(make([]uint64, n))
		mk(0xFF00, u)
	}
	for _, n := range []int{254, 255, 256} {
		m := proto.Message{Num: 0xFF01}
		for j := 0; j < n; j++ {
			f := factory.CreateField(0xFF01, byte(j%256))
			f.BaseType, f.Type = basetype.Uint8, profile.Uint8
			f.Value = proto.Uint8(uint8(j % 200))
			m.Fields = append(m.Fields, f)
		}
		out = append(out, []proto.Message{m})
		// developer fields: id + description + n developer fields on one record
		dd := proto.Message{Num: mesgnum.DeveloperDataId}
		f := factory.CreateField(mesgnum.DeveloperDataId, fieldnum.DeveloperDataIdDeveloperDataIndex)
		f.Value = proto.Uint8(0)
		dd.Fields = append(dd.Fields, f)
		fd := proto.Message{Num: mesgnum.FieldDescription}
		add := func(num byte, v proto.Value) {
			f := factory.CreateField(mesgnum.FieldDescription, num)
			f.Value = v
			fd.Fields = append(fd.Fields, f)
		}
		add(fieldnum.FieldDescriptionDeveloperDataIndex, proto.Uint8(0))
		add(fieldnum.FieldDescriptionFieldDefinitionNumber, proto.Uint8(0))
		add(fieldnum.FieldDescriptionFitBaseTypeId, proto.Uint8(uint8(basetype.Uint8)))
		add(fieldnum.FieldDescriptionFieldName, proto.SliceString([]string{"dev"}))
		rec := proto.Message{Num: mesgnum.Record}
		hr := factory.CreateField(mesgnum.Record, fieldnum.RecordHeartRate)
		hr.Value = proto.Uint8(60)
		rec.Fields = append(rec.Fields, hr)
		for j := 0; j < n; j++ {
			rec.DeveloperFields = append(rec.DeveloperFields, proto.DeveloperField{Num: 0, DeveloperDataIndex: 0, Value: proto.Uint8(uint8(j % 200))})
		}
		out = append(out, []proto.Message{dd, fd, rec})
	}
	return out
}
