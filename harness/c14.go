package main

// C14 -- file types conserve messages; the concurrent listener equals sequential building.
//   verifharness c14 --mode files|listener|all --seed S --tier T [--modes Name=All|Unrelated|None,...] [--only Name] [--case I]
// files:    CASE F <Name> <coq list msg> <coq list obs>       (Run/RunC14.v check_case after the name is replaced by its index)
// listener: CASE L <coq phases> <coq list lres>               (check_lcase)
// Direct oracle of the property statement: conservation as multiset with singleton last-wins, normalisation = typed round trip,
// prefix, timestamp order + stability; listener.File() against sequential building, each workload under a watchdog.

import (
	"encoding/json"
	"fmt"
	"os"
	"reflect"
	"runtime"
	"sort"
	"strings"
	"sync/atomic"
	"time"

	"github.com/muktihari/fit/profile/basetype"
	"github.com/muktihari/fit/profile/factory"
	"github.com/muktihari/fit/profile/filedef"
	"github.com/muktihari/fit/profile/mesgdef"
	"github.com/muktihari/fit/profile/typedef"
	"github.com/muktihari/fit/profile/untyped/fieldnum"
	"github.com/muktihari/fit/profile/untyped/mesgnum"
	"github.com/muktihari/fit/proto"
)

func init() { cmds["c14"] = c14Main }

const c14Marker = 249 // unknown field number carrying the identity tag of a message

type c14Type struct {
	name string
	mk   func(ms ...proto.Message) filedef.File
	ft   []typedef.File
	// learnt from the exported struct by reflection (declarations only, not Add/ToFIT)
	single map[typedef.MesgNum]bool // held by value or by pointer
	many   map[typedef.MesgNum]bool // held in a slice
}

var c14Types = []*c14Type{
	{name: "Activity", mk: func(ms ...proto.Message) filedef.File { return filedef.NewActivity(ms...) }, ft: []typedef.File{typedef.FileActivity}},
	{name: "ActivitySummary", mk: func(ms ...proto.Message) filedef.File { return filedef.NewActivitySummary(ms...) }, ft: []typedef.File{typedef.FileActivitySummary}},
	{name: "BloodPressure", mk: func(ms ...proto.Message) filedef.File { return filedef.NewBloodPressure(ms...) }, ft: []typedef.File{typedef.FileBloodPressure}},
	{name: "Course", mk: func(ms ...proto.Message) filedef.File { return filedef.NewCourse(ms...) }, ft: []typedef.File{typedef.FileCourse}},
	{name: "Device", mk: func(ms ...proto.Message) filedef.File { return filedef.NewDevice(ms...) }, ft: []typedef.File{typedef.FileDevice}},
	{name: "Goals", mk: func(ms ...proto.Message) filedef.File { return filedef.NewGoals(ms...) }, ft: []typedef.File{typedef.FileGoals}},
	{name: "MonitoringAB", mk: func(ms ...proto.Message) filedef.File { return filedef.NewMonitoringAB(ms...) }, ft: []typedef.File{typedef.FileMonitoringA, typedef.FileMonitoringB}},
	{name: "MonitoringDaily", mk: func(ms ...proto.Message) filedef.File { return filedef.NewMonitoringDaily(ms...) }, ft: []typedef.File{typedef.FileMonitoringDaily}},
	{name: "Schedules", mk: func(ms ...proto.Message) filedef.File { return filedef.NewSchedules(ms...) }, ft: []typedef.File{typedef.FileSchedules}},
	{name: "Segment", mk: func(ms ...proto.Message) filedef.File { return filedef.NewSegment(ms...) }, ft: []typedef.File{typedef.FileSegment}},
	{name: "SegmentList", mk: func(ms ...proto.Message) filedef.File { return filedef.NewSegmentList(ms...) }, ft: []typedef.File{typedef.FileSegmentList}},
	{name: "Settings", mk: func(ms ...proto.Message) filedef.File { return filedef.NewSettings(ms...) }, ft: []typedef.File{typedef.FileSettings}},
	{name: "Sport", mk: func(ms ...proto.Message) filedef.File { return filedef.NewSport(ms...) }, ft: []typedef.File{typedef.FileSport}},
	{name: "Totals", mk: func(ms ...proto.Message) filedef.File { return filedef.NewTotals(ms...) }, ft: []typedef.File{typedef.FileTotals}},
	{name: "Weight", mk: func(ms ...proto.Message) filedef.File { return filedef.NewWeight(ms...) }, ft: []typedef.File{typedef.FileWeight}},
	{name: "Workout", mk: func(ms ...proto.Message) filedef.File { return filedef.NewWorkout(ms...) }, ft: []typedef.File{typedef.FileWorkout}},
}

var (
	c14Pool     []typedef.MesgNum // every message number some file type holds typed
	c14Extra    = []typedef.MesgNum{mesgnum.Set, mesgnum.CoursePoint, mesgnum.Record, mesgnum.Event, mesgnum.Hrv, mesgnum.Monitoring, 0xFF00, 0xFF01, 400}
	c14Fields   = map[typedef.MesgNum][]proto.Field{} // known fields per message
	c14Modes    = map[string]string{}
	c14ModesArg string
)

func c14TypeByName(n string) *c14Type {
	for _, t := range c14Types {
		if t.name == n {
			return t
		}
	}
	return nil
}

// the timestamp field of a message as the property states it (course_point: 1, set: 254, otherwise 253)
func c14TsNum(num typedef.MesgNum) byte {
	switch num {
	case mesgnum.CoursePoint:
		return 1
	case mesgnum.Set:
		return 254
	}
	return 253
}

func c14Init() {
	optType := reflect.TypeOf((*mesgdef.Options)(nil))
	seen := map[typedef.MesgNum]bool{}
	for _, t := range c14Types {
		t.single, t.many = map[typedef.MesgNum]bool{}, map[typedef.MesgNum]bool{}
		st := reflect.TypeOf(t.mk()).Elem()
		for i := 0; i < st.NumField(); i++ {
			ft := st.Field(i).Type
			single := true
			if ft.Kind() == reflect.Slice {
				ft, single = ft.Elem(), false
			}
			if ft.Kind() == reflect.Ptr {
				ft = ft.Elem()
			}
			if ft.Kind() != reflect.Struct || ft.PkgPath() != "github.com/muktihari/fit/profile/mesgdef" {
				continue // UnrelatedMessages
			}
			m, ok := reflect.PointerTo(ft).MethodByName("ToMesg")
			if !ok {
				c14Fatal("mesgdef." + ft.Name() + " has no ToMesg")
			}
			res := m.Func.Call([]reflect.Value{reflect.New(ft), reflect.Zero(optType)})
			num := res[0].Interface().(proto.Message).Num
			if _, ok := c14RoundTrip[num]; !ok {
				c14Fatal(fmt.Sprintf("no typed round trip known for message %d (%s)", num, ft.Name()))
			}
			if single {
				t.single[num] = true
			} else {
				t.many[num] = true
			}
			if !seen[num] {
				seen[num] = true
				c14Pool = append(c14Pool, num)
			}
		}
	}
	sort.Slice(c14Pool, func(i, j int) bool { return c14Pool[i] < c14Pool[j] })
	for _, num := range append(append([]typedef.MesgNum{}, c14Pool...), c14Extra...) {
		if _, ok := c14Fields[num]; ok {
			continue
		}
		c14Fields[num] = nil
		for f := 0; f < 256; f++ {
			fld := factory.CreateField(num, byte(f))
			if fld.Name == factory.NameUnknown {
				continue
			}
			if f == c14Marker {
				c14Fatal(fmt.Sprintf("marker field %d is defined in message %d", c14Marker, num))
			}
			c14Fields[num] = append(c14Fields[num], fld)
		}
		// the property's timestamp numbers against the profile names
		if fld := factory.CreateField(num, c14TsNum(num)); fld.Name != factory.NameUnknown && fld.Name != "timestamp" {
			c14Fatal(fmt.Sprintf("message %d: field %d is %q, not timestamp", num, c14TsNum(num), fld.Name))
		}
	}
}

func c14Fatal(msg string) {
	emitJSON("FAIL", "", map[string]any{"what": "harness cannot run", "why": msg})
	flushStats()
	out.Flush()
	os.Exit(3)
}

// ---------------------------------------------------------------- generation

func c14Value(r *rng, bt basetype.BaseType, array bool, invalid bool) proto.Value {
	n := 1
	if array {
		n = 1 + r.intn(3)
	}
	switch bt {
	case basetype.Enum, basetype.Uint8, basetype.Byte:
		v := make([]uint8, n)
		for i := range v {
			v[i] = uint8(r.intn(200))
			if invalid {
				v[i] = 0xFF
			}
		}
		if array {
			return proto.SliceUint8(v)
		}
		return proto.Uint8(v[0])
	case basetype.Uint8z:
		v := make([]uint8, n)
		for i := range v {
			v[i] = uint8(1 + r.intn(200))
			if invalid {
				v[i] = 0
			}
		}
		if array {
			return proto.SliceUint8(v)
		}
		return proto.Uint8(v[0])
	case basetype.Sint8:
		v := make([]int8, n)
		for i := range v {
			v[i] = int8(r.intn(200) - 100)
			if invalid {
				v[i] = 0x7F
			}
		}
		if array {
			return proto.SliceInt8(v)
		}
		return proto.Int8(v[0])
	case basetype.Sint16:
		v := make([]int16, n)
		for i := range v {
			v[i] = int16(r.intn(60000) - 30000)
			if invalid {
				v[i] = 0x7FFF
			}
		}
		if array {
			return proto.SliceInt16(v)
		}
		return proto.Int16(v[0])
	case basetype.Uint16, basetype.Uint16z:
		v := make([]uint16, n)
		for i := range v {
			v[i] = uint16(1 + r.intn(60000))
			if invalid {
				v[i] = 0xFFFF
				if bt == basetype.Uint16z {
					v[i] = 0
				}
			}
		}
		if array {
			return proto.SliceUint16(v)
		}
		return proto.Uint16(v[0])
	case basetype.Sint32:
		v := make([]int32, n)
		for i := range v {
			v[i] = int32(r.u64()%2000000) - 1000000
			if invalid {
				v[i] = 0x7FFFFFFF
			}
		}
		if array {
			return proto.SliceInt32(v)
		}
		return proto.Int32(v[0])
	case basetype.Uint32, basetype.Uint32z:
		v := make([]uint32, n)
		for i := range v {
			v[i] = uint32(1 + r.u64()%4000000000)
			if invalid {
				v[i] = 0xFFFFFFFF
				if bt == basetype.Uint32z {
					v[i] = 0
				}
			}
		}
		if array {
			return proto.SliceUint32(v)
		}
		return proto.Uint32(v[0])
	case basetype.String:
		if array {
			return proto.SliceString([]string{"a", "bc"})
		}
		if invalid {
			return proto.String("")
		}
		return proto.String(fmt.Sprintf("s%d", r.intn(100)))
	case basetype.Float32:
		if array {
			return proto.SliceFloat32([]float32{1.5, 2.25})
		}
		return proto.Float32(float32(r.intn(1000)) / 4)
	case basetype.Float64:
		if array {
			return proto.SliceFloat64([]float64{1.5})
		}
		return proto.Float64(float64(r.intn(1000)) / 4)
	case basetype.Sint64:
		return proto.Int64(int64(r.intn(1 << 40)))
	case basetype.Uint64, basetype.Uint64z:
		return proto.Uint64(1 + r.u64()%(1<<40))
	}
	return proto.Uint8(1)
}

func c14TsValue(r *rng) (proto.Value, bool) {
	switch x := r.intn(100); {
	case x < 25:
		return proto.Value{}, false
	case x < 85:
		return proto.Uint32(1000000000 + uint32(r.intn(6))), true
	case x < 93:
		return proto.Uint32(0xFFFFFFFF), true
	case x < 97:
		return proto.Uint32(uint32(r.intn(5))), true
	default:
		return proto.Uint16(uint16(r.intn(9))), true // not a uint32: reads as invalid
	}
}

func c14Mesg(r *rng, num typedef.MesgNum, id uint32, fileType typedef.File) proto.Message {
	m := proto.Message{Num: num}
	used := map[byte]bool{c14Marker: true}
	tsn := c14TsNum(num)
	add := func(f proto.Field) {
		if !used[f.Num] {
			used[f.Num] = true
			m.Fields = append(m.Fields, f)
		}
	}
	if num == mesgnum.FileId {
		f := factory.CreateField(num, fieldnum.FileIdType)
		f.Value = proto.Uint8(uint8(fileType))
		add(f)
	}
	if v, ok := c14TsValue(r); ok {
		f := factory.CreateField(num, tsn)
		f.Value = v
		add(f)
	}
	if tsn != 253 && r.chance(1, 2) { // a decoy at 253 where the timestamp lives elsewhere
		f := factory.CreateField(num, 253)
		f.Value = proto.Uint32(1000000000 + uint32(r.intn(6)))
		add(f)
	}
	known := c14Fields[num]
	for k := r.intn(4); k > 0 && len(known) > 0; k-- {
		f := known[r.intn(len(known))]
		if f.Num == tsn || f.Num == 253 || (num == mesgnum.FileId && f.Num == fieldnum.FileIdType) {
			continue
		}
		f.Value = c14Value(r, f.BaseType, f.Array, r.chance(1, 6) && f.BaseType != basetype.Float32 && f.BaseType != basetype.Float64)
		add(f)
	}
	if len(known) == 0 && r.chance(1, 2) { // unknown message: a couple of unknown fields
		for _, n := range []byte{1, 254} {
			if r.chance(1, 2) {
				f := factory.CreateField(num, n)
				f.Value = proto.Uint32(1000000000 + uint32(r.intn(6)))
				add(f)
			}
		}
	}
	if r.chance(1, 7) {
		m.DeveloperFields = []proto.DeveloperField{{Num: byte(r.intn(3)), DeveloperDataIndex: 0, Value: proto.Uint8(uint8(r.intn(250)))}}
	}
	mk := factory.CreateField(num, c14Marker)
	mk.Value = proto.Uint32(id)
	// the marker anywhere in the field list
	pos := r.intn(len(m.Fields) + 1)
	m.Fields = append(m.Fields, proto.Field{})
	copy(m.Fields[pos+1:], m.Fields[pos:])
	m.Fields[pos] = mk
	return m
}

// a message list for file type t: its own kinds, kinds of other file types, unknown numbers; duplicates of singletons
func c14List(r *rng, t *c14Type, n int, withFileId bool) []proto.Message {
	var own []typedef.MesgNum
	for _, num := range c14Pool {
		if (t.single[num] || t.many[num]) && num != mesgnum.FileId {
			own = append(own, num)
		}
	}
	focus := own
	if len(own) > 5 && r.chance(1, 2) {
		focus = nil
		for k := 0; k < 4; k++ {
			focus = append(focus, own[r.intn(len(own))])
		}
	}
	ms := make([]proto.Message, 0, n+1)
	id := uint32(1)
	ft := t.ft[r.intn(len(t.ft))]
	fidAt := 0
	if r.chance(1, 4) {
		fidAt = r.intn(n + 1)
	}
	for i := 0; i <= n; i++ {
		if i == fidAt && withFileId {
			ms = append(ms, c14Mesg(r, mesgnum.FileId, id, ft))
			id++
			continue
		}
		var num typedef.MesgNum
		switch x := r.intn(100); {
		case x < 55 && len(focus) > 0:
			num = focus[r.intn(len(focus))]
		case x < 63:
			num = mesgnum.DeveloperDataId
		case x < 71:
			num = mesgnum.FieldDescription
		case x < 74:
			num = mesgnum.FileId
		case x < 88:
			num = c14Extra[r.intn(len(c14Extra))]
		default:
			num = c14Pool[r.intn(len(c14Pool))]
		}
		ms = append(ms, c14Mesg(r, num, id, ft))
		id++
	}
	return ms
}

// ---------------------------------------------------------------- projection

func c14Id(m *proto.Message) uint32 {
	if f := m.FieldByNum(c14Marker); f != nil {
		return f.Value.Uint32()
	}
	return 0
}

func c14Cands(m *proto.Message) string {
	var items []string
	for i := range m.Fields { // first occurrence of each candidate number, as FieldByNum
		n := m.Fields[i].Num
		if n != 253 && n != 1 && n != 254 {
			continue
		}
		if m.FieldByNum(n) != &m.Fields[i] {
			continue
		}
		items = append(items, fmt.Sprintf("(%d, %d)", n, m.Fields[i].Value.Uint32()))
	}
	sort.Strings(items)
	return coqList(items)
}

func c14Norm(m proto.Message) proto.Message {
	if rt, ok := c14RoundTrip[m.Num]; ok {
		c := m
		c.Fields = append([]proto.Field(nil), m.Fields...)
		return rt(&c)
	}
	return m
}

func c14CoqMsg(m proto.Message) string {
	nm := c14Norm(m)
	aux := uint8(0)
	if m.Num == mesgnum.FileId {
		aux = m.FieldValueByNum(fieldnum.FileIdType).Uint8()
	}
	return fmt.Sprintf("mkmsg %d %d %s %s %d", m.Num, c14Id(&m), c14Cands(&m), c14Cands(&nm), aux)
}

func c14CoqMsgs(ms []proto.Message) string {
	items := make([]string, len(ms))
	for i := range ms {
		items[i] = c14CoqMsg(ms[i])
	}
	return coqList(items)
}

func c14CoqObs(ms []proto.Message) string {
	items := make([]string, len(ms))
	for i := range ms {
		items[i] = fmt.Sprintf("(%d, %d, %s)", ms[i].Num, c14Id(&ms[i]), c14Cands(&ms[i]))
	}
	return coqList(items)
}

func c14Describe(ms []proto.Message) []string {
	outl := make([]string, len(ms))
	for i := range ms {
		var fs []string
		for _, f := range ms[i].Fields {
			fs = append(fs, fmt.Sprintf("%d=%v", f.Num, f.Value.Any()))
		}
		outl[i] = fmt.Sprintf("mesg %d #%d {%s} dev=%d", ms[i].Num, c14Id(&ms[i]), strings.Join(fs, " "), len(ms[i].DeveloperFields))
	}
	return outl
}

func c14MesgEqual(a, b *proto.Message) bool {
	if a.Num != b.Num || len(a.Fields) != len(b.Fields) || len(a.DeveloperFields) != len(b.DeveloperFields) {
		return false
	}
	for i := range a.Fields {
		x, y := a.Fields[i], b.Fields[i]
		if x.Num != y.Num || x.IsExpandedField != y.IsExpandedField || x.Name != y.Name || x.BaseType != y.BaseType ||
			x.Value.Type() != y.Value.Type() || !reflect.DeepEqual(x.Value.Any(), y.Value.Any()) {
			return false
		}
	}
	for i := range a.DeveloperFields {
		x, y := a.DeveloperFields[i], b.DeveloperFields[i]
		if x.Num != y.Num || x.DeveloperDataIndex != y.DeveloperDataIndex || !reflect.DeepEqual(x.Value.Any(), y.Value.Any()) {
			return false
		}
	}
	return true
}

// ---------------------------------------------------------------- direct oracle for a file type

type c14Verdict struct {
	what  string // "" = holds
	known string // finding id explaining it, if any
}

func c14Key(m *proto.Message) (uint32, bool) {
	f := m.FieldByNum(c14TsNum(m.Num))
	if f == nil {
		return 0, false
	}
	return f.Value.Uint32(), true
}

func c14Oracle(t *c14Type, in, outm []proto.Message) c14Verdict {
	typed := func(n typedef.MesgNum) bool { return t.single[n] || t.many[n] }
	// conservation, normalisation
	expect := map[uint32]proto.Message{}
	lastFid := uint32(0)
	for i := range in {
		m := in[i]
		if m.Num == mesgnum.FileId {
			lastFid = c14Id(&m)
		}
		shadowed := false
		if t.single[m.Num] {
			for j := i + 1; j < len(in); j++ {
				if in[j].Num == m.Num {
					shadowed = true
				}
			}
		}
		if shadowed {
			continue
		}
		if typed(m.Num) {
			expect[c14Id(&m)] = c14Norm(m)
		} else {
			expect[c14Id(&m)] = m
		}
	}
	seen := map[uint32]int{}
	for i := range outm {
		id := c14Id(&outm[i])
		seen[id]++
		e, ok := expect[id]
		if !ok {
			return c14Verdict{what: fmt.Sprintf("output message %d (mesg %d, tag %d) is not an input message that should survive (lost singleton order, duplicate or fabricated)", i, outm[i].Num, id)}
		}
		if !c14MesgEqual(&e, &outm[i]) {
			return c14Verdict{what: fmt.Sprintf("output message %d (tag %d) differs from its input beyond the typed normalisation: mesg %d -> %d", i, id, e.Num, outm[i].Num)}
		}
	}
	for id, e := range expect {
		if seen[id] != 1 {
			return c14Verdict{what: fmt.Sprintf("input message tag %d (mesg %d) occurs %d times in the output", id, e.Num, seen[id])}
		}
	}
	// prefix
	if lastFid == 0 {
		return c14Verdict{}
	}
	pos := 0
	if len(outm) == 0 || outm[0].Num != mesgnum.FileId || c14Id(&outm[0]) != lastFid {
		return c14Verdict{what: "the first message is not the last file_id"}
	}
	pos = 1
	for _, want := range []typedef.MesgNum{mesgnum.DeveloperDataId, mesgnum.FieldDescription} {
		for i := range in {
			if in[i].Num != want {
				continue
			}
			if pos >= len(outm) || c14Id(&outm[pos]) != c14Id(&in[i]) {
				return c14Verdict{what: fmt.Sprintf("prefix position %d does not hold input tag %d (mesg %d) in arrival order", pos, c14Id(&in[i]), want)}
			}
			pos++
		}
	}
	// order: timestamp-less first, then by timestamp; equal keys of the same kind keep arrival order
	tail := outm[pos:]
	mode := c14Modes[t.name]
	for i := 0; i+1 < len(tail); i++ {
		ka, oka := c14Key(&tail[i])
		kb, okb := c14Key(&tail[i+1])
		bad := (oka && !okb) || (oka && okb && ka > kb)
		if !bad {
			continue
		}
		what := fmt.Sprintf("after the prefix, position %d (mesg %d tag %d ts %v/%d) precedes position %d (mesg %d tag %d ts %v/%d)",
			i, tail[i].Num, c14Id(&tail[i]), oka, ka, i+1, tail[i+1].Num, c14Id(&tail[i+1]), okb, kb)
		if mode == "None" || (mode == "Unrelated" && (typed(tail[i].Num) || typed(tail[i+1].Num))) {
			return c14Verdict{what: what, known: "partial_timestamp_order"}
		}
		return c14Verdict{what: what}
	}
	for i := range tail {
		for j := i + 1; j < len(tail); j++ {
			ka, oka := c14Key(&tail[i])
			kb, okb := c14Key(&tail[j])
			if tail[i].Num == tail[j].Num && oka == okb && ka == kb && c14Id(&tail[i]) > c14Id(&tail[j]) {
				what := fmt.Sprintf("not stable: tags %d and %d (mesg %d, equal timestamps) left arrival order", c14Id(&tail[i]), c14Id(&tail[j]), tail[i].Num)
				if mode != "All" && mode != "" {
					return c14Verdict{what: what, known: "partial_timestamp_order"}
				}
				return c14Verdict{what: what}
			}
		}
	}
	return c14Verdict{}
}

func c14RunFile(t *c14Type, in []proto.Message) (outm []proto.Message, panicked string) {
	defer func() {
		if e := recover(); e != nil {
			panicked = fmt.Sprint(e)
		}
	}()
	cp := make([]proto.Message, len(in))
	for i := range in {
		cp[i] = in[i]
		cp[i].Fields = append([]proto.Field(nil), in[i].Fields...)
		cp[i].DeveloperFields = append([]proto.DeveloperField(nil), in[i].DeveloperFields...)
	}
	fit := t.mk(cp...).ToFIT(nil)
	return fit.Messages, ""
}

func c14Shrink(t *c14Type, in []proto.Message, v c14Verdict) []proto.Message {
	cur := in
	for changed := true; changed; {
		changed = false
		for i := 0; i < len(cur); i++ {
			cand := append(append([]proto.Message{}, cur[:i]...), cur[i+1:]...)
			hasFid := false
			for _, m := range cand {
				hasFid = hasFid || m.Num == mesgnum.FileId
			}
			if !hasFid {
				continue
			}
			o, p := c14RunFile(t, cand)
			if p != "" {
				continue
			}
			if w := c14Oracle(t, cand, o); w.what != "" && w.known == v.known {
				cur, changed = cand, true
				i--
			}
		}
	}
	return cur
}

func c14Files(c *common, only string, onlyCase int) {
	r := newRng(c.seed)
	per := 60
	if c.tier == "thorough" {
		per = 1200
	}
	if c.n > 0 {
		per = c.n
	}
	knownSeen := map[string]bool{}
	fails := 0
	for _, t := range c14Types {
		for k := 0; k < per; k++ {
			cr := r.fork()
			if (only != "" && only != t.name) || (onlyCase >= 0 && onlyCase != k) {
				continue
			}
			n := cr.pick(0, 1, 2, 3, 5, 8, 13, 25, 40)
			in := c14List(cr, t, n, true)
			outm, pan := c14RunFile(t, in)
			stat("file_cases", 1)
			stat("file_messages", len(in))
			if pan != "" {
				emitJSON("FAIL", "", map[string]any{"what": "panic", "panic": pan, "file_type": t.name, "case": k, "input": c14Describe(in)})
				continue
			}
			emit("CASE", fmt.Sprintf("F\t%s\t%s\t%s", t.name, c14CoqMsgs(in), c14CoqObs(outm)))
			if k < 1 && t.name == "Course" {
				emit("SAMPLE", fmt.Sprintf("%s: in=%v out=%s", t.name, c14Describe(in), c14CoqObs(outm)))
			}
			v := c14Oracle(t, in, outm)
			if v.what == "" {
				continue
			}
			if v.known != "" {
				stat("known_"+v.known, 1)
				if !knownSeen[v.known+t.name] {
					knownSeen[v.known+t.name] = true
					small := c14Shrink(t, in, v)
					so, _ := c14RunFile(t, small)
					emitJSON("KNOWN", v.known, map[string]any{"file_type": t.name, "what": c14Oracle(t, small, so).what, "input": c14Describe(small), "output": c14CoqObs(so)})
				}
				continue
			}
			fails++
			if fails <= 5 {
				small := c14Shrink(t, in, v)
				so, _ := c14RunFile(t, small)
				emitJSON("FAIL", "", map[string]any{"what": c14Oracle(t, small, so).what, "file_type": t.name, "case": k, "seed": c.seed,
					"input": c14Describe(small), "input_coq": c14CoqMsgs(small), "output": c14CoqObs(so),
					"harness_args": []string{"c14", "--mode", "files", "--seed", fmt.Sprint(c.seed), "--tier", c.tier, "--only", t.name, "--case", fmt.Sprint(k), "--modes", c14ModesArg}})
			}
		}
	}
	// the fabricated file_id (outside the property's domain: a file has a file_id) -- recorded as a remark only
	o, _ := c14RunFile(c14Types[0], []proto.Message{c14Mesg(newRng(1), mesgnum.Record, 1, 0)})
	if len(o) == 2 {
		stat("remark_fabricated_file_id_without_input_file_id", 1)
	}
}

// ---------------------------------------------------------------- listener

type c14Phase struct {
	buf  int // -1: no option (default)
	sets int // 0: default file sets; 1: WithFileSets(PredefinedFileSet()); 2: WithFileSets(even file types only); 3: WithFileFunc re-registering predefined creators; 4: WithFileFunc removing activity (nil)
	seqs [][]proto.Message
}

// c14Sets: the file sets a listener configured with mode sets listens to, and the options that configure it.
func c14Sets(mode int) (filedef.FileSets, []filedef.Option) {
	sets := filedef.PredefinedFileSet()
	switch mode {
	case 1:
		return sets, []filedef.Option{filedef.WithFileSets(filedef.PredefinedFileSet())}
	case 2:
		sub := filedef.FileSets{}
		for k, v := range sets {
			if k%2 == 0 {
				sub[k] = v
			}
		}
		return sub, []filedef.Option{filedef.WithFileSets(sub)}
	case 3:
		var opts []filedef.Option
		for k, v := range sets {
			opts = append(opts, filedef.WithFileFunc(k, v))
		}
		return sets, opts
	case 4:
		delete(sets, typedef.FileActivity)
		return sets, []filedef.Option{filedef.WithFileFunc(typedef.FileActivity, nil)}
	}
	return sets, nil
}

type c14Res struct {
	deadlock bool
	file     filedef.File
	msgs     []proto.Message
}

func c14SeqBuild(ms []proto.Message, sets filedef.FileSets) filedef.File {
	var f filedef.File
	for _, m := range ms {
		if m.Num == mesgnum.FileId {
			fn := sets[typedef.File(m.FieldValueByNum(fieldnum.FileIdType).Uint8())]
			if fn == nil {
				continue
			}
			f = fn()
		}
		if f == nil {
			continue
		}
		c := m
		c.Fields = append([]proto.Field(nil), m.Fields...)
		c.DeveloperFields = append([]proto.DeveloperField(nil), m.DeveloperFields...)
		f.Add(c)
	}
	return f
}

func c14FileName(f filedef.File) string {
	if f == nil || reflect.ValueOf(f).IsNil() {
		return ""
	}
	return reflect.TypeOf(f).Elem().Name()
}

func c14RunListener(phases []c14Phase, timeout time.Duration, gosched *rng) (res []c14Res, panicked string) {
	type item struct {
		r   c14Res
		pan string
		end bool
	}
	ch := make(chan item, 1024)
	var progress atomic.Int64 // bumped after every OnMesg / File: a deadlock is "no progress for the whole timeout", not "slow"
	go func() {
		defer func() {
			if e := recover(); e != nil {
				ch <- item{pan: fmt.Sprint(e)}
			}
		}()
		var lis *filedef.Listener
		for pi, ph := range phases {
			var opts []filedef.Option
			if ph.buf >= 0 {
				opts = append(opts, filedef.WithChannelBuffer(uint(ph.buf)))
			}
			_, sopts := c14Sets(ph.sets)
			opts = append(opts, sopts...)
			if pi == 0 {
				lis = filedef.NewListener(opts...)
			} else {
				lis.Reset(opts...)
			}
			for _, seq := range ph.seqs {
				for _, m := range seq {
					lis.OnMesg(m)
					progress.Add(1)
					if gosched != nil && gosched.chance(1, 4) {
						runtime.Gosched()
					}
				}
				f := lis.File()
				progress.Add(1)
				var r c14Res
				if name := c14FileName(f); name != "" {
					r.file = f
					r.msgs = f.ToFIT(nil).Messages
				}
				ch <- item{r: r}
			}
		}
		lis.Close()
		ch <- item{end: true}
	}()
	last, lastChange := progress.Load(), time.Now()
	tick := time.NewTicker(timeout / 6)
	defer tick.Stop()
	for {
		select {
		case it := <-ch:
			if it.pan != "" {
				return res, it.pan
			}
			if it.end {
				return res, ""
			}
			res = append(res, it.r)
			lastChange = time.Now()
		case <-tick.C:
			if p := progress.Load(); p != last {
				last, lastChange = p, time.Now()
			} else if time.Since(lastChange) > timeout {
				return append(res, c14Res{deadlock: true}), ""
			}
		}
	}
}

func c14Sequence(r *rng, n int) []proto.Message {
	t := c14Types[r.intn(len(c14Types))]
	ms := c14List(r, t, n, r.chance(9, 10))
	switch x := r.intn(10); {
	case x == 0: // a file type the listener does not know
		for i := range ms {
			if ms[i].Num == mesgnum.FileId {
				ms[i].FieldByNum(fieldnum.FileIdType).Value = proto.Uint8(uint8(200 + r.intn(50)))
			}
		}
	case x == 1 && len(ms) > 2: // file_id late: earlier messages are skipped
		for i := range ms {
			if ms[i].Num == mesgnum.FileId {
				j := len(ms) / 2
				ms[i], ms[j] = ms[j], ms[i]
				break
			}
		}
	}
	return ms
}

func c14CoqPhases(phases []c14Phase) string {
	items := make([]string, len(phases))
	for i, ph := range phases {
		seqs := make([]string, len(ph.seqs))
		for j, s := range ph.seqs {
			seqs[j] = c14CoqMsgs(s)
		}
		b := fmt.Sprintf("%d%%nat", ph.buf)
		if ph.buf < 0 {
			b = "@DEFAULT@"
		}
		items[i] = fmt.Sprintf("(%s, %s)", b, coqList(seqs))
	}
	return coqList(items)
}

func c14CoqRes(res []c14Res) string {
	items := make([]string, len(res))
	for i, r := range res {
		switch {
		case r.deadlock:
			items[i] = "LDeadlock"
		case r.file == nil:
			items[i] = "LNoFile"
		default:
			items[i] = fmt.Sprintf("LFile @%s@ %s", c14FileName(r.file), c14CoqObs(r.msgs))
		}
	}
	return coqList(items)
}

func c14Listener(c *common, onlyCase int) {
	r := newRng(c.seed ^ 0xC14)
	bufs := []int{0, 1, 2, 3, 4, 5, 6, 7, 8, 100, 128, 256, -1}
	rounds := 2
	timeout := 1500 * time.Millisecond
	if c.tier == "thorough" {
		rounds, timeout = 12, 4*time.Second
	}
	if c.n > 0 {
		rounds = c.n
	}
	idx := 0
	knownSeen := false
	unexplained := 0
	for round := 0; round < rounds; round++ {
		for _, b := range bufs {
			if unexplained >= 4 { // every further workload would wait for the watchdog as well
				stat("listener_cases_skipped_after_deadlocks", 1)
				continue
			}
			cr := r.fork()
			idx++
			if onlyCase >= 0 && onlyCase != idx-1 {
				continue
			}
			var phases []c14Phase
			nph := 1 + cr.intn(3)
			for p := 0; p < nph; p++ {
				ph := c14Phase{buf: b}
				if p > 0 {
					ph.buf = bufs[cr.intn(len(bufs))]
					if round%2 == 0 && ph.buf == 0 {
						ph.buf = 1 + cr.intn(5)
					}
				}
				for s := cr.intn(4); s >= 0; s-- {
					ph.seqs = append(ph.seqs, c14Sequence(cr, cr.pick(0, 1, 3, 10, 30, 120, 300)))
				}
				phases = append(phases, ph)
			}
			custom := false
			if round%2 == 1 { // the listener's other options: which file types it listens to (direct oracle only; the protocol model knows the default sets)
				for p := range phases {
					phases[p].sets = cr.pick(0, 1, 2, 3, 4)
					custom = custom || phases[p].sets != 0
				}
				stat("listener_cases_with_file_set_options", 1)
			}
			res, pan := c14RunListener(phases, timeout, cr.fork())
			stat("listener_cases", 1)
			args := []string{"c14", "--mode", "listener", "--seed", fmt.Sprint(c.seed), "--tier", c.tier, "--case", fmt.Sprint(idx - 1)}
			if pan != "" {
				emitJSON("FAIL", "", map[string]any{"what": "listener panicked", "panic": pan, "phases": c14PhaseSummary(phases), "harness_args": args})
				continue
			}
			if !custom {
				emit("CASE", fmt.Sprintf("L\t%s\t%s", c14CoqPhases(phases), c14CoqRes(res)))
			}
			if idx == 3 {
				emit("SAMPLE", fmt.Sprintf("listener phases %v -> %d results", c14PhaseSummary(phases), len(res)))
			}
			// direct oracle: every delivered file equals sequential building; a deadlock is a failure
			k := 0
			for pi, ph := range phases {
				for si, seq := range ph.seqs {
					if k >= len(res) {
						break
					}
					got := res[k]
					k++
					stat("listener_sequences", 1)
					if got.deadlock {
						info := map[string]any{"what": fmt.Sprintf("deadlock (no progress for %v) in phase %d (channel buffer %d), sequence %d of %d messages", timeout, pi, ph.buf, si, len(seq)),
							"phases": c14PhaseSummary(phases), "harness_args": args}
						if ph.buf == 0 {
							stat("known_listener_buffer_zero", 1)
							if !knownSeen {
								knownSeen = true
								emitJSON("KNOWN", "listener_buffer_zero", info)
							}
						} else {
							emitJSON("FAIL", "", info)
							unexplained++
						}
						continue
					}
					sets, _ := c14Sets(ph.sets)
					want := c14SeqBuild(seq, sets)
					wn, gn := c14FileName(want), c14FileName(got.file)
					bad := ""
					if wn != gn {
						bad = fmt.Sprintf("file type %q, sequential building gives %q", gn, wn)
					} else if wn != "" {
						wm := want.ToFIT(nil).Messages
						if len(wm) != len(got.msgs) {
							bad = fmt.Sprintf("%d messages, sequential building gives %d", len(got.msgs), len(wm))
						} else {
							for i := range wm {
								if !c14MesgEqual(&wm[i], &got.msgs[i]) {
									bad = fmt.Sprintf("message %d differs from sequential building (tags %d vs %d)", i, c14Id(&got.msgs[i]), c14Id(&wm[i]))
									break
								}
							}
						}
					}
					if bad != "" {
						emitJSON("FAIL", "", map[string]any{"what": "listener.File() differs from adding the same messages sequentially: " + bad,
							"phase": pi, "sequence": si, "channel_buffer": ph.buf, "phases": c14PhaseSummary(phases), "sequence_input": c14Describe(seq), "got": c14CoqObs(got.msgs), "harness_args": args})
					}
				}
			}
		}
	}
}

func c14PhaseSummary(phases []c14Phase) []string {
	s := make([]string, len(phases))
	for i, ph := range phases {
		lens := make([]string, len(ph.seqs))
		for j, q := range ph.seqs {
			lens[j] = fmt.Sprint(len(q))
		}
		s[i] = fmt.Sprintf("buffer %d: sequences of %s messages", ph.buf, strings.Join(lens, ","))
	}
	return s
}

func c14Main(args []string) {
	c, fs := commonFlags("c14", args)
	mode := fs.String("mode", "all", "files|listener|all")
	only := fs.String("only", "", "file type")
	onlyCase := fs.Int("case", -1, "case index")
	modes := fs.String("modes", "", "Name=All|Unrelated|None,... (sort mode of every file type, from the translated specification)")
	fs.Parse(args)
	c14ModesArg = *modes
	for _, kv := range strings.Split(*modes, ",") {
		if k, v, ok := strings.Cut(kv, "="); ok {
			c14Modes[k] = v
		}
	}
	c14Init()
	stat("file_types", len(c14Types))
	stat("typed_message_kinds", len(c14Pool))
	if *mode == "files" || *mode == "all" {
		c14Files(c, *only, *onlyCase)
	}
	if *mode == "listener" || *mode == "all" {
		c14Listener(c, *onlyCase)
	}
	_ = json.Marshal
}
