package main

// C20 -- cmd/fitactivity: concealer, remover, reducer, combiner.
// Synthetic activities (sessions x laps x records, pauses, missing positions / distances, equal and zero distances,
// zones longer than the activity), removal sets, reduce methods and intervals, 1..5 inputs to combine.  Every case runs
// the real package, prints a CASE line for coq/Run/RunC20.v (input and output projected to the model's message type:
// every field with number, base type, accumulate flag and value; values of kinds the tools do not compute with and
// developer fields as digests) and checks the property statement directly in Go on snapshots that also carry a digest
// of everything the model leaves out (header, field base attributes, expanded flag).

import (
	"fmt"
	"hash/fnv"
	"math"
	"sort"
	"strings"

	"github.com/muktihari/carto/rdp"
	"github.com/muktihari/fit/cmd/fitactivity/combiner"
	"github.com/muktihari/fit/cmd/fitactivity/concealer"
	"github.com/muktihari/fit/cmd/fitactivity/reducer"
	"github.com/muktihari/fit/cmd/fitactivity/remover"
	"github.com/muktihari/fit/kit/semicircles"
	"github.com/muktihari/fit/profile/basetype"
	"github.com/muktihari/fit/profile/factory"
	"github.com/muktihari/fit/profile/typedef"
	"github.com/muktihari/fit/profile/untyped/fieldnum"
	"github.com/muktihari/fit/profile/untyped/mesgnum"
	"github.com/muktihari/fit/proto"
)

func init() { cmds["c20"] = c20 }

const (
	u32inv = uint32(basetype.Uint32Invalid)
	s32inv = int32(basetype.Sint32Invalid)
)

// ------------------------------------------------------------------ snapshots (projection + digest)

type pf struct {
	num, base byte
	acc       bool
	kind      byte // 0 U8, 1 U16, 2 U32, 3 S32, 4 U8s, 5 U32s, 6 other
	n         uint64
	z         int64
	l         []uint64
	attrs     string // everything of the field that is not its value (field base content, expanded flag)
	val       string // value digest text
}
type pm struct {
	num    uint16
	fields []pf
	dev    []uint64
	hdr    byte
}

func h64(s string) uint64 {
	h := fnv.New64a()
	h.Write([]byte(s))
	return h.Sum64() >> 4 // 60 bits: short Coq numerals
}

func snapField(f proto.Field) pf {
	p := pf{}
	if f.FieldBase != nil {
		p.num, p.base, p.acc = f.Num, byte(f.BaseType), f.Accumulate
		p.attrs = fmt.Sprintf("%s|%d|%d|%d|%t|%t|%x|%x|%s|%d|%d|%t", f.Name, f.Num, f.Type, f.BaseType, f.Array, f.Accumulate,
			math.Float64bits(f.Scale), math.Float64bits(f.Offset), f.Units, len(f.Components), len(f.SubFields), f.IsExpandedField)
	} else {
		p.attrs = "nil-base"
	}
	v := f.Value
	switch v.Type() {
	case proto.TypeUint8:
		p.kind, p.n = 0, uint64(v.Uint8())
	case proto.TypeUint16:
		p.kind, p.n = 1, uint64(v.Uint16())
	case proto.TypeUint32:
		p.kind, p.n = 2, uint64(v.Uint32())
	case proto.TypeInt32:
		p.kind, p.z = 3, int64(v.Int32())
	case proto.TypeSliceUint8:
		p.kind = 4
		for _, x := range v.SliceUint8() {
			p.l = append(p.l, uint64(x))
		}
	case proto.TypeSliceUint32:
		p.kind = 5
		for _, x := range v.SliceUint32() {
			p.l = append(p.l, uint64(x))
		}
	default:
		p.kind = 6
		p.n = h64(fmt.Sprintf("%d|%v", v.Type(), v.Any()))
	}
	p.val = fmt.Sprintf("%d|%d|%d|%v", p.kind, p.n, p.z, p.l)
	return p
}

func snap(m proto.Message) pm {
	p := pm{num: uint16(m.Num), hdr: m.Header}
	for _, f := range m.Fields {
		p.fields = append(p.fields, snapField(f))
	}
	for _, d := range m.DeveloperFields {
		p.dev = append(p.dev, h64(fmt.Sprintf("%d|%d|%d|%v", d.DeveloperDataIndex, d.Num, d.Value.Type(), d.Value.Any())))
	}
	return p
}
func snapAll(ms []proto.Message) []pm {
	out := make([]pm, len(ms))
	for i := range ms {
		out[i] = snap(ms[i])
	}
	return out
}

func (p pf) coq() string {
	var v string
	switch p.kind {
	case 0:
		v = fmt.Sprintf("U8 %d", p.n)
	case 1:
		v = fmt.Sprintf("U16 %d", p.n)
	case 2:
		v = fmt.Sprintf("U32 %d", p.n)
	case 3:
		v = "S32 " + coqZ(p.z)
	case 4, 5:
		items := make([]string, len(p.l))
		for i, x := range p.l {
			items[i] = fmt.Sprint(x)
		}
		v = map[byte]string{4: "U8s ", 5: "U32s "}[p.kind] + "[" + strings.Join(items, ";") + "]"
	default:
		v = fmt.Sprintf("Oth %d", p.n)
	}
	return fmt.Sprintf("F %d %d %s (%s)", p.num, p.base, coqBool(p.acc), v)
}
func (m pm) coq() string {
	fs := make([]string, len(m.fields))
	for i, f := range m.fields {
		fs[i] = f.coq()
	}
	ds := make([]string, len(m.dev))
	for i, d := range m.dev {
		ds[i] = fmt.Sprint(d)
	}
	return fmt.Sprintf("M %d [%s] [%s]", m.num, strings.Join(fs, ";"), strings.Join(ds, ";"))
}
func coqMesgs(ms []pm) string {
	items := make([]string, len(ms))
	for i := range ms {
		items[i] = ms[i].coq()
	}
	return "[" + strings.Join(items, "; ") + "]"
}

func (p pf) same(q pf) bool { return p.attrs == q.attrs && p.val == q.val }
func sameFields(a, b []pf) bool {
	if len(a) != len(b) {
		return false
	}
	for i := range a {
		if !a[i].same(b[i]) {
			return false
		}
	}
	return true
}
func sameDev(a, b []uint64) bool {
	if len(a) != len(b) {
		return false
	}
	for i := range a {
		if a[i] != b[i] {
			return false
		}
	}
	return true
}
func (m pm) same(o pm) bool {
	return m.num == o.num && m.hdr == o.hdr && sameFields(m.fields, o.fields) && sameDev(m.dev, o.dev)
}
func (m pm) field(num byte) *pf {
	for i := range m.fields {
		if m.fields[i].num == num {
			return &m.fields[i]
		}
	}
	return nil
}
func (m pm) u32(num byte) uint32 {
	if f := m.field(num); f != nil && f.kind == 2 {
		return uint32(f.n)
	}
	return u32inv
}
func (m pm) s32(num byte) int32 {
	if f := m.field(num); f != nil && f.kind == 3 {
		return int32(f.z)
	}
	return s32inv
}
func (m pm) without(nums ...byte) []pf {
	var out []pf
loop:
	for _, f := range m.fields {
		for _, n := range nums {
			if f.num == n {
				continue loop
			}
		}
		out = append(out, f)
	}
	return out
}
func (m pm) human() string {
	var sb strings.Builder
	fmt.Fprintf(&sb, "%d{", m.num)
	for i, f := range m.fields {
		if i > 0 {
			sb.WriteByte(' ')
		}
		switch f.kind {
		case 3:
			fmt.Fprintf(&sb, "%d:%d", f.num, f.z)
		case 4, 5:
			fmt.Fprintf(&sb, "%d:%v", f.num, f.l)
		case 6:
			fmt.Fprintf(&sb, "%d:#", f.num)
		default:
			fmt.Fprintf(&sb, "%d:%d", f.num, f.n)
		}
	}
	if len(m.dev) > 0 {
		fmt.Fprintf(&sb, " dev%d", len(m.dev))
	}
	sb.WriteByte('}')
	return sb.String()
}
func humanAll(ms []pm) []string {
	out := make([]string, len(ms))
	for i := range ms {
		out[i] = ms[i].human()
	}
	return out
}

// ------------------------------------------------------------------ generator

func fld(mn typedef.MesgNum, num byte, v proto.Value) proto.Field {
	f := factory.CreateField(mn, num)
	f.Value = v
	return f
}
func unknownFld(num byte, bt basetype.BaseType, v proto.Value) proto.Field {
	f := factory.CreateField(65000, num) // fresh unknown field base
	f.BaseType = bt
	f.Value = v
	return f
}

type actOpts struct {
	t0                                uint32
	timeCreated                       uint32 // u32inv: field absent
	nSessions, maxLaps, maxRecs       int
	missPos, missDist                 int // out of 100
	invalidValueInsteadOfMissing      bool
	zeroDist, equalDist, decreasing   bool
	restartDist                       bool // distance restarts from 0 at every session after the first (multisport legs)
	bigDrops                          bool // decreasing: drops of up to the whole distance, not only a few metres
	pauses                            bool
	tinyTimerTime                     bool // total_timer_time written as a small raw number (as the pinned tests do)
	lapMissing                        int  // out of 100: lap without start_time / total_timer_time / positions
	extras                            bool // device_info, events, unknown messages, hr
	devdata                           bool
	sportMesg, splitSummary, activity bool
	noSession                         bool
	accFields                         bool // cycles, total_cycles, accumulated_power on records
	startDist                         uint32
	sport0                            byte
	multiSport                        bool
	noFileId                          bool
}

type lapInfo struct{ start, end uint32 }

func genActivity(r *rng, o actOpts) []proto.Message {
	var ms []proto.Message
	if !o.noFileId {
		fid := proto.Message{Num: mesgnum.FileId}
		fid.Fields = append(fid.Fields, fld(mesgnum.FileId, fieldnum.FileIdType, proto.Uint8(4)))
		fid.Fields = append(fid.Fields, fld(mesgnum.FileId, fieldnum.FileIdManufacturer, proto.Uint16(uint16(1+r.intn(300)))))
		if o.timeCreated != u32inv {
			fid.Fields = append(fid.Fields, fld(mesgnum.FileId, fieldnum.FileIdTimeCreated, proto.Uint32(o.timeCreated)))
		}
		if r.chance(1, 2) {
			fid.Fields = append(fid.Fields, fld(mesgnum.FileId, fieldnum.FileIdProductName, proto.String(fmt.Sprintf("dev%d", r.intn(100)))))
		}
		ms = append(ms, fid)
		if r.chance(1, 2) {
			ms = append(ms, proto.Message{Num: mesgnum.FileCreator, Fields: []proto.Field{fld(mesgnum.FileCreator, 0, proto.Uint16(uint16(r.intn(1000))))}})
		}
	}
	if o.devdata {
		ms = append(ms, proto.Message{Num: mesgnum.DeveloperDataId, Fields: []proto.Field{fld(mesgnum.DeveloperDataId, 3, proto.Uint8(0))}})
		ms = append(ms, proto.Message{Num: mesgnum.FieldDescription, Fields: []proto.Field{
			fld(mesgnum.FieldDescription, 0, proto.Uint8(0)), fld(mesgnum.FieldDescription, 1, proto.Uint8(0)), fld(mesgnum.FieldDescription, 2, proto.Uint8(2)),
			fld(mesgnum.FieldDescription, 3, proto.SliceString([]string{"dev"}))}})
	}
	if o.extras && r.chance(1, 2) {
		ms = append(ms, proto.Message{Num: mesgnum.DeviceInfo, Fields: []proto.Field{
			fld(mesgnum.DeviceInfo, 253, proto.Uint32(o.t0)), fld(mesgnum.DeviceInfo, 2, proto.Uint16(1))}})
	}
	if o.sportMesg {
		ms = append(ms, proto.Message{Num: mesgnum.Sport, Fields: []proto.Field{
			fld(mesgnum.Sport, 0, proto.Uint8(o.sport0)), fld(mesgnum.Sport, 1, proto.Uint8(0))}})
	}
	t := o.t0
	dist := o.startDist
	var cyc uint32
	var pow uint32
	lat, long := int32(-80000000+r.intn(1000000)), int32(1200000000+r.intn(1000000))
	for s := 0; s < o.nSessions; s++ {
		sesStart := t
		if o.restartDist && s > 0 {
			dist = 0
		}
		sesStartDist := dist
		var sesFirst, sesLast *proto.Message
		var sesPause uint32
		nl := 1 + r.intn(o.maxLaps)
		var hrMax, hrMin, hrSum, hrN uint32 = 0, 255, 0, 0
		for l := 0; l < nl; l++ {
			lapStart := t
			var lapPause uint32
			var first, last *proto.Message
			nr := r.intn(o.maxRecs + 1)
			if l == 0 && s == 0 && nr == 0 && r.chance(3, 4) {
				nr = 1
			}
			recs := make([]proto.Message, 0, nr)
			for k := 0; k < nr; k++ {
				rec := proto.Message{Num: mesgnum.Record}
				rec.Fields = append(rec.Fields, fld(mesgnum.Record, fieldnum.RecordTimestamp, proto.Uint32(t)))
				if !r.chance(o.missPos, 100) {
					rec.Fields = append(rec.Fields, fld(mesgnum.Record, fieldnum.RecordPositionLat, proto.Int32(lat)))
					rec.Fields = append(rec.Fields, fld(mesgnum.Record, fieldnum.RecordPositionLong, proto.Int32(long)))
				} else if o.invalidValueInsteadOfMissing {
					if r.chance(1, 2) {
						rec.Fields = append(rec.Fields, fld(mesgnum.Record, fieldnum.RecordPositionLat, proto.Int32(s32inv)))
						rec.Fields = append(rec.Fields, fld(mesgnum.Record, fieldnum.RecordPositionLong, proto.Int32(long)))
					} else {
						rec.Fields = append(rec.Fields, fld(mesgnum.Record, fieldnum.RecordPositionLat, proto.Int32(lat)))
					}
				}
				if !r.chance(o.missDist, 100) {
					rec.Fields = append(rec.Fields, fld(mesgnum.Record, fieldnum.RecordDistance, proto.Uint32(dist)))
				} else if o.invalidValueInsteadOfMissing {
					rec.Fields = append(rec.Fields, fld(mesgnum.Record, fieldnum.RecordDistance, proto.Uint32(u32inv)))
				}
				hr := uint32(90 + r.intn(90))
				rec.Fields = append(rec.Fields, fld(mesgnum.Record, fieldnum.RecordHeartRate, proto.Uint8(uint8(hr))))
				hrSum, hrN = hrSum+hr, hrN+1
				if hr > hrMax {
					hrMax = hr
				}
				if hr < hrMin {
					hrMin = hr
				}
				if r.chance(1, 2) {
					rec.Fields = append(rec.Fields, fld(mesgnum.Record, fieldnum.RecordSpeed, proto.Uint16(uint16(2000+r.intn(3000)))))
				}
				if o.accFields {
					cyc += uint32(r.intn(3))
					pow += uint32(100 + r.intn(200))
					if r.chance(2, 3) {
						rec.Fields = append(rec.Fields, fld(mesgnum.Record, fieldnum.RecordCycles, proto.Uint8(uint8(cyc))))
					}
					if r.chance(2, 3) {
						rec.Fields = append(rec.Fields, fld(mesgnum.Record, fieldnum.RecordTotalCycles, proto.Uint32(cyc)))
					}
					if r.chance(1, 2) {
						rec.Fields = append(rec.Fields, fld(mesgnum.Record, fieldnum.RecordAccumulatedPower, proto.Uint32(pow)))
					}
					if r.chance(1, 3) {
						rec.Fields = append(rec.Fields, fld(mesgnum.Record, fieldnum.RecordCompressedAccumulatedPower, proto.Uint16(uint16(pow))))
					}
				}
				if r.chance(1, 6) {
					rec.Fields = append(rec.Fields, unknownFld(byte(200+r.intn(20)), basetype.Float32, proto.Float32(float32(r.intn(1000))/7)))
				}
				if o.devdata && r.chance(1, 2) {
					rec.DeveloperFields = append(rec.DeveloperFields, proto.DeveloperField{Num: 0, DeveloperDataIndex: 0, Value: proto.Uint8(uint8(r.intn(200)))})
				}
				recs = append(recs, rec)
				// advance
				step := uint32(1 + r.intn(4))
				if o.pauses && r.chance(1, 12) {
					p := uint32(20 + r.intn(600))
					lapPause += p
					step += p
				}
				t += step
				switch {
				case o.zeroDist:
				case o.equalDist && r.chance(1, 2):
				case o.decreasing && r.chance(1, 10):
					if o.bigDrops && dist > 0 {
						dist -= uint32(r.intn(int(dist) + 1))
					} else if dist > 500 {
						dist -= uint32(r.intn(500))
					}
				default:
					dist += uint32(r.pick(100, 250, 500, 1000, 1+r.intn(1500), 10000))
				}
				lat += int32(r.intn(2000) - 600)
				long += int32(r.intn(2000) - 600)
			}
			for k := range recs {
				ms = append(ms, recs[k])
				if o.extras && r.chance(1, 15) {
					ms = append(ms, proto.Message{Num: mesgnum.Event, Fields: []proto.Field{
						fld(mesgnum.Event, 253, proto.Uint32(recs[k].FieldValueByNum(253).Uint32())), fld(mesgnum.Event, 0, proto.Uint8(0)), fld(mesgnum.Event, 1, proto.Uint8(uint8(r.intn(4))))}})
				}
				if o.extras && r.chance(1, 25) {
					ms = append(ms, proto.Message{Num: typedef.MesgNum(r.pick(0xFF00, 0xFFFE, 65000, 9999, 0xFF01)), Fields: []proto.Field{
						unknownFld(0, basetype.Uint32, proto.Uint32(uint32(r.intn(1000)))), unknownFld(253, basetype.Uint32, proto.Uint32(recs[k].FieldValueByNum(253).Uint32()))}})
				}
				if o.extras && o.accFields && r.chance(1, 20) {
					n := 1 + r.intn(3)
					ev := make([]uint32, n)
					for x := range ev {
						ev[x] = uint32(r.intn(100000))
					}
					ms = append(ms, proto.Message{Num: mesgnum.Hr, Fields: []proto.Field{
						fld(mesgnum.Hr, 253, proto.Uint32(recs[k].FieldValueByNum(253).Uint32())), fld(mesgnum.Hr, fieldnum.HrEventTimestamp, proto.SliceUint32(ev))}})
				}
			}
			if len(recs) > 0 {
				first, last = &recs[0], &recs[len(recs)-1]
				if sesFirst == nil {
					sesFirst = first
				}
				sesLast = last
			}
			sesPause += lapPause
			// lap message (written at the end of the lap)
			lap := proto.Message{Num: mesgnum.Lap}
			lap.Fields = append(lap.Fields, fld(mesgnum.Lap, fieldnum.LapTimestamp, proto.Uint32(t)))
			miss := func() bool { return r.chance(o.lapMissing, 100) }
			if !miss() {
				lap.Fields = append(lap.Fields, fld(mesgnum.Lap, fieldnum.LapStartTime, proto.Uint32(lapStart)))
			}
			addPos := func(m *proto.Message, mn typedef.MesgNum, latNum, longNum byte, src *proto.Message) {
				if src == nil || miss() {
					return
				}
				la, lo := src.FieldValueByNum(fieldnum.RecordPositionLat).Int32(), src.FieldValueByNum(fieldnum.RecordPositionLong).Int32()
				if la != s32inv && !miss() {
					m.Fields = append(m.Fields, fld(mn, latNum, proto.Int32(la)))
				}
				if lo != s32inv {
					m.Fields = append(m.Fields, fld(mn, longNum, proto.Int32(lo)))
				}
			}
			addPos(&lap, mesgnum.Lap, fieldnum.LapStartPositionLat, fieldnum.LapStartPositionLong, first)
			addPos(&lap, mesgnum.Lap, fieldnum.LapEndPositionLat, fieldnum.LapEndPositionLong, last)
			el := (t - lapStart) * 1000
			lap.Fields = append(lap.Fields, fld(mesgnum.Lap, fieldnum.LapTotalElapsedTime, proto.Uint32(el)))
			if !miss() {
				tt := el - lapPause*1000
				if o.tinyTimerTime {
					tt = (t - lapStart) - lapPause
				}
				lap.Fields = append(lap.Fields, fld(mesgnum.Lap, fieldnum.LapTotalTimerTime, proto.Uint32(tt)))
			}
			lap.Fields = append(lap.Fields, fld(mesgnum.Lap, fieldnum.LapTotalDistance, proto.Uint32(dist-sesStartDist)))
			ms = append(ms, lap)
		}
		if o.noSession {
			continue
		}
		ses := proto.Message{Num: mesgnum.Session}
		ses.Fields = append(ses.Fields, fld(mesgnum.Session, fieldnum.SessionTimestamp, proto.Uint32(t)))
		if !r.chance(o.lapMissing, 200) || o.sportMesg || o.activity { // combine cases keep the start time (see Model/Activity.v add_gap)
			ses.Fields = append(ses.Fields, fld(mesgnum.Session, fieldnum.SessionStartTime, proto.Uint32(sesStart)))
		}
		addPos := func(latNum, longNum byte, src *proto.Message) {
			if src == nil || r.chance(o.lapMissing, 100) {
				return
			}
			la, lo := src.FieldValueByNum(fieldnum.RecordPositionLat).Int32(), src.FieldValueByNum(fieldnum.RecordPositionLong).Int32()
			if la != s32inv {
				ses.Fields = append(ses.Fields, fld(mesgnum.Session, latNum, proto.Int32(la)))
			}
			if lo != s32inv {
				ses.Fields = append(ses.Fields, fld(mesgnum.Session, longNum, proto.Int32(lo)))
			}
		}
		addPos(fieldnum.SessionStartPositionLat, fieldnum.SessionStartPositionLong, sesFirst)
		sp := o.sport0
		if o.multiSport {
			sp = byte((int(o.sport0) + s) % 5)
		}
		ses.Fields = append(ses.Fields, fld(mesgnum.Session, fieldnum.SessionSport, proto.Uint8(sp)))
		if r.chance(2, 3) {
			ses.Fields = append(ses.Fields, fld(mesgnum.Session, fieldnum.SessionSubSport, proto.Uint8(uint8(r.intn(3)))))
		}
		el := (t - sesStart) * 1000
		ses.Fields = append(ses.Fields, fld(mesgnum.Session, fieldnum.SessionTotalElapsedTime, proto.Uint32(el)))
		if !r.chance(o.lapMissing, 100) {
			tt := el - sesPause*1000
			if o.tinyTimerTime {
				tt = (t - sesStart) - sesPause
			}
			ses.Fields = append(ses.Fields, fld(mesgnum.Session, fieldnum.SessionTotalTimerTime, proto.Uint32(tt)))
		}
		if r.chance(4, 5) {
			ses.Fields = append(ses.Fields, fld(mesgnum.Session, fieldnum.SessionTotalDistance, proto.Uint32(dist-sesStartDist)))
		}
		if o.accFields && r.chance(1, 2) {
			ses.Fields = append(ses.Fields, fld(mesgnum.Session, fieldnum.SessionTotalCycles, proto.Uint32(cyc)))
		}
		if hrN > 0 && r.chance(4, 5) {
			ses.Fields = append(ses.Fields, fld(mesgnum.Session, fieldnum.SessionAvgHeartRate, proto.Uint8(uint8(hrSum/hrN))))
			ses.Fields = append(ses.Fields, fld(mesgnum.Session, fieldnum.SessionMaxHeartRate, proto.Uint8(uint8(hrMax))))
			if r.chance(1, 2) {
				ses.Fields = append(ses.Fields, fld(mesgnum.Session, fieldnum.SessionMinHeartRate, proto.Uint8(uint8(hrMin))))
			}
		}
		ses.Fields = append(ses.Fields, fld(mesgnum.Session, fieldnum.SessionNumLaps, proto.Uint16(uint16(nl))))
		addPos(fieldnum.SessionEndPositionLat, fieldnum.SessionEndPositionLong, sesLast)
		ms = append(ms, ses)
		if o.pauses && r.chance(1, 3) {
			t += uint32(30 + r.intn(300)) // transition
		}
	}
	if o.splitSummary {
		for k := 0; k < 1+r.intn(2); k++ {
			ms = append(ms, proto.Message{Num: mesgnum.SplitSummary, Fields: []proto.Field{
				fld(mesgnum.SplitSummary, fieldnum.SplitSummarySplitType, proto.Uint8(uint8(1+r.intn(3)))),
				fld(mesgnum.SplitSummary, fieldnum.SplitSummaryNumSplits, proto.Uint16(uint16(1+r.intn(4))))}})
		}
	}
	if o.activity {
		ms = append(ms, proto.Message{Num: mesgnum.Activity, Fields: []proto.Field{
			fld(mesgnum.Activity, fieldnum.ActivityTimestamp, proto.Uint32(t)),
			fld(mesgnum.Activity, fieldnum.ActivityNumSessions, proto.Uint16(uint16(o.nSessions))),
			fld(mesgnum.Activity, fieldnum.ActivityType, proto.Uint8(0))}})
	}
	return ms
}

func randOpts(r *rng, big bool) actOpts {
	o := actOpts{t0: 1000000000 + uint32(r.intn(1000000)), nSessions: 1, maxLaps: 1 + r.intn(3), maxRecs: 2 + r.intn(8)}
	if big {
		o.maxRecs = 10 + r.intn(30)
	}
	o.timeCreated = o.t0
	if r.chance(1, 4) {
		o.nSessions = 2 + r.intn(2)
	}
	if r.chance(1, 3) {
		o.missPos = r.pick(5, 20, 60, 100)
	}
	if r.chance(1, 5) {
		o.missDist = r.pick(5, 20, 100)
	}
	o.invalidValueInsteadOfMissing = r.chance(1, 3)
	switch r.intn(12) {
	case 0:
		o.zeroDist = true
	case 1, 2:
		o.equalDist = true
	case 3:
		o.decreasing = true
	}
	o.pauses = r.chance(1, 3)
	o.tinyTimerTime = r.chance(1, 4)
	if r.chance(1, 4) {
		o.lapMissing = r.pick(10, 30, 100)
	}
	o.extras = r.chance(1, 2)
	o.devdata = r.chance(1, 4)
	o.accFields = r.chance(1, 3)
	o.sport0 = byte(r.intn(4))
	return o
}

// ------------------------------------------------------------------ shared oracle helpers

const (
	numRecord  = uint16(mesgnum.Record)
	numLap     = uint16(mesgnum.Lap)
	numSession = uint16(mesgnum.Session)
)

// records carry valid, non-decreasing distances (and the timestamps needed to talk about laps)
func validNondecreasing(ms []pm) bool {
	var last uint32
	for _, m := range ms {
		if m.num != numRecord {
			continue
		}
		d := m.u32(fieldnum.RecordDistance)
		if d == u32inv || d < last {
			return false
		}
		last = d
	}
	return true
}
func noDupFields(ms []pm) bool {
	for _, m := range ms {
		seen := map[byte]bool{}
		for _, f := range m.fields {
			if seen[f.num] {
				return false
			}
			seen[f.num] = true
		}
	}
	return true
}

type c20case struct {
	tool   string
	params map[string]any
	in     [][]string
	out    []string
}

func failC20(kind string, c c20case, extra map[string]any) {
	m := map[string]any{"kind": kind, "tool": c.tool, "params": c.params, "input": c.in, "output": c.out}
	for k, v := range extra {
		m[k] = v
	}
	emitJSON("FAIL", "", m)
	stat("oracle_fail_"+kind, 1)
}
func knownC20(id, kind string, c c20case, extra map[string]any) {
	m := map[string]any{"kind": kind, "tool": c.tool, "params": c.params, "input": c.in, "output": c.out}
	for k, v := range extra {
		m[k] = v
	}
	emitJSON("KNOWN", id, m)
	stat("known_"+id, 1)
}

// ------------------------------------------------------------------ conceal

type phT struct {
	num                                             uint16
	startTime, ttt, elapsed, ts, sla, slo, ela, elo byte
}

var lapPH = phT{numLap, fieldnum.LapStartTime, fieldnum.LapTotalTimerTime, fieldnum.LapTotalElapsedTime, fieldnum.LapTimestamp,
	fieldnum.LapStartPositionLat, fieldnum.LapStartPositionLong, fieldnum.LapEndPositionLat, fieldnum.LapEndPositionLong}
var sesPH = phT{numSession, fieldnum.SessionStartTime, fieldnum.SessionTotalTimerTime, fieldnum.SessionTotalElapsedTime, fieldnum.SessionTimestamp,
	fieldnum.SessionStartPositionLat, fieldnum.SessionStartPositionLong, fieldnum.SessionEndPositionLat, fieldnum.SessionEndPositionLong}

// classifier lap_inside_concealed_zone (Coq: cls_lap_inside_concealed_zone)
func clsLapInsideConcealedZone(in []pm, first uint32) bool {
	if first == 0 {
		return false
	}
	recTs := u32inv
	for _, m := range in {
		if m.num == numRecord && m.u32(fieldnum.RecordDistance) >= first {
			recTs = m.u32(fieldnum.RecordTimestamp)
			break
		}
	}
	for _, m := range in {
		for _, ph := range []phT{lapPH, sesPH} {
			if m.num != ph.num {
				continue
			}
			st, tt := m.u32(ph.startTime), m.u32(ph.ttt)
			if st == u32inv || tt == u32inv {
				continue
			}
			code := st+tt < recTs
			timeBased := uint64(st)+uint64(tt/1000) < uint64(recTs)
			if code != timeBased {
				return true
			}
		}
	}
	return false
}

// classifier conceal_end_zone_covers_activity (Coq: cls_end_zone_covers_activity): the backward scan reveals no record
func clsEndZoneCoversActivity(in []pm, last uint32) bool {
	if last == 0 {
		return false
	}
	lastD := u32inv
	for i := len(in) - 1; i >= 0; i-- {
		if in[i].num != numRecord {
			continue
		}
		d := in[i].u32(fieldnum.RecordDistance)
		if lastD == u32inv {
			lastD = d
		}
		if lastD-d >= last {
			return false
		}
	}
	return true
}

func concealCase(r *rng, idx int) {
	o := randOpts(r, r.chance(1, 6))
	o.noFileId = r.chance(1, 4)
	msgs := genActivity(r, o)
	in := snapAll(msgs)
	// total distance, to place the thresholds around interesting points
	var total uint32
	for _, m := range in {
		if m.num == numRecord {
			if d := m.u32(fieldnum.RecordDistance); d != u32inv && d > total {
				total = d
			}
		}
	}
	pickThr := func() uint32 {
		switch r.intn(9) {
		case 0, 1:
			return 0
		case 2:
			return total + uint32(r.intn(5000)) + 1 // longer than the activity
		case 3:
			return total
		case 4:
			if total > 0 {
				return total/2 + uint32(r.intn(int(total/2)+1)) // overlapping zones likely
			}
			return 100
		case 5:
			// exactly the distance of some record (boundary)
			var ds []uint32
			for _, m := range in {
				if m.num == numRecord {
					if d := m.u32(fieldnum.RecordDistance); d != u32inv {
						ds = append(ds, d)
					}
				}
			}
			if len(ds) > 0 {
				d := ds[r.intn(len(ds))]
				if r.chance(1, 2) {
					return d
				}
				return total - d
			}
			return 1
		default:
			if total > 0 {
				return uint32(r.intn(int(total)/2 + 2))
			}
			return uint32(r.intn(3000))
		}
	}
	first, last := pickThr(), pickThr()
	concealer.Conceal(msgs, first, last)
	out := snapAll(msgs)
	emit("CASE", fmt.Sprintf("CConceal %d %d %s %s", first, last, coqMesgs(in), coqMesgs(out)))
	cs := c20case{tool: "conceal", params: map[string]any{"first": first, "last": last}, in: [][]string{humanAll(in)}, out: humanAll(out)}
	if idx < 2 {
		emit("SAMPLE", fmt.Sprintf("conceal first=%d last=%d in=%v out=%v", first, last, cs.in[0], cs.out))
	}
	stat("conceal_cases", 1)
	oracleConceal(cs, in, out, first, last)
}

func oracleConceal(cs c20case, in, out []pm, first, last uint32) {
	if len(in) != len(out) {
		failC20("conceal_length", cs, nil)
		return
	}
	// frame: nothing other than position fields changes
	for i := range in {
		a, b := in[i], out[i]
		if a.num != b.num || a.hdr != b.hdr || !sameDev(a.dev, b.dev) {
			failC20("conceal_frame", cs, map[string]any{"index": i})
			return
		}
		var pos []byte
		switch a.num {
		case numRecord:
			pos = []byte{fieldnum.RecordPositionLat, fieldnum.RecordPositionLong}
		case numLap:
			pos = []byte{lapPH.sla, lapPH.slo, lapPH.ela, lapPH.elo}
		case numSession:
			pos = []byte{sesPH.sla, sesPH.slo, sesPH.ela, sesPH.elo}
		}
		if !sameFields(a.without(pos...), b.without(pos...)) {
			failC20("conceal_frame", cs, map[string]any{"index": i})
			return
		}
		for _, p := range pos { // a position field is removed or (lap/session) re-valued, never invented or re-typed
			if fb := b.field(p); fb != nil {
				fa := a.field(p)
				if fa == nil || fa.attrs != fb.attrs || fb.kind != 3 || (a.num == numRecord && fa.val != fb.val) {
					failC20("conceal_frame_position", cs, map[string]any{"index": i, "field": p})
					return
				}
			}
		}
	}
	if !validNondecreasing(in) || !noDupFields(in) {
		stat("conceal_out_of_scope", 1)
		return
	}
	stat("conceal_in_scope", 1)
	// records
	lastD := u32inv
	for i := len(in) - 1; i >= 0; i-- {
		if in[i].num == numRecord {
			lastD = in[i].u32(fieldnum.RecordDistance)
			break
		}
	}
	sIdx, eIdx := -1, -1 // first revealed record of the start zone, last revealed record of the end zone
	nConcealed := 0
	for i, m := range in {
		if m.num != numRecord {
			continue
		}
		d := m.u32(fieldnum.RecordDistance)
		inStart, inEnd := d < first, lastD-d < last
		if !inStart && sIdx == -1 {
			sIdx = i
		}
		if !inEnd {
			eIdx = i
		}
		has := out[i].field(fieldnum.RecordPositionLat) != nil || out[i].field(fieldnum.RecordPositionLong) != nil
		if inStart || inEnd {
			nConcealed++
			if has {
				failC20("record_in_stretch_keeps_position", cs, map[string]any{"index": i, "distance": d})
				return
			}
		} else if !in[i].same(out[i]) {
			failC20("record_outside_stretch_changed", cs, map[string]any{"index": i, "distance": d})
			return
		}
	}
	if nConcealed > 0 {
		stat("conceal_nontrivial", 1)
	}
	// laps and sessions: no start / end position may point into a concealed stretch (time-based reading of the property)
	allConcealed := sIdx == -1 || eIdx == -1 || sIdx > eIdx
	var sTs, eTs uint32
	if !allConcealed {
		sTs, eTs = in[sIdx].u32(fieldnum.RecordTimestamp), in[eIdx].u32(fieldnum.RecordTimestamp)
		if sTs == u32inv || eTs == u32inv {
			return
		}
	}
	revealed := func(t uint32) bool { return !allConcealed && (first == 0 || t >= sTs) && (last == 0 || t <= eTs) }
	var leaks []map[string]any
	for i, m := range out {
		for _, ph := range []phT{lapPH, sesPH} {
			if m.num != ph.num {
				continue
			}
			st := m.u32(ph.startTime)
			if st == u32inv {
				continue
			}
			et := m.u32(ph.ts)
			if et == u32inv {
				if el := m.u32(ph.elapsed); el != u32inv {
					et = st + el/1000
				} else {
					et = st
				}
			}
			chk := func(latNum, longNum byte, t uint32, repl int, what string) {
				for _, fn := range []byte{latNum, longNum} {
					f := m.field(fn)
					if f == nil {
						continue
					}
					ok := revealed(t)
					if !ok && !allConcealed && repl >= 0 { // replaced by the position of the revealed record next to the stretch
						src := fieldnum.RecordPositionLat
						if fn == longNum {
							src = fieldnum.RecordPositionLong
						}
						if rf := out[repl].field(byte(src)); rf != nil && rf.z == f.z {
							ok = true
						}
					}
					if !ok {
						leaks = append(leaks, map[string]any{"index": i, "mesg": m.num, "field": fn, "what": what, "time": t, "first_revealed": sTs, "last_revealed": eTs, "all_concealed": allConcealed})
					}
				}
			}
			chk(ph.sla, ph.slo, st, sIdx, "start position")
			chk(ph.ela, ph.elo, et, eIdx, "end position")
		}
	}
	if len(leaks) == 0 {
		stat("conceal_laps_ok", 1)
		return
	}
	extra := map[string]any{"leaks": leaks[:1], "n_leaks": len(leaks)}
	switch {
	case clsLapInsideConcealedZone(in, first):
		knownC20("lap_inside_concealed_zone", "lap_position_points_into_concealed_stretch", cs, extra)
	case clsEndZoneCoversActivity(in, last):
		knownC20("conceal_end_zone_covers_activity", "lap_position_points_into_concealed_stretch", cs, extra)
	default:
		failC20("lap_position_points_into_concealed_stretch", cs, extra)
	}
}

// ------------------------------------------------------------------ remove

func removeCase(r *rng, idx int) {
	o := randOpts(r, false)
	o.extras, o.devdata = r.chance(3, 4), r.chance(1, 2)
	o.sportMesg, o.activity = r.chance(1, 2), r.chance(1, 2)
	msgs := genActivity(r, o)
	in := snapAll(msgs)
	unknown, dev := r.chance(1, 2), r.chance(1, 2)
	var nums []uint16
	present := map[uint16]bool{}
	for _, m := range in {
		present[m.num] = true
	}
	var pres []int
	for n := range present {
		pres = append(pres, int(n))
	}
	sort.Ints(pres)
	if r.chance(2, 3) {
		for k := 0; k < 1+r.intn(3); k++ {
			if r.chance(3, 4) && len(pres) > 0 {
				nums = append(nums, uint16(pres[r.intn(len(pres))]))
			} else {
				nums = append(nums, uint16(r.pick(20, 19, 21, 7, 0xFF00, 65000, 206)))
			}
		}
	}
	var opts []remover.Option
	if unknown {
		opts = append(opts, remover.WithRemoveUnknown())
	}
	set := map[typedef.MesgNum]struct{}{}
	for _, n := range nums {
		set[typedef.MesgNum(n)] = struct{}{}
	}
	if len(nums) > 0 || r.chance(1, 2) {
		opts = append(opts, remover.WithRemoveMesgNums(set))
	}
	if dev {
		opts = append(opts, remover.WithRemoveDeveloperData())
	}
	for i := len(opts) - 1; i > 0; i-- { // option order must not matter
		j := r.intn(i + 1)
		opts[i], opts[j] = opts[j], opts[i]
	}
	fit := &proto.FIT{Messages: msgs}
	remover.Remove(fit, opts...)
	out := snapAll(fit.Messages)
	ns := make([]string, len(nums))
	for i, n := range nums {
		ns[i] = fmt.Sprint(n)
	}
	emit("CASE", fmt.Sprintf("CRemove %s [%s] %s %s %s", coqBool(unknown), strings.Join(ns, ";"), coqBool(dev), coqMesgs(in), coqMesgs(out)))
	cs := c20case{tool: "remove", params: map[string]any{"unknown": unknown, "nums": nums, "devdata": dev}, in: [][]string{humanAll(in)}, out: humanAll(out)}
	if idx < 1 {
		emit("SAMPLE", fmt.Sprintf("remove unknown=%t nums=%v dev=%t in=%v out=%v", unknown, nums, dev, cs.in[0], cs.out))
	}
	stat("remove_cases", 1)
	// oracle: exactly the selected messages go, the others stay in order and content (developer fields cleared on request)
	known := map[uint16]bool{}
	for _, n := range typedef.ListMesgNum() {
		if n != typedef.MesgNumMfgRangeMin && n != typedef.MesgNumMfgRangeMax {
			known[uint16(n)] = true
		}
	}
	var want []pm
	for _, m := range in {
		if unknown && !known[m.num] {
			continue
		}
		if _, ok := set[typedef.MesgNum(m.num)]; ok {
			continue
		}
		if dev && (m.num == uint16(mesgnum.DeveloperDataId) || m.num == uint16(mesgnum.FieldDescription)) {
			continue
		}
		if dev {
			m.dev = nil
		}
		want = append(want, m)
	}
	if len(want) != len(in) {
		stat("remove_nontrivial", 1)
	}
	if len(want) != len(out) {
		failC20("remove_selection", cs, map[string]any{"want_len": len(want), "got_len": len(out)})
		return
	}
	for i := range want {
		if !want[i].same(out[i]) {
			failC20("remove_order_or_content", cs, map[string]any{"index": i, "want": want[i].human(), "got": out[i].human()})
			return
		}
	}
}

// ------------------------------------------------------------------ reduce

func reduceCase(r *rng, idx int) {
	o := randOpts(r, r.chance(1, 5))
	if r.chance(2, 3) {
		o.missDist, o.decreasing = 0, false // mostly activities as devices write them
	} else if r.chance(1, 2) {
		o.decreasing, o.bigDrops = true, r.chance(1, 2) // reduce is stated for all message lists: distances may go back
	}
	if r.chance(1, 4) { // multisport: each leg counts its distance from 0
		o.restartDist = true
		o.nSessions = 2 + r.intn(2)
		stat("reduce_distance_restarts", 1)
	}
	msgs := genActivity(r, o)
	if r.chance(1, 4) { // the message list ends in records (after lap / session / activity): one without position or distance, one ordinary
		var lastTs uint32 = o.t0 + 100000
		for k := 0; k < 1+r.intn(2); k++ {
			m := proto.Message{Num: mesgnum.Record}
			m.Fields = append(m.Fields, fld(mesgnum.Record, fieldnum.RecordTimestamp, proto.Uint32(lastTs+uint32(k))))
			if r.chance(1, 3) {
				m.Fields = append(m.Fields, fld(mesgnum.Record, fieldnum.RecordDistance, proto.Uint32(uint32(1000000+r.intn(1000)))))
			}
			m.Fields = append(m.Fields, fld(mesgnum.Record, fieldnum.RecordHeartRate, proto.Uint8(uint8(60+r.intn(100)))))
			msgs = append(msgs, m)
		}
		stat("reduce_lists_ending_in_records", 1)
	}
	in := snapAll(msgs)
	fit := &proto.FIT{Messages: msgs}
	method := r.intn(3)
	switch method {
	case 0, 1:
		key := byte(fieldnum.RecordDistance)
		var raw uint32
		var err error
		var q, secs uint32
		if method == 0 {
			q = uint32(r.pick(0, 1, 4, 8, 20, 40, 100, 1+r.intn(60), 4000))
			raw = 25 * q
			err = reducer.Reduce(fit, reducer.WithDistanceInterval(float64(q)/4))
		} else {
			key = fieldnum.RecordTimestamp
			secs = uint32(r.pick(0, 1, 2, 3, 5, 10, 30, 1+r.intn(20), 100000))
			raw = secs
			err = reducer.Reduce(fit, reducer.WithTimeInterval(secs))
		}
		out := snapAll(fit.Messages)
		if method == 0 {
			emit("CASE", fmt.Sprintf("CReduceDist %d %s %s %s", q, coqBool(err == nil), coqMesgs(in), coqMesgs(out)))
		} else {
			emit("CASE", fmt.Sprintf("CReduceTime %d %s %s %s", secs, coqBool(err == nil), coqMesgs(in), coqMesgs(out)))
		}
		cs := c20case{tool: map[int]string{0: "reduce-distance", 1: "reduce-time"}[method], params: map[string]any{"interval_raw": raw}, in: [][]string{humanAll(in)}, out: humanAll(out)}
		if idx < 1 {
			emit("SAMPLE", fmt.Sprintf("%s interval=%d in=%v out=%v", cs.tool, raw, cs.in[0], cs.out))
		}
		stat("reduce_interval_cases", 1)
		if (raw == 0) != (err != nil) {
			failC20("reduce_error", cs, map[string]any{"err": fmt.Sprint(err)})
			return
		}
		if err != nil {
			if !sameAll(in, out) {
				failC20("reduce_error_changed_messages", cs, nil)
			}
			return
		}
		oracleReduceInterval(cs, in, out, key, raw)
	case 2:
		eps := float64(r.pick(0, 1, 5, 20, 100, 1000)) / 10
		// what the simplification keeps, computed as the reducer computes its input (oracle of the model's Section variable)
		var pts []rdp.Point
		for i, m := range msgs {
			if m.Num != mesgnum.Record {
				continue
			}
			x := semicircles.ToDegrees(m.FieldValueByNum(fieldnum.RecordPositionLat).Int32())
			y := semicircles.ToDegrees(m.FieldValueByNum(fieldnum.RecordPositionLong).Int32())
			if math.IsNaN(x) || math.IsNaN(y) {
				continue
			}
			pts = append(pts, rdp.Point{X: x, Y: y, Index: i})
		}
		npts := len(pts)
		var kept []string
		keptSet := map[int]bool{}
		if eps != 0 && npts > 0 {
			for _, p := range rdp.Simplify(pts, eps/1000) {
				kept = append(kept, fmt.Sprintf("%d%%nat", p.Index))
				keptSet[p.Index] = true
			}
		}
		err := reducer.Reduce(fit, reducer.WithRDP(eps))
		out := snapAll(fit.Messages)
		emit("CASE", fmt.Sprintf("CReduceRdp %s [%s] %s %s %s", coqBool(eps == 0), strings.Join(kept, ";"), coqBool(err == nil), coqMesgs(in), coqMesgs(out)))
		cs := c20case{tool: "reduce-rdp", params: map[string]any{"epsilon": eps, "kept": len(kept), "points": npts}, in: [][]string{humanAll(in)}, out: humanAll(out)}
		stat("reduce_rdp_cases", 1)
		if (eps == 0 || npts == 0) != (err != nil) {
			failC20("reduce_error", cs, map[string]any{"err": fmt.Sprint(err)})
			return
		}
		if err != nil {
			if !sameAll(in, out) {
				failC20("reduce_error_changed_messages", cs, nil)
			}
			return
		}
		var want []pm
		for i, m := range in {
			if m.num == numRecord && !keptSet[i] {
				continue
			}
			want = append(want, m)
		}
		if len(want) != len(in) {
			stat("reduce_nontrivial", 1)
		}
		if !sameAll(want, out) {
			failC20("reduce_rdp_selection", cs, map[string]any{"want_len": len(want), "got_len": len(out)})
		}
	}
}

func sameAll(a, b []pm) bool {
	if len(a) != len(b) {
		return false
	}
	for i := range a {
		if !a[i].same(b[i]) {
			return false
		}
	}
	return true
}

// the statement: output = input without the selected records; the first record is always kept; a record is dropped only if
// it lies closer than the interval to the previously kept record; everything else stays in order and content
func oracleReduceInterval(cs c20case, in, out []pm, key byte, interval uint32) {
	// classifier reduce_record_without_key: some record has no (valid) value of the reduced quantity
	cls := false
	for _, m := range in {
		if m.num == numRecord && m.u32(key) == u32inv {
			cls = true
		}
	}
	j := 0
	firstSeen := false
	var prev uint32
	prevValid := false
	var bad map[string]any
	dropped := 0
	for i, m := range in {
		kept := j < len(out) && out[j].same(m)
		if m.num != numRecord {
			if !kept {
				failC20("reduce_non_record_lost_or_changed", cs, map[string]any{"index": i})
				return
			}
			j++
			continue
		}
		v := m.u32(key)
		closer := firstSeen && v != u32inv && prevValid && v >= prev && v-prev < interval
		if !firstSeen {
			if !kept {
				failC20("reduce_first_record_dropped", cs, map[string]any{"index": i})
				return
			}
		} else if kept && closer && bad == nil {
			bad = map[string]any{"index": i, "why": "kept although closer than the interval to the previously kept record", "value": v, "previous_kept": prev}
		} else if !kept && !closer && !(v != u32inv && prevValid && v < prev && prev-v < interval) && bad == nil { // going back by less than the interval is closer, too
			bad = map[string]any{"index": i, "why": "dropped although not closer than the interval to the previously kept record", "value": v, "previous_kept": prev, "previous_valid": prevValid}
		}
		firstSeen = true
		if kept {
			j++
			prev, prevValid = v, v != u32inv
		} else {
			dropped++
		}
	}
	if j != len(out) {
		failC20("reduce_output_not_a_subsequence", cs, map[string]any{"matched": j, "got_len": len(out)})
		return
	}
	if dropped > 0 {
		stat("reduce_nontrivial", 1)
	}
	if bad != nil {
		if cls {
			knownC20("reduce_record_without_key", "reduce_selection", cs, bad)
		} else {
			failC20("reduce_selection", cs, bad)
		}
	}
}

// ------------------------------------------------------------------ combine

func combineCase(r *rng, idx int) {
	n := 1 + r.intn(5)
	var fits []*proto.FIT
	var ins [][]pm
	base := uint32(1000000000 + r.intn(100000))
	equalTimes := r.chance(1, 5)
	sport := byte(r.intn(3))
	var dist uint32
	for k := 0; k < n; k++ {
		o := randOpts(r, false)
		o.nSessions = 1
		if r.chance(1, 5) {
			o.nSessions = 2
		}
		o.lapMissing = 0
		o.t0 = base + uint32(k*5000+r.intn(2000))
		o.timeCreated = o.t0
		if equalTimes {
			o.timeCreated = base
		}
		if r.chance(1, 8) {
			o.timeCreated = u32inv
		}
		o.sport0 = sport
		if r.chance(1, 4) {
			o.sport0 = byte(r.intn(4))
		}
		o.multiSport = r.chance(1, 4)
		o.sportMesg, o.splitSummary, o.activity = r.chance(1, 2), r.chance(1, 3), r.chance(2, 3)
		o.accFields = r.chance(2, 3)
		o.noSession = r.chance(1, 25)
		o.startDist = 0
		if r.chance(1, 4) {
			o.startDist = uint32(r.intn(3000)) // device that does not restart at zero
		}
		_ = dist
		msgs := genActivity(r, o)
		if r.chance(1, 20) {
			msgs = nil // empty input
		}
		fits = append(fits, &proto.FIT{Messages: msgs})
	}
	// inputs in random order
	for i := len(fits) - 1; i > 0; i-- {
		j := r.intn(i + 1)
		fits[i], fits[j] = fits[j], fits[i]
	}
	nonEmpty := 0
	for _, f := range fits {
		ins = append(ins, snapAll(f.Messages))
		if len(f.Messages) > 0 {
			nonEmpty++
		}
	}
	if nonEmpty == 0 {
		return // Combine indexes fits[0]: outside the stated domain (1..5 activities)
	}
	res, err := combiner.Combine(fits)
	var out []pm
	if err == nil {
		out = snapAll(res.Messages)
	}
	items := make([]string, len(ins))
	hin := make([][]string, len(ins))
	for i := range ins {
		items[i] = coqMesgs(ins[i])
		hin[i] = humanAll(ins[i])
	}
	emit("CASE", fmt.Sprintf("CCombine [%s] %s %s", strings.Join(items, "; "), coqBool(err == nil), coqMesgs(out)))
	cs := c20case{tool: "combine", params: map[string]any{"inputs": len(ins)}, in: hin, out: humanAll(out)}
	if idx < 1 {
		emit("SAMPLE", fmt.Sprintf("combine %d inputs: in=%v out=%v", len(ins), hin, cs.out))
	}
	stat("combine_cases", 1)
	stat(fmt.Sprintf("combine_inputs_%d", len(ins)), 1)
	oracleCombine(cs, ins, out, err)
}

func isSummary(n uint16) bool {
	return n == numSession || n == uint16(mesgnum.SplitSummary) || n == uint16(mesgnum.Activity) || n == uint16(mesgnum.Sport)
}

func accValid(f pf) bool {
	if !f.acc {
		return false
	}
	inv := func(z, nz uint64) bool { // base types ending in z are invalid at 0
		switch basetype.BaseType(f.base) {
		case basetype.Uint8z, basetype.Uint16z, basetype.Uint32z:
			return f.n == z
		}
		return f.n == nz
	}
	switch f.kind {
	case 0:
		return !inv(0, 255)
	case 1:
		return !inv(0, 65535)
	case 2:
		return !inv(0, uint64(u32inv))
	case 3:
		return int32(f.z) != s32inv
	case 4, 5:
		for _, x := range f.l {
			if (f.kind == 4 && x != 255) || (f.kind == 5 && x != uint64(u32inv)) {
				return true
			}
		}
	}
	return false
}

type accKey struct {
	mesg  uint16
	field byte
}

func addVal(f pf, off pf) pf { // f + off with the width of f's kind
	g := f
	g.l = append([]uint64(nil), f.l...)
	switch f.kind {
	case 0:
		g.n = (f.n + off.n) & 0xFF
	case 1:
		g.n = (f.n + off.n) & 0xFFFF
	case 2:
		g.n = (f.n + off.n) & 0xFFFFFFFF
	case 3:
		g.z = int64(int32(f.z) + int32(off.z))
	case 4, 5:
		mask := uint64(0xFF)
		if f.kind == 5 {
			mask = 0xFFFFFFFF
		}
		for i := range off.l {
			if i < len(g.l) {
				g.l[i] = (g.l[i] + off.l[i]) & mask
			} else {
				g.l = append(g.l, off.l[i])
			}
		}
	}
	g.val = fmt.Sprintf("%d|%d|%d|%v", g.kind, g.n, g.z, g.l)
	return g
}

func oracleCombine(cs c20case, ins [][]pm, out []pm, err error) {
	var files [][]pm
	for _, f := range ins {
		if len(f) > 0 {
			files = append(files, f)
		}
	}
	sort.SliceStable(files, func(a, b int) bool {
		return files[a][0].u32(fieldnum.FileIdTimeCreated) < files[b][0].u32(fieldnum.FileIdTimeCreated)
	})
	wantErr := false
	for _, f := range files {
		has := false
		for _, m := range f {
			if m.num == numSession {
				has = true
			}
		}
		if !has {
			wantErr = true
		}
	}
	if wantErr != (err != nil) {
		failC20("combine_error", cs, map[string]any{"err": fmt.Sprint(err), "want_error": wantErr})
		return
	}
	if err != nil {
		stat("combine_error_cases", 1)
		return
	}
	if len(files) > 1 {
		stat("combine_nontrivial", 1)
	}
	// body: every non-summary message of every input, creation-time order, file order inside; later files without file_id / file_creator
	type src struct {
		m    pm
		file int
	}
	var want []src
	for k, f := range files {
		for _, m := range f {
			if isSummary(m.num) || (k > 0 && (m.num == uint16(mesgnum.FileId) || m.num == uint16(mesgnum.FileCreator))) {
				continue
			}
			want = append(want, src{m, k})
		}
	}
	nb := 0
	for nb < len(out) && !isSummary(out[nb].num) {
		nb++
	}
	if nb != len(want) {
		failC20("combine_messages_lost_or_duplicated", cs, map[string]any{"want_len": len(want), "got_len": nb})
		return
	}
	for _, m := range out[nb:] {
		if !isSummary(m.num) {
			failC20("combine_tail_shape", cs, nil)
			return
		}
	}
	offs := map[accKey]pf{}    // last accumulated value per key over the files before the current one
	pending := map[accKey]pf{} // last accumulated value inside the current file
	seenBefore := map[accKey]bool{}
	cur := 0
	var firstSeenQuirk map[string]any
	flush := func() {
		for k, v := range pending {
			offs[k] = v
			seenBefore[k] = true
		}
		pending = map[accKey]pf{}
	}
	for i, w := range want {
		if w.file != cur {
			flush()
			cur = w.file
		}
		g := out[i]
		if g.num != w.m.num || g.hdr != w.m.hdr || !sameDev(g.dev, w.m.dev) || len(g.fields) != len(w.m.fields) {
			failC20("combine_order_or_content", cs, map[string]any{"index": i, "want": w.m.human(), "got": g.human()})
			return
		}
		for j, f := range w.m.fields {
			gf := g.fields[j]
			if !accValid(f) {
				if !f.same(gf) {
					failC20("combine_order_or_content", cs, map[string]any{"index": i, "field": f.num, "want": w.m.human(), "got": g.human()})
					return
				}
				continue
			}
			k := accKey{w.m.num, f.num}
			exp := f
			if off, ok := offs[k]; ok && cur > 0 {
				exp = addVal(f, off)
			}
			if gf.attrs != f.attrs || gf.val != exp.val {
				if cur > 0 && !seenBefore[k] && gf.attrs == f.attrs { // the quantity appears for the first time in a later file
					if firstSeenQuirk == nil {
						firstSeenQuirk = map[string]any{"index": i, "mesg": w.m.num, "field": f.num, "file": cur, "want": exp.val, "got": gf.val}
					}
				} else {
					failC20("combine_accumulation", cs, map[string]any{"index": i, "mesg": w.m.num, "field": f.num, "file": cur, "raw": f.val, "want": exp.val, "got": gf.val})
					return
				}
			} else if cur > 0 {
				if _, ok := offs[k]; ok {
					stat("combine_accumulated_fields", 1)
				}
			}
			pending[k] = gf
			if cur == 0 {
				pending[k] = f
			}
		}
	}
	if firstSeenQuirk != nil {
		knownC20("combine_first_seen_in_later_file", "combine_accumulation", cs, firstSeenQuirk)
	}
}

// ------------------------------------------------------------------ entry

func c20(args []string) {
	c, fs := commonFlags("c20", args)
	only := fs.String("only", "", "conceal|remove|reduce|combine")
	fs.Parse(args)
	nConceal, nRemove, nReduce, nCombine := 420, 160, 320, 200
	if c.tier == "thorough" {
		nConceal, nRemove, nReduce, nCombine = 6000, 2000, 4000, 3000
	}
	if c.n != 0 {
		nConceal, nRemove, nReduce, nCombine = c.n, c.n, c.n, c.n
	}
	r := newRng(c.seed)
	rc, rr, rd, rb := r.fork(), r.fork(), r.fork(), r.fork()
	run := func(name string, n int, f func(*rng, int), g *rng) {
		if *only != "" && *only != name {
			return
		}
		for i := 0; i < n; i++ {
			f(g, i)
		}
	}
	witnessCases()
	run("conceal", nConceal, concealCase, rc)
	run("remove", nRemove, removeCase, rr)
	run("reduce", nReduce, reduceCase, rd)
	run("combine", nCombine, combineCase, rb)
}

// the fixed witness of DESIGN.md section 5 (C20): 10 records 100 m and 1 s apart, laps [0,2) [2,4) [4,9) s, 450 m concealed
func witnessActivity() []proto.Message {
	t0 := uint32(1000000000)
	var ms []proto.Message
	rec := func(k int) proto.Message {
		return proto.Message{Num: mesgnum.Record, Fields: []proto.Field{
			fld(mesgnum.Record, fieldnum.RecordTimestamp, proto.Uint32(t0+uint32(k))),
			fld(mesgnum.Record, fieldnum.RecordPositionLat, proto.Int32(int32(1000+k))),
			fld(mesgnum.Record, fieldnum.RecordPositionLong, proto.Int32(int32(2000+k))),
			fld(mesgnum.Record, fieldnum.RecordDistance, proto.Uint32(uint32(k)*10000))}}
	}
	lap := func(a, b int) proto.Message {
		return proto.Message{Num: mesgnum.Lap, Fields: []proto.Field{
			fld(mesgnum.Lap, fieldnum.LapTimestamp, proto.Uint32(t0+uint32(b))),
			fld(mesgnum.Lap, fieldnum.LapStartTime, proto.Uint32(t0+uint32(a))),
			fld(mesgnum.Lap, fieldnum.LapStartPositionLat, proto.Int32(int32(1000+a))),
			fld(mesgnum.Lap, fieldnum.LapStartPositionLong, proto.Int32(int32(2000+a))),
			fld(mesgnum.Lap, fieldnum.LapEndPositionLat, proto.Int32(int32(1000+b-1))),
			fld(mesgnum.Lap, fieldnum.LapEndPositionLong, proto.Int32(int32(2000+b-1))),
			fld(mesgnum.Lap, fieldnum.LapTotalElapsedTime, proto.Uint32(uint32(b-a)*1000)),
			fld(mesgnum.Lap, fieldnum.LapTotalTimerTime, proto.Uint32(uint32(b-a)*1000))}}
	}
	for k := 0; k < 10; k++ {
		ms = append(ms, rec(k))
		switch k {
		case 1:
			ms = append(ms, lap(0, 2))
		case 3:
			ms = append(ms, lap(2, 4))
		case 9:
			ms = append(ms, lap(4, 10))
		}
	}
	return ms
}

func witnessCases() {
	for _, w := range []struct{ first, last uint32 }{{45000, 0}, {0, 1000000}} {
		msgs := witnessActivity()
		in := snapAll(msgs)
		concealer.Conceal(msgs, w.first, w.last)
		out := snapAll(msgs)
		emit("CASE", fmt.Sprintf("CConceal %d %d %s %s", w.first, w.last, coqMesgs(in), coqMesgs(out)))
		cs := c20case{tool: "conceal", params: map[string]any{"first": w.first, "last": w.last, "witness": true}, in: [][]string{humanAll(in)}, out: humanAll(out)}
		emit("WITNESS", fmt.Sprintf("CConceal %d %d %s %s", w.first, w.last, coqMesgs(in), coqMesgs(out)))
		oracleConceal(cs, in, out, w.first, w.last)
		stat("conceal_cases", 1)
	}
}
