package main

import (
	"bytes"
	"context"
	"fmt"
	"strings"

	"github.com/muktihari/fit/encoder"
	"github.com/muktihari/fit/profile/factory"
	"github.com/muktihari/fit/proto"
)

func init() { cmds["encode-cases"] = encodeCases }

// input terms of Run/RunEncode.v
func coqIField(mesgNum uint16, f *proto.Field) string {
	if f.FieldBase == nil {
		return "INil"
	}
	if f.Name != factory.NameUnknown {
		return fmt.Sprintf("IK %d (%s) %s", f.Num, coqValue(f.Value), coqBool(f.IsExpandedField))
	}
	return fmt.Sprintf("IU %d %d %d %s (%s) %s", f.Num, f.BaseType, f.Type, coqBool(f.Array), coqValue(f.Value), coqBool(f.IsExpandedField))
}

func coqIMesg(m *proto.Message) string {
	fs := make([]string, len(m.Fields))
	for i := range m.Fields {
		fs[i] = coqIField(uint16(m.Num), &m.Fields[i])
	}
	ds := make([]string, len(m.DeveloperFields))
	for i := range m.DeveloperFields {
		d := &m.DeveloperFields[i]
		ds[i] = fmt.Sprintf("(%d, %d, %s)", d.Num, d.DeveloperDataIndex, coqValue(d.Value))
	}
	return fmt.Sprintf("(%d, %s, %s)", m.Num, coqList(fs), coqList(ds))
}

func coqIMesgs(ms []proto.Message) string {
	items := make([]string, len(ms))
	for i := range ms {
		items[i] = coqIMesg(&ms[i])
	}
	return coqList(items)
}

func (c encCfg) coq() string {
	return fmt.Sprintf("mkecfg %s %s %d %d %s", coqBool(c.bigEndian), coqBool(c.headerOpt == encoder.HeaderOptionCompressedTimestamp),
		c.localTypes, c.protoVer, coqBool(c.preserve))
}

func encErrClass(err error) int {
	if err == nil {
		return 0
	}
	s := err.Error()
	for _, p := range []struct {
		text string
		code int
	}{{"empty messages", 20}, {"no fields", 21}, {"value type mismatch", 22}, {"invalid UTF-8 string", 23}, {"exceed max allowed", 24},
		{"missing developer data id", 25}, {"missing field description", 26}, {"protocol violation", 27}, {"type is not supported", 28}} {
		if strings.Contains(s, p.text) {
			return p.code
		}
	}
	if strings.Contains(s, "injected") {
		return 29
	}
	return 99
}

type encFile struct {
	hsize   byte
	proto   proto.Version
	profile uint16
	msgs    []proto.Message
}

func coqEFiles(fs []encFile) string {
	items := make([]string, len(fs))
	for i, f := range fs {
		items[i] = fmt.Sprintf("(%d, %d, %d, %s)", f.hsize, f.proto, f.profile, coqIMesgs(f.msgs))
	}
	return coqList(items)
}

// encodeChain: encode the files one after the other with one encoder into one plain buffer.
// Returns the bytes, per-file written-back (header, crc), and the first error.
func encodeChain(c encCfg, files []encFile) ([]byte, []string, error) {
	var buf bytes.Buffer
	enc := encoder.New(&buf, c.options()...)
	var wb []string
	for _, f := range files {
		fit := &proto.FIT{FileHeader: proto.FileHeader{Size: f.hsize, ProtocolVersion: f.proto, ProfileVersion: f.profile}, Messages: cloneMessages(f.msgs)}
		var err error
		if (len(files)+len(f.msgs))%2 == 1 { // the context variant has its own copy of the encode path (validation, data size, messages): same contract
			err = enc.EncodeWithContext(context.Background(), fit)
		} else {
			err = enc.Encode(fit)
		}
		if err != nil {
			return buf.Bytes(), wb, err
		}
		h := fit.FileHeader
		wb = append(wb, fmt.Sprintf("((%d, %d, %d, %d, %d), %d)", h.Size, h.ProtocolVersion, h.ProfileVersion, h.DataSize, h.CRC, fit.CRC))
	}
	return buf.Bytes(), wb, nil
}

func (r *rng) genChain(wellFormed bool) (encCfg, []encFile) {
	ec := r.encCfg()
	n := 1
	if r.chance(1, 4) {
		n = 2 + r.intn(2)
	}
	files := make([]encFile, n)
	for i := range files {
		cfg := mesgGenCfg{wellFormed: wellFormed, maxFields: 8, unknown: true, tsMode: r.pick(0, 1, 2, 3, 4, 5, 5, 6)}
		withDev := r.chance(1, 3) && ec.protoVer != proto.V1
		msgs := r.genFit(cfg, 1+r.intn(10), withDev)
		hp := proto.Version(0)
		if r.chance(1, 4) {
			hp = proto.Version(r.pick(0x10, 0x20, 0x21))
		}
		files[i] = encFile{hsize: ec.headerSize, proto: hp, profile: ec.profileVer, msgs: msgs}
	}
	return ec, files
}

func encodeCases(args []string) {
	c, fs := commonFlags("encode-cases", args)
	fs.Parse(args)
	r := newRng(c.seed)
	n := c.n
	if n == 0 {
		n = 200
	}
	for i := 0; i < n; i++ {
		ec, files := r.genChain(r.chance(3, 4))
		if r.chance(1, 12) { // boundary shapes: many fields, long values
			m := proto.Message{Num: 0xFF10}
			k := r.pick(254, 255, 256, 300)
			for j := 0; j < k; j++ {
				f := factory.CreateField(m.Num, byte(j%250))
				f.BaseType, f.Type = 2, 2
				f.Value = proto.Uint8(uint8(j))
				m.Fields = append(m.Fields, f)
			}
			files[0].msgs = append(files[0].msgs, m)
		}
		if r.chance(1, 12) {
			m := proto.Message{Num: 0xFF11}
			f := factory.CreateField(m.Num, 1)
			f.BaseType, f.Type, f.Array = 13, 13, true
			f.Value = proto.SliceUint8(r.bytes(r.pick(254, 255, 256)))
			m.Fields = append(m.Fields, f)
			files[0].msgs = append(files[0].msgs, m)
		}
		b, wb, err := encodeChain(ec, files)
		obs := fmt.Sprintf("EOk %s %s", coqBytes(b), coqList(wb))
		if err != nil {
			obs = fmt.Sprintf("EErr %d", encErrClass(err))
			stat(fmt.Sprintf("encode_err%d", encErrClass(err)), 1)
		} else {
			stat("encode_ok", 1)
		}
		emit("CASE", fmt.Sprintf("(%s, %s, %s)", ec.coq(), coqEFiles(files), obs))
		if i < 2 {
			emit("SAMPLE", fmt.Sprintf("cfg %+v files %d msgs %d -> %d bytes err %v", ec, len(files), len(files[0].msgs), len(b), err))
		}
	}
}
