package main

import (
	"bytes"
	"fmt"
	"io"
	"os"

	"github.com/muktihari/fit/decoder"
	"github.com/muktihari/fit/proto"
)

func init() { cmds["c04"] = c04 }

func checkIntegrity(b []byte) (n int, err error, panicked any) {
	defer func() { panicked = recover() }()
	n, err = decoder.New(bytes.NewReader(b)).CheckIntegrity()
	return
}

func decodeFails(b []byte) bool {
	res := decodeBytes(b, true, true)
	return res.err != nil || res.panicked != nil
}

// rejected: both the integrity check and decoding return an error for the corrupted file
func rejected(b []byte) (bool, string) {
	n, err, p := checkIntegrity(b)
	if p != nil {
		return false, fmt.Sprintf("CheckIntegrity panicked: %v", p)
	}
	if err == nil {
		return false, fmt.Sprintf("CheckIntegrity accepted (%d sequences)", n)
	}
	if !decodeFails(b) {
		return false, "Decode accepted"
	}
	return true, ""
}

func c04(args []string) {
	c, fs := commonFlags("c04", args)
	fs.Parse(args)
	r := newRng(c.seed)
	nfiles := 12
	nref := 400
	if c.tier == "thorough" {
		nfiles, nref = 150, 6000
	}
	if c.n != 0 {
		nref = c.n
	}
	// (1) encoder-produced single-sequence files with the default 14-byte header: exhaustive single-bit flips, bursts, truncations, suffixes
	for i := 0; i < nfiles; i++ {
		cfg := mesgGenCfg{wellFormed: true, maxFields: 5, unknown: true, tsMode: r.intn(4)}
		ec := r.encCfg()
		ec.headerSize, ec.protoVer = 14, proto.V2
		b, err := encodeFit(ec, r.genFit(cfg, 1+r.intn(4), r.chance(1, 3)))
		if err != nil || len(b) > 400 {
			i--
			continue
		}
		if ok, why := rejected(b); ok {
			emitJSON("FAIL", "", map[string]any{"kind": "intact-file-rejected", "bytes": fmt.Sprintf("%x", b)})
			_ = why
			continue
		}
		region := len(b) - 14                 // message bytes + trailing CRC
		for bit := 0; bit < region*8; bit++ { // every single bit
			m := append([]byte(nil), b...)
			m[14+bit/8] ^= 1 << uint(bit%8)
			stat("oracle_single_bit_flips", 1)
			if ok, why := rejected(m); !ok {
				emitJSON("FAIL", "", map[string]any{"kind": "bit-flip-accepted", "why": why, "bytes": fmt.Sprintf("%x", b), "bit": bit})
			}
		}
		for k := 0; k < 600; k++ { // bursts of <= 16 consecutive bits (LSB-first bit order), first and last bit set
			m := append([]byte(nil), b...)
			l := 2 + r.intn(15)
			start := r.intn(region*8 - l + 1)
			for j := 0; j < l; j++ {
				if j == 0 || j == l-1 || r.chance(1, 2) {
					bit := start + j
					m[14+bit/8] ^= 1 << uint(bit%8)
				}
			}
			stat("oracle_bursts", 1)
			if ok, why := rejected(m); !ok {
				emitJSON("FAIL", "", map[string]any{"kind": "burst-accepted", "why": why, "bytes": fmt.Sprintf("%x", b), "corrupted": fmt.Sprintf("%x", m)})
			}
		}
		// a burst that brings the running checksum to zero just before the stored CRC: the last two message bytes overwritten with
		// the checksum of what precedes them (a zero running value is an ordinary value, not "checksum off")
		if region > 6 {
			m := append([]byte(nil), b...)
			c := crcOf(m[14 : len(m)-4])
			m[len(m)-4], m[len(m)-3] = byte(c), byte(c>>8)
			stat("oracle_zero_residue_bursts", 1)
			if !bytes.Equal(m, b) {
				if ok, why := rejected(m); !ok {
					emitJSON("FAIL", "", map[string]any{"kind": "burst-accepted (running checksum brought to zero)", "why": why, "bytes": fmt.Sprintf("%x", b), "corrupted": fmt.Sprintf("%x", m)})
				}
			}
		}
		for k := 0; k < len(b); k++ { // every truncation length
			stat("oracle_truncations", 1)
			if ok, why := rejected(b[:k]); !ok {
				emitJSON("FAIL", "", map[string]any{"kind": "truncation-accepted", "why": why, "bytes": fmt.Sprintf("%x", b), "length": k})
			}
		}
		for k := 0; k < 40; k++ { // appended bytes that are not complete valid sequences
			var suf []byte
			switch r.intn(4) {
			case 0:
				suf = r.bytes(1 + r.intn(30))
			case 1:
				suf = append([]byte(nil), b[:1+r.intn(len(b)-1)]...) // proper prefix of a valid sequence
			case 2:
				suf = r.mutate(b)
				if n, err, _ := checkIntegrity(suf); err == nil && n > 0 {
					continue
				}
			default:
				suf = []byte{0}
			}
			if len(suf) == 0 { // a mutation can cut the file down to nothing: no suffix, nothing to check
				continue
			}
			stat("oracle_suffixes", 1)
			n, err, p := checkIntegrity(append(append([]byte(nil), b...), suf...))
			if p != nil || err == nil {
				emitJSON("FAIL", "", map[string]any{"kind": "suffix-accepted", "bytes": fmt.Sprintf("%x", b), "suffix": fmt.Sprintf("%x", suf), "n": n})
			}
		}
		if i < 2 {
			emit("SAMPLE", fmt.Sprintf("file of %d bytes: %d bit flips, 600 bursts, %d truncations, 40 suffixes", len(b), region*8, len(b)))
		}
	}
	// (2) any byte string: CheckIntegrity against the reference rules (evaluated in Coq on the same bytes)
	var pool [][]byte
	for _, p := range fixtureFiles(3300) {
		if b, err := os.ReadFile(p); err == nil {
			pool = append(pool, b)
		}
	}
	// header size byte against the header actually present: every declared size 0..20 and 255 on 12- and 14-byte originals
	var sweep [][]byte
	for _, hs := range []byte{12, 14} {
		ec := r.encCfg()
		ec.protoVer, ec.headerSize = proto.V2, hs
		out, err := encodeFit(ec, r.genFit(mesgGenCfg{wellFormed: true, maxFields: 4}, 1+r.intn(3), false))
		if err != nil || len(out) < int(hs)+4 {
			continue
		}
		for _, s := range []int{0, 1, 2, 8, 11, 12, 13, 14, 15, 16, 17, 20, 255} {
			for _, keepCRC := range []bool{false, true} {
				h := append([]byte(nil), out[:12]...)
				h[0] = byte(s)
				switch {
				case s > 12:
					if keepCRC && hs == 14 {
						h = append(h, out[12:14]...)
					}
					for len(h) < s && len(h) < 40 {
						h = append(h, byte(len(h)))
					}
					h = h[:minInt(len(h), maxInt(s, 12))]
				case s < 12 && !keepCRC:
					h = h[:maxInt(s, 1)]
				}
				sweep = append(sweep, append(h, out[hs:]...))
			}
		}
	}
	// zero data size: on its own, with a zero header CRC, with a 12-byte header, alone and behind an intact file
	for _, hs := range []byte{12, 14} {
		ec := r.encCfg()
		ec.protoVer, ec.headerSize = proto.V2, hs
		out, err := encodeFit(ec, r.genFit(mesgGenCfg{wellFormed: true, maxFields: 3}, 1, false))
		if err != nil || len(out) < int(hs)+4 {
			continue
		}
		for _, zeroCRC := range []bool{false, true} {
			for _, tail := range [][]byte{{0, 0}, nil, {0}, out[len(out)-2:]} {
				h := append([]byte(nil), out[:hs]...)
				h[4], h[5], h[6], h[7] = 0, 0, 0, 0
				if hs == 14 {
					if zeroCRC {
						h[12], h[13] = 0, 0
					} else {
						c := crcOf(h[:12])
						h[12], h[13] = byte(c), byte(c>>8)
					}
				}
				empty := append(h, tail...)
				sweep = append(sweep, empty, append(append([]byte(nil), out...), empty...))
			}
		}
	}
	// header CRC field of a 14-byte header: every special-looking 16-bit value (only 0x0000 means "not set"), with the rest of
	// the header intact or corrupted, alone and behind an intact file
	{
		ec := r.encCfg()
		ec.protoVer, ec.headerSize = proto.V2, 14
		out, err := encodeFit(ec, r.genFit(mesgGenCfg{wellFormed: true, maxFields: 3}, 1+r.intn(2), false))
		if err == nil && len(out) > 18 {
			for _, v := range []uint16{0x0000, 0xFFFF, 0x0001, 0x0100, 0x00FF, 0xFF00, 0x7FFF, 0x8000, 0xFFFE, uint16(r.intn(65536))} {
				for _, corrupt := range []int{-1, 1, 2, 3} { // -1: header fields intact; else: that byte (protocol / profile version) flipped
					m := append([]byte(nil), out...)
					m[12], m[13] = byte(v), byte(v>>8)
					if corrupt >= 0 {
						m[corrupt] ^= 4
					}
					sweep = append(sweep, m, append(append([]byte(nil), out...), m...))
					stat("header_crc_value_sweep", 2)
				}
			}
		}
	}
	sweep = append(sweep, []byte{}, []byte{0x0E}, []byte{0x0C, 0x10}) // nothing at all; the first bytes of a header and nothing else
	stat("header_size_sweep", len(sweep))
	for i := -len(sweep); i < nref; i++ {
		var b []byte
		if i < 0 {
			b = sweep[i+len(sweep)]
		} else {
			switch r.intn(8) {
			case 0:
				b = r.bytes(r.intn(40))
			case 1:
				b = pool[r.intn(len(pool))]
			case 2:
				b = r.mutate(pool[r.intn(len(pool))])
			case 3: // header CRC zeroed / wrong, 12-byte headers, zero data size
				ec := r.encCfg()
				ec.protoVer = proto.V2
				out, err := encodeFit(ec, r.genFit(mesgGenCfg{wellFormed: true, maxFields: 4}, 1+r.intn(3), false))
				if err != nil {
					continue
				}
				b = out
				if len(b) > 14 && b[0] == 14 {
					switch r.intn(5) {
					case 0:
						b[12], b[13] = 0, 0
					case 1:
						b[12] ^= 1
					case 2:
						b[4], b[5], b[6], b[7] = 0, 0, 0, 0
					case 3:
						b[12], b[13] = byte(r.pick(0xFF, 0xFF, 0, 1)), byte(r.pick(0xFF, 0, 0xFF))
					}
				}
			default:
				ec, files := r.genChain(true)
				out, _, err := encodeChain(ec, files)
				if err != nil || len(out) == 0 {
					continue
				}
				b = out
				if r.chance(1, 3) {
					b = r.mutate(b)
				}
			}
		}
		n, err, p := checkIntegrity(b)
		// the verdict does not depend on how the reader hands the bytes over (all at once together with io.EOF / one byte at a time)
		for _, rd := range []io.Reader{&chunkReader{data: append([]byte(nil), b...), plan: []int{len(b)}, eofWithData: true, failAt: -1}, oneByteReader{bytes.NewReader(b)}} {
			n2, err2 := func() (n int, err error) {
				defer func() {
					if p := recover(); p != nil {
						err = fmt.Errorf("panic: %v", p)
					}
				}()
				return decoder.New(rd).CheckIntegrity()
			}()
			stat("oracle_integrity_other_readers", 1)
			if p == nil && (n2 != n || (err2 == nil) != (err == nil)) {
				emitJSON("FAIL", "", map[string]any{"kind": "integrity-depends-on-reader", "bytes": fmt.Sprintf("%x", b), "contiguous": fmt.Sprint(n, err), "other_reader": fmt.Sprint(n2, err2), "reader": fmt.Sprintf("%T", rd)})
			}
		}
		// the verdict does not depend on what the decoder did before either: a decoder that decoded (or checked) another file and was
		// Reset onto these bytes counts and judges them like a fresh one
		if p == nil && len(pool) > 0 {
			prev := pool[(len(b)+i+1000*len(pool))%len(pool)]
			for _, how := range []int{0, 1, 2} {
				n3, err3, p3 := func() (n int, err error, p any) {
					defer func() { p = recover() }()
					dec := decoder.New(bytes.NewReader(prev))
					switch how {
					case 0: // everything decoded, up to the end of the previous stream
						for dec.Next() {
							if _, e := dec.Decode(); e != nil {
								break
							}
						}
					case 1: // one Decode call, the decoder left where that sequence ended
						dec.Decode()
					default:
						dec.CheckIntegrity()
					}
					dec.Reset(bytes.NewReader(b))
					n, err = dec.CheckIntegrity()
					return
				}()
				stat("oracle_integrity_reused_decoder", 1)
				if p3 != nil || n3 != n || (err3 == nil) != (err == nil) {
					emitJSON("FAIL", "", map[string]any{"kind": "integrity-depends-on-what-the-decoder-did-before-Reset", "bytes": fmt.Sprintf("%x", b), "fresh": fmt.Sprint(n, err),
						"reused": fmt.Sprint(n3, err3), "panic": fmt.Sprint(p3), "previous_input_len": len(prev), "previous_use": []string{"decoded to the end", "one Decode", "CheckIntegrity"}[how]})
					break
				}
			}
		}
		if p != nil {
			emitJSON("FAIL", "", map[string]any{"kind": "integrity-panic", "bytes": fmt.Sprintf("%x", b), "panic": fmt.Sprint(p)})
			continue
		}
		emit("CASE", fmt.Sprintf("(%s, %d, %s)", coqBytes(b), n, coqBool(err == nil)))
		stat("reference_cases", 1)
		if err == nil {
			stat("reference_accepted", 1)
		}
	}
}
