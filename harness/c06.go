package main

import (
	"bytes"
	"fmt"
	"math"
	"reflect"
	"strings"
	"unicode/utf8"

	"github.com/muktihari/fit/profile"
	"github.com/muktihari/fit/profile/basetype"
	"github.com/muktihari/fit/profile/typedef"
	"github.com/muktihari/fit/proto"
)

type typedefBool = typedef.Bool

func init() { cmds["c06"] = c06 }

var boundary64 = []uint64{0, 1, 2, 0x7F, 0x80, 0xFF, 0x100, 0x7FFF, 0x8000, 0xFFFF, 0x10000, 0x7FFFFFFF, 0x80000000, 0xFFFFFFFF,
	0x100000000, 0x7FFFFFFFFFFFFFFF, 0x8000000000000000, 0xFFFFFFFFFFFFFFFF, 0x7FF0000000000000, 0x7FF8000000000001, 0xFFF0000000000000,
	0x7F800000, 0x7FC00001, 0xFF800000, 0x3FF0000000000000, 0x3F800000}

func (r *rng) word() uint64 {
	switch r.intn(4) {
	case 0:
		return boundary64[r.intn(len(boundary64))]
	case 1:
		return uint64(1)<<uint(r.intn(64)) - uint64(r.intn(2))
	default:
		return r.u64()
	}
}

// utf8ish produces strings from a UTF-8 grammar with deliberate defects.
func (r *rng) utf8ish(maxRunes int) []byte {
	var b []byte
	n := r.intn(maxRunes + 1)
	for i := 0; i < n; i++ {
		switch r.intn(14) {
		case 0, 1, 2, 3:
			b = append(b, byte(0x20+r.intn(0x5F)))
		case 4:
			b = append(b, byte(0xC2+r.intn(0x1E)), byte(0x80+r.intn(0x40)))
		case 5:
			b = append(b, byte(0xE0+r.intn(0x10)), byte(0x80+r.intn(0x40)), byte(0x80+r.intn(0x40))) // incl. surrogates, overlongs
		case 6:
			b = append(b, byte(0xF0+r.intn(5)), byte(0x80+r.intn(0x40)), byte(0x80+r.intn(0x40)), byte(0x80+r.intn(0x40)))
		case 7:
			b = append(b, 0xEF, 0xBF, 0xBD) // U+FFFD
		case 8:
			b = append(b, 0) // embedded NUL
		case 9:
			b = append(b, byte(0x80+r.intn(0x80))) // stray continuation / invalid lead
		case 10:
			b = append(b, 0xC0+byte(r.intn(2)), byte(0x80+r.intn(0x40))) // overlong 2-byte
		case 11:
			b = append(b, byte(0xE0+r.intn(0x10))) // truncated sequence
		case 12:
			b = append(b, []byte("é")...)
		default:
			b = append(b, []byte("日本")...)
		}
	}
	return b
}

func (r *rng) sliceLen() int {
	switch r.intn(8) {
	case 0:
		return 0
	case 1:
		return 1
	case 2:
		return 2
	case 3:
		return r.pick(31, 32, 63, 64, 127, 128, 254, 255, 256, 257)
	default:
		return r.intn(40)
	}
}

// randValue: a proto.Value of type k (1..24) plus the base types it aligns with.
func (r *rng) randValue(k proto.Type) proto.Value {
	n := r.sliceLen()
	switch k {
	case proto.TypeBool:
		return proto.Bool(typedef.Bool(r.pick(0, 1, 2, 7, 254, 255)))
	case proto.TypeInt8:
		return proto.Int8(int8(r.word()))
	case proto.TypeUint8:
		return proto.Uint8(uint8(r.word()))
	case proto.TypeInt16:
		return proto.Int16(int16(r.word()))
	case proto.TypeUint16:
		return proto.Uint16(uint16(r.word()))
	case proto.TypeInt32:
		return proto.Int32(int32(r.word()))
	case proto.TypeUint32:
		return proto.Uint32(uint32(r.word()))
	case proto.TypeInt64:
		return proto.Int64(int64(r.word()))
	case proto.TypeUint64:
		return proto.Uint64(r.word())
	case proto.TypeFloat32:
		return proto.Float32(math.Float32frombits(uint32(r.word())))
	case proto.TypeFloat64:
		return proto.Float64(math.Float64frombits(r.word()))
	case proto.TypeString:
		return proto.String(string(r.utf8ish(12)))
	case proto.TypeSliceBool:
		s := make([]typedef.Bool, n)
		for i := range s {
			s[i] = typedef.Bool(r.pick(0, 1, 1, 0, 2, 255, 77))
		}
		return proto.SliceBool(s)
	case proto.TypeSliceInt8:
		s := make([]int8, n)
		for i := range s {
			s[i] = int8(r.word())
		}
		return proto.SliceInt8(s)
	case proto.TypeSliceUint8:
		s := make([]uint8, n)
		for i := range s {
			s[i] = uint8(r.word())
		}
		return proto.SliceUint8(s)
	case proto.TypeSliceInt16:
		s := make([]int16, n)
		for i := range s {
			s[i] = int16(r.word())
		}
		return proto.SliceInt16(s)
	case proto.TypeSliceUint16:
		s := make([]uint16, n)
		for i := range s {
			s[i] = uint16(r.word())
		}
		return proto.SliceUint16(s)
	case proto.TypeSliceInt32:
		s := make([]int32, n)
		for i := range s {
			s[i] = int32(r.word())
		}
		return proto.SliceInt32(s)
	case proto.TypeSliceUint32:
		s := make([]uint32, n)
		for i := range s {
			s[i] = uint32(r.word())
		}
		return proto.SliceUint32(s)
	case proto.TypeSliceInt64:
		s := make([]int64, n)
		for i := range s {
			s[i] = int64(r.word())
		}
		return proto.SliceInt64(s)
	case proto.TypeSliceUint64:
		s := make([]uint64, n)
		for i := range s {
			s[i] = r.word()
		}
		return proto.SliceUint64(s)
	case proto.TypeSliceFloat32:
		s := make([]float32, n)
		for i := range s {
			s[i] = math.Float32frombits(uint32(r.word()))
		}
		return proto.SliceFloat32(s)
	case proto.TypeSliceFloat64:
		s := make([]float64, n)
		for i := range s {
			s[i] = math.Float64frombits(r.word())
		}
		return proto.SliceFloat64(s)
	case proto.TypeSliceString:
		m := r.intn(5)
		s := make([]string, m)
		for i := range s {
			s[i] = string(r.utf8ish(6))
		}
		return proto.SliceString(s)
	}
	return proto.Value{}
}

var alignOf = map[proto.Type][]basetype.BaseType{
	proto.TypeBool: {basetype.Enum}, proto.TypeInt8: {basetype.Sint8}, proto.TypeUint8: {basetype.Enum, basetype.Byte, basetype.Uint8, basetype.Uint8z},
	proto.TypeInt16: {basetype.Sint16}, proto.TypeUint16: {basetype.Uint16, basetype.Uint16z}, proto.TypeInt32: {basetype.Sint32},
	proto.TypeUint32: {basetype.Uint32, basetype.Uint32z}, proto.TypeInt64: {basetype.Sint64}, proto.TypeUint64: {basetype.Uint64, basetype.Uint64z},
	proto.TypeFloat32: {basetype.Float32}, proto.TypeFloat64: {basetype.Float64}, proto.TypeString: {basetype.String},
}

func scalarOf(t proto.Type) proto.Type {
	if t > proto.TypeString {
		return t - proto.TypeString
	}
	return t
}

func coqOutcomeValue(v proto.Value, err error, panicked any) string {
	if panicked != nil {
		return "Panic P_Index"
	}
	if err != nil {
		return "Err E_TypeNotSupported"
	}
	return "Ok (" + coqValue(v) + ")"
}

func safeUnmarshal(b []byte, arch byte, bt basetype.BaseType, pt profile.ProfileType, isArray bool) (v proto.Value, err error, p any) {
	defer func() { p = recover() }()
	v, err = proto.UnmarshalValue(b, arch, bt, pt, isArray)
	return
}

// valuesEqual compares two values by type and content (bit patterns).
func valuesEqual(a, b proto.Value) bool { return coqValue(a) == coqValue(b) }

func c06(args []string) {
	c, fs := commonFlags("c06", args)
	fs.Parse(args)
	r := newRng(c.seed)
	nval, nraw := 1200, 800
	if c.tier == "thorough" {
		nval, nraw = 40000, 20000
	}
	if c.n != 0 {
		nval, nraw = c.n, c.n
	}
	emitVal := func(v proto.Value, arch byte, bt basetype.BaseType, sample bool) {
		size := v.Size()
		b, err := v.MarshalAppend(nil, arch)
		mb := "None"
		if err == nil {
			mb = "(Some " + coqBytes(b) + ")"
		}
		emit("CASE", fmt.Sprintf("CVal %s (%s) %d %d %s %d %s %s", coqBool(arch != 0), coqValue(v), bt, size, mb, v.Type(),
			coqBool(v.Align(bt)), coqBool(v.Valid(bt))))
		stat("val_type_"+v.Type().String(), 1)
		if err == nil && len(b) != size {
			emitJSON("FAIL", "", map[string]any{"kind": "size-vs-marshal", "value": coqValue(v), "size": size, "bytes": len(b)})
		}
		if err == nil { // appending to a buffer that already holds bytes (a message under construction) adds exactly the same bytes
			for _, pre := range [][]byte{{0x00}, {0x41, 0x00}, {0xFF}, r.bytes(1 + r.intn(6))} {
				keep := append([]byte(nil), pre...)
				b2, err2 := v.MarshalAppend(append(make([]byte, 0, len(pre)+size+3), pre...), arch)
				stat("marshal_append_onto_prefix", 1)
				if err2 != nil || !bytes.Equal(b2, append(keep, b...)) {
					emitJSON("FAIL", "", map[string]any{"kind": "marshal-append-depends-on-what-the-buffer-holds", "value": coqValue(v), "prefix": fmt.Sprintf("%x", keep),
						"got": fmt.Sprintf("%x", b2), "want": fmt.Sprintf("%x", append(keep, b...)), "err": fmt.Sprint(err2)})
					break
				}
			}
		}
		if sample {
			emit("SAMPLE", fmt.Sprintf("value %s arch %d basetype %d: size %d bytes %x", coqValue(v), arch, bt, size, b))
		}
		if err != nil {
			return
		}
		// round trip with the matching base type (direct oracle + a raw unmarshal case)
		pt := profile.ProfileType(bt & basetype.BaseTypeNumMask)
		if scalarOf(v.Type()) == proto.TypeBool {
			pt = profile.Bool
		}
		isArr := v.Type() > proto.TypeString
		u, uerr, p := safeUnmarshal(b, arch, bt, pt, isArr)
		emit("CASE", fmt.Sprintf("CUn %s %d %d %s %s (%s)", coqBool(arch != 0), bt, pt, coqBool(isArr), coqBytes(b), coqOutcomeValue(u, uerr, p)))
		if !v.Align(bt) {
			return
		}
		if p != nil || uerr != nil {
			emitJSON("FAIL", "", map[string]any{"kind": "roundtrip-error", "value": coqValue(v), "panic": fmt.Sprint(p), "err": fmt.Sprint(uerr)})
			return
		}
		want := normValue(v)
		if !valuesEqual(u, want) {
			if containsFFFD(v) {
				emitJSON("KNOWN", "string_contains_U+FFFD", map[string]any{"value": coqValue(v), "got": coqValue(u)})
			} else {
				emitJSON("FAIL", "", map[string]any{"kind": "roundtrip", "value": coqValue(v), "want": coqValue(want), "got": coqValue(u), "basetype": bt, "arch": arch})
			}
		}
	}
	// all 8/16-bit scalars exhaustively through the direct oracle (and a strided part as cases)
	for x := 0; x < 65536; x++ {
		for _, arch := range []byte{0, 1} {
			for _, v := range []proto.Value{proto.Uint16(uint16(x)), proto.Int16(int16(x))} {
				b, _ := v.MarshalAppend(nil, arch)
				bt := basetype.Uint16
				if v.Type() == proto.TypeInt16 {
					bt = basetype.Sint16
				}
				u, _, p := safeUnmarshal(b, arch, bt, profile.ProfileType(bt&basetype.BaseTypeNumMask), false)
				if p != nil || len(b) != v.Size() || !valuesEqual(u, v) {
					emitJSON("FAIL", "", map[string]any{"kind": "exhaustive16", "value": coqValue(v), "got": coqValue(u)})
				}
			}
		}
		if x < 256 {
			for _, v := range []proto.Value{proto.Uint8(uint8(x)), proto.Int8(int8(x)), proto.Bool(typedef.Bool(x))} {
				emitVal(v, byte(x&1), alignOf[v.Type()][0], false)
			}
		}
	}
	stat("exhaustive_8_16_bit_scalars", 65536*4+256*3)
	for i := 0; i < nval; i++ {
		k := proto.Type(1 + r.intn(24))
		v := r.randValue(k)
		arch := byte(r.intn(2))
		bts := alignOf[scalarOf(k)]
		bt := bts[r.intn(len(bts))]
		if r.chance(1, 10) { // misaligned base type on purpose (Align / Valid dispatch)
			bt = basetype.List()[r.intn(len(basetype.List()))]
		}
		emitVal(v, arch, bt, i < 3)
	}
	emitVal(proto.Value{}, 0, basetype.Uint8, false)
	// floats by bit pattern: only the all-ones pattern is the invalid value; every other NaN (quiet, signalling, with payload),
	// the infinities and the zeros are ordinary values -- as scalars and inside arrays, alone and next to the sentinel
	{
		p32 := []uint32{0xFFFFFFFF, 0x7FC00000, 0xFFC00000, 0x7FA00000, 0x7F800001, 0xFFFFFFFE, 0x7FFFFFFF, 0x7F800000, 0xFF800000, 0x80000000, 0, 0x3F800000}
		p64 := []uint64{0xFFFFFFFFFFFFFFFF, 0x7FF8000000000000, 0xFFF8000000000000, 0x7FF4000000000000, 0x7FF0000000000001, 0xFFFFFFFFFFFFFFFE, 0x7FFFFFFFFFFFFFFF,
			0x7FF0000000000000, 0xFFF0000000000000, 0x8000000000000000, 0, 0x3FF0000000000000}
		for i, x := range p32 {
			f := math.Float32frombits(x)
			emitVal(proto.Float32(f), byte(i&1), basetype.Float32, false)
			emitVal(proto.SliceFloat32([]float32{f}), byte(i&1), basetype.Float32, false)
			emitVal(proto.SliceFloat32([]float32{f, math.Float32frombits(p32[(i+1)%len(p32)])}), byte(i&1), basetype.Float32, false)
			emitVal(proto.SliceFloat32([]float32{math.Float32frombits(0xFFFFFFFF), f}), byte(i&1), basetype.Float32, false)
		}
		for i, x := range p64 {
			f := math.Float64frombits(x)
			emitVal(proto.Float64(f), byte(i&1), basetype.Float64, false)
			emitVal(proto.SliceFloat64([]float64{f}), byte(i&1), basetype.Float64, false)
			emitVal(proto.SliceFloat64([]float64{f, math.Float64frombits(p64[(i+1)%len(p64)])}), byte(i&1), basetype.Float64, false)
			emitVal(proto.SliceFloat64([]float64{math.Float64frombits(0xFFFFFFFFFFFFFFFF), f}), byte(i&1), basetype.Float64, false)
		}
		stat("float_bit_pattern_values", 4*(len(p32)+len(p64)))
	}
	// Align / Valid dispatch: one value of every Go type against every base type of the protocol (and a few bytes that are none)
	for k := proto.Type(1); k <= 24; k++ {
		v := r.randValue(k)
		for _, bt := range basetype.List() {
			emitVal(v, 0, bt, false)
		}
		for j := 0; j < 3; j++ {
			emitVal(v, 0, basetype.BaseType(r.intn(256)), false)
		}
		stat("align_matrix_rows", 1)
	}
	// raw unmarshal: arbitrary bytes against arbitrary (base type, profile type, array flag), incl. too short inputs
	for i := 0; i < nraw; i++ {
		var b []byte
		switch r.intn(4) {
		case 0:
			b = r.utf8ish(10)
			if r.chance(2, 3) {
				b = append(b, 0)
			}
		case 1:
			b = r.bytes(r.intn(9))
		default:
			b = r.bytes(r.sliceLen())
		}
		bt := basetype.BaseType(r.intn(256))
		if r.chance(5, 6) {
			bt = basetype.List()[r.intn(len(basetype.List()))]
		}
		pt := profile.ProfileType(bt & basetype.BaseTypeNumMask)
		if r.chance(1, 6) {
			pt = profile.Bool
		}
		isArr := r.chance(1, 2)
		arch := byte(r.intn(2))
		u, err, p := safeUnmarshal(b, arch, bt, pt, isArr)
		emit("CASE", fmt.Sprintf("CUn %s %d %d %s %s (%s)", coqBool(arch != 0), bt, pt, coqBool(isArr), coqBytes(b), coqOutcomeValue(u, err, p)))
		stat("raw_unmarshal", 1)
		if p != nil {
			stat("raw_unmarshal_panics_short_scalar_read", 1)
		}
	}
	c06Any(r)
}

func containsFFFD(v proto.Value) bool {
	has := func(s string) bool { return strings.Contains(s, "\uFFFD") }
	switch v.Type() {
	case proto.TypeString:
		return has(v.String())
	case proto.TypeSliceString:
		for _, s := range v.SliceString() {
			if has(s) {
				return true
			}
		}
	}
	return false
}

// normValue: the documented normalisation of C06 written directly in Go (independent of the Coq model):
// strings are cut at the first NUL and lose malformed bytes; empty strings disappear from string slices; bool > 1 is 255.
func normValue(v proto.Value) proto.Value {
	cut := func(s string) string {
		out := make([]byte, 0, len(s))
		for len(s) > 0 {
			r, n := utf8.DecodeRuneInString(s)
			if r == 0 {
				break
			}
			if !(r == utf8.RuneError && n == 1) { // malformed bytes are dropped; a validly encoded U+FFFD is a character
				out = append(out, s[:n]...)
			}
			s = s[n:]
		}
		return string(out)
	}
	switch v.Type() {
	case proto.TypeString:
		return proto.String(cut(v.String()))
	case proto.TypeSliceString:
		var out []string
		for _, s := range v.SliceString() {
			// every element is written NUL-terminated; an embedded NUL splits it into several strings
			start := 0
			bs := []byte(s)
			for i := 0; i <= len(bs); i++ {
				if i == len(bs) || bs[i] == 0 {
					if i > start {
						if c := cut(string(bs[start:i])); c != "" {
							out = append(out, c)
						}
					}
					start = i + 1
				}
			}
		}
		if out == nil {
			out = []string{}
		}
		return proto.SliceString(out)
	case proto.TypeSliceBool:
		in := v.SliceBool()
		out := make([]typedef.Bool, len(in))
		for i, b := range in {
			if b > 1 {
				b = 255
			}
			out[i] = b
		}
		return proto.SliceBool(out)
	}
	return v
}

type myU16 uint16
type myStr string
type myF32 float32
type myI8s []int8
type myBool bool
type myU8s []uint8
type myI16s []int16
type myU16s []uint16
type myI32s []int32
type myU32s []uint32
type myI64s []int64
type myU64s []uint64
type myF32s []float32
type myF64s []float64
type myStrs []string
type myBools []bool
type myI8 int8
type myI16 int16
type myI32 int32
type myI64 int64
type myU64 uint64
type myF64 float64

// c06Any: wrapping Go values into protocol values and unwrapping them preserves type and content (direct oracle).
func c06Any(r *rng) {
	check := func(name string, in any, wantType proto.Type, want any) {
		v := proto.Any(in)
		stat("any_cases", 1)
		if v.Type() != wantType || !reflect.DeepEqual(v.Any(), want) {
			emitJSON("FAIL", "", map[string]any{"kind": "any", "case": name, "type": v.Type().String(), "got": fmt.Sprintf("%#v", v.Any()), "want": fmt.Sprintf("%#v", want)})
		}
	}
	for i := 0; i < 200; i++ {
		w := r.word()
		check("int8", int8(w), proto.TypeInt8, int8(w))
		check("uint8", uint8(w), proto.TypeUint8, uint8(w))
		check("int16", int16(w), proto.TypeInt16, int16(w))
		check("uint16", uint16(w), proto.TypeUint16, uint16(w))
		check("int32", int32(w), proto.TypeInt32, int32(w))
		check("uint32", uint32(w), proto.TypeUint32, uint32(w))
		check("int64", int64(w), proto.TypeInt64, int64(w))
		check("uint64", w, proto.TypeUint64, w)
		check("named uint16", myU16(w), proto.TypeUint16, uint16(w))
		check("typedef.File", typedef.File(w), proto.TypeUint8, uint8(w))
		check("typedef.MesgNum", typedef.MesgNum(w), proto.TypeUint16, uint16(w))
		check("typedef.DateTime", typedef.DateTime(w), proto.TypeUint32, uint32(w))
		f32 := math.Float32frombits(uint32(w))
		if f32 == f32 {
			check("float32", f32, proto.TypeFloat32, f32)
			check("named float32", myF32(f32), proto.TypeFloat32, f32)
		}
		f64 := math.Float64frombits(w)
		if f64 == f64 {
			check("float64", f64, proto.TypeFloat64, f64)
		}
		s := string(r.utf8ish(5))
		check("string", s, proto.TypeString, s)
		check("named string", myStr(s), proto.TypeString, s)
		n := r.intn(5)
		i8 := make([]int8, n)
		u16 := make([]uint16, n)
		named := make([]typedef.Sport, n)
		strs := make([]string, n)
		for j := 0; j < n; j++ {
			i8[j], u16[j], named[j], strs[j] = int8(r.u64()), uint16(r.u64()), typedef.Sport(r.u64()), string(r.utf8ish(3))
		}
		u8 := make([]uint8, n)
		for j := range named {
			u8[j] = uint8(named[j])
		}
		check("[]int8", i8, proto.TypeSliceInt8, i8)
		check("named []int8", myI8s(i8), proto.TypeSliceInt8, i8)
		check("[]uint16", u16, proto.TypeSliceUint16, u16)
		check("[]typedef.Sport", named, proto.TypeSliceUint8, u8)
		check("[]string", strs, proto.TypeSliceString, strs)
		check("pointer to uint16", &u16, proto.TypeSliceUint16, u16)
	}
	// every element kind, plain and through a named slice type (the reflection path), with spare capacity behind the length
	// and as a re-sliced window of a longer array: only the len elements count
	for i := 0; i < 40; i++ {
		n := r.intn(6)
		spare := r.pick(0, 1, 3, 8)
		mk := func() []uint64 {
			out := make([]uint64, n)
			for j := range out {
				out[j] = r.word()
			}
			return out
		}
		ws := mk()
		{
			a := make([]uint8, n, n+spare)
			b := make(myU8s, n, n+spare)
			for j, w := range ws {
				a[j], b[j] = uint8(w), uint8(w)
			}
			check("[]uint8 cap>len", a, proto.TypeSliceUint8, a[:n:n])
			check("named []uint8 cap>len", b, proto.TypeSliceUint8, []uint8(b[:n:n]))
		}
		{
			a := make([]int16, n, n+spare)
			b := make(myI16s, n, n+spare)
			for j, w := range ws {
				a[j], b[j] = int16(w), int16(w)
			}
			check("[]int16 cap>len", a, proto.TypeSliceInt16, a[:n:n])
			check("named []int16 cap>len", b, proto.TypeSliceInt16, []int16(b[:n:n]))
		}
		{
			a := make([]uint16, n+2, n+2+spare)
			b := make(myU16s, n+2, n+2+spare)
			for j := range a {
				a[j], b[j] = uint16(r.word()), 0
			}
			copy(b, a)
			check("[]uint16 window", a[1:1+n], proto.TypeSliceUint16, append([]uint16{}, a[1:1+n]...))
			check("named []uint16 window", b[1:1+n], proto.TypeSliceUint16, append([]uint16{}, a[1:1+n]...))
		}
		{
			a := make([]int32, n, n+spare)
			b := make(myI32s, n, n+spare)
			for j, w := range ws {
				a[j], b[j] = int32(w), int32(w)
			}
			check("[]int32 cap>len", a, proto.TypeSliceInt32, a[:n:n])
			check("named []int32 cap>len", b, proto.TypeSliceInt32, []int32(b[:n:n]))
		}
		{
			a := make([]uint32, n, n+spare)
			b := make(myU32s, n, n+spare)
			for j, w := range ws {
				a[j], b[j] = uint32(w), uint32(w)
			}
			check("[]uint32 cap>len", a, proto.TypeSliceUint32, a[:n:n])
			check("named []uint32 cap>len", b, proto.TypeSliceUint32, []uint32(b[:n:n]))
		}
		{
			a := make([]int64, n, n+spare)
			b := make(myI64s, n, n+spare)
			for j, w := range ws {
				a[j], b[j] = int64(w), int64(w)
			}
			check("[]int64 cap>len", a, proto.TypeSliceInt64, a[:n:n])
			check("named []int64 cap>len", b, proto.TypeSliceInt64, []int64(b[:n:n]))
		}
		{
			a := make([]uint64, n, n+spare)
			b := make(myU64s, n, n+spare)
			copy(a, ws)
			copy(b, ws)
			check("[]uint64 cap>len", a, proto.TypeSliceUint64, a[:n:n])
			check("named []uint64 cap>len", b, proto.TypeSliceUint64, []uint64(b[:n:n]))
		}
		{
			a := make([]float32, n, n+spare)
			b := make(myF32s, n, n+spare)
			for j, w := range ws {
				a[j], b[j] = float32(int32(w))/8, float32(int32(w))/8
			}
			check("[]float32 cap>len", a, proto.TypeSliceFloat32, a[:n:n])
			check("named []float32 cap>len", b, proto.TypeSliceFloat32, []float32(b[:n:n]))
		}
		{
			a := make([]float64, n, n+spare)
			b := make(myF64s, n, n+spare)
			for j, w := range ws {
				a[j], b[j] = float64(int64(w))/8, float64(int64(w))/8
			}
			check("[]float64 cap>len", a, proto.TypeSliceFloat64, a[:n:n])
			check("named []float64 cap>len", b, proto.TypeSliceFloat64, []float64(b[:n:n]))
		}
		{
			a := make([]string, n, n+spare)
			b := make(myStrs, n, n+spare)
			for j := range a {
				a[j] = string(r.utf8ish(3))
				b[j] = a[j]
			}
			check("[]string cap>len", a, proto.TypeSliceString, a[:n:n])
			check("named []string cap>len", b, proto.TypeSliceString, []string(b[:n:n]))
		}
		{
			a := make([]bool, n, n+spare)
			b := make(myBools, n, n+spare)
			want := make([]typedef.Bool, n)
			for j, w := range ws {
				a[j], b[j] = w&1 == 1, w&1 == 1
				if a[j] {
					want[j] = typedef.BoolTrue
				}
			}
			check("[]bool cap>len", a, proto.TypeSliceBool, want)
			check("named []bool cap>len", b, proto.TypeSliceBool, want)
		}
		// named scalars of every kind
		w := r.word()
		check("named int8", myI8(w), proto.TypeInt8, int8(w))
		check("named int16", myI16(w), proto.TypeInt16, int16(w))
		check("named int32", myI32(w), proto.TypeInt32, int32(w))
		check("named int64", myI64(w), proto.TypeInt64, int64(w))
		check("named uint64", myU64(w), proto.TypeUint64, w)
		check("named float64", myF64(float64(int64(w))/16), proto.TypeFloat64, float64(int64(w))/16)
		v := proto.Uint16(uint16(w))
		check("proto.Value itself", v, proto.TypeUint16, uint16(w))
	}
	for _, b := range []typedef.Bool{typedef.BoolFalse, typedef.BoolTrue, typedef.BoolInvalid} {
		check("typedef.Bool", b, proto.TypeBool, b)
	}
	check("[]typedef.Bool", []typedef.Bool{1, 0, 255}, proto.TypeSliceBool, []typedef.Bool{1, 0, 255})
	check("bool false", false, proto.TypeBool, typedef.BoolFalse)
	check("bool true", true, proto.TypeBool, typedef.BoolTrue)
	check("named bool", myBool(true), proto.TypeBool, typedef.BoolTrue)
	check("[]bool", []bool{true, false}, proto.TypeSliceBool, []typedef.Bool{1, 0})
	for _, bad := range []any{int(1), uint(1), []int{1}, []uint{1}, []any{1}, nil, struct{}{}, map[int]int{}, [2]int8{}} {
		if v := proto.Any(bad); v.Type() != proto.TypeInvalid {
			emitJSON("FAIL", "", map[string]any{"kind": "any-unsupported", "in": fmt.Sprintf("%T", bad), "type": v.Type().String()})
		}
		stat("any_cases", 1)
	}
}
