package main

// c12: scaled <-> raw conversions through every route the SDK offers, against the Coq float model.
//
// CASE lines (type c12_case of coq/Run/RunC12.v):
//   CSweep route bt scale offset hashApply hashDiscard devs     complete enumeration of an 8/16-bit base type:
//          digest of all scaled floats, list of (x, result) with result != x
//   CPoints route bt scale offset [(x, apply bits, discard bits, result)]
//   CAcc / CAccSweep mesg field ...                            generated XxxScaled / SetXxxScaled pairs
//   CGeneric signed bits scale offset [(x, Apply bits, Discard bits)]
//   CTime / CToUint32 / CSemi / CToSemi                        kit/datetime, kit/semicircles
// Direct oracle: raw -> scaled -> raw must return the raw value.  A miss that a truncating conversion explains
// (classifier trunc_loses_unit: the reference truncating computation gives exactly the observed value) is
// printed as KNOWN, any other miss as FAIL.

import (
	"bytes"
	"encoding/csv"
	"fmt"
	"math"
	"os"
	"reflect"
	"regexp"
	"sort"
	"strconv"
	"strings"
	"time"

	"github.com/muktihari/fit/cmd/fitconv/fitcsv"
	"github.com/muktihari/fit/decoder"
	"github.com/muktihari/fit/encoder"
	"github.com/muktihari/fit/kit/datetime"
	"github.com/muktihari/fit/kit/scaleoffset"
	"github.com/muktihari/fit/kit/semicircles"
	"github.com/muktihari/fit/profile/basetype"
	"github.com/muktihari/fit/profile/factory"
	"github.com/muktihari/fit/profile/typedef"
	"github.com/muktihari/fit/profile/untyped/fieldnum"
	"github.com/muktihari/fit/profile/untyped/mesgnum"
	"github.com/muktihari/fit/proto"
)

func init() { cmds["c12"] = c12 }

const c12Mask63 = (uint64(1) << 63) - 1

func c12Hash(h, b uint64) uint64 { return (h*1000003 + (b & c12Mask63) + (b >> 63)) & c12Mask63 }

// float bits with every NaN other than the FIT invalid pattern mapped to the canonical quiet NaN
func c12Bits(f float64) uint64 {
	b := math.Float64bits(f)
	if f != f && b != basetype.Float64Invalid {
		return 0x7FF8000000000000
	}
	return b
}

type c12Int interface {
	~int8 | ~uint8 | ~int16 | ~uint16 | ~int32 | ~uint32 | ~int64 | ~uint64
}

// operations of one integer base type, over int64 carriers
type c12Ops struct {
	bt       basetype.BaseType
	bits     int
	signed   bool
	value    func(x int64) proto.Value
	fromVal  func(v proto.Value) (int64, bool)
	sliceVal func(xs []int64) proto.Value
	fromSVal func(v proto.Value) ([]int64, bool)
	anyOf    func(x int64) any
	fromAny  func(a any) (int64, bool)
	anySl    func(xs []int64) any
	fromASl  func(a any) ([]int64, bool)
	apply    func(x int64, s, o float64) float64      // scaleoffset.Apply[T]
	applySl  func(xs []int64, s, o float64) []float64 // scaleoffset.ApplySlice[[]T]
	discSl   func(vs []float64, s, o float64) []int64 // scaleoffset.DiscardSlice[T]
	conv     func(f float64) int64                    // Go's T(f): the conversion a caller of Discard performs
}

func c12MkOps[T c12Int](bt basetype.BaseType, bits int, signed bool, typ, styp proto.Type, ctor func(T) proto.Value, acc func(proto.Value) T,
	sctor func([]T) proto.Value, sacc func(proto.Value) []T) *c12Ops {
	to := func(xs []int64) []T {
		out := make([]T, len(xs))
		for i, x := range xs {
			out[i] = T(x)
		}
		return out
	}
	from := func(ts []T) []int64 {
		out := make([]int64, len(ts))
		for i, t := range ts {
			out[i] = int64(t)
		}
		return out
	}
	return &c12Ops{bt: bt, bits: bits, signed: signed,
		value:    func(x int64) proto.Value { return ctor(T(x)) },
		fromVal:  func(v proto.Value) (int64, bool) { return int64(acc(v)), v.Type() == typ },
		sliceVal: func(xs []int64) proto.Value { return sctor(to(xs)) },
		fromSVal: func(v proto.Value) ([]int64, bool) { return from(sacc(v)), v.Type() == styp },
		anyOf:    func(x int64) any { return T(x) },
		fromAny:  func(a any) (int64, bool) { t, ok := a.(T); return int64(t), ok },
		anySl:    func(xs []int64) any { return to(xs) },
		fromASl:  func(a any) ([]int64, bool) { t, ok := a.([]T); return from(t), ok },
		apply:    func(x int64, s, o float64) float64 { return scaleoffset.Apply(T(x), s, o) },
		applySl:  func(xs []int64, s, o float64) []float64 { return scaleoffset.ApplySlice(to(xs), s, o) },
		discSl:   func(vs []float64, s, o float64) []int64 { return from(scaleoffset.DiscardSlice[T](vs, s, o)) },
		conv:     func(f float64) int64 { return int64(T(f)) },
	}
}

var c12OpsByBase = map[basetype.BaseType]*c12Ops{}

func c12InitOps() {
	add := func(o *c12Ops) { c12OpsByBase[o.bt] = o }
	add(c12MkOps[int8](basetype.Sint8, 8, true, proto.TypeInt8, proto.TypeSliceInt8, proto.Int8, proto.Value.Int8, proto.SliceInt8[[]int8], proto.Value.SliceInt8))
	add(c12MkOps[uint8](basetype.Uint8, 8, false, proto.TypeUint8, proto.TypeSliceUint8, proto.Uint8, proto.Value.Uint8, proto.SliceUint8[[]uint8], proto.Value.SliceUint8))
	add(c12MkOps[int16](basetype.Sint16, 16, true, proto.TypeInt16, proto.TypeSliceInt16, proto.Int16, proto.Value.Int16, proto.SliceInt16[[]int16], proto.Value.SliceInt16))
	add(c12MkOps[uint16](basetype.Uint16, 16, false, proto.TypeUint16, proto.TypeSliceUint16, proto.Uint16, proto.Value.Uint16, proto.SliceUint16[[]uint16], proto.Value.SliceUint16))
	add(c12MkOps[int32](basetype.Sint32, 32, true, proto.TypeInt32, proto.TypeSliceInt32, proto.Int32, proto.Value.Int32, proto.SliceInt32[[]int32], proto.Value.SliceInt32))
	add(c12MkOps[uint32](basetype.Uint32, 32, false, proto.TypeUint32, proto.TypeSliceUint32, proto.Uint32, proto.Value.Uint32, proto.SliceUint32[[]uint32], proto.Value.SliceUint32))
	add(c12MkOps[int64](basetype.Sint64, 64, true, proto.TypeInt64, proto.TypeSliceInt64, proto.Int64, proto.Value.Int64, proto.SliceInt64[[]int64], proto.Value.SliceInt64))
	add(c12MkOps[uint64](basetype.Uint64, 64, false, proto.TypeUint64, proto.TypeSliceUint64, proto.Uint64, proto.Value.Uint64, proto.SliceUint64[[]uint64], proto.Value.SliceUint64))
	// aliases sharing a Go type
	for alias, of := range map[basetype.BaseType]basetype.BaseType{basetype.Enum: basetype.Uint8, basetype.Byte: basetype.Uint8, basetype.Uint8z: basetype.Uint8,
		basetype.Uint16z: basetype.Uint16, basetype.Uint32z: basetype.Uint32, basetype.Uint64z: basetype.Uint64} {
		cp := *c12OpsByBase[of]
		cp.bt = alias
		c12OpsByBase[alias] = &cp
	}
}

func (o *c12Ops) min() int64 {
	if o.signed {
		return -(int64(1) << uint(o.bits-1))
	}
	return 0
}
func (o *c12Ops) max() int64 { // as int64 carrier (uint64 max does not fit: callers of 64-bit use their own lists)
	if o.signed {
		return int64(1)<<uint(o.bits-1) - 1
	}
	if o.bits == 64 {
		return math.MaxInt64
	}
	return int64(1)<<uint(o.bits) - 1
}
func (o *c12Ops) invalid() int64 {
	switch o.bt {
	case basetype.Uint8z, basetype.Uint16z, basetype.Uint32z, basetype.Uint64z:
		return 0
	}
	if !o.signed && o.bits == 64 {
		return -1
	}
	return o.max()
}

// reference truncating round trip (the classifier trunc_loses_unit): plain Go arithmetic, no SDK code
func c12TruncRef(o *c12Ops, x int64, s, off float64) int64 {
	v := float64(x)/s - off
	if !(s == 1 && off == 0) {
		v = (v + off) * s
	}
	return o.conv(v)
}

type c12Triple struct {
	bt       basetype.BaseType
	s, o     float64
	mesg     typedef.MesgNum // a field carrying exactly this triple (field-level triples only)
	field    byte
	hasField bool
}

func (t c12Triple) key() string {
	return fmt.Sprintf("%d/%d/%d", t.bt, math.Float64bits(t.s), math.Float64bits(t.o))
}

// the triples of the factory: fields, sub-fields (with the field's base type), components (in the unsigned
// container of the component's width) -- the same rule as Model/Scale.v all_triples
func c12Triples() []c12Triple {
	var out []c12Triple
	seen := map[string]int{}
	add := func(bt basetype.BaseType, s, o float64, m typedef.MesgNum, f byte, isField bool) {
		if s == 1 && o == 0 {
			return
		}
		t := c12Triple{bt: bt, s: s, o: o}
		if i, ok := seen[t.key()]; ok {
			if isField && !out[i].hasField {
				out[i].mesg, out[i].field, out[i].hasField = m, f, true
			}
			return
		}
		if isField {
			t.mesg, t.field, t.hasField = m, f, true
		}
		seen[t.key()] = len(out)
		out = append(out, t)
	}
	compBase := func(bits byte) basetype.BaseType {
		switch {
		case bits <= 8:
			return basetype.Uint8
		case bits <= 16:
			return basetype.Uint16
		}
		return basetype.Uint32
	}
	for m := 0; m < 65536; m++ {
		for f := 0; f < 256; f++ {
			fld := factory.CreateField(typedef.MesgNum(m), byte(f))
			if fld.FieldBase == nil || fld.Name == factory.NameUnknown {
				continue
			}
			fb := fld.FieldBase
			add(fb.BaseType, fb.Scale, fb.Offset, typedef.MesgNum(m), byte(f), !fb.Array)
			for _, c := range fb.Components {
				add(compBase(c.Bits), c.Scale, c.Offset, 0, 0, false)
			}
			for _, sf := range fb.SubFields {
				add(fb.BaseType, sf.Scale, sf.Offset, 0, 0, false)
				for _, c := range sf.Components {
					add(compBase(c.Bits), c.Scale, c.Offset, 0, 0, false)
				}
			}
		}
	}
	return out
}

type c12Point struct {
	x      int64
	ab, db uint64 // apply / discard bits (when the route exposes them)
	hasA   bool
	hasD   bool
	res    int64
}

func c12OptN(ok bool, v uint64) string {
	if !ok {
		return "None"
	}
	return "(Some " + coqN(v) + ")"
}

func c12PointsTerm(ps []c12Point) string {
	items := make([]string, len(ps))
	for i, p := range ps {
		items[i] = fmt.Sprintf("(%s, %s, %s, %s)", coqZ(p.x), c12OptN(p.hasA, p.ab), c12OptN(p.hasD, p.db), coqZ(p.res))
	}
	return coqList(items)
}

type c12Run struct {
	c            *common
	r            *rng
	validator    encoder.MessageValidator
	fails        int
	knowns       int
	nEval        int
	caseIdx      int
	explicitOnly int // -1: print digests; i: print only case i, explicitly
}

// the routes over a batch of raw values: returns one point per value
type c12Route struct {
	name string
	run  func(ops *c12Ops, t c12Triple, xs []int64) ([]c12Point, error)
}

func (h *c12Run) routes() []c12Route {
	return []c12Route{
		{"RValue", func(ops *c12Ops, t c12Triple, xs []int64) ([]c12Point, error) {
			ps := make([]c12Point, len(xs))
			for i, x := range xs {
				sv := scaleoffset.ApplyValue(ops.value(x), t.s, t.o)
				if sv.Type() != proto.TypeFloat64 {
					return nil, fmt.Errorf("ApplyValue returned %v", sv.Type())
				}
				rv := scaleoffset.DiscardValue(sv, t.bt, t.s, t.o)
				r, ok := ops.fromVal(rv)
				if !ok {
					return nil, fmt.Errorf("DiscardValue returned %v", rv.Type())
				}
				ps[i] = c12Point{x: x, ab: c12Bits(sv.Float64()), hasA: true, res: r}
			}
			return ps, nil
		}},
		{"RAny", func(ops *c12Ops, t c12Triple, xs []int64) ([]c12Point, error) {
			ps := make([]c12Point, len(xs))
			for i, x := range xs {
				sv, ok := scaleoffset.ApplyAny(ops.anyOf(x), t.s, t.o).(float64)
				if !ok {
					return nil, fmt.Errorf("ApplyAny did not return float64")
				}
				r, ok := ops.fromAny(scaleoffset.DiscardAny(sv, t.bt, t.s, t.o))
				if !ok {
					return nil, fmt.Errorf("DiscardAny returned another type")
				}
				ps[i] = c12Point{x: x, ab: c12Bits(sv), hasA: true, res: r}
			}
			return ps, nil
		}},
		{"RSliceValue", func(ops *c12Ops, t c12Triple, xs []int64) ([]c12Point, error) {
			sv := scaleoffset.ApplyValue(ops.sliceVal(xs), t.s, t.o)
			if sv.Type() != proto.TypeSliceFloat64 {
				return nil, fmt.Errorf("ApplyValue(slice) returned %v", sv.Type())
			}
			fs := append([]float64(nil), sv.SliceFloat64()...)
			rs, ok := ops.fromSVal(scaleoffset.DiscardValue(sv, t.bt, t.s, t.o))
			if !ok || len(rs) != len(xs) || len(fs) != len(xs) {
				return nil, fmt.Errorf("DiscardValue(slice) shape")
			}
			ps := make([]c12Point, len(xs))
			for i, x := range xs {
				ps[i] = c12Point{x: x, ab: c12Bits(fs[i]), hasA: true, res: rs[i]}
			}
			return ps, nil
		}},
		{"RSliceAny", func(ops *c12Ops, t c12Triple, xs []int64) ([]c12Point, error) {
			fs, ok := scaleoffset.ApplyAny(ops.anySl(xs), t.s, t.o).([]float64)
			if !ok || len(fs) != len(xs) {
				return nil, fmt.Errorf("ApplyAny(slice) shape")
			}
			keep := append([]float64(nil), fs...)
			rs, ok := ops.fromASl(scaleoffset.DiscardAny(fs, t.bt, t.s, t.o))
			if !ok || len(rs) != len(xs) {
				return nil, fmt.Errorf("DiscardAny(slice) shape")
			}
			ps := make([]c12Point, len(xs))
			for i, x := range xs {
				ps[i] = c12Point{x: x, ab: c12Bits(keep[i]), hasA: true, res: rs[i]}
			}
			return ps, nil
		}},
		{"RSliceGeneric", func(ops *c12Ops, t c12Triple, xs []int64) ([]c12Point, error) {
			fs := ops.applySl(xs, t.s, t.o)
			rs := ops.discSl(fs, t.s, t.o)
			if len(rs) != len(xs) || len(fs) != len(xs) {
				return nil, fmt.Errorf("ApplySlice/DiscardSlice shape")
			}
			ps := make([]c12Point, len(xs))
			for i, x := range xs {
				ps[i] = c12Point{x: x, ab: c12Bits(fs[i]), hasA: true, res: rs[i]}
			}
			return ps, nil
		}},
		{"RValidator", func(ops *c12Ops, t c12Triple, xs []int64) ([]c12Point, error) {
			if !t.hasField {
				return nil, nil
			}
			ps := make([]c12Point, len(xs))
			fields := make([]proto.Field, 1)
			for i, x := range xs {
				fld := factory.CreateField(t.mesg, t.field)
				sv := ops.apply(x, fld.Scale, fld.Offset)
				fld.Value = proto.Float64(sv)
				fields[0] = fld
				mesg := proto.Message{Num: t.mesg, Fields: fields}
				if err := h.validator.Validate(&mesg); err != nil {
					return nil, fmt.Errorf("Validate(mesg %d field %d, %v): %v", t.mesg, t.field, sv, err)
				}
				if len(mesg.Fields) != 1 {
					return nil, fmt.Errorf("Validate dropped the field")
				}
				r, ok := ops.fromVal(mesg.Fields[0].Value)
				if !ok {
					return nil, fmt.Errorf("Validate left a %v value", mesg.Fields[0].Value.Type())
				}
				ps[i] = c12Point{x: x, ab: c12Bits(sv), hasA: true, res: r}
			}
			return ps, nil
		}},
		{"RCsv", h.csvRoute},
	}
}

// FIT -> CSV (scaled columns) -> FIT -> decode, one message per raw value
func (h *c12Run) csvRoute(ops *c12Ops, t c12Triple, xs []int64) ([]c12Point, error) {
	if !t.hasField {
		return nil, nil
	}
	var csvBuf bytes.Buffer
	conv := fitcsv.NewFITToCSVConv(&csvBuf)
	fid := proto.Message{Num: mesgnum.FileId, Fields: []proto.Field{factory.CreateField(mesgnum.FileId, 0).WithValue(typedef.FileActivity)}}
	conv.OnMesg(fid)
	name := ""
	for _, x := range xs {
		fld := factory.CreateField(t.mesg, t.field)
		fld.Value = ops.value(x)
		name = fld.Name
		conv.OnMesg(proto.Message{Num: t.mesg, Fields: []proto.Field{fld}})
	}
	conv.Wait()
	if err := conv.Err(); err != nil {
		return nil, fmt.Errorf("FIT to CSV: %v", err)
	}
	text := csvBuf.Bytes()
	// the scaled text of every data row (for the digest of parsed floats)
	rd := csv.NewReader(bytes.NewReader(text))
	rd.FieldsPerRecord = -1
	recs, err := rd.ReadAll()
	if err != nil {
		return nil, fmt.Errorf("reading the CSV back: %v", err)
	}
	var texts []string
	for _, rec := range recs {
		if len(rec) >= 6 && rec[0] == "Data" && rec[2] != "file_id" {
			for i := 3; i+2 < len(rec); i += 3 {
				if rec[i] == name {
					texts = append(texts, rec[i+1])
				}
			}
		}
	}
	if len(texts) != len(xs) {
		return nil, fmt.Errorf("CSV has %d rows of %s for %d messages", len(texts), name, len(xs))
	}
	var fitBuf bytes.Buffer
	back := fitcsv.NewCSVToFITConv(&fitBuf, bytes.NewReader(text))
	if err := back.Convert(); err != nil {
		return nil, fmt.Errorf("CSV to FIT: %v", err)
	}
	fit, err := decoder.New(bytes.NewReader(fitBuf.Bytes()), decoder.WithNoComponentExpansion()).Decode()
	if err != nil {
		return nil, fmt.Errorf("decoding the converted FIT: %v", err)
	}
	var rs []int64
	for i := range fit.Messages {
		m := &fit.Messages[i]
		if m.Num != t.mesg || (t.mesg == mesgnum.FileId && i == 0) {
			continue
		}
		v := m.FieldValueByNum(t.field)
		r, ok := ops.fromVal(v)
		if !ok {
			return nil, fmt.Errorf("converted FIT carries a %v value", v.Type())
		}
		rs = append(rs, r)
	}
	if len(rs) != len(xs) {
		return nil, fmt.Errorf("converted FIT has %d messages for %d rows", len(rs), len(xs))
	}
	ps := make([]c12Point, len(xs))
	for i, x := range xs {
		if !strings.Contains(texts[i], ".") {
			return nil, fmt.Errorf("scaled column %q of raw %d has no '.', the converter reads it as an integer", texts[i], x)
		}
		f, err := strconv.ParseFloat(texts[i], 64)
		if err != nil {
			return nil, fmt.Errorf("scaled column %q: %v", texts[i], err)
		}
		ps[i] = c12Point{x: x, ab: c12Bits(f), hasA: true, res: rs[i]}
	}
	return ps, nil
}

func (h *c12Run) report(kind string, route string, t c12Triple, x, got, want int64, extra map[string]any) {
	m := map[string]any{"route": route, "base_type": t.bt.String(), "base_type_num": int(t.bt), "scale": t.s, "offset": t.o,
		"scale_bits": math.Float64bits(t.s), "offset_bits": math.Float64bits(t.o), "x": x, "got": got, "want": want}
	for k, v := range extra {
		m[k] = v
	}
	if kind == "KNOWN" {
		h.knowns++
		stat("known_trunc_loses_unit", 1)
		if h.knowns <= 12 {
			emitJSON("KNOWN", "trunc_loses_unit", m)
		}
		return
	}
	h.fails++
	if h.fails <= 20 {
		emitJSON("FAIL", "", m)
	}
}

// direct oracle on a batch of points of one route
func (h *c12Run) oracle(route string, ops *c12Ops, t c12Triple, ps []c12Point) {
	for _, p := range ps {
		h.nEval++
		if p.res == p.x {
			continue
		}
		if ref := c12TruncRef(ops, p.x, t.s, t.o); ref != p.x && ref == p.res {
			h.report("KNOWN", route, t, p.x, p.res, p.x, nil)
		} else {
			h.report("FAIL", route, t, p.x, p.res, p.x, map[string]any{"kind": "round trip", "truncating_reference": ref})
		}
	}
}

func c12DevsTerm(ps []c12Point) string {
	var items []string
	for _, p := range ps {
		if p.res != p.x {
			items = append(items, fmt.Sprintf("(%s, %s)", coqZ(p.x), coqZ(p.res)))
		}
	}
	return coqList(items)
}

func c12All(ops *c12Ops) []int64 {
	xs := make([]int64, 0, 1<<uint(ops.bits))
	for x := ops.min(); x <= ops.max(); x++ {
		xs = append(xs, x)
	}
	return xs
}

// ---------------------------------------------------------------------------------------- generated raw values
// 63-bit linear congruential generator, reproduced in Coq (Run/RunC12.v gen_values): cases carry (seed, count)
// and digests instead of explicit lists, because Coq reads numerals slowly.
type c12Gen struct{ s uint64 }

func (g *c12Gen) next() uint64 {
	g.s = (g.s*6364136223846793005 + 1442695040888963407) & c12Mask63
	return g.s
}

// n values of a `bits`-wide type (carrier int64; uint64 values are carried by their two's complement image)
func c12GenValues(signed bool, bits int, seed uint64, n int) []int64 {
	g := &c12Gen{seed & c12Mask63}
	out := make([]int64, n)
	for i := range out {
		var u uint64
		if bits <= 32 {
			u = g.next() >> uint(63-bits)
		} else {
			hi := g.next() >> 31
			lo := g.next() >> 31
			u = hi<<32 | lo
		}
		if signed {
			out[i] = int64(u ^ (uint64(1) << uint(bits-1))) // u - 2^(bits-1) as a `bits`-wide two's complement number
			if bits < 64 {
				out[i] = int64(u) - int64(1)<<uint(bits-1)
			}
		} else {
			out[i] = int64(u)
		}
	}
	return out
}

func (o *c12Ops) coqX(x int64) string {
	if !o.signed && o.bits == 64 {
		return strconv.FormatUint(uint64(x), 10) + "%Z"
	}
	return coqZ(x)
}

func c12HashZ(h uint64, r int64) uint64 { return (h*1000003 + (uint64(r) & c12Mask63)) & c12Mask63 }

func c12ZList(ops *c12Ops, xs []int64) string {
	items := make([]string, len(xs))
	for i, x := range xs {
		items[i] = ops.coqX(x)
	}
	return coqList(items)
}

// a case is printed as a digest; `--explicit i` prints case i alone with every value spelled out (for diagnosis)
func (h *c12Run) emitCase(digest string, explicit func() string) {
	idx := h.caseIdx
	h.caseIdx++
	switch {
	case h.explicitOnly < 0:
		emit("CASE", digest)
	case h.explicitOnly == idx:
		emit("CASE", explicit())
	}
}

// boundary raw values of a 32-bit type
func c12Boundaries32(ops *c12Ops) []int64 {
	set := map[int64]bool{}
	add := func(x int64) {
		if x >= ops.min() && x <= ops.max() {
			set[x] = true
		}
	}
	for _, x := range []int64{0, 1, 2, 3, 29, 57, 58, 16039, ops.max(), ops.max() - 1, ops.max() - 2, ops.min(), ops.min() + 1, math.MaxInt32, math.MaxInt32 - 1, math.MaxInt32 + 1} {
		add(x)
		add(-x)
	}
	for k := uint(1); k <= 32; k++ {
		for _, d := range []int64{-1, 0, 1} {
			add(int64(1)<<k + d)
			add(-(int64(1) << k) + d)
		}
	}
	out := make([]int64, 0, len(set))
	for x := range set {
		out = append(out, x)
	}
	sort.Slice(out, func(i, j int) bool { return out[i] < out[j] })
	return out
}

func (h *c12Run) routeError(rt string, t c12Triple, err error) {
	emitJSON("FAIL", "", map[string]any{"kind": "route error", "route": rt, "base_type": t.bt.String(), "scale": t.s, "offset": t.o, "error": err.Error()})
	h.fails++
}

// points of one route: explicit boundary values `xs` followed by `n` generated ones
func (h *c12Run) pointsCase(rt c12Route, ops *c12Ops, t c12Triple, xs []int64, seed uint64, n int) bool {
	in := append(append([]int64(nil), xs...), c12GenValues(ops.signed, ops.bits, seed, n)...)
	var all []c12Point
	for i := 0; i < len(in); i += 4096 { // slices of bounded length
		j := i + 4096
		if j > len(in) {
			j = len(in)
		}
		ps, err := rt.run(ops, t, in[i:j])
		if err != nil {
			h.routeError(rt.name, t, err)
			return false
		}
		if ps == nil {
			return false
		}
		all = append(all, ps...)
	}
	h.oracle(rt.name, ops, t, all)
	var ha, hr uint64
	for _, p := range all {
		ha = c12Hash(ha, p.ab)
		hr = c12HashZ(hr, p.res)
	}
	h.emitCase(fmt.Sprintf("CPointsH %s %d %d %d %s %d %d %d %d", rt.name, t.bt, math.Float64bits(t.s), math.Float64bits(t.o), c12ZList(ops, xs), seed&c12Mask63, n, ha, hr),
		func() string {
			return fmt.Sprintf("CPoints %s %d %d %d %s", rt.name, t.bt, math.Float64bits(t.s), math.Float64bits(t.o), c12PointsTerm(all))
		})
	stat("points_"+rt.name, len(all))
	return true
}

func (h *c12Run) genericCase(ops *c12Ops, s, o float64, xs []int64, seed uint64, n int) {
	in := append(append([]int64(nil), xs...), c12GenValues(ops.signed, ops.bits, seed, n)...)
	var ha, hd uint64
	items := make([]string, 0, len(in))
	for _, x := range in {
		v := ops.apply(x, s, o)
		d := scaleoffset.Discard(v, s, o)
		ha = c12Hash(ha, c12Bits(v))
		hd = c12Hash(hd, c12Bits(d))
		if h.explicitOnly >= 0 {
			items = append(items, fmt.Sprintf("(%s, %d, %d)", ops.coqX(x), c12Bits(v), c12Bits(d)))
		}
		h.nEval++
	}
	h.emitCase(fmt.Sprintf("CGenericH %s %d %d %d %s %d %d %d %d", coqBool(ops.signed), ops.bits, math.Float64bits(s), math.Float64bits(o), c12ZList(ops, xs), seed&c12Mask63, n, ha, hd),
		func() string {
			return fmt.Sprintf("CGeneric %s %d %d %d %s", coqBool(ops.signed), ops.bits, math.Float64bits(s), math.Float64bits(o), coqList(items))
		})
	stat("points_generic", len(in))
}

func c12(args []string) {
	c, fs := commonFlags("c12", args)
	accPath := fs.String("accessors", "", "path of coq/gen/ScaledAccessors.v (the translated accessor list)")
	explicit := fs.Int("explicit", -1, "print only this case, with every value spelled out")
	fs.Parse(args)
	thorough := c.tier == "thorough"
	c12InitOps()
	h := &c12Run{c: c, r: newRng(c.seed), validator: encoder.NewMessageValidator(encoder.ValidatorWithPreserveInvalidValues()), explicitOnly: *explicit}
	triples := c12Triples()
	stat("triples", len(triples))
	routes := h.routes()
	samples := 0

	// ---- complete sweeps of the 8/16-bit triples, every route
	for _, t := range triples {
		ops := c12OpsByBase[t.bt]
		if ops == nil {
			emitJSON("FAIL", "", map[string]any{"kind": "scaled field of a non-integer base type", "base_type": t.bt.String(), "scale": t.s, "offset": t.o})
			h.fails++
			continue
		}
		if ops.bits > 16 {
			continue
		}
		xs := c12All(ops)
		for _, rt := range routes {
			if rt.name == "RCsv" && !thorough && ops.bits == 16 { // the CSV round trip costs most: the quick tier takes 6000 generated values
				h.pointsCase(rt, ops, t, []int64{ops.min(), ops.min() + 1, 29, ops.max() - 1, ops.max()}, h.r.u64(), 6000)
				continue
			}
			ps, err := rt.run(ops, t, xs)
			if err != nil {
				h.routeError(rt.name, t, err)
				continue
			}
			if ps == nil {
				continue
			}
			h.oracle(rt.name, ops, t, ps)
			stat("sweep_"+rt.name, 1)
			stat("sweep_values", len(ps))
			var ha, hd uint64
			nd := 0
			for _, p := range ps {
				ha = c12Hash(ha, p.ab)
				if p.res != p.x {
					nd++
					hd = c12HashZ(c12HashZ(hd, p.x), p.res)
				}
			}
			h.emitCase(fmt.Sprintf("CSweepH %s %d %d %d %d %d %d", rt.name, t.bt, math.Float64bits(t.s), math.Float64bits(t.o), ha, nd, hd),
				func() string {
					return fmt.Sprintf("CSweep %s %d %d %d (Some %d) None %s", rt.name, t.bt, math.Float64bits(t.s), math.Float64bits(t.o), ha, c12DevsTerm(ps))
				})
			if samples < 2 && rt.name == "RValue" && ops.bits == 16 && nd > 0 {
				emit("SAMPLE", fmt.Sprintf("sweep route=%s base=%s scale=%v offset=%v: %d raw values, %d do not come back", rt.name, t.bt, t.s, t.o, len(ps), nd))
				samples++
			}
		}
		// the generic helpers Apply[T] / Discard: digest of both floats over the whole type
		var ha, hd uint64
		for _, x := range xs {
			v := ops.apply(x, t.s, t.o)
			ha = c12Hash(ha, c12Bits(v))
			hd = c12Hash(hd, c12Bits(scaleoffset.Discard(v, t.s, t.o)))
		}
		term := fmt.Sprintf("CGenericSweep %d %d %d %d %d", t.bt, math.Float64bits(t.s), math.Float64bits(t.o), ha, hd)
		h.emitCase(term, func() string { return term })
		stat("sweep_generic", 1)
	}

	// ---- 32-bit triples: boundaries and generated values, every route
	n32, rounds := 2500, 1
	if thorough {
		n32, rounds = 20000, 10
	}
	for _, t := range triples {
		ops := c12OpsByBase[t.bt]
		if ops == nil || ops.bits != 32 {
			continue
		}
		bnd := c12Boundaries32(ops)
		for _, rt := range routes {
			for k := 0; k < rounds; k++ {
				n := n32
				if rt.name == "RCsv" && !thorough {
					n = 800
				}
				b := bnd
				if k > 0 {
					b = nil
				}
				if !h.pointsCase(rt, ops, t, b, h.r.u64(), n) {
					break
				}
			}
		}
		h.genericCase(ops, t.s, t.o, bnd, h.r.u64(), n32)
	}

	h.csvSubFields()
	h.validatorAcrossSequences()
	h.unscaledAnd64()
	h.scaled64()
	if *accPath != "" {
		h.accessors(*accPath, thorough)
	} else {
		stat("accessors_skipped_no_list", 1)
	}
	h.timeAndAngles(thorough)
	stat("oracle_evaluations", h.nEval)
	stat("oracle_fail", h.fails)
	stat("cases", h.caseIdx)
}

// validatorAcrossSequences: the encoder validator's restoration of float-valued developer fields uses the scale the CURRENT file
// declares -- a chain of files that declare the same developer field with different scales, through the batch encoder and
// through a stream encoder that lives across the files; every raw value comes back as written.
func (h *c12Run) validatorAcrossSequences() {
	loadFactory()
	mkFile := func(scale uint8, raw uint16) []proto.Message {
		msgs := []proto.Message{fileIdMesg(h.r)}
		dd := proto.Message{Num: mesgnum.DeveloperDataId}
		f := factory.CreateField(mesgnum.DeveloperDataId, fieldnum.DeveloperDataIdDeveloperDataIndex)
		f.Value = proto.Uint8(0)
		dd.Fields = append(dd.Fields, f)
		msgs = append(msgs, dd)
		fd := proto.Message{Num: mesgnum.FieldDescription}
		add := func(num byte, v proto.Value) {
			f := factory.CreateField(mesgnum.FieldDescription, num)
			f.Value = v
			fd.Fields = append(fd.Fields, f)
		}
		add(fieldnum.FieldDescriptionDeveloperDataIndex, proto.Uint8(0))
		add(fieldnum.FieldDescriptionFieldDefinitionNumber, proto.Uint8(0))
		add(fieldnum.FieldDescriptionFitBaseTypeId, proto.Uint8(uint8(basetype.Uint16)))
		add(fieldnum.FieldDescriptionFieldName, proto.SliceString([]string{"depth"}))
		add(fieldnum.FieldDescriptionScale, proto.Uint8(scale))
		add(fieldnum.FieldDescriptionOffset, proto.Int8(0))
		msgs = append(msgs, fd)
		m := proto.Message{Num: mesgnum.Record}
		hr := factory.CreateField(mesgnum.Record, fieldnum.RecordHeartRate)
		hr.Value = proto.Uint8(60)
		m.Fields = append(m.Fields, hr)
		m.DeveloperFields = append(m.DeveloperFields, proto.DeveloperField{Num: 0, DeveloperDataIndex: 0, Value: proto.Float64(float64(raw) / float64(scale))})
		return append(msgs, m)
	}
	for _, sc := range [][]uint8{{100, 10}, {10, 100}, {1, 100}, {100, 1}, {2, 4, 8}, {10, 10}} {
		for _, raw := range []uint16{0, 1, 8, 120, 1000, 12800, 40000} { // multiples that are exact in binary for the power-of-two scales, small for the others
			var files []encFile
			for _, s := range sc {
				files = append(files, encFile{hsize: 14, msgs: mkFile(s, raw)})
			}
			ec := encCfg{headerSize: 14, protoVer: proto.V2}
			for _, stream := range []bool{false, true} {
				res := runEncode(ec, files, 3, 64, stream, -1, 0, nil)
				h.nEval++
				stat("validator_route_across_sequences", 1)
				if res.panicked != nil || anyTrue(res.errs) || len(res.errs) != len(files) {
					emitJSON("FAIL", "", map[string]any{"kind": "chain of files redeclaring a scaled developer field is rejected", "scales": fmt.Sprint(sc), "raw": raw, "stream": stream, "errs": res.errs, "panic": fmt.Sprint(res.panicked)})
					h.fails++
					continue
				}
				dres := decodeBytes(res.data, true, false)
				if dres.err != nil || len(dres.fits) != len(files) {
					emitJSON("FAIL", "", map[string]any{"kind": "chain of files redeclaring a scaled developer field does not decode", "scales": fmt.Sprint(sc), "raw": raw, "stream": stream, "err": fmt.Sprint(dres.err)})
					h.fails++
					continue
				}
				for k, fit := range dres.fits {
					last := fit.Messages[len(fit.Messages)-1]
					got := int64(-1)
					if len(last.DeveloperFields) == 1 {
						got = int64(last.DeveloperFields[0].Value.Uint16())
					}
					// the conversion may lose one unit toward zero (C12's partial theorem); anything else is the wrong scale
					if got != int64(raw) && got != int64(raw)-1 {
						emitJSON("FAIL", "", map[string]any{"kind": "scaled developer field restored with another file's scale", "scales": fmt.Sprint(sc), "file": k, "raw": raw, "got": got, "stream": stream})
						h.fails++
						break
					}
				}
			}
		}
	}
}

// csvRawRoundTrip: messages of number mesg built from each x by mk, FIT -> CSV -> FIT; the raw value of field num in each
// message that comes back.
func csvRawRoundTrip(ops *c12Ops, mesg typedef.MesgNum, num byte, xs []int64, mk func(x int64) proto.Message) ([]int64, string, error) {
	var csvBuf bytes.Buffer
	conv := fitcsv.NewFITToCSVConv(&csvBuf)
	conv.OnMesg(proto.Message{Num: mesgnum.FileId, Fields: []proto.Field{factory.CreateField(mesgnum.FileId, 0).WithValue(typedef.FileActivity)}})
	for _, x := range xs {
		conv.OnMesg(mk(x))
	}
	conv.Wait()
	if err := conv.Err(); err != nil {
		return nil, "", fmt.Errorf("FIT to CSV: %v", err)
	}
	text := append([]byte(nil), csvBuf.Bytes()...)
	var fitBuf bytes.Buffer
	if err := fitcsv.NewCSVToFITConv(&fitBuf, bytes.NewReader(text)).Convert(); err != nil {
		return nil, string(text), fmt.Errorf("CSV to FIT: %v", err)
	}
	fit, err := decoder.New(bytes.NewReader(fitBuf.Bytes()), decoder.WithNoComponentExpansion()).Decode()
	if err != nil {
		return nil, string(text), fmt.Errorf("decoding the converted FIT: %v", err)
	}
	var rs []int64
	for i := range fit.Messages {
		m := &fit.Messages[i]
		if m.Num != mesg || (mesg == mesgnum.FileId && i == 0) {
			continue
		}
		r, ok := ops.fromVal(m.FieldValueByNum(num))
		if !ok {
			r = ops.invalid() // omitted (or of another type): read as "no value"
		}
		rs = append(rs, r)
	}
	if len(rs) != len(xs) {
		return nil, string(text), fmt.Errorf("converted FIT has %d messages for %d rows", len(rs), len(xs))
	}
	return rs, string(text), nil
}

// csvSubFields: a field printed under the name of one of its sub-fields (the reference field of the sub-field's map is in the
// message) comes back from the CSV as the same raw value as when it is printed under its own name -- every dynamic field of
// the profile x every sub-field with a map, boundary and generated raw values.
func (h *c12Run) csvSubFields() {
	loadFactory()
	for _, km := range knownMesgs {
		for _, fnum := range km.fields {
			fld := factory.CreateField(km.num, fnum)
			ops := c12OpsByBase[fld.BaseType]
			if ops == nil || fld.Array || len(fld.SubFields) == 0 {
				continue
			}
			for si, sf := range fld.SubFields {
				if len(sf.Maps) == 0 {
					continue
				}
				mp := sf.Maps[h.r.intn(len(sf.Maps))]
				ref := factory.CreateField(km.num, mp.RefFieldNum)
				rops := c12OpsByBase[ref.BaseType]
				if rops == nil || ref.Array || ref.Num == fld.Num {
					continue
				}
				ref.Value = rops.value(mp.RefFieldValue)
				var xs []int64
				for _, x := range append([]int64{ops.min(), ops.min() + 1, 1, 2, 3, 4, 5, 29, 12345, ops.max() - 1, ops.max()}, c12GenValues(ops.signed, ops.bits, h.r.u64(), 12)...) {
					if x >= ops.min() && x <= ops.max() && x != ops.invalid() {
						xs = append(xs, x)
					}
				}
				own, _, err1 := csvRawRoundTrip(ops, km.num, fnum, xs, func(x int64) proto.Message {
					f := factory.CreateField(km.num, fnum)
					f.Value = ops.value(x)
					return proto.Message{Num: km.num, Fields: []proto.Field{f}}
				})
				sub, text, err2 := csvRawRoundTrip(ops, km.num, fnum, xs, func(x int64) proto.Message {
					f := factory.CreateField(km.num, fnum)
					f.Value = ops.value(x)
					return proto.Message{Num: km.num, Fields: []proto.Field{ref, f}}
				})
				stat("csv_subfield_owners", 1)
				if err1 != nil || err2 != nil {
					if (err1 == nil) != (err2 == nil) {
						emitJSON("FAIL", "", map[string]any{"kind": "csv sub-field column: conversion fails only with (or only without) the reference field", "mesg": km.num, "field": fnum, "sub_field": si,
							"err_own_name": fmt.Sprint(err1), "err_sub_field_name": fmt.Sprint(err2)})
						h.fails++
					}
					continue
				}
				if !strings.Contains(text, sf.Name) {
					stat("csv_subfield_not_substituted", 1)
				}
				for i, x := range xs {
					h.nEval++
					if own[i] != sub[i] {
						emitJSON("FAIL", "", map[string]any{"kind": "csv sub-field column restores another raw value than the field's own column", "mesg": km.num, "field": fnum, "field_name": fld.Name,
							"sub_field": sf.Name, "reference_field": ref.Num, "reference_value": mp.RefFieldValue, "raw": x, "back_under_own_name": own[i], "back_under_sub_field_name": sub[i],
							"field_scale": fld.Scale, "sub_field_scale": sf.Scale})
						h.fails++
						break
					}
				}
			}
		}
	}
}

// scale 1 / offset 0 (ApplyValue leaves the value alone) and the 64-bit types (sampled)
func (h *c12Run) unscaledAnd64() {
	for _, bt := range []basetype.BaseType{basetype.Sint8, basetype.Uint8, basetype.Sint16, basetype.Uint16, basetype.Sint32, basetype.Uint32, basetype.Sint64, basetype.Uint64,
		basetype.Enum, basetype.Byte, basetype.Uint8z, basetype.Uint16z, basetype.Uint32z, basetype.Uint64z} {
		ops := c12OpsByBase[bt]
		t := c12Triple{bt: bt, s: 1, o: 0}
		var bnd []int64
		for _, x := range []int64{0, 1, -1, 2, ops.max(), ops.max() - 1, ops.min(), ops.min() + 1, 1<<53 - 1, 1 << 53, 1<<53 + 1, -(1 << 53) - 1, 1<<62 + 1} {
			if x >= ops.min() && x <= ops.max() {
				bnd = append(bnd, x)
			}
		}
		if !ops.signed && ops.bits == 64 { // carried as two's complement images
			for _, u := range []uint64{math.MaxUint64, 1 << 63, 1<<63 + 1, math.MaxUint64 - 1023, 1<<63 + 1024, 1<<63 + 1025} {
				bnd = append(bnd, int64(u))
			}
		}
		seed := h.r.u64()
		xs := append(append([]int64(nil), bnd...), c12GenValues(ops.signed, ops.bits, seed, 300)...)
		for _, x := range xs {
			h.nEval++
			// ApplyValue / ApplyAny do not touch an unscaled value at all
			if av := scaleoffset.ApplyValue(ops.value(x), 1, 0); av.Type() == proto.TypeFloat64 {
				h.report("FAIL", "RValue", t, x, 0, x, map[string]any{"kind": "ApplyValue converts an unscaled value to float64"})
			} else if r, ok := ops.fromVal(av); !ok || r != x {
				h.report("FAIL", "RValue", t, x, r, x, map[string]any{"kind": "ApplyValue changes an unscaled value"})
			}
			if r, ok := ops.fromAny(scaleoffset.ApplyAny(ops.anyOf(x), 1, 0)); !ok || r != x {
				h.report("FAIL", "RAny", t, x, r, x, map[string]any{"kind": "ApplyAny changes an unscaled value"})
			}
			// the generic helper has no such guard: float64(x)/1 - 0; exactly representable values come back through every Discard*
			exact := x > -(1<<53) && x < 1<<53 && !(!ops.signed && ops.bits == 64 && x < 0)
			if exact && bt != basetype.Enum { // (Discard* have no enum case)
				v := ops.apply(x, 1, 0)
				if r, ok := ops.fromVal(scaleoffset.DiscardValue(proto.Float64(v), bt, 1, 0)); !ok || r != x {
					h.report("FAIL", "RValue", t, x, r, x, map[string]any{"kind": "DiscardValue(float64(x), scale 1, offset 0)"})
				}
				if r, ok := ops.fromAny(scaleoffset.DiscardAny(v, bt, 1, 0)); !ok || r != x {
					h.report("FAIL", "RAny", t, x, r, x, map[string]any{"kind": "DiscardAny(float64(x), scale 1, offset 0)"})
				}
				if rs := ops.discSl([]float64{v}, 1, 0); len(rs) != 1 || rs[0] != x {
					h.report("FAIL", "RSliceGeneric", t, x, rs[0], x, map[string]any{"kind": "DiscardSlice(float64(x), scale 1, offset 0)"})
				}
			}
		}
		h.genericCase(ops, 1, 0, bnd, seed, 300)
		stat("unscaled_points", len(xs))
	}
}

// the 64-bit element types under the scale / offset pairs of the profile (no profile field has them, the helpers accept them):
// raw values below 2^32 come back exactly through every Discard* form, scalar and slice (the rounding helper covers every
// integer element type; the values are inside the range of the 32-bit theorem)
func (h *c12Run) scaled64() {
	pairs := [][2]float64{{100, 0}, {1000, 0}, {5, 500}, {2, 0}, {10, 0}, {128, 0}, {1000, 0}, {16, 0}, {4, 0}, {25, 0}}
	for _, bt := range []basetype.BaseType{basetype.Sint64, basetype.Uint64, basetype.Uint64z} {
		ops := c12OpsByBase[bt]
		for _, so := range pairs {
			t := c12Triple{bt: bt, s: so[0], o: so[1]}
			xs := []int64{0, 1, 2, 28, 29, 57, 58, 113, 114, 1000, 65535, 65536, 1<<31 - 1, 1 << 31, 1<<32 - 1}
			xs = append(xs, c12GenValues(false, 32, h.r.u64(), 200)...)
			if ops.signed {
				for _, x := range []int64{-1, -29, -57, -113, -65535, -(1 << 31)} {
					xs = append(xs, x)
				}
			}
			for _, x := range xs {
				h.nEval++
				v := ops.apply(x, so[0], so[1])
				if r, ok := ops.fromVal(scaleoffset.DiscardValue(proto.Float64(v), bt, so[0], so[1])); !ok || r != x {
					h.report("FAIL", "RValue", t, x, r, x, map[string]any{"kind": "DiscardValue(scalar float64) on a 64-bit target"})
					break
				}
				sv := scaleoffset.DiscardValue(proto.SliceFloat64([]float64{v, v}), bt, so[0], so[1])
				if rs, ok := ops.fromSVal(sv); !ok || len(rs) != 2 || rs[0] != x || rs[1] != x {
					h.report("FAIL", "RValue", t, x, -1, x, map[string]any{"kind": "DiscardValue([]float64) on a 64-bit target", "got": fmt.Sprint(rs)})
					break
				}
				if r, ok := ops.fromAny(scaleoffset.DiscardAny(v, bt, so[0], so[1])); !ok || r != x {
					h.report("FAIL", "RAny", t, x, r, x, map[string]any{"kind": "DiscardAny(float64) on a 64-bit target"})
					break
				}
				if rs := ops.discSl([]float64{v}, so[0], so[1]); len(rs) != 1 || rs[0] != x {
					h.report("FAIL", "RSliceGeneric", t, x, rs[0], x, map[string]any{"kind": "DiscardSlice on a 64-bit element type"})
					break
				}
			}
			stat("scaled_64bit_points", len(xs))
		}
	}
}

// ------------------------------------------------------------------------------------------------ accessors

type c12Accessor struct {
	mesg, field      string
	mesgNum          int
	fieldNum         int
	kind             string
	fixedN           int
	bt               basetype.BaseType
	gs, goff, so, ss float64
}

var c12AccRe = regexp.MustCompile(`mkacc "(\w+)" "(\w+)" (\d+) (\d+) (AScalar|ASlice|\(AFixed (\d+)\)) (\d+) (\d+) (\d+) (\d+) (\d+) (Trunc|Round)`)

func c12ReadAccessors(path string) ([]c12Accessor, error) {
	b, err := os.ReadFile(path)
	if err != nil {
		return nil, err
	}
	var out []c12Accessor
	for _, m := range c12AccRe.FindAllStringSubmatch(string(b), -1) {
		a := c12Accessor{mesg: m[1], field: m[2], kind: m[5]}
		a.mesgNum, _ = strconv.Atoi(m[3])
		a.fieldNum, _ = strconv.Atoi(m[4])
		if m[6] != "" {
			a.kind = "AFixed"
			a.fixedN, _ = strconv.Atoi(m[6])
		}
		bt, _ := strconv.Atoi(m[7])
		a.bt = basetype.BaseType(bt)
		fl := func(s string) float64 { u, _ := strconv.ParseUint(s, 10, 64); return math.Float64frombits(u) }
		a.gs, a.goff, a.so, a.ss = fl(m[8]), fl(m[9]), fl(m[10]), fl(m[11])
		out = append(out, a)
	}
	return out, nil
}

// runs getter then setter on the struct for a batch of element values; returns getter bits and restored values
func c12AccessorBatch(a c12Accessor, ops *c12Ops, obj reflect.Value, xs []int64) (gbits []uint64, res []int64, err error) {
	defer func() {
		if r := recover(); r != nil {
			err = fmt.Errorf("panic: %v", r)
		}
	}()
	fld := obj.Elem().FieldByName(a.field)
	get := obj.MethodByName(a.field + "Scaled")
	set := obj.MethodByName("Set" + a.field + "Scaled")
	if !fld.IsValid() || !get.IsValid() || !set.IsValid() {
		return nil, nil, fmt.Errorf("struct field or accessor methods not found")
	}
	setInt := func(v reflect.Value, x int64) {
		if ops.signed {
			v.SetInt(x)
		} else {
			v.SetUint(uint64(x))
		}
	}
	getInt := func(v reflect.Value) int64 {
		if ops.signed {
			return v.Int()
		}
		return int64(v.Uint())
	}
	switch a.kind {
	case "AScalar":
		for _, x := range xs {
			setInt(fld, x)
			out := get.Call(nil)[0]
			gbits = append(gbits, c12Bits(out.Float()))
			setInt(fld, ^x&0x55) // a value the setter has to overwrite
			set.Call([]reflect.Value{out})
			res = append(res, getInt(fld))
		}
	case "ASlice":
		sl := reflect.MakeSlice(fld.Type(), len(xs), len(xs))
		for i, x := range xs {
			setInt(sl.Index(i), x)
		}
		fld.Set(sl)
		out := get.Call(nil)[0]
		if out.Len() != len(xs) {
			return nil, nil, fmt.Errorf("getter returned %d elements for %d", out.Len(), len(xs))
		}
		for i := range xs {
			gbits = append(gbits, c12Bits(out.Index(i).Float()))
		}
		fld.Set(reflect.Zero(fld.Type()))
		set.Call([]reflect.Value{out})
		if fld.Len() != len(xs) {
			return nil, nil, fmt.Errorf("setter stored %d elements for %d", fld.Len(), len(xs))
		}
		for i := range xs {
			res = append(res, getInt(fld.Index(i)))
		}
	case "AFixed":
		for i := 0; i < len(xs); i += a.fixedN {
			n := a.fixedN
			for k := 0; k < n; k++ {
				x := ops.invalid()
				if i+k < len(xs) {
					x = xs[i+k]
				}
				setInt(fld.Index(k), x)
			}
			out := get.Call(nil)[0]
			for k := 0; k < n && i+k < len(xs); k++ {
				gbits = append(gbits, c12Bits(out.Index(k).Float()))
			}
			for k := 0; k < n; k++ {
				setInt(fld.Index(k), 0x55)
			}
			set.Call([]reflect.Value{out})
			for k := 0; k < n && i+k < len(xs); k++ {
				res = append(res, getInt(fld.Index(k)))
			}
		}
	}
	return gbits, res, nil
}

func (h *c12Run) accessors(path string, thorough bool) {
	accs, err := c12ReadAccessors(path)
	if err != nil || len(accs) == 0 {
		emitJSON("FAIL", "", map[string]any{"kind": "accessor list unreadable", "path": path, "error": fmt.Sprint(err)})
		h.fails++
		return
	}
	if len(c12Registry) == 0 {
		stat("accessors_skipped_no_registry", len(accs))
		return
	}
	sweptTriple := map[string]bool{}
	for _, a := range accs {
		a := a
		ctor := c12Registry[a.mesg]
		ops := c12OpsByBase[a.bt]
		t := c12Triple{bt: a.bt, s: a.gs, o: a.goff}
		if ctor == nil || ops == nil {
			emitJSON("FAIL", "", map[string]any{"kind": "accessor without constructor or integer base type", "mesg": a.mesg, "field": a.field})
			h.fails++
			continue
		}
		obj := reflect.ValueOf(ctor())
		extra := map[string]any{"mesg": a.mesg, "field": a.field, "getter": a.field + "Scaled", "setter": "Set" + a.field + "Scaled", "mesg_num": a.mesgNum, "field_num": a.fieldNum}
		check := func(xs []int64) ([]uint64, []int64, bool) {
			gb, rs, err := c12AccessorBatch(a, ops, obj, xs)
			if err != nil || len(rs) != len(xs) {
				m := map[string]any{"kind": "accessor error", "error": fmt.Sprint(err)}
				for k, v := range extra {
					m[k] = v
				}
				emitJSON("FAIL", "", m)
				h.fails++
				return nil, nil, false
			}
			for i, x := range xs {
				h.nEval++
				if rs[i] == x {
					continue
				}
				if ref := c12TruncRef(ops, x, a.gs, a.goff); ref != x && ref == rs[i] && x != ops.invalid() {
					h.report("KNOWN", "RAccessor", t, x, rs[i], x, extra)
				} else {
					e := map[string]any{"kind": "SetXxxScaled(XxxScaled()) round trip", "truncating_reference": ref}
					for k, v := range extra {
						e[k] = v
					}
					h.report("FAIL", "RAccessor", t, x, rs[i], x, e)
				}
			}
			return gb, rs, true
		}
		var bnd []int64
		n := 40
		if ops.bits <= 16 {
			all := c12All(ops)
			if thorough || !sweptTriple[t.key()] || ops.bits == 8 {
				sweptTriple[t.key()] = true
				gb, rs, ok := check(all)
				if !ok {
					continue
				}
				var hg, hd uint64
				nd := 0
				for i, x := range all {
					hg = c12Hash(hg, gb[i])
					if rs[i] != x {
						nd++
						hd = c12HashZ(c12HashZ(hd, x), rs[i])
					}
				}
				h.emitCase(fmt.Sprintf("CAccSweepH \"%s\" \"%s\" %d %d %d", a.mesg, a.field, hg, nd, hd), func() string {
					var devs []string
					for i, x := range all {
						if rs[i] != x {
							devs = append(devs, fmt.Sprintf("(%s, %s)", coqZ(x), coqZ(rs[i])))
						}
					}
					return fmt.Sprintf("CAccSweep \"%s\" \"%s\" %d %s", a.mesg, a.field, hg, coqList(devs))
				})
				stat("accessor_full_sweeps", 1)
				continue
			}
			// oracle over every 8th value; model over boundaries and generated values
			var sub []int64
			for i := h.r.intn(8); i < len(all); i += 8 {
				sub = append(sub, all[i])
			}
			if _, _, ok := check(sub); !ok {
				continue
			}
			bnd = []int64{ops.min(), ops.min() + 1, 0, 1, 29, 57, ops.max() - 1, ops.max()}
			if ops.signed {
				bnd = append(bnd, -1, -29)
			}
		} else {
			bnd = c12Boundaries32(ops)
			n = 600
			if thorough {
				n = 20000
			}
		}
		seed := h.r.u64()
		xs := append(append([]int64(nil), bnd...), c12GenValues(ops.signed, ops.bits, seed, n)...)
		gb, rs, ok := check(xs)
		if !ok {
			continue
		}
		var hg, hr uint64
		for i := range xs {
			hg = c12Hash(hg, gb[i])
			hr = c12HashZ(hr, rs[i])
		}
		h.emitCase(fmt.Sprintf("CAccH \"%s\" \"%s\" %s %d %d %d %d", a.mesg, a.field, c12ZList(ops, bnd), seed&c12Mask63, n, hg, hr), func() string {
			items := make([]string, len(xs))
			for i, x := range xs {
				items[i] = fmt.Sprintf("(%s, %d, %s)", coqZ(x), gb[i], coqZ(rs[i]))
			}
			return fmt.Sprintf("CAcc \"%s\" \"%s\" %s", a.mesg, a.field, coqList(items))
		})
		stat("accessor_point_cases", 1)
	}
	stat("accessors", len(accs))
}

// ------------------------------------------------------------------------------------------------ time, angles

func (h *c12Run) timeAndAngles(thorough bool) {
	n := 3000
	if thorough {
		n = 100000
	}
	u32 := c12OpsByBase[basetype.Uint32]
	s32 := c12OpsByBase[basetype.Sint32]
	// FIT timestamp -> time.Time -> FIT timestamp
	var bnd []int64
	for _, v := range []uint32{0, 1, 2, 59, 60, 86399, 86400, 1000000000, 0x10000000 - 1, 0x10000000, math.MaxUint32, math.MaxUint32 - 1, math.MaxUint32 - 2, math.MaxInt32, math.MaxInt32 + 1} {
		bnd = append(bnd, int64(v))
	}
	for k := uint(1); k < 32; k++ {
		bnd = append(bnd, 1<<k-1, 1<<k, 1<<k+1)
	}
	seed := h.r.u64()
	vs := append(append([]int64(nil), bnd...), c12GenValues(false, 32, seed, n)...)
	var ht uint64
	var items []string
	for _, x := range vs {
		v := uint32(x)
		t := datetime.ToTime(v)
		back := datetime.ToUint32(t)
		h.nEval++
		if back != v {
			emitJSON("FAIL", "", map[string]any{"route": "datetime", "kind": "ToUint32(ToTime(v)) round trip", "x": v, "got": back, "want": v, "time": t.UTC().Format(time.RFC3339Nano)})
			h.fails++
		}
		ht = c12HashZ(c12HashZ(c12HashZ(ht, t.Unix()), int64(t.Nanosecond())), int64(back))
		if h.explicitOnly >= 0 {
			items = append(items, fmt.Sprintf("(%d%%Z, %s, %d%%Z, %d%%Z)", v, coqZ(t.Unix()), t.Nanosecond(), back))
		}
	}
	tItems := items
	h.emitCase(fmt.Sprintf("CTimeH %s %d %d %d", c12ZList(u32, bnd), seed&c12Mask63, n, ht), func() string { return "CTime " + coqList(tItems) })
	stat("time_roundtrips", len(vs))
	// arbitrary instants -> FIT timestamp (sub-second parts, instants before the epoch)
	epoch := int64(631065600)
	var rels []string
	items = nil
	var hu uint64
	for i := 0; i < 900; i++ {
		var sec, nsec int64
		switch i % 6 {
		case 0:
			sec, nsec = epoch+int64(h.r.u64()%(1<<32-1)), int64(h.r.intn(1000000000))
		case 1:
			sec, nsec = epoch+int64(h.r.u64()%(1<<32-1)), int64(h.r.pick(0, 1, 999999999, 999999000, 500000000, 999999999))
		case 2:
			sec, nsec = epoch-int64(h.r.u64()%(1<<33)), int64(h.r.intn(1000000000))
		case 3:
			sec, nsec = epoch+int64(h.r.intn(3))-1, int64(h.r.pick(0, 1, 999999999))
		case 4:
			sec, nsec = epoch+int64(1)<<uint(h.r.intn(32))-int64(h.r.intn(2)), int64(h.r.pick(0, 999999999))
		default:
			sec, nsec = epoch+(1<<32-2)-int64(h.r.intn(3)), int64(h.r.pick(0, 1, 999999999, 999999700))
		}
		rel := (sec-epoch)*1000000000 + nsec
		if rel >= (1<<32)*1000000000-500 { // would convert to 2^32 or more: implementation-defined, excluded
			continue
		}
		got := datetime.ToUint32(time.Unix(sec, nsec).UTC())
		rels = append(rels, coqZ(rel))
		hu = c12HashZ(hu, int64(got))
		items = append(items, fmt.Sprintf("(%s, %d%%Z)", coqZ(rel), got))
		h.nEval++
	}
	uItems := items
	h.emitCase(fmt.Sprintf("CToUint32H %s %d", coqList(rels), hu), func() string { return "CToUint32 " + coqList(uItems) })
	stat("time_instants", len(rels))

	// semicircles -> degrees -> semicircles
	bnd = nil
	for _, x := range []int32{0, 1, -1, 2, 3, math.MaxInt32, math.MaxInt32 - 1, math.MinInt32, math.MinInt32 + 1, 123456789, -123456789} {
		bnd = append(bnd, int64(x))
	}
	for k := uint(1); k < 31; k++ {
		bnd = append(bnd, 1<<k-1, 1<<k, 1<<k+1, -(1 << k), -(1<<k)+1, -(1<<k)-1)
	}
	seed = h.r.u64()
	xs := append(append([]int64(nil), bnd...), c12GenValues(true, 32, seed, n)...)
	items = nil
	var hb, hr uint64
	for _, x64 := range xs {
		x := int32(x64)
		d := semicircles.ToDegrees(x)
		back := semicircles.ToSemicircles(d)
		h.nEval++
		if back != x {
			emitJSON("FAIL", "", map[string]any{"route": "semicircles", "kind": "ToSemicircles(ToDegrees(x)) round trip", "x": x, "got": back, "want": x, "degrees": d})
			h.fails++
		}
		hb = c12Hash(hb, c12Bits(d))
		hr = c12HashZ(hr, int64(back))
		if h.explicitOnly >= 0 {
			items = append(items, fmt.Sprintf("(%s, %d, %s)", coqZ(int64(x)), c12Bits(d), coqZ(int64(back))))
		}
	}
	sItems := items
	h.emitCase(fmt.Sprintf("CSemiH %s %d %d %d %d", c12ZList(s32, bnd), seed&c12Mask63, n, hb, hr), func() string { return "CSemi " + coqList(sItems) })
	stat("semicircle_roundtrips", len(xs))
	// arbitrary degrees -> semicircles
	items = nil
	var dbits []string
	var hd uint64
	for i := 0; i < 800; i++ {
		var d float64
		switch i % 5 {
		case 0:
			d = (float64(h.r.u64()>>11)/float64(1<<53))*359.9999 - 179.99995
		case 1:
			d = float64(int32(h.r.u64())) * (180.0 / (1 << 31)) // exact images
		case 2:
			d = float64(h.r.intn(361)-180) + float64(h.r.pick(0, 1, -1))*1e-9
			if d >= 180 || d < -180 {
				d = 0
			}
		case 3:
			d = []float64{math.NaN(), math.Inf(1), math.Inf(-1), math.Float64frombits(basetype.Float64Invalid), 0, math.Copysign(0, -1), 1e-300, -1e-300, 179.99999991618097, -180}[h.r.intn(10)]
		default:
			d = math.Float64frombits(h.r.u64())
			if !(d > -180 && d < 180) {
				d = math.Mod(float64(h.r.intn(1000000)), 179)
			}
		}
		got := semicircles.ToSemicircles(d)
		dbits = append(dbits, strconv.FormatUint(c12Bits(d), 10))
		hd = c12HashZ(hd, int64(got))
		items = append(items, fmt.Sprintf("(%d, %s)", c12Bits(d), coqZ(int64(got))))
		h.nEval++
	}
	dItems := items
	h.emitCase(fmt.Sprintf("CToSemiH %s %d", coqList(dbits), hd), func() string { return "CToSemi " + coqList(dItems) })
	stat("degree_values", len(dbits))
	emit("SAMPLE", fmt.Sprintf("ToTime(1000000000)=%s back=%d; ToDegrees(123456789)=%v back=%d",
		datetime.ToTime(1000000000).UTC().Format(time.RFC3339), datetime.ToUint32(datetime.ToTime(1000000000)),
		semicircles.ToDegrees(123456789), semicircles.ToSemicircles(semicircles.ToDegrees(123456789))))
}
