package main

import (
	"bytes"
	"encoding/binary"
	"fmt"
	"math/big"

	"github.com/muktihari/fit/decoder"
	"github.com/muktihari/fit/profile/basetype"
	"github.com/muktihari/fit/profile/factory"
	"github.com/muktihari/fit/profile/typedef"
	"github.com/muktihari/fit/proto"
)

func init() { cmds["c05"] = c05 }

type compOwner struct {
	mesg  typedef.MesgNum
	field byte
	sub   int // -1: the field's own components, else index of the sub-field
}

func componentOwners() []compOwner {
	loadFactory()
	var out []compOwner
	for _, km := range knownMesgs {
		for _, f := range km.fields {
			fld := factory.CreateField(km.num, f)
			if len(fld.Components) > 0 {
				out = append(out, compOwner{km.num, f, -1})
			}
			for i, sf := range fld.SubFields {
				if len(sf.Components) > 0 {
					out = append(out, compOwner{km.num, f, i})
				}
			}
		}
	}
	return out
}

// recordsFor: a definition + data records for one message type with the given fields (little endian, local 0).
func recordsFor(mesg typedef.MesgNum, fields []proto.Field, rows [][][]byte) []byte {
	rec := []byte{0x40, 0, 0, byte(mesg), byte(mesg >> 8), byte(len(fields))}
	for i, f := range fields {
		rec = append(rec, f.Num, byte(len(rows[0][i])), byte(f.BaseType))
	}
	for _, row := range rows {
		rec = append(rec, 0)
		for _, v := range row {
			rec = append(rec, v...)
		}
	}
	return rec
}

func leBytes(v uint64, n int) []byte {
	b := make([]byte, 8)
	binary.LittleEndian.PutUint64(b, v)
	return b[:n]
}

func ratOf(f float64) *big.Rat { r := new(big.Rat); r.SetFloat64(f); return r }

// expectedComponent: ((bits / cscale - coffset) + doffset) * dscale as an exact rational
func expectedComponent(bits uint64, c proto.Component, dest *proto.FieldBase) *big.Rat {
	x := new(big.Rat).SetUint64(bits)
	x.Quo(x, ratOf(c.Scale))
	x.Sub(x, ratOf(c.Offset))
	x.Add(x, ratOf(dest.Offset))
	x.Mul(x, ratOf(dest.Scale))
	return x
}

func valueAsInt(v proto.Value) (int64, bool) {
	switch v.Type() {
	case proto.TypeUint8:
		return int64(v.Uint8()), true
	case proto.TypeInt8:
		return int64(v.Int8()), true
	case proto.TypeUint16:
		return int64(v.Uint16()), true
	case proto.TypeInt16:
		return int64(v.Int16()), true
	case proto.TypeUint32:
		return int64(v.Uint32()), true
	case proto.TypeInt32:
		return int64(v.Int32()), true
	}
	return 0, false
}

func valueAsIntSlice(v proto.Value) ([]int64, bool) {
	var out []int64
	switch v.Type() {
	case proto.TypeSliceUint8:
		for _, x := range v.SliceUint8() {
			out = append(out, int64(x))
		}
	case proto.TypeSliceInt8:
		for _, x := range v.SliceInt8() {
			out = append(out, int64(x))
		}
	case proto.TypeSliceUint16:
		for _, x := range v.SliceUint16() {
			out = append(out, int64(x))
		}
	case proto.TypeSliceInt16:
		for _, x := range v.SliceInt16() {
			out = append(out, int64(x))
		}
	case proto.TypeSliceUint32:
		for _, x := range v.SliceUint32() {
			out = append(out, int64(x))
		}
	case proto.TypeSliceInt32:
		for _, x := range v.SliceInt32() {
			out = append(out, int64(x))
		}
	default:
		return nil, false
	}
	return out, true
}

// c05: expansion of every component owner over raw container values and histories; direct oracle with exact rationals.
func c05(args []string) {
	c, fs := commonFlags("c05", args)
	fs.Parse(args)
	r := newRng(c.seed)
	owners := componentOwners()
	stat("component_owners", len(owners))
	perOwner := 40
	if c.tier == "thorough" {
		perOwner = 3000
	}
	caseBudget := 8
	for _, ow := range owners {
		fld := factory.CreateField(ow.mesg, ow.field)
		comps := fld.Components
		var extra []proto.Field // reference field that activates the sub-field
		var extraBytes [][]byte
		if ow.sub >= 0 {
			sf := fld.SubFields[ow.sub]
			comps = sf.Components
			ref := factory.CreateField(ow.mesg, sf.Maps[0].RefFieldNum)
			extra = append(extra, ref)
			extraBytes = append(extraBytes, leBytes(uint64(sf.Maps[0].RefFieldValue), int(ref.BaseType.Size())))
		}
		// destinations that expand further through a sub-field need that sub-field's reference field in the message too
		var nested [][2]interface{}
		for _, cm := range comps {
			d := factory.CreateField(ow.mesg, cm.FieldNum)
			for _, sf := range d.SubFields {
				if len(sf.Components) > 0 && len(sf.Maps) > 0 {
					nested = append(nested, [2]interface{}{sf.Maps[0].RefFieldNum, sf.Maps[r.intn(len(sf.Maps))].RefFieldValue})
				}
			}
		}
		if len(nested) > 0 && len(extra) == 0 {
			pick := nested[r.intn(len(nested))]
			ref := factory.CreateField(ow.mesg, pick[0].(byte))
			if ref.BaseType.Size() > 0 && ref.Num != fld.Num {
				extra = append(extra, ref)
				extraBytes = append(extraBytes, leBytes(uint64(pick[1].(int64)), int(ref.BaseType.Size())))
				stat("owners_with_nested_subfield_reference", 1)
			}
		}
		size := int(fld.BaseType.Size())
		elems := 1
		if fld.Array {
			totalBits := 0
			for _, cm := range comps {
				totalBits += int(cm.Bits)
			}
			elems = (totalBits + size*8 - 1) / (size * 8)
			if elems < 1 {
				elems = 1
			}
		}
		width := size * elems
		accum := false
		for _, cm := range comps {
			accum = accum || cm.Accumulate
		}
		emitted := 0
		for k := 0; k < perOwner; k++ {
			nrows := 1
			if accum {
				nrows = 1 + r.intn(6)
			}
			// the full-resolution destination fields on the wire in the SAME message, declared after the container: the wire values
			// are collected for the whole message before any component is expanded, so they seed the accumulators of this message
			var inlineFields []proto.Field
			var inlineBytes [][]byte
			inline := map[byte]uint32{}
			if accum && r.chance(1, 4) {
				for _, cm := range comps {
					d := factory.CreateField(ow.mesg, cm.FieldNum)
					if _, dup := inline[cm.FieldNum]; dup || !cm.Accumulate || !d.Accumulate || d.Array || d.Num == fld.Num || len(d.Components) > 0 ||
						(d.BaseType != basetype.Uint8 && d.BaseType != basetype.Uint16 && d.BaseType != basetype.Uint32) {
						continue
					}
					used := false
					for _, e := range extra {
						used = used || e.Num == d.Num
					}
					if used {
						continue
					}
					sz := int(d.BaseType.Size())
					v := uint64(1)<<uint(cm.Bits) + uint64(r.intn(1<<16))
					if r.chance(1, 3) {
						v = uint64(r.intn(4000))
					}
					v &= uint64(1)<<uint(8*sz) - 1
					if v == uint64(1)<<uint(8*sz)-1 {
						v--
					}
					inline[cm.FieldNum] = uint32(v)
					inlineFields = append(inlineFields, d)
					inlineBytes = append(inlineBytes, leBytes(v, sz))
				}
				if len(inline) > 0 {
					stat("rows_with_destination_fields_in_the_same_message", 1)
				}
			}
			rows := make([][][]byte, nrows)
			raws := make([][]byte, nrows)
			for j := range rows {
				raw := make([]byte, width)
				switch {
				case width <= 2 && c.tier == "thorough" && !accum:
					binary.LittleEndian.PutUint16(append(raw[:0:0], 0, 0), uint16(k)) // exhaustive-ish walk for small containers
					v := uint64(k * 65536 / perOwner)
					copy(raw, leBytes(v, width))
				case r.chance(1, 4):
					copy(raw, leBytes(r.word(), minInt(width, 8)))
				default:
					copy(raw, r.bytes(width))
				}
				if width > 2 && r.chance(1, 3) { // structured: a run of zero (or one) bits at a random position, often at a 64-bit word boundary
					start, n := r.intn(width*8), 1+r.intn(24)
					if width > 8 && r.chance(2, 3) { // aligned with what one Pull carries from an upper 64-bit word into the lower one
						cb := int(comps[0].Bits)
						start = 64*(1+r.intn((width*8-1)/64)) + cb*r.intn(4)
						n = cb + r.intn(cb+1)
						if r.chance(1, 3) {
							start -= r.intn(cb)
						}
					}
					one := r.chance(1, 5)
					for bi := start; bi < start+n && bi < width*8; bi++ {
						if one {
							raw[bi/8] |= 1 << uint(bi%8)
						} else {
							raw[bi/8] &^= 1 << uint(bi%8)
						}
					}
				}
				if len(comps) > 1 && r.chance(1, 3) { // every component non-zero: expansion runs through the whole container (all 64-bit words)
					acc := new(big.Int)
					pos := uint(0)
					for _, cm := range comps {
						v := r.word() & (uint64(1)<<uint(cm.Bits) - 1)
						if v == 0 {
							v = 1
						}
						acc.Or(acc, new(big.Int).Lsh(new(big.Int).SetUint64(v), pos))
						pos += uint(cm.Bits)
					}
					for bi := range raw {
						raw[bi] = byte(new(big.Int).Rsh(acc, uint(8*bi)).Uint64())
					}
					stat("rows_with_every_component_nonzero", 1)
				}
				if accum && j > 0 && r.chance(2, 3) { // small forward steps exercise the wrapping counter
					prev := binary.LittleEndian.Uint64(append(append([]byte(nil), raws[j-1]...), make([]byte, 8)...)[:8])
					copy(raw, leBytes(prev+uint64(r.intn(300)), minInt(width, 8)))
				}
				raws[j] = raw
				row := [][]byte{raw}
				row = append(row, extraBytes...)
				row = append(row, inlineBytes...)
				rows[j] = row
			}
			fields := append(append([]proto.Field{fld}, extra...), inlineFields...)
			recs := recordsFor(ow.mesg, fields, rows)
			// preamble: a message carrying the full-resolution destination fields on the wire; they seed the accumulators
			seeds := map[byte]uint32{}
			preamble := 0
			if accum && r.chance(1, 2) {
				var pdef, pdata []byte
				for _, cm := range comps {
					d := factory.CreateField(ow.mesg, cm.FieldNum)
					if _, dup := seeds[cm.FieldNum]; dup || !cm.Accumulate || !d.Accumulate || d.Array || d.BaseType == basetype.Float32 || d.BaseType == basetype.Float64 || d.BaseType == basetype.String {
						continue
					}
					sz := int(d.BaseType.Size())
					var v uint64
					switch r.intn(4) {
					case 0:
						v = uint64(r.intn(5000))
					case 1:
						v = uint64(1)<<uint(cm.Bits) + uint64(r.intn(1<<20))
					case 2:
						v = uint64(4000000 + r.intn(1<<28))
					default:
						v = r.word()
					}
					if sz < 8 {
						v &= (uint64(1) << uint(8*sz)) - 1
					}
					inv := uint64(1)<<uint(8*sz) - 1
					if sz == 8 {
						inv = ^uint64(0)
					}
					if v == inv {
						v--
					}
					pdef = append(pdef, cm.FieldNum, byte(sz), byte(d.BaseType))
					pdata = append(pdata, leBytes(v, sz)...)
					sv := v
					if d.BaseType == basetype.Sint8 {
						sv = uint64(int64(int8(v)))
					} else if d.BaseType == basetype.Sint16 {
						sv = uint64(int64(int16(v)))
					} else if d.BaseType == basetype.Sint32 {
						sv = uint64(int64(int32(v)))
					}
					seeds[cm.FieldNum] = uint32(sv)
				}
				if len(seeds) > 0 {
					pre := []byte{0x41, 0, 0, byte(ow.mesg), byte(ow.mesg >> 8), byte(len(pdef) / 3)}
					pre = append(pre, pdef...)
					pre = append(pre, 0x01)
					pre = append(pre, pdata...)
					recs = append(pre, recs...)
					preamble = 1
					stat("seeded_accumulators", 1)
				}
			}
			file := rawSeq(recs)
			var second []byte
			if r.chance(2, 5) && accum { // a second sequence: accumulators restart
				second = rawSeq(recordsFor(ow.mesg, fields, rows[:1+r.intn(len(rows))]))
				if r.chance(1, 2) { // ... continuing with the very rows the first sequence ended with (same destinations, no seeding in between)
					second = rawSeq(recordsFor(ow.mesg, fields, rows[len(rows)-1-r.intn(len(rows)):]))
				}
				file = append(file, second...)
			}
			on := decodeAll(bytes.NewReader(file), len(file))
			if second != nil && on.err == nil && on.panicked == nil && len(on.fits) == 2 {
				// running totals belong to one sequence: the second sequence decodes as it does on its own, whether it follows in the
				// same stream or is given to the same decoder after Reset
				alone := decodeAll(bytes.NewReader(second), len(second))
				first := file[:len(file)-len(second)]
				dec := decoder.New(bytes.NewReader(first))
				_, err1 := dec.Decode()
				dec.Reset(bytes.NewReader(second))
				reused, err2 := dec.Decode()
				stat("second_sequence_vs_alone", 1)
				if alone.err != nil || len(alone.fits) != 1 || err1 != nil || err2 != nil {
					emitJSON("FAIL", "", map[string]any{"kind": "second-sequence-decode-error", "owner": fmt.Sprint(ow), "alone_err": fmt.Sprint(alone.err), "first_err": fmt.Sprint(err1), "reused_err": fmt.Sprint(err2), "bytes": fmt.Sprintf("%x", file)})
				} else {
					for how, got := range map[string]*proto.FIT{"chained after the first sequence": on.fits[1], "same decoder after Reset": reused} {
						if len(got.Messages) != len(alone.fits[0].Messages) {
							emitJSON("FAIL", "", map[string]any{"kind": "second-sequence-differs-from-alone", "how": how, "owner": fmt.Sprint(ow), "bytes": fmt.Sprintf("%x", file), "second": fmt.Sprintf("%x", second)})
							continue
						}
						for mi := range got.Messages {
							if a, b := coqMesg(&got.Messages[mi], false), coqMesg(&alone.fits[0].Messages[mi], false); a != b {
								emitJSON("FAIL", "", map[string]any{"kind": "second-sequence-differs-from-alone", "how": how, "owner": fmt.Sprint(ow), "message": mi, "got": a, "alone": b,
									"bytes": fmt.Sprintf("%x", file), "second": fmt.Sprintf("%x", second)})
								break
							}
						}
					}
				}
			}
			off := decodeAll(bytes.NewReader(file), len(file), decoder.WithNoComponentExpansion())
			if on.err != nil || off.err != nil || on.panicked != nil {
				emitJSON("FAIL", "", map[string]any{"kind": "decode-error", "owner": fmt.Sprint(ow), "err": fmt.Sprint(on.err), "bytes": fmt.Sprintf("%x", file)})
				continue
			}
			if emitted < caseBudget {
				emit("CASE", fmt.Sprintf("(true, true, %s, %s)", coqBytes(file), coqDecodeResult(on)))
				emitted++
			}
			stat("oracle_messages", nrows)
			// off = on minus expanded; wire fields that are no destination are unchanged
			for si := range on.fits {
				for mi := range on.fits[si].Messages {
					mOn, mOff := on.fits[si].Messages[mi], off.fits[si].Messages[mi]
					var kept []proto.Field
					for _, f := range mOn.Fields {
						if !f.IsExpandedField {
							kept = append(kept, f)
						}
					}
					if len(kept) != len(mOff.Fields) {
						emitJSON("FAIL", "", map[string]any{"kind": "off-vs-on-field-count", "owner": fmt.Sprint(ow), "bytes": fmt.Sprintf("%x", file)})
						continue
					}
					isDest := map[byte]bool{}
					var walk func(cs []proto.Component)
					walk = func(cs []proto.Component) {
						for _, cm := range cs {
							if !isDest[cm.FieldNum] {
								isDest[cm.FieldNum] = true
								d := factory.CreateField(ow.mesg, cm.FieldNum)
								walk(d.Components)
								for _, s := range d.SubFields {
									walk(s.Components)
								}
							}
						}
					}
					walk(comps)
					for i := range kept {
						if kept[i].Num != mOff.Fields[i].Num || (!isDest[kept[i].Num] && coqValue(kept[i].Value) != coqValue(mOff.Fields[i].Value)) {
							emitJSON("FAIL", "", map[string]any{"kind": "wire-field-changed-by-expansion", "owner": fmt.Sprint(ow), "field": kept[i].Num, "bytes": fmt.Sprintf("%x", file)})
						}
					}
				}
			}
			// values: first-level components of the first sequence, message by message, against exact rationals
			if len(on.fits) == 0 {
				continue
			}
			totals := map[byte]uint64{}
			lasts := map[byte]uint64{}
			seen := map[byte]bool{}
			for k, v := range seeds {
				seen[k], totals[k], lasts[k] = true, uint64(v), uint64(v)
			}
			for mi0, m := range on.fits[0].Messages {
				mi := mi0 - preamble
				if mi < 0 {
					continue
				}
				if mi >= len(raws) {
					break
				}
				if !fld.Value.Valid(fld.BaseType) && false {
					continue
				}
				container := m.FieldByNum(fld.Num)
				if container == nil || !container.Value.Valid(fld.BaseType) {
					continue
				}
				for k, v := range inline { // collected from the wire before this message's components are expanded
					seen[k], totals[k], lasts[k] = true, uint64(v), uint64(v)
				}
				bitsAll := new(big.Int)
				for i := len(raws[mi]) - 1; i >= 0; i-- {
					bitsAll.Lsh(bitsAll, 8)
					bitsAll.Or(bitsAll, big.NewInt(int64(raws[mi][i])))
				}
				arrWant := map[byte][]*big.Rat{}
				var arrOrder []byte
				for ci, cm := range comps {
					mask := new(big.Int).Sub(new(big.Int).Lsh(big.NewInt(1), uint(cm.Bits)), big.NewInt(1))
					val := new(big.Int).And(bitsAll, mask).Uint64()
					bitsAll.Rsh(bitsAll, uint(cm.Bits))
					if val == 0 && len(comps) > 1 {
						break
					}
					if cm.Accumulate {
						if !seen[cm.FieldNum] {
							seen[cm.FieldNum], totals[cm.FieldNum] = true, val
						} else {
							totals[cm.FieldNum] = (totals[cm.FieldNum] + ((val - lasts[cm.FieldNum]) & mask.Uint64())) & 0xFFFFFFFF
						}
						lasts[cm.FieldNum] = val
						val = totals[cm.FieldNum]
					}
					dest := factory.CreateField(ow.mesg, cm.FieldNum)
					want := expectedComponent(val, cm, dest.FieldBase)
					var got *proto.Field
					for i := len(m.Fields) - 1; i >= 0; i-- {
						if m.Fields[i].Num == cm.FieldNum {
							got = &m.Fields[i]
							break
						}
					}
					stat("oracle_components", 1)
					if got == nil {
						emitJSON("FAIL", "", map[string]any{"kind": "component-missing", "owner": fmt.Sprint(ow), "component": ci, "bytes": fmt.Sprintf("%x", file)})
						continue
					}
					if dest.Array && dest.BaseType != basetype.Float32 && dest.BaseType != basetype.Float64 && len(dest.Components) == 0 {
						if _, ok := arrWant[cm.FieldNum]; !ok {
							arrOrder = append(arrOrder, cm.FieldNum)
						}
						arrWant[cm.FieldNum] = append(arrWant[cm.FieldNum], want)
						continue // appended to an array destination: compared as a list below
					}
					if dest.Array || dest.BaseType == basetype.Float32 || dest.BaseType == basetype.Float64 {
						continue
					}
					g, ok := valueAsInt(got.Value)
					if !ok {
						continue
					}
					// a later component with the same destination may have overwritten it: only check the last writer
					lastWriter := true
					for _, later := range comps[ci+1:] {
						if later.FieldNum == cm.FieldNum {
							lastWriter = false
						}
					}
					if !lastWriter || hasNestedWriter(ow.mesg, comps, cm.FieldNum) {
						continue
					}
					maxv := new(big.Rat).SetInt64(int64(1)<<(8*uint(dest.BaseType.Size())) - 1)
					if want.Cmp(maxv) > 0 || want.Sign() < 0 {
						continue // not representable in the destination
					}
					gotR := new(big.Rat).SetInt64(g)
					diff := new(big.Rat).Sub(want, gotR)
					js := map[string]any{"kind": "component-value", "mesg": ow.mesg, "field": ow.field, "sub": ow.sub, "component": ci, "dest": cm.FieldNum,
						"bits": val, "want": want.FloatString(6), "got": g, "bytes": fmt.Sprintf("%x", file)}
					switch {
					case want.IsInt() && diff.Sign() == 0:
					case want.IsInt() && diff.Cmp(big.NewRat(1, 1)) == 0:
						emitJSON("KNOWN", "trunc_loses_unit", js) // exact integer expected, one unit lost by truncation
					case !want.IsInt() && diff.Cmp(big.NewRat(1, 1)) < 0 && diff.Cmp(big.NewRat(-1, 1)) > 0:
					default:
						emitJSON("FAIL", "", js)
					}
				}
				for _, dn := range arrOrder {
					if m.FieldByNum(dn) != nil && !m.FieldByNum(dn).IsExpandedField {
						continue // destination also on the wire: expansion appends to it (model only)
					}
					var got *proto.Field
					for i := len(m.Fields) - 1; i >= 0; i-- {
						if m.Fields[i].Num == dn {
							got = &m.Fields[i]
							break
						}
					}
					js := map[string]any{"kind": "array-destination", "mesg": ow.mesg, "field": ow.field, "sub": ow.sub, "dest": dn, "bytes": fmt.Sprintf("%x", file)}
					if got == nil {
						emitJSON("FAIL", "", js)
						continue
					}
					gs, ok := valueAsIntSlice(got.Value)
					if !ok {
						continue
					}
					dest := factory.CreateField(ow.mesg, dn)
					maxv := new(big.Rat).SetInt64(int64(1)<<(8*uint(dest.BaseType.Size())) - 1)
					wants := arrWant[dn]
					js["got"], js["want_len"] = gs, len(wants)
					if len(gs) != len(wants) {
						emitJSON("FAIL", "", js)
						continue
					}
					for i := range wants {
						if wants[i].Cmp(maxv) > 0 || wants[i].Sign() < 0 {
							continue
						}
						diff := new(big.Rat).Sub(wants[i], new(big.Rat).SetInt64(gs[i]))
						if diff.Cmp(big.NewRat(1, 1)) >= 0 || diff.Cmp(big.NewRat(-1, 1)) <= 0 || (wants[i].IsInt() && diff.Sign() != 0) {
							js["index"], js["want"] = i, wants[i].FloatString(6)
							emitJSON("FAIL", "", js)
							break
						}
					}
					stat("oracle_array_destinations", 1)
				}
			}
		}
	}
}

// hasNestedWriter: some component destination has components of its own writing to field num (e.g. speed -> enhanced_speed)
func hasNestedWriter(mesg typedef.MesgNum, comps []proto.Component, num byte) bool {
	for _, cm := range comps {
		d := factory.CreateField(mesg, cm.FieldNum)
		for _, c2 := range d.Components {
			if c2.FieldNum == num {
				return true
			}
		}
	}
	return false
}
