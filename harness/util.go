package main

import (
	"bytes"
	"os"
)

func writeIfChanged(path, content string) {
	old, err := os.ReadFile(path)
	if err == nil && bytes.Equal(old, []byte(content)) {
		return
	}
	if err := os.WriteFile(path, []byte(content), 0o644); err != nil {
		panic(err)
	}
}
