package main

import (
	"bytes"
	"context"
	"encoding/binary"
	"fmt"
	"strings"

	"github.com/muktihari/fit/decoder"
	"github.com/muktihari/fit/kit/hash/crc16"
	"github.com/muktihari/fit/proto"
)

func init() { cmds["c07"] = c07 }

func crcOf(b []byte) uint16 {
	h := crc16.New()
	h.Write(b)
	return h.Sum16()
}

// rawSeq assembles a sequence by hand: 14-byte header with correct CRC, the given record bytes, CRC of the records.
func rawSeq(records []byte) []byte {
	h := []byte{14, 0x20, 0, 0, 0, 0, 0, 0, '.', 'F', 'I', 'T', 0, 0}
	binary.LittleEndian.PutUint16(h[2:4], 2100)
	binary.LittleEndian.PutUint32(h[4:8], uint32(len(records)))
	binary.LittleEndian.PutUint16(h[12:14], crcOf(h[:12]))
	out := append(h, records...)
	return binary.LittleEndian.AppendUint16(out, crcOf(records))
}

type seqKind int

// genSequence: one sequence of a given character.
func (r *rng) genSequence(kind int) []byte {
	switch kind {
	case 1: // data message without a definition of its own (relies on what an earlier sequence defined for local 0/1)
		return rawSeq([]byte{byte(r.intn(2)), byte(r.intn(256)), byte(r.intn(256)), byte(r.intn(256)), byte(r.intn(256))})
	case 2: // developer field without description in this sequence
		rec := []byte{0x60, 0, 0, 20, 0, 1, 3, 1, 2, 1, 0, 1, 0, 0x00, 77, 5}
		return rawSeq(rec)
	case 3: // corrupted valid sequence
		b := r.genSequence(0)
		if len(b) > 20 {
			b[14+r.intn(len(b)-16)] ^= byte(1 << uint(r.intn(8)))
		}
		return b
	case 5: // a valid sequence cut short: the data size (and the bytes) end inside the last message, then two CRC bytes
		b := r.genSequence(0)
		ds := int(binary.LittleEndian.Uint32(b[4:8]))
		if len(b) != 14+ds+2 || ds < 4 {
			return b
		}
		k := 1 + r.intn(minInt(ds-1, 8))
		if b[14]&0xE0 == 0x40 && r.chance(1, 2) { // ... or inside the very first data message (the file_id): a peek has to read it
			n := int(b[14+5])
			dl, ml := 6+3*n, 1
			for j := 0; j < n; j++ {
				ml += int(b[14+6+3*j+1])
			}
			if ml > 1 && dl+ml < ds {
				k = ds - (dl + 1 + r.intn(ml-1))
			}
		}
		out := append([]byte(nil), b[:14+ds-k]...)
		binary.LittleEndian.PutUint32(out[4:8], uint32(ds-k))
		out[12], out[13] = 0, 0 // header CRC "not set"
		return append(out, byte(r.u64()), byte(r.u64()))
	case 4: // accumulating components / compressed timestamps (state that must not leak)
		var rec []byte
		rec = append(rec, 0x40, 0, 0, 20, 0, 2, 253, 4, 0x86, 8, 3, 0x0D) // record: timestamp + compressed_speed_distance
		ts := uint32(1000000000 + r.intn(1000))
		for i := 0; i < 1+r.intn(4); i++ {
			rec = append(rec, 0)
			rec = binary.LittleEndian.AppendUint32(rec, ts+uint32(i))
			rec = append(rec, byte(r.u64()), byte(r.u64()), byte(r.u64()))
		}
		rec = append(rec, 0x41, 0, 0, 20, 0, 1, 8, 3, 0x0D)
		for i := 0; i < 1+r.intn(3); i++ {
			rec = append(rec, byte(0x80|0x20|r.intn(32)), byte(r.u64()), byte(r.u64()), byte(r.u64()))
		}
		return rawSeq(rec)
	}
	cfg := mesgGenCfg{wellFormed: true, maxFields: 5, unknown: true, tsMode: r.intn(4)}
	ec := r.encCfg()
	ec.headerSize = 14
	ec.protoVer = proto.V2
	for tries := 0; tries < 5; tries++ {
		b, err := encodeFit(ec, r.genFit(cfg, 1+r.intn(4), r.chance(1, 3)))
		if err == nil {
			return b
		}
	}
	return rawSeq([]byte{0x40, 0, 0, 0, 0, 1, 0, 1, 0, 0, 4})
}

type apiRunner struct {
	dec    *decoder.Decoder
	reader *bytes.Reader
}

func coqCfg(checksum, expand bool) string {
	return fmt.Sprintf("(mkcfg %s %s 4096)", coqBool(checksum), coqBool(expand))
}

func decOpts(checksum, expand bool) []decoder.Option {
	var opts []decoder.Option
	if !checksum {
		opts = append(opts, decoder.WithIgnoreChecksum())
	}
	if !expand {
		opts = append(opts, decoder.WithNoComponentExpansion())
	}
	return opts
}

func obsErr(err error) string { return fmt.Sprintf("OErrR %d", errClass(err)) }

// step executes one operation; returns the Coq op term and the observed result term.
func (a *apiRunner) step(op string, resetBytes []byte, checksum, expand bool) (opTerm, obs string) {
	defer func() {
		if p := recover(); p != nil {
			obs = "OPanicR"
		}
	}()
	switch op {
	case "decode":
		fit, err := a.dec.Decode()
		if err != nil {
			return "ADecode", obsErr(err)
		}
		return "ADecode", "OFit " + coqFit(fit)
	case "decodecancelled": // DecodeWithContext under a context that is already done
		ctx, cancel := context.WithCancel(context.Background())
		cancel()
		fit, err := a.dec.DecodeWithContext(ctx)
		if err != nil {
			if fit != nil {
				return "ADecodeCancelled", "OPanicR" // an error together with a FIT value: never
			}
			return "ADecodeCancelled", obsErr(err)
		}
		return "ADecodeCancelled", "OFit " + coqFit(fit)
	case "next":
		return "ANext", "OBool " + coqBool(a.dec.Next())
	case "peekheader":
		h, err := a.dec.PeekFileHeader()
		if err != nil {
			return "APeekHeader", obsErr(err)
		}
		return "APeekHeader", fmt.Sprintf("OHeader (%d, %d, %d, %d, %d)", h.Size, h.ProtocolVersion, h.ProfileVersion, h.DataSize, h.CRC)
	case "peekfileid":
		_, err := a.dec.PeekFileId()
		if err != nil {
			return "APeekFileId", obsErr(err)
		}
		return "APeekFileId", "OFileId"
	case "discard":
		if err := a.dec.Discard(); err != nil {
			return "ADiscard", obsErr(err)
		}
		return "ADiscard", "OUnit"
	case "integrity":
		n, err := a.dec.CheckIntegrity()
		e := "None"
		if err != nil {
			e = fmt.Sprintf("(Some %d)", errClass(err))
		}
		return "ACheckIntegrity", fmt.Sprintf("OIntegrity %d %s", n, e)
	case "seekstart":
		a.reader.Seek(0, 0)
		return "ASeekStart", "OUnit"
	case "reset":
		a.reader = bytes.NewReader(resetBytes)
		a.dec.Reset(a.reader, decOpts(checksum, expand)...)
		return fmt.Sprintf("AReset %s %s", coqBytes(resetBytes), coqCfg(checksum, expand)), "OUnit"
	}
	return "ANext", "OUnit"
}

// c07: histories of API calls on one decoder object; the last decode of the history is compared with a fresh decoder (direct
// oracle), and the whole history with Model/Api.v (correspondence).  Also covers C03's "after an error the decoder keeps returning it".
func c07(args []string) {
	c, fs := commonFlags("c07", args)
	fs.Parse(args)
	r := newRng(c.seed)
	n := c.n
	if n == 0 {
		n = 300
		if c.tier == "thorough" {
			n = 5000
		}
	}
	for i := 0; i < n; i++ {
		checksum, expand := r.chance(4, 5), r.chance(1, 2)
		k := r.intn(4) // sequences before S
		var chain [][]byte
		for j := 0; j < k; j++ {
			kind := r.pick(0, 0, 0, 4, 4, 2, 3, 5)
			if (kind == 3 || kind == 5) && !checksum {
				// with checksums ignored a corrupted sequence can decode "successfully" while its records overrun the declared data
				// size; where the next sequence starts is then undefined (scoping remark in DESIGN.md, C07)
				kind = 0
			}
			chain = append(chain, r.genSequence(kind))
		}
		S := r.genSequence(r.pick(0, 0, 1, 1, 2, 3, 4))
		pooled := r.chance(1, 8) // a pooled decoder whose previous reader gave nothing: every entry point fails before any byte is read
		if pooled {
			chain = nil
		}
		var all []byte
		for _, s := range chain {
			all = append(all, s...)
		}
		if !pooled {
			all = append(all, S...)
		}
		run := &apiRunner{reader: bytes.NewReader(all)}
		run.dec = decoder.New(run.reader, decOpts(checksum, expand)...)
		var ops, obs, human []string
		do := func(op string, rb []byte) string {
			o, b := run.step(op, rb, checksum, expand)
			ops, obs, human = append(ops, o), append(obs, b), append(human, op)
			return b
		}
		if pooled {
			for j := 0; j < 1+r.intn(2); j++ {
				do(r.pickStr("decode", "discard", "peekheader", "peekfileid", "next", "integrity"), nil)
			}
			stat("history_pooled_empty_reader", 1)
		} else if r.chance(1, 6) { // integrity check first, then rewind as documented
			do("integrity", nil)
			do("seekstart", nil)
		}
		failed := false
		for j := range chain {
			switch r.intn(8) {
			case 7:
				do("decodecancelled", nil)
			case 0:
				do("discard", nil)
			case 1:
				do("peekfileid", nil)
				do("discard", nil)
			case 2:
				do("peekheader", nil)
				do("decode", nil)
			case 3:
				do("next", nil)
				do("decode", nil)
			case 4:
				do("peekfileid", nil)
				do("decode", nil)
			default:
				do("decode", nil)
			}
			if strings.HasPrefix(obs[len(obs)-1], "OErrR") || strings.HasPrefix(obs[len(obs)-1], "OPanic") {
				failed = true
				// sticky: the error is returned again by every entry point
				do(r.pickStr("decode", "discard", "peekheader", "peekfileid", "next", "integrity", "decodecancelled"), nil)
				_ = j
				break
			}
		}
		var last string
		if failed || pooled || r.chance(1, 5) { // move the object onto a new reader holding S only
			do("reset", S)
			last = do("decode", nil)
		} else {
			if r.chance(1, 4) {
				do("next", nil)
			}
			last = do("decode", nil)
		}
		emit("CASE", fmt.Sprintf("(%s, %s, %s, %s)", coqCfg(checksum, expand), coqBytes(all), coqList(ops), coqList(obs)))
		if i < 3 {
			emit("SAMPLE", fmt.Sprintf("chain of %d sequences + S (%d bytes), history %v", k, len(S), human))
		}
		stat(fmt.Sprintf("history_len_%d", len(ops)), 1)
		if failed {
			stat("history_with_failed_op", 1)
		}
		// direct oracle: S decoded by a fresh decoder
		fresh := decoder.New(bytes.NewReader(S), decOpts(checksum, expand)...)
		ffit, ferr := fresh.Decode()
		want := obsErr(ferr)
		if ferr == nil {
			want = "OFit " + coqFit(ffit)
		}
		stat("oracle_fresh_vs_history", 1)
		if classOf(last) != classOf(want) || (ferr == nil && last != want) {
			js := map[string]any{"kind": "history-dependence", "history": human, "chain_lens": lens(chain), "S": fmt.Sprintf("%x", S), "all": fmt.Sprintf("%x", all),
				"fresh": trunc(want, 300), "after_history": trunc(last, 300), "checksum": checksum, "expand": expand}
			switch {
			case pooled:
				js["kind"] = "history-dependence (decoder whose previous reader was empty, then Reset)"
				emitJSON("FAIL", "", js)
			case usesStaleDefinitions(human, failed):
				emitJSON("KNOWN", "stale_definitions", js)
			case containsStr(human, "integrity") && strings.Contains(obs[0], "Some"):
				emitJSON("KNOWN", "stale_readbuffer_after_failed_integrity", js)
			default:
				emitJSON("FAIL", "", js)
			}
		}
	}
}

func (r *rng) pickStr(xs ...string) string { return xs[r.intn(len(xs))] }
func lens(bs [][]byte) []int {
	out := make([]int, len(bs))
	for i := range bs {
		out[i] = len(bs[i])
	}
	return out
}
func trunc(s string, n int) string {
	if len(s) > n {
		return s[:n]
	}
	return s
}
func containsStr(xs []string, s string) bool {
	for _, x := range xs {
		if x == s {
			return true
		}
	}
	return false
}

// error classes compared modulo {EOF, UnexpectedEOF}
func classOf(obs string) string {
	if strings.HasPrefix(obs, "OErrR 2") {
		return "OErrR 1"
	}
	if strings.HasPrefix(obs, "OFit") {
		return "OFit"
	}
	return obs
}

// classifier of stale_definitions: some earlier sequence was consumed without Decode (discard / peek+discard), or the object
// was reset after an operation that did not release the tables (anything but a completed Decode)
func usesStaleDefinitions(history []string, failed bool) bool {
	for i, h := range history {
		if h == "discard" {
			return true
		}
		if h == "reset" && i > 0 {
			return true
		}
	}
	return false
}
