package main

import (
	"bytes"
	"encoding/binary"
	"fmt"
	"os"

	"github.com/muktihari/fit/decoder"
	"github.com/muktihari/fit/profile/basetype"
	"github.com/muktihari/fit/proto"
)

func init() { cmds["c16"] = c16 }

type rawSeg struct {
	flag decoder.RawFlag
	b    []byte
}

func rawDecode(b []byte) (segs []rawSeg, n int64, err error, panicked any) {
	defer func() { panicked = recover() }()
	raw := decoder.NewRaw()
	n, err = raw.Decode(bytes.NewReader(b), func(flag decoder.RawFlag, seg []byte) error {
		segs = append(segs, rawSeg{flag, append([]byte(nil), seg...)})
		return nil
	})
	return
}

var rawFlagNames = []string{"RFHeader", "RFDef", "RFData", "RFCrc"}

type seriesListener struct {
	items []string // "D local header arch mesgnum fields devfields" / "M local header"
}

func (s *seriesListener) OnMesgDef(d proto.MessageDefinition) {
	s.items = append(s.items, fmt.Sprintf("D %d %d %d %d %v %v", d.Header&proto.LocalMesgNumMask, d.Header, d.Architecture, d.MesgNum, d.FieldDefinitions, d.DeveloperFieldDefinitions))
}
func (s *seriesListener) OnMesg(m proto.Message) {
	s.items = append(s.items, fmt.Sprintf("M %d %d", proto.LocalMesgNum(m.Header), m.Header))
}

// seriesFromRaw: the same series read off the raw segments by an independent reading of the record layout.
func seriesFromRaw(segs []rawSeg) (items []string, seqs int) {
	defer func() { // a definition segment shorter than its own counts say: reported as a differing series, not a harness crash
		if p := recover(); p != nil {
			items = append(items, fmt.Sprintf("MALFORMED-SEGMENT %v", p))
		}
	}()
	for _, s := range segs {
		switch s.flag {
		case decoder.RawFlagFileHeader:
			seqs++
		case decoder.RawFlagMesgDef:
			b := s.b
			arch := b[2]
			var num uint16
			if arch == 0 {
				num = uint16(b[3]) | uint16(b[4])<<8
			} else {
				num = uint16(b[3])<<8 | uint16(b[4])
			}
			nf := int(b[5])
			fds := make([]proto.FieldDefinition, 0, nf)
			for i := 0; i < nf; i++ {
				fds = append(fds, proto.FieldDefinition{Num: b[6+3*i], Size: b[7+3*i], BaseType: basetypeOf(b[8+3*i])})
			}
			dds := []proto.DeveloperFieldDefinition{}
			if b[0]&proto.DevDataMask != 0 {
				off := 6 + 3*nf
				nd := int(b[off])
				for i := 0; i < nd; i++ {
					dds = append(dds, proto.DeveloperFieldDefinition{Num: b[off+1+3*i], Size: b[off+2+3*i], DeveloperDataIndex: b[off+3+3*i]})
				}
			}
			items = append(items, fmt.Sprintf("D %d %d %d %d %v %v", b[0]&proto.LocalMesgNumMask, b[0], arch, num, fds, dds))
		case decoder.RawFlagMesgData:
			items = append(items, fmt.Sprintf("M %d %d", proto.LocalMesgNum(s.b[0]), s.b[0]))
		}
	}
	return
}

func c16(args []string) {
	c, fs := commonFlags("c16", args)
	fs.Parse(args)
	r := newRng(c.seed)
	n := c.n
	if n == 0 {
		n = 400
		if c.tier == "thorough" {
			n = 6000
		}
	}
	var pool [][]byte
	for _, p := range fixtureFiles(3300) {
		if b, err := os.ReadFile(p); err == nil {
			pool = append(pool, b)
		}
	}
	bnd := c16Boundary()
	for i := -len(bnd); i < n; i++ {
		var b []byte
		switch {
		case i < 0:
			b = bnd[i+len(bnd)]
			stat("boundary_inputs", 1)
		default:
			switch r.intn(6) {
			case 0:
				b = pool[r.intn(len(pool))]
			case 1:
				b = r.mutate(pool[r.intn(len(pool))])
			default:
				ec, files := r.genChain(true)
				out, _, err := encodeChain(ec, files)
				if err != nil || len(out) == 0 {
					continue
				}
				b = out
				if r.chance(1, 4) {
					b = r.mutate(b)
				}
			}
		}
		segs, consumed, err, p := rawDecode(b)
		items := make([]string, len(segs))
		total := 0
		var cat []byte
		for k, s := range segs {
			items[k] = fmt.Sprintf("(%s, %s)", rawFlagNames[s.flag], coqBytes(s.b))
			total += len(s.b)
			cat = append(cat, s.b...)
		}
		e := "None"
		if err != nil {
			e = fmt.Sprintf("(Some %d)", errClass(err))
		}
		if p != nil {
			emitJSON("FAIL", "", map[string]any{"kind": "raw-panic", "panic": fmt.Sprint(p), "bytes": fmt.Sprintf("%x", b)})
			continue
		}
		emit("CASE", fmt.Sprintf("(%s, %s, %d, %s)", coqBytes(b), coqList(items), consumed, e))
		stat("raw_cases", 1)
		if err == nil {
			stat("raw_ok", 1)
		} else {
			stat(fmt.Sprintf("raw_err%d", errClass(err)), 1)
		}
		// oracle 1: the segments concatenate to exactly the bytes reported as consumed (on success: all of them)
		if err == nil && (int64(total) != consumed || !bytes.Equal(cat, b[:consumed])) {
			emitJSON("FAIL", "", map[string]any{"kind": "segments-vs-consumed", "bytes": fmt.Sprintf("%x", b), "consumed": consumed, "segment_bytes": total})
		}
		if err != nil && (int64(total) > consumed || !bytes.Equal(cat, b[:total])) {
			emitJSON("FAIL", "", map[string]any{"kind": "segments-not-a-prefix", "bytes": fmt.Sprintf("%x", b), "consumed": consumed, "segment_bytes": total})
		}
		// oracle 2: whenever the full decoder (checksum ignored) accepts, the raw decoder accepts and both agree on the series
		lis := &seriesListener{}
		res := decodeAll(bytes.NewReader(b), len(b), decoder.WithIgnoreChecksum(), decoder.WithMesgListener(lis), decoder.WithMesgDefListener(lis), decoder.WithNoComponentExpansion())
		// "accepts" = every byte belongs to a complete sequence (a cut-off header at the very end is read as the end of the stream by
		// a buffered full decoder: known finding eof_kind_depends_on_chunking; the raw decoder reports it)
		whole := 0
		for _, f := range res.fits {
			whole += int(f.FileHeader.Size) + int(f.FileHeader.DataSize) + 2
		}
		if res.err == nil && res.panicked == nil && whole >= len(b) {
			stat("full_decoder_accepts", 1)
			rawItems, seqs := seriesFromRaw(segs)
			if err != nil {
				emitJSON("FAIL", "", map[string]any{"kind": "full-accepts-raw-rejects", "bytes": fmt.Sprintf("%x", b), "raw_err": err.Error()})
			} else if seqs != len(res.fits) || fmt.Sprint(rawItems) != fmt.Sprint(lis.items) {
				emitJSON("FAIL", "", map[string]any{"kind": "series-differ", "bytes": fmt.Sprintf("%x", b), "raw_sequences": seqs, "full_sequences": len(res.fits),
					"raw": fmt.Sprint(rawItems)[:minInt(400, len(fmt.Sprint(rawItems)))], "full": fmt.Sprint(lis.items)[:minInt(400, len(fmt.Sprint(lis.items)))]})
			}
		}
		if i >= 0 && i < 2 {
			emit("SAMPLE", fmt.Sprintf("%d bytes -> %d segments, consumed %d, err %v", len(b), len(segs), consumed, err))
		}
		// oracle 3: the same through the full decoder's other entry points -- the first sequence only peeked at and discarded
		// (Next, PeekFileId, Discard), the rest decoded; and a reused decoder (PeekFileId on another stream, Reset, Decode): what
		// it then accepts to the end the raw decoder accepts as well.  Also on a chain whose second sequence relies on a
		// definition that only the first one carries.
		for _, in := range append([][]byte{b}, c16DependentChain(b)...) {
			for how := 0; how < 2; how++ {
				skipped := 0
				accepted := func() (ok bool) {
					defer func() {
						if recover() != nil {
							ok = false
						}
					}()
					dec := decoder.New(bytes.NewReader(in), decoder.WithIgnoreChecksum(), decoder.WithNoComponentExpansion())
					if how == 0 {
						if !dec.Next() {
							return false
						}
						if _, err := dec.PeekFileId(); err != nil {
							return false
						}
						if err := dec.Discard(); err != nil {
							return false
						}
					} else { // the decoder peeked into this very stream before, then starts over on its tail (everything after the first sequence)
						if _, err := dec.PeekFileId(); err != nil {
							return false
						}
						first := int(in[0]) + int(binary.LittleEndian.Uint32(in[4:8])) + 2
						if first >= len(in) {
							return false
						}
						in = in[first:]
						dec.Reset(bytes.NewReader(in), decoder.WithIgnoreChecksum(), decoder.WithNoComponentExpansion())
					}
					seen := 0
					if how == 0 {
						skipped = int(in[0]) + int(binary.LittleEndian.Uint32(in[4:8])) + 2
					}
					for dec.Next() {
						fit, err := dec.Decode()
						if err != nil {
							return false
						}
						seen += int(fit.FileHeader.Size) + int(fit.FileHeader.DataSize) + 2
					}
					return seen > 0 && seen+skipped >= len(in) // every byte belongs to a complete sequence (as in oracle 2)
				}
				if len(in) < 14 {
					continue
				}
				stat("oracle_other_entry_points", 1)
				if accepted() {
					tail := in
					if how == 0 {
						first := int(in[0]) + int(binary.LittleEndian.Uint32(in[4:8])) + 2
						if first >= len(in) {
							continue
						}
						tail = in[first:]
					}
					if _, _, rerr, _ := rawDecode(tail); rerr != nil {
						emitJSON("FAIL", "", map[string]any{"kind": "full-accepts-raw-rejects (after PeekFileId and Discard / Reset)", "how": []string{"Next,PeekFileId,Discard,then Decode", "PeekFileId,Reset onto the tail,Decode"}[how],
							"bytes": fmt.Sprintf("%x", in), "tail_the_raw_decoder_rejects": fmt.Sprintf("%x", tail), "raw_err": rerr.Error()})
					}
				}
			}
		}
	}
}

// c16DependentChain: when b starts with a complete sequence whose first record is a definition, the chain b ++ (b's first
// sequence without that definition): the second sequence uses a local message type it never defines.
func c16DependentChain(b []byte) [][]byte {
	if len(b) < 20 || (b[0] != 12 && b[0] != 14) {
		return nil
	}
	hs, ds := int(b[0]), int(binary.LittleEndian.Uint32(b[4:8]))
	if hs+ds+2 > len(b) || ds < 8 || b[hs]&0xE0 != 0x40 { // a normal-header definition without developer part
		return nil
	}
	dl := 6 + 3*int(b[hs+5])
	if dl >= ds {
		return nil
	}
	second := append([]byte(nil), b[:hs]...)
	binary.LittleEndian.PutUint32(second[4:8], uint32(ds-dl))
	if hs == 14 {
		second[12], second[13] = 0, 0 // header CRC "not set"
	}
	second = append(second, b[hs+dl:hs+ds+2]...)
	return [][]byte{append(append([]byte(nil), b[:hs+ds+2]...), second...)}
}

func basetypeOf(b byte) basetype.BaseType { return basetype.BaseType(b) }

// c16Boundary: definitions with 1 / 85 / 86 / 170 / 171 / 255 fields and 0 / 1 / 85 / 86 / 255 developer fields (where 8-bit
// arithmetic on 3*n wraps), each followed by data records, after a developer data id and one field description; also a chain.
func c16Boundary() [][]byte {
	var out [][]byte
	pre := []byte{
		0x40, 0, 0, 207, 0, 1, 3, 1, 2, 0x00, 0, // developer_data_id: developer_data_index = 0
		0x41, 0, 0, 206, 0, 3, 0, 1, 2, 1, 1, 2, 2, 1, 2, 0x01, 0, 0, 2, // field_description: idx 0, num 0, uint8
	}
	for _, nf := range []int{1, 85, 86, 170, 171, 255} {
		for _, nd := range []int{-1, 0, 1, 85, 86, 255} {
			rec := append([]byte(nil), pre...)
			h := byte(0x42)
			if nd >= 0 {
				h |= 0x20
			}
			rec = append(rec, h, 0, 0, 0x10, 0xFF, byte(nf))
			for i := 0; i < nf; i++ {
				rec = append(rec, byte(i), 1, 2)
			}
			if nd >= 0 {
				rec = append(rec, byte(nd))
				for i := 0; i < nd; i++ {
					rec = append(rec, 0, 1, 0)
				}
			}
			for k := 0; k < 2; k++ {
				rec = append(rec, 0x02)
				for i := 0; i < nf+maxInt(nd, 0); i++ {
					rec = append(rec, byte(i+k))
				}
			}
			out = append(out, rawSeq(rec))
		}
	}
	out = append(out, append(append([]byte(nil), out[3]...), out[10]...))
	// message lengths around and beyond 2^16: 255 fields of 255 bytes plus 2 / 3 / 255 developer fields of 255 bytes
	// (1 + 65535 = 65536, 65791, and the maximum 130051), followed by a small message so that a wrong length shows as bad framing
	for _, nd := range []int{2, 3, 255} {
		rec := append([]byte(nil), pre...)
		rec = append(rec, 0x62, 0, 0, 0x10, 0xFF, 255)
		for i := 0; i < 255; i++ {
			rec = append(rec, byte(i), 255, 13)
		}
		rec = append(rec, byte(nd))
		for i := 0; i < nd; i++ {
			rec = append(rec, 0, 255, 0)
		}
		rec = append(rec, 0x02)
		for i := 0; i < (255+nd)*255; i++ {
			rec = append(rec, byte(7*i+3))
		}
		rec = append(rec, 0x43, 0, 0, 0x11, 0xFF, 1, 0, 1, 2, 0x03, 0x2A)
		out = append(out, rawSeq(rec))
	}
	return out
}

func maxInt(a, b int) int {
	if a > b {
		return a
	}
	return b
}
