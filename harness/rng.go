package main

// SplitMix64: the single source of randomness.
type rng struct{ s uint64 }

func newRng(seed uint64) *rng { return &rng{seed*0x9E3779B97F4A7C15 + 0x1234567} }

func (r *rng) u64() uint64 {
	r.s += 0x9E3779B97F4A7C15
	z := r.s
	z = (z ^ (z >> 30)) * 0xBF58476D1CE4E5B9
	z = (z ^ (z >> 27)) * 0x94D049BB133111EB
	return z ^ (z >> 31)
}
func (r *rng) intn(n int) int {
	if n <= 0 {
		return 0
	}
	return int(r.u64() % uint64(n))
}
func (r *rng) chance(num, den int) bool { return r.intn(den) < num }
func (r *rng) bytes(n int) []byte {
	b := make([]byte, n)
	for i := range b {
		b[i] = byte(r.u64())
	}
	return b
}
func (r *rng) pick(xs ...int) int { return xs[r.intn(len(xs))] }
func (r *rng) fork() *rng         { return &rng{r.u64()} }
