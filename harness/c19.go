package main

// C19 -- fitconv: FIT -> CSV -> FIT preserves messages and field values.
//
// Generates FIT files over all profile messages (scalar, array, string, invalid, sub-field, scaled fields,
// unknown messages/fields, developer fields, chained sequences), converts them with the real fitcsv package
// FIT->CSV->FIT under the converter options, decodes input and output and compares (direct oracle), checks the
// column count of every CSV line, and prints CASE lines for the Coq model (coq/Model/Csv.v, coq/Run/RunC19.v).

import (
	"bytes"
	"encoding/csv"
	"encoding/hex"
	"encoding/json"
	"errors"
	"fmt"
	"io"
	"math"
	"os"
	"sort"
	"strconv"
	"strings"
	"unicode/utf8"

	"github.com/muktihari/fit/cmd/fitconv/fitcsv"
	"github.com/muktihari/fit/decoder"
	"github.com/muktihari/fit/encoder"
	"github.com/muktihari/fit/profile"
	"github.com/muktihari/fit/profile/basetype"
	"github.com/muktihari/fit/profile/factory"
	"github.com/muktihari/fit/profile/typedef"
	"github.com/muktihari/fit/proto"
)

func init() { cmds["c19"] = c19 }

// ---------------------------------------------------------------------------------------------- options

type c19Opts struct {
	raw, verbose, degrees, trim, disk, seekW, expand bool
}

func (o c19Opts) String() string {
	var s []string
	for _, kv := range []struct {
		k string
		v bool
	}{{"raw", o.raw}, {"verbose", o.verbose}, {"deg", o.degrees}, {"trim", o.trim}, {"disk", o.disk}, {"seekw", o.seekW}, {"expand", o.expand}} {
		if kv.v {
			s = append(s, kv.k)
		}
	}
	if len(s) == 0 {
		return "default"
	}
	return strings.Join(s, "+")
}

func (o c19Opts) coq() string {
	return fmt.Sprintf("(mkopts %s %s %s %s)", coqBool(o.raw), coqBool(o.verbose), coqBool(o.degrees), coqBool(o.trim))
}

// ---------------------------------------------------------------------------------------------- projection

// pvalue: a proto.Value projected to (kind, slice?, elements); integers as int64/uint64 text, floats as float64 bits of the
// widened value (plus the 32-bit pattern for float32, kept for the direct oracle only), strings as bytes.
type pvalue struct {
	kind  string // "" = invalid
	many  bool
	elems []string // coq scalar terms
	key   string   // canonical text for equality in the direct oracle (bit exact)
}

func coqStr(s string) string {
	plain := true
	for i := 0; i < len(s); i++ {
		if s[i] < 0x20 || s[i] > 0x7e {
			plain = false
			break
		}
	}
	if plain {
		return "\"" + strings.ReplaceAll(s, "\"", "\"\"") + "\""
	}
	return "(sb " + coqBytes([]byte(s)) + ")"
}

// like coqStr but a TAB is allowed inside a plain literal
func coqStrTab(s string) string {
	plain := true
	for i := 0; i < len(s); i++ {
		if (s[i] < 0x20 && s[i] != '\t') || s[i] > 0x7e {
			plain = false
			break
		}
	}
	if plain {
		return "\"" + strings.ReplaceAll(s, "\"", "\"\"") + "\""
	}
	return "(sb " + coqBytes([]byte(s)) + ")"
}

func szI(v int64) string   { return "(SZ " + coqZ(v) + ")" }
func szU(v uint64) string  { return "(SZ " + strconv.FormatUint(v, 10) + "%Z)" }
func sfl(v float64) string { return "(SF " + strconv.FormatUint(math.Float64bits(v), 10) + ")" }

func projValue(v proto.Value) pvalue {
	p := pvalue{}
	var keys []string
	addI := func(x int64) { p.elems = append(p.elems, szI(x)); keys = append(keys, strconv.FormatInt(x, 10)) }
	addU := func(x uint64) { p.elems = append(p.elems, szU(x)); keys = append(keys, strconv.FormatUint(x, 10)) }
	addF32 := func(x float32) {
		p.elems = append(p.elems, sfl(float64(x)))
		keys = append(keys, fmt.Sprintf("f32:%08x", math.Float32bits(x)))
	}
	addF64 := func(x float64) {
		p.elems = append(p.elems, sfl(x))
		keys = append(keys, fmt.Sprintf("f64:%016x", math.Float64bits(x)))
	}
	addS := func(x string) { p.elems = append(p.elems, "(SS "+coqStr(x)+")"); keys = append(keys, strconv.Quote(x)) }
	switch v.Type() {
	case proto.TypeBool:
		p.kind = "KBool"
		addU(uint64(v.Bool()))
	case proto.TypeInt8:
		p.kind = "KInt8"
		addI(int64(v.Int8()))
	case proto.TypeUint8:
		p.kind = "KUint8"
		addU(uint64(v.Uint8()))
	case proto.TypeInt16:
		p.kind = "KInt16"
		addI(int64(v.Int16()))
	case proto.TypeUint16:
		p.kind = "KUint16"
		addU(uint64(v.Uint16()))
	case proto.TypeInt32:
		p.kind = "KInt32"
		addI(int64(v.Int32()))
	case proto.TypeUint32:
		p.kind = "KUint32"
		addU(uint64(v.Uint32()))
	case proto.TypeInt64:
		p.kind = "KInt64"
		addI(v.Int64())
	case proto.TypeUint64:
		p.kind = "KUint64"
		addU(v.Uint64())
	case proto.TypeFloat32:
		p.kind = "KFloat32"
		addF32(v.Float32())
	case proto.TypeFloat64:
		p.kind = "KFloat64"
		addF64(v.Float64())
	case proto.TypeString:
		p.kind = "KString"
		addS(v.String())
	case proto.TypeSliceBool:
		p.kind, p.many = "KBool", true
		for _, x := range v.SliceBool() {
			addU(uint64(x))
		}
	case proto.TypeSliceInt8:
		p.kind, p.many = "KInt8", true
		for _, x := range v.SliceInt8() {
			addI(int64(x))
		}
	case proto.TypeSliceUint8:
		p.kind, p.many = "KUint8", true
		for _, x := range v.SliceUint8() {
			addU(uint64(x))
		}
	case proto.TypeSliceInt16:
		p.kind, p.many = "KInt16", true
		for _, x := range v.SliceInt16() {
			addI(int64(x))
		}
	case proto.TypeSliceUint16:
		p.kind, p.many = "KUint16", true
		for _, x := range v.SliceUint16() {
			addU(uint64(x))
		}
	case proto.TypeSliceInt32:
		p.kind, p.many = "KInt32", true
		for _, x := range v.SliceInt32() {
			addI(int64(x))
		}
	case proto.TypeSliceUint32:
		p.kind, p.many = "KUint32", true
		for _, x := range v.SliceUint32() {
			addU(uint64(x))
		}
	case proto.TypeSliceInt64:
		p.kind, p.many = "KInt64", true
		for _, x := range v.SliceInt64() {
			addI(x)
		}
	case proto.TypeSliceUint64:
		p.kind, p.many = "KUint64", true
		for _, x := range v.SliceUint64() {
			addU(x)
		}
	case proto.TypeSliceFloat32:
		p.kind, p.many = "KFloat32", true
		for _, x := range v.SliceFloat32() {
			addF32(x)
		}
	case proto.TypeSliceFloat64:
		p.kind, p.many = "KFloat64", true
		for _, x := range v.SliceFloat64() {
			addF64(x)
		}
	case proto.TypeSliceString:
		p.kind, p.many = "KString", true
		for _, x := range v.SliceString() {
			addS(x)
		}
	}
	p.key = fmt.Sprintf("%s/%v[%s]", p.kind, p.many, strings.Join(keys, " "))
	return p
}

func (p pvalue) coq() string {
	if p.kind == "" {
		return "VInvalid"
	}
	if p.many {
		return "(VMany " + p.kind + " " + coqList(p.elems) + ")"
	}
	return "(VOne " + p.kind + " " + p.elems[0] + ")"
}

type pfield struct {
	num, base byte
	val       pvalue
	name      string
	raw       proto.Value
	scale     float64
	offset    float64
	expanded  bool
}
type pdev struct {
	num, idx byte
	val      pvalue
}
type pmesg struct {
	local  byte
	num    uint16
	fields []pfield
	devs   []pdev
}

func projMesg(m *proto.Message) pmesg {
	pm := pmesg{local: proto.LocalMesgNum(m.Header), num: uint16(m.Num)}
	for i := range m.Fields {
		f := &m.Fields[i]
		pm.fields = append(pm.fields, pfield{num: f.Num, base: byte(f.BaseType), val: projValue(f.Value), name: f.Name, raw: f.Value,
			scale: f.Scale, offset: f.Offset, expanded: f.IsExpandedField})
	}
	for i := range m.DeveloperFields {
		d := &m.DeveloperFields[i]
		pm.devs = append(pm.devs, pdev{num: d.Num, idx: d.DeveloperDataIndex, val: projValue(d.Value)})
	}
	return pm
}

func (m pmesg) coq(withLocal bool) string {
	fs := make([]string, len(m.fields))
	for i, f := range m.fields {
		fs[i] = fmt.Sprintf("mkfield %d %d %s", f.num, f.base, f.val.coq())
	}
	ds := make([]string, len(m.devs))
	for i, d := range m.devs {
		ds[i] = fmt.Sprintf("mkdev %d %d %s", d.num, d.idx, d.val.coq())
	}
	local := 0
	if withLocal {
		local = int(m.local)
	}
	return fmt.Sprintf("mkmesg %d %d %s %s", local, m.num, coqList(fs), coqList(ds))
}

func (m pmesg) human() string {
	var sb strings.Builder
	fmt.Fprintf(&sb, "mesg %d {", m.num)
	for _, f := range m.fields {
		fmt.Fprintf(&sb, " %d:%s", f.num, f.val.key)
	}
	for _, d := range m.devs {
		fmt.Fprintf(&sb, " dev%d.%d:%s", d.idx, d.num, d.val.key)
	}
	sb.WriteString(" }")
	return sb.String()
}

// ---------------------------------------------------------------------------------------------- generation

type c19Gen struct {
	r         *rng
	mesgNums  []typedef.MesgNum
	unclean   bool // include profile fields whose units/name contain a comma (record.compressed_speed_distance: "m/s,m")
	textLayer bool // strings may contain commas, quotes, newlines, non-printable runes
	devNames  int
}

var c19Runes = []rune("abcXYZ019 _-+/.:;()[]éüß水中文日本語ΩЖ€😀")
var c19TextRunes = []rune(",\"\n\r\t|\u0085 ​'\\")

func (g *c19Gen) str(maxBytes int) string {
	n := g.r.intn(6)
	if g.r.chance(1, 6) {
		n = g.r.intn(14)
	}
	var sb strings.Builder
	for i := 0; i < n; i++ {
		var c rune
		if g.textLayer && g.r.chance(1, 3) {
			c = c19TextRunes[g.r.intn(len(c19TextRunes))]
		} else {
			c = c19Runes[g.r.intn(len(c19Runes))]
		}
		if sb.Len()+utf8.RuneLen(c) > maxBytes {
			break
		}
		sb.WriteRune(c)
	}
	s := sb.String()
	if !g.textLayer {
		s = strings.TrimSpace(s) // keep the main stream free of leading/trailing blanks only for readability
		if s == "" {
			s = "s" + strconv.Itoa(g.r.intn(100))
		}
	}
	return s
}

func (g *c19Gen) uintBits(bits uint, invalid uint64) uint64 {
	max := uint64(1)<<bits - 1
	if bits == 64 {
		max = math.MaxUint64
	}
	switch g.r.intn(12) {
	case 0:
		return invalid
	case 1:
		return 0
	case 2:
		return 1
	case 3:
		return max
	case 4:
		return max - 1
	case 5:
		return uint64(g.r.intn(256)) & max
	case 6:
		return uint64(g.r.intn(70000)) & max
	}
	return g.r.u64() & max
}

func (g *c19Gen) f32() float32 {
	switch g.r.intn(12) {
	case 0:
		return math.Float32frombits(basetype.Float32Invalid)
	case 1:
		return 0
	case 2:
		return float32(g.r.intn(2000)) - 1000
	case 3:
		return float32(g.r.intn(2000000)-1000000) / 1000
	case 4:
		return 1e-5
	case 5:
		return 3e9
	case 6:
		return float32(math.Inf(1))
	case 7:
		return math.Float32frombits(1) // subnormal
	case 8:
		return 1.5e20
	}
	for {
		f := math.Float32frombits(uint32(g.r.u64()))
		if f == f {
			return f
		}
	}
}

func (g *c19Gen) f64() float64 {
	switch g.r.intn(12) {
	case 0:
		return math.Float64frombits(basetype.Float64Invalid)
	case 1:
		return 0
	case 2:
		return float64(g.r.intn(2000)) - 1000
	case 3:
		return float64(g.r.intn(2000000)-1000000) / 1000
	case 4:
		return 1e-5
	case 5:
		return 1e19
	case 6:
		return math.Inf(-1)
	case 7:
		return 5e-324
	case 8:
		return 1e21
	case 9:
		return math.Copysign(0, -1)
	}
	for {
		f := math.Float64frombits(g.r.u64())
		if f == f {
			return f
		}
	}
}

// value of the given base type; n = number of elements (0 = scalar)
func (g *c19Gen) value(bt basetype.BaseType, isBool bool, n int) proto.Value {
	if isBool {
		pick := func() typedef.Bool { return typedef.Bool(g.r.pick(0, 1, 1, 0, 255)) }
		if n == 0 {
			return proto.Bool(pick())
		}
		vs := make([]typedef.Bool, n)
		for i := range vs {
			vs[i] = pick()
		}
		return proto.SliceBool(vs)
	}
	switch bt {
	case basetype.Enum, basetype.Byte, basetype.Uint8, basetype.Uint8z:
		inv := uint64(0xFF)
		if bt == basetype.Uint8z {
			inv = 0
		}
		if n == 0 {
			return proto.Uint8(uint8(g.uintBits(8, inv)))
		}
		vs := make([]uint8, n)
		for i := range vs {
			vs[i] = uint8(g.uintBits(8, inv))
		}
		return proto.SliceUint8(vs)
	case basetype.Sint8:
		if n == 0 {
			return proto.Int8(int8(g.uintBits(8, 0x7F)))
		}
		vs := make([]int8, n)
		for i := range vs {
			vs[i] = int8(g.uintBits(8, 0x7F))
		}
		return proto.SliceInt8(vs)
	case basetype.Sint16:
		if n == 0 {
			return proto.Int16(int16(g.uintBits(16, 0x7FFF)))
		}
		vs := make([]int16, n)
		for i := range vs {
			vs[i] = int16(g.uintBits(16, 0x7FFF))
		}
		return proto.SliceInt16(vs)
	case basetype.Uint16, basetype.Uint16z:
		inv := uint64(0xFFFF)
		if bt == basetype.Uint16z {
			inv = 0
		}
		if n == 0 {
			return proto.Uint16(uint16(g.uintBits(16, inv)))
		}
		vs := make([]uint16, n)
		for i := range vs {
			vs[i] = uint16(g.uintBits(16, inv))
		}
		return proto.SliceUint16(vs)
	case basetype.Sint32:
		if n == 0 {
			return proto.Int32(int32(g.uintBits(32, 0x7FFFFFFF)))
		}
		vs := make([]int32, n)
		for i := range vs {
			vs[i] = int32(g.uintBits(32, 0x7FFFFFFF))
		}
		return proto.SliceInt32(vs)
	case basetype.Uint32, basetype.Uint32z:
		inv := uint64(0xFFFFFFFF)
		if bt == basetype.Uint32z {
			inv = 0
		}
		if n == 0 {
			return proto.Uint32(uint32(g.uintBits(32, inv)))
		}
		vs := make([]uint32, n)
		for i := range vs {
			vs[i] = uint32(g.uintBits(32, inv))
		}
		return proto.SliceUint32(vs)
	case basetype.Sint64:
		if n == 0 {
			return proto.Int64(int64(g.uintBits(64, 0x7FFFFFFFFFFFFFFF)))
		}
		vs := make([]int64, n)
		for i := range vs {
			vs[i] = int64(g.uintBits(64, 0x7FFFFFFFFFFFFFFF))
		}
		return proto.SliceInt64(vs)
	case basetype.Uint64, basetype.Uint64z:
		inv := uint64(math.MaxUint64)
		if bt == basetype.Uint64z {
			inv = 0
		}
		if n == 0 {
			return proto.Uint64(g.uintBits(64, inv))
		}
		vs := make([]uint64, n)
		for i := range vs {
			vs[i] = g.uintBits(64, inv)
		}
		return proto.SliceUint64(vs)
	case basetype.Float32:
		if n == 0 {
			return proto.Float32(g.f32())
		}
		vs := make([]float32, n)
		for i := range vs {
			vs[i] = g.f32()
		}
		return proto.SliceFloat32(vs)
	case basetype.Float64:
		if n == 0 {
			return proto.Float64(g.f64())
		}
		vs := make([]float64, n)
		for i := range vs {
			vs[i] = g.f64()
		}
		return proto.SliceFloat64(vs)
	case basetype.String:
		if n == 0 {
			return proto.String(g.str(40))
		}
		vs := make([]string, n)
		for i := range vs {
			vs[i] = g.str(20)
		}
		return proto.SliceString(vs)
	}
	return proto.Value{}
}

// component targets (main and every sub-field) of a field
func c19Targets(f *proto.Field) []byte {
	var ts []byte
	for _, c := range f.Components {
		ts = append(ts, c.FieldNum)
	}
	for _, s := range f.SubFields {
		for _, c := range s.Components {
			ts = append(ts, c.FieldNum)
		}
	}
	return ts
}

// names and units that can be written into a CSV line without quoting (the converter never quotes them)
func c19CleanText(s string) bool { return !strings.ContainsAny(s, ",\"\n\r") }
func c19CleanField(f *proto.Field) bool {
	if !c19CleanText(f.Name) || !c19CleanText(f.Units) {
		return false
	}
	for _, sf := range f.SubFields {
		if !c19CleanText(sf.Name) || !c19CleanText(sf.Units) {
			return false
		}
	}
	return true
}

// one message of the profile: a subset (or all) of its fields; inScope: no field that is an expansion target of another present field.
func (g *c19Gen) profileMesg(num typedef.MesgNum, all bool, inScope bool) proto.Message {
	tmpl := factory.CreateMesg(num)
	order := make([]int, len(tmpl.Fields))
	for i := range order {
		order[i] = i
	}
	for i := len(order) - 1; i > 0; i-- {
		j := g.r.intn(i + 1)
		order[i], order[j] = order[j], order[i]
	}
	mesg := proto.Message{Num: num}
	present := map[byte]bool{}
	blocked := map[byte]bool{} // expansion targets of fields already chosen
	size := 0
	for _, idx := range order {
		f := tmpl.Fields[idx]
		if !all && !g.r.chance(2, 5) {
			continue
		}
		if len(mesg.Fields) >= 60 {
			break
		}
		if !c19CleanField(&f) && !g.unclean {
			continue
		}
		if inScope {
			if blocked[f.Num] {
				continue
			}
			conflict := false
			for _, t := range c19Targets(&f) {
				if present[t] {
					conflict = true
				}
			}
			if conflict {
				continue
			}
		}
		n := 0
		if f.Array {
			n = 1 + g.r.intn(4)
		}
		f.Value = g.value(f.BaseType, f.Type == profile.Bool, n)
		sz := f.Value.Size()
		if size+sz > 240 {
			continue
		}
		size += sz
		present[f.Num] = true
		for _, t := range c19Targets(&f) {
			blocked[t] = true
		}
		mesg.Fields = append(mesg.Fields, f)
	}
	// make a sub-field active in half of the messages that carry a dynamic field
	for i := range mesg.Fields {
		f := &mesg.Fields[i]
		if len(f.SubFields) == 0 || !g.r.chance(2, 3) {
			continue
		}
		sub := f.SubFields[g.r.intn(len(f.SubFields))]
		if len(sub.Maps) == 0 {
			continue
		}
		mp := sub.Maps[g.r.intn(len(sub.Maps))]
		ref := factory.CreateField(num, mp.RefFieldNum)
		if ref.Name == factory.NameUnknown || ref.Array {
			continue
		}
		if inScope && blocked[ref.Num] && !present[ref.Num] {
			continue
		}
		ref.Value = c19IntValue(ref.BaseType, ref.Type == profile.Bool, mp.RefFieldValue)
		if ref.Value.Type() == proto.TypeInvalid {
			continue
		}
		if j := c19FieldIndex(&mesg, ref.Num); j >= 0 {
			mesg.Fields[j].Value = ref.Value
		} else if size+ref.Value.Size() <= 250 {
			if inScope {
				conflict := false
				for _, t := range c19Targets(&ref) {
					if present[t] {
						conflict = true
					}
				}
				if conflict {
					continue
				}
				for _, t := range c19Targets(&ref) {
					blocked[t] = true
				}
			}
			size += ref.Value.Size()
			present[ref.Num] = true
			mesg.Fields = append(mesg.Fields, ref)
		}
	}
	return mesg
}

func c19Append(seq []proto.Message, m proto.Message) []proto.Message {
	if len(m.Fields) == 0 && len(m.DeveloperFields) == 0 {
		return seq
	}
	return append(seq, m)
}

func c19FieldIndex(m *proto.Message, num byte) int {
	for i := range m.Fields {
		if m.Fields[i].Num == num {
			return i
		}
	}
	return -1
}

func c19IntValue(bt basetype.BaseType, isBool bool, v int64) proto.Value {
	if isBool {
		return proto.Value{}
	}
	switch bt {
	case basetype.Enum, basetype.Byte, basetype.Uint8, basetype.Uint8z:
		return proto.Uint8(uint8(v))
	case basetype.Sint8:
		return proto.Int8(int8(v))
	case basetype.Sint16:
		return proto.Int16(int16(v))
	case basetype.Uint16, basetype.Uint16z:
		return proto.Uint16(uint16(v))
	case basetype.Sint32:
		return proto.Int32(int32(v))
	case basetype.Uint32, basetype.Uint32z:
		return proto.Uint32(uint32(v))
	}
	return proto.Value{}
}

var c19BaseTypes = []basetype.BaseType{basetype.Enum, basetype.Sint8, basetype.Uint8, basetype.Sint16, basetype.Uint16, basetype.Sint32,
	basetype.Uint32, basetype.String, basetype.Float32, basetype.Float64, basetype.Uint8z, basetype.Uint16z, basetype.Uint32z, basetype.Byte,
	basetype.Sint64, basetype.Uint64, basetype.Uint64z}

func (g *c19Gen) unknownField(num byte) proto.Field {
	f := factory.CreateField(typedef.MesgNumInvalid, num) // a fresh unknown field
	f.Num = num
	f.BaseType = c19BaseTypes[g.r.intn(len(c19BaseTypes))]
	f.Type = profile.ProfileTypeFromBaseType(f.BaseType)
	n := 0
	if g.r.chance(1, 3) {
		n = 2 + g.r.intn(3) // a one-element array on an unknown field is decoded as a scalar (C01 lossy shape): not generated
	}
	f.Array = n > 0
	f.Value = g.value(f.BaseType, false, n)
	return f
}

// an unknown message (number outside the profile); mfg = in the manufacturer range
func (g *c19Gen) unknownMesg(mfg bool) proto.Message {
	var num typedef.MesgNum
	for {
		num = typedef.MesgNum(g.r.pick(13, 22, 79, 104, 113, 140, 141, 147, 233, 288, 325, 326, 327, 411, 500, 1000, 65279))
		if mfg {
			num = typedef.MesgNum(g.r.pick(0xFF00, 0xFF01, 0xFF80, 0xFFFE, 0xFFFD))
		}
		if strings.HasPrefix(num.String(), "MesgNumInvalid") || mfg {
			break
		}
	}
	m := proto.Message{Num: num}
	used := map[byte]bool{}
	for i, n := 0, 1+g.r.intn(5); i < n; i++ {
		fn := byte(g.r.intn(250))
		if g.r.chance(1, 6) {
			fn = 253
		}
		if used[fn] {
			continue
		}
		used[fn] = true
		m.Fields = append(m.Fields, g.unknownField(fn))
	}
	return m
}

// unknown field number inside a known message
func (g *c19Gen) addUnknownField(m *proto.Message) {
	for try := 0; try < 20; try++ {
		fn := byte(g.r.intn(253))
		if factory.CreateField(m.Num, fn).Name != factory.NameUnknown || c19FieldIndex(m, fn) >= 0 {
			continue
		}
		m.Fields = append(m.Fields, g.unknownField(fn))
		return
	}
}

type c19DevDesc struct {
	idx, num byte
	bt       basetype.BaseType
	name     string
	units    string
	scale    uint8
	offset   int8
	array    bool
}

// developer data id + field descriptions (unique names; scale/offset left invalid unless scaled is set)
func (g *c19Gen) devSetup(n int, scaledFloat bool, commaNames bool) ([]proto.Message, []c19DevDesc) {
	var ms []proto.Message
	var descs []c19DevDesc
	did := factory.CreateMesg(typedef.MesgNumDeveloperDataId)
	did.Fields = nil
	fidx := factory.CreateField(typedef.MesgNumDeveloperDataId, 3)
	fidx.Value = proto.Uint8(0)
	fapp := factory.CreateField(typedef.MesgNumDeveloperDataId, 4)
	fapp.Value = proto.Uint32(uint32(g.r.intn(1000)))
	did.Fields = append(did.Fields, fidx, fapp)
	ms = append(ms, did)
	for i := 0; i < n; i++ {
		g.devNames++
		d := c19DevDesc{idx: 0, num: byte(i), scale: 255, offset: 127}
		bts := []basetype.BaseType{basetype.Uint8, basetype.Sint8, basetype.Uint16, basetype.Sint16, basetype.Uint32, basetype.Sint32, basetype.Float32,
			basetype.Float64, basetype.String, basetype.Uint64, basetype.Sint64, basetype.Byte, basetype.Uint16z}
		d.bt = bts[g.r.intn(len(bts))]
		d.name = fmt.Sprintf("Dev %s %d", []string{"Power", "Stiffness", "Form", "Air", "Ω"}[g.r.intn(5)], g.devNames)
		if commaNames && g.r.chance(1, 2) {
			d.name = fmt.Sprintf("Speed, avg %d", g.devNames)
		}
		d.units = []string{"", "W", "kN/m", "m/s", "%"}[g.r.intn(5)]
		d.array = d.bt != basetype.String && g.r.chance(1, 4)
		if scaledFloat && d.bt == basetype.Float32 {
			d.scale = uint8(g.r.pick(2, 10, 100))
		}
		fd := proto.Message{Num: typedef.MesgNumFieldDescription}
		add := func(num byte, v proto.Value) {
			f := factory.CreateField(typedef.MesgNumFieldDescription, num)
			f.Value = v
			fd.Fields = append(fd.Fields, f)
		}
		add(0, proto.Uint8(d.idx))
		add(1, proto.Uint8(d.num))
		add(2, proto.Uint8(uint8(d.bt)))
		add(3, proto.SliceString([]string{d.name}))
		if d.scale != 255 {
			add(6, proto.Uint8(d.scale))
		}
		if d.units != "" {
			add(8, proto.SliceString([]string{d.units}))
		}
		ms = append(ms, fd)
		descs = append(descs, d)
	}
	return ms, descs
}

func (g *c19Gen) addDevFields(m *proto.Message, descs []c19DevDesc) {
	for _, d := range descs {
		if !g.r.chance(1, 2) {
			continue
		}
		n := 0
		if d.array {
			n = 2 + g.r.intn(3)
		}
		m.DeveloperFields = append(m.DeveloperFields, proto.DeveloperField{Num: d.num, DeveloperDataIndex: d.idx, Value: g.value(d.bt, false, n)})
	}
}

func (g *c19Gen) fileId() proto.Message {
	m := proto.Message{Num: typedef.MesgNumFileId}
	add := func(num byte, v proto.Value) {
		f := factory.CreateField(typedef.MesgNumFileId, num)
		f.Value = v
		m.Fields = append(m.Fields, f)
	}
	add(0, proto.Uint8(uint8(g.r.pick(4, 4, 2, 6, 9))))
	mf := uint16(g.r.pick(1, 1, 263, 15, 255, 32))
	add(1, proto.Uint16(mf))
	add(2, proto.Uint16(uint16(g.r.intn(5000))))
	add(4, proto.Uint32(uint32(1000000000+g.r.intn(100000000))))
	if g.r.chance(1, 2) {
		add(8, proto.String(g.str(20)))
	}
	return m
}

// ---------------------------------------------------------------------------------------------- running the implementation

type seekBuf struct { // in-memory io.WriteSeeker + io.WriterAt
	b   []byte
	pos int64
}

func (s *seekBuf) Write(p []byte) (int, error) {
	end := s.pos + int64(len(p))
	if end > int64(len(s.b)) {
		s.b = append(s.b, make([]byte, end-int64(len(s.b)))...)
	}
	copy(s.b[s.pos:], p)
	s.pos = end
	return len(p), nil
}
func (s *seekBuf) WriteAt(p []byte, off int64) (int, error) {
	end := off + int64(len(p))
	if end > int64(len(s.b)) {
		s.b = append(s.b, make([]byte, end-int64(len(s.b)))...)
	}
	copy(s.b[off:], p)
	return len(p), nil
}
func (s *seekBuf) Seek(off int64, whence int) (int64, error) {
	switch whence {
	case io.SeekStart:
		s.pos = off
	case io.SeekCurrent:
		s.pos += off
	case io.SeekEnd:
		s.pos = int64(len(s.b)) + off
	}
	if s.pos < 0 {
		return 0, errors.New("negative position")
	}
	return s.pos, nil
}

func c19Encode(seqs [][]proto.Message) ([]byte, error) {
	var buf bytes.Buffer
	for _, ms := range seqs {
		enc := encoder.New(&buf, encoder.WithProtocolVersion(proto.V2), encoder.WithHeaderOption(encoder.HeaderOptionNormal, 15),
			encoder.WithMessageValidator(encoder.NewMessageValidator(encoder.ValidatorWithPreserveInvalidValues())))
		cp := make([]proto.Message, len(ms))
		for i := range ms {
			cp[i] = ms[i]
			cp[i].Fields = append([]proto.Field(nil), ms[i].Fields...)
			cp[i].DeveloperFields = append([]proto.DeveloperField(nil), ms[i].DeveloperFields...)
		}
		if err := enc.Encode(&proto.FIT{Messages: cp}); err != nil {
			return nil, err
		}
	}
	return buf.Bytes(), nil
}

type c19Def struct {
	local byte
	num   uint16
	fdefs [][3]int
	ddefs [][3]int
}
type c19Event struct {
	def  *c19Def
	mesg *pmesg
}
type c19Recorder struct{ events []c19Event }

func (rec *c19Recorder) OnMesgDef(d proto.MessageDefinition) {
	cd := &c19Def{local: proto.LocalMesgNum(d.Header), num: uint16(d.MesgNum)}
	for _, f := range d.FieldDefinitions {
		cd.fdefs = append(cd.fdefs, [3]int{int(f.Num), int(f.Size), int(f.BaseType)})
	}
	for _, f := range d.DeveloperFieldDefinitions {
		cd.ddefs = append(cd.ddefs, [3]int{int(f.Num), int(f.Size), int(f.DeveloperDataIndex)})
	}
	rec.events = append(rec.events, c19Event{def: cd})
}
func (rec *c19Recorder) OnMesg(m proto.Message) {
	pm := projMesg(&m)
	rec.events = append(rec.events, c19Event{mesg: &pm})
}

func c19DecOpts(expand bool) []decoder.Option {
	var o []decoder.Option
	if !expand {
		o = append(o, decoder.WithNoComponentExpansion())
	}
	return o
}

// decode all sequences; also the event list (definitions and messages in arrival order)
func c19Decode(b []byte, expand bool) (seqs [][]pmesg, events []c19Event, err error) {
	rec := &c19Recorder{}
	dec := decoder.New(bytes.NewReader(b), append(c19DecOpts(expand), decoder.WithMesgDefListener(rec), decoder.WithMesgListener(rec))...)
	for dec.Next() {
		fit, e := dec.Decode()
		if e != nil {
			return seqs, rec.events, e
		}
		var ms []pmesg
		for i := range fit.Messages {
			ms = append(ms, projMesg(&fit.Messages[i]))
		}
		seqs = append(seqs, ms)
	}
	return seqs, rec.events, nil
}

func c19ToCSV(b []byte, o c19Opts) (csvText []byte, err error) {
	defer func() {
		if r := recover(); r != nil {
			err = fmt.Errorf("panic: %v", r)
		}
	}()
	var w bytes.Buffer
	var opts []fitcsv.Option
	if o.raw {
		opts = append(opts, fitcsv.WithPrintRawValue())
	}
	if o.verbose {
		opts = append(opts, fitcsv.WithPrintUnknownMesgNum())
	}
	if o.degrees {
		opts = append(opts, fitcsv.WithPrintGPSPositionInDegrees())
	}
	if o.trim {
		opts = append(opts, fitcsv.WithTrimTrailingCommas())
	}
	if o.disk { // write buffer of the temporary file: default, tiny, odd, ordinary (the output does not depend on it)
		opts = append(opts, fitcsv.WithUseDisk([]int{512, 0, 1, 7, 4096}[len(b)%5]))
	}
	// queue length between the decoder's goroutine and the converter's: none of the values may change the output
	if k := len(b) % 7; k < 5 {
		opts = append(opts, fitcsv.WithChannelBufferSize([]int{1, 2, 3, 64, 100000}[k]))
	}
	conv := fitcsv.NewFITToCSVConv(&w, opts...)
	dec := decoder.New(bytes.NewReader(b), append(c19DecOpts(o.expand), decoder.WithMesgDefListener(conv), decoder.WithMesgListener(conv),
		decoder.WithBroadcastOnly(), decoder.WithBroadcastMesgCopy())...)
	var derr error
	for dec.Next() {
		if _, derr = dec.Decode(); derr != nil {
			break
		}
	}
	conv.Wait()
	if derr != nil {
		return nil, fmt.Errorf("decode: %w", derr)
	}
	if conv.Err() != nil {
		return nil, fmt.Errorf("conv: %w", conv.Err())
	}
	return w.Bytes(), nil
}

func c19ToFIT(csvText []byte, seekW bool) (out []byte, info fitcsv.CSVToFITConvInfo, err error) {
	defer func() {
		if r := recover(); r != nil {
			err = fmt.Errorf("panic: %v", r)
		}
	}()
	if seekW {
		sb := &seekBuf{}
		conv := fitcsv.NewCSVToFITConv(sb, bytes.NewReader(csvText))
		err = conv.Convert()
		return sb.b, conv.ResultInfo(), err
	}
	var w bytes.Buffer
	conv := fitcsv.NewCSVToFITConv(&w, bytes.NewReader(csvText))
	err = conv.Convert()
	return w.Bytes(), conv.ResultInfo(), err
}

// ---------------------------------------------------------------------------------------------- oracle

// the known-finding classifier of trunc_loses_unit: the truncating conversion of the scaled text loses this raw value
func c19TruncLoses(bt basetype.BaseType, scale, offset float64, x float64) bool {
	if scale == 1 && offset == 0 {
		return false
	}
	v := (x/scale - offset + offset) * scale
	switch bt {
	case basetype.Sint8, basetype.Sint16, basetype.Sint32, basetype.Sint64:
		return float64(int64(v)) != x
	default:
		return float64(uint64(v)) != x
	}
}

func c19Elems(v proto.Value) ([]float64, bool) {
	var xs []float64
	switch v.Type() {
	case proto.TypeInt8:
		xs = []float64{float64(v.Int8())}
	case proto.TypeUint8:
		xs = []float64{float64(v.Uint8())}
	case proto.TypeInt16:
		xs = []float64{float64(v.Int16())}
	case proto.TypeUint16:
		xs = []float64{float64(v.Uint16())}
	case proto.TypeInt32:
		xs = []float64{float64(v.Int32())}
	case proto.TypeUint32:
		xs = []float64{float64(v.Uint32())}
	case proto.TypeSliceInt8:
		for _, x := range v.SliceInt8() {
			xs = append(xs, float64(x))
		}
	case proto.TypeSliceUint8:
		for _, x := range v.SliceUint8() {
			xs = append(xs, float64(x))
		}
	case proto.TypeSliceInt16:
		for _, x := range v.SliceInt16() {
			xs = append(xs, float64(x))
		}
	case proto.TypeSliceUint16:
		for _, x := range v.SliceUint16() {
			xs = append(xs, float64(x))
		}
	case proto.TypeSliceInt32:
		for _, x := range v.SliceInt32() {
			xs = append(xs, float64(x))
		}
	case proto.TypeSliceUint32:
		for _, x := range v.SliceUint32() {
			xs = append(xs, float64(x))
		}
	default:
		return nil, false
	}
	return xs, true
}

// is the difference between in and out (same field) explained by the truncation finding? every element either equal or lost by the classifier
func c19ExplainedByTrunc(in, out pfield) bool {
	if in.scale == 1 && in.offset == 0 {
		return false
	}
	a, ok1 := c19Elems(in.raw)
	b, ok2 := c19Elems(out.raw)
	if !ok1 || !ok2 || len(a) != len(b) || in.val.kind != out.val.kind || in.val.many != out.val.many {
		return false
	}
	some := false
	for i := range a {
		if a[i] == b[i] {
			continue
		}
		if !c19TruncLoses(basetype.BaseType(in.base), in.scale, in.offset, a[i]) {
			return false
		}
		some = true
	}
	return some
}

// NaN payload finding: float32/float64 invalid (all bits set) or any non-canonical NaN comes back as the quiet NaN of strconv
func c19IsNaNElem(key string) bool {
	if strings.HasPrefix(key, "f32:") {
		u, _ := strconv.ParseUint(key[4:], 16, 32)
		f := math.Float32frombits(uint32(u))
		return f != f
	}
	if strings.HasPrefix(key, "f64:") {
		u, _ := strconv.ParseUint(key[4:], 16, 64)
		f := math.Float64frombits(u)
		return f != f
	}
	return false
}

func c19ExplainedByNaN(in, out pfield) bool {
	if in.val.kind != out.val.kind || in.val.many != out.val.many || (in.val.kind != "KFloat32" && in.val.kind != "KFloat64") {
		return false
	}
	a := strings.Fields(strings.TrimSuffix(in.val.key[strings.Index(in.val.key, "[")+1:], "]"))
	b := strings.Fields(strings.TrimSuffix(out.val.key[strings.Index(out.val.key, "[")+1:], "]"))
	if len(a) != len(b) {
		return false
	}
	some := false
	for i := range a {
		if a[i] == b[i] {
			continue
		}
		if !(c19IsNaNElem(a[i]) && c19IsNaNElem(b[i])) {
			return false
		}
		some = true
	}
	return some
}

// what the statement expects to come back from the decoded input
type c19Expect struct {
	seqs           [][]pmesg
	mfgDropped     int
	targetsRemoved int
	outScope       []string // reasons why (parts of) the input are outside the stated scope; the oracle then only reports, never fails
}

func c19IsUnknownMesg(num uint16) bool {
	return strings.HasPrefix(typedef.MesgNum(num).String(), "MesgNumInvalid")
}

func c19Expected(in [][]pmesg, o c19Opts, dropMfg bool) c19Expect {
	var e c19Expect
	for _, seq := range in {
		var ms []pmesg
		for _, m := range seq {
			if (c19IsUnknownMesg(m.num) || m.num >= 0xFF00) && !o.verbose {
				continue
			}
			if dropMfg && (m.num == 0xFF00 || m.num == 0xFFFE) { // named mfg_range_min / mfg_range_max by MesgNum.String: not recovered
				e.mfgDropped++
				continue
			}
			nm := pmesg{num: m.num, devs: m.devs}
			// the stated scope: a field that is the expansion target of another field present in the same message (main components or
			// those of any of its sub-fields) is removed on the way back; inside the scope this removes nothing
			targets := map[byte]bool{}
			for _, f := range m.fields {
				if f.name == factory.NameUnknown && !o.verbose {
					continue
				}
				fb := factory.CreateField(typedef.MesgNum(m.num), f.num)
				for _, t := range c19Targets(&fb) {
					targets[t] = true
				}
			}
			for _, f := range m.fields {
				if f.name == factory.NameUnknown && !o.verbose {
					continue
				}
				if f.expanded {
					continue
				}
				if targets[f.num] {
					e.targetsRemoved++
					continue
				}
				nm.fields = append(nm.fields, f)
			}
			if len(nm.fields) == 0 && len(nm.devs) == 0 {
				continue
			}
			ms = append(ms, nm)
		}
		e.seqs = append(e.seqs, ms)
	}
	return e
}

type c19Diff struct {
	Kind   string  `json:"kind"`
	Seq    int     `json:"seq"`
	Index  int     `json:"mesg_index"`
	Mesg   int     `json:"mesg_num"`
	Field  int     `json:"field_num"`
	Dev    bool    `json:"developer,omitempty"`
	In     string  `json:"in"`
	Out    string  `json:"out"`
	Base   int     `json:"base_type"`
	Scale  float64 `json:"scale,omitempty"`
	Offset float64 `json:"offset,omitempty"`
	known  string
}

func c19Compare(exp [][]pmesg, out [][]pmesg) []c19Diff {
	var ds []c19Diff
	if len(exp) != len(out) {
		ds = append(ds, c19Diff{Kind: "sequence-count", In: strconv.Itoa(len(exp)), Out: strconv.Itoa(len(out)), Field: -1, Mesg: -1})
		return ds
	}
	for s := range exp {
		a, b := exp[s], out[s]
		if len(a) != len(b) {
			ds = append(ds, c19Diff{Kind: "message-count", Seq: s, In: strconv.Itoa(len(a)), Out: strconv.Itoa(len(b)), Field: -1, Mesg: -1})
			continue
		}
		for i := range a {
			if a[i].num != b[i].num {
				ds = append(ds, c19Diff{Kind: "message-num", Seq: s, Index: i, Mesg: int(a[i].num), In: strconv.Itoa(int(a[i].num)), Out: strconv.Itoa(int(b[i].num)), Field: -1})
				continue
			}
			if len(a[i].fields) != len(b[i].fields) {
				ds = append(ds, c19Diff{Kind: "field-count", Seq: s, Index: i, Mesg: int(a[i].num), In: a[i].human(), Out: b[i].human(), Field: -1})
				continue
			}
			for j := range a[i].fields {
				fa, fb := a[i].fields[j], b[i].fields[j]
				if fa.num != fb.num || fa.base != fb.base {
					ds = append(ds, c19Diff{Kind: "field-identity", Seq: s, Index: i, Mesg: int(a[i].num), Field: int(fa.num), Base: int(fa.base),
						In: fmt.Sprintf("num %d base %d", fa.num, fa.base), Out: fmt.Sprintf("num %d base %d", fb.num, fb.base)})
					continue
				}
				if fa.val.key != fb.val.key {
					d := c19Diff{Kind: "field-value", Seq: s, Index: i, Mesg: int(a[i].num), Field: int(fa.num), Base: int(fa.base), In: fa.val.key, Out: fb.val.key,
						Scale: fa.scale, Offset: fa.offset}
					ds = append(ds, d)
				}
			}
			if len(a[i].devs) != len(b[i].devs) {
				ds = append(ds, c19Diff{Kind: "developer-field-count", Seq: s, Index: i, Mesg: int(a[i].num), In: a[i].human(), Out: b[i].human(), Field: -1, Dev: true})
				continue
			}
			for j := range a[i].devs {
				da, db := a[i].devs[j], b[i].devs[j]
				if da.num != db.num || da.idx != db.idx || da.val.key != db.val.key {
					ds = append(ds, c19Diff{Kind: "developer-field-value", Seq: s, Index: i, Mesg: int(a[i].num), Field: int(da.num), Dev: true,
						In: da.val.key, Out: db.val.key})
				}
			}
		}
	}
	return ds
}

// number of differences in the message structure (sequence / message counts and numbers)
func c19Structural(ds []c19Diff) int {
	n := 0
	for _, d := range ds {
		switch d.Kind {
		case "sequence-count", "message-count", "message-num":
			n++
		}
	}
	return n
}

// with component expansion on, expanded fields are regenerated by the decoder (C05): only the physical fields are compared
func c19DropExpanded(seqs [][]pmesg, o c19Opts) [][]pmesg {
	if !o.expand {
		return seqs
	}
	out := make([][]pmesg, len(seqs))
	for si := range seqs {
		out[si] = make([]pmesg, len(seqs[si]))
		for mi := range seqs[si] {
			m := seqs[si][mi]
			var fs []pfield
			for _, f := range m.fields {
				if !f.expanded {
					fs = append(fs, f)
				}
			}
			m.fields = fs
			out[si][mi] = m
		}
	}
	return out
}

// ---------------------------------------------------------------------------------------------- one case

type c19Case struct {
	name    string
	seqs    [][]proto.Message
	opts    c19Opts
	scope   string // "" = inside the stated scope; otherwise the reason (reported as remark, oracle differences are STAT only)
	finding string // every failure of this case is explained by this known finding (the case was built to contain its trigger)
	noCase  bool   // no CASE line (text-layer stream: compared by the direct oracle only)
	descs   []c19DevDesc
	rawIn   []byte // replay: the FIT bytes themselves
}

func (cs *c19Case) devScaled(idx, num byte) bool {
	for _, d := range cs.descs {
		if d.idx == idx && d.num == num && (d.scale != 255 || d.offset != 127) {
			return true
		}
	}
	return false
}

var c19Samples int

func c19FloatLike(s string) bool {
	if s == "" {
		return false
	}
	intLike := true
	for i := 0; i < len(s); i++ {
		c := s[i]
		if !(c >= '0' && c <= '9') && !(i == 0 && c == '-' && len(s) > 1) {
			intLike = false
			break
		}
	}
	return !intLike
}

func (cs *c19Case) run(tmp string) {
	o := cs.opts
	stat("cases", 1)
	stat("opts_"+o.String(), 1)
	in, err := cs.rawIn, error(nil)
	if in == nil {
		in, err = c19Encode(cs.seqs)
	}
	if err != nil {
		stat("gen_encode_error", 1)
		emit("NOTE", fmt.Sprintf("%s: generator could not encode: %v", cs.name, err))
		return
	}
	inSeqs, events, err := c19Decode(in, o.expand)
	if err != nil {
		stat("gen_decode_error", 1)
		emit("NOTE", fmt.Sprintf("%s: generated input does not decode: %v", cs.name, err))
		return
	}
	fail := func(kind string, extra map[string]any) {
		rec := map[string]any{"kind": kind, "case": cs.name, "options": o.String(), "scope": cs.scope, "fit_hex": fmt.Sprintf("%x", in)}
		for k, v := range extra {
			rec[k] = v
		}
		if cs.finding != "" {
			stat("known_"+cs.finding, 1)
			if stats["known_"+cs.finding] <= 3 {
				delete(rec, "fit_hex")
				emitJSON("KNOWN", cs.finding, rec)
			}
			return
		}
		if cs.scope != "" {
			stat("remark_"+cs.scope+"_"+kind, 1)
			if stats["remark_"+cs.scope+"_"+kind] <= 2 {
				delete(rec, "fit_hex")
				emitJSON("REMARK", "", rec)
			}
			return
		}
		emitJSON("FAIL", "", rec)
	}
	csvText, err := c19ToCSV(in, o)
	if err != nil {
		fail("fit-to-csv-error", map[string]any{"error_class": c19ErrClass(err)})
		return
	}
	// every line has the header's column count (encoding/csv, dynamic number of fields)
	rd := csv.NewReader(bytes.NewReader(csvText))
	rd.FieldsPerRecord = -1
	rows, rerr := rd.ReadAll()
	if rerr != nil {
		fail("csv-unreadable", map[string]any{"error_class": "csv"})
		return
	}
	if len(rows) == 0 {
		fail("csv-empty", nil)
		return
	}
	colsOK := true
	if !o.trim {
		for i, r := range rows {
			if len(r) != len(rows[0]) {
				colsOK = false
				fail("column-count", map[string]any{"line": i + 1, "columns": len(r), "header_columns": len(rows[0]), "row_head": r[:min(len(r), 6)]})
				break
			}
		}
	} else {
		for i, r := range rows {
			if len(r) > len(rows[0]) {
				colsOK = false
				fail("column-count", map[string]any{"line": i + 1, "columns": len(r), "header_columns": len(rows[0])})
				break
			}
		}
	}
	stat("csv_rows", len(rows))
	out, _, err := c19ToFIT(csvText, o.seekW)
	if err != nil {
		fail("csv-to-fit-error", map[string]any{"error_class": c19ErrClass(err)})
		return
	}
	outSeqs, _, err := c19Decode(out, o.expand)
	if err != nil {
		fail("output-does-not-decode", map[string]any{"error_class": c19ErrClass(err)})
		return
	}
	exp := c19Expected(inSeqs, o, false)
	if alt := c19Expected(inSeqs, o, true); alt.mfgDropped > 0 && c19Structural(c19Compare(exp.seqs, c19DropExpanded(outSeqs, o))) > c19Structural(c19Compare(alt.seqs, c19DropExpanded(outSeqs, o))) {
		exp = alt // the boundary messages did not come back: known finding, everything else is still compared
	}
	if exp.mfgDropped > 0 {
		stat("known_mfg_range_boundary_message_dropped", exp.mfgDropped)
		if stats["known_mfg_range_boundary_message_dropped"] <= 3 {
			emitJSON("KNOWN", "mfg_range_boundary_message_dropped", map[string]any{"case": cs.name, "options": o.String(), "messages": exp.mfgDropped})
		}
	}
	outCmp := c19DropExpanded(outSeqs, o)
	diffs := c19Compare(exp.seqs, outCmp)
	stat("scope_expansion_targets_removed", exp.targetsRemoved)
	nKnown := 0
	for _, d := range diffs {
		known := ""
		if d.Kind == "field-value" {
			fa := exp.seqs[d.Seq][d.Index].fields
			fb := outCmp[d.Seq][d.Index].fields
			for j := range fa {
				if int(fa[j].num) == d.Field {
					if !o.raw && c19ExplainedByTrunc(fa[j], fb[j]) {
						known = "trunc_loses_unit"
					} else if c19ExplainedByNaN(fa[j], fb[j]) {
						known = "float_nan_payload_lost"
					} else if fa[j].val.kind == "KInt64" && !fa[j].val.many && fb[j].val.key == "KInt64/false[-1]" {
						known = "sint64_scalar_prints_minus_one"
					}
				}
			}
		}
		if d.Kind == "developer-field-value" {
			da := exp.seqs[d.Seq][d.Index].devs
			db := outCmp[d.Seq][d.Index].devs
			for j := range da {
				if int(da[j].num) == d.Field && j < len(db) {
					if c19ExplainedByNaN(pfield{val: da[j].val}, pfield{val: db[j].val}) {
						known = "float_nan_payload_lost"
					} else if da[j].val.kind == "KInt64" && !da[j].val.many && db[j].val.key == "KInt64/false[-1]" {
						known = "sint64_scalar_prints_minus_one"
					} else if (da[j].val.kind == "KFloat32" || da[j].val.kind == "KFloat64") && cs.devScaled(da[j].idx, da[j].num) {
						known = "dev_float_scale_on_input_only"
					}
				}
			}
		}
		if known != "" && cs.scope == "" {
			nKnown++
			stat("known_"+known, 1)
			if stats["known_"+known] <= 3 {
				emitJSON("KNOWN", known, map[string]any{"case": cs.name, "options": o.String(), "diff": d})
			}
			continue
		}
		fail(d.Kind, map[string]any{"diff": d})
	}
	if len(diffs) == 0 {
		stat("roundtrip_equal", 1)
	}
	nm, nf := 0, 0
	for _, s := range inSeqs {
		nm += len(s)
		for _, m := range s {
			nf += len(m.fields) + len(m.devs)
		}
	}
	stat("messages", nm)
	stat("fields", nf)
	stat(fmt.Sprintf("sequences_%d", len(inSeqs)), 1)
	if cs.noCase || !colsOK {
		return
	}
	// CASE line for the model
	evs := make([]string, len(events))
	for i, ev := range events {
		if ev.def != nil {
			fd := make([]string, len(ev.def.fdefs))
			for j, f := range ev.def.fdefs {
				fd[j] = fmt.Sprintf("(%d, %d, %d)", f[0], f[1], f[2])
			}
			dd := make([]string, len(ev.def.ddefs))
			for j, f := range ev.def.ddefs {
				dd[j] = fmt.Sprintf("(%d, %d, %d)", f[0], f[1], f[2])
			}
			evs[i] = fmt.Sprintf("EDef %d %d %s %s", ev.def.local, ev.def.num, coqList(fd), coqList(dd))
		} else {
			evs[i] = "EMesg (" + ev.mesg.coq(true) + ")"
		}
	}
	ftab := map[string]bool{}
	var ftabItems []string
	rowItems := make([]string, len(rows))
	for i, r := range rows {
		cells := make([]string, len(r))
		for j, c := range r {
			cells[j] = coqStr(c)
			if j >= 3 && (j-3)%3 == 1 && rows[i][0] == "Data" {
				for _, el := range strings.Split(c, "|") {
					if !c19FloatLike(el) || ftab[el] {
						continue
					}
					f64, e1 := strconv.ParseFloat(el, 64)
					f32, e2 := strconv.ParseFloat(el, 32)
					if e1 != nil && !errors.Is(e1, strconv.ErrRange) {
						continue
					}
					_ = e2
					ftab[el] = true
					ftabItems = append(ftabItems, fmt.Sprintf("(%s, %d, %d)", coqStr(el), math.Float64bits(f64), math.Float64bits(float64(float32(f32)))))
				}
			}
		}
		nc := len(cells)
		for nc > 0 && r[nc-1] == "" {
			nc--
		}
		// one string literal per row: cells joined by TAB (cells never contain control characters: formatter.go drops them)
		joined := strings.Join(r[:nc], "\t")
		if strings.ContainsAny(strings.Join(r[:nc], ""), "\t") {
			rowItems[i] = fmt.Sprintf("(%d, RCells %s)", len(cells), coqList(cells[:nc]))
		} else {
			rowItems[i] = fmt.Sprintf("(%d, RTab %s)", len(cells), coqStrTab(joined))
		}
	}
	outItems := make([]string, len(outCmp))
	for i, s := range outCmp {
		ms := make([]string, len(s))
		for j, m := range s {
			ms[j] = m.coq(false)
		}
		outItems[i] = coqList(ms)
	}
	emit("CASE", fmt.Sprintf("mkcase %s %s %s %s %s", o.coq(), coqList(evs), coqList(rowItems), coqList(outItems), coqList(ftabItems)))
	stat("case_lines", 1)
	if c19Samples < 3 && len(rows) > 2 {
		c19Samples++
		emit("SAMPLE", fmt.Sprintf("%s [%s]: %d sequences, %d messages, csv %d rows x %d columns, %d differences (%d known); row 3: %s",
			cs.name, o.String(), len(inSeqs), nm, len(rows), len(rows[0]), len(diffs), nKnown, strings.Join(rows[min(2, len(rows)-1)][:min(9, len(rows[min(2, len(rows)-1)]))], ",")))
	}
}

func c19ErrClass(err error) string {
	s := err.Error()
	switch {
	case strings.Contains(s, "panic"):
		return "panic: " + s
	case strings.Contains(s, "csv.Read"):
		return "csv-read"
	case strings.Contains(s, "parse"):
		return "parse: " + s
	}
	return "other: " + s
}

// ---------------------------------------------------------------------------------------------- main

func c19(args []string) {
	c, fs := commonFlags("c19", args)
	only := fs.String("only", "", "run only cases whose name has this prefix")
	fs.Parse(args)
	tmp, err := os.MkdirTemp("/var/tmp", "verif-c19-")
	if err != nil {
		panic(err)
	}
	defer os.RemoveAll(tmp)
	if err := os.Chdir(tmp); err != nil { // WithUseDisk creates its temporary file in the working directory
		panic(err)
	}
	r := newRng(c.seed)
	g := &c19Gen{r: r}
	for _, n := range typedef.ListMesgNum() {
		if n >= typedef.MesgNumMfgRangeMin {
			continue
		}
		if len(factory.CreateMesg(n).Fields) > 0 {
			g.mesgNums = append(g.mesgNums, n)
		}
	}
	sort.Slice(g.mesgNums, func(i, j int) bool { return g.mesgNums[i] < g.mesgNums[j] })
	stat("profile_messages", len(g.mesgNums))
	rounds := 1
	nrand := 60
	if c.tier == "thorough" {
		rounds, nrand = 6, 600
	}
	if c.n > 0 {
		nrand = c.n
	}
	var cases []*c19Case
	if c.file != "" { // replay of a stored violation: {"fit_hex": ..., "options": "raw+verbose"}
		var rp struct {
			FitHex  string `json:"fit_hex"`
			Options string `json:"options"`
			Failing struct {
				FitHex  string `json:"fit_hex"`
				Options string `json:"options"`
			} `json:"failing"`
		}
		b, err := os.ReadFile(c.file)
		if err != nil {
			panic(err)
		}
		if err := json.Unmarshal(b, &rp); err != nil {
			panic(err)
		}
		if rp.FitHex == "" {
			rp.FitHex, rp.Options = rp.Failing.FitHex, rp.Failing.Options
		}
		raw, err := hex.DecodeString(rp.FitHex)
		if err != nil {
			panic(err)
		}
		var o c19Opts
		for _, k := range strings.Split(rp.Options, "+") {
			switch k {
			case "raw":
				o.raw = true
			case "verbose":
				o.verbose = true
			case "deg":
				o.degrees = true
			case "trim":
				o.trim = true
			case "disk":
				o.disk = true
			case "seekw":
				o.seekW = true
			case "expand":
				o.expand = true
			}
		}
		(&c19Case{name: "replay", opts: o, rawIn: raw}).run(tmp)
		return
	}
	add := func(cs *c19Case) {
		if *only == "" || strings.HasPrefix(cs.name, *only) {
			cases = append(cases, cs)
		}
	}
	modes := []c19Opts{{raw: true}, {}, {raw: true, verbose: true}, {verbose: true}, {degrees: true}, {raw: true, degrees: true}, {raw: true, trim: true},
		{trim: true, verbose: true}, {raw: true, disk: true, seekW: true}, {disk: true, seekW: true, degrees: true, verbose: true}}

	// A. sweep over all profile messages: every message with all its (in-scope) fields, a few per file, under each mode
	for rd := 0; rd < rounds; rd++ {
		for k := 0; k < len(g.mesgNums); k += 6 {
			for mi, o := range modes {
				if c.tier != "thorough" && (mi+k/6)%2 == 1 && mi > 3 {
					continue // quick tier: the secondary modes on every other group
				}
				seq := []proto.Message{g.fileId()}
				for j := k; j < k+6 && j < len(g.mesgNums); j++ {
					if g.mesgNums[j] == typedef.MesgNumFileId || g.mesgNums[j] == typedef.MesgNumFieldDescription || g.mesgNums[j] == typedef.MesgNumDeveloperDataId {
						continue
					}
					seq = c19Append(seq, g.profileMesg(g.mesgNums[j], true, true))
					seq = c19Append(seq, g.profileMesg(g.mesgNums[j], false, true))
				}
				add(&c19Case{name: fmt.Sprintf("sweep-%d-%d", rd, k), seqs: [][]proto.Message{seq}, opts: o})
			}
		}
	}
	// B. random files: chained 1..3, unknown messages / fields, developer fields
	for i := 0; i < nrand; i++ {
		o := modes[i%len(modes)]
		nseq := 1 + r.intn(3)
		var seqs [][]proto.Message
		var descs []c19DevDesc
		var setup []proto.Message
		if r.chance(1, 2) { // the same developer fields are declared again in every sequence of a chain
			setup, descs = g.devSetup(1+r.intn(4), false, false)
		}
		for s := 0; s < nseq; s++ {
			seq := []proto.Message{g.fileId()}
			seq = append(seq, setup...)
			for j, n := 0, 2+r.intn(8); j < n; j++ {
				switch k := r.intn(10); {
				case k < 6:
					num := g.mesgNums[r.intn(len(g.mesgNums))]
					if num == typedef.MesgNumFileId || num == typedef.MesgNumFieldDescription || num == typedef.MesgNumDeveloperDataId {
						num = typedef.MesgNumRecord
					}
					m := g.profileMesg(num, false, true)
					if r.chance(1, 3) {
						g.addUnknownField(&m)
					}
					if len(m.Fields) == 0 {
						continue
					}
					if descs != nil {
						g.addDevFields(&m, descs)
					}
					seq = append(seq, m)
				case k < 8:
					seq = append(seq, g.unknownMesg(false))
				default:
					m := g.profileMesg(typedef.MesgNumRecord, false, true)
					if len(m.Fields) == 0 {
						continue
					}
					if descs != nil {
						g.addDevFields(&m, descs)
					}
					seq = append(seq, m)
				}
			}
			seqs = append(seqs, seq)
		}
		add(&c19Case{name: fmt.Sprintf("random-%d", i), seqs: seqs, opts: o})
	}
	// C. component expansion on (decoder default): expanded fields are written, removed on the way back and regenerated by the decoder
	for i := 0; i < nrand/3; i++ {
		o := modes[i%4]
		o.expand = true
		seq := []proto.Message{g.fileId()}
		for j := 0; j < 6; j++ {
			num := typedef.MesgNum(r.pick(int(typedef.MesgNumRecord), int(typedef.MesgNumLap), int(typedef.MesgNumSession), int(typedef.MesgNumEvent), int(typedef.MesgNumHr), int(typedef.MesgNumMonitoring)))
			m := g.profileMesg(num, false, true)
			if len(m.Fields) > 0 {
				seq = append(seq, m)
			}
		}
		add(&c19Case{name: fmt.Sprintf("expand-%d", i), seqs: [][]proto.Message{seq}, opts: o})
	}
	// D. remarks (outside the stated scope; reported, never failed): physical expansion targets, text-layer strings,
	//    developer field names with commas, manufacturer-range message numbers, scaled developer floats
	for i := 0; i < nrand/3; i++ {
		o := modes[i%4]
		seq := []proto.Message{g.fileId()}
		for j := 0; j < 4; j++ {
			num := typedef.MesgNum(r.pick(int(typedef.MesgNumRecord), int(typedef.MesgNumLap), int(typedef.MesgNumSession), int(typedef.MesgNumEvent)))
			m := g.profileMesg(num, true, false)
			seq = c19Append(seq, m)
		}
		add(&c19Case{name: fmt.Sprintf("targets-present-%d", i), seqs: [][]proto.Message{seq}, opts: o})
	}
	for i := 0; i < nrand/3; i++ {
		o := modes[i%4]
		tg := &c19Gen{r: r, mesgNums: g.mesgNums, textLayer: true}
		seq := []proto.Message{tg.fileId()}
		for j := 0; j < 4; j++ {
			num := typedef.MesgNum(r.pick(int(typedef.MesgNumFileId), int(typedef.MesgNumUserProfile), int(typedef.MesgNumWorkout), int(typedef.MesgNumCoursePoint), int(typedef.MesgNumSegmentId)))
			if num == typedef.MesgNumFileId {
				num = typedef.MesgNumSport
			}
			m := tg.profileMesg(num, true, true)
			seq = c19Append(seq, m)
		}
		add(&c19Case{name: fmt.Sprintf("remark-text-%d", i), seqs: [][]proto.Message{seq}, opts: o, scope: "text-layer", noCase: true})
	}
	for i := 0; i < nrand/6+2; i++ {
		o := modes[i%4]
		seq := []proto.Message{g.fileId()}
		setup, descs := g.devSetup(3, false, true)
		seq = append(seq, setup...)
		for j := 0; j < 3; j++ {
			m := g.profileMesg(typedef.MesgNumRecord, false, true)
			g.addDevFields(&m, descs)
			if len(m.Fields) > 0 {
				seq = append(seq, m)
			}
		}
		add(&c19Case{name: fmt.Sprintf("remark-devcomma-%d", i), seqs: [][]proto.Message{seq}, opts: o, scope: "developer-name-with-comma", noCase: true})
	}
	for i := 0; i < nrand/6+2; i++ {
		o := c19Opts{raw: i%2 == 0, verbose: true}
		seq := []proto.Message{g.fileId(), g.unknownMesg(true), g.unknownMesg(false)}
		add(&c19Case{name: fmt.Sprintf("mfg-range-%d", i), seqs: [][]proto.Message{seq}, opts: o})
	}
	for i := 0; i < nrand/6+2; i++ {
		o := modes[i%4]
		seq := []proto.Message{g.fileId()}
		setup, descs := g.devSetup(4, true, false)
		seq = append(seq, setup...)
		for j := 0; j < 3; j++ {
			m := g.profileMesg(typedef.MesgNumRecord, false, true)
			g.addDevFields(&m, descs)
			if len(m.Fields) > 0 {
				seq = append(seq, m)
			}
		}
		add(&c19Case{name: fmt.Sprintf("devscaled-%d", i), seqs: [][]proto.Message{seq}, opts: o, descs: descs})
	}
	// E. the one profile field whose units contain a comma (record.compressed_speed_distance, "m/s,m"): known finding units_with_comma
	for i := 0; i < 8; i++ {
		o := modes[i%len(modes)]
		ug := &c19Gen{r: r, mesgNums: g.mesgNums, unclean: true}
		seq := []proto.Message{g.fileId()}
		for j := 0; j < 3; j++ {
			m := ug.profileMesg(typedef.MesgNumRecord, j == 0 || i%2 == 0, true)
			if c19FieldIndex(&m, 8) < 0 && len(m.Fields) < 50 {
				f := factory.CreateField(typedef.MesgNumRecord, 8)
				f.Value = proto.SliceUint8([]byte{1, 2, 3})
				m.Fields = append(m.Fields, f)
			}
			seq = append(seq, m)
		}
		add(&c19Case{name: fmt.Sprintf("units-comma-%d", i), seqs: [][]proto.Message{seq}, opts: o, finding: "units_with_comma", noCase: true})
	}
	for _, cs := range cases {
		cs.run(tmp)
	}
}
