package main

// c15: dynamic validation of property C15 -- distinct decoders, encoders, stream encoders, listeners and
// typed-message conversions used from different goroutines at the same time share only the library's
// package-level state and option values they only read; no data race, and every operation produces the
// result it produces when run alone.
//
// The command is a workload driver meant to be built with the race detector.  It runs a list of PHASES one
// after another.  A phase builds K deterministic operations from the seed, runs them concurrently on G
// goroutines released by one barrier (every operation on its own objects), then runs every operation again
// ALONE and compares the two digests.  Race reports are the race runtime's business (stderr); the markers
//   C15PHASE begin <name>
//   C15PHASE end <name>
// on stderr let the reader of stderr attribute every report to a phase.  stdout follows the harness
// protocol (STAT / SAMPLE / FAIL).
//
//   c15 --seed N --tier quick|thorough [--procs P] [--only p1,p2] [--goroutines G] [--rounds R] [--n K]
//       [--timing] [--ops] [--watchdog SECONDS]
//   --n K        operations per phase and round (default: per phase, see c15PhaseList)
//   --timing     'C15TIME <phase> <ms>' on stderr after every phase
//   --ops        'C15OP <phase> <round> <index> <solo-ms> <name>(<params>) -> <digest>' on stderr for every operation
//   --watchdog   a phase that does not finish in time: 'C15PHASE hang <name>' + goroutine dump on stderr, a FAIL
//                line with op "watchdog", exit code 3 (quick 120 s, thorough 900 s per phase)
// A digest is "<sha256 hex> <short readable summary>", or "PANIC: <value>" when the operation panicked.
// Fixtures: $VERIF_REPO/testdata (default /repo/testdata), *.fit in ., from_official_sdk, from_garmin_forums.
// The rng of a phase depends on (seed, phase name) only, so `--only <phase>` replays the operations of a full run.
//
// Files: c15.go (driver, perturbation wrappers, digests), c15_ops.go (the operation generators).

import (
	"bytes"
	"crypto/sha256"
	"encoding/hex"
	"fmt"
	"github.com/muktihari/fit/encoder"
	"hash"
	"io"
	"math"
	"os"
	"path/filepath"
	"runtime"
	"runtime/pprof"
	"sort"
	"strconv"
	"strings"
	"sync"
	"time"

	"github.com/muktihari/fit/profile/factory"
	"github.com/muktihari/fit/profile/mesgdef"
	"github.com/muktihari/fit/profile/typedef"
	"github.com/muktihari/fit/proto"
)

func init() { cmds["c15"] = c15 }

// ---------------------------------------------------------------------------------------------------------
// configuration, fixtures

type c15Fixture struct {
	name string // path relative to testdata
	path string // absolute path (opener_pool opens by path)
	data []byte // read once at start; operations copy it before use
}

type c15Cfg struct {
	seed     uint64
	tier     string
	thorough bool
	G        int // goroutines
	R        int // rounds per phase
	nOver    int // --n: operations per phase and round (0 = phase default)
	timing   bool
	listOps  bool
	watchdog time.Duration

	all   []*c15Fixture
	tiny  []*c15Fixture // < 8 KB
	mid   []*c15Fixture // 8 KB .. 200 KB
	large []*c15Fixture // 200 KB .. 1 MB (thorough only)
	huge  []*c15Fixture // > 1 MB (thorough only)
	dev   *c15Fixture   // generated: developer fields on every record

	midBias bool // see pick

	maxMesgs int // per-operation cap on messages converted / encoded / digested in full (0 = no cap)

	openOnce sync.Once
	openOK   []*c15Fixture // fixtures the opener pattern decodes without error (computed on first need)
}

// pick chooses a fixture.  Decoding under the race detector is slow, so the small fixtures are preferred;
// midBias (set by the driver for the first operations of every round, the ones that start together at the
// barrier) forces a mid-size fixture so that every round has long operations overlapping.
func (c *c15Cfg) pick(r *rng) *c15Fixture {
	x := r.intn(1000)
	if c.thorough {
		switch {
		case x < 5 && len(c.huge) > 0:
			stat("fixture_picks_huge", 1)
			return c.huge[r.intn(len(c.huge))]
		case x < 35 && len(c.large) > 0:
			stat("fixture_picks_large", 1)
			return c.large[r.intn(len(c.large))]
		}
	}
	return c.pickSmall(r)
}

// pickSmall never returns a fixture above 200 KB.
func (c *c15Cfg) pickSmall(r *rng) *c15Fixture {
	midPct := 15
	if c.thorough {
		midPct = 20
	}
	if len(c.mid) > 0 && (c.midBias || r.intn(100) < midPct) {
		stat("fixture_picks_mid", 1)
		return c.mid[r.intn(len(c.mid))]
	}
	return c.pickTiny(r)
}

func (c *c15Cfg) pickTiny(r *rng) *c15Fixture {
	stat("fixture_picks_tiny", 1)
	if len(c.tiny) > 0 {
		return c.tiny[r.intn(len(c.tiny))]
	}
	return c.all[r.intn(len(c.all))]
}

func (c *c15Cfg) loadFixtures() {
	repo := os.Getenv("VERIF_REPO")
	if repo == "" {
		repo = "/repo"
	}
	root := filepath.Join(repo, "testdata")
	var paths []string
	for _, dir := range []string{"", "from_official_sdk", "from_garmin_forums"} { // NOT testdata/fuzz
		m, _ := filepath.Glob(filepath.Join(root, dir, "*.fit"))
		paths = append(paths, m...)
	}
	sort.Strings(paths)
	for _, p := range paths {
		st, err := os.Stat(p)
		if err != nil || st.IsDir() {
			continue
		}
		if !c.thorough && st.Size() > 200<<10 {
			continue // quick tier: nothing above 200 KB (big_activity.fit, > 1 MB, only in thorough)
		}
		data, err := os.ReadFile(p)
		if err != nil {
			fmt.Fprintf(os.Stderr, "c15: cannot read %s: %v\n", p, err)
			continue
		}
		rel, _ := filepath.Rel(root, p)
		f := &c15Fixture{name: rel, path: p, data: data}
		c.all = append(c.all, f)
		switch n := len(data); {
		case n < 8<<10:
			c.tiny = append(c.tiny, f)
		case n <= 200<<10:
			c.mid = append(c.mid, f)
		case n <= 1<<20:
			c.large = append(c.large, f)
		default:
			c.huge = append(c.huge, f)
		}
	}
	// a generated file in which every record carries developer fields (the decoder keeps those in a scratch array of its own
	// between messages: whoever receives them must not go on reading that array)
	{
		gr := newRng(0xC15DE7)
		msgs := gr.genFit(mesgGenCfg{wellFormed: true, maxFields: 6, tsMode: 0}, 40, true)
		var buf bytes.Buffer
		if err := encoder.New(&buf, encoder.WithProtocolVersion(proto.V2)).Encode(&proto.FIT{Messages: msgs}); err == nil {
			c.dev = &c15Fixture{name: "generated/developer_fields.fit", data: buf.Bytes()}
			c.all = append(c.all, c.dev)
			c.tiny = append(c.tiny, c.dev)
		}
	}
	if len(c.all) == 0 {
		fmt.Fprintf(os.Stderr, "c15: no fixtures under %s\n", root)
		os.Exit(2)
	}
}

// ---------------------------------------------------------------------------------------------------------
// operations and phases

// c15Env is what one instance of an operation gets: its own perturbation rng and the option values the
// round shares between goroutines (in the solo pass: fresh values of its own).
type c15Env struct {
	pr      *rng             // schedule perturbation only; a digest must never depend on it
	nilOpts *mesgdef.Options // Factory nil: ONE value for all operations of a concurrent round (the known race)
	preset  *mesgdef.Options // Factory preset: ONE value for all operations of a concurrent round, only read
}

// c15Op is one deterministic operation.  mk is called on the driver goroutine (before the barrier is
// released, or right before the solo run) and prepares fresh objects; the closure it returns is the part
// that runs concurrently (or alone) and returns the digest.
type c15Op struct {
	name   string
	params string
	mk     func(e *c15Env) func() string
}

type c15Gen func(c *c15Cfg, r *rng) c15Op

type c15Phase struct {
	name   string
	kQuick int // operations per round
	kThor  int
	gens   []c15Gen
}

func c15PhaseList() []c15Phase {
	mixed := []c15Gen{
		c15GenFactoryFirst, c15GenFactoryLookups, c15GenTypedef, c15GenDecode, c15GenDecodeRaw, c15GenEncode,
		c15GenEncodeStream, c15GenProtoMarshal, c15GenMesgdefShared, c15GenFiledef, c15GenListener,
		c15GenListenerMesgDef, c15GenOpener, c15GenOwnPool,
	}
	return []c15Phase{
		{"factory_first_call", 32, 64, []c15Gen{c15GenFactoryFirst}}, // MUST stay first
		{"factory_lookups", 24, 48, []c15Gen{c15GenFactoryLookups}},
		{"typedef_tables", 24, 48, []c15Gen{c15GenTypedef}},
		{"decode", 32, 40, []c15Gen{c15GenDecode}},
		{"decode_raw", 32, 48, []c15Gen{c15GenDecodeRaw}},
		{"encode", 24, 32, []c15Gen{c15GenEncode}},
		{"encode_stream", 24, 32, []c15Gen{c15GenEncodeStream}},
		{"proto_marshal", 24, 32, []c15Gen{c15GenProtoMarshal}},
		{"mesgdef_shared_nil_factory", 32, 48, []c15Gen{c15GenMesgdefNilFactory}},
		{"mesgdef_shared_options", 24, 40, []c15Gen{c15GenMesgdefShared}},
		{"filedef_build", 24, 32, []c15Gen{c15GenFiledef}},
		{"listener", 24, 40, []c15Gen{c15GenListener, c15GenListenerMesgDef, c15GenListener}},
		{"opener_pool", 24, 32, []c15Gen{c15GenOpener, c15GenOwnPool}},
		{"mixed", 48, 64, mixed},
	}
}

// ---------------------------------------------------------------------------------------------------------
// command

var c15OutMu sync.Mutex // stdout records of this command (the watchdog may have to flush from its goroutine)

func c15(args []string) {
	cm, fs := commonFlags("c15", args)
	procs := fs.Int("procs", 0, "runtime.GOMAXPROCS (0 = leave)")
	only := fs.String("only", "", "comma-separated phase names (default: all)")
	gor := fs.Int("goroutines", 0, "goroutines per phase (0 = tier default: quick 8, thorough 16)")
	rounds := fs.Int("rounds", 0, "rounds per phase (0 = tier default: quick 2, thorough 6)")
	timing := fs.Bool("timing", false, "write 'C15TIME <phase> <ms>' lines to stderr")
	listOps := fs.Bool("ops", false, "write one 'C15OP <phase> <round> <index> <solo-ms> <name>(<params>) -> <digest>' line per operation to stderr")
	wd := fs.Int("watchdog", 0, "seconds one phase may take before the run is aborted as hung (0 = tier default)")
	fs.Parse(args)

	c := &c15Cfg{seed: cm.seed, tier: cm.tier, thorough: cm.tier == "thorough", nOver: cm.n, timing: *timing, listOps: *listOps}
	c.G, c.R, c.maxMesgs, c.watchdog = 8, 2, 400, 120*time.Second
	if c.thorough {
		c.G, c.R, c.maxMesgs, c.watchdog = 16, 6, 4000, 900*time.Second
	}
	if *gor > 0 {
		c.G = *gor
	}
	if *rounds > 0 {
		c.R = *rounds
	}
	if *wd > 0 {
		c.watchdog = time.Duration(*wd) * time.Second
	}
	if *procs > 0 {
		runtime.GOMAXPROCS(*procs)
	}

	phases := c15PhaseList()
	want := map[string]bool{}
	if *only != "" {
		known := map[string]bool{}
		for _, p := range phases {
			known[p.name] = true
		}
		for _, n := range strings.Split(*only, ",") {
			n = strings.TrimSpace(n)
			if n == "" {
				continue
			}
			if !known[n] {
				fmt.Fprintf(os.Stderr, "c15: unknown phase %q\n", n)
				os.Exit(2)
			}
			want[n] = true
		}
	}

	c.loadFixtures()

	// Set-up step, single goroutine, before anything runs concurrently: one manufacturer specific name in each
	// of the two registrable type-name tables, so that the lookups of the workload read non-empty maps.
	// (XxxRegister is documented as set-up only; it is never called again.)  Does not touch factory.CreateMesg.
	_ = typedef.MesgNumRegister(c15MfgMesgNum, "c15_mfg_mesg")
	_ = typedef.FileRegister(c15MfgFile, "c15_mfg_file")

	stat("fixtures", len(c.all))
	stat("goroutines", c.G)
	stat("rounds", c.R)
	stat("gomaxprocs", runtime.GOMAXPROCS(0))
	for _, ph := range phases {
		if len(want) > 0 && !want[ph.name] {
			continue
		}
		ph := ph
		c.runPhase(&ph)
	}
}

const (
	c15MfgMesgNum = typedef.MesgNum(0xFF10)
	c15MfgFile    = typedef.File(0xF8)
)

func c15Hash(s string) uint64 { // FNV-1a
	h := uint64(14695981039346656037)
	for i := 0; i < len(s); i++ {
		h ^= uint64(s[i])
		h *= 1099511628211
	}
	return h
}

func (c *c15Cfg) runPhase(ph *c15Phase) {
	fmt.Fprintf(os.Stderr, "C15PHASE begin %s\n", ph.name)
	t0 := time.Now()
	stop := c.startWatchdog(ph.name)

	// the phase's rng depends on the seed and the phase name only, so `--only <phase>` replays the same operations
	base := newRng(c.seed ^ c15Hash(ph.name))
	k := ph.kQuick
	if c.thorough {
		k = ph.kThor
	}
	if c.nOver > 0 {
		k = c.nOver
	}
	if k < c.G {
		k = c.G // every goroutine gets at least one operation
	}
	total, fails, diffs := 0, 0, 0
	sample := ""
	for round := 0; round < c.R; round++ {
		rr := base.fork()
		ops := make([]c15Op, k)
		for i := range ops {
			var g c15Gen
			if i < len(ph.gens) {
				g = ph.gens[i] // every kind at least once
			} else {
				g = ph.gens[rr.intn(len(ph.gens))]
			}
			c.midBias = i < 2
			ops[i] = g(c, rr.fork())
			c.midBias = false
			stat("kind_"+ops[i].name, 1)
		}
		conc := c.runConcurrent(ops, rr.fork())
		solo, soloMs := c.runSolo(ops, rr.fork())
		if c.listOps {
			for i := range ops {
				fmt.Fprintf(os.Stderr, "C15OP %s %d %d %d %s(%s) -> %s\n", ph.name, round, i, soloMs[i], ops[i].name, ops[i].params, c15Prefix(solo[i]))
			}
		}
		for i := range ops {
			total++
			if sample == "" && i == len(ops)/2 {
				sample = fmt.Sprintf("phase=%s ops/round=%d rounds=%d goroutines=%d example: %s(%s) -> %s",
					ph.name, k, c.R, c.G, ops[i].name, ops[i].params, c15Prefix(solo[i]))
			}
			if conc[i] == solo[i] {
				continue
			}
			diffs++
			if fails < 5 {
				fails++
				c15OutMu.Lock()
				emitJSON("FAIL", "", map[string]any{
					"phase": ph.name, "round": round, "op": ops[i].name, "params": ops[i].params,
					"solo": c15Clip(solo[i]), "concurrent": c15Clip(conc[i]), "seed": c.seed,
					"how": fmt.Sprintf("harness-race c15 --seed %d --tier %s --only %s", c.seed, c.tier, ph.name),
				})
				c15OutMu.Unlock()
			}
		}
	}
	stop()
	fmt.Fprintf(os.Stderr, "C15PHASE end %s\n", ph.name)
	if c.timing {
		fmt.Fprintf(os.Stderr, "C15TIME %s %d\n", ph.name, time.Since(t0).Milliseconds())
	}
	c15OutMu.Lock()
	stat("ops_"+ph.name, total)
	stat("diff_"+ph.name, diffs)
	emit("SAMPLE", sample)
	c15OutMu.Unlock()
}

func c15Prefix(s string) string {
	if strings.HasPrefix(s, "PANIC") || strings.HasPrefix(s, "ERR") {
		return c15Clip(s)
	}
	if len(s) > 65 && s[64] == ' ' { // sha256 hex + summary
		return s[:16] + " [" + s[65:] + "]"
	}
	if len(s) > 16 {
		return s[:16]
	}
	return s
}

func c15Clip(s string) string {
	if len(s) > 300 {
		return s[:300] + "..."
	}
	return s
}

// runConcurrent prepares one instance of every operation (fresh objects), then releases G goroutines at once.
// Operation i runs on goroutine i mod G.  The goroutines share: the library's package-level state, the two
// option values of the round, and nothing else (results go to distinct slice elements).
func (c *c15Cfg) runConcurrent(ops []c15Op, r *rng) []string {
	sharedNil := &mesgdef.Options{} // Factory nil: every generated ToMesg writes it -- the known race
	preset := &mesgdef.Options{Factory: factory.StandardFactory(), IncludeExpandedFields: true}
	runs := make([]func() string, len(ops))
	for i := range ops {
		runs[i] = c15SafeMk(ops[i].mk, &c15Env{pr: r.fork(), nilOpts: sharedNil, preset: preset})
	}
	res := make([]string, len(ops))
	start := make(chan struct{})
	var wg sync.WaitGroup
	G := c.G
	for g := 0; g < G; g++ {
		wg.Add(1)
		go func(g int, gr *rng) {
			defer wg.Done()
			<-start
			for i := g; i < len(runs); i += G {
				if gr.chance(1, 3) {
					runtime.Gosched()
				}
				res[i] = c15Safe(runs[i])
				if gr.chance(1, 5) {
					runtime.Gosched()
				}
			}
		}(g, r.fork())
	}
	close(start)
	wg.Wait()
	return res
}

// runSolo runs every operation alone, on fresh objects and option values of its own.
func (c *c15Cfg) runSolo(ops []c15Op, r *rng) ([]string, []int64) {
	res := make([]string, len(ops))
	ms := make([]int64, len(ops))
	for i := range ops {
		t0 := time.Now()
		env := &c15Env{
			pr:      r.fork(),
			nilOpts: &mesgdef.Options{},
			preset:  &mesgdef.Options{Factory: factory.StandardFactory(), IncludeExpandedFields: true},
		}
		res[i] = c15Safe(c15SafeMk(ops[i].mk, env))
		ms[i] = time.Since(t0).Milliseconds()
	}
	return res, ms
}

// A panic inside an operation becomes its digest (a panic only under concurrency is then a FAIL line).
// The race detector's reports are not touched: they go to stderr on their own.
func c15Safe(f func() string) (s string) {
	defer func() {
		if v := recover(); v != nil {
			s = fmt.Sprintf("PANIC: %v", v)
		}
	}()
	return f()
}

func c15SafeMk(mk func(e *c15Env) func() string, e *c15Env) (f func() string) {
	defer func() {
		if v := recover(); v != nil {
			msg := fmt.Sprintf("PANIC(prepare): %v", v)
			f = func() string { return msg }
		}
	}()
	return mk(e)
}

// startWatchdog aborts the process when a phase does not finish (a deadlock that only shows under
// concurrency would otherwise hang the check): FAIL line, goroutine dump on stderr, exit code 3.
func (c *c15Cfg) startWatchdog(phase string) (stop func()) {
	done := make(chan struct{})
	go func() {
		t := time.NewTimer(c.watchdog)
		defer t.Stop()
		select {
		case <-done:
			return
		case <-t.C:
		}
		fmt.Fprintf(os.Stderr, "C15PHASE hang %s\n", phase)
		pprof.Lookup("goroutine").WriteTo(os.Stderr, 1)
		c15OutMu.Lock()
		emitJSON("FAIL", "", map[string]any{"phase": phase, "op": "watchdog", "params": "", "solo": "", "seed": c.seed,
			"concurrent": fmt.Sprintf("phase did not finish within %s", c.watchdog),
			"how":        fmt.Sprintf("harness-race c15 --seed %d --tier %s --only %s", c.seed, c.tier, phase)})
		out.Flush()
		os.Exit(3)
	}()
	return func() { close(done) }
}

// ---------------------------------------------------------------------------------------------------------
// schedule perturbation

type c15Yield struct {
	pr  *rng
	den int
}

func (y *c15Yield) maybe() {
	if y.pr.intn(y.den) == 0 {
		runtime.Gosched()
	}
}

// c15Reader: the reader handed to decoders.  Yields on a random subset of calls and serves short reads, so
// that goroutines interleave inside one decode.  What is read does not depend on the rng.
type c15Reader struct {
	r     *bytes.Reader
	y     c15Yield
	chunk int // > 0: serve at most 1..chunk bytes per Read
}

func c15NewReader(data []byte, pr *rng, den, chunk int) *c15Reader {
	own := append([]byte(nil), data...) // the operation's own bytes
	return &c15Reader{r: bytes.NewReader(own), y: c15Yield{pr, den}, chunk: chunk}
}

func (r *c15Reader) Read(p []byte) (int, error) {
	r.y.maybe()
	if r.chunk > 0 && len(p) > 1 {
		if n := 1 + r.y.pr.intn(r.chunk); n < len(p) {
			p = p[:n]
		}
	}
	return r.r.Read(p)
}

func (r *c15Reader) Seek(off int64, whence int) (int64, error) {
	r.y.maybe()
	return r.r.Seek(off, whence)
}

// c15Writer exposes io.Writer only.
type c15Writer struct {
	buf bytes.Buffer
	y   c15Yield
}

func (w *c15Writer) Write(p []byte) (int, error) { w.y.maybe(); return w.buf.Write(p) }

// c15MemFile is an in-memory file; c15WS exposes it as io.WriteSeeker, c15WA as io.WriterAt (+ io.Writer).
type c15MemFile struct {
	buf []byte
	pos int64
	y   c15Yield
}

func (f *c15MemFile) write(p []byte) (int, error) {
	f.y.maybe()
	end := f.pos + int64(len(p))
	if end > int64(len(f.buf)) {
		f.buf = append(f.buf, make([]byte, end-int64(len(f.buf)))...)
	}
	copy(f.buf[f.pos:end], p)
	f.pos = end
	return len(p), nil
}

func (f *c15MemFile) seek(off int64, whence int) (int64, error) {
	f.y.maybe()
	var np int64
	switch whence {
	case io.SeekStart:
		np = off
	case io.SeekCurrent:
		np = f.pos + off
	case io.SeekEnd:
		np = int64(len(f.buf)) + off
	}
	if np < 0 {
		return f.pos, fmt.Errorf("c15MemFile: negative position")
	}
	f.pos = np
	return np, nil
}

func (f *c15MemFile) writeAt(p []byte, off int64) (int, error) {
	f.y.maybe()
	if off < 0 {
		return 0, fmt.Errorf("c15MemFile: negative offset")
	}
	end := off + int64(len(p))
	if end > int64(len(f.buf)) {
		f.buf = append(f.buf, make([]byte, end-int64(len(f.buf)))...)
	}
	copy(f.buf[off:end], p)
	return len(p), nil
}

type c15WS struct{ f *c15MemFile }

func (w c15WS) Write(p []byte) (int, error)               { return w.f.write(p) }
func (w c15WS) Seek(off int64, whence int) (int64, error) { return w.f.seek(off, whence) }

type c15WA struct{ f *c15MemFile }

func (w c15WA) Write(p []byte) (int, error)              { return w.f.write(p) }
func (w c15WA) WriteAt(p []byte, off int64) (int, error) { return w.f.writeAt(p, off) }

// c15Sink: the three writer kinds behind one handle.
type c15Sink struct {
	kind int // 0 io.Writer only, 1 io.WriteSeeker, 2 io.WriterAt
	w    io.Writer
	get  func() []byte
}

var c15SinkNames = []string{"writer", "writeseeker", "writerat"}

func c15NewSink(kind int, pr *rng, den int) *c15Sink {
	switch kind {
	case 1:
		f := &c15MemFile{y: c15Yield{pr, den}}
		return &c15Sink{kind: 1, w: c15WS{f}, get: func() []byte { return f.buf }}
	case 2:
		f := &c15MemFile{y: c15Yield{pr, den}}
		return &c15Sink{kind: 2, w: c15WA{f}, get: func() []byte { return f.buf }}
	}
	w := &c15Writer{y: c15Yield{pr, den}}
	return &c15Sink{kind: 0, w: w, get: func() []byte { return w.buf.Bytes() }}
}

// ---------------------------------------------------------------------------------------------------------
// digests

// c15Dig: sha256 over a textual rendering.  The hot paths (messages, values) avoid fmt: under the race
// detector formatting dominates otherwise.
type c15Dig struct {
	h    hash.Hash
	b    []byte
	note []byte // short human-readable summary appended to the digest (deterministic like the rest)
}

func c15NewDig() *c15Dig { return &c15Dig{h: sha256.New(), b: make([]byte, 0, 8192)} }

func (d *c15Dig) flush() {
	if len(d.b) > 0 {
		d.h.Write(d.b)
		d.b = d.b[:0]
	}
}

func (d *c15Dig) spill() {
	if len(d.b) > 4096 {
		d.flush()
	}
}

func (d *c15Dig) f(format string, a ...any) {
	d.b = fmt.Appendf(d.b, format, a...)
	d.spill()
}

func (d *c15Dig) u(x uint64) { d.b = append(strconv.AppendUint(d.b, x, 10), ',') }
func (d *c15Dig) i(x int64)  { d.b = append(strconv.AppendInt(d.b, x, 10), ',') }
func (d *c15Dig) c(ch byte)  { d.b = append(d.b, ch) }

func (d *c15Dig) t(x bool) {
	if x {
		d.b = append(d.b, 'T', ',')
	} else {
		d.b = append(d.b, 'F', ',')
	}
}

func (d *c15Dig) s(x string) {
	d.b = append(strconv.AppendInt(d.b, int64(len(x)), 10), '"')
	d.b = append(append(d.b, x...), '"', ',')
}

func (d *c15Dig) bytes(p []byte) {
	d.c('[')
	d.u(uint64(len(p)))
	d.flush()
	d.h.Write(p)
}

func (d *c15Dig) err(e error) {
	if e == nil {
		d.b = append(d.b, "ok;"...)
	} else {
		d.b = append(d.b, "ERR("...)
		d.s(e.Error())
		d.b = append(d.b, ");"...)
	}
}

// tag adds to the readable summary (and to the hash).
func (d *c15Dig) tag(format string, a ...any) {
	if len(d.note) < 160 {
		d.note = append(fmt.Appendf(d.note, format, a...), ' ')
	}
	d.f(format, a...)
}

func (d *c15Dig) errTag(what string, e error) {
	d.err(e)
	if e != nil {
		msg := e.Error()
		if len(msg) > 48 {
			msg = msg[:48] + "~"
		}
		d.tag("%s=ERR(%s)", what, msg)
	}
}

// sum: "<sha256 hex> <summary>".
func (d *c15Dig) sum() string {
	d.flush()
	return hex.EncodeToString(d.h.Sum(nil)) + " " + strings.TrimSpace(string(d.note))
}

func (d *c15Dig) header(h *proto.FileHeader) {
	d.f("H%d,%d,%d,%d,%q,%d;", h.Size, h.ProtocolVersion, h.ProfileVersion, h.DataSize, h.DataType, h.CRC)
}

// value: type and exact content (floats by their bits).
func (d *c15Dig) value(v proto.Value) {
	t := v.Type()
	d.u(uint64(t))
	d.c(':')
	switch t {
	case proto.TypeBool:
		d.u(uint64(v.Bool()))
	case proto.TypeInt8:
		d.i(int64(v.Int8()))
	case proto.TypeUint8:
		d.u(uint64(v.Uint8()))
	case proto.TypeInt16:
		d.i(int64(v.Int16()))
	case proto.TypeUint16:
		d.u(uint64(v.Uint16()))
	case proto.TypeInt32:
		d.i(int64(v.Int32()))
	case proto.TypeUint32:
		d.u(uint64(v.Uint32()))
	case proto.TypeInt64:
		d.i(v.Int64())
	case proto.TypeUint64:
		d.u(v.Uint64())
	case proto.TypeFloat32:
		d.u(uint64(math.Float32bits(v.Float32())))
	case proto.TypeFloat64:
		d.u(math.Float64bits(v.Float64()))
	case proto.TypeString:
		d.s(v.String())
	case proto.TypeSliceBool:
		for _, x := range v.SliceBool() {
			d.u(uint64(x))
		}
	case proto.TypeSliceInt8:
		for _, x := range v.SliceInt8() {
			d.i(int64(x))
		}
	case proto.TypeSliceUint8:
		for _, x := range v.SliceUint8() {
			d.u(uint64(x))
		}
	case proto.TypeSliceInt16:
		for _, x := range v.SliceInt16() {
			d.i(int64(x))
		}
	case proto.TypeSliceUint16:
		for _, x := range v.SliceUint16() {
			d.u(uint64(x))
		}
	case proto.TypeSliceInt32:
		for _, x := range v.SliceInt32() {
			d.i(int64(x))
		}
	case proto.TypeSliceUint32:
		for _, x := range v.SliceUint32() {
			d.u(uint64(x))
		}
	case proto.TypeSliceInt64:
		for _, x := range v.SliceInt64() {
			d.i(x)
		}
	case proto.TypeSliceUint64:
		for _, x := range v.SliceUint64() {
			d.u(x)
		}
	case proto.TypeSliceFloat32:
		for _, x := range v.SliceFloat32() {
			d.u(uint64(math.Float32bits(x)))
		}
	case proto.TypeSliceFloat64:
		for _, x := range v.SliceFloat64() {
			d.u(math.Float64bits(x))
		}
	case proto.TypeSliceString:
		for _, x := range v.SliceString() {
			d.s(x)
		}
	}
	d.c(';')
}

func (d *c15Dig) mesg(m *proto.Message) {
	d.c('M')
	d.u(uint64(m.Num))
	d.u(uint64(m.Header))
	d.u(uint64(len(m.Fields)))
	d.u(uint64(len(m.DeveloperFields)))
	d.c('{')
	for i := range m.Fields {
		f := &m.Fields[i]
		if f.FieldBase == nil {
			d.c('?')
		} else {
			d.u(uint64(f.Num))
			d.s(f.Name)
			d.u(uint64(f.BaseType))
			d.u(uint64(f.Type))
			d.t(f.Array)
		}
		d.t(f.IsExpandedField)
		d.value(f.Value)
	}
	for i := range m.DeveloperFields {
		df := &m.DeveloperFields[i]
		d.c('D')
		d.u(uint64(df.Num))
		d.u(uint64(df.DeveloperDataIndex))
		d.value(df.Value)
	}
	d.c('}')
	d.spill()
}

// mesgLight: the cheap form used above the per-operation cap.
func (d *c15Dig) mesgLight(m *proto.Message) {
	d.c('m')
	d.u(uint64(m.Num))
	d.u(uint64(m.Header))
	d.u(uint64(len(m.Fields)))
	d.u(uint64(len(m.DeveloperFields)))
	d.spill()
}

func (d *c15Dig) mesgs(ms []proto.Message, max int) {
	d.f("N%d;", len(ms))
	for i := range ms {
		if max > 0 && i >= max {
			d.mesgLight(&ms[i])
		} else {
			d.mesg(&ms[i])
		}
	}
}

func (d *c15Dig) fit(fit *proto.FIT, max int) {
	d.header(&fit.FileHeader)
	d.mesgs(fit.Messages, max)
	d.f("C%d;", fit.CRC)
}

func (d *c15Dig) fl(x float64) { d.u(math.Float64bits(x)) }

func (d *c15Dig) components(cs []proto.Component) {
	for i := range cs {
		d.c('c')
		d.u(uint64(cs[i].FieldNum))
		d.t(cs[i].Accumulate)
		d.u(uint64(cs[i].Bits))
		d.fl(cs[i].Scale)
		d.fl(cs[i].Offset)
	}
}

// field: everything the factory serves for one field.
func (d *c15Dig) field(f *proto.Field) {
	if f.FieldBase == nil {
		d.c('?')
		return
	}
	fb := f.FieldBase
	d.c('F')
	d.u(uint64(fb.Num))
	d.s(fb.Name)
	d.u(uint64(fb.BaseType))
	d.u(uint64(fb.Type))
	d.t(fb.Array)
	d.t(fb.Accumulate)
	d.fl(fb.Scale)
	d.fl(fb.Offset)
	d.s(fb.Units)
	d.u(uint64(len(fb.Components)))
	d.u(uint64(len(fb.SubFields)))
	d.t(f.IsExpandedField)
	d.components(fb.Components)
	for i := range fb.SubFields {
		s := &fb.SubFields[i]
		d.c('s')
		d.s(s.Name)
		d.u(uint64(s.Type))
		d.fl(s.Scale)
		d.fl(s.Offset)
		d.s(s.Units)
		for j := range s.Maps {
			d.u(uint64(s.Maps[j].RefFieldNum))
			d.i(s.Maps[j].RefFieldValue)
		}
		d.components(s.Components)
	}
	d.value(f.Value)
	d.spill()
}

func (d *c15Dig) factoryMesg(m *proto.Message) {
	d.c('G')
	d.u(uint64(m.Num))
	d.u(uint64(len(m.Fields)))
	d.u(uint64(len(m.DeveloperFields)))
	d.c('{')
	for i := range m.Fields {
		d.field(&m.Fields[i])
	}
	d.c('}')
}
