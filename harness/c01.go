package main

import (
	"bytes"
	"context"
	"fmt"

	"github.com/muktihari/fit/decoder"
	"github.com/muktihari/fit/encoder"
	"github.com/muktihari/fit/profile"
	"github.com/muktihari/fit/profile/basetype"
	"github.com/muktihari/fit/profile/factory"
	"github.com/muktihari/fit/profile/untyped/fieldnum"
	"github.com/muktihari/fit/profile/untyped/mesgnum"
	"github.com/muktihari/fit/proto"
)

func init() { cmds["c01"] = c01 }

// validateSeq: what message validation retains (the validator is exported; same options as the encoder's).
func validateSeq(preserve bool, msgs []proto.Message) ([]proto.Message, error) {
	var opts []encoder.ValidatorOption
	if preserve {
		opts = append(opts, encoder.ValidatorWithPreserveInvalidValues())
	}
	v := encoder.NewMessageValidator(opts...)
	out := cloneMessages(msgs)
	for i := range out {
		if err := v.Validate(&out[i]); err != nil {
			return nil, err
		}
	}
	return out, nil
}

func fieldKey(f *proto.Field) string {
	return fmt.Sprintf("%d/%d/%s", f.Num, f.BaseType, coqValue(normValue(f.Value)))
}

// compareDecoded: the C01 statement on the Go side.  Returns "" when equal, else a description; known is the id of a
// known finding that explains the difference (or "").
func compareDecoded(want []proto.Message, got []proto.Message) (diff string, known string) {
	if len(want) != len(got) {
		return fmt.Sprintf("message count %d != %d", len(got), len(want)), ""
	}
	var clock uint32
	for i := range want {
		w, g := &want[i], &got[i]
		if w.Num != g.Num {
			return fmt.Sprintf("message %d: num %d != %d", i, g.Num, w.Num), ""
		}
		wf := append([]proto.Field(nil), w.Fields...)
		compressed := g.Header&proto.MesgCompressedHeaderMask != 0
		var origTs uint32
		var tsBad bool
		if compressed { // the decoder puts the reconstructed timestamp first; the other fields keep their order
			for j := range wf {
				if wf[j].Num == proto.FieldNumTimestamp {
					ts := wf[j]
					origTs = ts.Value.Uint32()
					copy(wf[1:j+1], wf[:j])
					wf[0] = ts
					break
				}
			}
			tsBad = origTs-clock > 31
		}
		if len(wf) != len(g.Fields) {
			return fmt.Sprintf("message %d: %d fields != %d", i, len(g.Fields), len(wf)), ""
		}
		for j := range wf {
			if fieldKey(&wf[j]) != fieldKey(&g.Fields[j]) {
				k := ""
				if compressed && j == 0 && tsBad {
					k = "ts_goes_back_within_window"
				} else if containsFFFD(wf[j].Value) {
					k = "string_contains_U+FFFD"
				}
				return fmt.Sprintf("message %d field %d: got %s want %s", i, j, fieldKey(&g.Fields[j]), fieldKey(&wf[j])), k
			}
		}
		if len(w.DeveloperFields) != len(g.DeveloperFields) {
			return fmt.Sprintf("message %d: %d developer fields != %d", i, len(g.DeveloperFields), len(w.DeveloperFields)), ""
		}
		for j := range w.DeveloperFields {
			a, b := &w.DeveloperFields[j], &g.DeveloperFields[j]
			if a.Num != b.Num || a.DeveloperDataIndex != b.DeveloperDataIndex || coqValue(normValue(a.Value)) != coqValue(b.Value) {
				k := ""
				if containsFFFD(a.Value) {
					k = "string_contains_U+FFFD"
				}
				return fmt.Sprintf("message %d developer field %d: got %s want %s", i, j, coqValue(b.Value), coqValue(a.Value)), k
			}
		}
		// the decoder's clock follows every uint32 timestamp it sees
		for j := range g.Fields {
			if g.Fields[j].Num == proto.FieldNumTimestamp && g.Fields[j].Value.Type() == proto.TypeUint32 {
				clock = g.Fields[j].Value.Uint32()
			}
		}
	}
	return "", ""
}

// c01: encode -> decode round trips (C01), well-formedness and self-consistency of the output (C02).
func c01(args []string) {
	c, fs := commonFlags("c01", args)
	fs.Parse(args)
	r := newRng(c.seed)
	n := c.n
	if n == 0 {
		n = 250
		if c.tier == "thorough" {
			n = 4000
		}
	}
	odd := oddAcceptedInputs(r)
	// no destination at all: an error from every entry point, never a panic
	for k, call := range []func() error{
		func() error { return encoder.New(nil).Encode(&proto.FIT{Messages: []proto.Message{fileIdMesg(r)}}) },
		func() error {
			return encoder.New(nil).EncodeWithContext(context.Background(), &proto.FIT{Messages: []proto.Message{fileIdMesg(r)}})
		},
		func() error { _, err := encoder.NewStream(nil); return err },
		func() error { _, err := encoder.NewStream(&bytes.Buffer{}); return err }, // neither io.WriterAt nor io.WriteSeeker
		func() error { // a stream encoder moved onto a destination it cannot rewrite
			dst, _ := newDest(3, -1, 0, nil)
			se, err := encoder.NewStream(dst)
			if err != nil {
				return nil
			}
			return se.Reset(&bytes.Buffer{})
		},
	} {
		err, p := func() (err error, p any) { defer func() { p = recover() }(); return call(), nil }()
		stat("nil_or_unsuitable_writer_calls", 1)
		if p != nil || err == nil {
			emitJSON("FAIL", "", map[string]any{"kind": "encoder-without-usable-destination", "call": k, "panic": fmt.Sprint(p), "err": fmt.Sprint(err)})
		}
	}
	// an encoder on a plain destination (data size computed by a dry run) used again after a call that failed DURING the dry run
	// (context cancelled before or between messages; a value the caller's own validator let through that cannot be marshalled):
	// the next accepted file must reach the destination, byte for byte what a fresh encoder writes
	for k := 0; k < 12; k++ {
		ec, files := r.genChain(true)
		c01EncoderAfterFailedDryRun(ec, files[0], k)
	}
	// the stream encoder asked to complete a sequence no message was written for (at the start, between and after sequences, twice in
	// a row, on every destination kind and buffer size): it must refuse, and whatever it answers the destination keeps exactly the
	// well-formed sequences completed so far
	for k := 0; k < 12; k++ {
		ec, files := r.genChain(true)
		c01StreamEmptyCompletion(ec, files, 1+k%3, []int{0, 7, 4096}[k%3], k)
	}
	for i := -len(odd); i < n; i++ {
		wellFormed := r.chance(5, 6)
		var ec encCfg
		var files []encFile
		dependent := false
		if i < 0 { // deterministic corpus of unusual values the encoder accepts: the output must still be well formed
			wellFormed = false
			ec, files = odd[i+len(odd)].ec, odd[i+len(odd)].files
			stat("odd_accepted_inputs", 1)
		} else {
			ec, files = r.genChain(wellFormed)
			dependent = false
			if r.chance(1, 6) { // a later file of the chain that relies on the declarations of the first one: every file stands alone
				if dep, ok := withoutDeclarations(files[0]); ok {
					files = append(files, dep)
					dependent = true
					if r.chance(1, 2) { // ... and the first file is itself rejected after its declarations were seen (a value of the wrong type at its end)
						bad := proto.Message{Num: mesgnum.Record}
						f := factory.CreateField(mesgnum.Record, fieldnum.RecordHeartRate)
						f.Value = proto.Uint16(300)
						bad.Fields = append(bad.Fields, f)
						files[0].msgs = append(cloneMessages(files[0].msgs), bad)
						stat("chain_first_file_rejected_after_declarations", 1)
					}
					stat("chain_with_undeclared_developer_fields", 1)
				}
			}
		}
		if i >= 0 && (i%2 == 1 || dependent) { // the same chain through the stream encoder: accepted <=> accepted in one piece, same bytes
			c01Stream(ec, files, wellFormed)
		}
		b, wb, err := encodeChain(ec, files)
		obs := fmt.Sprintf("EOk %s %s", coqBytes(b), coqList(wb))
		if err != nil {
			obs = fmt.Sprintf("EErr %d", encErrClass(err))
			stat(fmt.Sprintf("encode_err%d", encErrClass(err)), 1)
		}
		emit("ENC", fmt.Sprintf("(%s, %s, %s)", ec.coq(), coqEFiles(files), obs))
		if err != nil {
			if len(files) > 1 { // the same encoder goes on after a rejected file: every later file is encoded as by a fresh encoder
				c01EncodeEach(ec, files)
			}
			continue
		}
		stat("encode_ok", 1)
		stat(fmt.Sprintf("chain_len_%d", len(files)), 1)
		if ec.headerOpt == encoder.HeaderOptionCompressedTimestamp {
			stat("cfg_compressed_timestamp", 1)
		}
		if ec.bigEndian {
			stat("cfg_big_endian", 1)
		}
		if ec.headerSize == 12 {
			stat("cfg_header12", 1)
		}
		// C02: independent well-formedness (evaluated in Coq on the Go bytes) and the library's own integrity check
		emit("WF", fmt.Sprintf("(%s, %d, %s)", coqBytes(b), len(files), coqBool(ec.headerSize == 12)))
		dec := decoder.New(bytes.NewReader(b))
		seq, ierr := dec.CheckIntegrity()
		if ierr != nil || seq != len(files) {
			js := map[string]any{"kind": "check-integrity", "bytes": fmt.Sprintf("%x", b), "seq": seq, "want": len(files), "err": fmt.Sprint(ierr), "cfg": ec.coq()}
			if ec.headerSize == 12 && false {
				emitJSON("KNOWN", "legacy_header_file_crc", js)
			} else {
				emitJSON("FAIL", "", js)
			}
		}
		// C01: decode what was written (expansion off: expanded fields are not part of what was written)
		res := decodeBytes(b, true, false)
		emit("DEC", fmt.Sprintf("(true, false, %s, %s)", coqBytes(b), coqDecodeResult(res)))
		if res.err != nil || res.panicked != nil || len(res.fits) != len(files) {
			emitJSON("FAIL", "", map[string]any{"kind": "decode-of-encoded", "bytes": fmt.Sprintf("%x", b), "err": fmt.Sprint(res.err), "panic": fmt.Sprint(res.panicked), "fits": len(res.fits)})
			continue
		}
		if !wellFormed {
			continue
		}
		for k, f := range files {
			want, verr := validateSeq(ec.preserve, f.msgs)
			if verr != nil {
				emitJSON("FAIL", "", map[string]any{"kind": "validator-disagrees-with-encoder", "err": verr.Error()})
				continue
			}
			diff, known := compareDecoded(want, res.fits[k].Messages)
			stat("roundtrip_sequences", 1)
			if diff == "" {
				// re-encode what was decoded and decode again: same messages
				b2, err2 := encodeFit(ec, cloneMessages(res.fits[k].Messages))
				if err2 == nil {
					res2 := decodeBytes(b2, true, false)
					if res2.err != nil || len(res2.fits) != 1 {
						emitJSON("FAIL", "", map[string]any{"kind": "reencode-decode", "bytes": fmt.Sprintf("%x", b2), "err": fmt.Sprint(res2.err)})
					} else if d2, k2 := compareDecoded(res.fits[k].Messages, res2.fits[0].Messages); d2 != "" {
						js := map[string]any{"kind": "reencode", "diff": d2, "bytes": fmt.Sprintf("%x", b), "cfg": ec.coq()}
						if k2 != "" {
							emitJSON("KNOWN", k2, js)
						} else {
							emitJSON("FAIL", "", js)
						}
					}
					stat("reencode_checked", 1)
				}
				continue
			}
			js := map[string]any{"kind": "roundtrip", "diff": diff, "cfg": ec.coq(), "file": k, "input": coqIMesgs(f.msgs), "bytes": fmt.Sprintf("%x", b)}
			if known != "" {
				emitJSON("KNOWN", known, js)
			} else {
				emitJSON("FAIL", "", js)
			}
		}
		if i >= 0 && i < 2 {
			emit("SAMPLE", fmt.Sprintf("cfg {%s} chain %d, %d messages in file 0 -> %d bytes", ec.coq(), len(files), len(files[0].msgs), len(b)))
		}
	}
}

// c01EncodeEach: one encoder, one plain buffer, every file of the chain in turn, going on after a rejected one.  Observation per
// file: the bytes that call appended, or the error class.  A rejected call leaves nothing behind in the encoder.
func c01EncodeEach(c encCfg, files []encFile) {
	var buf bytes.Buffer
	enc := encoder.New(&buf, c.options()...)
	var obs []string
	for k, f := range files {
		before := buf.Len()
		fit := &proto.FIT{FileHeader: proto.FileHeader{Size: f.hsize, ProtocolVersion: f.proto, ProfileVersion: f.profile}, Messages: cloneMessages(f.msgs)}
		var err error
		if k%2 == 1 {
			err = enc.EncodeWithContext(context.Background(), fit)
		} else {
			err = enc.Encode(fit)
		}
		if err != nil {
			if buf.Len() != before {
				emitJSON("FAIL", "", map[string]any{"kind": "rejected-file-left-bytes-in-the-destination", "file": k, "bytes": buf.Len() - before, "err": err.Error(), "cfg": c.coq()})
			}
			obs = append(obs, fmt.Sprintf("EErr %d", encErrClass(err)))
			continue
		}
		obs = append(obs, fmt.Sprintf("EOk %s []", coqBytes(buf.Bytes()[before:])))
	}
	emit("ENCE", fmt.Sprintf("(%s, %s, %s)", c.coq(), coqEFiles(files), coqList(obs)))
	stat("encoder_goes_on_after_rejected_file", 1)
}

// withoutDeclarations: the file without its developer_data_id / field_description messages (ok when it uses developer fields).
func withoutDeclarations(f encFile) (encFile, bool) {
	out := encFile{hsize: f.hsize, proto: f.proto, profile: f.profile}
	uses := false
	for _, m := range cloneMessages(f.msgs) {
		if m.Num == mesgnum.DeveloperDataId || m.Num == mesgnum.FieldDescription {
			continue
		}
		uses = uses || len(m.DeveloperFields) > 0
		out.msgs = append(out.msgs, m)
	}
	return out, uses && len(out.msgs) > 0
}

// passValidator: a caller-supplied message validator that lets everything through (encoder.WithMessageValidator).
type passValidator struct{}

func (passValidator) Validate(*proto.Message) error { return nil }
func (passValidator) Reset()                        {}

// c01EncoderAfterFailedDryRun: see the call site.  how%3: 0, 1 = EncodeWithContext under a context already cancelled (followed by
// Encode resp. EncodeWithContext), 2 = an unmarshallable value behind a pass-through validator.
func c01EncoderAfterFailedDryRun(ec encCfg, f encFile, how int) {
	opts := ec.options()
	if how%3 == 2 {
		opts = append(opts, encoder.WithMessageValidator(passValidator{}))
	}
	var fresh bytes.Buffer
	good := func() *proto.FIT {
		return &proto.FIT{FileHeader: proto.FileHeader{Size: f.hsize, ProtocolVersion: f.proto, ProfileVersion: f.profile}, Messages: cloneMessages(f.msgs)}
	}
	if err := encoder.New(&fresh, opts...).Encode(good()); err != nil {
		return
	}
	var buf bytes.Buffer
	enc := encoder.New(&buf, opts...)
	var first error
	switch how % 3 {
	case 0, 1:
		ctx, cancel := context.WithCancel(context.Background())
		cancel()
		first = enc.EncodeWithContext(ctx, good())
	case 2:
		bad := good()
		fld := factory.CreateField(mesgnum.Record, fieldnum.RecordHeartRate) // no value: proto.Value{} cannot be marshalled
		bad.Messages = append(bad.Messages, proto.Message{Num: mesgnum.Record, Fields: []proto.Field{fld}})
		first = enc.Encode(bad)
	}
	stat("encoder_after_failed_dry_run", 1)
	if first == nil {
		return // not a failing call under this configuration: nothing to observe
	}
	left := buf.Len()
	var second error
	if how%2 == 0 {
		second = enc.Encode(good())
	} else {
		second = enc.EncodeWithContext(context.Background(), good())
	}
	if left != 0 || second != nil || !bytes.Equal(buf.Bytes(), fresh.Bytes()) {
		emitJSON("FAIL", "", map[string]any{"kind": "encoder-after-failed-dry-run", "how": []string{"context cancelled before the call", "context cancelled before the call", "unmarshallable value behind a pass-through validator"}[how%3],
			"first_call_error": first.Error(), "bytes_left_by_the_failed_call": left, "second_call_error": fmt.Sprint(second),
			"second_call_wrote": buf.Len() - left, "fresh_encoder_writes": fresh.Len(), "cfg": ec.coq(), "input": coqIMesgs(f.msgs),
			"expected": "the second call returns nil and the destination holds exactly the bytes a fresh encoder writes for the same file"})
	}
}

// c01StreamEmptyCompletion: WriteMessage*/SequenceCompleted histories in which SequenceCompleted is also called with no message
// written since the encoder was created or last completed (pattern: which of the positions before / between / after the files get
// such a call, possibly twice).  Observations: every such call returns an error (batch Encode rejects an empty message list in the
// same way; Model/Stream.v: stream_sequence c s [] = Err), and the destination holds exactly the bytes of the sequences
// completed so far -- which the SENC line of the same files (without the empty calls) ties to the model.
func c01StreamEmptyCompletion(ec encCfg, files []encFile, kind, bufSize, pattern int) {
	sfiles := make([]encFile, len(files))
	for i, f := range files {
		sfiles[i] = encFile{msgs: f.msgs}
	}
	ref := runEncode(ec, sfiles, kind, bufSize, true, -1, 0, nil)
	if ref.panicked != nil || len(ref.errs) != len(sfiles) || ref.errs[len(ref.errs)-1] {
		return // the chain itself is not accepted: nothing to compare with
	}
	w, core := newDest(kind, -1, 0, nil)
	senc, err := encoder.NewStream(w, append(ec.options(), encoder.WithWriteBufferSize(bufSize))...)
	if err != nil {
		return
	}
	var hist []string
	fail := func(what string, extra map[string]any) {
		js := map[string]any{"kind": "stream-completion-without-messages", "what": what, "history": hist, "cfg": ec.coq(), "writer": kindNames[kind],
			"buffer": bufSize, "input": coqEFiles(sfiles), "destination": fmt.Sprintf("%x", core.data)}
		for k, v := range extra {
			js[k] = v
		}
		emitJSON("FAIL", "", js)
	}
	emptyCall := func(pos int) bool {
		before := append([]byte(nil), core.data...)
		times := 1 + (pattern>>2)%2
		for t := 0; t < times; t++ {
			err, p := func() (err error, p any) { defer func() { p = recover() }(); return senc.SequenceCompleted(), nil }()
			hist = append(hist, fmt.Sprintf("SequenceCompleted() with no message written (position %d) -> %v", pos, err))
			stat("stream_empty_completions", 1)
			if p != nil {
				fail("panic", map[string]any{"panic": fmt.Sprint(p)})
				return false
			}
			if err == nil {
				fail("a completion with no message written reports success (batch Encode rejects an empty message list; model: stream_sequence c s [] = Err E_Empty)",
					map[string]any{"destination_before": fmt.Sprintf("%x", before)})
				return false
			}
			if !bytes.Equal(before, core.data) {
				fail("a rejected completion changed the destination", map[string]any{"destination_before": fmt.Sprintf("%x", before)})
				return false
			}
		}
		return true
	}
	for i, f := range sfiles {
		if (pattern+i)%2 == 0 && !emptyCall(i) {
			return
		}
		msgs := cloneMessages(f.msgs)
		for k := range msgs {
			if err := senc.WriteMessage(&msgs[k]); err != nil {
				fail("WriteMessage rejects a message it accepts without the empty completions", map[string]any{"err": err.Error(), "file": i, "message": k})
				return
			}
		}
		hist = append(hist, fmt.Sprintf("WriteMessage x %d", len(msgs)))
		if err := senc.SequenceCompleted(); err != nil {
			fail("SequenceCompleted rejects a sequence it accepts without the empty completions", map[string]any{"err": err.Error(), "file": i})
			return
		}
		hist = append(hist, "SequenceCompleted()")
	}
	if !emptyCall(len(sfiles)) {
		return
	}
	if !bytes.Equal(core.data, ref.data) {
		fail("the destination differs from the one the same sequences leave without the empty completions", map[string]any{"expected": fmt.Sprintf("%x", ref.data)})
		return
	}
	if seq, ierr := decoder.New(bytes.NewReader(core.data)).CheckIntegrity(); ierr != nil || seq != len(sfiles) {
		fail("decoder.CheckIntegrity does not accept the destination", map[string]any{"sequences": seq, "err": fmt.Sprint(ierr)})
	}
}

// c01Stream: the chain written message by message with the stream encoder (WriteMessage / SequenceCompleted) to a
// destination that can seek and write at an offset.  What it accepts must be what Encode accepts (the model decides), the
// bytes the same, and every accepted sequence must decode back to its validated messages.
func c01Stream(ec encCfg, files []encFile, wellFormed bool) {
	sfiles := make([]encFile, len(files))
	for i, f := range files {
		sfiles[i] = encFile{msgs: f.msgs} // the stream encoder's own (zero) header: default size, versions from the options
	}
	res := runEncode(ec, sfiles, 3, 0, true, -1, 0, nil)
	accepted := res.panicked == nil && len(res.errs) == len(sfiles)
	for _, e := range res.errs {
		accepted = accepted && !e
	}
	obs := "EErr 0"
	if accepted {
		obs = fmt.Sprintf("EOk %s []", coqBytes(res.data))
		stat("stream_encode_ok", 1)
	} else {
		stat("stream_encode_rejected", 1)
	}
	emit("SENC", fmt.Sprintf("(%s, %s, %s)", ec.coq(), coqEFiles(sfiles), obs))
	if res.panicked != nil {
		emitJSON("FAIL", "", map[string]any{"kind": "stream-encoder-panic", "panic": fmt.Sprint(res.panicked), "cfg": ec.coq(), "input": coqEFiles(sfiles)})
		return
	}
	if !accepted || !wellFormed {
		return
	}
	dres := decodeBytes(res.data, true, false)
	if dres.err != nil || dres.panicked != nil || len(dres.fits) != len(sfiles) {
		emitJSON("FAIL", "", map[string]any{"kind": "decode-of-stream-encoded", "bytes": fmt.Sprintf("%x", res.data), "err": fmt.Sprint(dres.err), "panic": fmt.Sprint(dres.panicked), "fits": len(dres.fits)})
		return
	}
	for k, f := range sfiles {
		want, verr := validateSeq(ec.preserve, f.msgs)
		if verr != nil {
			emitJSON("FAIL", "", map[string]any{"kind": "stream-accepted-what-the-validator-rejects", "file": k, "err": verr.Error(), "cfg": ec.coq(), "input": coqIMesgs(f.msgs), "bytes": fmt.Sprintf("%x", res.data)})
			continue
		}
		diff, known := compareDecoded(want, dres.fits[k].Messages)
		stat("stream_roundtrip_sequences", 1)
		if diff == "" {
			continue
		}
		js := map[string]any{"kind": "roundtrip (stream encoder)", "diff": diff, "cfg": ec.coq(), "file": k, "input": coqIMesgs(f.msgs), "bytes": fmt.Sprintf("%x", res.data)}
		if known != "" {
			emitJSON("KNOWN", known, js)
		} else {
			emitJSON("FAIL", "", js)
		}
	}
}

type oddInput struct {
	ec    encCfg
	files []encFile
}

// oddAcceptedInputs: string arrays with empty elements, strings with embedded / trailing NUL, empty strings, one-element
// arrays, values on unknown fields -- shapes that do not round-trip (outside C01) but that the encoder accepts, so what it
// writes must still be a well-formed stream whose sizes add up (C02).
func oddAcceptedInputs(r *rng) []oddInput {
	loadFactory()
	var out []oddInput
	strs := [][]string{{"left", "", "right"}, {"", "a"}, {"a", ""}, {""}, {"", ""}, {"a\x00b"}, {"a\x00", "b"}, {"\x00"}, {"é", "", "ü"}}
	scalars := []string{"", "a\x00b", "a\x00", "\x00", "\x00\x00a"}
	// a file without messages (alone, and after a good file): rejected, nothing of it written
	for _, hs := range []byte{14, 12} {
		ec := encCfg{headerSize: hs, protoVer: proto.V2}
		out = append(out, oddInput{ec, []encFile{{hsize: hs}}})
		out = append(out, oddInput{ec, []encFile{{hsize: hs, msgs: []proto.Message{fileIdMesg(r)}}, {hsize: hs}}})
	}
	for _, big := range []bool{false, true} {
		for _, comp := range []bool{false, true} {
			ec := encCfg{bigEndian: big, headerSize: 14, protoVer: proto.V2, localTypes: 2}
			if comp {
				ec.headerOpt = encoder.HeaderOptionCompressedTimestamp
			}
			var msgs []proto.Message
			msgs = append(msgs, fileIdMesg(r))
			for _, ss := range strs {
				m := proto.Message{Num: mesgnum.FieldDescription}
				f := factory.CreateField(mesgnum.FieldDescription, fieldnum.FieldDescriptionFieldName)
				f.Value = proto.SliceString(ss)
				m.Fields = append(m.Fields, f)
				u := factory.CreateField(mesgnum.FieldDescription, fieldnum.FieldDescriptionUnits)
				u.Value = proto.SliceString(ss)
				m.Fields = append(m.Fields, u)
				msgs = append(msgs, m)
				// the same values on an unknown string field
				x := proto.Message{Num: 0xFF20}
				xf := factory.CreateField(0xFF20, 1)
				xf.BaseType, xf.Type, xf.Array = basetype.String, profile.String, true
				xf.Value = proto.SliceString(ss)
				x.Fields = append(x.Fields, xf)
				msgs = append(msgs, x)
			}
			for _, sv := range scalars {
				m := proto.Message{Num: mesgnum.FileId}
				f := factory.CreateField(mesgnum.FileId, fieldnum.FileIdProductName)
				f.Value = proto.String(sv)
				m.Fields = append(m.Fields, f)
				t := factory.CreateField(mesgnum.FileId, fieldnum.FileIdType)
				t.Value = proto.Uint8(4)
				m.Fields = append(m.Fields, t)
				msgs = append(msgs, m)
			}
			// one message per file so that a rejected shape does not hide the others
			for _, m := range msgs[1:] {
				out = append(out, oddInput{ec, []encFile{{hsize: 14, msgs: []proto.Message{msgs[0], m}}}})
			}
		}
	}
	return out
}
