module verifharness

go 1.21

require (
	github.com/muktihari/carto v0.1.1
	github.com/muktihari/fit v0.0.0
)

replace github.com/muktihari/fit => /repo
