package main

import (
	"fmt"

	"github.com/muktihari/fit/kit/hash/crc16"
)

func init() { cmds["c18"] = c18; cmds["c18-table"] = c18Table }

// reference: bit-serial CRC-16/ARC written from the definition (direct oracle only)
func crcRef(crc uint16, p []byte) uint16 {
	for _, b := range p {
		for i := 0; i < 8; i++ {
			bit := uint16(b>>uint(i)) & 1
			if (crc&1)^bit == 1 {
				crc = (crc >> 1) ^ 0xA001
			} else {
				crc >>= 1
			}
		}
	}
	return crc
}

// c18: random scripts of Write/Sum16/Sum/Reset against one hash object.
func c18(args []string) {
	c, fs := commonFlags("c18", args)
	fs.Parse(args)
	n := c.n
	if n == 0 {
		n = 1500
		if c.tier == "thorough" {
			n = 20000
		}
	}
	r := newRng(c.seed)
	// the hash.Hash16 contract around the checksum: 2-byte sum, block size 1, Sum appends big-endian to what it is given
	{
		h := crc16.New()
		h.Write([]byte("123456789"))
		sum := h.Sum([]byte{0xAA})
		stat("hash_interface_checks", 1)
		if h.Size() != 2 || h.BlockSize() != 1 || len(sum) != 3 || sum[0] != 0xAA || uint16(sum[1])<<8|uint16(sum[2]) != h.Sum16() || h.Sum16() != 0xBB3D {
			emitJSON("FAIL", "", map[string]any{"kind": "hash-interface", "size": h.Size(), "block_size": h.BlockSize(), "sum": fmt.Sprintf("%x", sum), "sum16": h.Sum16()})
		}
	}
	for i := 0; i < n; i++ {
		h := crc16.New()
		var ops, outs []string
		var acc []byte
		nops := 1 + r.intn(12)
		var human []string
		for j := 0; j < nops; j++ {
			switch k := r.intn(10); {
			case k < 6:
				var ln int
				switch r.intn(6) {
				case 0:
					ln = 0
				case 1:
					ln = 1
				case 2:
					ln = r.intn(4)
				case 3:
					ln = r.intn(40)
				default:
					ln = r.intn(16)
				}
				b := r.bytes(ln)
				if r.chance(1, 8) {
					for x := range b {
						b[x] = byte(r.pick(0, 0xFF, 0x80, 1))
					}
				}
				nw, err := h.Write(b)
				if nw != len(b) || err != nil {
					emitJSON("FAIL", "", map[string]any{"kind": "write-result", "n": nw, "len": len(b)})
				}
				acc = append(acc, b...)
				ops = append(ops, "OpWrite "+coqBytes(b))
				outs = append(outs, "OutNone")
				human = append(human, fmt.Sprintf("Write(%x)", b))
				stat("op_write", 1)
				stat(fmt.Sprintf("write_len_%s", bucket(ln)), 1)
			case k < 8:
				s := h.Sum16()
				ops = append(ops, "OpSum16")
				outs = append(outs, "OutSum16 "+coqN(uint64(s)))
				human = append(human, fmt.Sprintf("Sum16=%04x", s))
				stat("op_sum16", 1)
				if want := crcRef(0, acc); s != want {
					emitJSON("FAIL", "", map[string]any{"kind": "sum16", "bytes": fmt.Sprintf("%x", acc), "got": s, "want": want})
				}
			case k < 9:
				s := h.Sum(nil)
				ops = append(ops, "OpSum")
				outs = append(outs, "OutSum "+coqBytes(s))
				human = append(human, fmt.Sprintf("Sum=%x", s))
				stat("op_sum", 1)
			default:
				h.Reset()
				acc = acc[:0]
				ops = append(ops, "OpReset")
				outs = append(outs, "OutNone")
				human = append(human, "Reset")
				stat("op_reset", 1)
			}
		}
		emit("CASE", fmt.Sprintf("(%s, %s)", coqList(ops), coqList(outs)))
		if i < 3 {
			emit("SAMPLE", fmt.Sprint(human))
		}
	}
	// large single writes (sizes around every power of two up to 128 KiB, contents that drive the low state byte through
	// every value) against the same bytes written in pieces and against the bit-serial reference
	big := 0
	for _, size := range []int{255, 256, 257, 511, 512, 1023, 1024, 1025, 2048, 4095, 4096, 4097, 8192, 16384, 32767, 32768, 65535, 65536, 65537, 70000, 131072} {
		for variant := 0; variant < 4; variant++ {
			b := r.bytes(size)
			switch variant {
			case 1:
				for x := range b {
					b[x] = byte(x * 7)
				}
			case 2:
				for x := range b {
					b[x] = 0
				}
				b[0] = 0xFF
			case 3:
				for x := range b {
					b[x] = 0xFF
				}
			}
			h := crc16.New()
			h.Write(b)
			one := h.Sum16()
			h2 := crc16.New()
			for off := 0; off < len(b); {
				k := 1 + r.intn(700)
				if off+k > len(b) {
					k = len(b) - off
				}
				h2.Write(b[off : off+k])
				off += k
			}
			want := crcRef(0, b)
			big++
			if one != want || h2.Sum16() != want {
				emitJSON("FAIL", "", map[string]any{"kind": "large-write", "size": size, "variant": variant, "single_write": one, "pieces": h2.Sum16(), "want": want,
					"bytes_head": fmt.Sprintf("%x", b[:minInt(len(b), 64)]), "seed": c.seed})
			}
			if size <= 1025 && variant < 2 {
				emit("CASE", fmt.Sprintf("([OpWrite %s; OpSum16], [OutNone; OutSum16 %s])", coqBytes(b), coqN(uint64(one))))
			}
		}
	}
	stat("oracle_large_writes", big)
	// all 256 bytes from 4096 strided states reached through the exported API (two-byte prefix)
	cnt := 0
	for p := 0; p < 65536; p += 16 {
		pre := []byte{byte(p), byte(p >> 8)}
		for b := 0; b < 256; b += 1 + (p>>4)%3 {
			h := crc16.New()
			h.Write(pre)
			h.Write([]byte{byte(b)})
			if got, want := h.Sum16(), crcRef(0, append(pre, byte(b))); got != want {
				emitJSON("FAIL", "", map[string]any{"kind": "update", "bytes": fmt.Sprintf("%x", append(pre, byte(b))), "got": got, "want": want})
			}
			cnt++
		}
	}
	stat("oracle_state_byte_pairs", cnt)
}

func bucket(n int) string {
	switch {
	case n == 0:
		return "0"
	case n == 1:
		return "1"
	case n < 8:
		return "2-7"
	case n < 32:
		return "8-31"
	case n < 256:
		return "32-255"
	}
	return "256+"
}

// c18-table: the complete update table through the exported API -- every state (all 65536 two-byte
// prefixes reach every state) times every byte -- against the bit-serial definition.  Search step when a
// proof obligation broke, and the thorough tier's exhaustive oracle.
func c18Table(args []string) {
	bad := 0
	seen := make([]bool, 65536)
	for p := 0; p < 65536; p++ {
		pre := []byte{byte(p), byte(p >> 8)}
		h := crc16.New()
		h.Write(pre)
		st := h.Sum16()
		seen[st] = true
		for b := 0; b < 256; b++ {
			h2 := crc16.New()
			h2.Write(pre)
			h2.Write([]byte{byte(b)})
			if got, want := h2.Sum16(), crcRef(0, []byte{pre[0], pre[1], byte(b)}); got != want {
				if bad < 5 {
					emitJSON("FAIL", "", map[string]any{"kind": "update", "bytes": fmt.Sprintf("%x", []byte{pre[0], pre[1], byte(b)}), "got": got, "want": want})
				}
				bad++
			}
		}
	}
	n := 0
	for _, s := range seen {
		if s {
			n++
		}
	}
	stat("states_reached", n)
	stat("pairs_checked", 65536*256)
	stat("pairs_bad", bad)
}
