// verifharness drives the implementation under /repo for the correspondence checks and the direct
// property oracles.  Every random choice derives from one SplitMix64 state (--seed).
// Output protocol (stdout, one record per line):
//
//	CASE <coq term>      a case for cases.v (input and projected observable)
//	STAT <key> <int>     histogram entry for the evidence file
//	SAMPLE <text>        a sample case, human readable
//	FAIL <json>          the direct oracle found a violation (json = replay data)
//	KNOWN <id> <json>    a failing case that a known-finding classifier explains
package main

import (
	"bufio"
	"encoding/json"
	"flag"
	"fmt"
	"os"
	"sort"
)

type cmd struct {
	name string
	run  func(args []string)
}

var cmds = map[string]func(args []string){}

var out = bufio.NewWriterSize(os.Stdout, 1<<20)

var stats = map[string]int{}

func stat(key string, n int) { stats[key] += n }

func emit(kind, text string) { fmt.Fprintf(out, "%s %s\n", kind, text) }

func emitJSON(kind string, prefix string, v any) {
	b, err := json.Marshal(v)
	if err != nil {
		panic(err)
	}
	if prefix != "" {
		fmt.Fprintf(out, "%s %s %s\n", kind, prefix, b)
	} else {
		fmt.Fprintf(out, "%s %s\n", kind, b)
	}
}

func flushStats() {
	keys := make([]string, 0, len(stats))
	for k := range stats {
		keys = append(keys, k)
	}
	sort.Strings(keys)
	for _, k := range keys {
		fmt.Fprintf(out, "STAT %s %d\n", k, stats[k])
	}
}

type common struct {
	seed uint64
	tier string
	n    int
	file string
}

func commonFlags(name string, args []string) (*common, *flag.FlagSet) {
	c := &common{}
	fs := flag.NewFlagSet(name, flag.ExitOnError)
	fs.Uint64Var(&c.seed, "seed", 1, "PRNG seed")
	fs.StringVar(&c.tier, "tier", "quick", "quick|thorough")
	fs.IntVar(&c.n, "n", 0, "number of cases (0 = tier default)")
	fs.StringVar(&c.file, "replay", "", "replay file")
	return c, fs
}

func main() {
	defer out.Flush()
	if len(os.Args) < 2 {
		fmt.Fprintln(os.Stderr, "usage: verifharness <command> [flags]")
		os.Exit(2)
	}
	if os.Args[1] == "list-dumps" {
		var names []string
		for k := range cmds {
			if len(k) > 5 && k[:5] == "dump-" {
				names = append(names, k)
			}
		}
		sort.Strings(names)
		for _, k := range names {
			fmt.Println(k)
		}
		return
	}
	f, ok := cmds[os.Args[1]]
	if !ok {
		fmt.Fprintf(os.Stderr, "unknown command %s\n", os.Args[1])
		os.Exit(2)
	}
	f(os.Args[2:])
	flushStats()
}
