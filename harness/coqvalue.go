package main

import (
	"fmt"
	"math"
	"strings"

	"github.com/muktihari/fit/proto"
)

func nlist[T any](xs []T, f func(T) uint64) string {
	var sb strings.Builder
	sb.WriteByte('[')
	for i, x := range xs {
		if i > 0 {
			sb.WriteByte(';')
		}
		sb.WriteString(coqN(f(x)))
	}
	sb.WriteByte(']')
	return sb.String()
}

// coqValue prints a proto.Value as a term of Model/Value.v (bit patterns, unsigned).
func coqValue(v proto.Value) string {
	switch v.Type() {
	case proto.TypeInvalid:
		return "VInvalid"
	case proto.TypeBool:
		return "VNum TBool " + coqN(uint64(v.Bool()))
	case proto.TypeInt8:
		return "VNum TI8 " + coqN(uint64(uint8(v.Int8())))
	case proto.TypeUint8:
		return "VNum TU8 " + coqN(uint64(v.Uint8()))
	case proto.TypeInt16:
		return "VNum TI16 " + coqN(uint64(uint16(v.Int16())))
	case proto.TypeUint16:
		return "VNum TU16 " + coqN(uint64(v.Uint16()))
	case proto.TypeInt32:
		return "VNum TI32 " + coqN(uint64(uint32(v.Int32())))
	case proto.TypeUint32:
		return "VNum TU32 " + coqN(uint64(v.Uint32()))
	case proto.TypeInt64:
		return "VNum TI64 " + coqN(uint64(v.Int64()))
	case proto.TypeUint64:
		return "VNum TU64 " + coqN(v.Uint64())
	case proto.TypeFloat32:
		return "VNum TF32 " + coqN(uint64(math.Float32bits(v.Float32())))
	case proto.TypeFloat64:
		return "VNum TF64 " + coqN(math.Float64bits(v.Float64()))
	case proto.TypeString:
		return "VStr " + coqBytes([]byte(v.String()))
	case proto.TypeSliceBool:
		return "VArr TBool " + nlist(v.SliceBool(), func(x typedefBool) uint64 { return uint64(x) })
	case proto.TypeSliceInt8:
		return "VArr TI8 " + nlist(v.SliceInt8(), func(x int8) uint64 { return uint64(uint8(x)) })
	case proto.TypeSliceUint8:
		return "VArr TU8 " + nlist(v.SliceUint8(), func(x uint8) uint64 { return uint64(x) })
	case proto.TypeSliceInt16:
		return "VArr TI16 " + nlist(v.SliceInt16(), func(x int16) uint64 { return uint64(uint16(x)) })
	case proto.TypeSliceUint16:
		return "VArr TU16 " + nlist(v.SliceUint16(), func(x uint16) uint64 { return uint64(x) })
	case proto.TypeSliceInt32:
		return "VArr TI32 " + nlist(v.SliceInt32(), func(x int32) uint64 { return uint64(uint32(x)) })
	case proto.TypeSliceUint32:
		return "VArr TU32 " + nlist(v.SliceUint32(), func(x uint32) uint64 { return uint64(x) })
	case proto.TypeSliceInt64:
		return "VArr TI64 " + nlist(v.SliceInt64(), func(x int64) uint64 { return uint64(x) })
	case proto.TypeSliceUint64:
		return "VArr TU64 " + nlist(v.SliceUint64(), func(x uint64) uint64 { return x })
	case proto.TypeSliceFloat32:
		return "VArr TF32 " + nlist(v.SliceFloat32(), func(x float32) uint64 { return uint64(math.Float32bits(x)) })
	case proto.TypeSliceFloat64:
		return "VArr TF64 " + nlist(v.SliceFloat64(), func(x float64) uint64 { return math.Float64bits(x) })
	case proto.TypeSliceString:
		ss := v.SliceString()
		items := make([]string, len(ss))
		for i, s := range ss {
			items[i] = coqBytes([]byte(s))
		}
		return "VStrs " + coqList(items)
	}
	return fmt.Sprintf("(Unmapped %d)", v.Type())
}
