"""C08 -- decoding is independent of how the reader fragments the stream."""
from .common import *
from .manifest_data import NOTE_COMMON

CLAIM = {
  "technique": "Coq refinement proof of readBuffer.ReadN (real array/cur/last/memmove layout, io.ReadAtLeast loop, bounds-checked slices) to 'take n bytes of the stream' for every "
               "chunk schedule, EOF style and buffer size (induction over the ReadAtLeast loop and over request scripts); model tied to readbuffer.go through an add-only verif "
               "hook by differential execution of ReadN scripts (exact, error kinds included); chunked-vs-contiguous Go oracle for whole decodes and reader failures",
  "text": "Proved: every ReadN over any chunking reader returns exactly the next n bytes of the stream, leaves exactly the rest, never panics, fails iff fewer than n bytes remain; "
          "any two schedules/buffer sizes answer every request script alike (error kind aside); every buffer size option is well-formed and the decoder's largest request fits "
          "the reserved section. A reused buffer (Decoder.Reset with another size option; C08_reset_any_history, C08_reused_like_fresh): whatever array the buffer holds from "
          "earlier uses, Reset never panics on its slice expression, yields an empty well-formed window of 765 + clamp(size) bytes within the capacity, keeps the array exactly "
          "when it is large enough, and the reused buffer answers every request script like a fresh one (model tied to the code by Reset/ReadN scripts through the hook). Lifted to the decoder (C08_decode_buffer_independent, C08_fresh_decoders_agree): in the decoder model one refill delivers min(buffer size, "
          "what the reader holds), so the buffer size decides how the stream reaches the decoder; two decoders whose option sets differ in the buffer size only, however much "
          "of the stream each has already buffered, return the same FIT (headers, messages, CRC) and stay related, or errors of one class -- relational proof through every "
          "function of the decoder model. The decoder model's own read layer meets the very specification proved of ReadN over any chunking reader "
          "(C08_decoder_reads_are_stream_reads: the next n bytes or an end-of-stream error iff fewer remain), so the two layers meet at one specification. "
          "Arbitrary chunk plans directly under Decode, CheckIntegrity-rewind-Decode under fragmentation and the reader-failure clause are decided per run by the Go oracle (chunked vs "
          "contiguous event logs of Decode; count and verdict of CheckIntegrity, also with a reader that returns all bytes together with io.EOF). The error KIND on truncation depends on the chunking "
          "(known finding eof_kind_depends_on_chunking, pinned by TestDecodeMessageData).",
  "note": NOTE_COMMON + " io.ReadAtLeast and the io.Reader contract (0 < n <= len(p) unless EOF/error) are modelled, not verified; hook commit in MANIFEST.hooks."}


def run(ctx):
    ctx.cov["rule"] = ("(a) ReadN request scripts (1..25 requests of 0..765 bytes, decoder-like sizes) over streams of 0..3000 bytes x chunk plans {1-byte, all-at-once, refill-"
                       "boundary sizes 764/765/766/4095/4096/4097, random} x EOF with/after the last bytes x buffer size options {0,1,765,766,1024,4096}; (a') Reset/ReadN scripts on one long-lived buffer, 2..4 resets with sizes just "
                       "below / equal / inside / beyond the 765-byte band above the array in use; (b) whole decodes of "
                       "valid, mutated, truncated and chained inputs chunked vs contiguous, reader failures at a random offset, a reused decoder (Reset to another buffer size) vs a "
                       "fresh one, the raw decoder chunked vs contiguous and with the reader failing at every sequence boundary, at the very end and at random offsets; non-trivial = script longer than 2; distinct by case")
    ctx.cov["checker_cmd"] = "coq/build.sh Props/C08.vo Run/RunC08.vo; coqc Props/C08.v; coqc cases_C08_*.v (vm_compute)"
    tr = ctx.prepare(parts=["factory", "dump-consts", "crc", "decoder-reset", "convmode", "decconst"])
    ok, _ = ctx.coq(["Props/C08.vo", "Run/RunC08.vo"])
    if ok:
        ctx.props()
    else:
        ctx.cov["obligations"] += 5
        ctx.broken.append("Props/C08.vo / Run/RunC08.vo do not build (reservedbuf changed?)")
    for k, v in tr.items():
        if v:
            ctx.broken.append("model part %s: %s" % (k, v))
    hits = ctx.forbidden_scan()
    if hits:
        ctx.broken.append("forbidden vernacular: " + ", ".join(hits[:5]))
    n = 350 if ctx.tier == "quick" else 6000
    h = ctx.harness(["c08", "--seed", ctx.seed, "-n", n])
    if h.rc != 0:
        ctx.broken.append("harness c08 failed: " + getattr(h, "stderr", "")[-300:])
    ctx.count(len(h.cases) + len(h.lines.get("REUSE", [])) + h.stats.get("oracle_raw_chunked_vs_contiguous", 0) + h.stats.get("oracle_raw_reader_failure", 0) + h.stats.get("oracle_reused_decoder", 0) + h.stats.get("oracle_chunked_vs_contiguous", 0) + h.stats.get("oracle_reader_failure", 0), [c for c in h.cases if c.count("%nat") > 6])
    found = False
    for f in h.fails[:3]:
        ctx.violation({"source": "direct Go oracle: chunked vs contiguous decode / reader failure / read buffer panic", "failing": f})
        found = True
    for kid, js in h.knowns[:5]:
        a = js.get("contiguous_err", (js.get("contiguous") or [None, None])[-1])
        b = js.get("chunked_err", (js.get("chunked") or [None, None])[-1])
        if not ctx.known(kid, "stream ending inside a sequence (%s): contiguous reader reports class %s, fragmenting reader class %s (0 = io.EOF read as end of stream after a "
                              "complete sequence, 1 = io.EOF, 2 = io.ErrUnexpectedEOF), same events / same count" % (js.get("kind"), a, b)):
            ctx.violation({"source": "direct Go oracle (unlisted finding %s)" % kid, "failing": js})
            found = True
    if os.path.exists(os.path.join(COQ, "Run/RunC08.vo")):
        bad, err = ctx.run_cases("Run.RunC08", "nat * list nat * bool * list N * list nat * list (outcome (list N))", h.cases, shard=25)
        if err:
            ctx.broken.append("correspondence could not be evaluated: " + str(err)[:300])
        for i in bad[:2]:
            ctx.violation({"source": "correspondence: Model/ReadBuf.v differs from decoder.readBuffer (ReadN script)", "case": h.cases[i][:20000]})
            found = True
        reuse = h.lines.get("REUSE", [])
        bad, err = ctx.run_cases("Run.RunC08", "list rop * list robs", reuse, check="check_reuse", shard=25)
        if err:
            ctx.broken.append("correspondence (reused buffer) could not be evaluated: " + str(err)[:300])
        for i in bad[:2]:
            ctx.violation({"source": "correspondence: Model/ReadBuf.v (rb_reset / read_n on a long-lived buffer) differs from decoder.readBuffer (Reset / ReadN script)", "case": reuse[i][:20000]})
            found = True
    if ctx.broken and not found:
        ctx.violation({"broken": ctx.broken, "searched": "%d scripts, %d chunked decodes" % (len(h.cases), h.stats.get("oracle_chunked_vs_contiguous", 0))}, no_input=True)
    return ctx.finish()
