"""C20 -- fitactivity: conceal hides the stretch; remove / reduce / combine conserve the rest."""
from .common import *
from .manifest_data import NOTE_COMMON

CLAIM = {
  "technique": "Coq proof over an executable Gallina model of concealer/remover/reducer/combiner(+accumulator, aggregator on a session "
               "projection), tied to the Go packages by differential execution of generated activities inside Coq (vm_compute) and a "
               "direct Go oracle of the property statement",
  "text": "Proved for all message lists: every in-place swap-compaction loop (remover x3, reducer x2, defragment, combiner per-file loop) is the "
          "stable stateful filter; remove/reduce = filter keep with keep spelled out (first record kept, a record dropped only if closer than "
          "the interval to the previously kept one, non-records untouched, order kept); defragment removes exactly the fragment indices and "
          "find_fragments = record indices not kept by the simplification (rdp.Simplify itself is an oracle variable). Conceal, under valid "
          "non-decreasing record distances: every record inside either stretch loses its position, every other record is unchanged, nothing "
          "but record/lap/session position fields changes (frame, unconditional); laps/sessions: proved for the code's own criterion; the "
          "time-based criterion of the statement is refuted (finding lap_inside_concealed_zone: raw millisecond total_timer_time added to a "
          "timestamp in seconds) and, newly, conceal_end_zone_covers_activity. Combine: body = first file ++ accumulated later files in "
          "creation-time order (stable sort proved a sorted permutation), records conserved in order and content up to accumulable fields; "
          "accumulable fields continue as value + last accumulated of the earlier files (exception listed as combine_first_seen_in_later_file).",
  "note": NOTE_COMMON + " Session merging is modelled on 12 session fields (one per aggregation class), the rest of the summary tail only by "
          "message kind and count. time.Time arithmetic with absent start times is outside the model. rdp.Simplify is an oracle."}

KNOWN_TEXT = {
  "lap_inside_concealed_zone": "a lap/session start or end position still points into the concealed start stretch: concealer adds raw "
                               "millisecond total_timer_time to start_time in seconds, so laps that end before the first revealed record "
                               "are not recognised (and the scan stops at the first lap)",
  "conceal_end_zone_covers_activity": "when the end zone covers every record (no record is revealed by the backward scan) only the last "
                                      "lap/session is treated; earlier laps keep start/end positions although every record is concealed",
  "reduce_record_without_key": "reduce by distance/time drops every record (after the first) that has no valid distance/timestamp, although "
                               "it is not closer than the interval to the previously kept record; a first record without the value "
                               "makes the next records compare against 0",
  "combine_first_seen_in_later_file": "an accumulable field that first appears in a later input (no value in the earlier files) is offset by "
                                      "its own first value in that file (Accumulate collects it as the base) instead of continuing from 0",
}

TARGETS = ["Props/C20.vo", "Run/RunC20.vo"]


def _sizes(case):
    return case[:40]


def run(ctx):
    ctx.cov["rule"] = ("synthetic activities (1-3 sessions x 1-3 laps x 0-40 records; pauses, missing/invalid positions and distances, equal/zero/"
                       "decreasing distances, laps without start_time/total_timer_time, unknown and developer messages) x conceal thresholds "
                       "(0, record distances, half, total, longer than the activity) / removal option sets / reduce methods and intervals / "
                       "1..5 inputs to combine (equal, missing, shuffled creation times; files without session; empty files); a case is "
                       "non-trivial when the tool changed the message list; distinct by case text")
    ctx.cov["checker_cmd"] = "coq/build.sh Props/C20.vo Run/RunC20.vo; coqc Props/C20.v; coqc cases_C20_*.v"
    ctx.cov["trusted_base"] += ["harness dump-activitynums (message/field numbers, sentinels, typedef.ListMesgNum) for coq/gen/ActivityNums.v",
                                "github.com/muktihari/carto/rdp.Simplify as an uninterpreted oracle (kept indices reported by Go)",
                                "slices.SortStableFunc modelled as stable insertion sort",
                                "aggregator/mesgdef.Session modelled on 12 fields; time.Time arithmetic on valid start times as integer seconds"]
    ctx.assumptions += ["messages carry no duplicate field numbers (RemoveFieldByNum removes the first occurrence only) -- hypothesis of conceal_records/conceal_laps",
                        "record distances valid and non-decreasing (the statement's own scope) for conceal_records",
                        "uint32 arithmetic wraps (modelled mod 2^32); float64->uint32 of the session gap as on amd64",
                        "combine: at least one non-empty input"]
    tr = ctx.prepare(parts=["dump-activitynums"])
    if tr.get("dump-activitynums"):
        ctx.broken.append("dump-activitynums: " + str(tr["dump-activitynums"]))
    ok, log = ctx.coq(TARGETS)
    model_ok = ok
    if ok:
        ctx.props()
    else:
        # the model may still build although a proof broke
        mok, _ = ctx.coq(["Run/RunC20.vo"])
        model_ok = mok
        ctx.cov["obligations"] += 1
        ctx.broken.append("Props/C20.vo does not build (a theorem about the model no longer checks)" if mok else "Model/Activity.v / Run/RunC20.v do not build")
    hits = [h for h in ctx.forbidden_scan() if "Activity" in h or "C20" in h]
    if hits:
        ctx.broken.append("forbidden vernacular: " + ", ".join(hits[:5]))

    h = ctx.harness(["c20", "--seed", ctx.seed, "--tier", ctx.tier], timeout=3000)
    if h.rc != 0:
        ctx.broken.append("harness c20 failed (rc=%d): %s" % (h.rc, getattr(h, "stderr", "")[-300:]))
    nontrivial = h.stats.get("conceal_nontrivial", 0) + h.stats.get("remove_nontrivial", 0) + h.stats.get("reduce_nontrivial", 0) + h.stats.get("combine_nontrivial", 0)
    ctx.count(len(h.cases), h.cases)
    ctx.cov["nontrivial_cases"] = nontrivial
    found = False
    # smallest failing inputs first: the replay is the input a person reads
    for f in sorted(h.fails, key=lambda f: len(json.dumps(f.get("input", f))))[:3]:
        ctx.violation({"source": "direct Go oracle of the property statement", "failing": f})
        found = True
    for kid, js in h.knowns:
        if not ctx.known(kid, KNOWN_TEXT.get(kid, kid)):
            if not found:
                ctx.violation({"source": "direct Go oracle: deviation classified as '%s', which is not a listed known finding" % kid, "failing": js})
            found = True

    bad, err = ([], "model does not build")
    if model_ok and os.path.exists(os.path.join(COQ, "Run/RunC20.vo")):
        bad, err = ctx.run_cases("Run.RunC20", "case", h.cases, shard=max(8, (len(h.cases) + 31) // 32))
    if err:
        ctx.broken.append("correspondence C20 could not be evaluated: " + str(err)[:300])
    ctx.cov["disagreeing_tools"] = sorted(set(h.cases[i].split(" ")[0] for i in bad))
    for i in sorted(bad, key=lambda i: len(h.cases[i]))[:3]:
        c = h.cases[i]
        rc, model = ctx.coq_eval("Run.RunC20", "model_output (%s)" % c)
        ctx.violation({"source": "correspondence: the Gallina model of the tool and the Go package disagree on this input",
                       "case": c[:20000], "model_output": str(model)[:8000], "tool": c.split(" ")[0]})
        found = True
    if ctx.broken and not found:
        ctx.violation({"broken": ctx.broken, "searched": "%d generated cases through the model and the Go oracle" % len(h.cases)}, no_input=True)
    return ctx.finish()


def replay(ctx, data):
    """every replay records seed and tier; the generator is deterministic, so the same run reproduces the case"""
    ctx.seed, ctx.tier = data.get("seed", ctx.seed), data.get("tier", ctx.tier)
    return run(ctx)
