"""Shared machinery of bin/check: build (translator, Coq, harness), cases.v evaluation, evidence,
violation / known-finding reporting."""
import fcntl, hashlib, json, os, re, shutil, subprocess, sys, time

VERIF = os.path.dirname(os.path.dirname(os.path.abspath(__file__)))
REPO = os.environ.get("VERIF_REPO", "/repo")
CACHE = os.path.join(VERIF, ".cache")
COQ = os.path.join(VERIF, "coq")
GOENV = dict(os.environ, GOFLAGS="-mod=mod", GOPROXY="off", GOSUMDB="off", GOTOOLCHAIN="local", CGO_ENABLED=os.environ.get("CGO_ENABLED", "1"))

FORBIDDEN = re.compile(r"\b(Admitted|admit|Axiom|Axioms|Parameter|Parameters|Conjecture|Admit Obligations|Unset Guard Checking|"
                       r"Unset Positivity Checking|Unset Universe Checking|bypass_check|type-in-type|impredicative-set)\b")

TRUSTED_COMMON = [
    "Coq 8.16.1 kernel and vm_compute (no native_compute)",
    "fit2coq translator (translator/*.go) for coq/gen/*.v",
    "correspondence harness (harness/*.go) and its projections",
    "cases.v rendering in checks/common.py",
]


def sh(cmd, cwd=None, env=None, timeout=None, inp=None):
    p = subprocess.run(cmd, cwd=cwd, env=env, stdout=subprocess.PIPE, stderr=subprocess.STDOUT, timeout=timeout,
                       input=inp, text=True, errors="replace")
    return p.returncode, p.stdout


class Lock:
    def __init__(self, name="build"):
        os.makedirs(CACHE, exist_ok=True)
        self.path = os.path.join(CACHE, name + ".lock")

    def __enter__(self):
        self.f = open(self.path, "w")
        fcntl.flock(self.f, fcntl.LOCK_EX)
        return self

    def __exit__(self, *a):
        fcntl.flock(self.f, fcntl.LOCK_UN)
        self.f.close()


class Harness:
    def __init__(self, rc, text):
        self.rc = rc
        self.cases, self.samples, self.fails, self.knowns, self.stats, self.other = [], [], [], [], {}, []
        self.lines = {}
        for line in text.split("\n"):
            if not line:
                continue
            kind, _, rest = line.partition(" ")
            if kind == "CASE":
                self.cases.append(rest)
            elif kind == "SAMPLE":
                self.samples.append(rest)
            elif kind == "FAIL":
                try:
                    self.fails.append(json.loads(rest))
                except Exception:
                    self.fails.append({"raw": rest})
            elif kind == "KNOWN":
                kid, _, js = rest.partition(" ")
                try:
                    self.knowns.append((kid, json.loads(js)))
                except Exception:
                    self.knowns.append((kid, {"raw": js}))
            elif kind == "STAT":
                k, _, v = rest.partition(" ")
                try:
                    self.stats[k] = self.stats.get(k, 0) + int(v)
                except ValueError:
                    pass
            elif kind.isupper() and kind.isalpha():
                self.lines.setdefault(kind, []).append(rest)
            else:
                self.other.append(line)


class Ctx:
    def __init__(self, prop, tier, seed):
        self.prop, self.tier, self.seed = prop, tier, seed
        self.t0 = time.time()
        self.violations = []       # (replay path, no_input)
        self.known_hits = {}       # id -> text
        self.cov = {"evaluations": 0, "distinct_nontrivial": 0, "rule": "", "samples": [], "obligations": 0, "discharged": 0,
                    "checker_cmd": "", "trusted_base": list(TRUSTED_COMMON), "traces_validated_against_impl": 0,
                    "histogram": {}, "axioms": {}, "theorems": [], "notes": []}
        self.assumptions = []
        self.translator = {}
        self.broken = []           # names of obligations / correspondences that no longer check
        self.log = []
        self._distinct = set()
        self.findings = [f for f in json.load(open(os.path.join(VERIF, "KNOWN_FINDINGS.json")))["findings"]
                         if prop in f.get("properties", [f.get("property")])]

    # ---------------------------------------------------------------- build
    def say(self, *a):
        msg = " ".join(str(x) for x in a)
        self.log.append(msg)
        print("[%s %5.1fs] %s" % (self.prop, time.time() - self.t0, msg), flush=True)

    def prepare(self, parts=()):
        """translator -> coq/gen, harness build.  Returns dict part -> ok."""
        with Lock():
            os.makedirs(os.path.join(COQ, "gen"), exist_ok=True)
            rc, out = sh(["go", "build", "-o", os.path.join(CACHE, "fit2coq"), "."], cwd=os.path.join(VERIF, "translator"), env=GOENV)
            if rc != 0:
                raise SystemExit("cannot build translator:\n" + out)
            rc, out = sh([os.path.join(CACHE, "fit2coq"), REPO, os.path.join(COQ, "gen")] + list(parts), env=GOENV)
            for line in out.split("\n"):
                m = re.match(r"PART (\S+) FAILED (.*)", line)
                if m:
                    self.translator[m.group(1)] = m.group(2)
                    self.say("translator part", m.group(1), "FAILED:", m.group(2))
            for p in parts:
                self.translator.setdefault(p, None)
            shutil.copy(os.path.join(REPO, "go.sum"), os.path.join(VERIF, "harness", "go.sum"))
            rc, out = sh(["go", "build", "-tags", "verif", "-o", os.path.join(CACHE, "harness"), "."],
                         cwd=os.path.join(VERIF, "harness"), env=GOENV)
            self.harness_ok = rc == 0
            if rc != 0:
                self.harness_err = out
                self.say("harness build failed:\n" + out[-3000:])
        return self.translator

    def forbidden_scan(self):
        hits = []
        for root, _, files in os.walk(COQ):
            for f in files:
                if f.endswith(".v"):
                    p = os.path.join(root, f)
                    txt = re.sub(r"\(\*.*?\*\)", "", open(p, errors="replace").read(), flags=re.S)
                    for m in FORBIDDEN.finditer(txt):
                        hits.append("%s: %s" % (os.path.relpath(p, VERIF), m.group(0)))
        return hits

    def coq(self, targets, timeout=3000):
        """make the given .vo targets (and what they depend on).  Returns (ok, log)."""
        with Lock():
            t = time.time()
            rc, out = sh([os.path.join(COQ, "build.sh")] + list(targets), env=dict(os.environ, COQ_TIMEOUT=str(timeout)))
            self.say("coq build %s: rc=%d (%.1fs)" % (" ".join(targets), rc, time.time() - t))
        if rc != 0:
            self.say(out[-2500:])
        return rc == 0, out

    def props(self, files=None):
        """compile Props/<prop>.v directly (its dependencies are built) and read theorem names and assumptions."""
        files = files or ["Props/%s.v" % self.prop]
        total, done = 0, 0
        for f in files:
            src = open(os.path.join(COQ, f)).read()
            names = re.findall(r"^Print Assumptions\s+(\S+?)\.\s*$", src, flags=re.M)
            rc, out = sh(["coqc", "-Q", ".", "Fit", "-w", "-notation-overridden,-deprecated-hint-without-locality,-inexact-float", f], cwd=COQ, timeout=3000)
            total += len(names)
            if rc != 0:
                self.say("coqc %s failed:\n%s" % (f, out[-2000:]))
                self.broken.append("theorems of %s (coqc failed)" % f)
                continue
            blocks = re.split(r"(?=^Closed under the global context|^Axioms:)", out, flags=re.M)
            blocks = [b for b in blocks if b.startswith("Closed") or b.startswith("Axioms:")]
            for i, n in enumerate(names):
                if i < len(blocks):
                    done += 1
                    if blocks[i].startswith("Closed"):
                        self.cov["axioms"][n] = []
                    else:
                        ax = re.findall(r"^([A-Za-z_][\w.']*)\s*:", blocks[i], flags=re.M)
                        ax += re.findall(r"^([A-Za-z_][\w.']*)\s*$", blocks[i], flags=re.M)
                        self.cov["axioms"][n] = sorted(set(a for a in ax if a != "Axioms"))
            self.cov["theorems"] += names
        self.cov["obligations"] += total
        self.cov["discharged"] += done
        return total, done

    def add_obligation(self, name, ok):
        self.cov["obligations"] += 1
        if ok:
            self.cov["discharged"] += 1
        else:
            self.broken.append(name)
        self.cov["theorems"].append(name)

    # ---------------------------------------------------------------- implementation side
    def harness(self, args, timeout=3000, env=None, binary=None):
        if not getattr(self, "harness_ok", False) and binary is None:
            return Harness(2, "")
        e = dict(GOENV)
        if env:
            e.update(env)
        p = subprocess.run([binary or os.path.join(CACHE, "harness")] + [str(a) for a in args], stdout=subprocess.PIPE, stderr=subprocess.PIPE,
                           text=True, errors="replace", env=e, timeout=timeout)
        h = Harness(p.returncode, p.stdout)
        h.stderr = p.stderr
        if p.returncode != 0:
            self.say("harness %s exited %d: %s" % (" ".join(map(str, args)), p.returncode, p.stderr[-1500:]))
        for k, v in h.stats.items():
            self.cov["histogram"][k] = self.cov["histogram"].get(k, 0) + v
        for s in h.samples[:3]:
            if len(self.cov["samples"]) < 6:
                self.cov["samples"].append(s[:1500])
        return h

    # ---------------------------------------------------------------- model side
    def run_cases(self, run_module, ctype, cases, check="check_case", shard=400, extra_imports=(), timeout=1800):
        """evaluate [check] on every case inside Coq (vm_compute).  Returns (list of bad case indices, error text or None)."""
        if not cases:
            return [], None
        d = os.path.join(CACHE, "cases", "%s-%d" % (self.prop, os.getpid()))
        shutil.rmtree(d, ignore_errors=True)
        os.makedirs(d)
        procs = []
        nshard = (len(cases) + shard - 1) // shard
        for k in range(nshard):
            chunk = cases[k * shard:(k + 1) * shard]
            name = "cases_%s_%03d" % (self.prop, k)
            with open(os.path.join(d, name + ".v"), "w") as f:
                f.write("From Coq Require Import NArith ZArith List String.\nImport ListNotations.\n")
                f.write("From Fit Require Import %s.\n" % run_module)
                for imp in extra_imports:
                    f.write(imp + "\n")
                f.write("Open Scope N_scope.\n")
                f.write("Definition cases : list (%s) := [\n" % ctype)
                f.write(";\n".join(chunk))
                f.write("\n].\nDefinition M := Eval vm_compute in (bad_indices %s cases).\nPrint M.\n" % check)
            procs.append((k, name))
        bad, err = [], None
        running = []
        idx = 0
        maxpar = 16
        results = {}
        t = time.time()
        while idx < len(procs) or running:
            while idx < len(procs) and len(running) < maxpar:
                k, name = procs[idx]
                p = subprocess.Popen(["timeout", str(timeout), "coqc", "-Q", COQ, "Fit", "-w", "-all", name + ".v"], cwd=d,
                                     stdout=subprocess.PIPE, stderr=subprocess.STDOUT, text=True)
                running.append((k, p))
                idx += 1
            k, p = running.pop(0)
            out, _ = p.communicate()
            results[k] = (p.returncode, out)
        for k in sorted(results):
            rc, out = results[k]
            m = re.search(r"M\s*=\s*\[(.*?)\]\s*:\s*list N", out, flags=re.S)
            if rc != 0 or not m:
                err = (err or "") + "shard %d: coqc rc=%d: %s\n" % (k, rc, out[-1500:])
                continue
            body = m.group(1).strip()
            if body:
                for tok in body.split(";"):
                    tok = tok.strip().replace("%N", "")
                    if tok:
                        bad.append(k * shard + int(tok))
        self.say("cases: %d cases in %d shards, %d disagree (%.1fs)%s" % (len(cases), nshard, len(bad), time.time() - t, " ERR" if err else ""))
        if not err:
            shutil.rmtree(d, ignore_errors=True)
            self.cov["traces_validated_against_impl"] += len(cases)
        return bad, err

    def coq_eval(self, run_module, expr, timeout=1800, extra_imports=()):
        """Eval vm_compute of a closed term; returns printed text."""
        d = os.path.join(CACHE, "cases", "%s-%d-eval" % (self.prop, os.getpid()))
        os.makedirs(d, exist_ok=True)
        with open(os.path.join(d, "ev.v"), "w") as f:
            f.write("From Coq Require Import NArith ZArith List String.\nImport ListNotations.\nFrom Fit Require Import %s.\n" % run_module)
            for imp in extra_imports:
                f.write(imp + "\n")
            f.write("Open Scope N_scope.\nDefinition R := Eval vm_compute in (%s).\nPrint R.\n" % expr)
        rc, out = sh(["timeout", str(timeout), "coqc", "-Q", COQ, "Fit", "-w", "-all", "ev.v"], cwd=d)
        shutil.rmtree(d, ignore_errors=True)
        m = re.search(r"R\s*=\s*(.*?)\s*:\s*[^:]*$", out, flags=re.S)
        return rc, (m.group(1).strip() if m else out)

    def count(self, n_eval, distinct_keys=()):
        self.cov["evaluations"] += n_eval
        for k in distinct_keys:
            self._distinct.add(hashlib.sha1(k.encode()).hexdigest())
        self.cov["distinct_nontrivial"] = len(self._distinct)

    # ---------------------------------------------------------------- reporting
    def violation(self, replay, no_input=False):
        os.makedirs(os.path.join(VERIF, "replays"), exist_ok=True)
        body = json.dumps(replay, indent=1, sort_keys=True, default=str)
        sha = hashlib.sha1(body.encode()).hexdigest()[:12]
        path = os.path.join(VERIF, "replays", "%s-%s.json" % (self.prop, sha))
        replay = dict(replay, property=self.prop, seed=self.seed, tier=self.tier,
                      how_to_replay="bin/check %s --replay %s" % (self.prop, path))
        with open(path, "w") as f:
            json.dump(replay, f, indent=1, sort_keys=True, default=str)
        self.violations.append((path, no_input))

    def known(self, fid, text):
        """a failing case explained by a listed known finding; anything not listed is a violation"""
        for f in self.findings:
            if f["id"] == fid and f["status"] == "known":
                self.known_hits.setdefault(fid, text)
                return True
        return False

    def finish(self):
        wall = time.time() - self.t0
        self.cov["broken"] = self.broken
        self.cov["known_findings_seen"] = sorted(self.known_hits)
        if not self.cov["samples"]:
            self.cov["samples"] = ["(no sample)"]
        ev = {"property_id": self.prop, "tier": self.tier, "seed": self.seed, "level": "proof", "coverage": self.cov,
              "assumptions": self.assumptions, "wall_s": round(wall, 2), "violations": len(self.violations)}
        os.makedirs(os.path.join(VERIF, "evidence"), exist_ok=True)
        with open(os.path.join(VERIF, "evidence", self.prop + ".json"), "w") as f:
            json.dump(ev, f, indent=1, sort_keys=True, default=str)
        for fid, text in sorted(self.known_hits.items()):
            print("KNOWN-FINDING: property=%s %s: %s" % (self.prop, fid, text))
        for path, no_input in self.violations[:5]:
            print("VIOLATION property=%s replay=%s%s" % (self.prop, path, " no-failing-input-found" if no_input else ""))
        print("[%s] %s: obligations %d/%d, %d cases against the implementation, %d evaluations, %.1fs" % (
            self.prop, "VIOLATION" if self.violations else "ok", self.cov["discharged"], self.cov["obligations"],
            self.cov["traces_validated_against_impl"], self.cov["evaluations"], wall), flush=True)
        return 1 if self.violations else 0
