"""C06 -- protocol values marshal to their declared size and unmarshal to themselves."""
from .common import *
from .manifest_data import NOTE_COMMON

CLAIM = {
  "technique": "Coq proof by induction over slices/strings on a hand-written Gallina model of proto.Value (size, marshal, unmarshal, align, valid, utf8String), "
               "tied to value.go/value_marshal.go/value_unmarshal.go by differential execution (cases.v under vm_compute) over all 8-bit scalars, boundary/random wider "
               "values, arrays 0..257 elements, a UTF-8 grammar with defects, and raw unmarshal of arbitrary bytes incl. panicking short reads",
  "text": "Theorems for all values, both byte orders: size = marshalled length; numeric scalars and arrays of any length round-trip under every aligned base type; bool and "
          "bool arrays up to the >1 -> 255 normalisation; clean UTF-8 strings and slices of non-empty clean strings round-trip; type tags are injective. The string clause is "
          "refuted for validly encoded U+FFFD (known finding string_contains_U+FFFD, pinned by the suite). The pointer-tagging representation (unsafe) and proto.Any's "
          "reflection path are validated by the Go oracle only.",
  "note": NOTE_COMMON + " Type constants, base-type numbers, sizes and invalid sentinels come from gen/Consts.v (dumped from the compiled packages). "
          "Trusted and only exercised: heap data never aliases proto's memptr array; unsafe.Slice/String."}


def run(ctx):
    ctx.cov["rule"] = ("values of all 24 types (all 8-bit scalars and bools exhaustively as cases, all 16-bit scalars exhaustively through the Go oracle, boundary + random wider "
                       "scalars incl. NaN payloads, arrays of 0..257 elements, strings from a UTF-8 grammar with surrogates/overlongs/U+FFFD/NUL) x 2 byte orders x aligned and "
                       "misaligned base types; plus raw unmarshal of arbitrary bytes under arbitrary (base type, profile type, array flag). Non-trivial: arrays, strings, "
                       "or a raw unmarshal; distinct by case text")
    ctx.cov["checker_cmd"] = "coq/build.sh Props/C06.vo Run/RunC06.vo; coqc Props/C06.v; coqc cases_C06_*.v (vm_compute)"
    ctx.assumptions += ["element values fit their width (value_ok), checked per case inside Coq", "Go value constructors/accessors are the projection printed by harness/coqvalue.go"]
    tr = ctx.prepare(parts=["dump-consts"])
    ok, _ = ctx.coq(["Props/C06.vo", "Run/RunC06.vo"])
    if ok:
        ctx.props()
    else:
        ctx.cov["obligations"] += 9
        ctx.broken.append("Props/C06.vo / Run/RunC06.vo do not build")
    for k, v in tr.items():
        if v:
            ctx.broken.append("model part %s: %s" % (k, v))
    hits = ctx.forbidden_scan()
    if hits:
        ctx.broken.append("forbidden vernacular: " + ", ".join(hits[:5]))
    h = ctx.harness(["c06", "--seed", ctx.seed, "--tier", ctx.tier])
    if h.rc != 0:
        ctx.broken.append("harness c06 failed (rc %d): %s" % (h.rc, getattr(h, "stderr", "")[-300:]))
    nontriv = [c for c in h.cases if "VArr" in c or "VStr" in c or c.startswith("CUn")]
    ctx.count(len(h.cases) + h.stats.get("exhaustive_8_16_bit_scalars", 0) + h.stats.get("any_cases", 0), nontriv)
    found = False
    for f in h.fails[:3]:
        ctx.violation({"source": "direct Go oracle for C06", "failing": f})
        found = True
    for kid, js in h.knowns:
        if not ctx.known(kid, "valid U+FFFD dropped by utf8String, e.g. %s -> %s" % (js.get("value"), js.get("got"))):
            ctx.violation({"source": "direct Go oracle for C06 (unlisted finding %s)" % kid, "failing": js})
            found = True
    bad, err = ([], "model does not build")
    if ok:
        bad, err = ctx.run_cases("Run.RunC06", "c06case", h.cases)
    if err:
        ctx.broken.append("correspondence C06 could not be evaluated: " + str(err)[:300])
    for i in bad[:3]:
        ctx.violation({"source": "correspondence: Model/Value.v differs from proto.Value", "case": h.cases[i]})
        found = True
    if ctx.broken and not found:
        ctx.violation({"broken": ctx.broken, "searched": "%d cases, 16-bit exhaustive oracle" % len(h.cases)}, no_input=True)
    return ctx.finish()
