"""C11 -- destination failures surface as errors; incomplete output is never a valid file."""
from .common import *
from .manifest_data import NOTE_COMMON
from .c09 import CASE_T

CLAIM = {
  "technique": "Coq model of the write path with fault plans (operation k of the destination fails after taking a bytes); proof by a 'clean step' relation (fault plan unchanged, "
               "operation counter monotone, failing index not consumed) shown for every layer (destination, bufio with its sticky error, wrappers, header rewrite, Encode, stream "
               "sequence, chains); crash clause on the integrity rules of Model/Wire.v; model tied to the code by differential execution under injected faults; exhaustive Go "
               "oracle over every operation index of every configuration",
  "text": "Proved for every destination kind, buffer size, chain, failure index and number of bytes taken by the failing operation: an Encode call / stream sequence that reports "
          "success consumed no failing operation, so once the failing operation is reached some call returns an error (also when the failure lands inside bufio and when it hits "
          "the header rewrite after the CRC). Proved on the integrity rules: no prefix of a destination content that still carries the provisional header (data size 0) is "
          "accepted, and (C04_trunc) no proper prefix of a complete sequence is. For a destination that is only appended to (a plain io.Writer) the crash clause is a theorem in full: under ANY fault plan, write-buffer size, "
          "chain and earlier content the destination holds the earlier content followed by a prefix of the concatenated sequences (C11_plain_destination_holds_a_prefix: "
          "induction over bufio's write loop with the sticky error, Flush, the Write calls of a sequence and the chain), and the integrity rules accept a prefix of a chain of "
          "encoder outputs only when it is exactly the first j >= 1 completed sequences (C11_plain_crash_accepted_only_at_boundary, "
          "C11_prefix_of_chain_accepted_only_at_boundary). Partial for destinations that are rewritten in place (Seek / WriteAt): that every crash/failure point leaves the "
          "provisional-header shape, a proper prefix or a completed boundary is decided per run, not by theorem (a half-rewritten header is a byte string whose rejection "
          "rests on the header CRC, not on structure): for every operation index k of every generated configuration and accepted counts {0,1,5,len-1} the real encoder runs against the "
          "failing destination under recover(): no panic, an error is returned, and the real CheckIntegrity accepts the destination content only when it equals the content at a "
          "boundary between completed sequences.",
  "note": NOTE_COMMON + " The model is total, so 'no panic' is a statement about the Go code only and is checked by execution. A crash is represented by a failing operation "
          "that takes 0..len-1 bytes and stops the run; buffered bytes not yet handed to the destination are lost in both."}


def run(ctx):
    ctx.cov["rule"] = ("random accepted chains of 1-2 files x 4 destination kinds x buffer sizes {0,1,7,64,4096} x batch/stream x every operation index k x accepted bytes "
                       "{0,1,5,len-1}; non-trivial = the failing operation is not the first one; distinct by case text")
    ctx.cov["checker_cmd"] = "coq/build.sh Props/C11.vo Run/RunC09.vo; coqc Props/C11.v; coqc cases_C11_*.v (vm_compute: check_case)"
    tr = ctx.prepare(parts=["factory", "dump-consts", "crc", "decoder-reset", "convmode"])
    ok, _ = ctx.coq(["Props/C11.vo", "Run/RunC09.vo"])
    if ok:
        ctx.props()
    else:
        ctx.cov["obligations"] += 5
        ctx.broken.append("Props/C11.vo / Run/RunC09.vo do not build")
    for k, v in tr.items():
        if v:
            ctx.broken.append("model part %s: %s" % (k, v))
    hits = ctx.forbidden_scan()
    if hits:
        ctx.broken.append("forbidden vernacular: " + ", ".join(hits[:5]))
    h = ctx.harness(["c11", "--seed", ctx.seed, "--tier", ctx.tier], timeout=3000)
    if h.rc != 0:
        ctx.broken.append("harness c11 failed: " + getattr(h, "stderr", "")[-300:])
    ctx.count(len(h.cases) + h.stats.get("oracle_fault_runs", 0), [c for c in h.cases if "mkfault 0 " not in c])
    found = False
    for f in h.fails[:3]:
        ctx.violation({"source": "direct Go oracle: destination failure not reported / panic / incomplete output accepted by CheckIntegrity", "failing": f})
        found = True
    if os.path.exists(os.path.join(COQ, "Run/RunC09.vo")):
        bad, err = ctx.run_cases("Run.RunC09", CASE_T, h.cases, shard=12)
        if err:
            ctx.broken.append("check_case could not be evaluated: " + str(err)[:300])
        for i in bad[:3]:
            ctx.broken.append("Model/Writer.v differs from the encoder on a fault case")
            ctx.violation({"source": "correspondence: Model/Writer.v differs from the encoder under an injected destination fault (error flags or destination bytes)",
                           "case": h.cases[i][:20000]}, no_input=not h.fails)
            found = True
    if ctx.broken and not found:
        ctx.violation({"broken": ctx.broken, "searched": "%d fault runs" % h.stats.get("oracle_fault_runs", 0)}, no_input=True)
    return ctx.finish()
