"""C04 -- corrupted or truncated files are rejected, never silently accepted."""
from .common import *
from .manifest_data import NOTE_COMMON

CLAIM = {
  "technique": "Coq proof from the CRC algebra (GF(2)-linearity of the bit-serial CRC proved algebraically, complete sweep of the 65535 burst patterns of <= 16 bits, "
               "zero-input injectivity, own-CRC lemma) lifted to bytes and to the integrity rules of Model/Wire.v; truncation/append by list reasoning on the rules; "
               "CheckIntegrity compared with the rules inside Coq on arbitrary byte strings; exhaustive bit-flip / burst / truncation / suffix Go oracle on encoder outputs",
  "text": "Proved for regions (records ++ stored CRC) of any length: any burst of at most 16 consecutive bits (CRC bit order; single-bit flips included) anywhere in the region "
          "breaks the CRC rule; every proper prefix of an accepted sequence is rejected; an accepted sequence followed by bytes is read as the sequence, then the bytes (so a "
          "suffix that is not itself valid sequences fails). The MODEL of Decoder.CheckIntegrity (header, discardMessages in 765-byte reads with the running CRC, trailing "
          "CRC, loop over chained sequences, any read-buffer size) returns for every byte string exactly the count and verdict of the rules with the two known deviations "
          "(C04_model_is_rules), and those deviate from the reference only for 12-byte headers and 14-byte headers with a zero CRC field "
          "(C04_deviations_only_in_known_classes); the encoder model's own 14-byte-header output is accepted (C04_encoder_output_accepted). Decode itself: with checksum "
          "verification on, every byte the model of the full decoder obtains through readN is hashed whatever it is taken for, so whenever Decode accepts a stream that is exactly one "
          "sequence long by its own header everything after the header is a CRC codeword (C04_decode_accepts_only_codewords), hence Decode rejects a single-sequence file whose "
          "record region or stored CRC was hit by a burst of at most 16 bits, for every option set with checksums on and every read-buffer size (C04_decode_rejects_burst). "
          "The verdict does not depend on what the decoder did before it was Reset onto the bytes (C04_verdict_after_reset_is_fresh: Reset leaves a new decoder). "
          "Per run: the Go CheckIntegrity's "
          "verdict and count equal the reference on arbitrary/mutated/chained byte strings "
          "(C04_reference, refuted for 12-byte headers and for 14-byte headers with a zero CRC field: known findings), and Decode as well as CheckIntegrity reject every "
          "single-bit flip, sampled bursts, every truncation and non-sequence suffixes of small encoder outputs; every input also through a decoder that decoded or checked "
          "another file before and was Reset (same verdict as a fresh one).",
  "note": NOTE_COMMON + " The CRC table/compute are the translated ones of C18. That Decode rejects a corrupted sequence that is followed by further sequences (where the records may be framed differently) is validated by the Go oracle, not proved."}

KNOWN = {1: ("legacy_header_file_crc", "12-byte header: CheckIntegrity accepts a file CRC over the records only / rejects the CRC over the whole sequence"),
         2: ("zero_header_crc_file_crc", "14-byte header with zero CRC field: CheckIntegrity restarts the file CRC after the header, the rules hash from the first byte")}


def run(ctx):
    ctx.cov["rule"] = ("(1) encoder outputs <= 400 bytes (14-byte header): every single-bit position of records+CRC, 600 random bursts of 2..16 bits, every truncation length, 40 "
                       "suffixes per file, through CheckIntegrity and Decode; (2) random bytes, fixtures, mutated fixtures, headers with zeroed/wrong CRC or zero data size, 12-byte "
                       "headers, every declared header size 0..20/255 against 12- and 14-byte originals, chains, mutated chains through CheckIntegrity vs the reference rules, each also "
                       "through a reader returning everything with io.EOF and a one-byte reader; non-trivial = longer than 14 bytes; distinct by bytes")
    ctx.cov["checker_cmd"] = "coq/build.sh Props/C04.vo Run/RunC04.vo; coqc Props/C04.v; coqc cases_C04_*.v (vm_compute: check_case, check_impl, class_is)"
    tr = ctx.prepare(parts=["factory", "dump-consts", "crc", "decoder-reset", "convmode"])
    ok, _ = ctx.coq(["Props/C04.vo", "Run/RunC04.vo"])
    if ok:
        ctx.props()
    else:
        ctx.cov["obligations"] += 6
        ctx.broken.append("Props/C04.vo / Run/RunC04.vo do not build")
    for k, v in tr.items():
        if v:
            ctx.broken.append("model part %s: %s" % (k, v))
    hits = ctx.forbidden_scan()
    if hits:
        ctx.broken.append("forbidden vernacular: " + ", ".join(hits[:5]))
    h = ctx.harness(["c04", "--seed", ctx.seed, "--tier", ctx.tier], timeout=3000)
    if h.rc != 0:
        ctx.broken.append("harness c04 failed: " + getattr(h, "stderr", "")[-300:])
    ctx.count(len(h.cases) + sum(h.stats.get(k, 0) for k in ("oracle_single_bit_flips", "oracle_bursts", "oracle_truncations", "oracle_suffixes")),
              [c for c in h.cases if c.count(";") > 14])
    found = False
    for f in h.fails[:3]:
        ctx.violation({"source": "direct Go oracle: corrupted / truncated / extended file accepted", "failing": f})
        found = True
    if os.path.exists(os.path.join(COQ, "Run/RunC04.vo")):
        bad, err = ctx.run_cases("Run.RunC04", "bytes * N * bool", h.cases, shard=40)
        if err:
            ctx.broken.append("reference comparison could not be evaluated: " + str(err)[:300])
        if bad:
            sub = [h.cases[i] for i in bad]
            unexplained = set(range(len(sub)))
            for cls, (kid, text) in KNOWN.items():
                notcls, _ = ctx.run_cases("Run.RunC04", "bytes * N * bool", sub, check="(class_is %d)" % cls, shard=40)
                hit = [k for k in range(len(sub)) if k not in set(notcls)]
                if hit and ctx.known(kid, text):
                    unexplained -= set(hit)
            for k in sorted(unexplained)[:3]:
                ctx.violation({"source": "CheckIntegrity differs from the reference integrity rules (Model/Wire.v) and no known deviation explains it", "bytes_count_ok": sub[k][:20000]})
                found = True
    if ctx.broken and not found:
        ctx.violation({"broken": ctx.broken, "searched": "%d byte strings" % len(h.cases)}, no_input=True)
    return ctx.finish()
