"""C18 -- the checksum is the FIT CRC-16 of the bytes, however they are written."""
from .common import *
from .manifest_data import NOTE_COMMON

CLAIM = {
  "technique": "Coq proof (table sweep 65536x16 by vm_compute lifted with forallb_forall + induction over the byte string) on the translated table/compute; differential scripts vs crc16 object",
  "text": "Full proof: for every state and byte the translated nibble-table update equals 8 steps of the bit-serial CRC-16/ARC; by induction the checksum of every "
          "byte string equals the reference, is independent of the split into writes, and any script of Write/Sum16/Sum/Reset refines the abstract object. "
          "table and compute are regenerated from crc16.go on every run; Write/Sum/Reset glue is tied by differential scripts evaluated inside Coq.",
  "note": NOTE_COMMON + " Go's range loop over the slice in Write is modelled as fold_left."}


def run(ctx):
    ctx.cov["rule"] = ("random scripts of Write/Sum16/Sum/Reset on one hash object (write lengths 0..40, boundary bytes); a case is "
                       "non-trivial when it contains at least one write and one sum; distinct by script")
    ctx.cov["checker_cmd"] = "coq/build.sh Props/C18.vo Proofs/CrcDetection.vo Run/RunC18.vo; coqc Props/C18.v; coqc cases_C18_*.v"
    ctx.cov["trusted_base"] += ["micro-translator subset for crc16.compute (translator/microfn.go)"]
    ctx.assumptions += ["bytes are < 256 (bytes_ok)", "the Go slice loop in Write is modelled as fold_left"]
    tr = ctx.prepare(parts=["crc"])
    ok, log = ctx.coq(["Props/C18.vo", "Proofs/CrcDetection.vo", "Run/RunC18.vo"])
    if tr.get("crc"):
        ctx.broken.append("translation of crc16.go: " + tr["crc"])
    if ok:
        ctx.props()
    else:
        ctx.cov["obligations"] += 5
        ctx.broken.append("Props/C18.vo does not build (update_spec / compute_is_nibbles or the table sweep)")
    hits = ctx.forbidden_scan()
    if hits:
        ctx.broken.append("forbidden vernacular: " + ", ".join(hits[:5]))

    h = ctx.harness(["c18", "--seed", ctx.seed, "--tier", ctx.tier])
    nontrivial = [c for c in h.cases if "OpWrite [" in c and "OpSum" in c]
    ctx.count(len(h.cases) + h.stats.get("oracle_state_byte_pairs", 0), nontrivial)
    found = False
    for f in h.fails[:3]:
        ctx.violation({"source": "direct oracle (Go vs bit-serial CRC-16/ARC)", "failing": f})
        found = True
    runok, _ = (True, None)
    bad, err = ([], "model does not build")
    if os.path.exists(os.path.join(COQ, "Run/RunC18.vo")) and ok:
        bad, err = ctx.run_cases("Run.RunC18", "list crc_op * list crc_out", h.cases)
    if err:
        ctx.broken.append("correspondence C18 could not be evaluated: " + str(err)[:300])
    for i in bad[:3]:
        ctx.violation({"source": "correspondence: model crc_run differs from crc16 object", "case": h.cases[i]})
        found = True

    if ctx.tier == "thorough" or ctx.broken:
        t = ctx.harness(["c18-table"])
        ctx.count(t.stats.get("pairs_checked", 0))
        ctx.cov["exhaustive_update_table_via_api"] = t.stats.get("pairs_bad", 1) == 0 and t.stats.get("states_reached") == 65536
        for f in t.fails[:3]:
            ctx.violation({"source": "exhaustive (state, byte) sweep through the exported API", "failing": f})
            found = True
    if ctx.broken and not found:
        ctx.violation({"broken": ctx.broken, "searched": "all 65536 states x 256 bytes through the API; %d scripts" % len(h.cases)}, no_input=True)
    if ctx.tier == "thorough" and not ctx.broken:
        coqchk(ctx, ["Fit.Props.C18", "Fit.Proofs.CrcDetection"])
    return ctx.finish()


def coqchk(ctx, mods):
    t = time.time()
    rc, out = sh(["timeout", "3400", "coqchk", "-silent", "-o", "-Q", COQ, "Fit"] + mods, cwd=COQ)
    ctx.cov["coqchk"] = {"modules": mods, "rc": rc, "tail": out[-1500:], "seconds": round(time.time() - t, 1)}
    ctx.add_obligation("coqchk " + " ".join(mods), rc == 0)
