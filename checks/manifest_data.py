"""Per-property claims for MANIFEST.json (bin/mkmanifest)."""
NOTE_COMMON = ("Trusted: Coq 8.16.1 kernel + vm_compute; the fit2coq translator for coq/gen; the Go harness and its projection; "
               "cases.v rendering. No axioms of our own; axioms per theorem are printed into the evidence file.")
PENDING_REASON = {}
