"""Per-property claims for MANIFEST.json (bin/mkmanifest)."""
NOTE_COMMON = ("Trusted: Coq 8.16.1 kernel + vm_compute; the fit2coq translator for coq/gen; the Go harness and its projection; "
               "cases.v rendering. No axioms of our own; axioms per theorem are printed into the evidence file.")
CHECKS = {
 "C18": {
  "technique": "Coq proof (table sweep 65536x16 by vm_compute lifted with forallb_forall + induction over the byte string) on the translated table/compute; differential scripts vs crc16 object",
  "text": "Full proof: for every state and byte the translated nibble-table update equals 8 steps of the bit-serial CRC-16/ARC; by induction the checksum of every "
          "byte string equals the reference, is independent of the split into writes, and any script of Write/Sum16/Sum/Reset refines the abstract object. "
          "table and compute are regenerated from crc16.go on every run; Write/Sum/Reset glue is tied by differential scripts evaluated inside Coq.",
  "note": NOTE_COMMON + " Go's range loop over the slice in Write is modelled as fold_left."},
}
PENDING_REASON = {}
