"""C10 -- the encoder writes only what the protocol allows and rejects the rest."""
from .common import *
from .manifest_data import NOTE_COMMON

CLAIM = {
  "technique": "Coq proof by induction over the field list on the Gallina model of messageValidator.Validate / proto.Validator (frame = stable filter, limits, UTF-8, "
               "idempotence under the forced hypothesis, protocol 1.0), refutation witness for float64 targets with a scale; model tied to validator.go by differential "
               "execution (stateful sequences incl. developer data ids, field descriptions, native overrides) under vm_compute",
  "text": "Proved for all field lists and both validator options: the retained fields are exactly the non-expanded, restored, (valid or preserved) fields in their original order; "
          "at most 255 of them, each value at most 255 bytes, of the type of its base type, strings valid UTF-8; protocol 1.0 accepts no developer field and no post-1.0 base "
          "type; validating twice equals validating once whenever restoring twice equals restoring once, which holds for every profile field (Inst sweep) and is refuted for "
          "developer fields described as float64 with a scale (known finding). Developer fields (C10_frame_devs): accepted ones all belong to a declared developer data index "
          "and have a field description; retained are exactly the restored ones valid under the description's base type, in order, at most 255. Error classes and 'rejected messages write nothing' are decided per run "
          "by correspondence and the Go oracle.",
  "note": NOTE_COMMON + " Float restoration uses Coq primitive floats (IEEE binary64 as Go's float64 on amd64); double->single rounding (float32 targets) is outside the model."}

KNOWN_TEXT = {
    "dev_float64_with_scale": "a Float64 value on a float64 target with a scale is re-scaled by every validation (1.5 -> 3 -> 6)",
    "validate_empty_after_dev_filter": "a message with no fields whose developer fields are all invalid is accepted as an empty message; validating it again reports 'no fields'",
}


def run(ctx):
    ctx.cov["rule"] = ("stateful message sequences: 0..300 fields, any value type against any base type (1 in 36 wrong on purpose), sizes 254/255/256/300 bytes, invalid sentinels, "
                       "malformed UTF-8, float64 input on scaled fields, expanded marks, developer fields with/without developer data id and field description, native overrides, "
                       "own scale/offset, 255/256 developer fields x {omit, preserve}; protocol 1.0 through the encoder; non-trivial = at least one message accepted; distinct by input")
    ctx.cov["checker_cmd"] = "coq/build.sh Props/C10.vo Run/RunC10.vo; coqc Props/C10.v; coqc cases_C10_*.v (vm_compute)"
    tr = ctx.prepare(parts=["factory", "dump-consts", "crc", "decoder-reset", "convmode"])
    ok, _ = ctx.coq(["Props/C10.vo", "Run/RunC10.vo"])
    if ok:
        ctx.props()
    else:
        ctx.cov["obligations"] += 7
        ctx.broken.append("Props/C10.vo / Run/RunC10.vo do not build")
    for k, v in tr.items():
        if v:
            ctx.broken.append("model part %s: %s" % (k, v))
    hits = ctx.forbidden_scan()
    if hits:
        ctx.broken.append("forbidden vernacular: " + ", ".join(hits[:5]))
    h = ctx.harness(["c10", "--seed", ctx.seed, "--tier", ctx.tier])
    if h.rc != 0:
        ctx.broken.append("harness c10 failed: " + getattr(h, "stderr", "")[-300:])
    ctx.count(len(h.cases) + h.stats.get("v1_cases", 0), [c for c in h.cases if "VOk" in c])
    found = False
    for f in h.fails[:3]:
        ctx.violation({"source": "direct Go oracle for C10 (limits / frame / idempotence / protocol 1.0)", "failing": f})
        found = True
    for kid, js in h.knowns:
        if not ctx.known(kid, KNOWN_TEXT.get(kid, kid)):
            ctx.violation({"source": "direct Go oracle (unlisted finding %s)" % kid, "failing": js})
            found = True
    if ok:
        bad, err = ctx.run_cases("Run.RunC10", "bool * list imsg * list vres", h.cases, shard=40)
        if err:
            ctx.broken.append("correspondence could not be evaluated: " + str(err)[:300])
        for i in bad[:3]:
            ctx.violation({"source": "correspondence: validator model differs from encoder/validator.go", "case": h.cases[i][:20000]})
            found = True
    if ctx.broken and not found:
        ctx.violation({"broken": ctx.broken, "searched": "%d validation sequences" % len(h.cases)}, no_input=True)
    return ctx.finish()
