"""C02 -- successful encodes are well-formed, self-consistent FIT streams."""
from .common import *
from .manifest_data import NOTE_COMMON

CLAIM = {
  "technique": "Coq theorems on the encoder model: induction over the message list with the invariant 'LRU slot i holds definition d => the record grammar's length for local "
               "number i is the one d announces' (hit / free slot / eviction; header-byte arithmetic by complete sweeps), running size/CRC = totals, header/CRC write-back, "
               "CRC sweep of the 65536 states for header-own-CRC; the independent boolean specification of the wire format (Model/Wire.v) is the statement's right-hand side and "
               "is also evaluated inside Coq on the implementation's bytes; encoder model tied byte-exactly by differential execution",
  "text": "Proved for every accepted input and option set with a 14-byte header (C02_wf): the output is a well-formed sequence of the independent specification -- header with "
          "tag, data size = length of the records, correct header CRC; every definition record as long as its counts announce; every data record preceded by a live definition "
          "for its local number (normal and compressed-timestamp headers) whose sizes add up to the record's length, also after evictions from the LRU; records covering exactly "
          "the data size; file CRC over the sequence from its first byte. Also: running size/CRC, values written back equal the wire. Hypotheses: output is a byte string and "
          "shorter than 4 GiB. The stream encoder asked to complete a sequence no message was written for must refuse and leave the destination alone (model: stream_sequence c s [] = Err; decided per run by WriteMessage/SequenceCompleted histories with such calls before, between and after sequences on every destination kind and buffer size; this found the defect repaired by fix 2690f88). Refuted for 12-byte headers (records-only CRC; known finding legacy_header_file_crc, witness in Props/C02.v). Chained files (C02_chain_wf): the output for a list of files is exactly that many well-formed sequences, nothing between and nothing after them. "
          "The agreement of the Go encoder with the model is decided on every run (byte-exact correspondence, wf_stream_b on the Go bytes, decoder.CheckIntegrity, and the "
          "writer-kind oracle of C09 for destinations other than a plain writer).",
  "note": NOTE_COMMON + " Model/Wire.v is written from the protocol text and shares no definition with Encoder.v/Decoder.v."}


def run(ctx):
    ctx.cov["rule"] = ("same generator as C01 (chains of 1..3 sequences, all encoder options, header sizes 12/14, 255-field and 255-byte boundary messages); every accepted output is "
                       "checked against Wire.wf_stream_b inside Coq and against decoder.CheckIntegrity; plus the C09 oracle (all writer kinds, buffer sizes, stream, earlier content) on 14 chains; non-trivial = accepted encode; distinct by output bytes")
    ctx.cov["checker_cmd"] = "coq/build.sh Props/C02.vo Run/RunC01.vo; coqc Props/C02.v; coqc cases_C02_*.v (vm_compute: check_enc, check_wf, check_wf_legacy)"
    tr = ctx.prepare(parts=["factory", "dump-consts", "crc", "decoder-reset", "convmode"])
    ok, _ = ctx.coq(["Props/C02.vo", "Run/RunC01.vo"])
    if ok:
        ctx.props()
    else:
        ctx.cov["obligations"] += 4
        ctx.broken.append("Props/C02.vo / Run/RunC01.vo do not build")
    for k, v in tr.items():
        if v:
            ctx.broken.append("model part %s: %s" % (k, v))
    hits = ctx.forbidden_scan()
    if hits:
        ctx.broken.append("forbidden vernacular: " + ", ".join(hits[:5]))
    h = ctx.harness(["c01", "--seed", ctx.seed + 1000, "--tier", ctx.tier])
    if h.rc != 0:
        ctx.broken.append("harness c01 failed: " + getattr(h, "stderr", "")[-300:])
    enc, wf = h.lines.get("ENC", []), h.lines.get("WF", [])
    ctx.count(len(enc) + len(wf), wf)
    found = False
    for f in [f for f in h.fails if f.get("kind") in ("check-integrity", "decode-of-encoded", "stream-completion-without-messages", "decode-of-stream-encoded")][:3]:
        ctx.violation({"source": "direct Go oracle: decoder.CheckIntegrity / decode of the encoder's output", "failing": f})
        found = True
    # the same holds whatever the destination is: every writer kind / buffer size / batch or stream must leave the bytes the plain
    # strategy wrote (which are checked above), also when appending to earlier content (the documented append flow)
    h9 = ctx.harness(["c09", "--seed", ctx.seed + 1000, "--tier", ctx.tier, "-n", 14 if ctx.tier == "quick" else 300], timeout=3000)
    ctx.count(h9.stats.get("oracle_configurations", 0) + h9.stats.get("oracle_configurations_preexisting", 0))
    for f in h9.fails[:2]:
        ctx.violation({"source": "direct Go oracle: a successful encode left a destination content that is not the well-formed stream the plain strategy writes "
                                 "(writer kind / buffer size / stream / earlier content)", "failing": f})
        found = True
    if ok:
        bad, err = ctx.run_cases("Run.RunC01", "ecfg * list ifile * eobs", enc, check="check_enc", shard=25)
        if err:
            ctx.broken.append("correspondence (encoder) could not be evaluated: " + str(err)[:300])
        for i in bad[:2]:
            ctx.violation({"source": "correspondence: encoder model differs from the implementation (bytes / written-back header, CRC / error class)", "case": enc[i][:20000]})
            found = True
        bad, err = ctx.run_cases("Run.RunC01", "bytes * N * bool", wf, check="check_wf", shard=40)
        if err:
            ctx.broken.append("wf_stream_b could not be evaluated: " + str(err)[:300])
        if bad:
            sub = [wf[i] for i in bad]
            bad2, err2 = ctx.run_cases("Run.RunC01", "bytes * N * bool", sub, check="check_wf_legacy", shard=40)
            bad2 = set(bad2)
            for k, case in enumerate(sub):
                is12 = case.rstrip(")").endswith("true")
                if k not in bad2 and is12 and ctx.known("legacy_header_file_crc", "12-byte header: trailing CRC covers the records only, not the sequence from its first byte"):
                    continue
                ctx.violation({"source": "independent wire specification (Model/Wire.v wf_stream_b) rejects the encoder's output", "bytes_n_is12": case[:20000]})
                found = True
    if ctx.broken and not found:
        ctx.violation({"broken": ctx.broken, "searched": "%d outputs" % len(wf)}, no_input=True)
    return ctx.finish()
