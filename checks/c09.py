"""C09 -- output bytes do not depend on writer kind, buffering or batch vs stream."""
from .common import *
from .manifest_data import NOTE_COMMON

CASE_T = "ecfg * list ifile * wkind * Z * bool * option fault * bool * bytes * list bool * bytes"

CLAIM = {
  "technique": "Coq model of the write path (writebuffer.go wrappers, bufio.Writer, strategy selection, header rewrite by Seek or WriteAt, stream encoder) over a scripted "
               "destination; refinement proof (destination content + buffered bytes seen as one 'view', invariant 'tidy' preserved by every operation) by induction over Write "
               "calls, messages and chains; model tied to the code by differential execution of Encode / WriteMessage+SequenceCompleted on scripted destinations of the four kinds; "
               "Go oracle comparing all kinds x buffer sizes x batch/stream on the same input",
  "text": "Proved for every destination kind (plain, WriterAt, WriteSeeker, both), every write-buffer size including none, every caller data size and every chain length: the "
          "destination ends up holding exactly the concatenation of the sequences' final bytes (header with the final data size and CRC, records, file CRC), each Encode on a "
          "destination that already holds earlier sequences appends exactly its own sequence and changes nothing before it, the stream encoder (WriteMessage..., "
          "SequenceCompleted) yields the same bytes, and those bytes are the ones of Model/Encoder.encode_fit (the byte-exact model of C01/C02). "
          "The stream encoder is also modelled at message level (Model/Stream.v: WriteMessage = protocol validation, message validation with the declarations kept from "
          "earlier calls, encoding with the LRU / timestamp reference / data size / CRC kept from earlier calls; SequenceCompleted = Encoder.reset as translated field by "
          "field from the source on every run): C09_stream_message_level -- for EVERY chain of message lists it accepts the chain iff the batch encoder accepts every file and "
          "then writes the same bytes (end to end through any rewritable destination and write buffer: C09_stream_end_to_end); nothing leaks from one sequence into the next and interleaving validation with encoding changes nothing (the obligation "
          "reset_complete_now breaks when reset stops clearing one of the six fields, or SequenceCompleted stops calling it). Per run: the model and the Go "
          "encoder agree on error flags and destination bytes for sampled configurations, and the Go encoder's output is identical over all 4 kinds x 6 buffer sizes x "
          "batch/stream x preset/zero data size for every generated input; a fresh encoder on a destination that already holds bytes appends exactly the same bytes for "
          "plain, seekable and seekable+write-at destinations (also a theorem: C09_batch_appends_to_earlier_content, C09_stream_appends_to_earlier_content).",
  "note": NOTE_COMMON + " bufio.Writer is modelled from its documented algorithm (Go standard library, not translated); destinations are in-memory scripts (byte vector, cursor, "
          "operation counter), not files. Contexts/cancellation (EncodeWithContext) are not modelled."}


def run(ctx):
    ctx.cov["rule"] = ("random accepted chains of 1-3 files (factory-wide messages, developer fields, all encoder options, 12- and 14-byte headers, timestamps continuing across "
                       "the chain) x 4 destination kinds x buffer sizes {-1,0,1,7,64,4096} x batch/stream x caller data size zero/preset; every second input also on destinations "
                       "already holding bytes (fresh encoder, cursor at the end) for plain / seekable / seekable+write-at kinds; non-trivial = more than one Write reaches the "
                       "destination; distinct by case text")
    ctx.cov["checker_cmd"] = "coq/build.sh Props/C09.vo Run/RunC09.vo; coqc Props/C09.v; coqc cases_C09_*.v (vm_compute: check_case)"
    tr = ctx.prepare(parts=["factory", "dump-consts", "crc", "decoder-reset", "convmode"])
    ok, _ = ctx.coq(["Props/C09.vo", "Run/RunC09.vo"])
    if ok:
        ctx.props()
    else:
        ctx.cov["obligations"] += 6
        ctx.broken.append("Props/C09.vo / Run/RunC09.vo do not build")
    for k, v in tr.items():
        if v:
            ctx.broken.append("model part %s: %s" % (k, v))
    hits = ctx.forbidden_scan()
    if hits:
        ctx.broken.append("forbidden vernacular: " + ", ".join(hits[:5]))
    h = ctx.harness(["c09", "--seed", ctx.seed, "--tier", ctx.tier], timeout=3000)
    if h.rc != 0:
        ctx.broken.append("harness c09 failed: " + getattr(h, "stderr", "")[-300:])
    ctx.count(len(h.cases) + h.stats.get("oracle_configurations", 0) + h.stats.get("oracle_configurations_preexisting", 0), h.cases)
    found = False
    for f in h.fails[:3]:
        ctx.violation({"source": "direct Go oracle: destination content differs between writer kinds / buffer sizes / batch and stream", "failing": f})
        found = True
    if os.path.exists(os.path.join(COQ, "Run/RunC09.vo")):
        bad, err = ctx.run_cases("Run.RunC09", CASE_T, h.cases, shard=12)
        if err:
            ctx.broken.append("check_case could not be evaluated: " + str(err)[:300])
        for i in bad[:3]:
            ctx.broken.append("Model/Writer.v differs from the encoder on a case")
            ctx.violation({"source": "correspondence: Model/Writer.v + Model/Encoder.v differ from encoder.Encode / StreamEncoder (error flags or destination bytes)",
                           "case": h.cases[i][:20000]}, no_input=not h.fails)
            found = True
    if ctx.broken and not found:
        ctx.violation({"broken": ctx.broken, "searched": "%d configurations" % h.stats.get("oracle_configurations", 0)}, no_input=True)
    return ctx.finish()
