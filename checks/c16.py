"""C16 -- raw decoder segments exactly the bytes and agrees with the full decoder."""
from .common import *
from .manifest_data import NOTE_COMMON

CLAIM = {
  "technique": "Coq model of RawDecoder.Decode with an invariant proof (consumed = emitted segments ++ pending) by induction over records and sequences; model tied to raw.go by "
               "differential execution; record-by-record equivalence proof between the raw decoder model and the independent record grammar (Model/Wire.v), which is also evaluated inside Coq on every case; forward simulation proof from the full decoder model (Model/Decoder.v) to the raw decoder model; Go oracle comparing the two Go decoders",
  "text": "Proved for every byte string: the segments concatenate to exactly the bytes reported as consumed (a prefix of them when the decoder stops with an error); "
          "(below 4 GiB) each segment has the length the independent record grammar prescribes -- whenever the raw decoder accepts and Wire.segment_stream segments the "
          "stream at all, both give the same segments (C16_lengths); and agreement (C16_agree): whenever the model of the full decoder (any option set, checksum verified "
          "or ignored, any read-buffer size) decodes the stream and its sequences account for every byte, the raw decoder model accepts it and its segments are, one for "
          "one and in order, the full decoder's events -- file header (size, data size), definition (header byte hence local number, reserved byte, architecture, global "
          "number, field and developer-field definitions), data message (header byte), CRC -- hence also the same number of sequences. The proof follows the full decoder "
          "through every reading function (a definition consumes 5+3n(+1+3m) bytes, a data message the sum of its declared sizes whatever the bytes mean) and keeps the raw "
          "decoder's length table equal to what the live definitions announce. Per run: both models against the Go decoders, and the Go oracle compares the two Go decoders "
          "directly (number of sequences, ordered series of definitions and data messages).",
  "note": NOTE_COMMON + " io.ReadFull over a contiguous reader is modelled (next k bytes / EOF / ErrUnexpectedEOF). That every slice of the 130051-byte array is in bounds is proved in Props/C03.v (C03_raw_slices_fit, C03_raw_array_suffices)."}


def run(ctx):
    ctx.cov["rule"] = ("encoder outputs under all options (chains, developer fields, compressed headers), fixtures up to 3300 bytes, and mutations of both; non-trivial = at least "
                       "one definition and one data segment; distinct by bytes")
    ctx.cov["checker_cmd"] = "coq/build.sh Props/C16.vo Run/RunC16.vo; coqc Props/C16.v; coqc cases_C16_*.v (vm_compute: check_case, check_wire)"
    tr = ctx.prepare(parts=["factory", "dump-consts", "crc", "decoder-reset", "convmode"])
    ok, _ = ctx.coq(["Props/C16.vo", "Run/RunC16.vo"])
    if ok:
        ctx.props()
    else:
        ctx.cov["obligations"] += 2
        ctx.broken.append("Props/C16.vo / Run/RunC16.vo do not build")
    for k, v in tr.items():
        if v:
            ctx.broken.append("model part %s: %s" % (k, v))
    hits = ctx.forbidden_scan()
    if hits:
        ctx.broken.append("forbidden vernacular: " + ", ".join(hits[:5]))
    h = ctx.harness(["c16", "--seed", ctx.seed, "--tier", ctx.tier])
    if h.rc != 0:
        ctx.broken.append("harness c16 failed: " + getattr(h, "stderr", "")[-300:])
    ctx.count(len(h.cases) + h.stats.get("full_decoder_accepts", 0), [c for c in h.cases if "RFDef" in c and "RFData" in c])
    found = False
    for f in h.fails[:3]:
        ctx.violation({"source": "direct Go oracle: segments vs consumed bytes / raw vs full decoder", "failing": f})
        found = True
    if os.path.exists(os.path.join(COQ, "Run/RunC16.vo")):
        for chk, what in (("check_case", "Model/Raw.v differs from decoder.RawDecoder (segments / consumed / error class)"),
                          ("check_wire", "raw segments differ from the independent record grammar (Model/Wire.v)")):
            bad, err = ctx.run_cases("Run.RunC16", "bytes * list rsegment * N * option N", h.cases, check=chk, shard=30)
            if err:
                ctx.broken.append("%s could not be evaluated: %s" % (chk, str(err)[:300]))
            for i in bad[:2]:
                ctx.violation({"source": "correspondence: " + what, "case": h.cases[i][:20000]})
                found = True
    if ctx.broken and not found:
        ctx.violation({"broken": ctx.broken, "searched": "%d streams" % len(h.cases)}, no_input=True)
    return ctx.finish()
