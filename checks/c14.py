"""C14 -- file types conserve messages; the concurrent listener equals sequential building."""
from .common import *
from .manifest_data import NOTE_COMMON

CLAIM = {
  "technique": "Coq proof over a generic Add/ToFIT interpreter of the translated file-type specifications (16 sources / 17 file types: Add dispatch, "
               "ToFIT statement list, sortStartPos, comparator of SortMessagesByTimestamp) + decidable well-formedness of every translated specification "
               "(vm_compute); two-thread channel model of listener.go with translated capacities/structure; differential runs of NewXxx(...).ToFIT and of "
               "the real listener (watchdog, -race in the thorough tier) evaluated inside Coq; direct Go oracle of the property statement",
  "text": "Proof (file types): for every message list with a file_id and every file type, ToFIT of the built file is a permutation of the input with "
          "singleton kinds keeping their last occurrence, each message being the typed round trip of its input (what that round trip does is C13) or the "
          "input itself (unrelated messages); file_id first, then developer-data-id, then field-description messages in arrival order; for the file types "
          "that sort everything after the prefix the rest is sorted by timestamp (missing first, course_point/set numbers checked against the profile) and "
          "stable.  The ordering clause is REFUTED for the file types that sort only the unrelated messages or nothing (known finding "
          "partial_timestamp_order; their weaker order is proved).  Listener: proved over a channel model (pool P, queue B, any scheduling): for every "
          "channel-buffer option with a non-empty pool every maximal execution is finite, never stuck, hands the worker exactly the sequence in order, "
          "returns every slice, and the next sequence starts from the initial state; an empty pool (option 0 on the pinned tree: known finding "
          "listener_buffer_zero) deadlocks at the first OnMesg.  The listener part is PARTIAL with respect to the Go runtime: scheduler and memory model "
          "(data-race freedom) are not modelled; they are validated dynamically only (all buffer sizes 0..8,100,128,256, chained sequences, Reset reuse, "
          "watchdog; -race with GOMAXPROCS 1/2/16 in the thorough tier).",
  "note": NOTE_COMMON + " slices.SortStableFunc is modelled as a stable insertion sort; channels as FIFO queues with capacity; the typed round trip "
          "(normalisation) is an input of the model, computed by the harness with mesgdef itself."}

NOT_ALL_TEXT = "file type sorts only the unrelated messages (or nothing) after the prefix: a typed message with a timestamp stays in emission order"


def _names(ctx):
    src = open(os.path.join(COQ, "gen", "FiledefSpec.v")).read()
    return re.findall(r'fs_name := "(\w+)"', src)


def _convert(cases, names, default_buffer):
    """harness CASE lines -> Coq terms of type fcase / lcase"""
    f, l, fsrc, lsrc = [], [], [], []
    for c in cases:
        parts = c.split("\t")
        if parts[0] == "F" and len(parts) == 4 and parts[1] in names:
            f.append("(%d%%nat, %s, %s)" % (names.index(parts[1]), parts[2], parts[3]))
            fsrc.append(c)
        elif parts[0] == "L" and len(parts) == 3:
            res = re.sub(r"@(\w+)@", lambda m: "%d%%nat" % names.index(m.group(1)) if m.group(1) in names else "999%nat", parts[2])
            l.append("(%s, %s)" % (parts[1].replace("@DEFAULT@", "%d%%nat" % default_buffer), res))
            lsrc.append(c)
        else:
            f.append("(999%nat, [], [])")   # unknown file type name: always a disagreement
            fsrc.append(c)
    return f, l, fsrc, lsrc


def _eval(ctx, expr):
    rc, out = ctx.coq_eval("Run.RunC14", expr, extra_imports=["Open Scope string_scope."])
    return rc, out


def _race_binary(ctx):
    modargs = ["-modfile=go.scratch.mod"] if os.path.realpath(REPO) != "/repo" else []
    path = os.path.join(CACHE, "harness-race")
    with Lock():
        rc, out = sh(["go", "build", "-race"] + modargs + ["-tags", "verif", "-o", path, "."], cwd=os.path.join(VERIF, "harness"), env=GOENV)
    if rc != 0:
        ctx.say("race build failed: " + out[-800:])
        return None
    return path


def run(ctx):
    ctx.cov["rule"] = ("per file type random message lists (0..41 messages: the type's own kinds, kinds of other file types, unknown numbers, duplicates of "
                       "singletons, developer-data-id / field-description, timestamps missing / equal / invalid / wrong type, course_point and set with "
                       "their own timestamp number and a decoy at 253); listener: every channel buffer in 0..8,100,128,256,default x 1..3 configure phases "
                       "(NewListener / Reset) x 1..4 chained sequences each; a case is non-trivial when it has at least 3 messages; distinct by input")
    ctx.cov["checker_cmd"] = "coq/build.sh Props/C14.vo Run/RunC14.vo; coqc Props/C14.v; coqc cases_C14_*.v"
    ctx.cov["trusted_base"] += ["filedef/listener translator (translator/filedef.go): statement shapes of Add/ToFIT/SortMessagesByTimestamp/listener.go",
                                "slices.SortStableFunc modelled as stable insertion sort; Go channels modelled as FIFO queues with capacity",
                                "typed round trip mesgdef.NewX(&m).ToMesg(nil) taken from the implementation as the normalisation (C13)",
                                "Go race detector and watchdog timing (a run without progress for 1.5 s / 4 s counts as deadlock)"]
    ctx.assumptions += ["message lists contain a file_id (FileId is held by value: without one a 4-field file_id is fabricated -- outside the domain)",
                        "listener: proved over the channel model only; Go scheduler / memory model validated dynamically (partial)",
                        "callers do not keep using the slices they handed to OnMesg"]
    tr = ctx.prepare(parts=["filedef", "listener", "factory"])
    for part in ("filedef", "listener", "factory"):
        if tr.get(part):
            ctx.broken.append("translation of %s: %s" % (part, tr[part]))
    run_ok, _ = ctx.coq(["Run/RunC14.vo"]) if not ctx.broken else (False, "")
    ok = False
    if run_ok:
        ok, log = ctx.coq(["Props/C14.vo"])
    if ok:
        ctx.props()
    else:
        ctx.cov["obligations"] += 18
        if run_ok:
            rc, obl = _eval(ctx, "filter (fun p => negb (snd p)) obligations")
            rc2, bad = _eval(ctx, "bad_specs")
            rc3, mism = _eval(ctx, "ts_mismatches")
            ctx.broken.append("Props/C14.vo does not build; failing Inst obligations: %s; file types: %s; timestamp fields (mesg, profile, comparator): %s"
                              % (" ".join(obl.split()), " ".join(bad.split()), " ".join(mism.split())))
        elif not ctx.broken:
            ctx.broken.append("Run/RunC14.vo (model over the translated specification) does not build")
    hits = ctx.forbidden_scan()
    if hits:
        ctx.broken.append("forbidden vernacular: " + ", ".join(hits[:5]))

    # what the model says about the two known findings (derived from the translated specification, not hard-coded)
    names, modes, not_all, pool0, default_buffer = [], {}, [], None, 128
    if run_ok:
        names = _names(ctx)
        rc, sm = _eval(ctx, "sort_modes")
        for n, m in re.findall(r'\("(\w+)",\s*(Some Sort\w+|None)\)', sm):
            modes[n] = {"Some SortAll": "All", "Some SortUnrelated": "Unrelated", "Some SortNone": "None"}.get(m, "All")
        not_all = [n for n in names if modes.get(n) != "All"]
        rc, p0 = _eval(ctx, "(pool_at_zero, ls_default_buffer lspec)")
        m = re.search(r"\((\d+)(?:%nat)?,\s*(\d+)(?:%nat)?\)", p0)
        if m:
            pool0, default_buffer = int(m.group(1)), int(m.group(2))
        ctx.cov["sort_modes"] = modes
        ctx.cov["pool_size_at_buffer_0"] = pool0
    modearg = ",".join("%s=%s" % kv for kv in sorted(modes.items()))

    found = False
    h = ctx.harness(["c14", "--mode", "files", "--seed", ctx.seed, "--tier", ctx.tier, "--modes", modearg])
    hl = ctx.harness(["c14", "--mode", "listener", "--seed", ctx.seed, "--tier", ctx.tier])
    if h.rc != 0 or hl.rc != 0:
        ctx.broken.append("harness c14 did not run to the end (rc %d/%d)" % (h.rc, hl.rc))
    if hl.rc not in (0, 3):
        # a panic inside the listener's own goroutine cannot be recovered by the harness: find the workload that crashes the process
        for i in range(26 if ctx.tier == "quick" else 156):
            args = ["c14", "--mode", "listener", "--seed", ctx.seed, "--tier", ctx.tier, "--case", i]
            one = ctx.harness(args)
            if one.rc != 0:
                ctx.violation({"source": "listener workload crashes the process (panic in the listener's goroutine)", "stderr": getattr(one, "stderr", "")[-2500:],
                               "harness_args": [str(a) for a in args]})
                found = True
                break
    fcases, lcases, fsrc, lsrc = _convert(h.cases + hl.cases, names, default_buffer) if names else ([], [], [], [])
    ctx.count(len(fcases) + len(lcases) + h.stats.get("file_messages", 0), [c for c in fsrc if c.count("mkmsg") >= 3] + [c for c in lsrc if c.count("mkmsg") >= 3])

    for hh in (h, hl):
        for f in hh.fails[:3]:
            ctx.violation({"source": "direct oracle of the property statement (Go)", "failing": f, "harness_args": f.get("harness_args")})
            found = True
        for kid, js in hh.knowns:
            model_agrees = (kid == "partial_timestamp_order" and js.get("file_type") in not_all) or (kid == "listener_buffer_zero" and pool0 == 0)
            text = ("%s: %s" % (js.get("file_type"), js.get("what"))) if kid == "partial_timestamp_order" else js.get("what", "")
            if not (model_agrees and ctx.known(kid, text[:300])):
                ctx.violation({"source": "direct oracle: failure not explained by a listed known finding that the translated model shares", "finding": kid, "failing": js,
                               "harness_args": js.get("harness_args")})
                found = True
    if run_ok:
        bad, err = ctx.run_cases("Run.RunC14", "fcase", fcases, check="check_case", shard=120)
        if err:
            ctx.broken.append("correspondence C14 (file types) could not be evaluated: " + str(err)[:300])
        for i in bad[:3]:
            ctx.violation({"source": "correspondence: model file_of (translated specification) differs from NewXxx(...).ToFIT", "case": fsrc[i][:6000]})
            found = True
        badl, errl = ctx.run_cases("Run.RunC14", "lcase", lcases, check="check_lcase", shard=4)
        if errl:
            ctx.broken.append("correspondence C14 (listener) could not be evaluated: " + str(errl)[:300])
        for i in badl[:3]:
            ctx.violation({"source": "correspondence: listener model (translated capacities, sequential building) differs from the real listener", "case": lsrc[i][:6000]})
            found = True

    if ctx.tier == "thorough" and not ctx.broken:
        rb = _race_binary(ctx)
        if rb:
            for procs in ("1", "2", "16"):
                hr = ctx.harness(["c14", "--mode", "listener", "--seed", ctx.seed + int(procs), "--tier", "quick", "--n", "4"], binary=rb, env={"GOMAXPROCS": procs}, timeout=1200)
                ctx.count(len(hr.cases))
                race = "DATA RACE" in getattr(hr, "stderr", "")
                ctx.cov.setdefault("race_runs", []).append({"GOMAXPROCS": procs, "cases": len(hr.cases), "rc": hr.rc, "race": race})
                if race or hr.rc not in (0,):
                    ctx.violation({"source": "race detector run of the listener workloads, GOMAXPROCS=" + procs, "rc": hr.rc, "stderr": hr.stderr[-3000:],
                                   "harness_args": ["c14", "--mode", "listener", "--seed", ctx.seed + int(procs), "--n", "4"]})
                    found = True
                for f in hr.fails[:2]:
                    ctx.violation({"source": "direct oracle under -race", "failing": f})
                    found = True
        else:
            ctx.broken.append("race-detector build of the harness failed")

    if ctx.broken and not found:
        # search the implementation with the direct oracle and a larger budget, on the file types the diagnostics name first
        suspects = [n for n in names if any(n in b for b in ctx.broken)] or [""]
        for n in suspects[:4]:
            args = ["c14", "--mode", "files", "--seed", ctx.seed + 7, "--n", "1500", "--modes", modearg] + (["--only", n] if n else [])
            hs = ctx.harness(args)
            ctx.count(len(hs.cases))
            for f in hs.fails[:2]:
                ctx.violation({"source": "search after broken obligation: direct oracle (Go)", "broken": ctx.broken, "failing": f, "harness_args": f.get("harness_args")})
                found = True
            if found:
                break
        if not found:
            hs = ctx.harness(["c14", "--mode", "listener", "--seed", ctx.seed + 7, "--n", "6"])
            ctx.count(len(hs.cases))
            for f in hs.fails[:2]:
                ctx.violation({"source": "search after broken obligation: listener oracle (Go)", "broken": ctx.broken, "failing": f, "harness_args": f.get("harness_args")})
                found = True
    if ctx.broken and not found:
        ctx.violation({"broken": ctx.broken, "searched": "direct oracle on 1500 lists per suspected file type and 78 listener workloads"}, no_input=True)
    return ctx.finish()


def replay(ctx, data):
    args = data.get("harness_args") or (data.get("failing") or {}).get("harness_args")
    if not args:
        print("replay file carries no harness arguments; content:\n" + json.dumps(data, indent=1)[:3000])
        return 2
    ctx.prepare(parts=[])
    modes = ctx.cov.get("sort_modes") or {}
    h = ctx.harness(list(args))
    for f in h.fails:
        print("FAIL " + json.dumps(f)[:3000])
    for kid, js in h.knowns:
        print("KNOWN %s %s" % (kid, json.dumps(js)[:1500]))
    if h.rc != 0:
        print("harness exited %d:\n%s" % (h.rc, getattr(h, "stderr", "")[-2000:]))
    print("replayed %s: %d failing%s" % (" ".join(map(str, args)), len(h.fails), ", process crashed" if h.rc != 0 else ""))
    return 1 if (h.fails or h.rc != 0) else 0
