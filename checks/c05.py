"""C05 -- expanded component fields carry exactly the value of their source bits."""
from .common import *
from .manifest_data import NOTE_COMMON

CLAIM = {
  "technique": "Coq proofs on the Gallina decoder model: Pull over the 32x64-bit store = mod/div of the whole container (bit-level lemmas, induction over the words), "
               "accumulator = running total of a wrapping counter (induction over observations), expansion preserves field structure (induction over fuel and components); "
               "model tied by differential execution incl. one generated file per component owner; exact-rational Go oracle for the value clause",
  "text": "Partial proof. Proved: bit slices are consecutive slices of the whole (multi-word) container from the least significant bit (k <= 32; every profile component is 1..32 "
          "bits: Inst sweep); accumulating components yield the running total mod 2^32 of a wrapping k-bit counter across messages; expansion only appends marked fields and only "
          "changes values of existing fields, so turning it off yields the same messages minus the expanded fields; a field that is no destination -- whose number no component of any "
          "field or sub-field of the message in the factory table expands into -- is after expansion at the same position and identical, whatever the values, the accumulator "
          "history, the sub-field substitutions chosen and the nesting depth (C05_non_destination_unchanged). Value level, complete for the narrow components (C05_small_component_values_exact): for every component of the profile of at most "
          "16 bits (120 components, 15 distinct width / scale / offset combinations) and EVERY raw value of its width, the expansion's float pipeline yields the exact "
          "rational ((bits/cscale - coffset) + doffset) x dscale rounded half away from zero -- a complete sweep under vm_compute over the decoder model's own primitive-float "
          "expression, lifted to the profile table. Decided per run, not by theorem: the same for the wider components (17..32 bits) and accumulated totals -- the value of every expanded "
          "field against ((bits/cscale - coffset) + doffset) x dscale in exact rational arithmetic (exact when integral, within one unit otherwise), for all 40 component owners, "
          "random/boundary containers and accumulator histories.",
  "note": NOTE_COMMON + " Scaling uses Coq primitive floats (binary64 = Go float64 on amd64); conversion mode translated from decoder.go (gen/ConvMode.v)."}


def run(ctx):
    ctx.cov["rule"] = ("one file per (component owner, container value): all 37 fields + 3 sub-fields that own components, containers random / boundary (thorough: 3000 per owner), "
                       "1..6 messages per file for accumulating components, optional second sequence (accumulators restart); expansion on and off; non-trivial = a file whose decode "
                       "contains an expanded field; distinct by bytes")
    ctx.cov["checker_cmd"] = "coq/build.sh Props/C05.vo Run/RunDecode.vo; coqc Props/C05.v; coqc cases_C05_*.v (vm_compute)"
    tr = ctx.prepare(parts=["factory", "dump-consts", "crc", "convmode"])
    ok, _ = ctx.coq(["Props/C05.vo", "Run/RunDecode.vo"])
    if ok:
        ctx.props()
    else:
        ctx.cov["obligations"] += 5
        ctx.broken.append("Props/C05.vo / Run/RunDecode.vo do not build")
    for k, v in tr.items():
        if v:
            ctx.broken.append("model part %s: %s" % (k, v))
    hits = ctx.forbidden_scan()
    if hits:
        ctx.broken.append("forbidden vernacular: " + ", ".join(hits[:5]))
    h = ctx.harness(["c05", "--seed", ctx.seed, "--tier", ctx.tier], timeout=3000)
    if h.rc != 0:
        ctx.broken.append("harness c05 failed: " + getattr(h, "stderr", "")[-300:])
    h2 = ctx.harness(["decode-cases", "--seed", ctx.seed, "-n", 40])      # fixtures with real expansions (gear changes, speed, altitude)
    cases = h.cases + [c for c in h2.cases if ", true)" in c]
    ctx.count(len(cases) + h.stats.get("oracle_components", 0), [c for c in cases if ", true)" in c])
    found = False
    for f in h.fails[:3]:
        ctx.violation({"source": "direct Go oracle: expanded value vs exact rational / off-vs-on / frame", "failing": f})
        found = True
    for kid, js in h.knowns[:3]:
        if not ctx.known(kid, "expanded value one unit below the exact integer: mesg %s field %s component %s bits %s -> %s (want %s)" % (
                js.get("mesg"), js.get("field"), js.get("component"), js.get("bits"), js.get("got"), js.get("want"))):
            ctx.violation({"source": "direct Go oracle (finding %s is not listed as known for C05)" % kid, "failing": js})
            found = True
    if os.path.exists(os.path.join(COQ, "Run/RunDecode.vo")):
        bad, err = ctx.run_cases("Run.RunDecode", "bool * bool * bytes * ores", cases, shard=25)
        if err:
            ctx.broken.append("correspondence could not be evaluated: " + str(err)[:300])
        for i in bad[:3]:
            ctx.violation({"source": "correspondence: decoder model (expansion) differs from the implementation", "case": cases[i][:20000]})
            found = True
    if ctx.broken and not found:
        ctx.violation({"broken": ctx.broken, "searched": "%d component values" % h.stats.get("oracle_components", 0)}, no_input=True)
    return ctx.finish()
