"""C15 -- independent SDK objects can be used concurrently without interference (PARTIAL: footprints + race detector)."""
from .common import *
from .manifest_data import NOTE_COMMON

CLAIM = {
  "technique": "Coq proof of non-interference over an interleaving model of shared-state footprints; the footprint (package-level variables, "
               "writes through option/parameter pointers and through *FieldBase, sync.Once / sync.Pool use) is re-extracted from the Go sources "
               "on every run (go/ast + go/types) and the side condition is evaluated on it by vm_compute; validated dynamically by a "
               "race-detector build of the harness running mixed concurrent workloads on distinct objects and comparing each result with the solo run",
  "text": "PARTIAL. Proved: in a small-step interleaving model (sequentially consistent shared store, per-thread private store, sync.Once and "
          "sync.Pool as primitives) threads whose operations have no unsynchronised shared store, read Once-initialised locations only after calling "
          "that Once, and reset pooled objects before Put never reach a racy configuration, and each finishes with exactly the result it has when run "
          "alone (invariant over all interleavings; no bound on threads or length). The side condition is evaluated on the footprint extracted from "
          "the current sources: every function of decoder, encoder, proto, profile/{factory,mesgdef,filedef,typedef,basetype}, kit/*, opener satisfies "
          "it except the documented set-up functions (factory.RegisterMesg, typedef.FileRegister, typedef.MesgNumRegister: excluded from the operation "
          "set). A function that returns a package-level struct by reference (its address or the pointer held in it, exported fields) counts as an "
          "unguarded store to it: the caller's 'own' value would be shared. The finding options_factory_write (every generated ToMesg stored "
          "options.Factory through the caller's *Options) is repaired in /repo (fix: commit, see KNOWN_FINDINGS.json); C15_options_refuted is stated "
          "for both cases -- the extracted witness with a racy two-thread execution if the store returns, no such offender now. "
          "NOT proved and said so: the extraction is syntactic "
          "(a store through an alias it cannot see, or through an object two callers share although the property calls them distinct, is only caught "
          "dynamically); the Go memory model, scheduler and sync.Pool reuse policy are not formalised; the proof is about footprints, not about the "
          "values the operations compute. The dynamic part is testing: go build -race, GORACE=halt_on_error=0, every race report is parsed and either "
          "classified as the known finding (both stacks end in mesgdef.(*X).ToMesg on a line mentioning options.Factory) or reported as a violation.",
  "note": NOTE_COMMON + " Additionally trusted for C15: go/types (type information for the extraction), the Go race detector (ThreadSanitizer runtime) "
          "and the parser of its reports; 'distinct objects' is a hypothesis (writes through pointer parameters into messages/headers/the object's own "
          "option block are classified as owned by the caller)."}

PHASE_RE = re.compile(r"^C15PHASE (begin|end) (\S+)")
KNOWN_ID = "options_factory_write"


def parse_races(stderr):
    """-> list of {phase, text, accesses:[{what, func, file, line}]}"""
    out, phase, block, inblock = [], "(outside any phase)", [], False
    for line in stderr.split("\n"):
        m = PHASE_RE.match(line)
        if m:
            phase = m.group(2) if m.group(1) == "begin" else "(between phases, after %s)" % m.group(2)
            continue
        if line.startswith("=================="):
            if inblock:
                if any("WARNING: DATA RACE" in b for b in block):
                    out.append({"phase": rphase, "text": "\n".join(block)})
                inblock = False
            else:
                inblock, block, rphase = True, [], phase
            continue
        if inblock:
            block.append(line)
    for r in out:
        accs, cur = [], None
        lines = r["text"].split("\n")
        for i, line in enumerate(lines):
            m = re.match(r"^(Write|Read|Previous write|Previous read|Atomic write|Atomic read|Previous atomic write|Previous atomic read) at (0x[0-9a-f]+) by (.*):$", line)
            if m:
                cur = {"what": m.group(1), "addr": m.group(2), "by": m.group(3), "frames": []}
                accs.append(cur)
                continue
            if cur is not None:
                if not line.strip():
                    cur = None
                    continue
                fm = re.match(r"^\s+(\S.*)\(\)$", line) or re.match(r"^  (\S+)$", line)
                lm = re.match(r"^\s+(/\S+):(\d+)( \+0x[0-9a-f]+)?$", line)
                if lm and cur["frames"] and "file" not in cur["frames"][-1]:
                    cur["frames"][-1]["file"], cur["frames"][-1]["line"] = lm.group(1), int(lm.group(2))
                elif fm:
                    cur["frames"].append({"func": fm.group(1)})
        r["accesses"] = accs
    return out


def src_line(path, line):
    try:
        return open(path, errors="replace").read().split("\n")[line - 1]
    except Exception:
        return ""


TOMESG = re.compile(r"/profile/mesgdef\.\(\*\w+\)\.ToMesg$")


def is_known_race(r):
    """classifier of options_factory_write: both conflicting accesses are top-frame accesses inside a generated mesgdef.(*X).ToMesg
    on a source line that mentions options.Factory, at least one of them the store"""
    accs = r.get("accesses", [])
    if len(accs) < 2:
        return False
    store = False
    for a in accs[:2]:
        if not a["frames"] or not TOMESG.search(a["frames"][0].get("func", "")):
            return False
        text = src_line(a["frames"][0].get("file", ""), a["frames"][0].get("line", 0))
        if "options.Factory" not in text:
            return False
        if re.search(r"options\.Factory\s*=[^=]", text):
            store = True
    return store


def build_race_harness(ctx):
    """second harness binary with the race detector; go's own build cache makes the warm build a few seconds"""
    with Lock():
        t = time.time()
        modargs = ["-modfile=go.scratch.mod"] if os.path.realpath(REPO) != "/repo" else []
        binp = os.path.join(CACHE, "harness-race")
        rc, out = sh(["go", "build", "-race"] + modargs + ["-tags", "verif", "-o", binp, "."], cwd=os.path.join(VERIF, "harness"), env=GOENV, timeout=1500)
        ctx.say("race build: rc=%d (%.1fs)" % (rc, time.time() - t))
        if rc != 0:
            ctx.say(out[-2500:])
            return None, out
        return binp, ""


def parse_shows(text):
    return [{"package": m.group(1), "function": m.group(2), "file": m.group(3), "line": int(m.group(4))}
            for m in re.finditer(r'\("([^"]*)",\s*"([^"]*)",\s*"([^"]*)",\s*(\d+)\)', text)]


def split_summary(text):
    """the printed 5-tuple ( [..], n, opt, [..], n ) -> pieces (top-level commas)"""
    t = text.strip()
    if t.startswith("(") and t.endswith(")"):
        t = t[1:-1]
    parts, depth, cur, instr = [], 0, "", False
    for ch in t:
        if ch == '"':
            instr = not instr
        if not instr:
            if ch in "([":
                depth += 1
            elif ch in ")]":
                depth -= 1
            elif ch == "," and depth == 0:
                parts.append(cur.strip())
                cur = ""
                continue
        cur += ch
    parts.append(cur.strip())
    return parts


def gen_record(file, line, fn):
    """the full generated record (with the translator's note) for an offending access"""
    try:
        for l in open(os.path.join(COQ, "gen", "Footprint.v"), errors="replace"):
            if '"%s" %d' % (file, line) in l and '"%s"' % fn in l:
                return l.strip().rstrip(";")
    except Exception:
        pass
    return ""


def static_part(ctx):
    """returns (unexplained offenders, known count, witness, translator error)"""
    tr = ctx.prepare(parts=["footprint"])
    terr = tr.get("footprint")
    if terr:
        ctx.broken.append("extraction of the footprint failed (a source shape the extractor does not understand): " + terr)
        return [], 0, None, terr
    ok, log = ctx.coq(["Props/C15.vo"])
    if ok:
        ctx.props()
        for n, good in (("Inst.footprint_side_condition", True), ("Inst.once_bodies_deterministic", True), ("Inst.footprint_nonempty", True)):
            ctx.add_obligation(n, good)
    else:
        ctx.cov["obligations"] += 11
        ctx.broken.append("Props/C15.vo does not build (footprint side condition, Once bodies, or a proof)")
        ctx.coq(["gen/Footprint.vo", "Model/Footprint.vo"])
    hits = ctx.forbidden_scan()
    if hits:
        ctx.broken.append("forbidden vernacular: " + ", ".join(hits[:5]))
    rc, text = ctx.coq_eval("Model.FootprintTypes Model.Footprint gen.Footprint", "summary accesses", timeout=900)
    if rc != 0:
        ctx.broken.append("the side condition could not be evaluated on the extracted footprint: " + text[-300:])
        return [], 0, None, None
    parts = split_summary(text)
    if len(parts) != 5:
        ctx.broken.append("unexpected summary shape: " + text[:300])
        return [], 0, None, None
    unexplained = parse_shows(parts[0])
    nknown = int(re.sub(r"\D", "", parts[1]) or 0)
    wit = parse_shows(parts[2])
    setup = parse_shows(parts[3])
    nrec = int(re.sub(r"\D", "", parts[4]) or 0)
    for u in unexplained:
        u["record"] = gen_record(u["file"], u["line"], u["function"])
    ctx.cov["footprint"] = {"access_records": nrec, "known_options_factory_writes": nknown, "setup_function_accesses_excluded": setup,
                            "unexplained_offending_accesses": len(unexplained), "first_known_witness": wit[0] if wit else None}
    try:
        gen = open(os.path.join(COQ, "gen", "Footprint.v"), errors="replace").read()
        ctx.cov["footprint"]["mechanisms_seen"] = {
            "once_do_calls": gen.count(" KDo "), "stores_inside_once_body": len(re.findall(r" KW \(GOnce ", gen)),
            "pool_get": gen.count(" KGet "), "pool_put_reset_before": gen.count(" KPut GResetBeforePut"),
            "pool_put_reset_after_get": gen.count(" KPut GResetAfterGet"), "pool_put_not_reset": gen.count(" KPut GNone"),
            "fieldbase_stores_fresh": len(re.findall(r"LFieldBase [^)]*\) KW GFresh", gen)),
            "fieldbase_stores_unguarded": len(re.findall(r"LFieldBase [^)]*\) KW GNone", gen)),
            "option_value_reads": len(re.findall(r"LOption [^)]*\) KR ", gen)), "option_value_stores": len(re.findall(r"LOption [^)]*\) KW ", gen)),
            "owned_parameter_stores": len(re.findall(r"LOwned [^)]*\) KW ", gen)),
            "package_level_variables": len(re.findall(r"^  \(\"", gen, flags=re.M)),
            "global_stores_outside_init": len(re.findall(r"LGlobal [^)]*\) KW (GNone|\(GMutex)", gen))}
        m = re.search(r"functions walked: (\d+)", gen)
        ctx.cov["footprint"]["functions_walked"] = int(m.group(1)) if m else 0
    except Exception as e:
        ctx.cov["notes"].append("mechanism inventory failed: %s" % e)
    ctx.count(nrec, ["footprint-record-%d" % i for i in range(nrec)])
    return unexplained, nknown, (wit[0] if wit else None), None


def run_workload(ctx, binp, seed, tier, procs, only=None):
    args = ["c15", "--seed", seed, "--tier", tier, "--procs", procs]
    if only:
        args += ["--only", only]
    t = time.time()
    e = dict(GOENV, GORACE="halt_on_error=0 history_size=2", VERIF_REPO=os.path.realpath(REPO))
    p = subprocess.run([binp] + [str(a) for a in args], stdout=subprocess.PIPE, stderr=subprocess.PIPE, text=True, errors="replace", env=e, timeout=2400)
    h = Harness(p.returncode, p.stdout)     # exit code 66 = the race runtime saw at least one race (reports are on stderr)
    h.stderr = p.stderr
    for k, v in h.stats.items():
        ctx.cov["histogram"][k] = ctx.cov["histogram"].get(k, 0) + v
    for smp in h.samples[:4]:
        if len(ctx.cov["samples"]) < 8:
            ctx.cov["samples"].append(smp[:1500])
    races = parse_races(getattr(h, "stderr", ""))
    ctx.say("workload seed=%s tier=%s procs=%s: rc=%d, %d ops, %d race reports, %d result differences (%.1fs)" % (
        seed, tier, procs, h.rc, sum(v for k, v in h.stats.items() if k.startswith("ops_")), len(races), len(h.fails), time.time() - t))
    return h, races


def dynamic_part(ctx, static_unexplained):
    binp, err = build_race_harness(ctx)
    if not binp:
        ctx.broken.append("race-detector build of the harness failed: " + err[-400:])
        return 0, []
    runs = [(ctx.seed, "quick", 0)] if ctx.tier == "quick" else \
           [(ctx.seed, "thorough", 16), (ctx.seed + 1, "quick", 1), (ctx.seed + 2, "quick", 2), (ctx.seed + 3, "thorough", 4)]
    nknown_dyn, others, nfail = 0, [], 0
    phases_seen = set()
    for seed, tier, procs in runs:
        h, races = run_workload(ctx, binp, seed, tier, procs)
        nops = sum(v for k, v in h.stats.items() if k.startswith("ops_"))
        phases_seen |= {k[4:] for k in h.stats if k.startswith("ops_")}
        ctx.count(nops, ["%s/%s/%s/%s" % (seed, tier, procs, k) for k in h.stats if k.startswith("ops_")])
        ctx.cov["traces_validated_against_impl"] += nops
        if h.rc not in (0, 66):
            ctx.broken.append("race workload exited %d (seed %s): %s" % (h.rc, seed, getattr(h, "stderr", "")[-600:]))
        for f in h.fails[:3]:
            nfail += 1
            ctx.violation({"source": "concurrent result differs from the result of the same operation run alone", "failing": f,
                           "how": "VERIF_REPO=%s GORACE=halt_on_error=0 %s c15 --seed %s --tier %s --procs %s --only %s" % (
                               os.path.realpath(REPO), binp, seed, tier, procs, f.get("phase", ""))})
        for r in races:
            if is_known_race(r):
                nknown_dyn += 1
                if nknown_dyn == 1:
                    ctx.cov["known_race_sample"] = {"phase": r["phase"], "report": r["text"][:1800]}
            else:
                others.append((seed, tier, procs, r))
    ctx.cov["race_phases"] = sorted(phases_seen)
    seen = set()
    for seed, tier, procs, r in others:
        tops = tuple((a["frames"][0].get("func"), a["frames"][0].get("line")) for a in r["accesses"][:2] if a["frames"])
        if tops in seen:
            continue
        seen.add(tops)
        if len(seen) > 4:
            break
        related = [u for u in static_unexplained if any(u["function"].split(").")[-1] in (fr.get("func") or "") and
                                                        (fr.get("file") or "").endswith(u["file"]) for a in r["accesses"] for fr in a["frames"])]
        ctx.violation({"source": "race detector report that the known finding does not explain", "phase": r["phase"], "report": r["text"][:6000],
                       "conflicting_accesses": [{"what": a["what"], "top_frames": a["frames"][:4]} for a in r["accesses"][:2]],
                       "footprint_offenders_in_these_stacks": related,
                       "how": "VERIF_REPO=%s GORACE=halt_on_error=0 %s c15 --seed %s --tier %s --procs %s --only %s" % (
                           os.path.realpath(REPO), binp, seed, tier, procs, r["phase"])})
    return nknown_dyn, others


def run(ctx):
    ctx.cov["rule"] = ("static: every access record of the extracted footprint is one evaluation of the side condition (distinct by record); dynamic: "
                       "one operation = one decode / encode / stream encode / typed conversion / file build / listener run / factory or type-table lookup / "
                       "pooled decode on its own objects, run concurrently with others and then alone; non-trivial = it ran concurrently with at least one "
                       "other operation in its phase; distinct by (seed, GOMAXPROCS, phase)")
    ctx.cov["checker_cmd"] = ("fit2coq footprint; coq/build.sh Props/C15.vo; coqc Props/C15.v; coqc ev.v (summary accesses); "
                              "go build -race -tags verif; GORACE=halt_on_error=0 harness-race c15 --seed S --tier T --procs P")
    ctx.cov["trusted_base"] += ["go/types type information used by translator/footprint.go", "Go race detector and the parser of its reports (checks/c15.py)"]
    ctx.assumptions += [
        "LEVEL PARTIAL: theorems are about extracted footprints over a sequentially consistent interleaving model; the Go memory model, scheduler and sync.Pool reuse policy are not formalised",
        "the extraction is syntactic: stores through aliases it cannot see are only caught by the race workload",
        "'distinct objects': writes through pointer parameters into messages, headers and an object's own option block are private to the caller (class LOwned)",
        "set-up functions factory.RegisterMesg, typedef.FileRegister, typedef.MesgNumRegister (documented: use at instantiation) are not operations of the property",
        "a FieldBase written inside `if x.Name == \"unknown\"` is freshly allocated by the factory (createUnknownField)",
        "a pooled decoder is re-initialised by Reset right after Get (opener); that Reset forgets the history is property C07",
    ]
    unexplained, nknown, wit, terr = static_part(ctx)
    found = False
    nknown_dyn, other_races = dynamic_part(ctx, unexplained)
    found = bool(ctx.violations)

    if nknown or nknown_dyn:
        where = ("%s (%s:%d)" % (wit["function"], wit["file"], wit["line"])) if wit else "generated ToMesg"
        ok = ctx.known(KNOWN_ID, "write to options.Factory inside ToMesg through the shared options pointer: %d extracted stores (first: %s), "
                                 "%d race-detector reports with shared &mesgdef.Options{}" % (nknown, where, nknown_dyn))
        if not ok:
            ctx.violation({"source": "options.Factory store in ToMesg is present but not listed as a known finding", "witness": wit})
            found = True
    if nknown and not nknown_dyn and ctx.cov.get("race_phases"):
        ctx.cov["notes"].append("the extracted options.Factory store was not reported by the race detector in this run")
    if nknown_dyn and not nknown:
        ctx.broken.append("race detector reports the options.Factory race but the extraction no longer contains the store")

    if unexplained:
        dyn_related = [r for (_, _, _, r) in other_races]
        for u in unexplained[:4]:
            rec = u.get("record", "")
            model_race = " KW " in rec and "LOwned" not in rec
            ctx.violation({"source": "footprint side condition (Inst.footprint_side_condition: unexplained Gen.accesses = []) is false",
                           "offending_access": u,
                           "meaning": "this function stores to shared state without Once/Pool discipline (or reads Once-initialised state before the Once, or "
                                      "puts a pooled object that was not reset); by C15_unguarded_write_races two goroutines running it reach a racy configuration"
                                      if model_race else "this access breaks the side condition of C15_noninterference (pooled object not reset / load before Once / Once body not deterministic)",
                           "all_offending_accesses": unexplained[:40],
                           "race_detector_confirmed": bool(dyn_related)},
                          no_input=not (model_race or dyn_related))
        found = True
    if ctx.broken and not found:
        ctx.violation({"broken": ctx.broken, "searched": "side condition over the whole extracted footprint; race workload phases %s" % ctx.cov.get("race_phases")},
                      no_input=True)
    return ctx.finish()


def replay(ctx, data):
    """re-runs the whole check (the static side condition is a function of the tree; the dynamic part re-runs with the recorded seed)"""
    ctx.seed = int(data.get("seed", ctx.seed))
    ctx.tier = data.get("tier", ctx.tier)
    return run(ctx)
