"""C03 -- decoding arbitrary bytes never panics, hangs or fakes success."""
from .common import *
from .manifest_data import NOTE_COMMON

CLAIM = {
  "technique": "Coq proof: Hoare-style invariant (buffer fill within the stream, every live definition has valid base types) carried through the Gallina decoder in which every Go "
               "index/slice/wide read/divisor is a checked operation returning Panic and every loop runs on fuel; induction over the fuel with 'each iteration consumes >= 1 byte'; "
               "lifted to every history of entry-point calls of the decoder object; model tied to decoder.go by differential execution on arbitrary and mutated streams",
  "text": "Full proof on the model for the decoder proper: for every byte string, every option set and every history of Decode/Next/PeekFileHeader/PeekFileId/Discard/"
          "CheckIntegrity/Reset calls no step panics and no loop hangs (C03_decode_total, C03_api_total), errors are sticky (C03_sticky), the error of a context that is already done included (C03_context_error_is_kept: DecodeWithContext returns it, no FIT value, and every later entry point returns it); the size-before-wide-read, "
          "valid-base-type-before-division and fuel arguments are the bounds the Go code relies on. The typed-file listener's two-goroutine protocol (pool / message / done channels, capacities translated from listener.go on every run) never deadlocks "
          "and never livelocks for EVERY channel-buffer option, 0 included, every message list and every scheduling (C03_listener_never_deadlocks, C03_listener_terminates, "
          "C03_listener_structure; the option-0 case holds since fix b34bd23). The typed-file listener with channel buffers 0/1/2/128, the raw decoder, DecodeWithContext, "
          "listeners, one-byte readers and a reused decoder (Reset to another buffer size) are exercised by the Go oracle under recover() and a watchdog on the same inputs "
          "(C13 proves the typed Reset total, C16 models the raw decoder, C08_reset_any_history the reused read buffer). Raw decoder: for every byte stream every slice it takes from its fixed array has length <= 130051 (C03_raw_slices_fit, "
          "C03_raw_lengths_bounded) and the array declared in raw.go, translated on every run, is that long (C03_raw_array_suffices); the raw decoder model stops on every byte "
          "string -- each loop iteration consumes at least one byte, the model's fuel is never exhausted -- and never reaches its 'impossible' branches (C03_raw_total). "
          "'Never fakes success' has its theorems under C04 (Decode accepts only CRC codewords) and C16 (what the full decoder accepts the raw decoder segments identically). A deterministic boundary corpus (largest "
          "possible message; every declared size 0..9 x every base type x both byte orders for eight well-known fields) runs first.",
  "note": NOTE_COMMON + " Component expansion uses primitive floats (never a source of Panic). Float containers in makeBits and >4 GiB streams are outside the model."}


def run(ctx):
    ctx.cov["rule"] = ("arbitrary byte strings, hand-made headers with random tails, and structure-aware mutations of encoder outputs and small fixtures (bit flips, random bytes, "
                       "truncation, field size / base type bytes, header fields, duplicated and dropped record slices, developer/compressed bits, appended garbage, chained pairs) "
                       "through every entry point with random options, listeners and one-byte readers; non-trivial = longer than 14 bytes; distinct by bytes")
    ctx.cov["checker_cmd"] = "coq/build.sh Props/C03.vo Run/RunDecode.vo Run/RunC07.vo; coqc Props/C03.v; coqc cases_C03_*.v (vm_compute)"
    tr = ctx.prepare(parts=["factory", "dump-consts", "crc", "decoder-reset", "convmode", "decconst", "listener"])
    ok, _ = ctx.coq(["Props/C03.vo", "Run/RunDecode.vo", "Run/RunC07.vo"])
    if ok:
        ctx.props()
    else:
        ctx.cov["obligations"] += 5
        ctx.broken.append("Props/C03.vo does not build")
    for k, v in tr.items():
        if v:
            ctx.broken.append("model part %s: %s" % (k, v))
    hits = ctx.forbidden_scan()
    if hits:
        ctx.broken.append("forbidden vernacular: " + ", ".join(hits[:5]))
    h = ctx.harness(["c03", "--seed", ctx.seed, "--tier", ctx.tier], timeout=3000)
    if h.rc != 0:
        ctx.broken.append("harness c03 failed: " + getattr(h, "stderr", "")[-300:])
    ctx.count(len(h.cases) * 6, [c for c in h.cases if c.count(";") > 14])
    found = False
    for f in h.fails[:3]:
        ctx.violation({"source": "direct Go oracle: every entry point under recover() + watchdog", "failing": f})
        found = True
    # API histories over malformed sequences (sticky errors, peeks, discards)
    h2 = ctx.harness(["c07", "--seed", ctx.seed + 77, "-n", 300 if ctx.tier == "quick" else 3000])
    for f in [f for f in h2.fails if "Panic" in str(f)][:2]:
        ctx.violation({"source": "direct Go oracle: API history", "failing": f})
        found = True
    if os.path.exists(os.path.join(COQ, "Run/RunDecode.vo")) and os.path.exists(os.path.join(COQ, "Run/RunC07.vo")):
        bad, err = ctx.run_cases("Run.RunDecode", "bool * bool * bytes * ores", h.cases, shard=30)
        if err:
            ctx.broken.append("correspondence (decode) could not be evaluated: " + str(err)[:300])
        for i in bad[:2]:
            ctx.violation({"source": "correspondence: decoder model differs from the implementation on a malformed stream (outcome class / messages)", "case": h.cases[i][:20000]})
            found = True
        bad, err = ctx.run_cases("Run.RunC07", "dcfg * bytes * list aop * list obs", h2.cases, shard=25)
        if err:
            ctx.broken.append("correspondence (API histories) could not be evaluated: " + str(err)[:300])
        for i in bad[:2]:
            ctx.violation({"source": "correspondence: API model differs from the decoder object", "case": h2.cases[i][:20000]})
            found = True
    if ctx.broken and not found:
        ctx.violation({"broken": ctx.broken, "searched": "%d malformed streams through every entry point" % len(h.cases)}, no_input=True)
    return ctx.finish()
