"""C19 -- fitconv: FIT -> CSV -> FIT preserves messages and field values; column count; sequence count."""
from .common import *
from .manifest_data import NOTE_COMMON

CLAIM = {
  "technique": "Coq model of fitcsv at the level of rows of cells (fit_to_rows / rows_to_fit, name tables translated from lookup_gen.go, "
               "conversion mode / separator / accessors extracted from the source, factory and name tables dumped from the running code); "
               "theorems: verified decimal codec, column count for all inputs, per-cell raw round trip for every integer base type, "
               "scaled mode reduced to the C12 arithmetic obligation and refuted in the primitive-float model; differential execution of "
               "both directions against the real fitcsv package + direct FIT->CSV->FIT oracle over all profile messages",
  "text": "PARTIAL proof. Proved for all inputs: every CSV row has the header's number of cells (cell level); print/parse of integers "
          "round-trips; a raw integer cell parses back to itself for all 14 integer base types; the output has one sequence per file_id row of the CSV "
          "(CSV->FIT side of the chain clause; file_id's name resolves to 0 and no other profile name does); a scaled cell round-trips iff "
          "to_int(discard(apply x)) = x, which is refuted for the truncating conversion the source uses (16039 -> 16038, finding "
          "trunc_loses_unit). NOT proved but validated by correspondence on every run: CSV quoting (encoding/csv), float text (strconv), "
          "the file-level composition of the cell lemmas (messages, sub-field reversal, unknown(N) recovery, developer fields, chained "
          "sequences) -- there the model is executed on the implementation's own inputs and outputs and must agree cell by cell and "
          "message by message. Six known findings of the unchanged tree are listed with classifiers.",
  "note": NOTE_COMMON + " Float text (strconv.FormatFloat/ParseFloat) and CSV quoting are Section variables / named assumptions; "
          "float cells are compared through their parsed value. unicode.IsPrint/IsDigit are modelled on ASCII."}

PARTS = ["factory", "dump-csvnames", "csvlookup", "csvconv"]
LISTED = ["trunc_loses_unit", "units_with_comma", "sint64_scalar_prints_minus_one", "float_nan_payload_lost",
          "mfg_range_boundary_message_dropped", "dev_float_scale_on_input_only"]


def _setup(ctx):
    ctx.cov["rule"] = ("generated FIT files: sweep over all 119 profile messages (every message once with all in-scope fields, once with a random "
                       "subset; scalar/array/string/invalid/sub-field/scaled values) x {raw, default, raw+verbose, verbose, deg, raw+deg, raw+trim, "
                       "verbose+trim, raw+disk+seekable writer, verbose+deg+disk+seekable}; random chained files (1..3 sequences) with unknown "
                       "messages/fields and developer fields; component expansion on; remark streams (text-layer strings, developer names with "
                       "commas, physical expansion targets); a case is non-trivial when it has at least one data row with a value cell; distinct by case text")
    ctx.cov["checker_cmd"] = "coq/build.sh Props/C19.vo Run/RunC19.vo; coqc Props/C19.v; coqc cases_C19_*.v (vm_compute check_case)"
    ctx.cov["trusted_base"] += [
        "translator parts csvlookup / csvconv (translator/csvlookup.go) and harness dumps dump-factory / dump-csvnames",
        "strconv.FormatFloat / ParseFloat (float text; Section variables fmtf / parse64 / parse32, per-case table in the correspondence)",
        "encoding/csv reader and the hand-written quoting of fit_to_csv.go (text layer; cells compared after encoding/csv)",
        "Go float->integer conversion modelled as amd64 truncation (in range = language semantics)",
        "encoder/decoder round trip of the messages CSVToFITConv builds (C01) -- the observable is the decoded output file",
        "the swap-compaction loop of createMesg is a stable filter (notes/feasibility/SwapCompaction.v)"]
    ctx.assumptions += [
        "text layer: names and units contain no comma / quote / line break (false for record.compressed_speed_distance: finding units_with_comma; "
        "developer field names with commas are run as a remark)",
        "parse (fmt x) = x for non-NaN floats and fmt x contains '.' for the scaled values that occur (strconv; sampled on every run)",
        "strings: printable runes without '\"' and without the array separator '|' (others are altered by formatter.go: run as remark 'text-layer')",
        "scope of the property: no field that is the expansion target (main or any sub-field component) of another field present in the decoded message, "
        "unique developer field names that are not profile field names of the message and do not start with 'unknown', field numbers distinct, at least one field per message, "
        "one file_id per sequence",
        "remark (not a finding of C19 as scoped): FITToCSVConv and CSVToFITConv never reset their field descriptions between chained sequences, so a chain "
        "that redefines developer field (index, number) with another name or type gets the first file's name/type; the generator re-declares identical "
        "developer fields in every sequence of a chain",
        "float->int conversion out of range is implementation-defined in Go and excluded (in_range hypotheses)"]


def _diag(ctx, case):
    try:
        rc, txt = ctx.coq_eval("Run.RunC19", "let c := (%s) in (check_rows c, check_out c, diag_rows c, diag_out c)" % case,
                               extra_imports=["Open Scope string_scope."], timeout=300)
        return txt[:3000]
    except Exception as e:
        return "diagnostic failed: %r" % (e,)


def _report(ctx, h, found):
    for f in h.fails[:3]:
        ctx.violation({"source": "direct oracle: FIT -> CSV -> FIT with the real fitcsv package, decoded input vs decoded output / column count",
                       "failing": f, "fit_hex": f.get("fit_hex"), "options": f.get("options")})
        found = True
    seen = {}
    for kid, js in h.knowns:
        seen.setdefault(kid, js)
    for kid, js in seen.items():
        n = h.stats.get("known_" + kid, 1)
        text = "%d failing comparisons explained by the classifier; first: %s" % (n, json.dumps(js, sort_keys=True)[:400])
        if not ctx.known(kid, text):
            ctx.violation({"source": "direct oracle: failure classified as '%s' which is not a listed known finding" % kid, "failing": js})
            found = True
    return found


def run(ctx):
    _setup(ctx)
    tr = ctx.prepare(parts=PARTS)
    for p in PARTS:
        if tr.get(p):
            ctx.broken.append("model part %s could not be regenerated: %s" % (p, tr[p]))
    ok, log = ctx.coq(["Props/C19.vo", "Run/RunC19.vo"])
    if ok:
        ctx.props()
    else:
        ctx.cov["obligations"] += 11
        ctx.broken.append("Props/C19.vo or Run/RunC19.vo does not build")
    hits = ctx.forbidden_scan()
    if hits:
        ctx.broken.append("forbidden vernacular: " + ", ".join(hits[:5]))
    runok = os.path.exists(os.path.join(COQ, "Run/RunC19.vo"))
    if not ok:   # the model may still build when a proof broke
        ok2, _ = ctx.coq(["Run/RunC19.vo"])
        runok = ok2

    h = ctx.harness(["c19", "--seed", ctx.seed, "--tier", ctx.tier], timeout=3000)
    if h.rc != 0:
        ctx.broken.append("harness c19 failed: " + (getattr(h, "stderr", "") or "")[-400:])
    for note in h.lines.get("NOTE", [])[:5]:
        ctx.cov["notes"].append(note[:300])
    for rem in h.lines.get("REMARK", [])[:8]:
        ctx.cov["notes"].append("remark (outside the stated scope): " + rem[:400])
    nontrivial = [c for c in h.cases if "Data" in c and "VOne" in c]
    ctx.count(h.stats.get("cases", 0) + len(h.cases), nontrivial)
    found = _report(ctx, h, False)

    if runok and h.cases:
        bad, err = ctx.run_cases("Run.RunC19", "case", h.cases, shard=17 if ctx.tier == "quick" else 40,
                                 extra_imports=["Open Scope string_scope."])
        if err:
            ctx.broken.append("correspondence C19 could not be evaluated: " + str(err)[:300])
        for i in bad[:3]:
            ctx.violation({"source": "correspondence: the model of fitcsv (Model/Csv.v) and the implementation disagree on rows of cells or on the messages built from them",
                           "diagnostic (check_rows, check_out, first differing row model/impl, first differing message model/impl)": _diag(ctx, h.cases[i]),
                           "case": h.cases[i][:20000]})
            found = True
        ctx.cov["correspondence_disagreements"] = len(bad)
    elif not h.cases:
        ctx.broken.append("no correspondence case was produced")
    else:
        ctx.broken.append("model Run/RunC19.vo does not build")

    # the profile entry that breaks the text step of the column theorem (reported, part of finding units_with_comma)
    if runok:
        try:
            rc, txt = ctx.coq_eval("Proofs.CsvProofs", "first_unclean_units", timeout=120)
            ctx.cov["profile_entry_with_unquotable_units"] = txt[:200]
        except Exception:
            pass
    if ctx.broken and not found:
        ctx.violation({"broken": ctx.broken, "searched": "%d generated files through the direct oracle, %d correspondence cases" % (h.stats.get("cases", 0), len(h.cases))},
                      no_input=True)
    return ctx.finish()


def replay(ctx, rp):
    _setup(ctx)
    ctx.prepare(parts=[])
    path = os.path.join(CACHE, "replay-C19-%d.json" % os.getpid())
    with open(path, "w") as f:
        json.dump(rp, f)
    h = ctx.harness(["c19", "--replay", path])
    os.remove(path)
    ctx.count(1)
    found = _report(ctx, h, False)
    print("replay: %d FAIL, %d KNOWN lines" % (len(h.fails), len(h.knowns)))
    for f in h.fails[:5]:
        f.pop("fit_hex", None)
        print("  FAIL", json.dumps(f, sort_keys=True)[:600])
    return ctx.finish()
