"""C07 -- a sequence decodes the same whatever the decoder did before."""
from .common import *
from .manifest_data import NOTE_COMMON

CLAIM = {
  "technique": "Coq state-machine model of the decoder object (Model/Api.v over Model/Decoder.v) with the reset/integrity/peek facts translated from decoder.go on every run; "
               "boundary-invariant theorems by case analysis over the step function; relational (two-run) proof that byte counter, buffer fill and listener log do not influence any function of the decoder model; differential execution of API histories (vm_compute) and a direct Go oracle "
               "(decode after history vs fresh decoder)",
  "text": "Proved on the model of the decoder object: after every completed Decode, completed Discard, any CheckIntegrity and any Reset, every per-sequence component "
          "(definitions, developer tables, accumulators, timestamps, CRC, counters, header, file id, messages, sticky error, once) is initial (boundary theorems; they hold because "
          "reset() clears the tables, CheckIntegrity drops the read buffer and PeekFileId stops at the data size: three fix: commits, translated flags, the obligations fail on the "
          "pinned tree); and what Decode returns does not depend on the three things in which two decoders at a boundary can still differ -- byte counter, buffer fill, listener "
          "log (C07_history_independence: relational proof through every function of the decoder model), so at a boundary Decode returns what a fresh decoder over the remaining "
          "stream returns (C07_same_as_fresh). Errors are compared by class with io.EOF and io.ErrUnexpectedEOF as one class (known finding eof_kind_depends_on_chunking); errors "
          "are sticky until Reset. Reset(r, opts...) leaves exactly a new decoder on r -- byte counter, buffer, tables, clock, accumulators, error, header-once flag -- so "
          "after Reset EVERY entry point answers as on a decoder that was never used (C07_reset_is_new, C07_after_reset_every_entry_point_as_fresh; rests on what reset() "
          "and Reset() clear in the source, the byte counter included, translated on every run). PeekFileId never leaves the decoder beyond the end of the sequence it peeks into, also when a message straddles the end of a corrupted sequence "
          "(C07_peekfileid_stays_inside, since fix 7fda71f). Per run: API histories (incl. DecodeWithContext under a cancelled context, predecessors cut short inside a message,  pooled decoders whose previous reader was empty) against the model and the Go history-vs-fresh oracle.",
  "note": NOTE_COMMON + " Reader = contiguous bytes.Reader (arbitrary chunkings: C08). Sequences consumed with checksums ignored whose records overrun the declared data size "
          "are outside the statement (the start of the next sequence is then undefined)."}


def run(ctx):
    ctx.cov["rule"] = ("histories of 1..10 API calls (Decode, Next, PeekFileHeader, PeekFileId, Discard, CheckIntegrity+rewind, failed operations followed by a sticky-error probe "
                       "and Reset onto a new reader) over chains of 0..3 sequences (encoder outputs, accumulating/compressed-timestamp records, developer fields without "
                       "description, corrupted) followed by a sequence S (valid, definition-less, developer-field-without-description, corrupted) x options; "
                       "non-trivial = at least two operations; distinct by case text")
    ctx.cov["checker_cmd"] = "coq/build.sh Props/C07.vo Run/RunC07.vo; coqc Props/C07.v; coqc cases_C07_*.v (vm_compute)"
    tr = ctx.prepare(parts=["factory", "dump-consts", "crc", "decoder-reset", "convmode"])
    ok, _ = ctx.coq(["Props/C07.vo", "Run/RunC07.vo"])
    if ok:
        ctx.props()
    else:
        ctx.cov["obligations"] += 9
        ctx.broken.append("Props/C07.vo / Run/RunC07.vo do not build (reset()/CheckIntegrity()/PeekFileId() facts translated from decoder.go no longer give the boundary invariant?)")
    for k, v in tr.items():
        if v:
            ctx.broken.append("model part %s: %s" % (k, v))
    hits = ctx.forbidden_scan()
    if hits:
        ctx.broken.append("forbidden vernacular: " + ", ".join(hits[:5]))
    n = 1000 if ctx.tier == "quick" else 8000
    if ctx.broken:
        n = 3000      # search harder for a failing history
    h = ctx.harness(["c07", "--seed", ctx.seed, "-n", n])
    if h.rc != 0:
        ctx.broken.append("harness c07 failed: " + getattr(h, "stderr", "")[-300:])
    ctx.count(len(h.cases) + h.stats.get("oracle_fresh_vs_history", 0), [c for c in h.cases if c.count(";") > 3])
    found = False
    for f in h.fails[:3]:
        ctx.violation({"source": "direct Go oracle: decode after a history vs fresh decoder on the same sequence", "failing": f})
        found = True
    for kid, js in h.knowns[:3]:
        if not ctx.known(kid, str(js.get("history"))):
            ctx.violation({"source": "direct Go oracle: history dependence (%s)" % kid, "failing": js})
            found = True
    if os.path.exists(os.path.join(COQ, "Run/RunC07.vo")):
        bad, err = ctx.run_cases("Run.RunC07", "dcfg * bytes * list aop * list obs", h.cases, shard=25)
        if err:
            ctx.broken.append("correspondence could not be evaluated: " + str(err)[:300])
        for i in bad[:2]:
            ctx.violation({"source": "correspondence: Model/Api.v differs from the decoder object", "case": h.cases[i][:20000]})
            found = True
    if ctx.broken and not found:
        ctx.violation({"broken": ctx.broken, "searched": "%d histories" % len(h.cases)}, no_input=True)
    return ctx.finish()
