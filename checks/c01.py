"""C01 -- encode then decode returns the messages that were written."""
from .common import *
from .manifest_data import NOTE_COMMON

CLAIM = {
  "technique": "Coq models of the whole encoder (validator, LRU, timestamp compression, marshalling, header/CRC) and the whole decoder (definitions, fields with the size "
               "fallbacks, developer fields, expansion) tied byte-exactly / message-exactly to the Go code by differential execution under vm_compute; value-level "
               "round-trip theorems (induction), sequence-level round-trip theorem (induction over the message list with the invariant: LRU slot i holds the bytes of definition d <=> the decoder's table holds d at i; injectivity of definition marshalling for LRU hits), theorem for compressed timestamps over all message sequences (encoder rule vs decoder clock); direct Go round-trip oracle as search",
  "text": "Proved on the models (tied to the Go code on every run): (1) sequence level, C01_sequence_roundtrip: for EVERY list of messages whose fields round-trip at the value "
          "level (the decoder's own reading of the field's definition -- the profile's field, or an unknown field typed by the base type -- filled with what unmarshal makes of what "
          "marshal wrote is the field itself; 1..255 bytes; numeric scalars, numeric arrays and clean strings of known fields, numeric scalars and arrays of unknown fields qualify: "
          "C01_*_qualify), under every encoder option set with normal headers -- byte order, 1..16 local message types (every pattern of "
          "LRU hits, free slots and evictions), header size 12/14, protocol version -- and every read-buffer size, decoding what encode_fit wrote yields exactly one sequence whose "
          "messages are in order the validated input messages (number, fields, values): the definition a data record is decoded with is the one it was written with however often "
          "the slot was reused, every field is cut out at the right offset, and the loop over the data size ends exactly after the last record (first stated for a decoder with checksum "
          "verification and expansion off, see (7)). (2) value level: every numeric scalar/array value written with its base "
          "type is read back unchanged (all lengths, both byte orders), strings per C06. (3) compressed timestamps: for every message sequence the decoder's clock reconstructs "
          "exactly the timestamps the encoder compressed into headers or wrote in full (C01_timestamps; holds since fix: 0d6e112, the translated flag makes the obligation fail "
          "on a tree without it). (4) C01_sequence_roundtrip_compressed: the same sequence-level statement under the compressed-timestamp header option (1..4 local message types), "
          "for messages with at most one timestamp field: every decoded message has its fields as written or with the ORIGINAL timestamp field moved to the front -- the LRU/framing "
          "induction joined with the clock invariant (encoder's last written timestamp = decoder's clock). Known string fields qualify as well (clean strings, C06). "
          "(5) chained files (C01_chain_roundtrip, C01_chain_roundtrip_compressed): the output for a list of files is the concatenation of the single outputs and decoding it "
          "yields one sequence per file, each related to its input as in (1)/(4), for any number of files (every sequence leaves the decoder in the state a fresh one starts in). "
          "(6) developer fields (C01_chain_roundtrip_dev, normal headers, single or chained files): a developer field is typed by the first field description with its index and number "
          "among the field_description messages of the sequence so far; for every list of messages whose developer fields round-trip under the description in force at their "
          "position the decoded messages carry the same developer fields (number, developer data index, value) in order -- definitions with a developer part in the LRU and "
          "the decoder's table, the description list growing with the decoded messages. "
          "(7) C01_roundtrip, C01_roundtrip_compressed: (1)-(6) for EVERY decoder option set with component expansion off -- checksum verification on (the default) or off, any "
          "read-buffer size: the header CRC written is the CRC of the header, every record byte is hashed while decoded and the running value meets the stored file CRC. "
          "(8) C01_roundtrip_all_compressed: the compressed-timestamp option in full generality -- developer fields AND timestamps moved into record headers, single or chained "
          "files, any decoder option set with expansion off; string arrays of known fields qualify too (C06's clean non-empty elements). So every combination of encoder "
          "options of the statement (byte order, header option, local message types, protocol version, header size) is covered by C01_roundtrip / C01_roundtrip_all_compressed. "
          "(9) C01_roundtrip_any_writer, C01_roundtrip_stream_writer: composed with C09 (C09_stream_message_level: the stream encoder, validating and encoding message by message "
          "with the state it keeps between calls and between sequences, accepts exactly the chains encode_fits accepts and writes the same bytes) -- for every writer kind, write-buffer size and caller-preset data size, batch or stream "
          "encoder, the destination holds the bytes of encode_fits and decoding the destination content yields the messages (normal headers). "
          "Not yet a theorem and decided per run: component expansion on (decoded messages then also carry the expanded fields, C05), strings and arrays of unknown fields beyond numeric ones: model-encode = Go bytes, model-decode(Go bytes) = Go decode, and Go decode(Go encode x) = validated x "
          "on structured inputs over all encoder options and chained files. Encoder life-cycles outside the model (contexts, caller-supplied validators) are decided by Go oracles on "
          "every run: an encoder used again after a call that failed during the data-size dry run writes what a fresh encoder writes (found the defect repaired by fix 1279167); "
          "a stream encoder asked to complete a sequence no message was written for refuses and leaves the destination alone (fix 2690f88).",
  "note": NOTE_COMMON + " gen/Factory.v and gen/Consts.v are dumped from the compiled packages. Primitive float/int63 operations appear under Print Assumptions "
          "(component scaling in the decoder model); custom factories are outside the model."}

KNOWN_TEXT = {
    "ts_goes_back_within_window": "compressed timestamp going back inside the 32 s window (or following a full timestamp the encoder did not take as reference) decodes to a later time",
    "string_contains_U+FFFD": "valid U+FFFD dropped from a string on decode",
}


def run(ctx):
    ctx.cov["rule"] = ("chains of 1..3 sequences of messages drawn from the whole factory (scalars, arrays, strings, invalid sentinels, unknown messages/fields, developer fields "
                       "with descriptions), timestamp patterns {monotone, back inside window, jumps, < DateTimeMin / invalid}, x byte order x header option x local types 0..16 x "
                       "protocol version x validator option x header size 12/14 x buffer size; every other chain also written message by message through the stream encoder; a chain with a rejected file is "
                       "encoded again file by file with one encoder that goes on after the rejection; files without messages; encoders without a usable destination; chains "
                       "whose later file uses developer fields declared only in the first file (must be rejected by both encoders); non-trivial = encode accepted; distinct by input text")
    ctx.cov["checker_cmd"] = "coq/build.sh Props/C01.vo Run/RunC01.vo; coqc Props/C01.v; coqc cases_C01_*.v (vm_compute: check_enc, check_dec)"
    ctx.assumptions += ["inputs of the round-trip oracle satisfy wf_input (DESIGN.md C01): value shape agrees with the array flag, one field per number, no empty string in slices",
                        "decoder run with component expansion off for the round trip"]
    tr = ctx.prepare(parts=["factory", "dump-consts", "crc", "decoder-reset", "convmode"])
    ok, _ = ctx.coq(["Props/C01.vo", "Run/RunC01.vo"])
    if ok:
        ctx.props()
    else:
        ctx.cov["obligations"] += 3
        ctx.broken.append("Props/C01.vo / Run/RunC01.vo do not build")
    for k, v in tr.items():
        if v:
            ctx.broken.append("model part %s: %s" % (k, v))
    hits = ctx.forbidden_scan()
    if hits:
        ctx.broken.append("forbidden vernacular: " + ", ".join(hits[:5]))
    h = ctx.harness(["c01", "--seed", ctx.seed, "--tier", ctx.tier])
    if h.rc != 0:
        ctx.broken.append("harness c01 failed: " + getattr(h, "stderr", "")[-300:])
    enc, dec, senc = h.lines.get("ENC", []), h.lines.get("DEC", []), h.lines.get("SENC", [])
    ence = h.lines.get("ENCE", [])
    ctx.count(len(enc) + len(dec) + len(senc), [e for e in enc + senc if "EOk" in e])
    found = False
    for f in h.fails[:3]:
        ctx.violation({"source": "direct Go oracle: decode(encode x) vs validated x", "failing": f})
        found = True
    for kid, js in h.knowns:
        if not ctx.known(kid, KNOWN_TEXT.get(kid, kid) + " -- e.g. " + str(js.get("diff", ""))[:160]):
            ctx.violation({"source": "direct Go oracle (unlisted finding %s)" % kid, "failing": js})
            found = True
    # the round trip holds whatever the destination is (C01_roundtrip_any_writer): every writer kind / buffer size / batch or stream,
    # also when appending to earlier content (the documented append flow), must leave the bytes the plain strategy wrote
    h9 = ctx.harness(["c09", "--seed", ctx.seed + 2000, "--tier", ctx.tier, "-n", 10 if ctx.tier == "quick" else 200], timeout=3000)
    ctx.count(h9.stats.get("oracle_configurations", 0) + h9.stats.get("oracle_configurations_preexisting", 0))
    for f in h9.fails[:2]:
        ctx.violation({"source": "direct Go oracle: the bytes an accepted sequence leaves in the destination depend on the writer kind / buffer size / stream / earlier "
                                 "content, so what is decoded back is not what was written", "failing": f})
        found = True
    if ok:
        bad, err = ctx.run_cases("Run.RunC01", "ecfg * list ifile * list eobs", ence, check="check_enc_each", shard=25)
        if err:
            ctx.broken.append("correspondence (encoder going on after a rejected file) could not be evaluated: " + str(err)[:300])
        for i in bad[:2]:
            ctx.violation({"source": "correspondence: an encoder that goes on after a rejected file differs from a fresh encoder (model: encode_fit per file)", "case": ence[i][:20000]})
            found = True
        for name, cases, ctype, chk in (("encoder", enc, "ecfg * list ifile * eobs", "check_enc"), ("decoder", dec, "bool * bool * bytes * ores", "check_dec"),
                                        ("stream encoder (accepts what encode_fit accepts, same bytes)", senc, "ecfg * list ifile * eobs", "check_senc"),
                                        ("message-level stream model (Model/Stream.v)", senc, "ecfg * list ifile * eobs", "check_stream_model")):
            bad, err = ctx.run_cases("Run.RunC01", ctype, cases, check=chk, shard=25)
            if err:
                ctx.broken.append("correspondence (%s) could not be evaluated: %s" % (name, str(err)[:300]))
            for i in bad[:2]:
                ctx.violation({"source": "correspondence: %s model differs from the implementation" % name, "case": cases[i][:20000]})
                found = True
    if ctx.broken and not found:
        ctx.violation({"broken": ctx.broken, "searched": "%d round trips through the Go oracle" % h.stats.get("roundtrip_sequences", 0)}, no_input=True)
    return ctx.finish()
