package main

// Part "footprint" (property C15): extracts from the source text of the concurrency-relevant packages
//   (a) every package-level variable, every function that reads / writes it and under which guard
//       (package initialisation, body of a package-level sync.Once, between Lock/Unlock of a package-level mutex);
//   (b) every write through a dereferenced pointer PARAMETER that is not the receiver (class "option value" when the
//       pointee is an exported ...Options struct, "owned" otherwise) and every write to a field of a proto.FieldBase
//       reached through a pointer (the embedded *FieldBase of a proto.Field), with the guard "fresh" when the write is
//       inside `if x.Name == "unknown"` (the factory hands out a freshly allocated FieldBase for unknown fields);
//   (c) every sync.Pool Get / Put, what is Put and whether it is reset before the Put (or re-initialised after the Get).
// Output: coq/gen/Footprint.v -- a list of access records in source order.
// Type information comes from go/types (stdlib only; the repository packages are type-checked from source, the
// standard library through the "source" importer).  A shape the extractor does not understand is an error.
// The extraction is syntactic: a write through a local alias of a shared pointer is not seen (said so in the claim).

import (
	"fmt"
	"go/ast"
	"go/build"
	"go/constant"
	"go/importer"
	"go/parser"
	"go/token"
	"go/types"
	"os"
	"path/filepath"
	"sort"
	"strings"
)

func init() { register("footprint", translateFootprint) }

const fpMod = "github.com/muktihari/fit"

// packages whose functions are the operations of the property (relative to the module root)
var fpScope = []string{
	"decoder", "encoder", "proto", "profile", "profile/basetype", "profile/factory", "profile/mesgdef", "profile/filedef",
	"profile/typedef", "kit/datetime", "kit/hash", "kit/hash/crc16", "kit/scaleoffset", "kit/semicircles",
	"internal/sliceutil", "cmd/fitactivity/opener",
}

type fpPkg struct {
	path  string
	dir   string
	files []*ast.File
	tpkg  *types.Package
	info  *types.Info
}

type fpLoader struct {
	repo string
	fset *token.FileSet
	pkgs map[string]*fpPkg
	std  types.ImporterFrom
	errs []string
}

func (l *fpLoader) Import(path string) (*types.Package, error) { return l.ImportFrom(path, "", 0) }

func (l *fpLoader) ImportFrom(path, dir string, mode types.ImportMode) (*types.Package, error) {
	if path == "unsafe" {
		return types.Unsafe, nil
	}
	if path == fpMod || strings.HasPrefix(path, fpMod+"/") {
		p, err := l.load(path)
		if err != nil {
			return nil, err
		}
		return p.tpkg, nil
	}
	return l.std.ImportFrom(path, dir, mode)
}

func (l *fpLoader) load(path string) (*fpPkg, error) {
	if p, ok := l.pkgs[path]; ok {
		if p == nil {
			return nil, fmt.Errorf("import cycle through %s", path)
		}
		return p, nil
	}
	l.pkgs[path] = nil
	dir := filepath.Join(l.repo, strings.TrimPrefix(strings.TrimPrefix(path, fpMod), "/"))
	bp, err := build.Default.ImportDir(dir, 0)
	if err != nil {
		return nil, fmt.Errorf("%s: %v", path, err)
	}
	p := &fpPkg{path: path, dir: dir}
	for _, name := range bp.GoFiles {
		f, err := parser.ParseFile(l.fset, filepath.Join(dir, name), nil, parser.SkipObjectResolution)
		if err != nil {
			return nil, err
		}
		p.files = append(p.files, f)
	}
	p.info = &types.Info{Defs: map[*ast.Ident]types.Object{}, Uses: map[*ast.Ident]types.Object{},
		Selections: map[*ast.SelectorExpr]*types.Selection{}, Types: map[ast.Expr]types.TypeAndValue{}}
	conf := types.Config{Importer: l, Error: func(err error) { l.errs = append(l.errs, err.Error()) }}
	p.tpkg, _ = conf.Check(path, l.fset, p.files, p.info)
	if p.tpkg == nil {
		return nil, fmt.Errorf("%s: type check produced no package", path)
	}
	l.pkgs[path] = p
	return p, nil
}

type fpAccess struct {
	pkg, fn       string
	class, la, lb string // location: class + two names
	kind          string // R W Get Put Do
	guard, gid    string // GNone GInit GOnce GMutex GFresh GResetBeforePut GResetAfterGet
	file          string
	line          int
	pos           token.Pos
	note          string
}

type fpGuard struct{ kind, id string }

type fpRange struct {
	from, to token.Pos
	id       string
}

type fpWalker struct {
	l        *fpLoader
	p        *fpPkg
	fn       string
	recv     types.Object
	params   map[types.Object]bool // pointer-typed parameters that are not the receiver (FuncLit parameters included)
	guards   []fpGuard
	unknown  []string // expressions X for which `X.Name == "unknown"` holds here
	fresh    map[types.Object]bool
	mutex    []fpRange
	body     *ast.BlockStmt
	out      *[]fpAccess
	errs     *[]string
	recvW    map[types.Object]bool         // method object -> writes through its receiver
	paramW   map[types.Object]map[int]bool // function object -> parameter index written through
	skipRoot map[*ast.Ident]bool
}

func fpShortPkg(path string) string {
	return strings.TrimPrefix(strings.TrimPrefix(path, fpMod), "/")
}

func (w *fpWalker) errorf(pos token.Pos, format string, a ...any) {
	p := w.l.fset.Position(pos)
	*w.errs = append(*w.errs, fmt.Sprintf("%s:%d: %s", fpShortRel(w.l.repo, p.Filename), p.Line, fmt.Sprintf(format, a...)))
}

func fpShortRel(repo, file string) string {
	if r, err := filepath.Rel(repo, file); err == nil {
		return r
	}
	return file
}

func (w *fpWalker) ctxGuard(pos token.Pos) (string, string) {
	for i := len(w.guards) - 1; i >= 0; i-- {
		return w.guards[i].kind, w.guards[i].id
	}
	for _, r := range w.mutex {
		if pos >= r.from && pos < r.to {
			return "GMutex", r.id
		}
	}
	return "GNone", ""
}

func (w *fpWalker) add(pos token.Pos, class, la, lb, kind, guard, gid, note string) {
	p := w.l.fset.Position(pos)
	*w.out = append(*w.out, fpAccess{pkg: fpShortPkg(w.p.path), fn: w.fn, class: class, la: la, lb: lb, kind: kind, guard: guard, gid: gid,
		file: fpShortRel(w.l.repo, p.Filename), line: p.Line, pos: pos, note: note})
}

// globalVar returns the package-level variable of a repository package that e denotes (ident or pkg.Name), if any.
func (w *fpWalker) globalVar(e ast.Expr) *types.Var {
	var id *ast.Ident
	switch x := e.(type) {
	case *ast.Ident:
		id = x
	case *ast.SelectorExpr:
		if pid, ok := x.X.(*ast.Ident); ok {
			if _, isPkg := w.p.info.Uses[pid].(*types.PkgName); isPkg {
				id = x.Sel
			}
		}
	}
	if id == nil {
		return nil
	}
	obj := w.p.info.Uses[id]
	if obj == nil {
		obj = w.p.info.Defs[id]
	}
	v, ok := obj.(*types.Var)
	if !ok || v.IsField() || v.Pkg() == nil || v.Parent() != v.Pkg().Scope() {
		return nil
	}
	if !strings.HasPrefix(v.Pkg().Path(), fpMod) {
		return nil // a variable of the standard library (os.Stderr, io.EOF...) is not library state
	}
	return v
}

func fpIsNamed(t types.Type, pkg, name string) bool {
	if p, ok := t.(*types.Pointer); ok {
		t = p.Elem()
	}
	n, ok := t.(*types.Named)
	return ok && n.Obj().Name() == name && n.Obj().Pkg() != nil && n.Obj().Pkg().Path() == pkg
}

// fieldBaseStep reports whether selector sel stores into / reads from a field of proto.FieldBase reached through a pointer.
func (w *fpWalker) fieldBaseStep(sel *ast.SelectorExpr) bool {
	s := w.p.info.Selections[sel]
	if s == nil || s.Kind() != types.FieldVal {
		return false
	}
	t := s.Recv()
	idx := s.Index()
	for k, i := range idx {
		viaPtr := false
		if p, ok := t.Underlying().(*types.Pointer); ok {
			t = p.Elem()
			viaPtr = true
		}
		st, ok := t.Underlying().(*types.Struct)
		if !ok {
			return false
		}
		if k == len(idx)-1 {
			return viaPtr && fpIsNamed(t, fpMod+"/proto", "FieldBase")
		}
		t = st.Field(i).Type()
	}
	return false
}

type fpRoot struct {
	global    *types.Var
	param     types.Object
	recv      bool
	local     types.Object
	deref     bool   // the chain goes below the root identifier (selector / index / star)
	field     string // first selector below the root
	fbField   string // field of a FieldBase written through a pointer ("" = none)
	fbBase    string // printed base expression of that selector
	unknown   bool
	rootIdent *ast.Ident
}

// root analyses an addressable expression (left-hand side or operand of &).
func (w *fpWalker) root(e ast.Expr) fpRoot {
	var r fpRoot
	var chain []string
	for {
		switch x := e.(type) {
		case *ast.ParenExpr:
			e = x.X
			continue
		case *ast.StarExpr:
			r.deref = true
			chain = append(chain, "*")
			e = x.X
			continue
		case *ast.IndexExpr:
			r.deref = true
			w.expr(x.Index)
			e = x.X
			continue
		case *ast.SliceExpr:
			r.deref = true
			for _, s := range []ast.Expr{x.Low, x.High, x.Max} {
				if s != nil {
					w.expr(s)
				}
			}
			e = x.X
			continue
		case *ast.SelectorExpr:
			if g := w.globalVar(x); g != nil {
				r.global = g
				r.rootIdent = x.Sel
				break
			}
			if w.fieldBaseStep(x) && r.fbField == "" {
				r.fbField = x.Sel.Name
				r.fbBase = types.ExprString(x.X)
			}
			r.deref = true
			chain = append(chain, x.Sel.Name)
			e = x.X
			continue
		case *ast.Ident:
			r.rootIdent = x
			if g := w.globalVar(x); g != nil {
				r.global = g
				break
			}
			obj := w.p.info.Uses[x]
			if obj == nil {
				obj = w.p.info.Defs[x]
			}
			switch {
			case obj != nil && obj == w.recv:
				r.recv = true
			case obj != nil && w.params[obj]:
				r.param = obj
			default:
				r.local = obj
			}
		case *ast.CallExpr, *ast.TypeAssertExpr, *ast.CompositeLit, *ast.UnaryExpr, *ast.BinaryExpr, *ast.BasicLit, *ast.FuncLit:
			// a value produced here (function result, literal): walked as an ordinary expression; not a shared root by itself
			w.expr(x)
			r.unknown = true
		default:
			w.errorf(e.Pos(), "left-hand side shape %T not understood", e)
			r.unknown = true
		}
		break
	}
	for i := len(chain) - 1; i >= 0; i-- {
		if chain[i] != "*" {
			r.field = chain[i]
			break
		}
	}
	return r
}

func fpOptionType(t types.Type) (string, bool) {
	p, ok := t.Underlying().(*types.Pointer)
	if !ok {
		return "", false
	}
	n, ok := p.Elem().(*types.Named)
	if !ok {
		return types.TypeString(p.Elem(), func(p *types.Package) string { return fpShortPkg(p.Path()) }), false
	}
	name := fpShortPkg(n.Obj().Pkg().Path())
	if i := strings.LastIndex(name, "/"); i >= 0 {
		name = name[i+1:]
	}
	full := name + "." + n.Obj().Name()
	return full, n.Obj().Exported() && strings.HasSuffix(n.Obj().Name(), "Options")
}

func fpGname(v *types.Var) (string, string) { return fpShortPkg(v.Pkg().Path()), v.Name() }

// write records a store to the location denoted by lhs.
func (w *fpWalker) write(lhs ast.Expr, how string) {
	if id, ok := lhs.(*ast.Ident); ok && id.Name == "_" {
		return
	}
	r := w.root(lhs)
	if r.rootIdent != nil {
		w.skipRoot[r.rootIdent] = true
	}
	guard, gid := w.ctxGuard(lhs.Pos())
	if r.fbField != "" {
		g, id := guard, gid
		fresh := false
		for _, u := range w.unknown {
			if u == r.fbBase {
				fresh = true
			}
		}
		if r.local != nil && w.fresh[r.local] {
			fresh = true
		}
		if fresh {
			g, id = "GFresh", ""
		}
		w.add(lhs.Pos(), "LFieldBase", r.fbField, "", "W", g, id, how+" "+types.ExprString(lhs))
	}
	switch {
	case r.global != nil:
		a, b := fpGname(r.global)
		w.add(lhs.Pos(), "LGlobal", a, b, "W", guard, gid, how+" "+types.ExprString(lhs))
	case r.param != nil && r.deref:
		tn, isOpt := fpOptionType(r.param.Type())
		class := "LOwned"
		if isOpt {
			class = "LOption"
		}
		w.add(lhs.Pos(), class, tn, r.field, "W", guard, gid, how+" "+types.ExprString(lhs))
	}
}

// escape: a function that returns a package-level variable by reference (the pointer held in it, or its address) whose pointee
// has exported fields hands every caller a writable alias of library state: what the caller takes for its own value is
// shared with every other caller.  Recorded as an unguarded store to the variable in that function.
func (w *fpWalker) escape(e ast.Expr) {
	e = fpStripParen(e)
	addr := false
	if u, ok := e.(*ast.UnaryExpr); ok && u.Op == token.AND {
		addr = true
		e = fpStripParen(u.X)
	}
	v := w.globalVar(e)
	if v == nil {
		return
	}
	t := v.Type()
	if !addr {
		switch u := t.Underlying().(type) {
		case *types.Map, *types.Slice:
			// a map or slice held in a package-level variable, returned as it is: every caller gets the same backing store
			guard, gid := w.ctxGuard(e.Pos())
			a, b := fpGname(v)
			w.add(e.Pos(), "LGlobal", a, b, "W", guard, gid, "returned by reference (shared map/slice handed to the caller) "+types.ExprString(e))
			return
		case *types.Pointer:
			t = u.Elem()
		default:
			return
		}
	}
	st, ok := t.Underlying().(*types.Struct)
	if !ok {
		return
	}
	exported := false
	for i := 0; i < st.NumFields(); i++ {
		if st.Field(i).Exported() {
			exported = true
		}
	}
	if !exported {
		return
	}
	guard, gid := w.ctxGuard(e.Pos())
	a, b := fpGname(v)
	w.add(e.Pos(), "LGlobal", a, b, "W", guard, gid, "returned by reference (writable alias handed to the caller) "+types.ExprString(e))
}

func (w *fpWalker) stmts(list []ast.Stmt) {
	for _, s := range list {
		w.stmt(s)
	}
}

func (w *fpWalker) isUnknownNameTest(e ast.Expr) (string, bool) {
	b, ok := e.(*ast.BinaryExpr)
	if !ok || b.Op != token.EQL {
		return "", false
	}
	for _, pair := range [][2]ast.Expr{{b.X, b.Y}, {b.Y, b.X}} {
		sel, ok := pair[0].(*ast.SelectorExpr)
		if !ok || sel.Sel.Name != "Name" {
			continue
		}
		tv, ok := w.p.info.Types[pair[1]]
		if ok && tv.Value != nil && tv.Value.Kind() == constant.String && constant.StringVal(tv.Value) == "unknown" {
			return types.ExprString(sel.X), true
		}
	}
	return "", false
}

func (w *fpWalker) condUnknown(e ast.Expr) []string {
	switch x := e.(type) {
	case *ast.ParenExpr:
		return w.condUnknown(x.X)
	case *ast.BinaryExpr:
		if x.Op == token.LAND {
			return append(w.condUnknown(x.X), w.condUnknown(x.Y)...)
		}
		if s, ok := w.isUnknownNameTest(x); ok {
			return []string{s}
		}
	}
	return nil
}

func (w *fpWalker) freshValue(e ast.Expr) bool {
	switch x := e.(type) {
	case *ast.ParenExpr:
		return w.freshValue(x.X)
	case *ast.UnaryExpr:
		if x.Op == token.AND {
			if cl, ok := x.X.(*ast.CompositeLit); ok {
				return fpIsNamed(w.p.info.TypeOf(cl), fpMod+"/proto", "FieldBase")
			}
		}
	case *ast.CompositeLit:
		if fpIsNamed(w.p.info.TypeOf(x), fpMod+"/proto", "Field") {
			for _, el := range x.Elts {
				if kv, ok := el.(*ast.KeyValueExpr); ok {
					if k, ok := kv.Key.(*ast.Ident); ok && k.Name == "FieldBase" {
						return w.freshValue(kv.Value)
					}
				}
			}
		}
	case *ast.CallExpr:
		if id, ok := x.Fun.(*ast.Ident); ok {
			if id.Name == "new" && len(x.Args) == 1 {
				return fpIsNamed(w.p.info.TypeOf(x.Args[0]), fpMod+"/proto", "FieldBase")
			}
			return id.Name == "createUnknownField"
		}
	}
	return false
}

func (w *fpWalker) noteFresh(lhs []ast.Expr, rhs []ast.Expr) {
	if len(lhs) != len(rhs) {
		return
	}
	for i := range lhs {
		id, ok := lhs[i].(*ast.Ident)
		if !ok {
			continue
		}
		obj := w.p.info.Defs[id]
		if obj == nil {
			obj = w.p.info.Uses[id]
		}
		if obj != nil {
			w.fresh[obj] = w.freshValue(rhs[i])
		}
	}
}

func (w *fpWalker) stmt(s ast.Stmt) {
	switch x := s.(type) {
	case nil:
	case *ast.BlockStmt:
		w.stmts(x.List)
	case *ast.ExprStmt:
		w.expr(x.X)
	case *ast.AssignStmt:
		for _, r := range x.Rhs {
			w.expr(r)
		}
		w.noteFresh(x.Lhs, x.Rhs)
		if x.Tok == token.DEFINE {
			for _, l := range x.Lhs {
				if _, ok := l.(*ast.Ident); !ok {
					w.errorf(l.Pos(), "non-identifier on the left of :=")
				}
			}
			return
		}
		how := "assign"
		if x.Tok != token.ASSIGN {
			how = "op-assign"
		} else if len(x.Rhs) == 1 {
			if c, ok := x.Rhs[0].(*ast.CallExpr); ok {
				if id, ok := c.Fun.(*ast.Ident); ok && id.Name == "append" {
					how = "append-assign"
				}
			}
		}
		for _, l := range x.Lhs {
			w.write(l, how)
		}
	case *ast.IncDecStmt:
		w.write(x.X, "inc/dec")
	case *ast.DeclStmt:
		gd := x.Decl.(*ast.GenDecl)
		for _, sp := range gd.Specs {
			if vs, ok := sp.(*ast.ValueSpec); ok {
				for _, v := range vs.Values {
					w.expr(v)
				}
				if len(vs.Names) == len(vs.Values) {
					lhs := make([]ast.Expr, len(vs.Names))
					for i := range vs.Names {
						lhs[i] = vs.Names[i]
					}
					w.noteFresh(lhs, vs.Values)
				}
			}
		}
	case *ast.IfStmt:
		w.stmt(x.Init)
		w.expr(x.Cond)
		u := w.condUnknown(x.Cond)
		w.unknown = append(w.unknown, u...)
		w.stmt(x.Body)
		w.unknown = w.unknown[:len(w.unknown)-len(u)]
		w.stmt(x.Else)
	case *ast.ForStmt:
		w.stmt(x.Init)
		if x.Cond != nil {
			w.expr(x.Cond)
		}
		w.stmt(x.Post)
		w.stmt(x.Body)
	case *ast.RangeStmt:
		w.expr(x.X)
		if x.Tok == token.ASSIGN {
			if x.Key != nil {
				w.write(x.Key, "range-assign")
			}
			if x.Value != nil {
				w.write(x.Value, "range-assign")
			}
		}
		w.stmt(x.Body)
	case *ast.SwitchStmt:
		w.stmt(x.Init)
		if x.Tag != nil {
			w.expr(x.Tag)
		}
		w.stmt(x.Body)
	case *ast.TypeSwitchStmt:
		w.stmt(x.Init)
		w.stmt(x.Assign)
		w.stmt(x.Body)
	case *ast.CaseClause:
		for _, e := range x.List {
			if tv, ok := w.p.info.Types[e]; ok && tv.IsType() {
				continue
			}
			w.expr(e)
		}
		w.stmts(x.Body)
	case *ast.SelectStmt:
		w.stmt(x.Body)
	case *ast.CommClause:
		w.stmt(x.Comm)
		w.stmts(x.Body)
	case *ast.SendStmt:
		w.expr(x.Chan)
		w.expr(x.Value)
	case *ast.ReturnStmt:
		for _, r := range x.Results {
			w.expr(r)
			w.escape(r)
		}
	case *ast.DeferStmt:
		w.expr(x.Call)
	case *ast.GoStmt:
		w.expr(x.Call)
	case *ast.LabeledStmt:
		w.stmt(x.Stmt)
	case *ast.BranchStmt, *ast.EmptyStmt:
	default:
		w.errorf(s.Pos(), "statement %T not understood", s)
	}
}

// resetKind looks for a reset of the pooled variable v before the Put (same block) or right after its Get.
func (w *fpWalker) resetKind(call *ast.CallExpr, v *ast.Ident) string {
	obj := w.p.info.Uses[v]
	isV := func(e ast.Expr) bool {
		for {
			switch x := e.(type) {
			case *ast.ParenExpr:
				e = x.X
				continue
			case *ast.StarExpr:
				e = x.X
				continue
			case *ast.SliceExpr:
				e = x.X
				continue
			case *ast.Ident:
				return w.p.info.Uses[x] == obj && obj != nil
			}
			return false
		}
	}
	resets := func(s ast.Stmt) bool {
		switch x := s.(type) {
		case *ast.AssignStmt: // *v = T{}
			if x.Tok == token.ASSIGN && len(x.Lhs) == 1 && len(x.Rhs) == 1 {
				if st, ok := x.Lhs[0].(*ast.StarExpr); ok && isV(st.X) {
					if cl, ok := x.Rhs[0].(*ast.CompositeLit); ok && len(cl.Elts) == 0 {
						return true
					}
				}
			}
		case *ast.ExprStmt:
			if c, ok := x.X.(*ast.CallExpr); ok {
				if id, ok := c.Fun.(*ast.Ident); ok && id.Name == "clear" && len(c.Args) == 1 && isV(c.Args[0]) {
					return true
				}
				if sel, ok := c.Fun.(*ast.SelectorExpr); ok && isV(sel.X) && (sel.Sel.Name == "Reset" || sel.Sel.Name == "reset") {
					return true
				}
			}
		}
		return false
	}
	var kind string
	var getSeen bool
	var visit func(list []ast.Stmt) bool // returns true when the Put statement was found in this list (or below)
	visit = func(list []ast.Stmt) bool {
		resetHere := false
		for _, s := range list {
			isDefer := false
			contains := false
			ast.Inspect(s, func(n ast.Node) bool {
				if n == ast.Node(call) {
					contains = true
				}
				return !contains
			})
			if d, ok := s.(*ast.DeferStmt); ok && d.Call == call {
				isDefer = true
			}
			if as, ok := s.(*ast.AssignStmt); ok && len(as.Lhs) == 1 && fpIdentOf(as.Lhs[0]) != nil && isV(as.Lhs[0]) {
				getSeen = true
				resetHere = false
				continue
			}
			if contains && isDefer {
				// deferred Put: the object must be re-initialised after the Get, before use
				for _, t := range list {
					if t.Pos() > s.Pos() && resets(t) {
						kind = "GResetAfterGet"
					}
				}
				return true
			}
			if contains {
				if es, ok := s.(*ast.ExprStmt); ok && es.X == ast.Expr(call) {
					if resetHere {
						kind = "GResetBeforePut"
					}
					return true
				}
				// nested
				found := false
				ast.Inspect(s, func(n ast.Node) bool {
					if b, ok := n.(*ast.BlockStmt); ok && !found {
						if visit(b.List) {
							found = true
						}
						return false
					}
					if cc, ok := n.(*ast.CaseClause); ok && !found {
						if visit(cc.Body) {
							found = true
						}
						return false
					}
					return !found
				})
				return found
			}
			if resets(s) {
				resetHere = true
			} else if resetHere {
				// any use of v between the reset and the Put invalidates the reset
				used := false
				ast.Inspect(s, func(n ast.Node) bool {
					if id, ok := n.(*ast.Ident); ok && w.p.info.Uses[id] == obj && obj != nil {
						used = true
					}
					return !used
				})
				if used {
					resetHere = false
				}
			}
		}
		return false
	}
	if w.body != nil {
		visit(w.body.List)
	}
	_ = getSeen
	if kind == "" {
		return "GNone"
	}
	return kind
}

func (w *fpWalker) syncKind(t types.Type) string {
	if p, ok := t.(*types.Pointer); ok {
		t = p.Elem()
	}
	n, ok := t.(*types.Named)
	if !ok || n.Obj().Pkg() == nil || n.Obj().Pkg().Path() != "sync" {
		return ""
	}
	return n.Obj().Name()
}

func (w *fpWalker) call(c *ast.CallExpr) {
	// builtins with a destination operand
	if id, ok := c.Fun.(*ast.Ident); ok {
		if _, isB := w.p.info.Uses[id].(*types.Builtin); isB {
			switch id.Name {
			case "copy", "clear":
				if len(c.Args) > 0 {
					w.dest(c.Args[0], id.Name)
					for _, a := range c.Args[1:] {
						w.expr(a)
					}
					return
				}
			case "append":
				// append(x, ...) may store into the spare capacity of x
				if len(c.Args) > 0 {
					if r := w.rootQuiet(c.Args[0]); r.global != nil {
						g, id := w.ctxGuard(c.Pos())
						a, b := fpGname(r.global)
						w.add(c.Pos(), "LGlobal", a, b, "W", g, id, "append into "+types.ExprString(c.Args[0]))
					}
				}
			case "new", "make", "len", "cap", "delete", "panic", "print", "println", "min", "max", "close", "recover", "complex", "real", "imag":
				if id.Name == "delete" && len(c.Args) > 0 {
					w.dest(c.Args[0], "delete")
				}
			}
			for _, a := range c.Args {
				if tv, ok := w.p.info.Types[a]; ok && tv.IsType() {
					continue
				}
				w.expr(a)
			}
			return
		}
	}
	if sel, ok := c.Fun.(*ast.SelectorExpr); ok && w.globalVar(sel) == nil {
		recvT := w.p.info.TypeOf(sel.X)
		if _, isPkg := w.p.info.Uses[fpIdentOf(sel.X)].(*types.PkgName); !isPkg && recvT != nil {
			r := w.rootQuiet(sel.X)
			sk := w.syncKind(recvT)
			if sk != "" && r.global == nil && r.recv == false && r.local == nil && r.param == nil && !r.unknown {
				w.errorf(c.Pos(), "sync.%s receiver %s not understood", sk, types.ExprString(sel.X))
			}
			switch {
			case sk == "Pool" && (sel.Sel.Name == "Get" || sel.Sel.Name == "Put"):
				la, lb := "field", types.ExprString(sel.X)
				if r.global != nil {
					la, lb = fpGname(r.global)
					w.skipRoot[r.rootIdent] = true
				}
				if sel.Sel.Name == "Get" {
					w.add(c.Pos(), "LPool", la, lb, "Get", "GNone", "", "")
				} else {
					kind, what := "GNone", "?"
					if len(c.Args) == 1 {
						what = types.TypeString(w.p.info.TypeOf(c.Args[0]), func(p *types.Package) string { return p.Name() })
						if id, ok := c.Args[0].(*ast.Ident); ok {
							kind = w.resetKind(c, id)
						}
						w.expr(c.Args[0])
					}
					w.add(c.Pos(), "LPool", la, lb, "Put", kind, "", "puts "+what)
				}
				return
			case sk == "Once" && sel.Sel.Name == "Do" && r.global != nil:
				a, b := fpGname(r.global)
				w.skipRoot[r.rootIdent] = true
				top := false
				if w.body != nil {
					for _, s := range w.body.List {
						if es, ok := s.(*ast.ExprStmt); ok && es.X == ast.Expr(c) {
							top = true
						}
					}
				}
				if !top {
					w.errorf(c.Pos(), "package-level sync.Once %s.%s is not called as an unconditional top-level statement", a, b)
				}
				w.add(c.Pos(), "LGlobal", a, b, "Do", "GNone", "", "")
				w.guards = append(w.guards, fpGuard{"GOnce", a + "." + b})
				for _, arg := range c.Args {
					w.expr(arg)
				}
				w.guards = w.guards[:len(w.guards)-1]
				return
			case (sk == "Mutex" || sk == "RWMutex") && r.global != nil:
				w.skipRoot[r.rootIdent] = true
				return // ranges were collected beforehand
			case r.global != nil:
				// method call on (something reachable from) a package-level variable
				if s := w.p.info.Selections[sel]; s != nil && s.Kind() == types.MethodVal {
					m := s.Obj()
					sig := m.Type().(*types.Signature)
					ptrRecv := false
					if sig.Recv() != nil {
						_, ptrRecv = sig.Recv().Type().(*types.Pointer)
					}
					if ptrRecv {
						a, b := fpGname(r.global)
						if m.Pkg() == nil || !strings.HasPrefix(m.Pkg().Path(), fpMod) {
							w.errorf(c.Pos(), "pointer-receiver method %s of a foreign type called on package-level variable %s.%s", m.Name(), a, b)
						} else if w.recvW[m] {
							g, id := w.ctxGuard(c.Pos())
							w.add(c.Pos(), "LGlobal", a, b, "W", g, id, "method "+m.Name()+" writes through its receiver")
							w.skipRoot[r.rootIdent] = true
						}
					}
				}
			}
		}
	}
	// arguments: a package-level variable handed to a function that writes through that parameter
	var callee types.Object
	switch f := c.Fun.(type) {
	case *ast.Ident:
		callee = w.p.info.Uses[f]
	case *ast.SelectorExpr:
		callee = w.p.info.Uses[f.Sel]
	}
	if tv, ok := w.p.info.Types[c.Fun]; ok && tv.IsType() {
		for _, a := range c.Args {
			w.expr(a)
		}
		return
	}
	w.expr(c.Fun)
	for i, a := range c.Args {
		if callee != nil && w.paramW[callee][i] {
			if r := w.rootQuiet(a); r.global != nil {
				g, id := w.ctxGuard(a.Pos())
				x, y := fpGname(r.global)
				w.add(a.Pos(), "LGlobal", x, y, "W", g, id, "passed to "+callee.Name()+" which writes through parameter "+fmt.Sprint(i))
			}
		}
		w.expr(a)
	}
}

func fpIdentOf(e ast.Expr) *ast.Ident {
	id, _ := e.(*ast.Ident)
	return id
}

// rootQuiet analyses without recording reads of index expressions twice.
func (w *fpWalker) rootQuiet(e ast.Expr) fpRoot {
	save := *w.out
	n := len(save)
	r := w.root(fpStripAddr(e))
	*w.out = (*w.out)[:n]
	return r
}

func fpStripAddr(e ast.Expr) ast.Expr {
	for {
		switch x := e.(type) {
		case *ast.ParenExpr:
			e = x.X
			continue
		case *ast.UnaryExpr:
			if x.Op == token.AND {
				e = x.X
				continue
			}
		}
		return e
	}
}

// dest: operand that a builtin stores into (copy destination, clear, delete)
func (w *fpWalker) dest(e ast.Expr, how string) {
	switch fpStripAddr(e).(type) {
	case *ast.Ident, *ast.SelectorExpr, *ast.IndexExpr, *ast.SliceExpr, *ast.StarExpr:
		r := w.rootQuiet(e)
		guard, gid := w.ctxGuard(e.Pos())
		if r.fbField != "" {
			w.add(e.Pos(), "LFieldBase", r.fbField, "", "W", guard, gid, how+" "+types.ExprString(e))
		}
		switch {
		case r.global != nil:
			a, b := fpGname(r.global)
			w.add(e.Pos(), "LGlobal", a, b, "W", guard, gid, how+" "+types.ExprString(e))
			w.skipRoot[r.rootIdent] = true
		case r.param != nil && (r.deref || how != ""):
			tn, isOpt := fpOptionType(r.param.Type())
			if _, isPtr := r.param.Type().Underlying().(*types.Pointer); isPtr {
				class := "LOwned"
				if isOpt {
					class = "LOption"
				}
				w.add(e.Pos(), class, tn, r.field, "W", guard, gid, how+" "+types.ExprString(e))
			}
		}
	}
	w.expr(e)
}

func (w *fpWalker) expr(e ast.Expr) {
	switch x := e.(type) {
	case nil:
	case *ast.Ident:
		if w.skipRoot[x] {
			return
		}
		if g := w.globalVar(x); g != nil {
			guard, gid := w.ctxGuard(x.Pos())
			a, b := fpGname(g)
			w.add(x.Pos(), "LGlobal", a, b, "R", guard, gid, "")
		}
	case *ast.BasicLit:
	case *ast.ParenExpr:
		w.expr(x.X)
	case *ast.SelectorExpr:
		if g := w.globalVar(x); g != nil {
			if !w.skipRoot[x.Sel] {
				guard, gid := w.ctxGuard(x.Pos())
				a, b := fpGname(g)
				w.add(x.Pos(), "LGlobal", a, b, "R", guard, gid, "")
			}
			return
		}
		if id, ok := x.X.(*ast.Ident); ok {
			if obj := w.p.info.Uses[id]; obj != nil && w.params[obj] {
				if tn, isOpt := fpOptionType(obj.Type()); isOpt {
					guard, gid := w.ctxGuard(x.Pos())
					w.add(x.Pos(), "LOption", tn, x.Sel.Name, "R", guard, gid, "")
				}
			}
		}
		w.expr(x.X)
	case *ast.IndexExpr:
		w.expr(x.X)
		w.expr(x.Index)
	case *ast.IndexListExpr:
		w.expr(x.X)
	case *ast.SliceExpr:
		// slicing a package-level array or slice creates an alias of its storage (the scratch-buffer idiom `buf := g[:0]`)
		if r := w.rootQuiet(x.X); r.global != nil {
			_, isArr := w.p.info.TypeOf(x.X).Underlying().(*types.Array)
			_, isSlice := w.p.info.TypeOf(x.X).Underlying().(*types.Slice)
			if isArr || isSlice {
				guard, gid := w.ctxGuard(x.Pos())
				a, b := fpGname(r.global)
				w.add(x.Pos(), "LGlobal", a, b, "W", guard, gid, "alias by slicing "+types.ExprString(x))
			}
		}
		w.expr(x.X)
		w.expr(x.Low)
		w.expr(x.High)
		w.expr(x.Max)
	case *ast.StarExpr:
		w.expr(x.X)
	case *ast.UnaryExpr:
		if x.Op == token.AND {
			if _, isLit := fpStripParen(x.X).(*ast.CompositeLit); !isLit {
				r := w.rootQuiet(x.X)
				guard, gid := w.ctxGuard(x.Pos())
				switch {
				case r.global != nil:
					a, b := fpGname(r.global)
					w.add(x.Pos(), "LGlobal", a, b, "W", guard, gid, "address taken "+types.ExprString(x))
				case r.param != nil && r.deref:
					if tn, isOpt := fpOptionType(r.param.Type()); isOpt {
						w.add(x.Pos(), "LOption", tn, r.field, "W", guard, gid, "address taken "+types.ExprString(x))
					}
				}
			}
		}
		w.expr(x.X)
	case *ast.BinaryExpr:
		w.expr(x.X)
		w.expr(x.Y)
	case *ast.KeyValueExpr:
		// struct field keys are not expressions
		if _, ok := x.Key.(*ast.Ident); !ok {
			w.expr(x.Key)
		} else if tv, ok := w.p.info.Types[x.Key]; ok && (tv.IsValue() || tv.Value != nil) {
			w.expr(x.Key)
		}
		w.expr(x.Value)
	case *ast.CompositeLit:
		for _, el := range x.Elts {
			w.expr(el)
		}
	case *ast.CallExpr:
		w.call(x)
	case *ast.TypeAssertExpr:
		w.expr(x.X)
	case *ast.FuncLit:
		w.funcLit(x)
	case *ast.ArrayType, *ast.MapType, *ast.ChanType, *ast.FuncType, *ast.InterfaceType, *ast.StructType, *ast.Ellipsis:
	default:
		w.errorf(e.Pos(), "expression %T not understood", e)
	}
}

func fpStripParen(e ast.Expr) ast.Expr {
	for {
		p, ok := e.(*ast.ParenExpr)
		if !ok {
			return e
		}
		e = p.X
	}
}

func (w *fpWalker) addParams(ft *ast.FuncType) {
	if ft.Params == nil {
		return
	}
	for _, f := range ft.Params.List {
		for _, n := range f.Names {
			obj := w.p.info.Defs[n]
			if obj == nil {
				continue
			}
			if _, ok := obj.Type().Underlying().(*types.Pointer); ok {
				w.params[obj] = true
			}
		}
	}
}

func (w *fpWalker) funcLit(f *ast.FuncLit) {
	w.addParams(f.Type)
	saveBody := w.body
	saveMutex := w.mutex
	w.body = f.Body
	w.mutex = append([]fpRange{}, w.mutex...)
	w.collectMutex(f.Body)
	w.stmt(f.Body)
	w.body = saveBody
	w.mutex = saveMutex
}

// collectMutex finds `G.Lock()` ... `G.Unlock()` / `defer G.Unlock()` on package-level mutexes in one block list.
func (w *fpWalker) collectMutex(b *ast.BlockStmt) {
	if b == nil {
		return
	}
	var scan func(list []ast.Stmt, end token.Pos)
	lockCall := func(s ast.Stmt) (string, string, bool) {
		var c *ast.CallExpr
		deferred := false
		switch x := s.(type) {
		case *ast.ExprStmt:
			c, _ = x.X.(*ast.CallExpr)
		case *ast.DeferStmt:
			c, deferred = x.Call, true
		}
		if c == nil {
			return "", "", false
		}
		sel, ok := c.Fun.(*ast.SelectorExpr)
		if !ok {
			return "", "", false
		}
		t := w.p.info.TypeOf(sel.X)
		if t == nil {
			return "", "", false
		}
		sk := w.syncKind(t)
		if sk != "Mutex" && sk != "RWMutex" {
			return "", "", false
		}
		g := w.globalVar(fpStripParen(sel.X))
		if g == nil {
			return "", "", false
		}
		a, bn := fpGname(g)
		name := sel.Sel.Name
		if deferred {
			name = "defer " + name
		}
		return a + "." + bn, name, true
	}
	scan = func(list []ast.Stmt, end token.Pos) {
		for i, s := range list {
			id, op, ok := lockCall(s)
			if ok && (op == "Lock" || op == "RLock") {
				to := end
				for _, t := range list[i+1:] {
					id2, op2, ok2 := lockCall(t)
					if ok2 && id2 == id && (op2 == "Unlock" || op2 == "RUnlock") {
						to = t.Pos()
						break
					}
				}
				w.mutex = append(w.mutex, fpRange{s.End(), to, id})
			}
			ast.Inspect(s, func(n ast.Node) bool {
				if _, isLit := n.(*ast.FuncLit); isLit {
					return false
				}
				if bb, ok := n.(*ast.BlockStmt); ok {
					scan(bb.List, bb.End())
					return false
				}
				return true
			})
		}
	}
	scan(b.List, b.End())
}

func fpFuncName(fd *ast.FuncDecl) string {
	if fd.Recv == nil || len(fd.Recv.List) == 0 {
		return fd.Name.Name
	}
	t := fd.Recv.List[0].Type
	star := ""
	if s, ok := t.(*ast.StarExpr); ok {
		star = "*"
		t = s.X
	}
	if ix, ok := t.(*ast.IndexExpr); ok {
		t = ix.X
	}
	name := "?"
	if id, ok := t.(*ast.Ident); ok {
		name = id.Name
	}
	return "(" + star + name + ")." + fd.Name.Name
}

func fpCoqStr(s string) string { return "\"" + strings.ReplaceAll(s, "\"", "\"\"") + "\"" }

func translateFootprint(repo string) (map[string]string, error) {
	l := &fpLoader{repo: repo, fset: token.NewFileSet(), pkgs: map[string]*fpPkg{}}
	build.Default.Dir = repo
	std, ok := importer.ForCompiler(l.fset, "source", nil).(types.ImporterFrom)
	if !ok {
		return nil, fmt.Errorf("source importer unavailable")
	}
	l.std = std
	var pkgs []*fpPkg
	for _, rel := range fpScope {
		if _, err := os.Stat(filepath.Join(repo, rel)); err != nil {
			return nil, fmt.Errorf("package directory %s missing", rel)
		}
		p, err := l.load(fpMod + "/" + rel)
		if err != nil {
			return nil, err
		}
		pkgs = append(pkgs, p)
	}
	if len(l.errs) > 0 {
		return nil, fmt.Errorf("type errors: %s", strings.Join(l.errs[:min(len(l.errs), 3)], "; "))
	}

	// summaries: which methods write through their receiver, which functions write through a pointer parameter
	recvW := map[types.Object]bool{}
	paramW := map[types.Object]map[int]bool{}
	type fdecl struct {
		p  *fpPkg
		fd *ast.FuncDecl
	}
	var decls []fdecl
	for _, p := range pkgs {
		for _, f := range p.files {
			for _, d := range f.Decls {
				if fd, ok := d.(*ast.FuncDecl); ok && fd.Body != nil {
					decls = append(decls, fdecl{p, fd})
				}
			}
		}
	}
	var errs []string
	rootOf := func(p *fpPkg, e ast.Expr) (*ast.Ident, bool) {
		deref := false
		for {
			switch x := e.(type) {
			case *ast.ParenExpr:
				e = x.X
			case *ast.StarExpr:
				e, deref = x.X, true
			case *ast.IndexExpr:
				e, deref = x.X, true
			case *ast.SliceExpr:
				e, deref = x.X, true
			case *ast.SelectorExpr:
				e, deref = x.X, true
			case *ast.Ident:
				return x, deref
			default:
				return nil, false
			}
		}
	}
	for changed := true; changed; {
		changed = false
		for _, d := range decls {
			fobj := d.p.info.Defs[d.fd.Name]
			var recvObj types.Object
			if d.fd.Recv != nil && len(d.fd.Recv.List) == 1 && len(d.fd.Recv.List[0].Names) == 1 {
				recvObj = d.p.info.Defs[d.fd.Recv.List[0].Names[0]]
				if recvObj != nil {
					if _, isPtr := recvObj.Type().Underlying().(*types.Pointer); !isPtr {
						recvObj = nil
					}
				}
			}
			pidx := map[types.Object]int{}
			if d.fd.Type.Params != nil {
				i := 0
				for _, f := range d.fd.Type.Params.List {
					if len(f.Names) == 0 {
						i++
					}
					for _, n := range f.Names {
						if o := d.p.info.Defs[n]; o != nil {
							if _, isPtr := o.Type().Underlying().(*types.Pointer); isPtr {
								pidx[o] = i
							}
						}
						i++
					}
				}
			}
			mark := func(lhs ast.Expr) {
				id, deref := rootOf(d.p, lhs)
				if id == nil || !deref {
					return
				}
				o := d.p.info.Uses[id]
				if o == nil {
					return
				}
				if o == recvObj && !recvW[fobj] {
					recvW[fobj] = true
					changed = true
				}
				if i, ok := pidx[o]; ok {
					if paramW[fobj] == nil {
						paramW[fobj] = map[int]bool{}
					}
					if !paramW[fobj][i] {
						paramW[fobj][i] = true
						changed = true
					}
				}
			}
			ast.Inspect(d.fd.Body, func(n ast.Node) bool {
				switch x := n.(type) {
				case *ast.AssignStmt:
					if x.Tok != token.DEFINE {
						for _, lhs := range x.Lhs {
							mark(lhs)
						}
					}
				case *ast.IncDecStmt:
					mark(x.X)
				case *ast.CallExpr:
					// r.m() where m writes through its receiver; f(p) where f writes through that parameter
					if sel, ok := x.Fun.(*ast.SelectorExpr); ok {
						if s := d.p.info.Selections[sel]; s != nil && s.Kind() == types.MethodVal && recvW[s.Obj()] {
							if id, _ := rootOf(d.p, sel.X); id != nil {
								o := d.p.info.Uses[id]
								if o != nil && o == recvObj && !recvW[fobj] {
									recvW[fobj] = true
									changed = true
								}
								if i, ok := pidx[o]; ok {
									if paramW[fobj] == nil {
										paramW[fobj] = map[int]bool{}
									}
									if !paramW[fobj][i] {
										paramW[fobj][i] = true
										changed = true
									}
								}
							}
						}
					}
				}
				return true
			})
		}
	}

	var accs []fpAccess
	type gvar struct {
		pkg, name, typ, file string
		line                 int
	}
	var globals []gvar
	nfuncs := 0
	for _, p := range pkgs {
		for _, f := range p.files {
			for _, d := range f.Decls {
				switch x := d.(type) {
				case *ast.GenDecl:
					if x.Tok != token.VAR {
						continue
					}
					for _, sp := range x.Specs {
						vs := sp.(*ast.ValueSpec)
						for i, n := range vs.Names {
							if n.Name == "_" {
								continue
							}
							obj := p.info.Defs[n]
							pos := l.fset.Position(n.Pos())
							globals = append(globals, gvar{fpShortPkg(p.path), n.Name,
								types.TypeString(obj.Type(), func(p *types.Package) string { return p.Name() }), fpShortRel(repo, pos.Filename), pos.Line})
							w := &fpWalker{l: l, p: p, fn: "<package initialisation>", params: map[types.Object]bool{}, fresh: map[types.Object]bool{},
								out: &accs, errs: &errs, recvW: recvW, paramW: paramW, skipRoot: map[*ast.Ident]bool{}, guards: []fpGuard{{"GInit", ""}}}
							w.add(n.Pos(), "LGlobal", fpShortPkg(p.path), n.Name, "W", "GInit", "", "declaration")
							if i < len(vs.Values) {
								w.expr(vs.Values[i])
							} else if len(vs.Values) == 1 && i > 0 {
								// var a, b = f()
							}
						}
					}
				case *ast.FuncDecl:
					if x.Body == nil {
						continue
					}
					nfuncs++
					w := &fpWalker{l: l, p: p, fn: fpFuncName(x), params: map[types.Object]bool{}, fresh: map[types.Object]bool{},
						out: &accs, errs: &errs, recvW: recvW, paramW: paramW, skipRoot: map[*ast.Ident]bool{}, body: x.Body}
					if x.Recv != nil && len(x.Recv.List) == 1 && len(x.Recv.List[0].Names) == 1 {
						w.recv = p.info.Defs[x.Recv.List[0].Names[0]]
					}
					if x.Recv == nil && x.Name.Name == "init" {
						w.guards = []fpGuard{{"GInit", ""}}
					}
					w.addParams(x.Type)
					w.collectMutex(x.Body)
					w.stmt(x.Body)
				}
			}
		}
	}
	if len(errs) > 0 {
		sort.Strings(errs)
		return nil, fmt.Errorf("%d source shapes not understood, first: %s", len(errs), strings.Join(errs[:min(len(errs), 4)], " | "))
	}

	// order: package, file, position; duplicates (same function, location, kind, guard) keep the earliest
	sort.SliceStable(accs, func(i, j int) bool {
		if accs[i].pkg != accs[j].pkg {
			return accs[i].pkg < accs[j].pkg
		}
		if accs[i].file != accs[j].file {
			return accs[i].file < accs[j].file
		}
		return accs[i].pos < accs[j].pos
	})
	seen := map[string]bool{}
	var uniq []fpAccess
	for _, a := range accs {
		k := strings.Join([]string{a.pkg, a.file, a.fn, a.class, a.la, a.lb, a.kind, a.guard, a.gid}, "\x00")
		if seen[k] {
			continue
		}
		seen[k] = true
		uniq = append(uniq, a)
	}

	var sb strings.Builder
	sb.WriteString("(* GENERATED by fit2coq footprint from the sources under the repository -- do not edit.\n")
	sb.WriteString("   One record per (function, shared location, access kind, guard), in source order.\n")
	fmt.Fprintf(&sb, "   packages: %s\n   functions walked: %d, package-level variables: %d, access records: %d *)\n",
		strings.Join(fpScope, " "), nfuncs, len(globals), len(uniq))
	sb.WriteString("From Coq Require Import NArith List String.\nImport ListNotations.\nFrom Fit Require Import Model.FootprintTypes.\nOpen Scope string_scope.\nOpen Scope N_scope.\n\n")
	sb.WriteString("(* package-level variables: package, name, type, file, line *)\n")
	sb.WriteString("Definition globals : list (string * string * string * string * N) := [\n")
	for i, g := range globals {
		sep := ";"
		if i == len(globals)-1 {
			sep = ""
		}
		fmt.Fprintf(&sb, "  (%s, %s, %s, %s, %d)%s\n", fpCoqStr(g.pkg), fpCoqStr(g.name), fpCoqStr(g.typ), fpCoqStr(g.file), g.line, sep)
	}
	sb.WriteString("].\n\n")
	// split into chunks to keep each term small
	const chunk = 400
	var names []string
	for c := 0; c*chunk < len(uniq); c++ {
		name := fmt.Sprintf("accesses_%d", c)
		names = append(names, name)
		fmt.Fprintf(&sb, "Definition %s : list access := [\n", name)
		hi := min((c+1)*chunk, len(uniq))
		for i := c * chunk; i < hi; i++ {
			a := uniq[i]
			g := a.guard
			if a.guard == "GOnce" || a.guard == "GMutex" {
				gp, gn := a.gid, ""
				if i := strings.LastIndex(a.gid, "."); i >= 0 {
					gp, gn = a.gid[:i], a.gid[i+1:]
				}
				g = "(" + a.guard + " " + fpCoqStr(gp) + " " + fpCoqStr(gn) + ")"
			}
			sep := ";"
			if i == hi-1 {
				sep = ""
			}
			fmt.Fprintf(&sb, "  mkacc %s %s (%s %s %s) %s %s %s %d%s",
				fpCoqStr(a.pkg), fpCoqStr(a.fn), a.class, fpCoqStr(a.la), fpCoqStr(a.lb), "K"+a.kind, g, fpCoqStr(a.file), a.line, sep)
			if a.note != "" {
				fmt.Fprintf(&sb, " (* %s *)", strings.ReplaceAll(strings.ReplaceAll(a.note, "(*", "( *"), "*)", "* )"))
			}
			sb.WriteString("\n")
		}
		sb.WriteString("].\n\n")
	}
	if len(names) == 0 {
		sb.WriteString("Definition accesses : list access := [].\n")
	} else {
		fmt.Fprintf(&sb, "Definition accesses : list access := %s.\n", strings.Join(names, " ++ "))
	}
	fmt.Fprintf(&sb, "Definition n_functions : N := %d.\n", nfuncs)
	return map[string]string{"Footprint.v": sb.String()}, nil
}
