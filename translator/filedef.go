package main

// Part "filedef": profile/filedef/*.go (the file-type sources) -> coq/gen/FiledefSpec.v
//   per file type: struct fields (slot, kind, element message number), Add dispatch, the statement list
//   of ToFIT (emissions, sort calls, sortStartPos expression), shape of NewXxx;
//   SortMessagesByTimestamp: special timestamp field numbers and the comparator's result constants.
// Part "listener": profile/filedef/listener.go -> coq/gen/ListenerSpec.v (structural facts of the protocol).
// Every statement that is not one of the recognised shapes is an error (broken tie).

import (
	"fmt"
	"go/ast"
	"go/parser"
	"go/token"
	"os"
	"path/filepath"
	"sort"
	"strconv"
	"strings"
)

func init() {
	register("filedef", translateFiledef)
	register("listener", translateListener)
}

// ---------------------------------------------------------------- expression rendering (canonical text)

func fdExpr(e ast.Expr) string {
	switch x := e.(type) {
	case nil:
		return ""
	case *ast.Ident:
		return x.Name
	case *ast.BasicLit:
		return x.Value
	case *ast.SelectorExpr:
		return fdExpr(x.X) + "." + x.Sel.Name
	case *ast.StarExpr:
		return "*" + fdExpr(x.X)
	case *ast.UnaryExpr:
		return x.Op.String() + fdExpr(x.X)
	case *ast.BinaryExpr:
		return fdExpr(x.X) + " " + x.Op.String() + " " + fdExpr(x.Y)
	case *ast.ParenExpr:
		return "(" + fdExpr(x.X) + ")"
	case *ast.IndexExpr:
		return fdExpr(x.X) + "[" + fdExpr(x.Index) + "]"
	case *ast.SliceExpr:
		s := fdExpr(x.X) + "[" + fdExpr(x.Low) + ":" + fdExpr(x.High)
		if x.Slice3 {
			s += ":" + fdExpr(x.Max)
		}
		return s + "]"
	case *ast.CallExpr:
		args := make([]string, len(x.Args))
		for i, a := range x.Args {
			args[i] = fdExpr(a)
		}
		s := fdExpr(x.Fun) + "(" + strings.Join(args, ", ")
		if x.Ellipsis.IsValid() {
			s += "..."
		}
		return s + ")"
	case *ast.ArrayType:
		return "[" + fdExpr(x.Len) + "]" + fdExpr(x.Elt)
	case *ast.ChanType:
		return "chan " + fdExpr(x.Value)
	case *ast.StructType:
		if x.Fields == nil || len(x.Fields.List) == 0 {
			return "struct{}"
		}
		return "struct{...}"
	case *ast.CompositeLit:
		elts := make([]string, len(x.Elts))
		for i, a := range x.Elts {
			elts[i] = fdExpr(a)
		}
		return fdExpr(x.Type) + "{" + strings.Join(elts, ", ") + "}"
	case *ast.KeyValueExpr:
		return fdExpr(x.Key) + ": " + fdExpr(x.Value)
	case *ast.FuncLit:
		return "func{" + fdStmts(x.Body.List) + "}"
	}
	return fmt.Sprintf("<?%T>", e)
}

func fdStmt(s ast.Stmt) string {
	switch x := s.(type) {
	case *ast.ExprStmt:
		return fdExpr(x.X)
	case *ast.AssignStmt:
		l := make([]string, len(x.Lhs))
		for i, a := range x.Lhs {
			l[i] = fdExpr(a)
		}
		r := make([]string, len(x.Rhs))
		for i, a := range x.Rhs {
			r[i] = fdExpr(a)
		}
		return strings.Join(l, ", ") + " " + x.Tok.String() + " " + strings.Join(r, ", ")
	case *ast.ReturnStmt:
		r := make([]string, len(x.Results))
		for i, a := range x.Results {
			r[i] = fdExpr(a)
		}
		return strings.TrimSpace("return " + strings.Join(r, ", "))
	case *ast.SendStmt:
		return fdExpr(x.Chan) + " <- " + fdExpr(x.Value)
	case *ast.GoStmt:
		return "go " + fdExpr(x.Call)
	case *ast.IncDecStmt:
		return fdExpr(x.X) + x.Tok.String()
	case *ast.DeclStmt:
		gd, ok := x.Decl.(*ast.GenDecl)
		if !ok {
			return "<?decl>"
		}
		var parts []string
		for _, sp := range gd.Specs {
			vs, ok := sp.(*ast.ValueSpec)
			if !ok {
				return "<?spec>"
			}
			names := make([]string, len(vs.Names))
			for i, n := range vs.Names {
				names[i] = n.Name
			}
			vals := make([]string, len(vs.Values))
			for i, v := range vs.Values {
				vals[i] = fdExpr(v)
			}
			p := gd.Tok.String() + " " + strings.Join(names, ", ")
			if vs.Type != nil {
				p += " " + fdExpr(vs.Type)
			}
			if len(vals) > 0 {
				p += " = " + strings.Join(vals, ", ")
			}
			parts = append(parts, p)
		}
		return strings.Join(parts, "; ")
	case *ast.IfStmt:
		s := "if "
		if x.Init != nil {
			s += fdStmt(x.Init) + "; "
		}
		s += fdExpr(x.Cond) + " {" + fdStmts(x.Body.List) + "}"
		if x.Else != nil {
			switch e := x.Else.(type) {
			case *ast.BlockStmt:
				s += " else {" + fdStmts(e.List) + "}"
			default:
				s += " else " + fdStmt(e)
			}
		}
		return s
	case *ast.ForStmt:
		return "for " + fdStmt0(x.Init) + "; " + fdExpr(x.Cond) + "; " + fdStmt0(x.Post) + " {" + fdStmts(x.Body.List) + "}"
	case *ast.RangeStmt:
		h := fdExpr(x.Key)
		if x.Value != nil {
			h += ", " + fdExpr(x.Value)
		}
		if x.Key != nil {
			h += " " + x.Tok.String() + " "
		}
		return "for " + h + "range " + fdExpr(x.X) + " {" + fdStmts(x.Body.List) + "}"
	case *ast.BlockStmt:
		return "{" + fdStmts(x.List) + "}"
	case *ast.SwitchStmt:
		s := "switch " + fdStmt0(x.Init) + ";" + fdExpr(x.Tag) + " {"
		for _, c := range x.Body.List {
			s += fdStmt(c) + " "
		}
		return s + "}"
	case *ast.CaseClause:
		l := make([]string, len(x.List))
		for i, a := range x.List {
			l[i] = fdExpr(a)
		}
		h := "default"
		if x.List != nil {
			h = "case " + strings.Join(l, ", ")
		}
		return h + ": " + fdStmts(x.Body)
	case *ast.SelectStmt:
		s := "select {"
		for _, c := range x.Body.List {
			cc := c.(*ast.CommClause)
			if cc.Comm == nil {
				s += "default: "
			} else {
				s += "case " + fdStmt(cc.Comm) + ": "
			}
			s += fdStmts(cc.Body) + " "
		}
		return s + "}"
	case *ast.EmptyStmt:
		return ""
	}
	return fmt.Sprintf("<?%T>", s)
}

func fdStmt0(s ast.Stmt) string {
	if s == nil {
		return ""
	}
	return fdStmt(s)
}

func fdStmts(l []ast.Stmt) string {
	p := make([]string, len(l))
	for i, s := range l {
		p[i] = fdStmt(s)
	}
	return strings.Join(p, "; ")
}

// ---------------------------------------------------------------- constants

// fdConsts reads `Name = <int literal>` (possibly typed) constant declarations of a file.
func fdConsts(path string) (map[string]uint64, error) {
	fset := token.NewFileSet()
	f, err := parser.ParseFile(fset, path, nil, 0)
	if err != nil {
		return nil, err
	}
	m := map[string]uint64{}
	for _, d := range f.Decls {
		gd, ok := d.(*ast.GenDecl)
		if !ok || gd.Tok != token.CONST {
			continue
		}
		for _, sp := range gd.Specs {
			vs := sp.(*ast.ValueSpec)
			for i, n := range vs.Names {
				if i >= len(vs.Values) {
					continue
				}
				if bl, ok := vs.Values[i].(*ast.BasicLit); ok && bl.Kind == token.INT {
					v, err := strconv.ParseUint(bl.Value, 0, 64)
					if err == nil {
						m[n.Name] = v
					}
				}
			}
		}
	}
	return m, nil
}

type fdEnv struct {
	repo     string
	mesgnum  map[string]uint64
	fieldnum map[string]uint64
	proto    map[string]uint64
	typedef  map[string]uint64 // typedef.MesgNumX
	tmesg    map[string]uint64 // mesgdef type name -> message number written by its ToMesg
}

func fdLoadEnv(repo string) (*fdEnv, error) {
	env := &fdEnv{repo: repo}
	var err error
	if env.mesgnum, err = fdConsts(filepath.Join(repo, "profile/untyped/mesgnum/mesgnum_gen.go")); err != nil {
		return nil, err
	}
	if env.fieldnum, err = fdConsts(filepath.Join(repo, "profile/untyped/fieldnum/fieldnum_gen.go")); err != nil {
		return nil, err
	}
	if env.proto, err = fdConsts(filepath.Join(repo, "proto/proto.go")); err != nil {
		return nil, err
	}
	if env.typedef, err = fdConsts(filepath.Join(repo, "profile/typedef/mesg_num_gen.go")); err != nil {
		return nil, err
	}
	// mesgdef: `func (m *T) ToMesg(...)` contains `mesg := proto.Message{Num: typedef.MesgNumX}`
	env.tmesg = map[string]uint64{}
	files, err := filepath.Glob(filepath.Join(repo, "profile/mesgdef/*_gen.go"))
	if err != nil {
		return nil, err
	}
	for _, p := range files {
		fset := token.NewFileSet()
		f, err := parser.ParseFile(fset, p, nil, 0)
		if err != nil {
			return nil, err
		}
		for _, d := range f.Decls {
			fn, ok := d.(*ast.FuncDecl)
			if !ok || fn.Name.Name != "ToMesg" || fn.Recv == nil || fn.Body == nil {
				continue
			}
			recv := strings.TrimPrefix(fdExpr(fn.Recv.List[0].Type), "*")
			found := false
			for _, st := range fn.Body.List {
				s := fdStmt(st)
				const pre = "mesg := proto.Message{Num: typedef."
				if strings.HasPrefix(s, pre) && strings.HasSuffix(s, "}") {
					name := strings.TrimSuffix(strings.TrimPrefix(s, pre), "}")
					v, ok := env.typedef[name]
					if !ok {
						return nil, fmt.Errorf("%s: unknown constant typedef.%s", filepath.Base(p), name)
					}
					env.tmesg[recv] = v
					found = true
				}
			}
			if !found {
				return nil, fmt.Errorf("%s: ToMesg of %s does not set the message number in the recognised form", filepath.Base(p), recv)
			}
		}
	}
	return env, nil
}

// constant expression `pkg.Name` -> value
func (env *fdEnv) constOf(e ast.Expr) (uint64, error) {
	s := fdExpr(e)
	pkg, name, ok := strings.Cut(s, ".")
	if !ok {
		if bl, isLit := e.(*ast.BasicLit); isLit && bl.Kind == token.INT {
			return strconv.ParseUint(bl.Value, 0, 64)
		}
		return 0, fmt.Errorf("constant expression %q not recognised", s)
	}
	var tab map[string]uint64
	switch pkg {
	case "mesgnum":
		tab = env.mesgnum
	case "fieldnum":
		tab = env.fieldnum
	case "proto":
		tab = env.proto
	case "typedef":
		tab = env.typedef
	default:
		return 0, fmt.Errorf("constant %q: unknown package", s)
	}
	v, ok := tab[name]
	if !ok {
		return 0, fmt.Errorf("constant %q not found", s)
	}
	return v, nil
}

// ---------------------------------------------------------------- file types

type fdField struct {
	name string
	kind string // ByValue | Single | Many | Unrelated
	typ  string // mesgdef type name
	num  uint64
}

type fdSpec struct {
	name, file string
	fields     []fdField
	adds       []string
	dflt       string
	tofit      []string
	sortStart  string
	newOK      bool
}

func fdMethod(f *ast.File, recv, name string) *ast.FuncDecl {
	for _, d := range f.Decls {
		fn, ok := d.(*ast.FuncDecl)
		if !ok || fn.Name.Name != name || fn.Recv == nil || len(fn.Recv.List) != 1 {
			continue
		}
		if fdExpr(fn.Recv.List[0].Type) == "*"+recv {
			return fn
		}
	}
	return nil
}

func fdFunc(f *ast.File, name string) *ast.FuncDecl {
	for _, d := range f.Decls {
		fn, ok := d.(*ast.FuncDecl)
		if ok && fn.Recv == nil && fn.Name.Name == name {
			return fn
		}
	}
	return nil
}

func (sp *fdSpec) slot(name string) (int, bool) {
	for i, f := range sp.fields {
		if f.name == name {
			return i, true
		}
	}
	return 0, false
}

func fdFileType(env *fdEnv, path string) ([]*fdSpec, error) {
	fset := token.NewFileSet()
	f, err := parser.ParseFile(fset, path, nil, 0)
	if err != nil {
		return nil, err
	}
	base := filepath.Base(path)
	var specs []*fdSpec
	for _, d := range f.Decls {
		gd, ok := d.(*ast.GenDecl)
		if !ok || gd.Tok != token.TYPE {
			continue
		}
		for _, s := range gd.Specs {
			ts := s.(*ast.TypeSpec)
			st, ok := ts.Type.(*ast.StructType)
			if !ok {
				return nil, fmt.Errorf("%s: type %s is not a struct", base, ts.Name.Name)
			}
			if fdMethod(f, ts.Name.Name, "Add") == nil || fdMethod(f, ts.Name.Name, "ToFIT") == nil {
				return nil, fmt.Errorf("%s: struct %s has no Add/ToFIT pair", base, ts.Name.Name)
			}
			sp := &fdSpec{name: ts.Name.Name, file: base}
			for _, fl := range st.Fields.List {
				t := fdExpr(fl.Type)
				for _, n := range fl.Names {
					fd := fdField{name: n.Name}
					switch {
					case t == "[]proto.Message":
						fd.kind = "Unrelated"
					case strings.HasPrefix(t, "[]*mesgdef."):
						fd.kind, fd.typ = "Many", strings.TrimPrefix(t, "[]*mesgdef.")
					case strings.HasPrefix(t, "*mesgdef."):
						fd.kind, fd.typ = "Single", strings.TrimPrefix(t, "*mesgdef.")
					case strings.HasPrefix(t, "mesgdef."):
						fd.kind, fd.typ = "ByValue", strings.TrimPrefix(t, "mesgdef.")
					default:
						return nil, fmt.Errorf("%s: field %s.%s has unrecognised type %s", base, sp.name, n.Name, t)
					}
					if fd.typ != "" {
						v, ok := env.tmesg[fd.typ]
						if !ok {
							return nil, fmt.Errorf("%s: field %s.%s: mesgdef.%s has no ToMesg", base, sp.name, n.Name, fd.typ)
						}
						fd.num = v
					}
					sp.fields = append(sp.fields, fd)
				}
			}
			if err := fdAdd(env, sp, fdMethod(f, sp.name, "Add")); err != nil {
				return nil, fmt.Errorf("%s: %s.Add: %v", base, sp.name, err)
			}
			if err := fdToFIT(env, sp, fdMethod(f, sp.name, "ToFIT")); err != nil {
				return nil, fmt.Errorf("%s: %s.ToFIT: %v", base, sp.name, err)
			}
			nf := fdFunc(f, "New"+sp.name)
			if nf == nil {
				return nil, fmt.Errorf("%s: constructor New%s not found", base, sp.name)
			}
			want := "f := &" + sp.name + "{}; for i := range mesgs {f.Add(mesgs[i])}; return f"
			if got := fdStmts(nf.Body.List); got != want {
				return nil, fmt.Errorf("%s: New%s is not `fold Add over the arguments from the empty struct`: %s", base, sp.name, got)
			}
			if len(nf.Type.Params.List) != 1 {
				return nil, fmt.Errorf("%s: New%s parameter form", base, sp.name)
			}
			if _, isEll := nf.Type.Params.List[0].Type.(*ast.Ellipsis); !isEll || nf.Type.Params.List[0].Names[0].Name != "mesgs" {
				return nil, fmt.Errorf("%s: New%s parameter form", base, sp.name)
			}
			sp.newOK = true
			specs = append(specs, sp)
		}
	}
	if len(specs) == 0 {
		return nil, fmt.Errorf("%s: no file type struct found", base)
	}
	return specs, nil
}

func fdAdd(env *fdEnv, sp *fdSpec, fn *ast.FuncDecl) error {
	if len(fn.Type.Params.List) != 1 || len(fn.Type.Params.List[0].Names) != 1 || fn.Type.Params.List[0].Names[0].Name != "mesg" ||
		fdExpr(fn.Type.Params.List[0].Type) != "proto.Message" || fn.Recv.List[0].Names[0].Name != "f" {
		return fmt.Errorf("signature is not (f *T) Add(mesg proto.Message)")
	}
	if len(fn.Body.List) != 1 {
		return fmt.Errorf("body is not a single switch")
	}
	sw, ok := fn.Body.List[0].(*ast.SwitchStmt)
	if !ok || sw.Init != nil || fdExpr(sw.Tag) != "mesg.Num" {
		return fmt.Errorf("body is not `switch mesg.Num`")
	}
	for _, c := range sw.Body.List {
		cc := c.(*ast.CaseClause)
		if cc.List == nil { // default
			if len(cc.Body) == 0 {
				sp.dflt = "None"
				continue
			}
			cloned := false
			body := cc.Body
			if len(body) == 2 && fdStmt(body[0]) == "mesg.Fields = sliceutil.Clone(mesg.Fields)" {
				cloned = true
				body = body[1:]
			}
			if len(body) != 1 {
				return fmt.Errorf("default clause: unrecognised statements: %s", fdStmts(cc.Body))
			}
			s := fdStmt(body[0])
			matched := false
			for i, fd := range sp.fields {
				if s == fmt.Sprintf("f.%s = append(f.%s, mesg)", fd.name, fd.name) {
					if fd.kind != "Unrelated" {
						return fmt.Errorf("default clause appends the raw message to typed field %s", fd.name)
					}
					sp.dflt = fmt.Sprintf("Some (%d, %v)", i, cloned)
					matched = true
				}
			}
			if !matched {
				return fmt.Errorf("default clause: unrecognised statement: %s", s)
			}
			continue
		}
		if len(cc.Body) != 1 {
			return fmt.Errorf("case %s: more than one statement", fdExpr(cc.List[0]))
		}
		s := fdStmt(cc.Body[0])
		var hit *string
		for i, fd := range sp.fields {
			if fd.typ == "" {
				continue
			}
			for _, ctor := range fdSortedKeys(env.tmesg) {
				forms := map[string]string{
					fmt.Sprintf("f.%s = *mesgdef.New%s(&mesg)", fd.name, ctor):                      "AssignDeref",
					fmt.Sprintf("f.%s = mesgdef.New%s(&mesg)", fd.name, ctor):                       "AssignPtr",
					fmt.Sprintf("f.%s = append(f.%s, mesgdef.New%s(&mesg))", fd.name, fd.name, ctor): "Append",
				}
				if k, ok := forms[s]; ok {
					for _, ce := range cc.List {
						v, err := env.constOf(ce)
						if err != nil {
							return err
						}
						if !strings.HasPrefix(fdExpr(ce), "mesgnum.") {
							return fmt.Errorf("case label %s is not a mesgnum constant", fdExpr(ce))
						}
						line := fmt.Sprintf("mkcase %d %d %d %s (* %s -> %s *)", v, i, env.tmesg[ctor], k, fdExpr(ce), fd.name)
						sp.adds = append(sp.adds, line)
						hit = &line
					}
				}
			}
		}
		if hit == nil {
			return fmt.Errorf("case %s: unrecognised statement: %s", fdExpr(cc.List[0]), s)
		}
	}
	if sp.dflt == "" {
		sp.dflt = "None"
	}
	return nil
}

func fdSortedKeys(m map[string]uint64) []string {
	k := make([]string, 0, len(m))
	for s := range m {
		k = append(k, s)
	}
	sort.Strings(k)
	return k
}

func fdToFIT(env *fdEnv, sp *fdSpec, fn *ast.FuncDecl) error {
	if len(fn.Type.Params.List) != 1 || fn.Type.Params.List[0].Names[0].Name != "options" || fn.Recv.List[0].Names[0].Name != "f" {
		return fmt.Errorf("signature is not (f *T) ToFIT(options *mesgdef.Options)")
	}
	body := fn.Body.List
	if len(body) == 0 || fdStmt(body[len(body)-1]) != "return fit" {
		return fmt.Errorf("does not end with `return fit`")
	}
	body = body[:len(body)-1]
	inited := false
	sp.sortStart = "None"
	for _, st := range body {
		s := fdStmt(st)
		switch {
		case strings.HasPrefix(s, "var size = ") || strings.HasPrefix(s, "size := ") || strings.HasPrefix(s, "size += "):
			if inited {
				return fmt.Errorf("size computed after fit was created: %s", s)
			}
			continue // capacity hint only; cannot affect the content (make(..., 0, size))
		case s == "fit := proto.FIT{Messages: make([]proto.Message, 0, size)}":
			if inited {
				return fmt.Errorf("fit created twice")
			}
			inited = true
			continue
		case strings.HasPrefix(s, "var sortStartPos = ") || strings.HasPrefix(s, "sortStartPos := "):
			rhs := strings.TrimPrefix(strings.TrimPrefix(s, "var sortStartPos = "), "sortStartPos := ")
			konst := uint64(0)
			var slots []string
			for _, term := range strings.Split(rhs, " + ") {
				if v, err := strconv.ParseUint(term, 0, 64); err == nil {
					konst += v
					continue
				}
				ok := false
				for i, fd := range sp.fields {
					if term == "len(f."+fd.name+")" {
						slots = append(slots, strconv.Itoa(i))
						ok = true
					}
				}
				if !ok {
					return fmt.Errorf("sortStartPos term %q not recognised", term)
				}
			}
			if sp.sortStart != "None" {
				return fmt.Errorf("sortStartPos defined twice")
			}
			sp.sortStart = fmt.Sprintf("Some (%d, [%s])", konst, strings.Join(slots, "; "))
			continue
		}
		if !inited {
			return fmt.Errorf("statement before fit is created: %s", s)
		}
		if s == "SortMessagesByTimestamp(fit.Messages[sortStartPos:])" {
			if sp.sortStart == "None" {
				return fmt.Errorf("sortStartPos used but not defined")
			}
			sp.tofit = append(sp.tofit, "TSortTail")
			continue
		}
		matched := false
		for i, fd := range sp.fields {
			n := fd.name
			forms := map[string]string{
				fmt.Sprintf("fit.Messages = append(fit.Messages, f.%s.ToMesg(options))", n):                                   "EValue",
				fmt.Sprintf("if f.%s != nil {fit.Messages = append(fit.Messages, f.%s.ToMesg(options))}", n, n):                "EIfNotNil",
				fmt.Sprintf("for i := range f.%s {fit.Messages = append(fit.Messages, f.%s[i].ToMesg(options))}", n, n):       "ERange",
				fmt.Sprintf("fit.Messages = append(fit.Messages, f.%s...)", n):                                                "ESpread",
				fmt.Sprintf("SortMessagesByTimestamp(f.%s)", n):                                                               "SORT",
			}
			if k, ok := forms[s]; ok {
				matched = true
				if k == "SORT" {
					if fd.kind != "Unrelated" {
						return fmt.Errorf("in-place sort of typed field %s", n)
					}
					sp.tofit = append(sp.tofit, fmt.Sprintf("TSortSlot %d (* %s *)", i, n))
				} else {
					sp.tofit = append(sp.tofit, fmt.Sprintf("TEmit %d %s (* %s *)", i, k, n))
				}
			}
		}
		if !matched {
			return fmt.Errorf("unrecognised statement: %s", s)
		}
	}
	if !inited {
		return fmt.Errorf("fit never created")
	}
	return nil
}

// ---------------------------------------------------------------- comparator

func fdComparator(env *fdEnv, path string) (string, error) {
	fset := token.NewFileSet()
	f, err := parser.ParseFile(fset, path, nil, 0)
	if err != nil {
		return "", err
	}
	fn := fdFunc(f, "SortMessagesByTimestamp")
	if fn == nil {
		return "", fmt.Errorf("SortMessagesByTimestamp not found")
	}
	if len(fn.Body.List) != 1 {
		return "", fmt.Errorf("SortMessagesByTimestamp: body is not a single call")
	}
	es, ok := fn.Body.List[0].(*ast.ExprStmt)
	if !ok {
		return "", fmt.Errorf("SortMessagesByTimestamp: body is not a call")
	}
	call, ok := es.X.(*ast.CallExpr)
	if !ok || len(call.Args) != 2 || fdExpr(call.Args[0]) != fn.Type.Params.List[0].Names[0].Name {
		return "", fmt.Errorf("SortMessagesByTimestamp: unexpected call")
	}
	stable := ""
	switch fdExpr(call.Fun) {
	case "slices.SortStableFunc":
		stable = "true"
	case "slices.SortFunc":
		stable = "false"
	default:
		return "", fmt.Errorf("SortMessagesByTimestamp: sorts with %s", fdExpr(call.Fun))
	}
	lit, ok := call.Args[1].(*ast.FuncLit)
	if !ok || len(lit.Type.Params.List) != 1 || len(lit.Type.Params.List[0].Names) != 2 {
		return "", fmt.Errorf("comparator literal form")
	}
	a, b := lit.Type.Params.List[0].Names[0].Name, lit.Type.Params.List[0].Names[1].Name
	if a != "m1" || b != "m2" {
		return "", fmt.Errorf("comparator parameter names %s %s", a, b)
	}
	body := lit.Body.List
	if len(body) != 9 || fdStmt(body[0]) != "var f1, f2 *proto.Field" {
		return "", fmt.Errorf("comparator body has %d statements / unexpected head", len(body))
	}
	table := func(st ast.Stmt, m, fv string) ([][2]uint64, uint64, error) {
		sw, ok := st.(*ast.SwitchStmt)
		if !ok || fdExpr(sw.Tag) != m+".Num" || sw.Init != nil {
			return nil, 0, fmt.Errorf("expected switch %s.Num", m)
		}
		var sp [][2]uint64
		var dflt uint64
		hasD := false
		for _, c := range sw.Body.List {
			cc := c.(*ast.CaseClause)
			if len(cc.Body) != 1 {
				return nil, 0, fmt.Errorf("comparator case body")
			}
			as, ok := cc.Body[0].(*ast.AssignStmt)
			if !ok || len(as.Lhs) != 1 || fdExpr(as.Lhs[0]) != fv || as.Tok != token.ASSIGN {
				return nil, 0, fmt.Errorf("comparator case does not assign %s", fv)
			}
			ce, ok := as.Rhs[0].(*ast.CallExpr)
			if !ok || fdExpr(ce.Fun) != m+".FieldByNum" || len(ce.Args) != 1 {
				return nil, 0, fmt.Errorf("comparator case is not %s.FieldByNum(...)", m)
			}
			fnum, err := env.constOf(ce.Args[0])
			if err != nil {
				return nil, 0, err
			}
			if cc.List == nil {
				dflt, hasD = fnum, true
				continue
			}
			for _, l := range cc.List {
				mn, err := env.constOf(l)
				if err != nil {
					return nil, 0, err
				}
				sp = append(sp, [2]uint64{mn, fnum})
			}
		}
		if !hasD {
			return nil, 0, fmt.Errorf("comparator switch without default")
		}
		return sp, dflt, nil
	}
	sp1, d1, err := table(body[1], "m1", "f1")
	if err != nil {
		return "", err
	}
	sp2, d2, err := table(body[2], "m2", "f2")
	if err != nil {
		return "", err
	}
	if fmt.Sprint(sp1) != fmt.Sprint(sp2) || d1 != d2 {
		return "", fmt.Errorf("comparator reads the two messages with different field tables: %v/%d vs %v/%d", sp1, d1, sp2, d2)
	}
	// nil handling
	ifs := fdStmt(body[3])
	var nn, n1, n2 string
	{
		const p = "if f1 == nil && f2 == nil {return "
		rest, ok := strings.CutPrefix(ifs, p)
		if !ok {
			return "", fmt.Errorf("comparator nil handling: %s", ifs)
		}
		var ok1, ok2, ok3 bool
		nn, rest, ok1 = strings.Cut(rest, "} else if f1 == nil {return ")
		n1, rest, ok2 = strings.Cut(rest, "} else if f2 == nil {return ")
		n2, rest, ok3 = strings.Cut(rest, "}")
		if !ok1 || !ok2 || !ok3 || rest != "" {
			return "", fmt.Errorf("comparator nil handling: %s", ifs)
		}
	}
	if fdStmt(body[4]) != "t1 := f1.Value.Uint32()" || fdStmt(body[5]) != "t2 := f2.Value.Uint32()" {
		return "", fmt.Errorf("comparator value reads: %s; %s", fdStmt(body[4]), fdStmt(body[5]))
	}
	lt, ok1 := strings.CutPrefix(fdStmt(body[6]), "if t1 < t2 {return ")
	gt, ok2 := strings.CutPrefix(fdStmt(body[7]), "if t1 > t2 {return ")
	eq, ok3 := strings.CutPrefix(fdStmt(body[8]), "return ")
	if !ok1 || !ok2 || !ok3 || !strings.HasSuffix(lt, "}") || !strings.HasSuffix(gt, "}") {
		return "", fmt.Errorf("comparator ordering statements: %s; %s; %s", fdStmt(body[6]), fdStmt(body[7]), fdStmt(body[8]))
	}
	lt, gt = strings.TrimSuffix(lt, "}"), strings.TrimSuffix(gt, "}")
	z := func(s string) (string, error) {
		v, err := strconv.ParseInt(strings.ReplaceAll(s, " ", ""), 0, 64)
		if err != nil {
			return "", fmt.Errorf("comparator result %q is not an integer literal", s)
		}
		return fmt.Sprintf("(%d)%%Z", v), nil
	}
	var zs [6]string
	for i, s := range []string{nn, n1, n2, lt, gt, eq} {
		if zs[i], err = z(s); err != nil {
			return "", err
		}
	}
	sps := make([]string, len(sp1))
	for i, p := range sp1 {
		sps[i] = fmt.Sprintf("(%d, %d)", p[0], p[1])
	}
	return fmt.Sprintf("Definition cmp : cmpspec := {| cs_special := [%s]; cs_default := %d;\n  cs_nn := %s; cs_n1 := %s; cs_n2 := %s; cs_lt := %s; cs_gt := %s; cs_eq := %s; cs_stable := %s |}.\n",
		strings.Join(sps, "; "), d1, zs[0], zs[1], zs[2], zs[3], zs[4], zs[5], stable), nil
}

func translateFiledef(repo string) (map[string]string, error) {
	env, err := fdLoadEnv(repo)
	if err != nil {
		return nil, err
	}
	dir := filepath.Join(repo, "profile/filedef")
	ents, err := os.ReadDir(dir)
	if err != nil {
		return nil, err
	}
	var specs []*fdSpec
	nfiles := 0
	for _, e := range ents {
		n := e.Name()
		if !strings.HasSuffix(n, ".go") || strings.HasSuffix(n, "_test.go") || n == "doc.go" || n == "filedef.go" || n == "listener.go" {
			continue
		}
		ss, err := fdFileType(env, filepath.Join(dir, n))
		if err != nil {
			return nil, err
		}
		nfiles++
		specs = append(specs, ss...)
	}
	cmp, err := fdComparator(env, filepath.Join(dir, "filedef.go"))
	if err != nil {
		return nil, err
	}
	// listener's defaultFileSets: typedef.FileX -> NewY
	fsets, err := fdFileSets(repo, specs)
	if err != nil {
		return nil, err
	}
	var sb strings.Builder
	sb.WriteString("(* GENERATED by fit2coq from profile/filedef/*.go -- do not edit *)\n")
	sb.WriteString("From Coq Require Import NArith ZArith List String.\nImport ListNotations.\nFrom Fit Require Import Model.Filedef.\nOpen Scope N_scope.\nOpen Scope string_scope.\n\n")
	fmt.Fprintf(&sb, "Definition source_files : N := %d.\n\n", nfiles)
	sb.WriteString(cmp)
	sb.WriteString("\nDefinition fspecs : list fspec := [\n")
	for i, sp := range specs {
		fl := make([]string, len(sp.fields))
		for j, fd := range sp.fields {
			fl[j] = fmt.Sprintf("mkfield %d %s %d (* %s %s *)", j, fd.kind, fd.num, fd.name, fd.typ)
		}
		fmt.Fprintf(&sb, "  {| fs_name := \"%s\"; fs_file := \"%s\";\n     fs_fields := [\n       %s];\n     fs_add := [\n       %s];\n     fs_default := %s;\n     fs_tofit := [\n       %s];\n     fs_sort_start := %s;\n     fs_new_folds_add := %v |}",
			sp.name, sp.file, strings.Join(fl, ";\n       "), strings.Join(sp.adds, ";\n       "), sp.dflt, strings.Join(sp.tofit, ";\n       "), sp.sortStart, sp.newOK)
		if i+1 < len(specs) {
			sb.WriteString(";\n")
		}
	}
	sb.WriteString("\n].\n\n")
	sb.WriteString("(* listener.go defaultFileSets: file_id.type value -> index into fspecs *)\n")
	fmt.Fprintf(&sb, "Definition filesets : list (N * nat) := [%s].\n", strings.Join(fsets, "; "))
	return map[string]string{"FiledefSpec.v": sb.String()}, nil
}

func fdFileSets(repo string, specs []*fdSpec) ([]string, error) {
	fset := token.NewFileSet()
	f, err := parser.ParseFile(fset, filepath.Join(repo, "profile/filedef/listener.go"), nil, 0)
	if err != nil {
		return nil, err
	}
	fn := fdFunc(f, "defaultFileSets")
	if fn == nil || len(fn.Body.List) != 1 {
		return nil, fmt.Errorf("listener.go: defaultFileSets not in the recognised form")
	}
	ret, ok := fn.Body.List[0].(*ast.ReturnStmt)
	if !ok || len(ret.Results) != 1 {
		return nil, fmt.Errorf("listener.go: defaultFileSets is not a single return")
	}
	cl, ok := ret.Results[0].(*ast.CompositeLit)
	if !ok {
		return nil, fmt.Errorf("listener.go: defaultFileSets does not return a literal")
	}
	ftypes, err := fdConsts(filepath.Join(repo, "profile/typedef/file_gen.go"))
	if err != nil {
		return nil, err
	}
	var out []string
	for _, e := range cl.Elts {
		kv, ok := e.(*ast.KeyValueExpr)
		if !ok {
			return nil, fmt.Errorf("listener.go: defaultFileSets element form")
		}
		key := fdExpr(kv.Key)
		name, ok := strings.CutPrefix(key, "typedef.")
		v, ok2 := ftypes[name]
		if !ok || !ok2 {
			return nil, fmt.Errorf("listener.go: defaultFileSets key %s", key)
		}
		val := fdExpr(kv.Value)
		idx := -1
		for i, sp := range specs {
			if val == "func{return New"+sp.name+"()}" {
				idx = i
			}
		}
		if idx < 0 {
			return nil, fmt.Errorf("listener.go: defaultFileSets value %s", val)
		}
		out = append(out, fmt.Sprintf("(%d, %d%%nat) (* %s -> %s *)", v, idx, name, specs[idx].name))
	}
	return out, nil
}

// ---------------------------------------------------------------- listener.go

// cexpr of a capacity / loop-bound expression over the channel-buffer option
func fdCexpr(s string) (string, error) {
	s = strings.TrimSpace(s)
	for strings.HasPrefix(s, "(") && strings.HasSuffix(s, ")") {
		s = s[1 : len(s)-1]
	}
	if a, b, ok := strings.Cut(s, " + "); ok {
		x, err := fdCexpr(a)
		if err != nil {
			return "", err
		}
		y, err := fdCexpr(b)
		if err != nil {
			return "", err
		}
		return "(CPlus " + x + " " + y + ")", nil
	}
	if s == "l.options.channelBuffer" || s == "int(l.options.channelBuffer)" {
		return "CBuf", nil
	}
	if v, err := strconv.ParseUint(s, 0, 32); err == nil {
		return fmt.Sprintf("(CConst %d)", v), nil
	}
	return "", fmt.Errorf("capacity expression %q not recognised", s)
}

type fdRule struct {
	prefix, suffix string
	op             func(mid string) (string, error)
}

func fdConstOp(op string) func(string) (string, error) {
	return func(mid string) (string, error) {
		if mid != "" {
			return "", fmt.Errorf("unexpected %q", mid)
		}
		return op, nil
	}
}

func fdOps(fn *ast.FuncDecl, rules []fdRule) (string, error) {
	if fn == nil || fn.Body == nil {
		return "", fmt.Errorf("function not found")
	}
	var ops []string
	for _, st := range fn.Body.List {
		s := fdStmt(st)
		found := false
		for _, r := range rules {
			if strings.HasPrefix(s, r.prefix) && strings.HasSuffix(s, r.suffix) && len(s) >= len(r.prefix)+len(r.suffix) {
				mid := s[len(r.prefix) : len(s)-len(r.suffix)]
				op, err := r.op(mid)
				if err != nil {
					continue
				}
				ops = append(ops, op)
				found = true
				break
			}
		}
		if !found {
			return "", fmt.Errorf("%s: unrecognised statement: %s", fn.Name.Name, s)
		}
	}
	return "[" + strings.Join(ops, "; ") + "]", nil
}

func translateListener(repo string) (map[string]string, error) {
	path := filepath.Join(repo, "profile/filedef/listener.go")
	fset := token.NewFileSet()
	f, err := parser.ParseFile(fset, path, nil, 0)
	if err != nil {
		return nil, err
	}
	// struct: the channel fields the model speaks about
	wantFields := map[string]string{"poolc": "chan []proto.Field", "mesgc": "chan proto.Message", "done": "chan struct{}", "active": "bool", "file": "File", "options": "options"}
	seen := 0
	for _, d := range f.Decls {
		gd, ok := d.(*ast.GenDecl)
		if !ok || gd.Tok != token.TYPE {
			continue
		}
		for _, s := range gd.Specs {
			ts := s.(*ast.TypeSpec)
			if ts.Name.Name != "Listener" {
				continue
			}
			st, ok := ts.Type.(*ast.StructType)
			if !ok {
				return nil, fmt.Errorf("Listener is not a struct")
			}
			for _, fl := range st.Fields.List {
				for _, n := range fl.Names {
					w, ok := wantFields[n.Name]
					if !ok {
						return nil, fmt.Errorf("Listener has a field the model does not know: %s %s", n.Name, fdExpr(fl.Type))
					}
					if w != fdExpr(fl.Type) {
						return nil, fmt.Errorf("Listener.%s has type %s, expected %s", n.Name, fdExpr(fl.Type), w)
					}
					seen++
				}
			}
		}
	}
	if seen != len(wantFields) {
		return nil, fmt.Errorf("Listener struct: %d of %d expected fields", seen, len(wantFields))
	}
	cx := func(op string) func(string) (string, error) {
		return func(mid string) (string, error) {
			e, err := fdCexpr(mid)
			if err != nil {
				return "", err
			}
			return "(" + op + " " + e + ")", nil
		}
	}
	onmesg, err := fdOps(fdMethod(f, "Listener", "OnMesg"), []fdRule{
		{"if !l.active {l.reset()}", "", fdConstOp("OIfInactiveReset")},
		{"mesg.Fields = append((<-l.poolc)[:0], mesg.Fields...)", "", fdConstOp("OTakePoolCopyFields")},
		{"mesg.DeveloperFields = sliceutil.Clone(mesg.DeveloperFields)", "", fdConstOp("OCloneDev")},
		{"l.mesgc <- mesg", "", fdConstOp("OSendMesg")},
	})
	if err != nil {
		return nil, err
	}
	loopFn := fdMethod(f, "Listener", "loop")
	if loopFn == nil || len(loopFn.Body.List) < 1 {
		return nil, fmt.Errorf("loop not found")
	}
	rs, ok := loopFn.Body.List[0].(*ast.RangeStmt)
	if !ok || fdExpr(rs.X) != "l.mesgc" || fdExpr(rs.Key) != "mesg" || rs.Value != nil {
		return nil, fmt.Errorf("loop: first statement is not `for mesg := range l.mesgc`")
	}
	loopBody, err := fdOps(&ast.FuncDecl{Name: ast.NewIdent("loop body"), Body: rs.Body}, []fdRule{
		{"l.processMesg(mesg)", "", fdConstOp("OProcess")},
		{"l.poolc <- mesg.Fields", "", fdConstOp("OReturnPool")},
	})
	if err != nil {
		return nil, err
	}
	loopAfter, err := fdOps(&ast.FuncDecl{Name: ast.NewIdent("loop tail"), Body: &ast.BlockStmt{List: loopFn.Body.List[1:]}}, []fdRule{
		{"close(l.done)", "", fdConstOp("OCloseDone")},
	})
	if err != nil {
		return nil, err
	}
	closeOps, err := fdOps(fdMethod(f, "Listener", "Close"), []fdRule{
		{"if !l.active {return}", "", fdConstOp("OIfInactiveReturn")},
		{"close(l.mesgc)", "", fdConstOp("OCloseMesgc")},
		{"for i := uint(0); i < ", "; i++ {fields := <-l.poolc; clear(fields[:cap(fields):cap(fields)]); l.poolc <- fields}", cx("OClearLoop")},
		{"<-l.done", "", fdConstOp("OWaitDone")},
		{"l.active = false", "", fdConstOp("OSetInactive")},
	})
	if err != nil {
		return nil, err
	}
	fileOps, err := fdOps(fdMethod(f, "Listener", "File"), []fdRule{
		{"l.Close()", "", fdConstOp("OCallClose")},
		{"return l.file", "", fdConstOp("OReturnFile")},
	})
	if err != nil {
		return nil, err
	}
	resetOps, err := fdOps(fdMethod(f, "Listener", "reset"), []fdRule{
		{"l.file = nil", "", fdConstOp("OFileNil")},
		{"l.mesgc = make(chan proto.Message, ", ")", cx("ONewMesgc")},
		{"l.done = make(chan struct{})", "", fdConstOp("ONewDone")},
		{"l.active = true", "", fdConstOp("OSetActive")},
		{"go l.loop()", "", fdConstOp("OSpawnLoop")},
	})
	if err != nil {
		return nil, err
	}
	rebuild := func(guard string) func(string) (string, error) {
		return func(mid string) (string, error) {
			capS, rest, ok := strings.Cut(mid, "); for i := uint(0); i < ")
			if !ok {
				return "", fmt.Errorf("pool rebuild form")
			}
			c, err := fdCexpr(capS)
			if err != nil {
				return "", err
			}
			k, err := fdCexpr(rest)
			if err != nil {
				return "", err
			}
			return fmt.Sprintf("(ORebuildPool %s %s %s)", guard, c, k), nil
		}
	}
	const fillTail = "; i++ {select {case v := <-prevPoolc: l.poolc <- v default: l.poolc <- nil }}}"
	ResetOps, err := fdOps(fdMethod(f, "Listener", "Reset"), []fdRule{
		{"l.Close()", "", fdConstOp("OCallClose")},
		{"prevChannelBuffer := l.options.channelBuffer", "", fdConstOp("OSavePrev")},
		{"l.options = defaultOptions()", "", fdConstOp("ODefaultOptions")},
		{"for i := range opts {opts[i](&l.options)}", "", fdConstOp("OApplyOptions")},
		{"if prevChannelBuffer != l.options.channelBuffer {prevPoolc := l.poolc; l.poolc = make(chan []proto.Field, ", fillTail, rebuild("GChanged")},
		{"if l.poolc == nil || prevChannelBuffer != l.options.channelBuffer {prevPoolc := l.poolc; l.poolc = make(chan []proto.Field, ", fillTail, rebuild("GChangedOrNil")},
		{"if prevChannelBuffer != l.options.channelBuffer || l.poolc == nil {prevPoolc := l.poolc; l.poolc = make(chan []proto.Field, ", fillTail, rebuild("GChangedOrNil")},
		{"l.reset()", "", fdConstOp("OCallReset")},
	})
	if err != nil {
		return nil, err
	}
	newOps, err := fdOps(fdFunc(f, "NewListener"), []fdRule{
		{"l := new(Listener)", "", fdConstOp("ONewZero")},
		{"l.Reset(opts...)", "", fdConstOp("OCallResetPub")},
		{"return l", "", fdConstOp("OReturnSelf")},
	})
	if err != nil {
		return nil, err
	}
	pm := fdMethod(f, "Listener", "processMesg")
	if pm == nil {
		return nil, fmt.Errorf("processMesg not found")
	}
	const wantPM = "if mesg.Num == mesgnum.FileId {fileType := mesg.FieldValueByNum(fieldnum.FileIdType).Uint8(); fn := l.options.fileSets[fileType]; if fn == nil {return}; l.file = fn()}; if l.file == nil {return}; l.file.Add(mesg)"
	pmStd := fdStmts(pm.Body.List) == wantPM
	if !pmStd {
		return nil, fmt.Errorf("processMesg is not in the recognised form: %s", fdStmts(pm.Body.List))
	}
	do := fdFunc(f, "defaultOptions")
	if do == nil {
		return nil, fmt.Errorf("defaultOptions not found")
	}
	dos := fdStmts(do.Body.List)
	dflt, ok2 := strings.CutPrefix(dos, "return options{fileSets: defaultFileSets(), channelBuffer: ")
	if !ok2 || !strings.HasSuffix(dflt, "}") {
		return nil, fmt.Errorf("defaultOptions form: %s", dos)
	}
	dv, err := strconv.ParseUint(strings.TrimSuffix(dflt, "}"), 0, 32)
	if err != nil {
		return nil, fmt.Errorf("default channel buffer: %v", err)
	}
	wcb := fdFunc(f, "WithChannelBuffer")
	if wcb == nil || fdStmts(wcb.Body.List) != "return func{o.channelBuffer = size}" {
		return nil, fmt.Errorf("WithChannelBuffer form")
	}
	var sb strings.Builder
	sb.WriteString("(* GENERATED by fit2coq from profile/filedef/listener.go -- do not edit *)\n")
	sb.WriteString("From Coq Require Import List.\nImport ListNotations.\nFrom Fit Require Import Model.Listener.\n\n")
	fmt.Fprintf(&sb, "Definition lspec : lspec_t := {|\n  ls_onmesg := %s;\n  ls_loop_body := %s;\n  ls_loop_after := %s;\n  ls_close := %s;\n  ls_file := %s;\n  ls_reset := %s;\n  ls_Reset := %s;\n  ls_new := %s;\n  ls_process_std := %v;\n  ls_default_buffer := %d |}.\n",
		onmesg, loopBody, loopAfter, closeOps, fileOps, resetOps, ResetOps, newOps, pmStd, dv)
	return map[string]string{"ListenerSpec.v": sb.String()}, nil
}
