#!/usr/bin/env python3
"""xlsx2coq.py <Profile.xlsx> <outdir>  --  independent reading of the FIT profile spreadsheet.

Writes <outdir>/ProfileSpec.v: the rows of the sheets "Types" and "Messages" as typed Coq terms.
Python standard library only (zipfile + xml.etree); shares no code with internal/cmd/fitgen.

What is done here (reading) and what is NOT done here (interpretation):
  * here:  locating the two sheets through workbook.xml / workbook.xml.rels, shared strings, cell typing;
           numeric parsing of the cells that hold numbers (field number, type value, scale, offset, bits,
           accumulate) -- scale/offset become IEEE-754 binary64 bit patterns (struct.pack('>d', float(text)),
           the correctly rounded value, which is what strconv.ParseFloat(text, 64) yields);
           comma-separated *numeric* lists ("100,16") are split here because their elements are numbers;
  * not here: grouping rows into types / messages / fields / sub-fields, name resolution, defaults, the type ->
           base type map, the comma split of *name* lists (components, reference fields, reference values):
           all of that is Coq (Model/ProfileCheck.v).
A cell shape that is not recognised is an error (exit 2), never skipped.
"""
import os, struct, sys, zipfile
import xml.etree.ElementTree as ET

NS = "{http://schemas.openxmlformats.org/spreadsheetml/2006/main}"
RNS = "{http://schemas.openxmlformats.org/officeDocument/2006/relationships}"
PNS = "{http://schemas.openxmlformats.org/package/2006/relationships}"


class Bad(Exception):
    pass


def coq_string(s):
    for ch in s:
        if ord(ch) < 32 and ch not in "\n\t":
            raise Bad("control character in string %r" % s)
    return '"' + s.replace('"', '""') + '"'


def col_of(ref):
    c = "".join(ch for ch in ref if ch.isalpha()).upper()
    if not c:
        raise Bad("cell reference %r" % ref)
    return c


def read_book(path):
    z = zipfile.ZipFile(path)
    wb = ET.fromstring(z.read("xl/workbook.xml"))
    rels = ET.fromstring(z.read("xl/_rels/workbook.xml.rels"))
    target = {}
    for r in rels.iter(PNS + "Relationship"):
        t = r.get("Target")
        t = t[1:] if t.startswith("/") else "xl/" + t
        target[r.get("Id")] = t
    sheets = {}
    for s in wb.iter(NS + "sheet"):
        sheets[s.get("name")] = target[s.get(RNS + "id")]
    shared = []
    sst = [t for t in target.values() if t.endswith("sharedStrings.xml")]
    if len(sst) != 1:
        raise Bad("sharedStrings relationship")
    for si in ET.fromstring(z.read(sst[0])).iter(NS + "si"):
        kinds = [c.tag for c in si]
        if kinds == [NS + "t"]:
            shared.append(si[0].text or "")
        elif all(k in (NS + "r", NS + "rPh", NS + "phoneticPr") for k in kinds):  # rich text: concatenation of the runs
            shared.append("".join((r.find(NS + "t").text or "") for r in si.iter(NS + "r")))
        else:
            raise Bad("shared string item with children %r" % kinds)
    return z, sheets, shared


def read_sheet(z, name, shared):
    """-> list of (row index, {column: (kind, text)}) with kind in 's' (string), 'n' (number); empty cells dropped"""
    rows = []
    root = ET.fromstring(z.read(name))
    data = root.find(NS + "sheetData")
    last = 0
    for row in data:
        if row.tag != NS + "row":
            raise Bad("unexpected element %s in sheetData" % row.tag)
        idx = int(row.get("r"))
        if idx <= last:
            raise Bad("row indices not increasing at %d" % idx)
        last = idx
        cells = {}
        for c in row:
            if c.tag != NS + "c":
                raise Bad("unexpected element %s in row %d" % (c.tag, idx))
            kids = [k.tag for k in c]
            t = c.get("t", "n")
            if kids == []:
                continue
            if kids != [NS + "v"]:
                raise Bad("cell %s has children %r" % (c.get("r"), kids))
            v = c[0].text or ""
            col = col_of(c.get("r"))
            if col in cells:
                raise Bad("duplicate cell %s" % c.get("r"))
            if t == "s":
                cells[col] = ("s", shared[int(v)])
            elif t == "n":
                cells[col] = ("n", v)
            else:
                raise Bad("cell %s has type %r" % (c.get("r"), t))
        if cells:
            rows.append((idx, cells))
    return rows


def text(cells, col):
    return cells[col][1] if col in cells else ""


def f64bits(s):
    s2 = s.strip()
    if not s2 or any(ch not in "0123456789.-+eE" for ch in s2):
        raise Bad("not a decimal number: %r" % s)
    x = float(s2)
    if x != x or x in (float("inf"), float("-inf")):
        raise Bad("not finite: %r" % s)
    return struct.unpack(">Q", struct.pack(">d", x))[0]


def num_list(cell, conv):
    """numeric cell or comma-separated numeric text -> list of converted elements; empty -> []"""
    if cell is None:
        return []
    kind, s = cell
    s = s.strip()
    if s == "":
        return []
    return [conv(p) for p in s.split(",")]


def uint(maxv):
    def conv(s):
        if not s or not (s.isdigit() or (s.lower().startswith("0x") and all(c in "0123456789abcdefABCDEF" for c in s[2:]) and len(s) > 2)):
            raise Bad("not an unsigned integer: %r" % s)
        if s.isdigit() and len(s) > 1 and s[0] == "0":
            raise Bad("leading zero (octal in Go): %r" % s)
        v = int(s, 0)
        if v > maxv:
            raise Bad("%r exceeds %d" % (s, maxv))
        return v
    return conv


BOOLS = {"1": True, "t": True, "T": True, "TRUE": True, "true": True, "True": True,
         "0": False, "f": False, "F": False, "FALSE": False, "false": False, "False": False}


def boolean(s):
    if s not in BOOLS:
        raise Bad("not a boolean: %r" % s)
    return BOOLS[s]


def coq_list(items):
    return "[" + "; ".join(items) + "]"


def coq_bool(b):
    return "true" if b else "false"


def main():
    if len(sys.argv) != 3:
        print(__doc__)
        return 2
    path, out = sys.argv[1], sys.argv[2]
    z, sheets, shared = read_book(path)
    for need in ("Types", "Messages"):
        if need not in sheets:
            raise Bad("no sheet named %s" % need)
    trows = read_sheet(z, sheets["Types"], shared)
    mrows = read_sheet(z, sheets["Messages"], shared)

    o = []
    o.append("(* GENERATED by translator/xlsx2coq.py from internal/cmd/fitgen/Profile.xlsx -- do not edit.\n"
             "   Rows of the sheets Types and Messages as typed cells (header row dropped). *)\n"
             "From Coq Require Import NArith ZArith List String Bool.\nImport ListNotations.\n"
             "From Fit Require Import Model.ProfileRows.\nOpen Scope N_scope.\nOpen Scope string_scope.\n\n")

    # ---- Types: columns A type name, B base type, C value name, D value, E comment
    if [text(trows[0][1], c) for c in "ABCDE"] != ["Type Name", "Base Type", "Value Name", "Value", "Comment"]:
        raise Bad("Types header row is %r" % (trows[0],))
    items = []
    for idx, cells in trows[1:]:
        extra = set(cells) - set("ABCDE")
        if extra:
            raise Bad("Types row %d has cells in columns %s" % (idx, sorted(extra)))
        val = "None"
        if "D" in cells:
            s = cells["D"][1].strip()
            val = "(Some %d)" % uint(2 ** 64 - 1)(s)
        items.append("  mktrow %d %s %s %s %s %s" % (idx, coq_string(text(cells, "A")), coq_string(text(cells, "B")),
                                                 coq_string(text(cells, "C")), val, coq_string(text(cells, "E"))))
    o.append("Definition type_rows : list trow := [\n" + ";\n".join(items) + "\n].\n\n")

    # ---- Messages
    hdr = ["Message Name", "Field Def #", "Field Name", "Field Type", "Array", "Components", "Scale", "Offset", "Units", "Bits",
           "Accumulate", "Ref Field Name", "Ref Field Value", "Comment", "Products:", "EXAMPLE"]
    if [text(mrows[0][1], c) for c in "ABCDEFGHIJKLMNOP"] != hdr:
        raise Bad("Messages header row is %r" % (mrows[0],))
    items = []
    for idx, cells in mrows[1:]:
        extra = set(cells) - set("ABCDEFGHIJKLMNOP")
        if extra:
            raise Bad("Messages row %d has cells in columns %s" % (idx, sorted(extra)))
        for c in "ACDEFILM":
            if c in cells and cells[c][0] != "s":
                raise Bad("Messages %s%d is not a string cell" % (c, idx))
        num = "None"
        if "B" in cells:
            num = "(Some %d)" % uint(255)(cells["B"][1].strip())
        scales = num_list(cells.get("G"), f64bits)
        offsets = num_list(cells.get("H"), f64bits)
        bits = num_list(cells.get("J"), uint(255))
        accs = num_list(cells.get("K"), boolean)
        items.append("  mkmrow %d %d %s %s %s %s %s %s %s %s %s %s %s %s %s" % (
            idx, len(cells), coq_string(text(cells, "A")), num, coq_string(text(cells, "C")), coq_string(text(cells, "D")),
            coq_string(text(cells, "E")), coq_string(text(cells, "F")),
            coq_list(map(str, scales)), coq_list(map(str, offsets)), coq_string(text(cells, "I")),
            coq_list(map(str, bits)), coq_list(map(coq_bool, accs)),
            coq_string(text(cells, "L")), coq_string(text(cells, "M"))))
        items[-1] += "\n    (* cells: %s *)" % ", ".join(sorted(cells)).replace("*)", "* )")
    o.append("Definition mesg_rows : list mrow := [\n" + ";\n".join(items) + "\n].\n\n")
    o.append("Definition n_type_rows : N := %d.\nDefinition n_mesg_rows : N := %d.\n" % (len(trows) - 1, len(mrows) - 1))
    content = "".join(o)
    dst = os.path.join(out, "ProfileSpec.v")
    try:
        if open(dst, encoding="utf-8").read() == content:
            print("PART xlsx ProfileSpec.v unchanged")
            return 0
    except OSError:
        pass
    with open(dst, "w", encoding="utf-8") as f:
        f.write(content)
    print("PART xlsx ProfileSpec.v written (%d type rows, %d message rows)" % (len(trows) - 1, len(mrows) - 1))
    return 0


if __name__ == "__main__":
    try:
        sys.exit(main())
    except Bad as e:
        print("PART xlsx FAILED %s" % e)
        sys.exit(2)
