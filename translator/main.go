// fit2coq regenerates the translated parts of the Coq model (coq/gen/*.v) from the
// current sources under /repo.  Usage: fit2coq <repo> <outdir> [part ...]
// A pattern the translator does not recognise is an error (exit 2): a broken tie.
package main

import (
	"bytes"
	"fmt"
	"os"
	"path/filepath"
	"sort"
)

type part struct {
	name string
	run  func(repo string) (map[string]string, error) // file name -> content
}

var parts = []part{}

func register(name string, run func(repo string) (map[string]string, error)) {
	parts = append(parts, part{name, run})
}

func main() {
	if len(os.Args) < 3 {
		fmt.Fprintln(os.Stderr, "usage: fit2coq <repo> <outdir> [part ...]")
		os.Exit(2)
	}
	repo, out := os.Args[1], os.Args[2]
	want := map[string]bool{}
	for _, p := range os.Args[3:] {
		want[p] = true
	}
	sort.SliceStable(parts, func(i, j int) bool { return parts[i].name < parts[j].name })
	failed := false
	for _, p := range parts {
		if len(want) > 0 && !want[p.name] {
			continue
		}
		files, err := p.run(repo)
		if err != nil {
			fmt.Fprintf(os.Stderr, "fit2coq: part %s: %v\n", p.name, err)
			fmt.Printf("PART %s FAILED %v\n", p.name, err)
			failed = true
			continue
		}
		for name, content := range files {
			path := filepath.Join(out, name)
			old, err := os.ReadFile(path)
			if err == nil && bytes.Equal(old, []byte(content)) {
				fmt.Printf("PART %s %s unchanged\n", p.name, name)
				continue
			}
			if err := os.WriteFile(path, []byte(content), 0o644); err != nil {
				fmt.Fprintln(os.Stderr, err)
				os.Exit(2)
			}
			fmt.Printf("PART %s %s written\n", p.name, name)
		}
	}
	if failed {
		os.Exit(2)
	}
}
