module fit2coq

go 1.21
