package main

// Parts for property C12 (scaled <-> raw conversions):
//
//	convmode   kit/scaleoffset/scaleoffset.go, decoder/decoder.go, cmd/fitconv/fitcsv/csv_to_fit.go,
//	           internal/cmd/fitgen/profile/mesgdef/mesgdef.tmpl
//	           -> gen/ConvMode.v: for every place where a restored float becomes an integer, whether the
//	           code converts directly (Trunc) or calls math.Round first (Round).
//	accessors  profile/mesgdef/*_gen.go (+ typedef/mesg_num_gen.go for the message numbers)
//	           -> gen/ScaledAccessors.v: every XxxScaled / SetXxxScaled pair with the literals it contains.
//
// Anything that does not have one of the recognised shapes is an error (a broken tie), never skipped.

import (
	"fmt"
	"go/ast"
	"go/parser"
	"go/token"
	"math"
	"os"
	"path/filepath"
	"regexp"
	"sort"
	"strconv"
	"strings"
)

func init() {
	register("convmode", translateConvMode)
	register("accessors", translateAccessors)
}

var intTypeBits = map[string]int{"int8": 8, "uint8": 8, "int16": 16, "uint16": 16, "int32": 32, "uint32": 32, "int64": 64, "uint64": 64, "byte": 8}

func parseGo(repo, rel string) (*ast.File, *token.FileSet, error) {
	fset := token.NewFileSet()
	f, err := parser.ParseFile(fset, filepath.Join(repo, rel), nil, 0)
	return f, fset, err
}

func funcByName(f *ast.File, name string) *ast.FuncDecl {
	for _, d := range f.Decls {
		if fd, ok := d.(*ast.FuncDecl); ok && fd.Name.Name == name {
			return fd
		}
	}
	return nil
}

func exprString(e ast.Expr) string {
	switch x := e.(type) {
	case *ast.Ident:
		return x.Name
	case *ast.SelectorExpr:
		return exprString(x.X) + "." + x.Sel.Name
	case *ast.IndexExpr:
		return exprString(x.X) + "[" + exprString(x.Index) + "]"
	case *ast.BasicLit:
		return x.Value
	case *ast.ParenExpr:
		return "(" + exprString(x.X) + ")"
	case *ast.BinaryExpr:
		return exprString(x.X) + x.Op.String() + exprString(x.Y)
	case *ast.CallExpr:
		args := make([]string, len(x.Args))
		for i, a := range x.Args {
			args[i] = exprString(a)
		}
		return exprString(x.Fun) + "(" + strings.Join(args, ",") + ")"
	case *ast.UnaryExpr:
		return x.Op.String() + exprString(x.X)
	case *ast.ArrayType:
		if x.Len == nil {
			return "[]" + exprString(x.Elt)
		}
		return "[" + exprString(x.Len) + "]" + exprString(x.Elt)
	case *ast.StarExpr:
		return "*" + exprString(x.X)
	}
	return fmt.Sprintf("<%T>", e)
}

func unparen(e ast.Expr) ast.Expr {
	for {
		p, ok := e.(*ast.ParenExpr)
		if !ok {
			return e
		}
		e = p.X
	}
}

// roundHelpers: names of file-local functions `func name[T ..](v float64) float64` that apply math.Round
// (a rounding helper that lets float targets through unchanged).
func roundHelpers(f *ast.File) map[string]bool {
	hs := map[string]bool{}
	for _, d := range f.Decls {
		fd, ok := d.(*ast.FuncDecl)
		if !ok || fd.Recv != nil || fd.Body == nil || len(fd.Body.List) == 0 {
			continue
		}
		// one float64 parameter, one float64 result, and math.Round applied somewhere in the body (however the branches that let
		// float targets through are written): that it really rounds integer targets is what the correspondence checks
		if fd.Type.Params == nil || len(fd.Type.Params.List) != 1 || fd.Type.Results == nil || len(fd.Type.Results.List) != 1 ||
			exprString(fd.Type.Params.List[0].Type) != "float64" || exprString(fd.Type.Results.List[0].Type) != "float64" {
			continue
		}
		ast.Inspect(fd.Body, func(n ast.Node) bool {
			if c, ok := n.(*ast.CallExpr); ok && exprString(c.Fun) == "math.Round" && len(c.Args) == 1 {
				hs[fd.Name.Name] = true
			}
			return true
		})
	}
	return hs
}

// convOf classifies `arg` of an integer conversion T(arg): returns mode and the inner expression text.
func convOf(arg ast.Expr, helpers map[string]bool) (mode, inner string, err error) {
	arg = unparen(arg)
	if c, ok := arg.(*ast.CallExpr); ok {
		fn := c.Fun
		if ix, ok := fn.(*ast.IndexExpr); ok { // generic instantiation round[T]
			fn = ix.X
		}
		name := exprString(fn)
		switch {
		case name == "math.Round" && len(c.Args) == 1:
			return "Round", exprString(unparen(c.Args[0])), nil
		case helpers[name] && len(c.Args) == 1:
			return "Round", exprString(unparen(c.Args[0])), nil
		case name == "scaleoffset.Discard":
			return "Trunc", exprString(arg), nil
		default:
			return "", "", fmt.Errorf("unrecognised call %s before an integer conversion", exprString(arg))
		}
	}
	return "Trunc", exprString(arg), nil
}

type modeAcc struct {
	site  string
	mode  string
	inner string
	n     int
}

func (m *modeAcc) add(mode, inner string) error {
	if m.n == 0 {
		m.mode, m.inner = mode, inner
	} else if m.mode != mode {
		return fmt.Errorf("%s: integer conversions disagree (%s and %s)", m.site, m.mode, mode)
	} else if m.inner != inner {
		return fmt.Errorf("%s: converted expressions disagree (%s and %s)", m.site, m.inner, inner)
	}
	m.n++
	return nil
}

// collectIntConversions walks `root` and feeds every conversion intT(arg) whose argument mentions one of
// `vars` into acc; conversions to float types with such arguments must be plain.
func collectIntConversions(root ast.Node, vars []string, helpers map[string]bool, acc *modeAcc) error {
	var err error
	mentions := func(s string) bool {
		for _, v := range vars {
			if strings.Contains(s, v) {
				return true
			}
		}
		return false
	}
	ast.Inspect(root, func(n ast.Node) bool {
		if err != nil {
			return false
		}
		c, ok := n.(*ast.CallExpr)
		if !ok || len(c.Args) != 1 {
			return true
		}
		id, ok := c.Fun.(*ast.Ident)
		if !ok {
			return true
		}
		_, isInt := intTypeBits[id.Name]
		isT := id.Name == "T"
		if !isInt && !isT {
			return true
		}
		if !mentions(exprString(c.Args[0])) {
			return true
		}
		mode, inner, e := convOf(c.Args[0], helpers)
		if e != nil {
			err = fmt.Errorf("%s: %v", acc.site, e)
			return false
		}
		err = acc.add(mode, inner)
		return false
	})
	return err
}

func translateConvMode(repo string) (map[string]string, error) {
	var sb strings.Builder
	sb.WriteString("(* GENERATED by fit2coq (part convmode) -- do not edit.\n   How each conversion site turns the restored float64 into an integer: Trunc = plain Go conversion,\n   Round = math.Round first. *)\n")
	sb.WriteString("From Fit Require Import Model.ConvModeT.\n\n")
	emit := func(name string, a *modeAcc, want int) error {
		if a.n == 0 {
			return fmt.Errorf("%s: no integer conversion found", a.site)
		}
		if want > 0 && a.n != want {
			return fmt.Errorf("%s: %d integer conversions found, expected %d", a.site, a.n, want)
		}
		fmt.Fprintf(&sb, "(* %s: %d conversion(s) of `%s` *)\nDefinition %s : conv_mode := %s.\n", a.site, a.n, a.inner, name, a.mode)
		return nil
	}

	// --- kit/scaleoffset/scaleoffset.go
	f, _, err := parseGo(repo, "kit/scaleoffset/scaleoffset.go")
	if err != nil {
		return nil, err
	}
	helpers := roundHelpers(f)
	for _, spec := range []struct{ fn, def string }{{"DiscardValue", "mode_discard_value"}, {"DiscardAny", "mode_discard_any"}} {
		fd := funcByName(f, spec.fn)
		if fd == nil {
			return nil, fmt.Errorf("scaleoffset.%s not found", spec.fn)
		}
		acc := &modeAcc{site: "scaleoffset." + spec.fn}
		if err := collectIntConversions(fd.Body, []string{"dv"}, helpers, acc); err != nil {
			return nil, err
		}
		if err := emit(spec.def, acc, 8); err != nil { // int8 uint8 int16 uint16 int32 uint32 int64 uint64
			return nil, err
		}
	}
	fd := funcByName(f, "DiscardSlice")
	if fd == nil {
		return nil, fmt.Errorf("scaleoffset.DiscardSlice not found")
	}
	// two loops: unscaled `T(values[i])` and scaled `T((values[i] + offset) * scale)`
	unsc, sc := &modeAcc{site: "scaleoffset.DiscardSlice (scale 1, offset 0)"}, &modeAcc{site: "scaleoffset.DiscardSlice"}
	var derr error
	ast.Inspect(fd.Body, func(n ast.Node) bool {
		as, ok := n.(*ast.AssignStmt)
		if !ok || len(as.Lhs) != 1 || len(as.Rhs) != 1 || exprString(as.Lhs[0]) != "vals[i]" {
			return true
		}
		c, ok := as.Rhs[0].(*ast.CallExpr)
		if !ok || exprString(c.Fun) != "T" || len(c.Args) != 1 {
			derr = fmt.Errorf("DiscardSlice: unrecognised element assignment %s", exprString(as.Rhs[0]))
			return false
		}
		mode, inner, e := convOf(c.Args[0], helpers)
		if e != nil {
			derr = e
			return false
		}
		switch strings.ReplaceAll(inner, " ", "") {
		case "values[i]":
			derr = unsc.add(mode, inner)
		case "(values[i]+offset)*scale":
			derr = sc.add(mode, inner)
		default:
			derr = fmt.Errorf("DiscardSlice: unrecognised converted expression %s", inner)
		}
		return false
	})
	if derr != nil {
		return nil, derr
	}
	if err := emit("mode_discard_slice_unscaled", unsc, 1); err != nil {
		return nil, err
	}
	if err := emit("mode_discard_slice", sc, 1); err != nil {
		return nil, err
	}

	// --- decoder/decoder.go: component expansion `val = uint32(<..scaleoffset.Discard(...)..>)`
	f, _, err = parseGo(repo, "decoder/decoder.go")
	if err != nil {
		return nil, err
	}
	exp := &modeAcc{site: "decoder.expandComponents"}
	hd := roundHelpers(f)
	for _, d := range f.Decls {
		fd, ok := d.(*ast.FuncDecl)
		if !ok || fd.Body == nil {
			continue
		}
		if err := collectIntConversions(fd.Body, []string{"scaleoffset.Discard"}, hd, exp); err != nil {
			return nil, err
		}
	}
	if exp.n > 0 && strings.HasPrefix(exp.inner, "scaleoffset.Discard(") {
		exp.inner = "scaleoffset.Discard(...)"
	}
	if err := emit("mode_expand", exp, 1); err != nil {
		return nil, err
	}

	// --- cmd/fitconv/fitcsv/csv_to_fit.go: parseValue `intT(scaledValue)`
	f, _, err = parseGo(repo, "cmd/fitconv/fitcsv/csv_to_fit.go")
	if err != nil {
		return nil, err
	}
	fd = funcByName(f, "parseValue")
	if fd == nil {
		return nil, fmt.Errorf("fitcsv.parseValue not found")
	}
	csv := &modeAcc{site: "fitcsv.parseValue"}
	if err := collectIntConversions(fd.Body, []string{"scaledValue"}, roundHelpers(f), csv); err != nil {
		return nil, err
	}
	if err := emit("mode_csv", csv, 8); err != nil {
		return nil, err
	}

	// --- the setter template (text, not Go): `{{ ... .Type }}(unscaled)` or `(math.Round(unscaled))`
	tmpl, err := os.ReadFile(filepath.Join(repo, "internal/cmd/fitgen/profile/mesgdef/mesgdef.tmpl"))
	if err != nil {
		return nil, err
	}
	re := regexp.MustCompile(`=\s*\{\{[^}]*\.Type\s*\}\}\((.*unscaled.*)\)\s*$`)
	ts := &modeAcc{site: "mesgdef.tmpl Set{{.Name}}Scaled"}
	for _, line := range strings.Split(string(tmpl), "\n") {
		m := re.FindStringSubmatch(strings.TrimRight(line, " \t\r"))
		if m == nil {
			continue
		}
		switch strings.ReplaceAll(m[1], " ", "") {
		case "unscaled":
			err = ts.add("Trunc", "unscaled")
		case "math.Round(unscaled)":
			err = ts.add("Round", "unscaled")
		default:
			err = fmt.Errorf("mesgdef.tmpl: unrecognised conversion argument %q", m[1])
		}
		if err != nil {
			return nil, err
		}
	}
	if err := emit("mode_setter_template", ts, 3); err != nil { // fixed array, slice, scalar
		return nil, err
	}
	return map[string]string{"ConvMode.v": sb.String()}, nil
}

// ---------------------------------------------------------------------------------------------------------
// accessors

type accessor struct {
	mesg, field      string
	mesgNum          uint64
	fieldNum         int
	kind             string // AScalar | ASlice | AFixed n
	base             int    // basetype number derived from the invalid sentinel named in the guards
	gScale, gOffset  float64
	sOffset, sScale  float64
	mode             string
	goType           string
	tdType           string // typedef.X when the struct field has a typedef type
	haveGet, haveSet bool
}

var baseByInvalid = map[string]struct {
	num int
	typ string
}{
	"Sint8Invalid": {1, "int8"}, "Uint8Invalid": {2, "uint8"}, "Sint16Invalid": {131, "int16"}, "Uint16Invalid": {132, "uint16"},
	"Sint32Invalid": {133, "int32"}, "Uint32Invalid": {134, "uint32"}, "Uint8zInvalid": {10, "uint8"}, "Uint16zInvalid": {139, "uint16"},
	"Uint32zInvalid": {140, "uint32"}, "ByteInvalid": {13, "byte"}, "EnumInvalid": {0, "byte"}, "Sint64Invalid": {142, "int64"},
	"Uint64Invalid": {143, "uint64"}, "Uint64zInvalid": {144, "uint64"},
}

func numLit(e ast.Expr) (float64, error) {
	e = unparen(e)
	neg := false
	if u, ok := e.(*ast.UnaryExpr); ok && u.Op == token.SUB {
		neg = true
		e = unparen(u.X)
	}
	bl, ok := e.(*ast.BasicLit)
	if !ok || (bl.Kind != token.INT && bl.Kind != token.FLOAT) {
		return 0, fmt.Errorf("not a numeric literal: %s", exprString(e))
	}
	v, err := strconv.ParseFloat(bl.Value, 64) // correctly rounded, as the Go compiler rounds an untyped constant to float64
	if err != nil {
		return 0, err
	}
	if neg {
		v = -v
	}
	return v, nil
}

// m.Field or m.Field[i] -> Field
func structField(e ast.Expr) (string, bool) {
	e = unparen(e)
	if ix, ok := e.(*ast.IndexExpr); ok {
		e = ix.X
	}
	se, ok := e.(*ast.SelectorExpr)
	if !ok {
		return "", false
	}
	if id, ok := se.X.(*ast.Ident); !ok || id.Name != "m" {
		return "", false
	}
	return se.Sel.Name, true
}

func invalidNames(n ast.Node) []string {
	seen := map[string]bool{}
	ast.Inspect(n, func(n ast.Node) bool {
		if se, ok := n.(*ast.SelectorExpr); ok {
			if id, ok := se.X.(*ast.Ident); ok && id.Name == "basetype" && strings.HasSuffix(se.Sel.Name, "Invalid") && se.Sel.Name != "Float64Invalid" {
				seen[se.Sel.Name] = true
			}
		}
		return true
	})
	var out []string
	for k := range seen {
		out = append(out, k)
	}
	sort.Strings(out)
	return out
}

func parseGetter(fd *ast.FuncDecl, a *accessor) error {
	res := fd.Type.Results
	if res == nil || len(res.List) != 1 {
		return fmt.Errorf("result list")
	}
	switch rt := exprString(res.List[0].Type); {
	case rt == "float64":
		a.kind = "AScalar"
	case rt == "[]float64":
		a.kind = "ASlice"
	case strings.HasPrefix(rt, "[") && strings.HasSuffix(rt, "]float64"):
		n, err := strconv.Atoi(rt[1 : len(rt)-len("]float64")])
		if err != nil {
			return fmt.Errorf("result type %s", rt)
		}
		a.kind = fmt.Sprintf("(AFixed %d)", n)
	default:
		return fmt.Errorf("result type %s", rt)
	}
	inv := invalidNames(fd.Body)
	guardName := ""
	if len(inv) == 0 { // a field of a typedef type compares with typedef.XInvalid; resolved through profile/typedef
		td := typedefInvalidNames(fd.Body)
		if len(td) != 1 {
			return fmt.Errorf("invalid sentinels named in the getter: %v %v", inv, td)
		}
		info, ok := tdefs.consts[td[0]]
		if !ok {
			return fmt.Errorf("typedef constant %s not found", td[0])
		}
		under := tdefs.types[info.typ]
		found := false
		for name, b := range baseByInvalid {
			if b.typ == under && !strings.Contains(name, "z") && name != "ByteInvalid" && name != "EnumInvalid" {
				bits := intTypeBits[under]
				max := uint64(1)<<uint(bits) - 1
				if strings.HasPrefix(under, "int") {
					max = uint64(1)<<uint(bits-1) - 1
				}
				if info.val != max {
					return fmt.Errorf("%s = %d is not the invalid value of %s", td[0], info.val, under)
				}
				a.base, a.goType, a.tdType = b.num, b.typ, "typedef."+info.typ
				found = true
			}
		}
		if !found {
			return fmt.Errorf("typedef type %s has underlying type %q", info.typ, under)
		}
		guardName = "typedef." + td[0]
	} else {
		if len(inv) != 1 {
			return fmt.Errorf("invalid sentinels named in the getter: %v", inv)
		}
		bt, ok := baseByInvalid[inv[0]]
		if !ok {
			return fmt.Errorf("unknown sentinel %s", inv[0])
		}
		a.base, a.goType = bt.num, bt.typ
		guardName = "basetype." + inv[0]
	}
	// the scaled expression: float64(m.F[i]?) / S - O   (exactly one)
	found := 0
	var perr error
	ast.Inspect(fd.Body, func(n ast.Node) bool {
		be, ok := n.(*ast.BinaryExpr)
		if !ok || be.Op != token.SUB {
			return true
		}
		q, ok := unparen(be.X).(*ast.BinaryExpr)
		if !ok || q.Op != token.QUO {
			return true
		}
		c, ok := unparen(q.X).(*ast.CallExpr)
		if !ok || exprString(c.Fun) != "float64" || len(c.Args) != 1 {
			return true
		}
		fld, ok := structField(c.Args[0])
		if !ok || fld != a.field {
			perr = fmt.Errorf("getter reads %s", exprString(c.Args[0]))
			return false
		}
		s, e1 := numLit(q.Y)
		o, e2 := numLit(be.Y)
		if e1 != nil || e2 != nil {
			perr = fmt.Errorf("getter literals: %v %v", e1, e2)
			return false
		}
		a.gScale, a.gOffset = s, o
		found++
		return false
	})
	if perr != nil {
		return perr
	}
	if found != 1 {
		return fmt.Errorf("%d expressions of the form float64(m.%s)/S - O", found, a.field)
	}
	// guard: the invalid raw value maps to math.Float64frombits(basetype.Float64Invalid)
	if !strings.Contains(nodeText(fd.Body), "math.Float64frombits(basetype.Float64Invalid)") && a.kind != "ASlice" {
		return fmt.Errorf("getter has no invalid-value guard")
	}
	if a.kind != "AScalar" && !strings.Contains(nodeText(fd.Body), "m."+a.field+"[i]=="+guardName) {
		return fmt.Errorf("array getter has no per-element invalid guard")
	}
	if a.kind == "AScalar" && !strings.Contains(nodeText(fd.Body), "m."+a.field+"=="+guardName) {
		return fmt.Errorf("getter guard is not m.%s == %s", a.field, guardName)
	}
	a.haveGet = true
	return nil
}

func nodeText(n ast.Node) string {
	var sb strings.Builder
	ast.Inspect(n, func(n ast.Node) bool {
		if e, ok := n.(ast.Expr); ok {
			switch e.(type) {
			case *ast.BinaryExpr, *ast.CallExpr:
				sb.WriteString(exprString(e))
				sb.WriteString(";")
			}
		}
		return true
	})
	return sb.String()
}

func parseSetter(fd *ast.FuncDecl, a *accessor) error {
	inv := invalidNames(fd.Body)
	if len(inv) != 1 {
		return fmt.Errorf("invalid sentinels named in the setter: %v", inv)
	}
	bt, ok := baseByInvalid[inv[0]]
	if !ok || bt.num != a.base {
		return fmt.Errorf("setter sentinel %s differs from the getter's", inv[0])
	}
	nUnscaled, nGuard, nStore := 0, 0, 0
	var perr error
	wantGuard := "math.IsNaN(unscaled)||math.IsInf(unscaled,0)||unscaled>float64(basetype." + inv[0] + ")"
	ast.Inspect(fd.Body, func(n ast.Node) bool {
		if perr != nil {
			return false
		}
		switch st := n.(type) {
		case *ast.IfStmt:
			if strings.Contains(exprString(st.Cond), "unscaled") {
				if exprString(st.Cond) != wantGuard {
					perr = fmt.Errorf("setter guard is %s", exprString(st.Cond))
					return false
				}
				nGuard++
			}
		case *ast.AssignStmt:
			if len(st.Lhs) != 1 || len(st.Rhs) != 1 {
				return true
			}
			if id, ok := st.Lhs[0].(*ast.Ident); ok && id.Name == "unscaled" {
				mul, ok := unparen(st.Rhs[0]).(*ast.BinaryExpr)
				if !ok || mul.Op != token.MUL {
					perr = fmt.Errorf("unscaled := %s", exprString(st.Rhs[0]))
					return false
				}
				add, ok := unparen(mul.X).(*ast.BinaryExpr)
				if !ok || add.Op != token.ADD {
					perr = fmt.Errorf("unscaled := %s", exprString(st.Rhs[0]))
					return false
				}
				if v := exprString(add.X); v != "v" && v != "vs[i]" {
					perr = fmt.Errorf("unscaled := %s", exprString(st.Rhs[0]))
					return false
				}
				o, e1 := numLit(add.Y)
				s, e2 := numLit(mul.Y)
				if e1 != nil || e2 != nil {
					perr = fmt.Errorf("setter literals: %v %v", e1, e2)
					return false
				}
				a.sOffset, a.sScale = o, s
				nUnscaled++
				return true
			}
			fld, ok := structField(st.Lhs[0])
			if !ok || fld != a.field {
				return true
			}
			c, ok := st.Rhs[0].(*ast.CallExpr)
			if !ok || len(c.Args) != 1 || !strings.Contains(exprString(c.Args[0]), "unscaled") {
				return true // the invalid stores
			}
			if t := exprString(c.Fun); t != a.goType && t != a.tdType && !(t == "uint8" && a.goType == "byte") && !(t == "byte" && a.goType == "uint8") {
				perr = fmt.Errorf("setter converts to %s, sentinel says %s", t, a.goType)
				return false
			}
			mode, inner, e := convOf(c.Args[0], nil)
			if e != nil || inner != "unscaled" {
				perr = fmt.Errorf("setter stores %s", exprString(st.Rhs[0]))
				return false
			}
			a.mode = mode
			nStore++
		}
		return true
	})
	if perr != nil {
		return perr
	}
	if nUnscaled != 1 || nGuard != 1 || nStore != 1 {
		return fmt.Errorf("setter shape: %d unscaled, %d guards, %d stores", nUnscaled, nGuard, nStore)
	}
	a.haveSet = true
	return nil
}

type tdConst struct {
	typ string
	val uint64
}

var tdefs struct {
	types  map[string]string  // typedef type name -> underlying Go type
	consts map[string]tdConst // constant name -> (type, value)
}

func typedefInvalidNames(n ast.Node) []string {
	seen := map[string]bool{}
	ast.Inspect(n, func(n ast.Node) bool {
		if se, ok := n.(*ast.SelectorExpr); ok {
			if id, ok := se.X.(*ast.Ident); ok && id.Name == "typedef" && strings.HasSuffix(se.Sel.Name, "Invalid") {
				seen[se.Sel.Name] = true
			}
		}
		return true
	})
	var out []string
	for k := range seen {
		out = append(out, k)
	}
	sort.Strings(out)
	return out
}

func loadTypedefs(repo string) error {
	tdefs.types, tdefs.consts = map[string]string{}, map[string]tdConst{}
	files, err := filepath.Glob(filepath.Join(repo, "profile/typedef/*_gen.go"))
	if err != nil {
		return err
	}
	for _, path := range files {
		rel, _ := filepath.Rel(repo, path)
		f, _, err := parseGo(repo, rel)
		if err != nil {
			return err
		}
		for _, d := range f.Decls {
			gd, ok := d.(*ast.GenDecl)
			if !ok {
				continue
			}
			for _, sp := range gd.Specs {
				switch x := sp.(type) {
				case *ast.TypeSpec:
					if id, ok := x.Type.(*ast.Ident); ok {
						tdefs.types[x.Name.Name] = id.Name
					}
				case *ast.ValueSpec:
					if gd.Tok != token.CONST || len(x.Names) != 1 || len(x.Values) != 1 || x.Type == nil {
						continue
					}
					bl, ok := x.Values[0].(*ast.BasicLit)
					if !ok || bl.Kind != token.INT {
						continue
					}
					v, err := strconv.ParseUint(bl.Value, 0, 64)
					if err != nil {
						continue
					}
					tdefs.consts[x.Names[0].Name] = tdConst{exprString(x.Type), v}
				}
			}
		}
	}
	return nil
}

func mesgNums(repo string) (map[string]uint64, error) {
	f, _, err := parseGo(repo, "profile/typedef/mesg_num_gen.go")
	if err != nil {
		return nil, err
	}
	out := map[string]uint64{}
	for _, d := range f.Decls {
		gd, ok := d.(*ast.GenDecl)
		if !ok || gd.Tok != token.CONST {
			continue
		}
		for _, sp := range gd.Specs {
			vs := sp.(*ast.ValueSpec)
			if len(vs.Names) != 1 || len(vs.Values) != 1 || !strings.HasPrefix(vs.Names[0].Name, "MesgNum") {
				continue
			}
			bl, ok := vs.Values[0].(*ast.BasicLit)
			if !ok || bl.Kind != token.INT {
				return nil, fmt.Errorf("mesg_num_gen.go: %s is not an integer literal", vs.Names[0].Name)
			}
			v, err := strconv.ParseUint(bl.Value, 0, 16)
			if err != nil {
				return nil, err
			}
			out[vs.Names[0].Name] = v
		}
	}
	if len(out) < 50 {
		return nil, fmt.Errorf("mesg_num_gen.go: only %d constants", len(out))
	}
	return out, nil
}

// ToMesg: struct field -> field number (`field := fac.CreateField(mesg.Num, N)` ... `field.Value = ...m.F...`), and the message number
func toMesgInfo(fd *ast.FuncDecl, nums map[string]uint64) (uint64, map[string]int, error) {
	fields := map[string]int{}
	var mesgNum uint64
	haveNum := false
	var perr error
	ast.Inspect(fd.Body, func(n ast.Node) bool {
		if perr != nil {
			return false
		}
		switch x := n.(type) {
		case *ast.KeyValueExpr:
			if exprString(x.Key) == "Num" {
				if se, ok := x.Value.(*ast.SelectorExpr); ok && exprString(se.X) == "typedef" {
					v, ok := nums[se.Sel.Name]
					if !ok {
						perr = fmt.Errorf("unknown message number %s", se.Sel.Name)
						return false
					}
					mesgNum, haveNum = v, true
				}
			}
		case *ast.BlockStmt:
			cur := -1
			for _, st := range x.List {
				as, ok := st.(*ast.AssignStmt)
				if !ok || len(as.Lhs) != 1 || len(as.Rhs) != 1 {
					continue
				}
				if c, ok := as.Rhs[0].(*ast.CallExpr); ok && strings.HasSuffix(exprString(c.Fun), ".CreateField") && len(c.Args) == 2 {
					bl, ok := c.Args[1].(*ast.BasicLit)
					if !ok {
						perr = fmt.Errorf("CreateField with non-literal number %s", exprString(c.Args[1]))
						return false
					}
					cur, _ = strconv.Atoi(bl.Value)
					continue
				}
				if lhs := exprString(as.Lhs[0]); (lhs == "field.Value" || lhs == "copied") && cur >= 0 { // `copied := m.X; field.Value = proto.SliceT(copied[:])` for fixed arrays
					ast.Inspect(as.Rhs[0], func(n ast.Node) bool {
						if se, ok := n.(*ast.SelectorExpr); ok {
							if id, ok := se.X.(*ast.Ident); ok && id.Name == "m" {
								fields[se.Sel.Name] = cur
							}
						}
						return true
					})
				}
			}
		}
		return true
	})
	if perr != nil {
		return 0, nil, perr
	}
	if !haveNum {
		return 0, nil, fmt.Errorf("message number not found in ToMesg")
	}
	return mesgNum, fields, nil
}

func translateAccessors(repo string) (map[string]string, error) {
	nums, err := mesgNums(repo)
	if err != nil {
		return nil, err
	}
	if err := loadTypedefs(repo); err != nil {
		return nil, err
	}
	files, err := filepath.Glob(filepath.Join(repo, "profile/mesgdef/*_gen.go"))
	if err != nil {
		return nil, err
	}
	sort.Strings(files)
	var all []*accessor
	nfiles := 0
	for _, path := range files {
		rel, _ := filepath.Rel(repo, path)
		f, _, err := parseGo(repo, rel)
		if err != nil {
			return nil, err
		}
		byField := map[string]*accessor{}
		var order []string
		var toMesg *ast.FuncDecl
		recvName := ""
		for _, d := range f.Decls {
			fd, ok := d.(*ast.FuncDecl)
			if !ok || fd.Recv == nil || len(fd.Recv.List) != 1 {
				continue
			}
			recv := strings.TrimPrefix(exprString(fd.Recv.List[0].Type), "*")
			name := fd.Name.Name
			if name == "ToMesg" {
				toMesg, recvName = fd, recv
				continue
			}
			if !strings.HasSuffix(name, "Scaled") {
				continue
			}
			isSet := strings.HasPrefix(name, "Set")
			field := strings.TrimSuffix(strings.TrimPrefix(name, "Set"), "Scaled")
			if !isSet {
				field = strings.TrimSuffix(name, "Scaled")
			}
			a := byField[field]
			if a == nil {
				a = &accessor{mesg: recv, field: field, fieldNum: -1}
				byField[field] = a
				order = append(order, field)
			}
			if isSet {
				if !a.haveGet {
					return nil, fmt.Errorf("%s: %s precedes its getter", rel, name)
				}
				err = parseSetter(fd, a)
			} else {
				err = parseGetter(fd, a)
			}
			if err != nil {
				return nil, fmt.Errorf("%s: %s: %v", rel, name, err)
			}
		}
		if len(order) == 0 {
			continue
		}
		nfiles++
		if toMesg == nil {
			return nil, fmt.Errorf("%s: no ToMesg", rel)
		}
		mn, fnums, err := toMesgInfo(toMesg, nums)
		if err != nil {
			return nil, fmt.Errorf("%s: %v", rel, err)
		}
		for _, fld := range order {
			a := byField[fld]
			if !a.haveGet || !a.haveSet {
				return nil, fmt.Errorf("%s: %s has a getter without setter or vice versa", rel, fld)
			}
			if a.mesg != recvName {
				return nil, fmt.Errorf("%s: receiver %s of %sScaled differs from ToMesg's %s", rel, a.mesg, fld, recvName)
			}
			n, ok := fnums[fld]
			if !ok {
				return nil, fmt.Errorf("%s: field number of %s not found in ToMesg", rel, fld)
			}
			a.mesgNum, a.fieldNum = mn, n
			all = append(all, a)
		}
	}
	if len(all) == 0 {
		return nil, fmt.Errorf("no scaled accessors found")
	}
	var sb strings.Builder
	sb.WriteString("(* GENERATED by fit2coq (part accessors) from profile/mesgdef/*_gen.go -- do not edit.\n")
	sb.WriteString("   One record per XxxScaled / SetXxxScaled pair: the literals of `float64(m.X)/S - O` (getter) and of\n   `(v + O) * S` (setter) as float64 bit patterns, the base type named by the invalid-value guards, the shape\n   (scalar / slice / fixed array) and whether the setter rounds before converting. *)\n")
	sb.WriteString("From Coq Require Import NArith List String.\nImport ListNotations.\nFrom Fit Require Import Model.Float Model.Scale.\nOpen Scope N_scope.\nOpen Scope string_scope.\n\n")
	sb.WriteString("Definition accessors : list accessor := [\n")
	for i, a := range all {
		if i > 0 {
			sb.WriteString(";\n")
		}
		fmt.Fprintf(&sb, "  mkacc \"%s\" \"%s\" %d %d %s %d %d %d %d %d %s", a.mesg, a.field, a.mesgNum, a.fieldNum, a.kind, a.base,
			math.Float64bits(a.gScale), math.Float64bits(a.gOffset), math.Float64bits(a.sOffset), math.Float64bits(a.sScale), a.mode)
	}
	sb.WriteString("\n].\n")
	fmt.Fprintf(&sb, "Definition n_accessors : N := %d.\nDefinition n_accessor_files : N := %d.\n", len(all), nfiles)
	return map[string]string{"ScaledAccessors.v": sb.String()}, nil
}
