package main

// Parts "typedef" and "nums" (property C17).
//
//	typedef: profile/typedef/*_gen.go  ->  Typedef.v   (declared constants, String cases, FromString cases, List elements)
//	nums:    profile/untyped/mesgnum/mesgnum_gen.go, profile/untyped/fieldnum/fieldnum_gen.go, profile/version_gen.go -> Nums.v
//
// Only the shapes the generator's template produces are accepted; anything else is an error (a broken tie).

import (
	"fmt"
	"go/ast"
	"go/parser"
	"go/token"
	"os"
	"path/filepath"
	"regexp"
	"sort"
	"strconv"
	"strings"
)

func init() {
	register("typedef", translateTypedef)
	register("nums", translateNums)
}

func coqStr(s string) string { return "\"" + strings.ReplaceAll(s, "\"", "\"\"") + "\"" }

func coqStrList(xs []string) string {
	q := make([]string, len(xs))
	for i, x := range xs {
		q[i] = coqStr(x)
	}
	return "[" + strings.Join(q, "; ") + "]"
}

func coqPairList(xs [][2]string) string {
	q := make([]string, len(xs))
	for i, x := range xs {
		q[i] = "(" + coqStr(x[0]) + ", " + coqStr(x[1]) + ")"
	}
	return "[" + strings.Join(q, "; ") + "]"
}

func stringLit(e ast.Expr) (string, bool) {
	bl, ok := e.(*ast.BasicLit)
	if !ok || bl.Kind != token.STRING {
		return "", false
	}
	s, err := strconv.Unquote(bl.Value)
	return s, err == nil
}

func uintLit(e ast.Expr) (uint64, bool) {
	bl, ok := e.(*ast.BasicLit)
	if !ok || bl.Kind != token.INT {
		return 0, false
	}
	v, err := strconv.ParseUint(strings.ReplaceAll(bl.Value, "_", ""), 0, 64)
	return v, err == nil
}

type tdef struct {
	file, name, base string
	consts           [][2]string // name, value (decimal)
	str              [][2]string // const, string
	from             [][2]string // string, const
	fromDefault      string
	list             []string
	register         bool
	strDefaultIf     bool
	fromDefaultIf    bool
	listAppends      bool
}

// switchCases returns the clauses of the single switch statement that is the whole body (after optional leading statements).
func singleSwitch(body *ast.BlockStmt, tag string) (*ast.SwitchStmt, error) {
	if body == nil || len(body.List) != 1 {
		return nil, fmt.Errorf("body is not a single switch")
	}
	sw, ok := body.List[0].(*ast.SwitchStmt)
	if !ok || sw.Init != nil {
		return nil, fmt.Errorf("body is not a single switch")
	}
	id, ok := sw.Tag.(*ast.Ident)
	if !ok || id.Name != tag {
		return nil, fmt.Errorf("switch tag is not %s", tag)
	}
	return sw, nil
}

// defaultShape accepts `return E` or `if v, ok := M[k]; ok { return v }; return E` and reports whether the if is there.
func defaultShape(body []ast.Stmt) (ret *ast.ReturnStmt, hasIf bool, err error) {
	switch len(body) {
	case 1:
	case 2:
		ifs, ok := body[0].(*ast.IfStmt)
		if !ok || ifs.Else != nil || ifs.Init == nil || len(ifs.Body.List) != 1 {
			return nil, false, fmt.Errorf("default clause: unexpected first statement")
		}
		if _, ok := ifs.Body.List[0].(*ast.ReturnStmt); !ok {
			return nil, false, fmt.Errorf("default clause: if body is not a return")
		}
		hasIf = true
	default:
		return nil, false, fmt.Errorf("default clause has %d statements", len(body))
	}
	ret, ok := body[len(body)-1].(*ast.ReturnStmt)
	if !ok || len(ret.Results) != 1 {
		return nil, false, fmt.Errorf("default clause does not end in a return of one value")
	}
	return ret, hasIf, nil
}

func compositeIdents(e ast.Expr, typ string) ([]string, error) {
	cl, ok := e.(*ast.CompositeLit)
	if !ok {
		return nil, fmt.Errorf("not a composite literal")
	}
	at, ok := cl.Type.(*ast.ArrayType)
	if !ok || at.Len != nil {
		return nil, fmt.Errorf("not a slice literal")
	}
	if id, ok := at.Elt.(*ast.Ident); !ok || id.Name != typ {
		return nil, fmt.Errorf("slice literal is not []%s", typ)
	}
	var out []string
	for _, el := range cl.Elts {
		id, ok := el.(*ast.Ident)
		if !ok {
			return nil, fmt.Errorf("list element is not an identifier")
		}
		out = append(out, id.Name)
	}
	return out, nil
}

func parseTypedefFile(path string) (*tdef, error) {
	fset := token.NewFileSet()
	f, err := parser.ParseFile(fset, path, nil, parser.SkipObjectResolution)
	if err != nil {
		return nil, err
	}
	t := &tdef{file: filepath.Base(path)}
	accessor := map[string]bool{"Byte": true, "Uint8": true, "Uint16": true, "Uint32": true, "Uint64": true, "Int8": true, "Int16": true,
		"Int32": true, "Int64": true, "Float32": true, "Float64": true}
	seen := map[string]bool{}
	for _, d := range f.Decls {
		switch d := d.(type) {
		case *ast.GenDecl:
			switch d.Tok {
			case token.IMPORT:
			case token.TYPE:
				if len(d.Specs) != 1 || t.name != "" {
					return nil, fmt.Errorf("more than one type declaration")
				}
				ts := d.Specs[0].(*ast.TypeSpec)
				id, ok := ts.Type.(*ast.Ident)
				if !ok {
					return nil, fmt.Errorf("type %s is not a named basic type", ts.Name.Name)
				}
				t.name, t.base = ts.Name.Name, id.Name
			case token.CONST:
				if seen["const"] {
					return nil, fmt.Errorf("more than one const block")
				}
				seen["const"] = true
				for _, sp := range d.Specs {
					vs := sp.(*ast.ValueSpec)
					if len(vs.Names) != 1 || len(vs.Values) != 1 {
						return nil, fmt.Errorf("const spec shape")
					}
					id, ok := vs.Type.(*ast.Ident)
					if !ok || id.Name != t.name {
						return nil, fmt.Errorf("const %s is not of type %s", vs.Names[0].Name, t.name)
					}
					v, ok := uintLit(vs.Values[0])
					if !ok {
						return nil, fmt.Errorf("const %s: value is not an unsigned integer literal", vs.Names[0].Name)
					}
					t.consts = append(t.consts, [2]string{vs.Names[0].Name, strconv.FormatUint(v, 10)})
				}
			case token.VAR:
				for _, sp := range d.Specs {
					vs := sp.(*ast.ValueSpec)
					if len(vs.Names) != 1 || len(vs.Values) != 1 {
						return nil, fmt.Errorf("var spec shape")
					}
					n := vs.Names[0].Name
					if n != strings.ToLower(t.name)+"ToString" && n != "stringTo"+t.name {
						return nil, fmt.Errorf("unexpected variable %s", n)
					}
					cl, ok := vs.Values[0].(*ast.CompositeLit)
					if !ok || len(cl.Elts) != 0 {
						return nil, fmt.Errorf("variable %s is not an empty map literal", n)
					}
					t.register = true
				}
			default:
				return nil, fmt.Errorf("unexpected declaration %s", d.Tok)
			}
		case *ast.FuncDecl:
			name := d.Name.Name
			if seen["func "+name] {
				return nil, fmt.Errorf("function %s declared twice", name)
			}
			seen["func "+name] = true
			switch {
			case d.Recv != nil && accessor[name]:
				// func (x T) Byte() byte { return byte(x) }
				if len(d.Body.List) != 1 {
					return nil, fmt.Errorf("accessor %s shape", name)
				}
			case d.Recv != nil && name == "String":
				if len(d.Recv.List) != 1 || len(d.Recv.List[0].Names) != 1 {
					return nil, fmt.Errorf("String receiver")
				}
				sw, err := singleSwitch(d.Body, d.Recv.List[0].Names[0].Name)
				if err != nil {
					return nil, fmt.Errorf("String: %v", err)
				}
				hasDefault := false
				for _, st := range sw.Body.List {
					cc := st.(*ast.CaseClause)
					if cc.List == nil {
						_, hasIf, err := defaultShape(cc.Body)
						if err != nil {
							return nil, fmt.Errorf("String: %v", err)
						}
						t.strDefaultIf, hasDefault = hasIf, true
						continue
					}
					if len(cc.List) != 1 || len(cc.Body) != 1 {
						return nil, fmt.Errorf("String: case shape")
					}
					id, ok := cc.List[0].(*ast.Ident)
					ret, ok2 := cc.Body[0].(*ast.ReturnStmt)
					if !ok || !ok2 || len(ret.Results) != 1 {
						return nil, fmt.Errorf("String: case shape")
					}
					s, ok := stringLit(ret.Results[0])
					if !ok {
						return nil, fmt.Errorf("String: case %s does not return a string literal", id.Name)
					}
					t.str = append(t.str, [2]string{id.Name, s})
				}
				if !hasDefault {
					return nil, fmt.Errorf("String: no default clause")
				}
			case d.Recv == nil && name == t.name+"FromString":
				if len(d.Type.Params.List) != 1 || len(d.Type.Params.List[0].Names) != 1 {
					return nil, fmt.Errorf("FromString parameters")
				}
				sw, err := singleSwitch(d.Body, d.Type.Params.List[0].Names[0].Name)
				if err != nil {
					return nil, fmt.Errorf("FromString: %v", err)
				}
				for _, st := range sw.Body.List {
					cc := st.(*ast.CaseClause)
					if cc.List == nil {
						ret, hasIf, err := defaultShape(cc.Body)
						if err != nil {
							return nil, fmt.Errorf("FromString: %v", err)
						}
						id, ok := ret.Results[0].(*ast.Ident)
						if !ok {
							return nil, fmt.Errorf("FromString: default does not return a constant")
						}
						t.fromDefault, t.fromDefaultIf = id.Name, hasIf
						continue
					}
					if len(cc.List) != 1 || len(cc.Body) != 1 {
						return nil, fmt.Errorf("FromString: case shape")
					}
					s, ok := stringLit(cc.List[0])
					ret, ok2 := cc.Body[0].(*ast.ReturnStmt)
					if !ok || !ok2 || len(ret.Results) != 1 {
						return nil, fmt.Errorf("FromString: case shape")
					}
					id, ok := ret.Results[0].(*ast.Ident)
					if !ok {
						return nil, fmt.Errorf("FromString: case %q does not return a constant", s)
					}
					t.from = append(t.from, [2]string{s, id.Name})
				}
				if t.fromDefault == "" {
					return nil, fmt.Errorf("FromString: no default clause")
				}
			case d.Recv == nil && name == "List"+t.name:
				switch len(d.Body.List) {
				case 1: // return []T{...}
					ret, ok := d.Body.List[0].(*ast.ReturnStmt)
					if !ok || len(ret.Results) != 1 {
						return nil, fmt.Errorf("List: shape")
					}
					t.list, err = compositeIdents(ret.Results[0], t.name)
					if err != nil {
						return nil, fmt.Errorf("List: %v", err)
					}
				case 3: // list := []T{...}; for k := range m { list = append(list, k) }; return list
					as, ok := d.Body.List[0].(*ast.AssignStmt)
					_, ok2 := d.Body.List[1].(*ast.RangeStmt)
					_, ok3 := d.Body.List[2].(*ast.ReturnStmt)
					if !ok || !ok2 || !ok3 || len(as.Rhs) != 1 {
						return nil, fmt.Errorf("List: shape")
					}
					t.list, err = compositeIdents(as.Rhs[0], t.name)
					if err != nil {
						return nil, fmt.Errorf("List: %v", err)
					}
					t.listAppends = true
				default:
					return nil, fmt.Errorf("List: shape")
				}
			case d.Recv == nil && name == t.name+"Register":
				t.register = true
			default:
				return nil, fmt.Errorf("unexpected function %s", name)
			}
		default:
			return nil, fmt.Errorf("unexpected declaration")
		}
	}
	for _, need := range []string{"const", "func String", "func " + t.name + "FromString", "func List" + t.name} {
		if !seen[need] {
			return nil, fmt.Errorf("missing %s", need)
		}
	}
	if t.register != (t.strDefaultIf && t.fromDefaultIf && t.listAppends) || (!t.register && (t.strDefaultIf || t.fromDefaultIf || t.listAppends)) {
		return nil, fmt.Errorf("register support is inconsistent between String/FromString/List")
	}
	return t, nil
}

func translateTypedef(repo string) (map[string]string, error) {
	files, err := filepath.Glob(filepath.Join(repo, "profile", "typedef", "*_gen.go"))
	if err != nil {
		return nil, err
	}
	sort.Strings(files)
	if len(files) == 0 {
		return nil, fmt.Errorf("no profile/typedef/*_gen.go")
	}
	var sb strings.Builder
	sb.WriteString("(* GENERATED by fit2coq (part typedef) from profile/typedef/*_gen.go -- do not edit *)\n")
	sb.WriteString("From Coq Require Import NArith List String Bool.\nImport ListNotations.\nFrom Fit Require Import Model.ProfileRows.\nOpen Scope N_scope.\nOpen Scope string_scope.\n\n")
	sb.WriteString("Definition typedefs : list typedef := [\n")
	nconst := 0
	for i, p := range files {
		t, err := parseTypedefFile(p)
		if err != nil {
			return nil, fmt.Errorf("%s: %v", filepath.Base(p), err)
		}
		cs := make([]string, len(t.consts))
		for j, c := range t.consts {
			cs[j] = "(" + coqStr(c[0]) + ", " + c[1] + ")"
		}
		nconst += len(t.consts)
		if i > 0 {
			sb.WriteString(";\n")
		}
		fmt.Fprintf(&sb, "  mktd %s %s %s %v\n    [%s]\n    %s\n    %s\n    %s\n    %s", coqStr(t.file), coqStr(t.name), coqStr(t.base), t.register,
			strings.Join(cs, "; "), coqPairList(t.str), coqPairList(t.from), coqStr(t.fromDefault), coqStrList(t.list))
	}
	sb.WriteString("\n].\n\n")
	fmt.Fprintf(&sb, "Definition n_typedefs : N := %d.\nDefinition n_typedef_consts : N := %d.\n", len(files), nconst)
	return map[string]string{"Typedef.v": sb.String()}, nil
}

// untypedConsts reads `const ( Name = INT ... )` (single block, untyped).
func untypedConsts(path string) ([][2]string, error) {
	fset := token.NewFileSet()
	f, err := parser.ParseFile(fset, path, nil, parser.SkipObjectResolution)
	if err != nil {
		return nil, err
	}
	var out [][2]string
	blocks := 0
	for _, d := range f.Decls {
		gd, ok := d.(*ast.GenDecl)
		if !ok || gd.Tok != token.CONST {
			return nil, fmt.Errorf("%s: unexpected declaration", filepath.Base(path))
		}
		blocks++
		for _, sp := range gd.Specs {
			vs := sp.(*ast.ValueSpec)
			if len(vs.Names) != 1 || len(vs.Values) != 1 || vs.Type != nil {
				return nil, fmt.Errorf("%s: const spec shape", filepath.Base(path))
			}
			v, ok := uintLit(vs.Values[0])
			if !ok {
				return nil, fmt.Errorf("%s: const %s is not an unsigned integer literal", filepath.Base(path), vs.Names[0].Name)
			}
			out = append(out, [2]string{vs.Names[0].Name, strconv.FormatUint(v, 10)})
		}
	}
	if blocks != 1 {
		return nil, fmt.Errorf("%s: %d const blocks", filepath.Base(path), blocks)
	}
	return out, nil
}

var versionDoc = regexp.MustCompile(`current profile version, v([0-9]+)\.([0-9]+),`)

func translateNums(repo string) (map[string]string, error) {
	mn, err := untypedConsts(filepath.Join(repo, "profile", "untyped", "mesgnum", "mesgnum_gen.go"))
	if err != nil {
		return nil, err
	}
	fn, err := untypedConsts(filepath.Join(repo, "profile", "untyped", "fieldnum", "fieldnum_gen.go"))
	if err != nil {
		return nil, err
	}
	// profile/version_gen.go: `const Version uint16 = N` and the doc comment naming the dotted version
	vpath := filepath.Join(repo, "profile", "version_gen.go")
	src, err := os.ReadFile(vpath)
	if err != nil {
		return nil, err
	}
	fset := token.NewFileSet()
	f, err := parser.ParseFile(fset, vpath, src, parser.SkipObjectResolution)
	if err != nil {
		return nil, err
	}
	var version uint64
	found := 0
	for _, d := range f.Decls {
		gd, ok := d.(*ast.GenDecl)
		if !ok || gd.Tok != token.CONST || len(gd.Specs) != 1 {
			return nil, fmt.Errorf("version_gen.go: unexpected declaration")
		}
		vs := gd.Specs[0].(*ast.ValueSpec)
		if len(vs.Names) != 1 || vs.Names[0].Name != "Version" || len(vs.Values) != 1 {
			return nil, fmt.Errorf("version_gen.go: const shape")
		}
		v, ok := uintLit(vs.Values[0])
		if !ok {
			return nil, fmt.Errorf("version_gen.go: Version is not an integer literal")
		}
		version, found = v, found+1
	}
	m := versionDoc.FindSubmatch(src)
	if found != 1 || m == nil {
		return nil, fmt.Errorf("version_gen.go: Version constant or its doc comment (\"current profile version, vMAJOR.MINOR,\") not found")
	}
	var sb strings.Builder
	sb.WriteString("(* GENERATED by fit2coq (part nums) from profile/untyped/{mesgnum,fieldnum}/*_gen.go and profile/version_gen.go -- do not edit *)\n")
	sb.WriteString("From Coq Require Import NArith List String.\nImport ListNotations.\nOpen Scope N_scope.\nOpen Scope string_scope.\n\n")
	emit := func(name string, cs [][2]string) {
		fmt.Fprintf(&sb, "Definition %s : list (string * N) := [\n", name)
		for i, c := range cs {
			if i > 0 {
				sb.WriteString(";\n")
			}
			fmt.Fprintf(&sb, "  (%s, %s)", coqStr(c[0]), c[1])
		}
		sb.WriteString("\n].\n\n")
	}
	emit("mesgnum_consts", mn)
	emit("fieldnum_consts", fn)
	fmt.Fprintf(&sb, "Definition version_const : N := %d.\nDefinition version_major : string := %s.\nDefinition version_minor : string := %s.\n",
		version, coqStr(string(m[1])), coqStr(string(m[2])))
	return map[string]string{"Nums.v": sb.String()}, nil
}
