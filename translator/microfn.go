package main

// Micro-translator: a deliberately tiny subset of Go (fixed-width unsigned locals, = & | ^ << >> + - *,
// indexing of package-level array literals, conversions between unsigned types, return) is turned into
// Gallina over N with the width written into every operation that can wrap.  Anything else is an error.

import (
	"fmt"
	"go/ast"
	"go/token"
	"strconv"
	"strings"
)

var uwidth = map[string]int{"uint8": 8, "byte": 8, "uint16": 16, "uint32": 32, "uint64": 64}

type microEnv struct {
	vars   map[string]int    // variable -> width
	arrays map[string]string // Go array name -> Coq accessor function (N -> N)
	arrW   map[string]int    // element width
	consts map[string]string // Go const name -> Coq term
	constW map[string]int
}

func (env *microEnv) expr(e ast.Expr) (string, int, error) {
	switch x := e.(type) {
	case *ast.ParenExpr:
		return env.expr(x.X)
	case *ast.BasicLit:
		if x.Kind != token.INT {
			return "", 0, fmt.Errorf("literal %s not supported", x.Value)
		}
		v, err := strconv.ParseUint(x.Value, 0, 64)
		if err != nil {
			return "", 0, err
		}
		return strconv.FormatUint(v, 10), 0, nil // width 0 = untyped constant
	case *ast.Ident:
		if w, ok := env.vars[x.Name]; ok {
			return x.Name, w, nil
		}
		if c, ok := env.consts[x.Name]; ok {
			return c, env.constW[x.Name], nil
		}
		return "", 0, fmt.Errorf("unknown identifier %s", x.Name)
	case *ast.IndexExpr:
		id, ok := x.X.(*ast.Ident)
		if !ok {
			return "", 0, fmt.Errorf("index of non-identifier")
		}
		acc, ok := env.arrays[id.Name]
		if !ok {
			return "", 0, fmt.Errorf("index of unknown array %s", id.Name)
		}
		i, _, err := env.expr(x.Index)
		if err != nil {
			return "", 0, err
		}
		return fmt.Sprintf("(%s %s)", acc, i), env.arrW[id.Name], nil
	case *ast.CallExpr:
		id, ok := x.Fun.(*ast.Ident)
		if !ok || len(x.Args) != 1 {
			return "", 0, fmt.Errorf("call not supported")
		}
		w, ok := uwidth[id.Name]
		if !ok {
			return "", 0, fmt.Errorf("conversion to %s not supported", id.Name)
		}
		a, aw, err := env.expr(x.Args[0])
		if err != nil {
			return "", 0, err
		}
		if aw != 0 && aw <= w {
			return a, w, nil
		}
		return fmt.Sprintf("(%s mod %s)", a, pow2(w)), w, nil
	case *ast.BinaryExpr:
		a, aw, err := env.expr(x.X)
		if err != nil {
			return "", 0, err
		}
		b, bw, err := env.expr(x.Y)
		if err != nil {
			return "", 0, err
		}
		w := aw
		if x.Op != token.SHL && x.Op != token.SHR {
			if w == 0 {
				w = bw
			}
			if aw != 0 && bw != 0 && aw != bw {
				return "", 0, fmt.Errorf("width mismatch in %s", x.Op)
			}
		}
		if w == 0 {
			return "", 0, fmt.Errorf("untyped constant expression not supported")
		}
		switch x.Op {
		case token.AND:
			return fmt.Sprintf("(N.land %s %s)", a, b), w, nil
		case token.OR:
			return fmt.Sprintf("(N.lor %s %s)", a, b), w, nil
		case token.XOR:
			return fmt.Sprintf("(N.lxor %s %s)", a, b), w, nil
		case token.SHR:
			return fmt.Sprintf("(N.shiftr %s %s)", a, b), w, nil
		case token.SHL:
			return fmt.Sprintf("((N.shiftl %s %s) mod %s)", a, b, pow2(w)), w, nil
		case token.ADD:
			return fmt.Sprintf("((%s + %s) mod %s)", a, b, pow2(w)), w, nil
		case token.SUB:
			return fmt.Sprintf("((%s + %s - %s) mod %s)", a, pow2(w), b, pow2(w)), w, nil
		case token.MUL:
			return fmt.Sprintf("((%s * %s) mod %s)", a, b, pow2(w)), w, nil
		}
		return "", 0, fmt.Errorf("operator %s not supported", x.Op)
	}
	return "", 0, fmt.Errorf("expression %T not supported", e)
}

func pow2(w int) string {
	if w == 64 {
		return "18446744073709551616"
	}
	return strconv.FormatUint(1<<uint(w), 10)
}

// microFunc translates fn (straight-line body ending in a return) into "Definition name (params : N) : N := ...".
func microFunc(coqName string, fn *ast.FuncDecl, env *microEnv) (string, error) {
	var params []string
	for _, f := range fn.Type.Params.List {
		id, ok := f.Type.(*ast.Ident)
		if !ok {
			return "", fmt.Errorf("parameter type not supported")
		}
		w, ok := uwidth[id.Name]
		if !ok {
			return "", fmt.Errorf("parameter type %s not supported", id.Name)
		}
		for _, n := range f.Names {
			env.vars[n.Name] = w
			params = append(params, n.Name)
		}
	}
	var sb strings.Builder
	fmt.Fprintf(&sb, "Definition %s (%s : N) : N :=\n", coqName, strings.Join(params, " "))
	returned := false
	for _, st := range fn.Body.List {
		if returned {
			return "", fmt.Errorf("statement after return")
		}
		switch s := st.(type) {
		case *ast.DeclStmt:
			gd, ok := s.Decl.(*ast.GenDecl)
			if !ok || gd.Tok != token.VAR {
				return "", fmt.Errorf("declaration not supported")
			}
			for _, sp := range gd.Specs {
				vs := sp.(*ast.ValueSpec)
				id, ok := vs.Type.(*ast.Ident)
				if !ok || len(vs.Values) != 0 {
					return "", fmt.Errorf("var form not supported")
				}
				w, ok := uwidth[id.Name]
				if !ok {
					return "", fmt.Errorf("var type %s not supported", id.Name)
				}
				for _, n := range vs.Names {
					env.vars[n.Name] = w
					fmt.Fprintf(&sb, "  let %s := 0 in\n", n.Name)
				}
			}
		case *ast.AssignStmt:
			if len(s.Lhs) != 1 || len(s.Rhs) != 1 {
				return "", fmt.Errorf("multi-assignment not supported")
			}
			id, ok := s.Lhs[0].(*ast.Ident)
			if !ok {
				return "", fmt.Errorf("assignment target not supported")
			}
			e, w, err := env.expr(s.Rhs[0])
			if err != nil {
				return "", err
			}
			switch s.Tok {
			case token.ASSIGN:
				vw, ok := env.vars[id.Name]
				if !ok {
					return "", fmt.Errorf("assignment to unknown %s", id.Name)
				}
				if w != 0 && w != vw {
					return "", fmt.Errorf("width mismatch assigning %s", id.Name)
				}
			case token.DEFINE:
				if w == 0 {
					return "", fmt.Errorf("untyped := not supported")
				}
				env.vars[id.Name] = w
			default:
				return "", fmt.Errorf("assignment operator %s not supported", s.Tok)
			}
			fmt.Fprintf(&sb, "  let %s := %s in\n", id.Name, e)
		case *ast.ReturnStmt:
			if len(s.Results) != 1 {
				return "", fmt.Errorf("return form not supported")
			}
			e, _, err := env.expr(s.Results[0])
			if err != nil {
				return "", err
			}
			fmt.Fprintf(&sb, "  %s.\n", e)
			returned = true
		default:
			return "", fmt.Errorf("statement %T not supported", st)
		}
	}
	if !returned {
		return "", fmt.Errorf("no return")
	}
	return sb.String(), nil
}
