package main

import (
	"fmt"
	"go/ast"
	"go/parser"
	"go/token"
	"path/filepath"
	"strings"
)

func init() { register("decoder-reset", translateDecoderReset) }

// selectorPath renders d.a.b as "d.a.b" (empty when the expression is something else).
func selectorPath(e ast.Expr) string {
	switch x := e.(type) {
	case *ast.Ident:
		return x.Name
	case *ast.SelectorExpr:
		if p := selectorPath(x.X); p != "" {
			return p + "." + x.Sel.Name
		}
	case *ast.IndexExpr:
		return selectorPath(x.X)
	case *ast.SliceExpr:
		return selectorPath(x.X)
	}
	return ""
}

// assignedPaths: every selector path assigned (=, :=, op=) anywhere in the body, and every method call path.
func assignedPaths(body *ast.BlockStmt) (assigned map[string]bool, calls map[string]bool) {
	assigned, calls = map[string]bool{}, map[string]bool{}
	ast.Inspect(body, func(n ast.Node) bool {
		switch s := n.(type) {
		case *ast.AssignStmt:
			for _, l := range s.Lhs {
				if p := selectorPath(l); p != "" {
					assigned[p] = true
				}
			}
		case *ast.CallExpr:
			if p := selectorPath(s.Fun); p != "" {
				calls[p] = true
			}
		}
		return true
	})
	return
}

// deepPaths: assignedPaths of a method body, together with those of the methods of the same receiver type it calls (two levels
// down, receiver names normalised to the caller's), so that moving some of the statements into a helper method of the same
// type does not change what is read off the method.
func deepPaths(f *ast.File, recvType string, fd *ast.FuncDecl, depth int) (assigned map[string]bool, calls map[string]bool) {
	assigned, calls = assignedPaths(fd.Body)
	if depth == 0 || fd.Recv == nil || len(fd.Recv.List) != 1 || len(fd.Recv.List[0].Names) != 1 {
		return
	}
	self := fd.Recv.List[0].Names[0].Name
	for p := range calls {
		parts := strings.Split(p, ".")
		if len(parts) != 2 || parts[0] != self {
			continue
		}
		callee := methodOf(f, recvType, parts[1])
		if callee == nil || callee == fd || callee.Body == nil || len(callee.Recv.List[0].Names) != 1 {
			continue
		}
		other := callee.Recv.List[0].Names[0].Name
		a2, c2 := deepPaths(f, recvType, callee, depth-1)
		rename := func(q string) string {
			if q == other || strings.HasPrefix(q, other+".") {
				return self + q[len(other):]
			}
			return q
		}
		for q := range a2 {
			assigned[rename(q)] = true
		}
		for q := range c2 {
			calls[rename(q)] = true
		}
	}
	return
}

func methodOf(f *ast.File, recvType, name string) *ast.FuncDecl {
	for _, d := range f.Decls {
		fd, ok := d.(*ast.FuncDecl)
		if !ok || fd.Name.Name != name || fd.Recv == nil || len(fd.Recv.List) != 1 {
			continue
		}
		t := fd.Recv.List[0].Type
		if st, ok := t.(*ast.StarExpr); ok {
			t = st.X
		}
		if id, ok := t.(*ast.Ident); ok && id.Name == recvType {
			return fd
		}
	}
	return nil
}

// translateDecoderReset reads which per-sequence tables (*Decoder).reset clears and whether CheckIntegrity drops the read
// buffer; the API model (Model/Api.v) follows these flags.  The fields reset() is expected to handle are checked so that a
// renamed field is an error, not a silent "false".
func translateDecoderReset(repo string) (map[string]string, error) {
	fset := token.NewFileSet()
	f, err := parser.ParseFile(fset, filepath.Join(repo, "decoder/decoder.go"), nil, 0)
	if err != nil {
		return nil, err
	}
	reset := methodOf(f, "Decoder", "reset")
	ci := methodOf(f, "Decoder", "CheckIntegrity")
	rel := methodOf(f, "Decoder", "releaseTemporaryObjects")
	if reset == nil || ci == nil || rel == nil {
		return nil, fmt.Errorf("Decoder.reset / CheckIntegrity / releaseTemporaryObjects not found")
	}
	ra, rc := deepPaths(f, "Decoder", reset, 2)
	for _, must := range []string{"d.once", "d.cur", "d.timestamp", "d.lastTimeOffset", "d.err", "d.fileHeader", "d.messages", "d.crc", "d.fileId"} {
		if !ra[must] {
			return nil, fmt.Errorf("reset() no longer assigns %s: the API model must be revisited", must)
		}
	}
	if !rc["d.accumulator.Reset"] || !rc["d.crc16.Reset"] {
		return nil, fmt.Errorf("reset() no longer resets the accumulator / crc16")
	}
	la, _ := deepPaths(f, "Decoder", rel, 2)
	for _, must := range []string{"d.localMessageDefinitions", "d.developerDataIndexes", "d.fieldDescriptions", "d.fileId", "d.messages"} {
		if !la[must] {
			return nil, fmt.Errorf("releaseTemporaryObjects() no longer assigns %s", must)
		}
	}
	ca, cc := deepPaths(f, "Decoder", ci, 1)
	b := func(v bool) string {
		if v {
			return "true"
		}
		return "false"
	}
	clearsDefs := ra["d.localMessageDefinitions"] || rc["d.releaseTemporaryObjects"]
	clearsDev := (ra["d.developerDataIndexes"] && ra["d.fieldDescriptions"]) || rc["d.releaseTemporaryObjects"]
	dropsBuf := (ca["d.readBuffer.cur"] && ca["d.readBuffer.last"]) || cc["d.readBuffer.Reset"] || cc["d.readBuffer.Discard"]
	// PeekFileId: is the loop over decodeMessage guarded by a comparison of d.cur with d.fileHeader.DataSize?
	pf := methodOf(f, "Decoder", "PeekFileId")
	if pf == nil {
		return nil, fmt.Errorf("Decoder.PeekFileId not found")
	}
	bounded, loops := false, 0
	ast.Inspect(pf.Body, func(n ast.Node) bool {
		fs, ok := n.(*ast.ForStmt)
		if !ok {
			return true
		}
		loops++
		ast.Inspect(fs, func(m ast.Node) bool {
			if be, ok := m.(*ast.BinaryExpr); ok {
				l, r := selectorPath(be.X), selectorPath(be.Y)
				if (l == "d.cur" && r == "d.fileHeader.DataSize") || (r == "d.cur" && l == "d.fileHeader.DataSize") {
					bounded = true
				}
			}
			return true
		})
		return true
	})
	if loops != 1 {
		return nil, fmt.Errorf("PeekFileId: expected exactly one loop, found %d", loops)
	}
	// ... and does it report a message that ran past the end of the sequence (d.cur > d.fileHeader.DataSize, or the mirror image)?
	overrun := false
	ast.Inspect(pf.Body, func(n ast.Node) bool {
		if be, ok := n.(*ast.BinaryExpr); ok {
			l, r := selectorPath(be.X), selectorPath(be.Y)
			if (be.Op == token.GTR && l == "d.cur" && r == "d.fileHeader.DataSize") || (be.Op == token.LSS && r == "d.cur" && l == "d.fileHeader.DataSize") {
				overrun = true
			}
		}
		return true
	})
	// encoder: does compressTimestampIntoHeader keep the last written timestamp and refuse to compress outside its window?
	ef, err := parser.ParseFile(fset, filepath.Join(repo, "encoder/encoder.go"), nil, 0)
	if err != nil {
		return nil, err
	}
	ct := methodOf(ef, "Encoder", "compressTimestampIntoHeader")
	if ct == nil {
		return nil, fmt.Errorf("Encoder.compressTimestampIntoHeader not found")
	}
	cta, _ := assignedPaths(ct.Body)
	if !cta["e.timestampReference"] {
		return nil, fmt.Errorf("compressTimestampIntoHeader no longer assigns e.timestampReference: the encoder model must be revisited")
	}
	tracksLast := false
	if cta["e.lastTimestamp"] {
		// the guard `(timestamp - lastTimestamp) > proto.CompressedTimeMask` followed by `return false`
		ast.Inspect(ct.Body, func(n ast.Node) bool {
			is, ok := n.(*ast.IfStmt)
			if !ok {
				return true
			}
			be, ok := is.Cond.(*ast.BinaryExpr)
			if !ok || be.Op != token.GTR || selectorPath(be.Y) != "proto.CompressedTimeMask" {
				return true
			}
			pe, ok := be.X.(*ast.ParenExpr)
			if !ok {
				return true
			}
			sub, ok := pe.X.(*ast.BinaryExpr)
			if ok && sub.Op == token.SUB && selectorPath(sub.X) == "timestamp" && selectorPath(sub.Y) == "lastTimestamp" {
				tracksLast = true
			}
			return true
		})
		if !tracksLast {
			return nil, fmt.Errorf("compressTimestampIntoHeader assigns e.lastTimestamp but the window test is not recognised")
		}
	}
	// encoder/validator.go: how many times does Validate return errNoFields (once before, once after the developer-field filter)?
	vf, err := parser.ParseFile(fset, filepath.Join(repo, "encoder/validator.go"), nil, 0)
	if err != nil {
		return nil, err
	}
	vm := methodOf(vf, "messageValidator", "Validate")
	if vm == nil {
		return nil, fmt.Errorf("messageValidator.Validate not found")
	}
	noFieldsReturns := 0
	ast.Inspect(vm.Body, func(n ast.Node) bool {
		if rs, ok := n.(*ast.ReturnStmt); ok && len(rs.Results) == 1 {
			if id, ok := rs.Results[0].(*ast.Ident); ok && id.Name == "errNoFields" {
				noFieldsReturns++
			}
		}
		return true
	})
	if noFieldsReturns < 1 || noFieldsReturns > 2 {
		return nil, fmt.Errorf("Validate: %d returns of errNoFields, expected 1 or 2", noFieldsReturns)
	}
	// encoder: what (*Encoder).reset clears between the sequences of a chain, and that the stream encoder goes through it
	er := methodOf(ef, "Encoder", "reset")
	if er == nil {
		return nil, fmt.Errorf("Encoder.reset not found")
	}
	era, erc := deepPaths(ef, "Encoder", er, 2)
	sf, err := parser.ParseFile(fset, filepath.Join(repo, "encoder/stream.go"), nil, 0)
	if err != nil {
		return nil, err
	}
	sc := methodOf(sf, "StreamEncoder", "SequenceCompleted")
	wm := methodOf(sf, "StreamEncoder", "WriteMessage")
	if sc == nil || wm == nil {
		return nil, fmt.Errorf("StreamEncoder.SequenceCompleted / WriteMessage not found")
	}
	_, scc := assignedPaths(sc.Body)
	// SequenceCompleted refuses to complete a sequence no message was written for: a top-level `if !e.fileHeaderWritten { return <non-nil> }`
	// ahead of everything that writes (encodeCRC, updateFileHeader)
	rejectsEmpty := false
	for _, st := range sc.Body.List {
		ifs, ok := st.(*ast.IfStmt)
		if !ok || ifs.Init != nil || ifs.Else != nil {
			break
		}
		un, ok := ifs.Cond.(*ast.UnaryExpr)
		if !ok || un.Op != token.NOT {
			break
		}
		sel, ok := un.X.(*ast.SelectorExpr)
		if !ok || sel.Sel.Name != "fileHeaderWritten" || len(ifs.Body.List) == 0 {
			break
		}
		if rs, ok := ifs.Body.List[len(ifs.Body.List)-1].(*ast.ReturnStmt); ok && len(rs.Results) == 1 {
			if id, isId := rs.Results[0].(*ast.Ident); !isId || id.Name != "nil" {
				rejectsEmpty = true
			}
		}
		break
	}
	_, wmc := assignedPaths(wm.Body)
	for _, must := range []string{"e.enc.protocolValidator.ValidateMessage", "e.enc.options.messageValidator.Validate", "e.enc.encodeMessage"} {
		if !wmc[must] {
			return nil, fmt.Errorf("StreamEncoder.WriteMessage no longer calls %s: the stream model must be revisited", must)
		}
	}
	var sb strings.Builder
	sb.WriteString("(* GENERATED by fit2coq from decoder/decoder.go (Decoder.reset, CheckIntegrity) -- do not edit *)\n")
	fmt.Fprintf(&sb, "(* encoder/encoder.go Encoder.reset, encoder/stream.go SequenceCompleted *)\n")
	fmt.Fprintf(&sb, "Definition enc_reset_validator : bool := %s.\n", b(erc["e.options.messageValidator.Reset"]))
	fmt.Fprintf(&sb, "Definition enc_reset_crc : bool := %s.\n", b(erc["e.crc16.Reset"]))
	fmt.Fprintf(&sb, "Definition enc_reset_lru : bool := %s.\n", b(erc["e.localMesgNumLRU.Reset"] || erc["e.localMesgNumLRU.ResetWithNewSize"]))
	fmt.Fprintf(&sb, "Definition enc_reset_datasize : bool := %s.\n", b(era["e.dataSize"]))
	fmt.Fprintf(&sb, "Definition enc_reset_tsref : bool := %s.\n", b(era["e.timestampReference"]))
	fmt.Fprintf(&sb, "Definition enc_reset_lastts : bool := %s.\n", b(era["e.lastTimestamp"]))
	fmt.Fprintf(&sb, "Definition stream_completed_resets : bool := %s.\n", b(scc["e.enc.reset"]))
	fmt.Fprintf(&sb, "Definition stream_completed_rejects_empty : bool := %s.\n", b(rejectsEmpty))
	fmt.Fprintf(&sb, "Definition reset_clears_definitions : bool := %s.\n", b(clearsDefs))
	fmt.Fprintf(&sb, "Definition reset_clears_developer_tables : bool := %s.\n", b(clearsDev))
	fmt.Fprintf(&sb, "Definition integrity_drops_buffer : bool := %s.\n", b(dropsBuf))
	fmt.Fprintf(&sb, "Definition peekfileid_bounded : bool := %s.\n", b(bounded))
	fmt.Fprintf(&sb, "Definition peekfileid_checks_overrun : bool := %s.\n", b(overrun))
	// (*Decoder).Reset: a full reset also clears the byte counter d.n (CheckIntegrity and Next tell a clean end of stream by it)
	pr := methodOf(f, "Decoder", "Reset")
	if pr == nil {
		return nil, fmt.Errorf("Decoder.Reset not found")
	}
	pra, prc := deepPaths(f, "Decoder", pr, 1)
	if !prc["d.reset"] {
		return nil, fmt.Errorf("Decoder.Reset no longer calls d.reset(): the API model must be revisited")
	}
	fmt.Fprintf(&sb, "Definition public_reset_clears_n : bool := %s.\n", b(pra["d.n"]))
	fmt.Fprintf(&sb, "(* encoder/validator.go Validate *)\nDefinition validator_rechecks_empty : bool := %s.\n", b(noFieldsReturns == 2))
	fmt.Fprintf(&sb, "(* encoder/encoder.go compressTimestampIntoHeader *)\nDefinition encoder_tracks_last_timestamp : bool := %s.\n", b(tracksLast))
	return map[string]string{"DecoderReset.v": sb.String()}, nil
}
