package main

// Part "mesgdef": walks profile/mesgdef/*_gen.go and emits coq/gen/MesgdefSpec.v -- one `mspec` record per
// typed message -- plus C13Registry.go.txt (the list of NewXxx/ToMesg pairs, compiled into the C13 harness).
// From Reset: vals array length, bound constant, state array, expanded bound, per struct field the vals[N] index
// and mdAccessor form.  From ToMesg: per if-block guard, CreateField number, proto.X constructor, IsExpandedField use.
// From IsExpandedField / MarkAsExpandedField: bound and case list.  From XxxScaled / SetXxxScaled: the literals.
// Constants (basetype.XInvalid, typedef.XInvalid, typedef.MesgNumX) and the mdAccessor/constructor semantics of
// proto/value.go are resolved from the source.  Any shape that is not recognised is an error.

import (
	"bytes"
	"fmt"
	"go/ast"
	"go/parser"
	"go/printer"
	"go/token"
	"math"
	"os"
	"path/filepath"
	"regexp"
	"sort"
	"strconv"
	"strings"
)

func init() { register("mesgdef", translateMesgdef) }

var mathConsts = map[string]uint64{ // Go standard library constants used by basetype.go
	"math.MaxUint8": math.MaxUint8, "math.MaxInt8": math.MaxInt8, "math.MaxUint16": math.MaxUint16, "math.MaxInt16": math.MaxInt16,
	"math.MaxUint32": math.MaxUint32, "math.MaxInt32": math.MaxInt32, "math.MaxUint64": math.MaxUint64, "math.MaxInt64": math.MaxInt64,
}

// Go scalar type -> Coq ntype
var goNtype = map[string]string{"uint8": "TU8", "byte": "TU8", "int8": "TI8", "uint16": "TU16", "int16": "TI16", "uint32": "TU32", "int32": "TI32",
	"uint64": "TU64", "int64": "TI64", "float32": "TF32", "float64": "TF64"}

// tag used inside proto/value.go (ptrUint8 / TypeSliceUint8) -> Coq ntype
var tagNtype = map[string]string{"Bool": "TBool", "Int8": "TI8", "Uint8": "TU8", "Int16": "TI16", "Uint16": "TU16", "Int32": "TI32", "Uint32": "TU32",
	"Int64": "TI64", "Uint64": "TU64", "Float32": "TF32", "Float64": "TF64"}

type constVal struct {
	typ string // declared Go type ("" if untyped)
	val uint64
	str bool // string constant (only "" supported)
}

type mdEnv struct {
	fset      *token.FileSet
	basetype  map[string]constVal // XInvalid constants of profile/basetype
	typedefU  map[string]string   // typedef type name -> underlying Go type
	typedefC  map[string]constVal // typedef constants (XInvalid, MesgNumX, BoolInvalid)
	accessors map[string]mdAccessor // proto.Value methods
	ctors     map[string]string   // proto constructors: name -> "num:TU8" | "arr:TU8" | "str" | "strs"
}

type mdAccessor struct {
	kind string // "num" | "arr" | "str" | "strs"
	nt   string // ntype
	inv  uint64 // returned on type mismatch (num)
}

func (e *mdEnv) src(n any) string {
	var b bytes.Buffer
	printer.Fprint(&b, e.fset, n)
	return b.String()
}

var wsRe = regexp.MustCompile(`\s+`)

var byteRe = regexp.MustCompile(`\bbyte\b`)

// canon: byte is an alias of uint8
func canon(s string) string { return byteRe.ReplaceAllString(s, "uint8") }

func squash(s string) string { return strings.TrimSpace(wsRe.ReplaceAllString(s, " ")) }

func parseDir(fset *token.FileSet, dir string, filter func(string) bool) (map[string]*ast.File, error) {
	ents, err := os.ReadDir(dir)
	if err != nil {
		return nil, err
	}
	out := map[string]*ast.File{}
	for _, en := range ents {
		n := en.Name()
		if en.IsDir() || !strings.HasSuffix(n, ".go") || strings.HasSuffix(n, "_test.go") || !filter(n) {
			continue
		}
		f, err := parser.ParseFile(fset, filepath.Join(dir, n), nil, parser.ParseComments)
		if err != nil {
			return nil, err
		}
		out[n] = f
	}
	return out, nil
}

func intLit(e ast.Expr) (uint64, bool) {
	if p, ok := e.(*ast.ParenExpr); ok {
		return intLit(p.X)
	}
	bl, ok := e.(*ast.BasicLit)
	if !ok || bl.Kind != token.INT {
		return 0, false
	}
	v, err := strconv.ParseUint(bl.Value, 0, 64)
	return v, err == nil
}

// collectConsts reads `Name Type = <int literal | math.MaxX | "">` constants.
func collectConsts(e *mdEnv, f *ast.File, into map[string]constVal, only func(string) bool) error {
	for _, d := range f.Decls {
		gd, ok := d.(*ast.GenDecl)
		if !ok || gd.Tok != token.CONST {
			continue
		}
		for _, sp := range gd.Specs {
			vs := sp.(*ast.ValueSpec)
			for i, n := range vs.Names {
				if !only(n.Name) {
					continue
				}
				if i >= len(vs.Values) {
					return fmt.Errorf("constant %s has no explicit value", n.Name)
				}
				typ := ""
				if vs.Type != nil {
					typ = e.src(vs.Type)
				}
				val := vs.Values[i]
				if v, ok := intLit(val); ok {
					into[n.Name] = constVal{typ: typ, val: v}
				} else if v, ok := mathConsts[e.src(val)]; ok {
					into[n.Name] = constVal{typ: typ, val: v}
				} else if bl, ok := val.(*ast.BasicLit); ok && bl.Kind == token.STRING && bl.Value == `""` {
					into[n.Name] = constVal{typ: typ, str: true}
				} else {
					return fmt.Errorf("constant %s: unsupported value %s", n.Name, e.src(val))
				}
			}
		}
	}
	return nil
}

func loadEnv(repo string) (*mdEnv, error) {
	e := &mdEnv{fset: token.NewFileSet(), basetype: map[string]constVal{}, typedefU: map[string]string{}, typedefC: map[string]constVal{},
		accessors: map[string]mdAccessor{}, ctors: map[string]string{}}
	bf, err := parser.ParseFile(e.fset, filepath.Join(repo, "profile/basetype/basetype.go"), nil, 0)
	if err != nil {
		return nil, err
	}
	if err := collectConsts(e, bf, e.basetype, func(n string) bool { return strings.HasSuffix(n, "Invalid") }); err != nil {
		return nil, err
	}
	for _, d := range bf.Decls {
		if gd, ok := d.(*ast.GenDecl); ok && gd.Tok == token.TYPE {
			for _, sp := range gd.Specs {
				ts := sp.(*ast.TypeSpec)
				if id, ok := ts.Type.(*ast.Ident); ok {
					e.typedefU["basetype."+ts.Name.Name] = id.Name
				}
			}
		}
	}
	tfs, err := parseDir(e.fset, filepath.Join(repo, "profile/typedef"), func(string) bool { return true })
	if err != nil {
		return nil, err
	}
	for _, f := range tfs {
		for _, d := range f.Decls {
			gd, ok := d.(*ast.GenDecl)
			if !ok || gd.Tok != token.TYPE {
				continue
			}
			for _, sp := range gd.Specs {
				ts := sp.(*ast.TypeSpec)
				if id, ok := ts.Type.(*ast.Ident); ok {
					e.typedefU["typedef."+ts.Name.Name] = id.Name
				}
			}
		}
		if err := collectConsts(e, f, e.typedefC, func(n string) bool { return strings.HasSuffix(n, "Invalid") || strings.HasPrefix(n, "MesgNum") }); err != nil {
			return nil, err
		}
	}
	// proto/value.go: accessors and constructors
	vf, err := parser.ParseFile(e.fset, filepath.Join(repo, "proto/value.go"), nil, 0)
	if err != nil {
		return nil, err
	}
	reNumAcc := regexp.MustCompile(`^\{ if v\.ptr != ptr(\w+) \{ return (.+?) \} return (.+) \}$`)
	reArrAcc := regexp.MustCompile(`^\{ if v\.Type\(\) != TypeSlice(\w+) \{ return nil \} return unsafe\.Slice\(\(\*([\w.]+)\)\(v\.ptr\), v\.num&vmask\) \}$`)
	reStrAcc := regexp.MustCompile(`^\{ if v\.Type\(\) != TypeString \{ return basetype\.StringInvalid \} return unsafe\.String\(\(\*byte\)\(v\.ptr\), v\.num&vmask\) \}$`)
	reNumCtor := regexp.MustCompile(`^\{ return Value\{num: (.+), ptr: ptr(\w+)\} \}$`)
	reArrCtor := regexp.MustCompile(`^\{ return Value\{num: uint64\(TypeSlice(\w+)\)<<vshift \| uint64\(len\(s\)\), ptr: unsafe\.Pointer\(unsafe\.SliceData\(s\)\)\} \}$`)
	reBoolCtor := regexp.MustCompile(`^\{ num := uint64\(v\) if v > 1 \{ num = uint64\(typedef\.BoolInvalid\) \} return Value\{num: num, ptr: ptrBool\} \}$`)
	reStrCtor := regexp.MustCompile(`^\{ return Value\{num: uint64\(TypeString\)<<vshift \| uint64\(len\(v\)\), ptr: unsafe\.Pointer\(unsafe\.StringData\(v\)\)\} \}$`)
	for _, d := range vf.Decls {
		fd, ok := d.(*ast.FuncDecl)
		if !ok || fd.Body == nil {
			continue
		}
		body := squash(e.src(fd.Body))
		name := fd.Name.Name
		if fd.Recv != nil { // mdAccessor candidates
			if m := reNumAcc.FindStringSubmatch(body); m != nil {
				nt, ok := tagNtype[m[1]]
				if !ok {
					return nil, fmt.Errorf("value.go %s: tag %s", name, m[1])
				}
				var inv uint64
				switch {
				case strings.HasPrefix(m[2], "basetype."):
					c, ok := e.basetype[strings.TrimPrefix(m[2], "basetype.")]
					if !ok {
						return nil, fmt.Errorf("value.go %s: constant %s", name, m[2])
					}
					inv = c.val
				case strings.HasPrefix(m[2], "typedef."):
					c, ok := e.typedefC[strings.TrimPrefix(m[2], "typedef.")]
					if !ok {
						return nil, fmt.Errorf("value.go %s: constant %s", name, m[2])
					}
					inv = c.val
				case strings.HasPrefix(m[2], "math.Float32frombits(basetype.") || strings.HasPrefix(m[2], "math.Float64frombits(basetype."):
					cn := strings.TrimSuffix(m[2][strings.Index(m[2], "basetype.")+9:], ")")
					c, ok := e.basetype[cn]
					if !ok {
						return nil, fmt.Errorf("value.go %s: constant %s", name, cn)
					}
					inv = c.val
				default:
					return nil, fmt.Errorf("value.go %s: mismatch result %s", name, m[2])
				}
				inv &= widthMask(nt)
				e.accessors[name] = mdAccessor{kind: "num", nt: nt, inv: inv}
			} else if m := reArrAcc.FindStringSubmatch(body); m != nil {
				if m[1] == "String" {
					e.accessors[name] = mdAccessor{kind: "strs"}
				} else {
					nt, ok := tagNtype[m[1]]
					if !ok {
						return nil, fmt.Errorf("value.go %s: tag %s", name, m[1])
					}
					e.accessors[name] = mdAccessor{kind: "arr", nt: nt}
				}
			} else if reStrAcc.MatchString(body) {
				e.accessors[name] = mdAccessor{kind: "str"}
			}
			continue
		}
		if m := reNumCtor.FindStringSubmatch(body); m != nil {
			nt, ok := tagNtype[m[2]]
			if !ok {
				return nil, fmt.Errorf("value.go %s: tag %s", name, m[2])
			}
			e.ctors[name] = "num:" + nt
		} else if m := reArrCtor.FindStringSubmatch(body); m != nil {
			if m[1] == "String" {
				e.ctors[name] = "strs"
			} else {
				nt, ok := tagNtype[m[1]]
				if !ok {
					return nil, fmt.Errorf("value.go %s: tag %s", name, m[1])
				}
				e.ctors[name] = "arr:" + nt
			}
		} else if reStrCtor.MatchString(body) {
			e.ctors[name] = "str"
		} else if reBoolCtor.MatchString(body) { // the model's CNum TBool maps every value above 1 to BoolInvalid, as this body does
			if c, ok := e.typedefC["BoolInvalid"]; !ok || c.val != 255 {
				return nil, fmt.Errorf("typedef.BoolInvalid is not 255")
			}
			e.ctors[name] = "num:TBool"
		}
	}
	if len(e.accessors) < 24 || len(e.ctors) < 24 {
		return nil, fmt.Errorf("proto/value.go: recognised only %d accessors and %d constructors", len(e.accessors), len(e.ctors))
	}
	return e, nil
}

func widthMask(nt string) uint64 {
	switch nt {
	case "TBool", "TI8", "TU8":
		return 0xFF
	case "TI16", "TU16":
		return 0xFFFF
	case "TI32", "TU32", "TF32":
		return 0xFFFFFFFF
	}
	return math.MaxUint64
}

// resolved struct field type
type goType struct {
	kind  string // "num" | "time" | "arr" | "fix" | "str" | "strs" | "fixstr"
	nt    string // ntype of the element (num/arr/fix)
	isTd  string // typedef name if the element type is typedef.X
	n     uint64 // fixed length
	print string
}

func (e *mdEnv) elemType(x ast.Expr) (nt, td string, isStr bool, err error) {
	switch t := x.(type) {
	case *ast.Ident:
		if t.Name == "string" {
			return "", "", true, nil
		}
		if nt, ok := goNtype[t.Name]; ok {
			return nt, "", false, nil
		}
	case *ast.SelectorExpr:
		if id, ok := t.X.(*ast.Ident); ok && (id.Name == "typedef" || id.Name == "basetype") {
			q := id.Name + "." + t.Sel.Name
			u, ok := e.typedefU[q]
			if !ok {
				return "", "", false, fmt.Errorf("unknown type %s", q)
			}
			nt, ok := goNtype[u]
			if !ok {
				return "", "", false, fmt.Errorf("%s has underlying %s", q, u)
			}
			if q == "typedef.Bool" {
				nt = "TBool"
			}
			return nt, q, false, nil
		}
	}
	return "", "", false, fmt.Errorf("unsupported element type %s", e.src(x))
}

func (e *mdEnv) resolveType(x ast.Expr) (goType, error) {
	p := e.src(x)
	if p == "time.Time" {
		return goType{kind: "time", print: p}, nil
	}
	if at, ok := x.(*ast.ArrayType); ok {
		nt, td, isStr, err := e.elemType(at.Elt)
		if err != nil {
			return goType{}, err
		}
		if at.Len == nil {
			if isStr {
				return goType{kind: "strs", print: p}, nil
			}
			return goType{kind: "arr", nt: nt, isTd: td, print: p}, nil
		}
		n, ok := intLit(at.Len)
		if !ok {
			return goType{}, fmt.Errorf("array length %s", e.src(at.Len))
		}
		if isStr {
			return goType{kind: "fixstr", n: n, print: p}, nil
		}
		return goType{kind: "fix", nt: nt, isTd: td, n: n, print: p}, nil
	}
	nt, td, isStr, err := e.elemType(x)
	if err != nil {
		return goType{}, err
	}
	if isStr {
		return goType{kind: "str", print: p}, nil
	}
	return goType{kind: "num", nt: nt, isTd: td, print: p}, nil
}

type mdField struct {
	name     string
	typ      goType
	idx      uint64 // Reset: vals[idx]
	acc      string // Coq term
	form     string // census
	hasReset bool
	// ToMesg
	hasTo  bool
	guard  string
	gform  string
	num    uint64
	ctor   string
	exp    string // "None" | "(Some n)"
	order  int
	scaled []string
}

type mdSpec struct {
	name, file          string
	num                 uint64
	valsLen, bound      uint64
	stateLen, expBound  uint64
	stateField          uint64 // struct's state array length
	isExpBound          uint64
	hasIsExp, hasMark   bool
	hasDevs             bool
	markCases, docCases []uint64
	fields              []*mdField
	byName              map[string]*mdField
	scaled              []string
}

// constant expression -> (value bits, ok)
func (e *mdEnv) constExpr(x ast.Expr, nt string) (uint64, string, error) {
	if v, ok := intLit(x); ok {
		return v & widthMask(nt), "literal", nil
	}
	if se, ok := x.(*ast.SelectorExpr); ok {
		if id, ok := se.X.(*ast.Ident); ok {
			switch id.Name {
			case "basetype":
				c, ok := e.basetype[se.Sel.Name]
				if ok && !c.str {
					return c.val & widthMask(nt), "basetype." + se.Sel.Name, nil
				}
			case "typedef":
				c, ok := e.typedefC[se.Sel.Name]
				if ok && !c.str {
					return c.val & widthMask(nt), "typedef." + se.Sel.Name, nil
				}
			}
		}
	}
	return 0, "", fmt.Errorf("unsupported constant %s", e.src(x))
}

func (e *mdEnv) isStringInvalid(x ast.Expr) bool {
	if se, ok := x.(*ast.SelectorExpr); ok {
		if id, ok := se.X.(*ast.Ident); ok && id.Name == "basetype" {
			c, ok := e.basetype[se.Sel.Name]
			return ok && c.str
		}
	}
	return false
}

var reValsAcc = regexp.MustCompile(`^\(?vals\[(\d+)\]\)?\.(\w+)\(\)$`)

// vals[N].Acc() or (vals[N]).Acc()
func (e *mdEnv) valsAccess(x ast.Expr) (uint64, mdAccessor, string, error) {
	m := reValsAcc.FindStringSubmatch(squash(e.src(x)))
	if m == nil {
		return 0, mdAccessor{}, "", fmt.Errorf("not a vals[N].Accessor() expression: %s", squash(e.src(x)))
	}
	ce, ok := x.(*ast.CallExpr)
	if !ok || len(ce.Args) != 0 {
		return 0, mdAccessor{}, "", fmt.Errorf("not a call: %s", e.src(x))
	}
	idx, _ := strconv.ParseUint(m[1], 10, 64)
	a, ok := e.accessors[m[2]]
	if !ok {
		return 0, mdAccessor{}, "", fmt.Errorf("unknown proto.Value mdAccessor %s", m[2])
	}
	return idx, a, m[2], nil
}

func (e *mdEnv) resetExpr(f *mdField, x ast.Expr) error {
	t := f.typ
	fail := func(format string, a ...any) error {
		return fmt.Errorf("Reset field %s (%s): %s", f.name, t.print, fmt.Sprintf(format, a...))
	}
	// closure forms
	if ce, ok := x.(*ast.CallExpr); ok {
		if fl, ok := ce.Fun.(*ast.FuncLit); ok {
			if len(ce.Args) != 0 {
				return fail("closure with arguments")
			}
			sig := squash(e.src(fl.Type))
			body := squash(e.src(fl.Body))
			switch t.kind {
			case "arr": // typed slice
				re := regexp.MustCompile(`^\{ sliceValue := (\(?vals\[\d+\]\)?\.\w+\(\)) ptr := unsafe\.SliceData\(sliceValue\) return unsafe\.Slice\(\(\*([\w.]+)\)\(ptr\), len\(sliceValue\)\) \}$`)
				m := re.FindStringSubmatch(body)
				if m == nil || sig != "func() []"+t.isTd || m[2] != t.isTd {
					return fail("typed-slice closure not recognised: %s %s", sig, body)
				}
				inner := fl.Body.List[0].(*ast.AssignStmt).Rhs[0]
				idx, a, _, err := e.valsAccess(inner)
				if err != nil {
					return fail("%v", err)
				}
				if a.kind != "arr" {
					return fail("typed slice over non-slice mdAccessor")
				}
				if goNtype[e.typedefU[t.isTd]] != a.nt {
					return fail("typed slice reinterprets %s as %s (%s)", a.nt, t.isTd, e.typedefU[t.isTd])
				}
				f.idx, f.acc, f.form = idx, "AArr "+a.nt, "typedslice"
				return nil
			case "fix", "fixstr":
				if len(fl.Body.List) != 3 {
					return fail("fixed-array closure has %d statements", len(fl.Body.List))
				}
				as, ok := fl.Body.List[0].(*ast.AssignStmt)
				if !ok || len(as.Lhs) != 1 || e.src(as.Lhs[0]) != "arr" || as.Tok != token.ASSIGN {
					return fail("fixed-array closure: first statement")
				}
				cl, ok := as.Rhs[0].(*ast.CompositeLit)
				if !ok || canon(squash(e.src(cl.Type))) != canon(t.print) || canon(sig) != "func() (arr "+canon(t.print)+")" {
					return fail("fixed-array closure: literal type %s / signature %s", e.src(cl.Type), sig)
				}
				if uint64(len(cl.Elts)) != t.n {
					return fail("fixed-array literal has %d elements for length %d", len(cl.Elts), t.n)
				}
				var fill uint64
				for i, el := range cl.Elts {
					if t.kind == "fixstr" {
						if !e.isStringInvalid(el) {
							return fail("fixed string array fill %s", e.src(el))
						}
						continue
					}
					v, _, err := e.constExpr(el, t.nt)
					if err != nil {
						return fail("%v", err)
					}
					if i > 0 && v != fill {
						return fail("fixed-array fill values differ")
					}
					fill = v
				}
				cp, ok := fl.Body.List[1].(*ast.ExprStmt)
				if !ok {
					return fail("fixed-array closure: second statement")
				}
				cpc, ok := cp.X.(*ast.CallExpr)
				if !ok || e.src(cpc.Fun) != "copy" || len(cpc.Args) != 2 || e.src(cpc.Args[0]) != "arr[:]" {
					return fail("fixed-array closure: copy form %s", e.src(cp))
				}
				if squash(e.src(fl.Body.List[2])) != "return arr" {
					return fail("fixed-array closure: return form")
				}
				idx, a, _, err := e.valsAccess(cpc.Args[1])
				if err != nil {
					return fail("%v", err)
				}
				if t.kind == "fixstr" {
					if a.kind != "strs" {
						return fail("fixed string array over mdAccessor kind %s", a.kind)
					}
					f.idx, f.acc, f.form = idx, fmt.Sprintf("AFixStr %d", t.n), "fixed"
					return nil
				}
				if a.kind != "arr" || a.nt != t.nt {
					return fail("fixed array of %s over mdAccessor %s %s", t.nt, a.kind, a.nt)
				}
				f.idx, f.acc, f.form = idx, fmt.Sprintf("AFix %s %d %d", a.nt, t.n, fill), "fixed"
				return nil
			}
			return fail("closure for type kind %s", t.kind)
		}
		fun := squash(e.src(ce.Fun))
		if fun == "datetime.ToTime" {
			if t.kind != "time" || len(ce.Args) != 1 {
				return fail("datetime.ToTime on non-time field")
			}
			idx, a, an, err := e.valsAccess(ce.Args[0])
			if err != nil {
				return fail("%v", err)
			}
			if an != "Uint32" || a.kind != "num" {
				return fail("datetime.ToTime over mdAccessor %s", an)
			}
			f.idx, f.acc, f.form = idx, fmt.Sprintf("ATime %d", a.inv), "time"
			return nil
		}
		if (strings.HasPrefix(fun, "typedef.") || strings.HasPrefix(fun, "basetype.")) && len(ce.Args) == 1 {
			if t.kind != "num" || t.isTd != fun {
				return fail("cast %s on field of type %s", fun, t.print)
			}
			idx, a, an, err := e.valsAccess(ce.Args[0])
			if err != nil {
				return fail("%v", err)
			}
			if a.kind != "num" {
				return fail("cast over mdAccessor %s", an)
			}
			if goNtype[e.typedefU[t.isTd]] != a.nt { // Go's conversion between different widths would change the value
				return fail("cast %s(%s) converts %s to %s", fun, an, a.nt, e.typedefU[t.isTd])
			}
			f.idx, f.acc, f.form = idx, fmt.Sprintf("ANum %s %d", a.nt, a.inv), "cast"
			return nil
		}
	}
	idx, a, an, err := e.valsAccess(x)
	if err != nil {
		return fail("%v", err)
	}
	f.idx, f.form = idx, "plain"
	switch a.kind {
	case "num":
		if t.kind != "num" || (t.isTd != "" && t.isTd != "typedef.Bool") || (t.nt != a.nt) {
			return fail("mdAccessor %s on field type", an)
		}
		f.acc = fmt.Sprintf("ANum %s %d", a.nt, a.inv)
	case "arr":
		if t.kind != "arr" || t.nt != a.nt || (t.isTd != "" && t.isTd != "typedef.Bool") {
			return fail("mdAccessor %s on field type", an)
		}
		f.acc = "AArr " + a.nt
	case "str":
		if t.kind != "str" {
			return fail("mdAccessor %s on field type", an)
		}
		f.acc = "AStr"
	case "strs":
		if t.kind != "strs" {
			return fail("mdAccessor %s on field type", an)
		}
		f.acc = "AStrs"
	}
	return nil
}

var (
	reResetVars = regexp.MustCompile(`^var \( vals \[(\d+)\]proto\.Value (?:state \[(\d+)\]uint8 )?unknownFields \[\]proto\.Field (developerFields \[\]proto\.DeveloperField )?\)$`)
	reResetLoop = regexp.MustCompile(`^if mesg != nil \{ arr := pool\.Get\(\)\.\(\*\[poolsize\]proto\.Field\) unknownFields = arr\[:0\] for i := range mesg\.Fields \{ ` +
		`if mesg\.Fields\[i\]\.Num > (\d+) \|\| mesg\.Fields\[i\]\.Name == factory\.NameUnknown \{ unknownFields = append\(unknownFields, mesg\.Fields\[i\]\) continue \} ` +
		`(?:if mesg\.Fields\[i\]\.Num < (\d+) && mesg\.Fields\[i\]\.IsExpandedField \{ pos := mesg\.Fields\[i\]\.Num / 8 state\[pos\] \|= 1 << \(mesg\.Fields\[i\]\.Num - \(8 \* pos\)\) \} )?` +
		`vals\[mesg\.Fields\[i\]\.Num\] = mesg\.Fields\[i\]\.Value \} unknownFields = sliceutil\.Clone\(unknownFields\) \*arr = \[poolsize\]proto\.Field\{\} pool\.Put\(arr\) (developerFields = mesg\.DeveloperFields )?\}$`)
	reToPrefix  = regexp.MustCompile(`^(?:if options == nil \{ options = defaultOptions \} else if options\.Factory == nil \{ options\.Factory = factory\.StandardFactory\(\) \} fac := options\.Factory|if options == nil \{ options = defaultOptions \} fac := options\.Factory if fac == nil \{ fac = factory\.StandardFactory\(\) \}) arr := pool\.Get\(\)\.\(\*\[poolsize\]proto\.Field\) fields := arr\[:0\] mesg := proto\.Message\{Num: typedef\.(MesgNum\w+)\}$`)
	toSuffixA   = `for i := range m.UnknownFields { fields = append(fields, m.UnknownFields[i]) } mesg.Fields = make([]proto.Field, len(fields)) copy(mesg.Fields, fields) *arr = [poolsize]proto.Field{} pool.Put(arr) `
	toSuffixB   = `return mesg`
	toSuffixD   = `mesg.DeveloperFields = m.DeveloperFields `
	rePlainBody = regexp.MustCompile(`^\{ field := fac\.CreateField\(mesg\.Num, (\d+)\) field\.Value = (.+) fields = append\(fields, field\) \}$`)
	reFixBody   = regexp.MustCompile(`^\{ field := fac\.CreateField\(mesg\.Num, (\d+)\) copied := m\.(\w+) field\.Value = proto\.(\w+)\(copied\[:\]\) fields = append\(fields, field\) \}$`)
	reExpBody   = regexp.MustCompile(`^\{ if expanded := m\.IsExpandedField\((\d+)\); !expanded \|\| \(expanded && options\.IncludeExpandedFields\) \{ field := fac\.CreateField\(mesg\.Num, (\d+)\) field\.Value = (.+) field\.IsExpandedField = expanded fields = append\(fields, field\) \} \}$`)
	reIsExp     = regexp.MustCompile(`^\{ if fieldNum >= (\d+) \{ return false \} pos := fieldNum / 8 bit := uint8\(1\) << \(fieldNum - \(8 \* pos\)\) return m\.state\[pos\]&bit == bit \}$`)
	reMark      = regexp.MustCompile(`^\{ switch fieldNum \{ case ([\d, ]+): default: return false \} pos := fieldNum / 8 bit := uint8\(1\) << \(fieldNum - \(8 \* pos\)\) m\.state\[pos\] &\^= bit if flag \{ m\.state\[pos\] \|= bit \} return true \}$`)
)

func (e *mdEnv) stmtsSrc(list []ast.Stmt) string {
	parts := make([]string, len(list))
	for i, s := range list {
		parts[i] = squash(e.src(s))
	}
	return strings.Join(parts, " ")
}

// value constructor expression of a ToMesg block
func (e *mdEnv) ctorExpr(f *mdField, src string) error {
	t := f.typ
	fail := func(format string, a ...any) error {
		return fmt.Errorf("ToMesg field %s: %s", f.name, fmt.Sprintf(format, a...))
	}
	m := regexp.MustCompile(`^proto\.(\w+)\((.+)\)$`).FindStringSubmatch(src)
	if m == nil {
		return fail("value expression %s", src)
	}
	c, ok := e.ctors[m[1]]
	if !ok {
		return fail("unknown constructor proto.%s", m[1])
	}
	arg := m[2]
	mx := "m." + f.name
	switch t.kind {
	case "time":
		if c != "num:TU32" || arg != "uint32("+mx+".Sub(datetime.Epoch()).Seconds())" {
			return fail("time value expression %s", src)
		}
		f.ctor = "CTime"
	case "num":
		if !strings.HasPrefix(c, "num:") {
			return fail("constructor proto.%s on scalar", m[1])
		}
		cnt := strings.TrimPrefix(c, "num:")
		okArg := arg == mx
		if t.isTd != "" && t.isTd != "typedef.Bool" { // cast of a typedef to its underlying type (same width, else the value would change)
			u := e.typedefU[t.isTd]
			okArg = (arg == u+"("+mx+")" || (u == "byte" && arg == "uint8("+mx+")") || (u == "uint8" && arg == "byte("+mx+")")) && goNtype[u] == cnt
		}
		if !okArg {
			return fail("argument %s of proto.%s for field type %s", arg, m[1], t.print)
		}
		f.ctor = "CNum " + cnt
	case "arr":
		if !strings.HasPrefix(c, "arr:") || arg != mx {
			return fail("constructor %s on slice", src)
		}
		f.ctor = "CArr " + strings.TrimPrefix(c, "arr:")
	case "str":
		if c != "str" || arg != mx {
			return fail("constructor %s on string", src)
		}
		f.ctor = "CStr"
	case "strs":
		if c != "strs" || arg != mx {
			return fail("constructor %s on []string", src)
		}
		f.ctor = "CStrs"
	default:
		return fail("constructor %s on kind %s", src, t.kind)
	}
	return nil
}

func (e *mdEnv) toMesgBlock(sp *mdSpec, is *ast.IfStmt, order int) error {
	if is.Init != nil || is.Else != nil {
		return fmt.Errorf("ToMesg: if with init/else: %s", squash(e.src(is.Cond)))
	}
	cond := squash(e.src(is.Cond))
	var fname, guard, gform string
	var fld *mdField
	lookup := func(n string) error {
		f, ok := sp.byName[n]
		if !ok {
			return fmt.Errorf("ToMesg: guard on unknown struct field %s", n)
		}
		if f.hasTo {
			return fmt.Errorf("ToMesg: second block for struct field %s", n)
		}
		fld, fname = f, n
		return nil
	}
	switch c := is.Cond.(type) {
	case *ast.UnaryExpr: // !m.X.Before(datetime.Epoch())
		m := regexp.MustCompile(`^!m\.(\w+)\.Before\(datetime\.Epoch\(\)\)$`).FindStringSubmatch(cond)
		if m == nil {
			return fmt.Errorf("ToMesg: guard %s", cond)
		}
		if err := lookup(m[1]); err != nil {
			return err
		}
		if fld.typ.kind != "time" {
			return fmt.Errorf("ToMesg: time guard on %s", fname)
		}
		guard, gform = "GTime", "time"
	case *ast.BinaryExpr:
		lhs := squash(e.src(c.X))
		if m := regexp.MustCompile(`^math\.Float32bits\(m\.(\w+)\)$`).FindStringSubmatch(lhs); m != nil {
			if err := lookup(m[1]); err != nil {
				return err
			}
			if c.Op != token.NEQ || fld.typ.kind != "num" || fld.typ.nt != "TF32" {
				return fmt.Errorf("ToMesg: float guard %s", cond)
			}
			v, _, err := e.constExpr(c.Y, "TF32")
			if err != nil {
				return fmt.Errorf("ToMesg %s: %v", fname, err)
			}
			guard, gform = fmt.Sprintf("GNeq %d", v), "neq"
			break
		}
		m := regexp.MustCompile(`^m\.(\w+)$`).FindStringSubmatch(lhs)
		if m == nil {
			return fmt.Errorf("ToMesg: guard %s", cond)
		}
		if err := lookup(m[1]); err != nil {
			return err
		}
		t := fld.typ
		switch {
		case c.Op == token.LSS:
			k, ok := intLit(c.Y)
			if !ok || t.kind != "num" || t.isTd != "typedef.Bool" {
				return fmt.Errorf("ToMesg: guard %s on %s", cond, t.print)
			}
			guard, gform = fmt.Sprintf("GLt %d", k), "boollt"
		case c.Op != token.NEQ:
			return fmt.Errorf("ToMesg: guard operator in %s", cond)
		case e.src(c.Y) == "nil":
			if t.kind != "arr" && t.kind != "strs" {
				return fmt.Errorf("ToMesg: nil guard on %s", t.print)
			}
			guard, gform = "GNotNil", "notnil"
		case t.kind == "str":
			if !e.isStringInvalid(c.Y) {
				return fmt.Errorf("ToMesg: string guard %s", cond)
			}
			guard, gform = "GStrNeq", "neq"
		case t.kind == "fix" || t.kind == "fixstr":
			cl, ok := c.Y.(*ast.CompositeLit)
			if !ok || canon(squash(e.src(cl.Type))) != canon(t.print) || uint64(len(cl.Elts)) != t.n {
				return fmt.Errorf("ToMesg: fixed-array guard %s", cond)
			}
			var fill uint64
			for i, el := range cl.Elts {
				if t.kind == "fixstr" {
					if !e.isStringInvalid(el) {
						return fmt.Errorf("ToMesg: fixed string guard element %s", e.src(el))
					}
					continue
				}
				v, _, err := e.constExpr(el, t.nt)
				if err != nil {
					return fmt.Errorf("ToMesg %s: %v", fname, err)
				}
				if i > 0 && v != fill {
					return fmt.Errorf("ToMesg %s: fixed-array guard elements differ", fname)
				}
				fill = v
			}
			if t.kind == "fixstr" {
				guard = fmt.Sprintf("GFixStrNeq %d", t.n)
			} else {
				guard = fmt.Sprintf("GFixNeq %d %d", t.n, fill)
			}
			gform = "fixedcmp"
		case t.kind == "num":
			v, how, err := e.constExpr(c.Y, t.nt)
			if err != nil {
				return fmt.Errorf("ToMesg %s: %v", fname, err)
			}
			guard, gform = fmt.Sprintf("GNeq %d", v), "neq"
			if how == "literal" {
				gform = "neq-literal"
			}
		default:
			return fmt.Errorf("ToMesg: guard %s on %s", cond, t.print)
		}
	default:
		return fmt.Errorf("ToMesg: guard %s", cond)
	}
	body := squash(e.src(is.Body))
	fld.guard, fld.gform, fld.order, fld.hasTo, fld.exp = guard, gform, order, true, "None"
	if m := reExpBody.FindStringSubmatch(body); m != nil {
		a, _ := strconv.ParseUint(m[1], 10, 64)
		fld.num, _ = strconv.ParseUint(m[2], 10, 64)
		fld.exp = fmt.Sprintf("(Some %d)", a)
		return e.ctorExpr(fld, m[3])
	}
	if m := reFixBody.FindStringSubmatch(body); m != nil {
		fld.num, _ = strconv.ParseUint(m[1], 10, 64)
		if m[2] != fname {
			return fmt.Errorf("ToMesg %s: copies m.%s", fname, m[2])
		}
		c := e.ctors[m[3]]
		switch {
		case fld.typ.kind == "fix" && strings.HasPrefix(c, "arr:"):
			fld.ctor = "CArr " + strings.TrimPrefix(c, "arr:")
		case fld.typ.kind == "fixstr" && c == "strs":
			fld.ctor = "CStrs"
		default:
			return fmt.Errorf("ToMesg %s: constructor proto.%s on fixed array", fname, m[3])
		}
		return nil
	}
	if m := rePlainBody.FindStringSubmatch(body); m != nil {
		fld.num, _ = strconv.ParseUint(m[1], 10, 64)
		if fld.typ.kind == "fix" || fld.typ.kind == "fixstr" {
			return fmt.Errorf("ToMesg %s: fixed array without copy", fname)
		}
		return e.ctorExpr(fld, m[2])
	}
	return fmt.Errorf("ToMesg %s: block body not recognised: %s", fname, body)
}

// scale/offset literal -> float64 bits
func floatLitBits(x ast.Expr) (uint64, error) {
	neg := false
	if u, ok := x.(*ast.UnaryExpr); ok && u.Op == token.SUB {
		neg, x = true, u.X
	}
	if p, ok := x.(*ast.ParenExpr); ok {
		return floatLitBits(p.X)
	}
	bl, ok := x.(*ast.BasicLit)
	if !ok || (bl.Kind != token.INT && bl.Kind != token.FLOAT) {
		return 0, fmt.Errorf("not a numeric literal")
	}
	v, err := strconv.ParseFloat(bl.Value, 64)
	if err != nil {
		return 0, err
	}
	if neg {
		v = -v
	}
	return math.Float64bits(v), nil
}

// scaledLiterals finds `float64(m.X[...])/S - O` (getter) or `(v + O) * S` (setter) inside an XxxScaled / SetXxxScaled method.
func (e *mdEnv) scaledLiterals(sp *mdSpec, fd *ast.FuncDecl) error {
	name := fd.Name.Name
	setter := strings.HasPrefix(name, "Set")
	fname := strings.TrimSuffix(strings.TrimPrefix(name, "Set"), "Scaled")
	f, ok := sp.byName[fname]
	if !ok {
		return fmt.Errorf("%s: no struct field %s", name, fname)
	}
	found := 0
	var ferr error
	ast.Inspect(fd.Body, func(n ast.Node) bool {
		be, ok := n.(*ast.BinaryExpr)
		if !ok {
			return true
		}
		if !setter && (be.Op == token.SUB || be.Op == token.ADD) {
			if div, ok := be.X.(*ast.BinaryExpr); ok && div.Op == token.QUO && strings.HasPrefix(squash(e.src(div.X)), "float64(m."+fname) {
				s, err1 := floatLitBits(div.Y)
				o, err2 := floatLitBits(be.Y)
				if err1 != nil || err2 != nil {
					ferr = fmt.Errorf("%s: literal form %s", name, e.src(be))
					return false
				}
				if be.Op == token.ADD {
					o = math.Float64bits(-math.Float64frombits(o))
				}
				f.scaled = append(f.scaled, fmt.Sprintf("(false, %d, %d)", s, o))
				found++
				return false
			}
		}
		if setter && be.Op == token.MUL {
			if p, ok := be.X.(*ast.ParenExpr); ok {
				if add, ok := p.X.(*ast.BinaryExpr); ok && (add.Op == token.ADD || add.Op == token.SUB) {
					lhs := squash(e.src(add.X))
					if lhs == "v" || lhs == "vs[i]" {
						s, err1 := floatLitBits(be.Y)
						o, err2 := floatLitBits(add.Y)
						if err1 != nil || err2 != nil {
							ferr = fmt.Errorf("%s: literal form %s", name, e.src(be))
							return false
						}
						if add.Op == token.SUB {
							o = math.Float64bits(-math.Float64frombits(o))
						}
						f.scaled = append(f.scaled, fmt.Sprintf("(true, %d, %d)", s, o))
						found++
						return false
					}
				}
			}
		}
		return true
	})
	if ferr != nil {
		return ferr
	}
	if found != 1 {
		return fmt.Errorf("%s: %d scale/offset expressions found", name, found)
	}
	return nil
}

func (e *mdEnv) translateFile(file string, f *ast.File) (*mdSpec, error) {
	sp := &mdSpec{file: file, byName: map[string]*mdField{}}
	// the struct
	var st *ast.StructType
	for _, d := range f.Decls {
		gd, ok := d.(*ast.GenDecl)
		if !ok || gd.Tok != token.TYPE {
			continue
		}
		for _, s := range gd.Specs {
			ts := s.(*ast.TypeSpec)
			if x, ok := ts.Type.(*ast.StructType); ok {
				if st != nil {
					return nil, fmt.Errorf("more than one struct type")
				}
				st, sp.name = x, ts.Name.Name
			}
		}
	}
	if st == nil {
		return nil, fmt.Errorf("no struct type")
	}
	seenUnknown, seenDev := false, false
	for _, fl := range st.Fields.List {
		for _, n := range fl.Names {
			ts := squash(e.src(fl.Type))
			switch n.Name {
			case "state":
				m := regexp.MustCompile(`^\[(\d+)\]uint8$`).FindStringSubmatch(ts)
				if m == nil {
					return nil, fmt.Errorf("state field of type %s", ts)
				}
				sp.stateField, _ = strconv.ParseUint(m[1], 10, 64)
			case "UnknownFields":
				if ts != "[]proto.Field" {
					return nil, fmt.Errorf("UnknownFields of type %s", ts)
				}
				seenUnknown = true
			case "DeveloperFields":
				if ts != "[]proto.DeveloperField" {
					return nil, fmt.Errorf("DeveloperFields of type %s", ts)
				}
				seenDev = true
			default:
				gt, err := e.resolveType(fl.Type)
				if err != nil {
					return nil, fmt.Errorf("struct field %s: %v", n.Name, err)
				}
				mf := &mdField{name: n.Name, typ: gt}
				sp.fields = append(sp.fields, mf)
				sp.byName[n.Name] = mf
			}
		}
	}
	if !seenUnknown {
		return nil, fmt.Errorf("struct lacks UnknownFields")
	}
	sp.hasDevs = seenDev
	var fNew, fReset, fTo, fIs, fMark *ast.FuncDecl
	for _, d := range f.Decls {
		fd, ok := d.(*ast.FuncDecl)
		if !ok {
			continue
		}
		switch n := fd.Name.Name; {
		case fd.Recv == nil && n == "New"+sp.name:
			fNew = fd
		case fd.Recv == nil:
			return nil, fmt.Errorf("unexpected function %s", n)
		case n == "Reset":
			fReset = fd
		case n == "ToMesg":
			fTo = fd
		case n == "IsExpandedField":
			fIs = fd
		case n == "MarkAsExpandedField":
			fMark = fd
		case strings.HasSuffix(n, "Scaled"):
			if err := e.scaledLiterals(sp, fd); err != nil {
				return nil, err
			}
		}
	}
	if fNew == nil || fReset == nil || fTo == nil {
		return nil, fmt.Errorf("New%s/Reset/ToMesg missing", sp.name)
	}
	if got, want := squash(e.src(fNew.Body)), "{ m := new("+sp.name+") m.Reset(mesg) return m }"; got != want {
		return nil, fmt.Errorf("New%s body: %s", sp.name, got)
	}
	// ---- Reset
	rl := fReset.Body.List
	if len(rl) != 3 {
		return nil, fmt.Errorf("Reset has %d statements", len(rl))
	}
	m := reResetVars.FindStringSubmatch(squash(e.src(rl[0])))
	if m == nil {
		return nil, fmt.Errorf("Reset: variable block not recognised: %s", squash(e.src(rl[0])))
	}
	sp.valsLen, _ = strconv.ParseUint(m[1], 10, 64)
	if (m[3] != "") != sp.hasDevs {
		return nil, fmt.Errorf("Reset: developerFields variable does not match the struct")
	}
	if m[2] != "" {
		sp.stateLen, _ = strconv.ParseUint(m[2], 10, 64)
	}
	m2 := reResetLoop.FindStringSubmatch(squash(e.src(rl[1])))
	if m2 == nil {
		return nil, fmt.Errorf("Reset: field loop not recognised: %s", squash(e.src(rl[1])))
	}
	sp.bound, _ = strconv.ParseUint(m2[1], 10, 64)
	if (m2[3] != "") != sp.hasDevs {
		return nil, fmt.Errorf("Reset: developerFields assignment does not match the struct")
	}
	if m2[2] != "" {
		sp.expBound, _ = strconv.ParseUint(m2[2], 10, 64)
		if m[2] == "" {
			return nil, fmt.Errorf("Reset: expanded marks without state array")
		}
	} else if m[2] != "" {
		return nil, fmt.Errorf("Reset: state array without the marking statement")
	}
	as, ok := rl[2].(*ast.AssignStmt)
	if !ok || len(as.Lhs) != 1 || squash(e.src(as.Lhs[0])) != "*m" || as.Tok != token.ASSIGN {
		return nil, fmt.Errorf("Reset: final assignment form")
	}
	cl, ok := as.Rhs[0].(*ast.CompositeLit)
	if !ok || e.src(cl.Type) != sp.name {
		return nil, fmt.Errorf("Reset: composite literal of %s expected", sp.name)
	}
	gotState, gotUnknown, gotDev := false, false, false
	for _, el := range cl.Elts {
		kv, ok := el.(*ast.KeyValueExpr)
		if !ok {
			return nil, fmt.Errorf("Reset: positional element")
		}
		key := e.src(kv.Key)
		val := squash(e.src(kv.Value))
		switch key {
		case "state":
			gotState = val == "state"
		case "UnknownFields":
			gotUnknown = val == "unknownFields"
		case "DeveloperFields":
			gotDev = val == "developerFields"
		default:
			fl, ok := sp.byName[key]
			if !ok {
				return nil, fmt.Errorf("Reset: key %s is not a struct field", key)
			}
			if fl.hasReset {
				return nil, fmt.Errorf("Reset: key %s twice", key)
			}
			fl.hasReset = true
			if err := e.resetExpr(fl, kv.Value); err != nil {
				return nil, err
			}
		}
	}
	if !gotUnknown || gotDev != sp.hasDevs || gotState != (sp.stateLen != 0) || (sp.stateLen != 0) != (sp.stateField != 0) {
		return nil, fmt.Errorf("Reset: state/UnknownFields/DeveloperFields assignment missing or unexpected")
	}
	if sp.stateLen != sp.stateField {
		return nil, fmt.Errorf("Reset: local state [%d] vs struct state [%d]", sp.stateLen, sp.stateField)
	}
	// ---- ToMesg
	tl := fTo.Body.List
	first := -1
	for i, s := range tl {
		if _, ok := s.(*ast.IfStmt); ok && i > 0 {
			if strings.HasPrefix(e.stmtsSrc(tl[i:i+1]), "if fac == nil {") { // the factory default, part of the prefix
				continue
			}
			first = i
			break
		}
	}
	last := first
	for last < len(tl) {
		if _, ok := tl[last].(*ast.IfStmt); !ok {
			break
		}
		last++
	}
	if first < 0 {
		// message without fields? not expected
		return nil, fmt.Errorf("ToMesg: no field blocks")
	}
	pm := reToPrefix.FindStringSubmatch(e.stmtsSrc(tl[:first]))
	if pm == nil {
		return nil, fmt.Errorf("ToMesg: prefix not recognised: %s", e.stmtsSrc(tl[:first]))
	}
	mc, ok := e.typedefC[pm[1]]
	if !ok {
		return nil, fmt.Errorf("ToMesg: unknown constant typedef.%s", pm[1])
	}
	sp.num = mc.val
	want := toSuffixA + toSuffixB
	if sp.hasDevs {
		want = toSuffixA + toSuffixD + toSuffixB
	}
	if got := e.stmtsSrc(tl[last:]); got != want {
		return nil, fmt.Errorf("ToMesg: suffix not recognised: %s", got)
	}
	for i := first; i < last; i++ {
		if err := e.toMesgBlock(sp, tl[i].(*ast.IfStmt), i-first); err != nil {
			return nil, err
		}
	}
	for _, fl := range sp.fields {
		if !fl.hasReset || !fl.hasTo {
			return nil, fmt.Errorf("struct field %s: Reset entry %v, ToMesg block %v", fl.name, fl.hasReset, fl.hasTo)
		}
	}
	// ---- expanded helpers
	if (fIs != nil) != (sp.stateLen != 0) || (fMark != nil) != (sp.stateLen != 0) {
		return nil, fmt.Errorf("IsExpandedField/MarkAsExpandedField presence does not match the state array")
	}
	if fIs != nil {
		im := reIsExp.FindStringSubmatch(squash(e.src(fIs.Body)))
		if im == nil {
			return nil, fmt.Errorf("IsExpandedField body: %s", squash(e.src(fIs.Body)))
		}
		sp.isExpBound, _ = strconv.ParseUint(im[1], 10, 64)
		sp.hasIsExp = true
		mm := reMark.FindStringSubmatch(squash(e.src(fMark.Body)))
		if mm == nil {
			return nil, fmt.Errorf("MarkAsExpandedField body: %s", squash(e.src(fMark.Body)))
		}
		for _, c := range strings.Split(mm[1], ",") {
			v, err := strconv.ParseUint(strings.TrimSpace(c), 10, 64)
			if err != nil {
				return nil, fmt.Errorf("MarkAsExpandedField case %q", c)
			}
			sp.markCases = append(sp.markCases, v)
		}
		sp.hasMark = true
	}
	sort.SliceStable(sp.fields, func(i, j int) bool { return sp.fields[i].order < sp.fields[j].order })
	return sp, nil
}

func nlist(xs []uint64) string {
	s := make([]string, len(xs))
	for i, x := range xs {
		s[i] = strconv.FormatUint(x, 10)
	}
	return "[" + strings.Join(s, "; ") + "]"
}

func translateMesgdef(repo string) (map[string]string, error) {
	e, err := loadEnv(repo)
	if err != nil {
		return nil, err
	}
	files, err := parseDir(e.fset, filepath.Join(repo, "profile/mesgdef"), func(n string) bool {
		return strings.HasSuffix(n, "_gen.go") && n != "mesgdef_util_gen.go"
	})
	if err != nil {
		return nil, err
	}
	// base types: code, Go type of the values, invalid value -- from profile/basetype/basetype.go
	bfile, err := parser.ParseFile(e.fset, filepath.Join(repo, "profile/basetype/basetype.go"), nil, 0)
	if err != nil {
		return nil, err
	}
	codes := map[string]constVal{}
	if err := collectConsts(e, bfile, codes, func(n string) bool { return !strings.HasSuffix(n, "Invalid") && !strings.HasSuffix(n, "Mask") }); err != nil {
		return nil, err
	}
	var btNames []string
	for n, c := range codes {
		if c.typ == "BaseType" {
			btNames = append(btNames, n)
		}
	}
	sort.Slice(btNames, func(i, j int) bool { return codes[btNames[i]].val < codes[btNames[j]].val })
	var btRows []string
	for _, n := range btNames {
		inv, ok := e.basetype[n+"Invalid"]
		if !ok {
			return nil, fmt.Errorf("basetype.%sInvalid not found", n)
		}
		switch {
		case inv.str:
			btRows = append(btRows, fmt.Sprintf("(%d, None, 0)", codes[n].val))
		case n == "Float32" || n == "Float64":
			btRows = append(btRows, fmt.Sprintf("(%d, Some T%s, %d)", codes[n].val, strings.Replace(n, "Float", "F", 1), inv.val))
		default:
			nt, ok := goNtype[inv.typ]
			if !ok {
				return nil, fmt.Errorf("basetype.%sInvalid has type %s", n, inv.typ)
			}
			btRows = append(btRows, fmt.Sprintf("(%d, Some %s, %d)", codes[n].val, nt, inv.val))
		}
	}
	if len(btRows) != 17 {
		return nil, fmt.Errorf("%d base types found", len(btRows))
	}
	// profile types Bool, DateTime, LocalDateTime: position in the iota list of profile/profile_gen.go
	pfile, err := parser.ParseFile(e.fset, filepath.Join(repo, "profile/profile_gen.go"), nil, 0)
	if err != nil {
		return nil, err
	}
	ptypes := map[string]int{}
	for _, d := range pfile.Decls {
		gd, ok := d.(*ast.GenDecl)
		if !ok || gd.Tok != token.CONST || len(gd.Specs) == 0 {
			continue
		}
		vs0 := gd.Specs[0].(*ast.ValueSpec)
		if vs0.Type == nil || e.src(vs0.Type) != "ProfileType" || len(vs0.Values) != 1 || e.src(vs0.Values[0]) != "iota" {
			continue
		}
		for i, sp := range gd.Specs {
			vs := sp.(*ast.ValueSpec)
			if len(vs.Names) == 1 && len(vs.Values) == 1 && i > 0 {
				if _, ok := intLit(vs.Values[0]); ok {
					continue // explicit constant (Invalid = 65535), not one of the three needed
				}
			}
			if len(vs.Names) != 1 || (i > 0 && (vs.Type != nil || len(vs.Values) != 0)) {
				return nil, fmt.Errorf("profile_gen.go: ProfileType list entry %d has an unexpected form", i)
			}
			ptypes[vs.Names[0].Name] = i
		}
	}
	for _, n := range []string{"Bool", "DateTime", "LocalDateTime"} {
		if _, ok := ptypes[n]; !ok {
			return nil, fmt.Errorf("profile.%s not found", n)
		}
	}
	names := make([]string, 0, len(files))
	for n := range files {
		names = append(names, n)
	}
	sort.Strings(names)
	var specs []*mdSpec
	for _, n := range names {
		sp, err := e.translateFile(n, files[n])
		if err != nil {
			return nil, fmt.Errorf("%s: %v", n, err)
		}
		specs = append(specs, sp)
	}
	census := map[string]int{}
	var sb strings.Builder
	sb.WriteString("(* GENERATED by fit2coq (part mesgdef) from profile/mesgdef/*_gen.go, profile/basetype/basetype.go,\n   profile/typedef/*.go and proto/value.go -- do not edit *)\n")
	sb.WriteString("From Coq Require Import NArith List String.\nImport ListNotations.\nFrom Fit Require Import Model.Mesgdef.\nOpen Scope N_scope.\nOpen Scope string_scope.\n\n")
	var ids []string
	nslots := 0
	for _, sp := range specs {
		id := "spec_" + sp.name
		ids = append(ids, id)
		fmt.Fprintf(&sb, "Definition %s : mspec := mkspec %q %q %d %d %d %d %d %d %s %v [\n", id, sp.name, sp.file, sp.num, sp.valsLen, sp.bound,
			sp.stateLen, sp.expBound, sp.isExpBound, nlist(sp.markCases), sp.hasDevs)
		var scaled []string
		for i, f := range sp.fields {
			sep := ";"
			if i == len(sp.fields)-1 {
				sep = ""
			}
			fmt.Fprintf(&sb, "  mkmf %q %d %d (%s) (%s) (%s) %s%s\n", f.name, f.idx, f.num, f.acc, f.guard, f.ctor, f.exp, sep)
			census["reset:"+f.form]++
			census["guard:"+f.gform]++
			nslots++
			for _, s := range f.scaled {
				scaled = append(scaled, fmt.Sprintf("(%d, %s)", f.num, s))
			}
		}
		fmt.Fprintf(&sb, "] [%s].\n\n", strings.Join(scaled, "; "))
	}
	fmt.Fprintf(&sb, "Definition mspecs : list mspec := [\n  %s\n].\n\n", strings.Join(ids, ";\n  "))
	fmt.Fprintf(&sb, "(* (base type code, element type, invalid value) from profile/basetype/basetype.go; None = string *)\nDefinition basetype_table : list (N * option ntype * N) := [%s].\n", strings.Join(btRows, "; "))
	fmt.Fprintf(&sb, "Definition ptype_bool : N := %d.\nDefinition ptype_date_time : N := %d.\nDefinition ptype_local_date_time : N := %d.\n", ptypes["Bool"], ptypes["DateTime"], ptypes["LocalDateTime"])
	fmt.Fprintf(&sb, "Definition n_mspecs : N := %d.\nDefinition n_slots : N := %d.\n", len(specs), nslots)
	keys := make([]string, 0, len(census))
	for k := range census {
		keys = append(keys, k)
	}
	sort.Strings(keys)
	sb.WriteString("(* census:")
	for _, k := range keys {
		fmt.Fprintf(&sb, " %s=%d", k, census[k])
	}
	sb.WriteString(" *)\n")

	// registry of constructors for the C13 harness (compiled into a separate harness binary by checks/c13.py)
	var rb strings.Builder
	rb.WriteString("// GENERATED by fit2coq (part mesgdef) -- list of typed messages of profile/mesgdef; do not edit\n//go:build verif\n\npackage main\n\n")
	rb.WriteString("import (\n\t\"github.com/muktihari/fit/profile/mesgdef\"\n\t\"github.com/muktihari/fit/proto\"\n)\n\nfunc init() {\n\tc13Registry = []c13Entry{\n")
	for _, sp := range specs {
		var slots []string
		for _, f := range sp.fields {
			slots = append(slots, fmt.Sprintf("{%q, %d, %q}", f.name, f.num, f.typ.kind))
		}
		fmt.Fprintf(&rb, "\t\t{Name: %q, Num: %d,\n\t\t\tNew:    func(m *proto.Message) any { return mesgdef.New%s(m) },\n\t\t\tToMesg: func(s any, o *mesgdef.Options) proto.Message { return s.(*mesgdef.%s).ToMesg(o) },\n\t\t\tZero:   func() any { return new(mesgdef.%s) },\n\t\t\tSlots:  []c13Slot{%s}},\n",
			sp.name, sp.num, sp.name, sp.name, sp.name, strings.Join(slots, ", "))
	}
	rb.WriteString("\t}\n}\n")
	return map[string]string{"MesgdefSpec.v": sb.String(), "C13Registry.go.txt": rb.String()}, nil
}
