(* Design-phase feasibility probe (not wired into any check).
   Numeric part of proto.Value (Appendix A of DESIGN.md): size = length of the marshalled bytes, and
   unmarshalling with the matching element type gives the value back, both byte orders, scalars and
   arrays of any length.  The array loop is Go's `for ; len(b) >= n; b = b[n:]`. *)
From Coq Require Import NArith List Lia Arith Bool.
Import ListNotations.

Inductive ntype := TBool | TI8 | TU8 | TI16 | TU16 | TI32 | TU32 | TI64 | TU64 | TF32 | TF64.
Definition width (t : ntype) : nat :=
  match t with TBool | TI8 | TU8 => 1 | TI16 | TU16 => 2 | TI32 | TU32 | TF32 => 4 | _ => 8 end.

(* ---- little/big endian words *)
Fixpoint le_bytes (w : nat) (x : N) : list N :=
  match w with O => [] | S w' => (x mod 256)%N :: le_bytes w' (x / 256)%N end.
Fixpoint le_word (bs : list N) : N :=
  match bs with [] => 0%N | b :: r => (b + 256 * le_word r)%N end.
Definition enc (big : bool) (w : nat) (x : N) := if big then rev (le_bytes w x) else le_bytes w x.
Definition dec (big : bool) (bs : list N) := if big then le_word (rev bs) else le_word bs.

Lemma le_bytes_length w : forall x, length (le_bytes w x) = w.
Proof. induction w; intros; cbn; [reflexivity|]. f_equal. apply IHw. Qed.
Lemma le_bytes_ok w : forall x, Forall (fun b => (b < 256)%N) (le_bytes w x).
Proof. induction w; intros; cbn; constructor; [apply N.mod_upper_bound; discriminate|apply IHw]. Qed.

Lemma le_roundtrip w : forall x, (x < 256 ^ N.of_nat w)%N -> le_word (le_bytes w x) = x.
Proof.
  induction w as [|w IH]; intros x Hx; cbn [le_bytes le_word].
  - cbn in Hx. lia.
  - rewrite IH.
    + pose proof (N.div_mod x 256 ltac:(discriminate)). lia.
    + rewrite Nat2N.inj_succ, N.pow_succ_r' in Hx. apply N.div_lt_upper_bound; [discriminate|exact Hx].
Qed.

Lemma enc_length big w x : length (enc big w x) = w.
Proof. unfold enc. destruct big; [rewrite rev_length|]; apply le_bytes_length. Qed.
Lemma enc_dec big w x : (x < 256 ^ N.of_nat w)%N -> dec big (enc big w x) = x.
Proof. intros H. unfold enc, dec. destruct big; [rewrite rev_involutive|]; apply le_roundtrip; exact H. Qed.

(* ---- values *)
Inductive value := VNum (t : ntype) (bits : N) | VArr (t : ntype) (elts : list N).
Definition elt_ok (t : ntype) (x : N) := (x < 256 ^ N.of_nat (width t))%N.
Definition value_ok (v : value) := match v with VNum t x => elt_ok t x | VArr t l => Forall (elt_ok t) l end.

Definition size (v : value) : nat := match v with VNum t _ => width t | VArr t l => length l * width t end.
Definition marshal (big : bool) (v : value) : list N :=
  match v with VNum t x => enc big (width t) x | VArr t l => flat_map (enc big (width t)) l end.

(* for ; len(b) >= n; b = b[n:] { vals = append(vals, word(b[:n])) } *)
Fixpoint chunks (fuel : nat) (big : bool) (n : nat) (b : list N) : list N :=
  match fuel with
  | O => []
  | S fuel' => if n <=? length b then dec big (firstn n b) :: chunks fuel' big n (skipn n b) else []
  end.
Definition unmarshal (big : bool) (t : ntype) (is_array : bool) (b : list N) : value :=
  if is_array then VArr t (chunks (length b) big (width t) b) else VNum t (dec big (firstn (width t) b)).

Theorem C06_size big v : length (marshal big v) = size v.
Proof.
  destruct v as [t x|t l]; cbn [marshal size]; [apply enc_length|].
  induction l as [|x l IH]; cbn [flat_map length]; [reflexivity|]. rewrite app_length, enc_length, IH. lia.
Qed.

Lemma width_pos t : 0 < width t. Proof. destruct t; cbn; lia. Qed.

Lemma chunks_flat big t : forall l fuel, Forall (elt_ok t) l -> length l <= fuel ->
  chunks fuel big (width t) (flat_map (enc big (width t)) l) = l.
Proof.
  induction l as [|x l IH]; intros fuel Hok Hf.
  - destruct fuel; cbn [chunks flat_map]; [reflexivity|]. cbn [length]. pose proof (width_pos t).
    destruct (width t <=? 0) eqn:E; [apply Nat.leb_le in E; lia|reflexivity].
  - destruct fuel as [|fuel]; [cbn in Hf; lia|]. cbn [chunks flat_map]. inversion Hok as [|? ? Hx Hl]; subst.
    rewrite app_length, enc_length.
    replace (width t <=? width t + length (flat_map (enc big (width t)) l)) with true by (symmetry; apply Nat.leb_le; lia).
    rewrite firstn_app, enc_length, Nat.sub_diag, firstn_O, app_nil_r.
    rewrite (firstn_all2 (n := width t)) by (rewrite enc_length; lia).
    rewrite enc_dec by exact Hx. f_equal.
    rewrite skipn_app, enc_length, Nat.sub_diag, skipn_O.
    rewrite (skipn_all2 (n := width t)) by (rewrite enc_length; lia). cbn [app].
    apply IH; [exact Hl|cbn in Hf; lia].
Qed.

Theorem C06_roundtrip_numeric big v : value_ok v ->
  unmarshal big (match v with VNum t _ | VArr t _ => t end) (match v with VArr _ _ => true | _ => false end) (marshal big v) = v.
Proof.
  destruct v as [t x|t l]; cbn [value_ok marshal unmarshal]; intros Hok.
  - rewrite firstn_all2 by (rewrite enc_length; lia). rewrite enc_dec by exact Hok. reflexivity.
  - f_equal. apply chunks_flat; [exact Hok|].
    assert (H : length (flat_map (enc big (width t)) l) = length l * width t).
    { induction l as [|x l IH]; cbn; [reflexivity|]. inversion Hok; subst. rewrite app_length, enc_length, IH by assumption. lia. }
    rewrite H. pose proof (width_pos t). nia.
Qed.

(* a scalar read of an array field keeps only the first element (the lossy shape of DESIGN.md section 6) *)
Example slice_on_scalar_field : unmarshal false TU16 false (marshal false (VArr TU16 [7; 8]%N)) = VNum TU16 7%N.
Proof. vm_compute. reflexivity. Qed.

Print Assumptions C06_roundtrip_numeric.
