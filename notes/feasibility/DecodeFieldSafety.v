(* Design-phase feasibility probe (not wired into any check).
   The Panic-outcome technique of C03 on the decoder's per-field read (decoder.decodeFields +
   proto.UnmarshalValue): every Go slice/index/wide read is a checked operation; the theorem is that no
   definition (any size 0..255, any valid base type, any array flag) and no byte content reaches Panic.
   The same model with the "size < base type size" fallback removed does panic (a mutation the suite misses). *)
From Coq Require Import NArith List Lia Arith Bool.
Import ListNotations.

Inductive outcome (A : Type) := Ok (a : A) | Err | Panic.
Arguments Ok {A}. Arguments Err {A}. Arguments Panic {A}.

Inductive bkind := BNum (w : nat) | BStr.                 (* valid base types: element width 1,2,4,8 or string *)
Definition bsize (k : bkind) : nat := match k with BNum w => w | BStr => 1 end.
Definition bvalid (k : bkind) : Prop := match k with BNum w => w = 1 \/ w = 2 \/ w = 4 \/ w = 8 | BStr => True end.

Inductive val := VScalar (x : N) | VArray (l : list N) | VString (s : list N) | VBytesConv (x : N).

Fixpoint le_word (bs : list N) : N := match bs with [] => 0%N | b :: r => (b + 256 * le_word r)%N end.

(* binary.LittleEndian.UintNN(b): panics when len(b) < n;  b[0]: panics on the empty slice *)
Definition wide_read (n : nat) (b : list N) : outcome N :=
  if length b <? n then Panic else Ok (le_word (firstn n b)).

Fixpoint chunks (fuel n : nat) (b : list N) : list N :=
  match fuel with O => [] | S f => if n <=? length b then le_word (firstn n b) :: chunks f n (skipn n b) else [] end.

(* proto.UnmarshalValue *)
Definition unmarshal (k : bkind) (is_array : bool) (b : list N) : outcome val :=
  match k with
  | BStr => Ok (VString b)
  | BNum w => if is_array then Ok (VArray (chunks (length b) w b))
              else match wide_read w b with Ok x => Ok (VScalar x) | Err => Err | Panic => Panic end
  end.

Inductive fres := Skipped | Field (v : val).

(* decoder.decodeFields for one field definition; [b] is what readN(size) returned, so length b = size *)
Definition decode_field (k : bkind) (field_array : bool) (size : nat) (b : list N) : outcome fres :=
  if size =? 0 then Ok Skipped
  else if size <? bsize k then
    (* fallback: decode as bytes, then convertBytesToValue *)
    match unmarshal (BNum 1) true b with
    | Ok (VArray l) => Ok (Field (VBytesConv (le_word l)))
    | Ok v => Ok (Field v) | Err => Err | Panic => Panic
    end
  else match unmarshal k field_array b with Ok v => Ok (Field v) | Err => Err | Panic => Panic end.

Theorem C03_field_no_panic k arr size b :
  bvalid k -> length b = size -> decode_field k arr size b <> Panic.
Proof.
  intros Hv Hl. unfold decode_field. destruct (size =? 0) eqn:E0; [discriminate|]. apply Nat.eqb_neq in E0.
  destruct (size <? bsize k) eqn:Es.
  - cbn. discriminate.
  - apply Nat.ltb_ge in Es. unfold unmarshal. destruct k as [w|]; [|discriminate].
    destruct arr; [discriminate|]. unfold wide_read. cbn [bsize] in Es.
    replace (length b <? w) with false by (symmetry; apply Nat.ltb_ge; lia). discriminate.
Qed.

(* --- the mutation: drop the fallback branch *)
Definition decode_field_mutant (k : bkind) (field_array : bool) (size : nat) (b : list N) : outcome fres :=
  if size =? 0 then Ok Skipped
  else match unmarshal k field_array b with Ok v => Ok (Field v) | Err => Err | Panic => Panic end.

Example mutant_panics : decode_field_mutant (BNum 2) false 1 [7%N] = Panic.
Proof. reflexivity. Qed.
Print Assumptions C03_field_no_panic.
