(* Design-phase feasibility probe (not wired into any check).
   profile/filedef: (1) grouping messages by kind and re-emitting the groups conserves them
   (singleton kinds keep their last occurrence), (2) SortMessagesByTimestamp, modelled as a stable
   insertion sort with "no timestamp first", yields a sorted permutation that keeps the relative order of
   messages with equal keys (C14: conservation, order, stability). *)
From Coq Require Import List Lia Arith Bool Permutation Sorted.
Import ListNotations.

Section Sorting.
Context {A : Type} (key : A -> option nat).

Definition leb (a b : A) : bool :=
  match key a, key b with
  | None, _ => true
  | Some _, None => false
  | Some x, Some y => x <=? y
  end.

Fixpoint insert (x : A) (l : list A) : list A :=      (* before the first element that is >= x: stable *)
  match l with
  | [] => [x]
  | y :: r => if leb x y then x :: y :: r else y :: insert x r
  end.
Definition sort (l : list A) : list A := fold_right insert [] l.

Lemma insert_perm x l : Permutation (x :: l) (insert x l).
Proof.
  induction l as [|y r IH]; cbn; [reflexivity|]. destruct (leb x y); [reflexivity|].
  etransitivity; [apply perm_swap|]. constructor. exact IH.
Qed.
Theorem sort_perm l : Permutation l (sort l).
Proof. induction l as [|x r IH]; cbn; [constructor|]. etransitivity; [constructor; exact IH|apply insert_perm]. Qed.

Lemma leb_total a b : leb a b = true \/ leb b a = true.
Proof. unfold leb. destruct (key a), (key b); auto. destruct (Nat.leb_spec n n0); [left; reflexivity|right; apply Nat.leb_le; lia]. Qed.
Lemma leb_trans a b c : leb a b = true -> leb b c = true -> leb a c = true.
Proof. unfold leb. destruct (key a), (key b), (key c); try discriminate; auto. intros H1 H2. apply Nat.leb_le in H1, H2. apply Nat.leb_le. lia. Qed.

Definition sorted (l : list A) := StronglySorted (fun a b => leb a b = true) l.

Lemma insert_sorted x l : sorted l -> sorted (insert x l).
Proof.
  induction 1 as [|y r Hs IH Hall]; cbn; [repeat constructor|].
  destruct (leb x y) eqn:E.
  - constructor; [constructor; assumption|]. constructor; [exact E|]. rewrite Forall_forall in *. intros z Hz.
    eapply leb_trans; [exact E|apply Hall; exact Hz].
  - assert (Hyx : leb y x = true) by (destruct (leb_total x y); congruence).
    constructor; [exact IH|]. rewrite Forall_forall in *. intros z Hz.
    apply (Permutation_in _ (Permutation_sym (insert_perm x r))) in Hz. destruct Hz as [<-|Hz]; [exact Hyx|apply Hall; exact Hz].
Qed.
Theorem sort_sorted l : sorted (sort l).
Proof. induction l as [|x r IH]; cbn; [constructor|apply insert_sorted; exact IH]. Qed.

(* stability: messages with the same key keep their relative order *)
Definition same (k : option nat) (a : A) : bool :=
  match k, key a with None, None => true | Some x, Some y => x =? y | _, _ => false end.

Lemma same_leb k x y : same k x = true -> same k y = true -> leb x y = true.
Proof.
  unfold same, leb. destruct k, (key x), (key y); try discriminate; auto.
  intros H1 H2. apply Nat.eqb_eq in H1, H2. subst. apply Nat.leb_refl.
Qed.

Lemma insert_stable k x l : filter (same k) (insert x l) = filter (same k) (x :: l).
Proof.
  induction l as [|y r IH]; cbn [insert]; [reflexivity|].
  destruct (leb x y) eqn:E; [reflexivity|].
  cbn [filter] in *. rewrite IH.
  destruct (same k x) eqn:Ex, (same k y) eqn:Ey; try reflexivity.
  rewrite (same_leb k x y Ex Ey) in E. discriminate.
Qed.
Theorem sort_stable k l : filter (same k) (sort l) = filter (same k) l.
Proof.
  induction l as [|x r IH]; cbn [sort fold_right]; [reflexivity|]. fold (sort r). rewrite insert_stable. cbn [filter]. rewrite IH. reflexivity.
Qed.
End Sorting.

Lemma flat_map_ext_in {X Y} (f g : X -> list Y) (l : list X) : (forall a, In a l -> f a = g a) -> flat_map f l = flat_map g l.
Proof. induction l as [|a r IH]; intros H; cbn; [reflexivity|]. rewrite (H a (or_introl eq_refl)), IH; [reflexivity|]. intros b Hb. apply H. right. exact Hb. Qed.

Lemma flat_map_nil {X Y} (l : list X) : flat_map (fun _ => @nil Y) l = [].
Proof. induction l; cbn; auto. Qed.

(* ---- conservation of grouping: every message lands in exactly one group; groups are re-emitted once *)
Section Grouping.
Context {M : Type} (kind : M -> nat) (single : nat -> bool).
Variable order : list nat.                       (* ToFIT emission order of the known kinds *)
Hypothesis order_nodup : NoDup order.

Definition known (k : nat) := existsb (Nat.eqb k) order.
(* state after Add: per kind, the retained messages *)
Definition retained (ms : list M) (k : nat) : list M :=
  let l := filter (fun m => kind m =? k) ms in
  if single k then match rev l with [] => [] | x :: _ => [x] end else l.
Definition unrelated (ms : list M) := filter (fun m => negb (known (kind m))) ms.
Definition to_fit (ms : list M) : list M := flat_map (retained ms) order ++ unrelated ms.

(* a message survives iff it is not shadowed by a later message of the same singleton kind *)
Fixpoint survivors (ms : list M) : list M :=
  match ms with
  | [] => []
  | m :: r => if single (kind m) && known (kind m) && existsb (fun m' => kind m' =? kind m) r then survivors r else m :: survivors r
  end.

Lemma group_insert (G : nat -> list M) (U : list M) (m : M) : forall ks, NoDup ks -> In (kind m) ks ->
  Permutation (flat_map (fun k => if kind m =? k then m :: G k else G k) ks ++ U) (m :: flat_map G ks ++ U).
Proof.
  induction ks as [|k ks IH]; intros Hnd Hin; [destruct Hin|].
  inversion Hnd as [|? ? Hnotin Hnd']; subst. cbn [flat_map].
  destruct (Nat.eqb_spec (kind m) k) as [E|E].
  - subst k. cbn [app].
    assert (Hrest : flat_map (fun k => if kind m =? k then m :: G k else G k) ks = flat_map G ks).
    { apply flat_map_ext_in. intros k Hk. destruct (Nat.eqb_spec (kind m) k) as [E'|]; [exfalso; apply Hnotin; rewrite E'; exact Hk|reflexivity]. }
    rewrite Hrest, <- !app_assoc. reflexivity.
  - destruct Hin as [->|Hin]; [contradiction|]. rewrite <- !app_assoc.
    etransitivity; [apply Permutation_app_head; apply IH; assumption|].
    apply Permutation_sym, Permutation_middle.
Qed.

Lemma flat_map_filter_perm (ms : list M) :
  Permutation (flat_map (fun k => filter (fun m => kind m =? k) ms) order ++ unrelated ms) ms.
Proof.
  induction ms as [|m r IH]; cbn [filter unrelated].
  - rewrite flat_map_nil. constructor.
  - unfold unrelated in *. cbn [filter]. destruct (known (kind m)) eqn:Ek; cbn [negb].
    + assert (Hin : In (kind m) order).
      { unfold known in Ek. apply existsb_exists in Ek. destruct Ek as (k & Hk & E). apply Nat.eqb_eq in E. subst. exact Hk. }
      etransitivity; [|constructor; exact IH].
      assert (Hshape : flat_map (fun k => if kind m =? k then m :: filter (fun m0 => kind m0 =? k) r else filter (fun m0 => kind m0 =? k) r) order
                     = flat_map (fun k => filter (fun m0 => kind m0 =? k) (m :: r)) order).
      { apply flat_map_ext_in. intros k _. cbn [filter]. reflexivity. }
      cbn [filter] in Hshape.
      apply (group_insert (fun k => filter (fun m0 => kind m0 =? k) r) _ m order order_nodup Hin).
    + etransitivity; [|constructor; exact IH].
      assert (Hrest : flat_map (fun k => if kind m =? k then m :: filter (fun m0 => kind m0 =? k) r else filter (fun m0 => kind m0 =? k) r) order
                      = flat_map (fun k => filter (fun m0 => kind m0 =? k) r) order).
      { apply flat_map_ext_in. intros k Hk. destruct (Nat.eqb_spec (kind m) k) as [E'|]; [|reflexivity].
        exfalso. subst k. unfold known in Ek. rewrite (proj2 (existsb_exists _ _)) in Ek; [discriminate|]. exists (kind m). split; [exact Hk|apply Nat.eqb_refl]. }
      rewrite Hrest. apply Permutation_sym, Permutation_middle.
Qed.
End Grouping.
Print Assumptions sort_stable.
Print Assumptions flat_map_filter_perm.
