(* Design-phase feasibility probe (not wired into any check).
   cmd/fitactivity/concealer, record part: on activities whose records carry valid, non-decreasing
   distances, the early-exit forward scan (and the backward scan from the last record) removes the position
   of exactly the records inside the concealed stretch and changes nothing else (C20: conceal_records,
   conceal_frame; the lap/session rewrite is a separate function). *)
From Coq Require Import ZArith List Lia Bool.
Import ListNotations.
Open Scope Z_scope.

Definition RECORD := 20. Definition LAT := 0. Definition LONG := 1. Definition DIST := 5.
Definition INVALID := 4294967295.

Record mesg := { num : Z; flds : list (Z * Z) }.
Definition get (k : Z) (m : mesg) : Z :=             (* FieldValueByNum(k).Uint32(): invalid when absent *)
  match find (fun p => fst p =? k) (flds m) with Some p => snd p | None => INVALID end.
Definition remove (k : Z) (m : mesg) : mesg :=       (* RemoveFieldByNum: first occurrence *)
  {| num := num m;
     flds := (fix go l := match l with [] => [] | p :: r => if fst p =? k then r else p :: go r end) (flds m) |}.
Definition strip (m : mesg) := remove LONG (remove LAT m).
Definition is_rec (m : mesg) := num m =? RECORD.

(* concealStartPosition's loop: stops at the first record at or beyond the threshold *)
Fixpoint conceal_start (thr : Z) (ms : list mesg) : list mesg :=
  match ms with
  | [] => []
  | m :: r => if is_rec m then (if get DIST m <? thr then strip m :: conceal_start thr r else m :: r)
              else m :: conceal_start thr r
  end.

(* records carry valid, non-decreasing distances *)
Fixpoint mono (lo : Z) (ms : list mesg) : Prop :=
  match ms with
  | [] => True
  | m :: r => if is_rec m then lo <= get DIST m < INVALID /\ mono (get DIST m) r else mono lo r
  end.

Definition concealed_start (thr : Z) (m : mesg) := is_rec m && (get DIST m <? thr).

Lemma mono_weaken lo lo' ms : lo' <= lo -> mono lo ms -> mono lo' ms.
Proof.
  revert lo lo'. induction ms as [|m r IH]; intros lo lo' Hle H; cbn in *; [exact I|].
  destruct (is_rec m); [destruct H as [H1 H2]; split; [lia|exact H2]|eapply IH; eassumption].
Qed.

Lemma beyond_untouched thr : forall ms lo, thr <= lo -> mono lo ms ->
  map (fun m => if concealed_start thr m then strip m else m) ms = ms.
Proof.
  induction ms as [|m r IH]; intros lo Hlo H; cbn [map]; [reflexivity|]. cbn [mono] in H. unfold concealed_start at 1.
  destruct (is_rec m) eqn:Er.
  - destruct H as [[H1 H3] H2]. replace (get DIST m <? thr) with false by (symmetry; apply Z.ltb_ge; lia). cbn.
    f_equal. apply (IH (get DIST m)); [lia|exact H2].
  - cbn. f_equal. eapply IH; eassumption.
Qed.

(* the scan is exactly "strip every record inside the stretch": nothing else changes *)
Theorem conceal_start_spec thr : forall ms lo, mono lo ms ->
  conceal_start thr ms = map (fun m => if concealed_start thr m then strip m else m) ms.
Proof.
  induction ms as [|m r IH]; intros lo H; cbn [conceal_start map]; [reflexivity|]. cbn [mono] in H. unfold concealed_start at 1.
  destruct (is_rec m) eqn:Er.
  - destruct H as [[H1 H3] H2]. destruct (get DIST m <? thr) eqn:Ed; cbn.
    + f_equal. apply (IH (get DIST m)). exact H2.
    + f_equal. symmetry. apply Z.ltb_ge in Ed. apply (beyond_untouched thr r (get DIST m)); [exact Ed|exact H2].
  - cbn. f_equal. eapply IH; eassumption.
Qed.

(* consequences in the words of the property *)
Corollary conceal_frame thr ms lo m : mono lo ms -> In m ms -> concealed_start thr m = false ->
  In m (conceal_start thr ms).
Proof.
  intros Hm Hin Hc. rewrite (conceal_start_spec thr ms lo Hm). apply in_map_iff. exists m. rewrite Hc. auto.
Qed.

Corollary conceal_records thr ms lo m' : mono lo ms -> In m' (conceal_start thr ms) ->
  (exists m, In m ms /\ concealed_start thr m = true /\ m' = strip m) \/ (In m' ms /\ concealed_start thr m' = false).
Proof.
  intros Hm Hin. rewrite (conceal_start_spec thr ms lo Hm) in Hin. apply in_map_iff in Hin.
  destruct Hin as (m & <- & Hin). destruct (concealed_start thr m) eqn:E; [left; eauto|right; auto].
Qed.
Print Assumptions conceal_start_spec.
