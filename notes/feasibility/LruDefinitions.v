(* Design-phase feasibility probe (not wired into any check).
   encoder/lru.go against the decoder's table of local message definitions (invariant (i) of C01):
   whatever sequence of definitions is Put, a data message written with the returned local number is
   decoded with exactly the definition it was encoded with, although a definition is only put on the
   wire when Put reports it as new. *)
From Coq Require Import NArith List Lia Bool Arith Permutation.
Import ListNotations.

Section Lru.
Context {item : Type} (item_eqb : item -> item -> bool).
Hypothesis item_eqb_eq : forall a b, item_eqb a b = true <-> a = b.
Variable dflt : item.

Record lru := { size : nat; items : nat -> item; bucket : list nat }.   (* bucket: least recent first *)

Definition upd {A} (f : nat -> A) (k : nat) (v : A) : nat -> A := fun i => if Nat.eqb i k then v else f i.

(* bucketIndex: search from the most recent end *)
Fixpoint find_last (it : nat -> item) (x : item) (b : list nat) : option nat :=   (* position in b *)
  match b with
  | [] => None
  | i :: r => match find_last it x r with
              | Some p => Some (S p)
              | None => if item_eqb (it i) x then Some 0 else None
              end
  end.

Fixpoint remove_at {A} (p : nat) (l : list A) : list A :=
  match l, p with [], _ => [] | _ :: r, O => r | y :: r, S p' => y :: remove_at p' r end.

Definition put (l : lru) (x : item) : nat * bool * lru :=
  match find_last (items l) x (bucket l) with
  | Some p =>
      let idx := nth p (bucket l) 0 in
      (idx, false, {| size := size l; items := items l; bucket := remove_at p (bucket l) ++ [idx] |})
  | None =>
      if negb (Nat.eqb (length (bucket l)) (size l)) then
        let idx := length (bucket l) in
        (idx, true, {| size := size l; items := upd (items l) idx x; bucket := bucket l ++ [idx] |})
      else
        let idx := hd 0 (bucket l) in
        (idx, true, {| size := size l; items := upd (items l) idx x; bucket := tl (bucket l) ++ [idx] |})
  end.

(* decoder side: the live definition per local message number *)
Definition defs := nat -> option item.
Definition dec_step (d : defs) (idx : nat) (is_new : bool) (x : item) : defs :=
  if is_new then upd d idx (Some x) else d.

Definition inv (l : lru) (d : defs) :=
  NoDup (bucket l) /\ length (bucket l) <= size l /\
  (forall i, In i (bucket l) <-> i < length (bucket l)) /\
  (forall i, In i (bucket l) -> d i = Some (items l i)).

Lemma find_last_some it x b p : find_last it x b = Some p -> p < length b /\ it (nth p b 0) = x.
Proof.
  revert p. induction b as [|i r IH]; intros p; cbn [find_last]; [discriminate|].
  destruct (find_last it x r) as [q|] eqn:E.
  - intros H; inversion H; subst. destruct (IH q eq_refl). cbn. split; [lia|assumption].
  - destruct (item_eqb (it i) x) eqn:Ei; [|discriminate]. intros H; inversion H; subst.
    apply item_eqb_eq in Ei. cbn. split; [lia|assumption].
Qed.

Lemma remove_at_perm {A} (l : list A) p d : p < length l -> Permutation l (remove_at p l ++ [nth p l d]).
Proof.
  revert p. induction l as [|y r IH]; intros p Hp; cbn in Hp; [lia|]. destruct p as [|p]; cbn.
  - apply Permutation_cons_append.
  - constructor. apply IH. lia.
Qed.

Theorem put_sim l d x :
  inv l d -> 0 < size l ->
  let '(idx, is_new, l') := put l x in
  let d' := dec_step d idx is_new x in
  idx < size l /\ d' idx = Some x /\ inv l' d'.
Proof.
  intros (Hnd & Hlen & Hset & Hdef) Hsz. unfold put.
  destruct (find_last (items l) x (bucket l)) as [p|] eqn:Ef.
  - (* hit: nothing on the wire, decoder already has it *)
    destruct (find_last_some _ _ _ _ Ef) as [Hp Hx]. set (idx := nth p (bucket l) 0) in *.
    assert (Hin : In idx (bucket l)) by (apply nth_In; exact Hp).
    pose proof (remove_at_perm (bucket l) p 0 Hp) as HP. fold idx in HP.
    cbn [dec_step]. split; [apply Hset in Hin; lia|]. split; [rewrite (Hdef _ Hin), Hx; reflexivity|].
    unfold inv; cbn [bucket items size]. split; [eapply Permutation_NoDup; eassumption|].
    split; [rewrite <- (Permutation_length HP); exact Hlen|]. split.
    + intros i. rewrite <- (Permutation_length HP). rewrite <- Hset. split; intro H.
      * eapply Permutation_in; [symmetry; exact HP|exact H].
      * eapply Permutation_in; [exact HP|exact H].
    + intros i Hi. apply Hdef. eapply Permutation_in; [symmetry; exact HP|exact Hi].
  - destruct (Nat.eqb (length (bucket l)) (size l)) eqn:Efull; cbn [negb dec_step].
    + (* full: evict the least recently used *)
      apply Nat.eqb_eq in Efull. destruct (bucket l) as [|h t] eqn:Eb; [cbn in Efull; lia|]. cbn [hd tl].
      assert (Hh : In h (h :: t)) by (left; reflexivity).
      split; [apply Hset in Hh; cbn in Hh, Efull; lia|]. split; [unfold upd; rewrite Nat.eqb_refl; reflexivity|].
      assert (HP : Permutation (h :: t) (t ++ [h])) by apply Permutation_cons_append.
      unfold inv; cbn [bucket items size]. split; [eapply Permutation_NoDup; eassumption|].
      split; [rewrite <- (Permutation_length HP); exact Hlen|]. split.
      * intros i. rewrite <- (Permutation_length HP), <- Hset. split; intro H.
        -- eapply Permutation_in; [symmetry; exact HP|exact H].
        -- eapply Permutation_in; [exact HP|exact H].
      * intros i Hi. unfold upd. destruct (Nat.eqb i h); [reflexivity|]. apply Hdef.
        eapply Permutation_in; [symmetry; exact HP|exact Hi].
    + (* room left: take the next free local number *)
      apply Nat.eqb_neq in Efull. set (idx := length (bucket l)).
      assert (Hfresh : ~ In idx (bucket l)) by (intro H; apply Hset in H; unfold idx in H; lia).
      split; [unfold idx; lia|]. split; [unfold upd; rewrite Nat.eqb_refl; reflexivity|].
      unfold inv; cbn [bucket items size]. split.
      { apply (Permutation_NoDup (l := idx :: bucket l)); [apply Permutation_cons_append|]. constructor; assumption. }
      split; [rewrite app_length; cbn; lia|]. split.
      * intros i. rewrite app_length, in_app_iff, Hset. cbn. fold idx. lia.
      * intros i Hi. unfold upd. destruct (Nat.eqb_spec i idx) as [->|Hne]; [reflexivity|].
        apply in_app_iff in Hi. destruct Hi as [Hi|[Hi|[]]]; [apply Hdef; exact Hi|congruence].
Qed.

Definition init (n : nat) : lru := {| size := n; items := fun _ => dflt; bucket := [] |}.
Lemma inv_init n d : inv (init n) d.
Proof. unfold inv, init; cbn. split; [constructor|]. split; [lia|]. split; [intros; split; [tauto|lia]|tauto]. Qed.

(* whole run: every message is decoded with the definition it was encoded with *)
Fixpoint run (l : lru) (d : defs) (xs : list item) : bool :=
  match xs with
  | [] => true
  | x :: r => let '(idx, is_new, l') := put l x in
              let d' := dec_step d idx is_new x in
              match d' idx with Some y => item_eqb y x | None => false end && run l' d' r
  end.

Theorem lru_definitions_agree n xs : 0 < n -> run (init n) (fun _ => None) xs = true.
Proof.
  intros Hn. assert (G : forall xs l d, inv l d -> size l = n -> run l d xs = true); [|apply G; [apply inv_init|reflexivity]].
  clear xs. induction xs as [|x r IH]; intros l d Hinv Hs; cbn [run]; [reflexivity|].
  pose proof (put_sim l d x Hinv ltac:(lia)) as H. destruct (put l x) as [[idx is_new] l'] eqn:Ep.
  destruct H as (_ & Hd & Hinv'). rewrite Hd. rewrite (proj2 (item_eqb_eq x x) eq_refl). cbn [andb].
  apply IH; [exact Hinv'|]. unfold put in Ep.
  destruct (find_last _ _ _); [inversion Ep; cbn; exact Hs|]. destruct (negb _); inversion Ep; cbn; exact Hs.
Qed.
End Lru.
Print Assumptions lru_definitions_agree.
