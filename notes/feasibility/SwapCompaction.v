(* Design-phase feasibility probe (not wired into any check).
   The in-place "swap into the next valid slot, then truncate" loop used by encoder/validator.go,
   remover.go, reducer.go, combiner.go and csv_to_fit.go is exactly a stable filter. *)
From Coq Require Import List Lia Arith Bool.
Import ListNotations.

Section Compact.
Context {A : Type} (d : A).

Fixpoint set_nth (l : list A) (k : nat) (v : A) : list A :=
  match l, k with
  | [], _ => []
  | _ :: r, O => v :: r
  | y :: r, S k' => y :: set_nth r k' v
  end.

Definition swap (l : list A) (i j : nat) : list A :=
  let xi := nth i l d in let xj := nth j l d in set_nth (set_nth l i xj) j xi.

(* for i := range xs { if !keep(xs[i]) {continue}; if i != valid {xs[i], xs[valid] = xs[valid], xs[i]}; valid++ }; xs = xs[:valid] *)
Definition step (keep : A -> bool) (st : list A * nat) (i : nat) : list A * nat :=
  let '(a, v) := st in
  if keep (nth i a d) then ((if Nat.eqb i v then a else swap a i v), S v) else (a, v).

Definition compact (keep : A -> bool) (xs : list A) : list A :=
  let '(a, v) := fold_left (step keep) (seq 0 (length xs)) (xs, 0) in firstn v a.

Lemma set_nth_app_r (a b : list A) k v : set_nth (a ++ b) (length a + k) v = a ++ set_nth b k v.
Proof. induction a as [|y a IH]; cbn; [reflexivity|]. f_equal. exact IH. Qed.
Lemma nth_app_r (a b : list A) k : nth (length a + k) (a ++ b) d = nth k b d.
Proof. induction a as [|y a IH]; cbn; [reflexivity|exact IH]. Qed.

Lemma swap_shape (K js rest : list A) j0 x :
  swap (K ++ (j0 :: js) ++ (x :: rest)) (length K + S (length js)) (length K)
  = K ++ (x :: js) ++ (j0 :: rest).
Proof.
  unfold swap. set (l := K ++ (j0 :: js) ++ x :: rest).
  assert (Hi : nth (length K + S (length js)) l d = x).
  { unfold l. rewrite nth_app_r. cbn [app nth]. replace (length js) with (length js + 0) by lia. rewrite nth_app_r. reflexivity. }
  assert (Hj : nth (length K) l d = j0).
  { unfold l. replace (length K) with (length K + 0) at 1 by lia. rewrite nth_app_r. reflexivity. }
  rewrite Hi, Hj. unfold l.
  rewrite set_nth_app_r. cbn [app set_nth].
  replace (set_nth (js ++ x :: rest) (length js) j0) with (js ++ j0 :: rest).
  2:{ replace (length js) with (length js + 0) by lia. rewrite set_nth_app_r. reflexivity. }
  replace (length K) with (length K + 0) at 1 by lia. rewrite set_nth_app_r. reflexivity.
Qed.

Lemma swap_shape' (K js rest : list A) j0 x i : i = length K + S (length js) ->
  swap (K ++ (j0 :: js) ++ (x :: rest)) i (length K) = K ++ (x :: js) ++ (j0 :: rest).
Proof. intros ->. apply swap_shape. Qed.

Definition Inv (keep : A -> bool) (xs : list A) (i : nat) (st : list A * nat) :=
  exists J, fst st = filter keep (firstn i xs) ++ J ++ skipn i xs /\
            snd st = length (filter keep (firstn i xs)) /\
            Forall (fun y => keep y = false) J /\ length (filter keep (firstn i xs)) + length J = i.

Lemma firstn_S_snoc (xs : list A) i : i < length xs -> firstn (S i) xs = firstn i xs ++ [nth i xs d].
Proof. revert i. induction xs as [|y r IH]; intros i H; cbn in H; [lia|]. destruct i; cbn; [reflexivity|]. f_equal. apply IH. lia. Qed.
Lemma skipn_cons_nth (xs : list A) i : i < length xs -> skipn i xs = nth i xs d :: skipn (S i) xs.
Proof. revert i. induction xs as [|y r IH]; intros i H; cbn in H; [lia|]. destruct i; cbn; [reflexivity|]. apply IH. lia. Qed.

Lemma step_inv keep xs i st : i < length xs -> Inv keep xs i st -> Inv keep xs (S i) (step keep st i).
Proof.
  intros Hi (J & Ha & Hv & HJ & Hlen). destruct st as [a v]. cbn [fst snd] in *. subst a v.
  set (K := filter keep (firstn i xs)) in *. set (x := nth i xs d).
  rewrite (skipn_cons_nth xs i Hi). fold x.
  assert (Hx : nth i (K ++ J ++ x :: skipn (S i) xs) d = x).
  { rewrite app_assoc. replace i with (length (K ++ J) + 0) at 1 by (rewrite app_length; lia). rewrite nth_app_r. reflexivity. }
  unfold step. rewrite Hx. unfold Inv. rewrite (firstn_S_snoc xs i Hi), filter_app. fold K x. cbn [filter].
  destruct (keep x) eqn:Ek.
  - destruct J as [|j0 js].
    + replace (Nat.eqb i (length K)) with true by (symmetry; apply Nat.eqb_eq; cbn in Hlen; lia).
      exists []. cbn [fst snd app]. rewrite <- app_assoc. cbn [app].
      split; [reflexivity|]. split; [rewrite app_length; cbn; lia|]. split; [constructor|rewrite app_length; cbn in *; lia].
    + replace (Nat.eqb i (length K)) with false by (symmetry; apply Nat.eqb_neq; cbn in Hlen; lia).
      exists (js ++ [j0]). cbn [fst snd].
      rewrite (swap_shape' K js (skipn (S i) xs) j0 x i) by (cbn in Hlen; lia). pose proof (Forall_inv HJ) as Hj0. pose proof (Forall_inv_tail HJ) as Hjs. split; [rewrite <- !app_assoc; reflexivity|].
      split; [rewrite app_length; cbn; lia|]. split; [apply Forall_app; split; [assumption|constructor; [assumption|constructor]]|].
      rewrite !app_length. cbn in *. lia.
  - exists (J ++ [x]). cbn [fst snd]. rewrite app_nil_r. split; [rewrite <- !app_assoc; reflexivity|].
    split; [reflexivity|]. split; [apply Forall_app; split; [assumption|constructor; [assumption|constructor]]|].
    rewrite app_length. cbn. lia.
Qed.

Theorem compact_is_filter keep xs : compact keep xs = filter keep xs.
Proof.
  unfold compact.
  assert (G : forall n, n <= length xs -> Inv keep xs n (fold_left (step keep) (seq 0 n) (xs, 0))).
  { induction n as [|n IH]; intros Hn.
    - exists []. cbn. repeat split; constructor.
    - rewrite seq_S, fold_left_app. cbn [fold_left Nat.add]. apply step_inv; [lia|apply IH; lia]. }
  destruct (G (length xs) (le_n _)) as (J & Ha & Hv & _ & _).
  destruct (fold_left (step keep) (seq 0 (length xs)) (xs, 0)) as [a v]. cbn [fst snd] in *. subst.
  rewrite firstn_all, skipn_all, app_nil_r. rewrite firstn_app, Nat.sub_diag, firstn_all. cbn. apply app_nil_r.
Qed.
End Compact.
Print Assumptions compact_is_filter.
