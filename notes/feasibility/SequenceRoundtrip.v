(* Design-phase feasibility probe (not wired into any check).
   Sequence level of C01 at the granularity of records: the three invariants proved separately --
   definitions cached per local message number (LruDefinitions), compressed timestamps
   (TimestampCompression, repaired rule) and the per-message field codec (MessageCodec) -- compose into
   "decode (encode ms) = expected ms" for every message list, cache size, byte order and header option.
   Byte framing of the records is WireFraming.v / Crc16.v and is not repeated here. *)
From Coq Require Import NArith ZArith List Lia Arith Bool.
Import ListNotations.
Require Import ValueCodec MessageCodec.
Require LruDefinitions TimestampCompression.
Module L := LruDefinitions. Module T := TimestampCompression.

Record message := { m_num : N; m_fields : list field }.
Record defn := { d_num : N; d_big : bool; d_defs : list fdef }.

(* ---- decidable equality on definitions (bytes.Equal on the marshalled definition in the Go code) *)
Definition ntype_eq_dec (a b : ntype) : {a = b} + {a <> b}. Proof. decide equality. Defined.
Definition fdef_eq_dec (a b : fdef) : {a = b} + {a <> b}.
Proof. decide equality; [apply ntype_eq_dec|apply Nat.eq_dec|apply N.eq_dec]. Defined.
Definition defn_eq_dec (a b : defn) : {a = b} + {a <> b}.
Proof. decide equality; [apply (list_eq_dec fdef_eq_dec)|apply Bool.bool_dec|apply N.eq_dec]. Defined.
Definition defn_eqb (a b : defn) : bool := if defn_eq_dec a b then true else false.
Lemma defn_eqb_eq a b : defn_eqb a b = true <-> a = b.
Proof. unfold defn_eqb. destruct (defn_eq_dec a b); split; congruence. Qed.
Definition dflt : defn := {| d_num := 0; d_big := false; d_defs := [] |}.

(* ---- timestamps inside messages *)
Definition TS := 253%N.
Definition ts_of (fs : list field) : option Z :=
  match find (fun f => N.eqb (f_num f) TS) fs with
  | Some f => match f_value f with VNum TU32 t => Some (Z.of_N t) | _ => None end
  | None => None
  end.
Fixpoint remove_ts (fs : list field) : list field :=            (* RemoveFieldByNum(253): first occurrence *)
  match fs with [] => [] | f :: r => if N.eqb (f_num f) TS then r else f :: remove_ts r end.
Definition ts_field (t : Z) : field := {| f_num := TS; f_value := VNum TU32 (Z.to_N t) |}.

(* ---- wire records *)
Inductive wrec := WDef (idx : nat) (d : defn) | WData (idx : nat) (comp : option Z) (payload : list N).

Section Codec.
Variable fac : N -> N -> option (ntype * bool).       (* factory: message number, field number *)
Variables (big compressed : bool) (cache : nat).

Record est := { e_lru : L.lru (item := defn); e_ts : T.enc }.
Record dst := { t_tab : nat -> option defn; t_ts : T.dec }.

Definition enc_msg (st : est) (m : message) : list wrec * est :=
  let '(w, ts') := if compressed then T.enc_step (e_ts st) (ts_of (m_fields m)) else (T.NoTs, e_ts st) in
  let '(fs', comp) := match w with T.Compressed o => (remove_ts (m_fields m), Some o) | _ => (m_fields m, None) end in
  let d := {| d_num := m_num m; d_big := big; d_defs := def_of fs' |} in
  let '(idx, is_new, lru') := L.put defn_eqb (e_lru st) d in
  ((if is_new then [WDef idx d] else []) ++ [WData idx comp (data_of big fs')], {| e_lru := lru'; e_ts := ts' |}).

Fixpoint enc_all (st : est) (ms : list message) : list wrec :=
  match ms with [] => [] | m :: r => let '(ws, st') := enc_msg st m in ws ++ enc_all st' r end.

(* decoder: None = error *)
Definition dec_rec (st : dst) (r : wrec) : option (option message * dst) :=
  match r with
  | WDef idx d => Some (None, {| t_tab := L.upd (t_tab st) idx (Some d); t_ts := t_ts st |})
  | WData idx comp payload =>
    match t_tab st idx with
    | None => None
    | Some d =>
      match decode_fields (fac (d_num d)) (d_big d) (d_defs d) payload with
      | None => None
      | Some fs =>
        match comp with
        | Some o => let '(t, ts') := T.dec_step (t_ts st) (T.Compressed o) in
                    Some (Some {| m_num := d_num d; m_fields := (match t with Some t => [ts_field t] | None => [] end) ++ fs |},
                          {| t_tab := t_tab st; t_ts := ts' |})
        | None => let ts' := match ts_of fs with Some t => snd (T.dec_step (t_ts st) (T.Full t)) | None => t_ts st end in
                  Some (Some {| m_num := d_num d; m_fields := fs |}, {| t_tab := t_tab st; t_ts := ts' |})
        end
      end
    end
  end.

Fixpoint dec_all (st : dst) (rs : list wrec) : option (list message) :=
  match rs with
  | [] => Some []
  | r :: rest =>
    match dec_rec st r with
    | None => None
    | Some (om, st') => match dec_all st' rest with
                        | Some ms => Some (match om with Some m => m :: ms | None => ms end)
                        | None => None
                        end
    end
  end.
End Codec.

(* ================================================================== proof *)
Section Proof.
Variable fac : N -> N -> option (ntype * bool).
Variables (big compressed : bool) (cache : nat).
Hypothesis cache_pos : 0 < cache.

Notation enc_msg := (enc_msg big compressed).
Notation enc_all := (enc_all big compressed).
Notation dec_rec := (dec_rec fac).
Notation dec_all := (dec_all fac).

Definition wf_msg (m : message) : Prop :=
  Forall (shape_ok (fac (m_num m))) (m_fields m) /\ NoDup (map f_num (m_fields m)).

(* what the decoder returns for m: the same fields, the timestamp moved to the front when it was compressed *)
Definition same_up_to_ts (m m' : message) : Prop :=
  m_num m' = m_num m /\
  (m_fields m' = m_fields m \/
   exists t0, find (fun f => N.eqb (f_num f) TS) (m_fields m) = Some {| f_num := TS; f_value := VNum TU32 t0 |} /\
              m_fields m' = {| f_num := TS; f_value := VNum TU32 t0 |} :: remove_ts (m_fields m)).

Definition Inv (e : est) (d : dst) : Prop :=
  L.inv (e_lru e) (t_tab d) /\ L.size (e_lru e) = cache /\ (compressed = true -> T.R (e_ts e) (t_ts d)).

Lemma remove_ts_sub fs : forall f, In f (remove_ts fs) -> In f fs.
Proof. induction fs as [|g r IH]; cbn; [tauto|]. destruct (N.eqb (f_num g) TS); [auto|]. intros f [<-|H]; auto. Qed.

Lemma remove_ts_shape P fs : Forall P fs -> Forall P (remove_ts fs).
Proof. intros H. apply Forall_forall. intros f Hf. rewrite Forall_forall in H. apply H, remove_ts_sub, Hf. Qed.

Lemma dec_all_app d rs1 : forall st rs2,
  dec_all st (rs1 ++ rs2) =
  match rs1 with
  | [] => dec_all st rs2
  | _ => match d with tt => dec_all st (rs1 ++ rs2) end
  end.
Proof. destruct d. destruct rs1; reflexivity. Qed.

Lemma ok_ts_of fs : Forall (fun f => value_ok (f_value f)) fs -> T.ok_ts (ts_of fs).
Proof.
  intros H. unfold ts_of. destruct (find _ fs) as [f|] eqn:E; [|exact I].
  apply find_some in E. destruct E as [Hin _]. rewrite Forall_forall in H. specialize (H f Hin).
  destruct (f_value f) as [t x|]; [|exact I]. destruct t; try exact I. cbn in H |- *. unfold elt_ok in H. cbn in H.
  unfold T.W. lia.
Qed.

Lemma dec_all_wdef st idx dd rs :
  dec_all st (WDef idx dd :: rs) = dec_all {| t_tab := L.upd (t_tab st) idx (Some dd); t_ts := t_ts st |} rs.
Proof.
  cbn [SequenceRoundtrip.dec_all SequenceRoundtrip.dec_rec].
  match goal with |- context [SequenceRoundtrip.dec_all ?f ?s rs] => destruct (SequenceRoundtrip.dec_all f s rs) end; reflexivity.
Qed.

(* the definition part of one message: after it the decoder's table has the definition at idx *)
Lemma def_step lru tab dd idx is_new lru' : L.inv lru tab -> 0 < L.size lru ->
  L.put defn_eqb lru dd = (idx, is_new, lru') ->
  let tab' := L.dec_step tab idx is_new dd in
  tab' idx = Some dd /\ L.inv lru' tab' /\ L.size lru' = L.size lru /\
  forall dts r rest, dec_all {| t_tab := tab; t_ts := dts |} ((if is_new then [WDef idx dd] else []) ++ r :: rest)
                   = dec_all {| t_tab := tab'; t_ts := dts |} (r :: rest).
Proof.
  intros HL Hpos Ep tab'. pose proof (L.put_sim defn_eqb defn_eqb_eq lru tab dd HL Hpos) as Hsim. rewrite Ep in Hsim.
  destruct Hsim as (_ & Htab & HL'). split; [exact Htab|]. split; [exact HL'|]. split.
  - unfold L.put in Ep. destruct (L.find_last _ _ _ _); [injection Ep as <- <- <-; reflexivity|].
    destruct (negb _); injection Ep as <- <- <-; reflexivity.
  - intros dts r rest. unfold tab'. destruct is_new; cbn [app L.dec_step]; [|reflexivity].
    rewrite dec_all_wdef. reflexivity.
Qed.

Lemma find_ts_field fs f : find (fun f => N.eqb (f_num f) TS) fs = Some f -> f_num f = TS.
Proof. intros H. apply find_some in H. destruct H as [_ H]. apply N.eqb_eq. exact H. Qed.

Lemma ts_of_remove fs : NoDup (map f_num fs) -> ts_of (remove_ts fs) = None \/ find (fun f => N.eqb (f_num f) TS) fs = None.
Proof.
  intros Hnd. unfold ts_of. induction fs as [|g r IH]; cbn; [left; reflexivity|].
  inversion Hnd as [|? ? Hnotin Hnd']; subst. destruct (N.eqb (f_num g) TS) eqn:E.
  - left. apply N.eqb_eq in E. destruct (find (fun f => N.eqb (f_num f) TS) r) as [h|] eqn:Eh; [|reflexivity].
    exfalso. apply Hnotin. rewrite E, <- (find_ts_field _ _ Eh). apply in_map. apply find_some in Eh. tauto.
  - cbn. rewrite E. apply IH. exact Hnd'.
Qed.

(* one message *)
Lemma msg_step e d m ws e' : Inv e d -> wf_msg m -> enc_msg e m = (ws, e') ->
  exists m' d', (forall rest, dec_all d (ws ++ rest) = match dec_all d' rest with Some ms => Some (m' :: ms) | None => None end) /\
                Inv e' d' /\ same_up_to_ts m m'.
Proof.
  intros (HL & Hsz & HT) (Hshape & Hnd) Henc. unfold SequenceRoundtrip.enc_msg in Henc.
  assert (Hpos : 0 < L.size (e_lru e)) by lia.
  assert (Hok : T.ok_ts (ts_of (m_fields m))).
  { apply ok_ts_of. rewrite Forall_forall in *. intros f Hf. apply (Hshape f Hf). }
  destruct d as [tab dts]. cbn [t_tab t_ts] in *.
  (* the timestamp decision, uniformly: w is what goes on the wire, dts' the decoder's clock afterwards *)
  assert (Hdec : exists w ts' dts',
            (if compressed then T.enc_step (e_ts e) (ts_of (m_fields m)) else (T.NoTs, e_ts e)) = (w, ts') /\
            (compressed = true -> T.R ts' dts') /\
            match w with
            | T.Compressed o => T.dec_step dts (T.Compressed o) = (ts_of (m_fields m), dts') /\ compressed = true
            | _ => dts' = match ts_of (m_fields m) with Some t => snd (T.dec_step dts (T.Full t)) | None => dts end
            end).
  { destruct compressed eqn:Ecomp.
    - specialize (HT eq_refl). pose proof (T.step_sim (e_ts e) dts (ts_of (m_fields m)) HT Hok) as Hts.
      destruct (T.enc_step (e_ts e) (ts_of (m_fields m))) as [w ts'] eqn:Ew.
      destruct (T.dec_step dts w) as [o dts'] eqn:Ed. destruct Hts as [Ho HR]. subst o.
      exists w, ts', dts'. split; [reflexivity|]. split; [intros _; exact HR|].
      destruct w as [|tf|off].
      + cbn in Ed. injection Ed as Ho <-. rewrite <- Ho. reflexivity.
      + cbn in Ed. injection Ed as Ho <-. rewrite <- Ho. reflexivity.
      + split; [exact Ed|reflexivity].
    - exists T.NoTs, (e_ts e), (match ts_of (m_fields m) with Some t => snd (T.dec_step dts (T.Full t)) | None => dts end).
      split; [reflexivity|]. split; [discriminate|reflexivity]. }
  destruct Hdec as (w & ts' & dts' & Hw & HR' & Hcase). rewrite Hw in Henc.
  destruct w as [|tf|off].
  - (* normal header, fields as they are *)
    set (dd := {| d_num := m_num m; d_big := big; d_defs := def_of (m_fields m) |}) in *.
    destruct (L.put defn_eqb (e_lru e) dd) as [[idx is_new] lru'] eqn:Ep. injection Henc as <- <-.
    destruct (def_step _ _ _ _ _ _ HL Hpos Ep) as (Htab & HL' & Hsz' & Hrun).
    exists {| m_num := m_num m; m_fields := m_fields m |}, {| t_tab := L.dec_step tab idx is_new dd; t_ts := dts' |}.
    split; [|split; [split; [exact HL'|split; [cbn; lia|exact HR']]|split; [reflexivity|left; reflexivity]]].
    intros rest. rewrite <- app_assoc. cbn [app]. rewrite Hrun.
    cbn [SequenceRoundtrip.dec_all SequenceRoundtrip.dec_rec t_tab t_ts]. rewrite Htab. cbn [d_num d_big d_defs dd].
    rewrite (message_roundtrip _ big _ Hshape), <- Hcase. reflexivity.
  - set (dd := {| d_num := m_num m; d_big := big; d_defs := def_of (m_fields m) |}) in *.
    destruct (L.put defn_eqb (e_lru e) dd) as [[idx is_new] lru'] eqn:Ep. injection Henc as <- <-.
    destruct (def_step _ _ _ _ _ _ HL Hpos Ep) as (Htab & HL' & Hsz' & Hrun).
    exists {| m_num := m_num m; m_fields := m_fields m |}, {| t_tab := L.dec_step tab idx is_new dd; t_ts := dts' |}.
    split; [|split; [split; [exact HL'|split; [cbn; lia|exact HR']]|split; [reflexivity|left; reflexivity]]].
    intros rest. rewrite <- app_assoc. cbn [app]. rewrite Hrun.
    cbn [SequenceRoundtrip.dec_all SequenceRoundtrip.dec_rec t_tab t_ts]. rewrite Htab. cbn [d_num d_big d_defs dd].
    rewrite (message_roundtrip _ big _ Hshape), <- Hcase. reflexivity.
  - (* compressed header: the timestamp field leaves the message and comes back from the decoder's clock *)
    destruct Hcase as [Hd _].
    set (fs' := remove_ts (m_fields m)) in *.
    set (dd := {| d_num := m_num m; d_big := big; d_defs := def_of fs' |}) in *.
    destruct (L.put defn_eqb (e_lru e) dd) as [[idx is_new] lru'] eqn:Ep. injection Henc as <- <-.
    destruct (def_step _ _ _ _ _ _ HL Hpos Ep) as (Htab & HL' & Hsz' & Hrun).
    (* the compressed branch is only taken when there is a timestamp *)
    assert (Hsome : exists t0, find (fun f => N.eqb (f_num f) TS) (m_fields m) = Some {| f_num := TS; f_value := VNum TU32 t0 |}
                               /\ ts_of (m_fields m) = Some (Z.of_N t0)).
    { destruct (ts_of (m_fields m)) as [t|] eqn:Et.
      - unfold ts_of in Et. destruct (find _ (m_fields m)) as [f|] eqn:Ef; [|discriminate].
        pose proof (find_ts_field _ _ Ef) as Hn. destruct f as [fn fv]. cbn in *. subst fn.
        destruct fv as [ty x|]; [|discriminate]. destruct ty; try discriminate. injection Et as <-. exists x. split; reflexivity.
      - exfalso. cbn in Hw. destruct compressed; [|discriminate]. cbn in Hw. discriminate. }
    destruct Hsome as (t0 & Hfind & Hts).
    exists {| m_num := m_num m; m_fields := {| f_num := TS; f_value := VNum TU32 t0 |} :: fs' |},
           {| t_tab := L.dec_step tab idx is_new dd; t_ts := dts' |}.
    split; [|split; [split; [exact HL'|split; [cbn; lia|exact HR']]|split; [reflexivity|right; exists t0; split; [exact Hfind|reflexivity]]]].
    intros rest. rewrite <- app_assoc. cbn [app]. rewrite Hrun.
    cbn [SequenceRoundtrip.dec_all SequenceRoundtrip.dec_rec t_tab t_ts]. rewrite Htab. cbn [d_num d_big d_defs dd].
    rewrite (message_roundtrip _ big fs' (remove_ts_shape _ _ Hshape)), Hd, Hts.
    unfold ts_field. rewrite N2Z.id. reflexivity.
Qed.

Theorem sequence_roundtrip ms : Forall wf_msg ms ->
  forall e d, Inv e d ->
  exists ms', dec_all d (enc_all e ms) = Some ms' /\ Forall2 same_up_to_ts ms ms'.
Proof.
  induction ms as [|m r IH]; intros Hall e d HI; cbn [SequenceRoundtrip.enc_all].
  - exists []. split; [reflexivity|constructor].
  - inversion Hall as [|? ? Hm Hr]; subst.
    destruct (SequenceRoundtrip.enc_msg big compressed e m) as [ws e'] eqn:Ee.
    destruct (msg_step e d m ws e' HI Hm Ee) as (m' & d' & Hrun & HI' & Hsame).
    destruct (IH Hr e' d' HI') as (ms' & Hdec & Hall').
    exists (m' :: ms'). split; [rewrite Hrun, Hdec; reflexivity|constructor; assumption].
Qed.

(* from the initial states of a sequence *)
Corollary sequence_roundtrip_init ms : Forall wf_msg ms ->
  exists ms', dec_all {| t_tab := fun _ => None; t_ts := {| T.T := 0; T.L := 0 |} |}
                      (enc_all {| e_lru := L.init dflt cache; e_ts := {| T.ref := 0; T.last := 0 |} |} ms) = Some ms'
              /\ Forall2 same_up_to_ts ms ms'.
Proof.
  intros H. apply sequence_roundtrip; [exact H|]. split; [apply L.inv_init|]. split; [reflexivity|].
  intros _. unfold T.R; cbn. repeat split; lia.
Qed.
End Proof.

Print Assumptions sequence_roundtrip_init.
