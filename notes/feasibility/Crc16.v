(* Design-phase feasibility probe (not wired into any check).
   kit/hash/crc16: the nibble-table update equals the bit-serial CRC-16 (reflected polynomial 0xA001,
   initial value 0, no final xor) for every state and byte; the checksum of a byte string does not
   depend on how it is split into writes.  [table] is what the translator will emit from crc16.go. *)
From Coq Require Import NArith List Lia Bool.
Import ListNotations.
Open Scope N_scope.

(* ---- as in crc16.go *)
Definition table : list N :=
  [0x0000; 0xCC01; 0xD801; 0x1400; 0xF001; 0x3C00; 0x2800; 0xE401;
   0xA001; 0x6C00; 0x7800; 0xB401; 0x5000; 0x9C01; 0x8801; 0x4400].
Definition tab (i : N) := nth (N.to_nat i) table 0.

Definition nib (crc n : N) : N :=           (* tmp = table[crc&0xF]; crc = (crc>>4)&0x0FFF; crc ^ tmp ^ table[n] *)
  N.lxor (N.lxor (N.land (N.shiftr crc 4) 0x0FFF) (tab (N.land crc 0xF))) (tab n).
Definition update (crc b : N) : N := nib (nib crc (N.land b 0xF)) (N.land (N.shiftr b 4) 0xF).
Definition write (crc : N) (bs : list N) : N := fold_left update bs crc.
Definition sum16 (bs : list N) := write 0 bs.

(* ---- the mathematical definition: one LFSR step per message bit, least significant bit first *)
Definition bitstep (crc bit : N) : N :=
  let s := N.shiftr crc 1 in
  if N.eqb (N.lxor (N.land crc 1) bit) 1 then N.lxor s 0xA001 else s.
Definition bit (b i : N) := N.land (N.shiftr b i) 1.
Definition bits_of (width : nat) (b : N) : list N := map (fun i => bit b (N.of_nat i)) (seq 0 width).
Definition crc_bits (crc : N) (bits : list N) := fold_left bitstep bits crc.
Definition crc16_arc (bs : list N) : N := crc_bits 0 (concat (map (bits_of 8) bs)).

(* ---- finite sweeps *)
Fixpoint range (k : nat) (start : N) : list N :=
  match k with O => [] | S k' => start :: range k' (N.succ start) end.
Definition Nrange (n : N) := range (N.to_nat n) 0.
Lemma in_range k : forall s x, s <= x < s + N.of_nat k -> In x (range k s).
Proof. induction k as [|k IH]; intros s x H; cbn [range]; [lia|].
  destruct (N.eq_dec s x) as [->|Hne]; [left; reflexivity|right]. apply IH. lia. Qed.
Lemma in_Nrange n x : x < n -> In x (Nrange n).
Proof. intros H. apply in_range. rewrite N2Nat.id. lia. Qed.

Definition nib_check (c n : N) := N.eqb (nib c n) (crc_bits c (bits_of 4 n)) && N.ltb (nib c n) 65536.
Lemma nibble_sweep : forallb (fun c => forallb (nib_check c) (Nrange 16)) (Nrange 65536) = true.
Proof. vm_compute. reflexivity. Qed.

Lemma nibble_ok c n : c < 65536 -> n < 16 -> nib c n = crc_bits c (bits_of 4 n) /\ nib c n < 65536.
Proof.
  intros Hc Hn. pose proof nibble_sweep as H. rewrite forallb_forall in H.
  specialize (H c (in_Nrange _ _ Hc)). rewrite forallb_forall in H. specialize (H n (in_Nrange _ _ Hn)).
  unfold nib_check in H. apply andb_prop in H. destruct H as [H1 H2].
  split; [apply N.eqb_eq; exact H1 | apply N.ltb_lt; exact H2].
Qed.

Lemma byte_bits_sweep :
  forallb (fun b => if list_eq_dec N.eq_dec (bits_of 8 b) (bits_of 4 (N.land b 0xF) ++ bits_of 4 (N.land (N.shiftr b 4) 0xF))
                    then N.ltb (N.land b 0xF) 16 && N.ltb (N.land (N.shiftr b 4) 0xF) 16 else false) (Nrange 256) = true.
Proof. vm_compute. reflexivity. Qed.

Lemma byte_bits b : b < 256 ->
  bits_of 8 b = bits_of 4 (N.land b 0xF) ++ bits_of 4 (N.land (N.shiftr b 4) 0xF)
  /\ N.land b 0xF < 16 /\ N.land (N.shiftr b 4) 0xF < 16.
Proof.
  intros Hb. pose proof byte_bits_sweep as H. rewrite forallb_forall in H. specialize (H b (in_Nrange _ _ Hb)). cbv beta in H.
  destruct (list_eq_dec _ _ _) as [E|]; [|discriminate]. apply andb_prop in H. destruct H as [H1 H2].
  repeat split; [exact E | apply N.ltb_lt; exact H1 | apply N.ltb_lt; exact H2].
Qed.

(* ---- per byte, for every state *)
Theorem update_spec s b : s < 65536 -> b < 256 -> update s b = crc_bits s (bits_of 8 b) /\ update s b < 65536.
Proof.
  intros Hs Hb. destruct (byte_bits b Hb) as (Hbits & Hlo & Hhi). unfold update.
  destruct (nibble_ok s _ Hs Hlo) as [E1 B1]. destruct (nibble_ok _ _ B1 Hhi) as [E2 B2].
  split; [|exact B2]. rewrite E2, E1, Hbits. unfold crc_bits. rewrite fold_left_app. reflexivity.
Qed.

(* ---- for every byte string *)
Definition bytes_ok (bs : list N) := Forall (fun b => b < 256) bs.

Lemma write_spec bs : forall s, s < 65536 -> bytes_ok bs ->
  write s bs = crc_bits s (concat (map (bits_of 8) bs)) /\ write s bs < 65536.
Proof.
  induction bs as [|b bs IH]; intros s Hs Hok; cbn [write fold_left map concat]; [split; [reflexivity|exact Hs]|].
  inversion Hok as [|? ? Hb Hrest]; subst. destruct (update_spec s b Hs Hb) as [E B].
  destruct (IH (update s b) B Hrest) as [E' B']. split; [|exact B'].
  unfold write in E'. rewrite E', E. unfold crc_bits. rewrite fold_left_app. reflexivity.
Qed.

Theorem C18_reference bs : bytes_ok bs -> sum16 bs = crc16_arc bs.
Proof. intros H. apply (write_spec bs 0); [reflexivity|exact H]. Qed.

Theorem C18_split s a b : write s (a ++ b) = write (write s a) b.
Proof. unfold write. apply fold_left_app. Qed.

Theorem C18_chunking chunks : fold_left write chunks 0 = sum16 (concat chunks).
Proof.
  unfold sum16. generalize 0 as s. induction chunks as [|c cs IH]; intros s; cbn [fold_left concat]; [reflexivity|].
  rewrite C18_split. apply IH.
Qed.

Theorem C18_state_bounded bs : bytes_ok bs -> sum16 bs < 65536.
Proof. intros H. apply (write_spec bs 0); [reflexivity|exact H]. Qed.

(* check value of CRC-16/ARC for "123456789" is 0xBB3D *)
Example arc_check : sum16 [49;50;51;52;53;54;55;56;57] = 0xBB3D.
Proof. vm_compute. reflexivity. Qed.

Print Assumptions C18_reference.
Print Assumptions C18_chunking.
