(* Design-phase feasibility probe (not wired into any check).
   encoder.encodeMessage in the size-calculating dry run (w == io.Discard): the timestamp field is removed
   by RemoveFieldByNum (an in-place append over the same backing array) and put back by the deferred
     mesg.Fields = mesg.Fields[:prevLen]; copy(mesg.Fields[i+1:], mesg.Fields[i:]); mesg.Fields[i] = ts
   Modelled with the backing array explicit: the caller's fields are exactly what they were
   (dry_run_preserves of C02/C09). *)
From Coq Require Import List Lia Arith.
Import ListNotations.

Section Revert.
Context {F : Type} (is_ts : F -> bool).

(* a Go slice: backing array + length (offset 0) *)
Record slice := { arr : list F; len : nat }.
Definition view (s : slice) := firstn (len s) (arr s).

Fixpoint index_of (l : list F) : option nat :=
  match l with [] => None | x :: r => if is_ts x then Some 0 else option_map S (index_of r) end.

(* append(s[:i], s[i+1:]...): elements i+1.. move one to the left inside the same array, length shrinks *)
Definition remove_at (i : nat) (s : slice) : slice :=
  {| arr := firstn i (arr s) ++ skipn (S i) (firstn (len s) (arr s)) ++ skipn (len s - 1) (arr s);
     len := len s - 1 |}.

(* s = s[:prevLen]; copy(s[i+1:], s[i:]); s[i] = ts *)
Definition revert (i prev_len : nat) (ts : F) (s : slice) : slice :=
  let a := arr s in
  let moved := firstn (prev_len - (i + 1)) (skipn i a) in          (* copy: min(len dst, len src) elements *)
  {| arr := firstn i a ++ ts :: moved ++ skipn prev_len a; len := prev_len |}.

Lemma index_of_spec l i : index_of l = Some i -> i < length l /\ exists x, nth_error l i = Some x /\ is_ts x = true.
Proof.
  revert i. induction l as [|y r IH]; intros i H; cbn in H; [discriminate|].
  destruct (is_ts y) eqn:E.
  - injection H as <-. cbn. split; [lia|]. exists y. auto.
  - destruct (index_of r) as [j|]; [|discriminate]. injection H as <-. destruct (IH j eq_refl) as (Hl & x & Hx & Hts).
    cbn. split; [lia|]. exists x. auto.
Qed.

Lemma split_at (a : list F) : forall i ts, nth_error a i = Some ts -> a = firstn i a ++ ts :: skipn (S i) a.
Proof.
  induction a as [|x r IH]; intros i ts H; [destruct i; discriminate|].
  destruct i; cbn in *; [injection H as ->; reflexivity|]. f_equal. apply IH. exact H.
Qed.

Theorem dry_run_preserves (a : list F) i ts :
  nth_error a i = Some ts ->
  let s := {| arr := a; len := length a |} in            (* messages reach the encoder with len = cap here *)
  view (revert i (len s) ts (remove_at i s)) = view s.
Proof.
  intros Hts s. assert (Hlt : i < length a) by (apply nth_error_Some; congruence).
  unfold view, revert, remove_at, s. cbn [arr len]. rewrite !firstn_all.
  set (n := length a) in *.
  set (a1 := firstn i a ++ skipn (S i) a ++ skipn (n - 1) a).
  assert (La1 : length a1 = n).
  { unfold a1. rewrite !app_length, firstn_length, !skipn_length. fold n. lia. }
  assert (Hf : firstn i a1 = firstn i a).
  { unfold a1. rewrite firstn_app, firstn_firstn, firstn_length. fold n.
    replace (Nat.min i i) with i by lia. replace (i - Nat.min i n) with 0 by lia. rewrite firstn_O, app_nil_r. reflexivity. }
  assert (Hs : firstn (n - (i + 1)) (skipn i a1) = skipn (S i) a).
  { unfold a1. rewrite skipn_app, firstn_length. fold n. replace (i - Nat.min i n) with 0 by lia. rewrite skipn_O.
    rewrite (skipn_all2 (firstn i a)) by (rewrite firstn_length; fold n; lia). cbn [app].
    rewrite firstn_app, skipn_length. fold n. replace (n - (i + 1) - (n - S i)) with 0 by lia.
    rewrite firstn_O, app_nil_r. apply firstn_all2. rewrite skipn_length. fold n. lia. }
  assert (Hk : skipn n a1 = []) by (apply skipn_all2; lia).
  rewrite Hf, Hs, Hk, app_nil_r.
  assert (Hlen : length (firstn i a ++ ts :: skipn (S i) a) = n).
  { rewrite app_length, firstn_length. cbn [length]. rewrite skipn_length. fold n. lia. }
  rewrite firstn_all2 by lia. symmetry. apply split_at. exact Hts.
Qed.
End Revert.
Print Assumptions dry_run_preserves.
