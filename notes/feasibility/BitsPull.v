(* Design-phase feasibility probe (not wired into any check).
   decoder/bits.go Pull on the 32 x 64-bit store: returns the low k bits of the whole 2048-bit number and
   leaves the number shifted right by k -- "bit slices are taken in order from the least significant bit
   across the whole containing value" (C05). *)
From Coq Require Import ZArith List Lia.
Import ListNotations.
Open Scope Z_scope.

Definition W := 2^64.
Fixpoint V (ws : list Z) : Z := match ws with [] => 0 | w :: r => w + W * V r end.
Definition words_ok (ws : list Z) := Forall (fun w => 0 <= w < W) ws.

(* the loop of Pull, word i receives the low k bits of word i+1 at its top (store[i-1] |= lo happens after
   store[i-1] >>= k, so the or is an addition of disjoint bit ranges, see lor_disjoint below) *)
Fixpoint shift_words (k : Z) (ws : list Z) : list Z :=
  match ws with
  | [] => []
  | w :: r => (w / 2^k + ((hd 0 r) mod 2^k) * 2^(64 - k)) :: shift_words k r
  end.
Definition pull (k : Z) (ws : list Z) : Z * list Z := ((hd 0 ws) mod 2^k, shift_words k ws).

Lemma W_split k : 0 <= k <= 64 -> W = 2^k * 2^(64 - k).
Proof. intros H. unfold W. rewrite <- Z.pow_add_r by lia. f_equal. lia. Qed.

Lemma V_mod k ws : 0 <= k <= 64 -> V ws mod 2^k = (hd 0 ws) mod 2^k.
Proof.
  intros Hk. destruct ws as [|w r]; cbn [V hd]; [reflexivity|].
  rewrite (W_split k Hk). replace (w + 2^k * 2^(64-k) * V r) with (w + (2^(64-k) * V r) * 2^k) by ring.
  apply Z.mod_add. assert (0 < 2^k) by (apply Z.pow_pos_nonneg; lia). lia.
Qed.

Theorem shift_words_spec k : 0 <= k <= 64 -> forall ws, V (shift_words k ws) = V ws / 2^k.
Proof.
  intros Hk. assert (Hp : 0 < 2^k) by (apply Z.pow_pos_nonneg; lia).
  induction ws as [|w r IH]; cbn [shift_words V]; [rewrite Z.div_0_l; lia|].
  rewrite IH, <- (V_mod k r Hk).
  (* w + W * V r = w + 2^k * (2^(64-k) * V r) *)
  rewrite (W_split k Hk) at 2.
  replace (w + 2^k * 2^(64-k) * V r) with (w + (2^(64-k) * V r) * 2^k) by ring.
  rewrite Z.div_add by lia.
  pose proof (Z.div_mod (V r) (2^k) ltac:(lia)) as Hdm.
  rewrite (W_split k Hk).
  replace (2^(64-k) * V r) with (2^(64-k) * (2^k * (V r / 2^k) + V r mod 2^k)) by (rewrite <- Hdm; reflexivity).
  ring.
Qed.

Theorem pull_spec k ws : 0 <= k <= 64 ->
  fst (pull k ws) = V ws mod 2^k /\ V (snd (pull k ws)) = V ws / 2^k.
Proof. intros Hk. unfold pull; cbn [fst snd]. split; [symmetry; apply V_mod; exact Hk|apply shift_words_spec; exact Hk]. Qed.

(* consecutive pulls cut consecutive slices *)
Corollary pull_twice k1 k2 ws : 0 <= k1 <= 64 -> 0 <= k2 <= 64 ->
  fst (pull k2 (snd (pull k1 ws))) = (V ws / 2^k1) mod 2^k2.
Proof. intros H1 H2. destruct (pull_spec k2 (snd (pull k1 ws)) H2) as [-> _]. destruct (pull_spec k1 ws H1) as [_ ->]. reflexivity. Qed.

(* the bit ranges are disjoint, so Go's |= is this addition *)
Lemma lor_disjoint w x k : 0 < k <= 64 -> 0 <= w < W -> 0 <= x ->
  Z.lor (w / 2^k) (Z.shiftl (x mod 2^k) (64 - k)) = w / 2^k + (x mod 2^k) * 2^(64 - k).
Proof.
  intros Hk Hw Hx. rewrite Z.shiftl_mul_pow2 by lia. assert (Hland : Z.land (w / 2^k) ((x mod 2^k) * 2^(64 - k)) = 0); [|rewrite Z.add_nocarry_lxor, Z.lxor_lor by exact Hland; reflexivity].
  apply Z.bits_inj'. intros n Hn. rewrite Z.land_spec, Z.bits_0.
  assert (Hp : 0 < 2^k) by (apply Z.pow_pos_nonneg; lia).
  destruct (Z.lt_ge_cases n (64 - k)) as [Hlt|Hge].
  - rewrite Z.mul_pow2_bits_low by lia. apply Bool.andb_false_r.
  - assert (Hsmall : 0 <= w / 2^k < 2^(64 - k)).
    { split; [apply Z.div_pos; lia|]. apply Z.div_lt_upper_bound; [lia|]. rewrite <- W_split by lia. lia. }
    destruct (Z.eq_dec (w / 2^k) 0) as [->|Hnz]; [rewrite Z.bits_0; reflexivity|].
    rewrite (Z.bits_above_log2 (w / 2^k) n); [reflexivity|lia|].
    apply Z.lt_le_trans with (64 - k); [apply Z.log2_lt_pow2; lia|lia].
Qed.
Print Assumptions pull_spec.
Print Assumptions lor_disjoint.
