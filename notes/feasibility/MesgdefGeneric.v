(* Design-phase feasibility probe (not wired into any check).
   Generic model of the generated typed messages (profile/mesgdef/*_gen.go) interpreting a translated
   specification: Reset reads vals[num] through a typed accessor (mismatch or absence = invalid sentinel /
   nil), ToMesg emits a field for every slot that passes its guard, unknown fields are carried verbatim.
   Theorem: struct -> message -> struct is the identity for every well-formed specification (C13, second
   half); the first half and `never panics` follow the same case analysis.  Slot kinds: scalar and slice. *)
From Coq Require Import NArith List Lia Arith Bool.
Import ListNotations.
Require Import ValueCodec.

Definition ntype_eqb (a b : ntype) : bool :=
  match a, b with
  | TBool, TBool | TI8, TI8 | TU8, TU8 | TI16, TI16 | TU16, TU16 | TI32, TI32 | TU32, TU32
  | TI64, TI64 | TU64, TU64 | TF32, TF32 | TF64, TF64 => true
  | _, _ => false
  end.
Lemma ntype_eqb_refl t : ntype_eqb t t = true. Proof. destruct t; reflexivity. Qed.
Lemma ntype_eqb_eq a b : ntype_eqb a b = true -> a = b. Proof. destruct a, b; cbn; congruence. Qed.

Record field := { f_num : N; f_known : bool; f_value : value; f_expanded : bool }.

Inductive kind := KNum (invalid : N) | KArr.
Record mfield := { mf_num : N; mf_type : ntype; mf_kind : kind; mf_expandable : bool }.
Record mspec := { ms_bound : N; ms_exp_bound : N; ms_fields : list mfield }.

Inductive sval := SVNum (x : N) | SVArr (l : option (list N)).
Record tstruct := { slots : list sval; state : list N; unknown : list field }.

(* ---- Reset *)
Definition goes_unknown (s : mspec) (f : field) : bool := (ms_bound s <=? f_num f)%N || negb (f_known f).

Fixpoint lookup (s : mspec) (fs : list field) (k : N) : option value :=      (* vals[k]: last write wins *)
  match fs with
  | [] => None
  | f :: r => match lookup s r k with
              | Some v => Some v
              | None => if negb (goes_unknown s f) && N.eqb (f_num f) k then Some (f_value f) else None
              end
  end.

Definition read_slot (mf : mfield) (v : option value) : sval :=
  match mf_kind mf, v with
  | KNum inv, Some (VNum t x) => if ntype_eqb t (mf_type mf) then SVNum x else SVNum inv
  | KNum inv, _ => SVNum inv
  | KArr, Some (VArr t l) => if ntype_eqb t (mf_type mf) then SVArr (Some l) else SVArr None
  | KArr, _ => SVArr None
  end.

Definition reset (s : mspec) (fs : list field) : tstruct :=
  {| slots := map (fun mf => read_slot mf (lookup s fs (mf_num mf))) (ms_fields s);
     state := map f_num (filter (fun f => negb (goes_unknown s f) && (f_num f <? ms_exp_bound s)%N && f_expanded f) fs);
     unknown := filter (goes_unknown s) fs |}.

(* ---- ToMesg (IncludeExpandedFields = true) *)
Definition emit (st : list N) (mf : mfield) (v : sval) : list field :=
  let e := mf_expandable mf && existsb (N.eqb (mf_num mf)) st in
  match mf_kind mf, v with
  | KNum inv, SVNum x => if N.eqb x inv then [] else [{| f_num := mf_num mf; f_known := true; f_value := VNum (mf_type mf) x; f_expanded := e |}]
  | KArr, SVArr (Some l) => [{| f_num := mf_num mf; f_known := true; f_value := VArr (mf_type mf) l; f_expanded := e |}]
  | _, _ => []
  end.

Fixpoint emit_all (st : list N) (mfs : list mfield) (vs : list sval) : list field :=
  match mfs, vs with
  | mf :: mr, v :: vr => emit st mf v ++ emit_all st mr vr
  | _, _ => []
  end.

Definition to_mesg (s : mspec) (t : tstruct) : list field := emit_all (state t) (ms_fields s) (slots t) ++ unknown t.

(* ---- well-formedness of the translated spec, and canonical structs *)
Definition wf_spec (s : mspec) : Prop :=
  NoDup (map mf_num (ms_fields s)) /\
  Forall (fun mf => (mf_num mf < ms_bound s)%N /\ (mf_expandable mf = true -> (mf_num mf < ms_exp_bound s)%N)) (ms_fields s).

Definition slot_ok (mf : mfield) (v : sval) : Prop :=
  match mf_kind mf, v with KNum _, SVNum _ => True | KArr, SVArr _ => True | _, _ => False end.

(* slots of the right kind; state marks exactly emitted expandable fields (in spec order); unknown fields really unknown *)
Definition marked (s : mspec) (t : tstruct) : list N :=
  map f_num (filter f_expanded (emit_all (state t) (ms_fields s) (slots t))).
Definition canonical (s : mspec) (t : tstruct) : Prop :=
  Forall2 slot_ok (ms_fields s) (slots t) /\
  state t = marked s t /\
  Forall (fun f => goes_unknown s f = true) (unknown t).

(* ---- facts about emitted fields *)
Lemma emit_props st mf v f : In f (emit st mf v) ->
  f_num f = mf_num mf /\ f_known f = true /\ (f_expanded f = true -> mf_expandable mf = true).
Proof.
  unfold emit. destruct (mf_kind mf) as [inv|], v as [x|[l|]]; cbn; try tauto.
  - destruct (N.eqb x inv); cbn; [tauto|]. intros [<-|[]]; cbn. repeat split; auto. intros H. apply andb_prop in H. tauto.
  - intros [<-|[]]; cbn. repeat split; auto. intros H. apply andb_prop in H. tauto.
Qed.

Lemma emit_all_props st : forall mfs vs f, In f (emit_all st mfs vs) ->
  exists mf, In mf mfs /\ f_num f = mf_num mf /\ f_known f = true /\ (f_expanded f = true -> mf_expandable mf = true).
Proof.
  induction mfs as [|mf mr IH]; intros vs f H; [destruct vs; destruct H|].
  destruct vs as [|v vr]; [destruct H|]. cbn [emit_all] in H. apply in_app_iff in H. destruct H as [H|H].
  - exists mf. split; [left; reflexivity|apply (emit_props _ _ _ _ H)].
  - destruct (IH _ _ H) as (mf' & Hin & Hp). exists mf'. split; [right; exact Hin|exact Hp].
Qed.

Section Proof.
Variable s : mspec.
Hypothesis Hwf : wf_spec s.

Lemma in_spec_not_unknown f mf : In mf (ms_fields s) -> f_num f = mf_num mf -> f_known f = true -> goes_unknown s f = false.
Proof.
  intros Hin Hn Hk. destruct Hwf as [_ Hb]. rewrite Forall_forall in Hb. destruct (Hb _ Hin) as [Hlt _].
  unfold goes_unknown. rewrite Hk, Hn. cbn. rewrite orb_false_r. apply N.leb_gt. exact Hlt.
Qed.

Lemma lookup_app_unknown fs us k : Forall (fun f => goes_unknown s f = true) us -> lookup s (fs ++ us) k = lookup s fs k.
Proof.
  intros Hu. induction fs as [|f r IH]; cbn [app lookup].
  - induction us as [|u ur IHu]; [reflexivity|]. inversion Hu; subst. cbn [lookup]. rewrite IHu by assumption.
    match goal with H : goes_unknown s u = true |- _ => rewrite H end. reflexivity.
  - rewrite IH. reflexivity.
Qed.

Lemma lookup_not_in fs k : (forall f, In f fs -> f_num f <> k) -> lookup s fs k = None.
Proof.
  induction fs as [|f r IH]; intros H; cbn [lookup]; [reflexivity|].
  rewrite IH by (intros g Hg; apply H; right; exact Hg).
  destruct (N.eqb_spec (f_num f) k) as [E|E]; [exfalso; apply (H f); [left; reflexivity|exact E]|].
  rewrite andb_false_r. reflexivity.
Qed.

(* value carried by the emitted field of a slot, if any *)
Definition emitted_value (mf : mfield) (v : sval) : option value :=
  match mf_kind mf, v with
  | KNum inv, SVNum x => if N.eqb x inv then None else Some (VNum (mf_type mf) x)
  | KArr, SVArr (Some l) => Some (VArr (mf_type mf) l)
  | _, _ => None
  end.

Lemma lookup_emit_self st mf v : In mf (ms_fields s) ->
  lookup s (emit st mf v) (mf_num mf) = emitted_value mf v.
Proof.
  intros Hin. unfold emit, emitted_value.
  assert (Hnu : forall val e, goes_unknown s {| f_num := mf_num mf; f_known := true; f_value := val; f_expanded := e |} = false).
  { intros val e. apply (in_spec_not_unknown _ mf Hin); reflexivity. }
  destruct (mf_kind mf) as [inv|], v as [x|[l|]]; cbn [lookup]; try reflexivity.
  - destruct (N.eqb x inv); cbn [lookup]; [reflexivity|]. rewrite Hnu. cbn. rewrite N.eqb_refl. reflexivity.
  - rewrite Hnu. cbn. rewrite N.eqb_refl. reflexivity.
Qed.

Lemma lookup_app fs gs k : lookup s (fs ++ gs) k = match lookup s gs k with Some v => Some v | None => lookup s fs k end.
Proof.
  induction fs as [|f r IH]; cbn [app lookup]; [destruct (lookup s gs k); reflexivity|].
  rewrite IH. destruct (lookup s gs k); reflexivity.
Qed.

Lemma slots_back st : forall mfs vs, (forall mf, In mf mfs -> In mf (ms_fields s)) -> NoDup (map mf_num mfs) ->
  Forall2 slot_ok mfs vs ->
  forall mf v pre, In (mf, v) (combine mfs vs) ->
  (forall f, In f pre -> f_num f <> mf_num mf) ->
  read_slot mf (lookup s (pre ++ emit_all st mfs vs) (mf_num mf)) = v.
Proof.
  induction mfs as [|m0 mr IH]; intros vs Hsub Hnd Hok mf v pre Hin Hpre; [destruct Hin|].
  destruct vs as [|v0 vr]; [destruct Hin|]. inversion Hok as [|? ? ? ? Hok0 Hokr]; subst.
  inversion Hnd as [|? ? Hnotin Hndr]; subst. cbn [emit_all combine] in *.
  destruct Hin as [Heq|Hin].
  - injection Heq as -> ->.
    assert (Hrest : lookup s (emit_all st mr vr) (mf_num mf) = None).
    { apply lookup_not_in. intros f Hf E. destruct (emit_all_props _ _ _ _ Hf) as (mf' & Hin' & Hn' & _).
      apply Hnotin. rewrite <- E, Hn'. apply in_map. exact Hin'. }
    rewrite !lookup_app, Hrest, (lookup_emit_self st mf v (Hsub mf (or_introl eq_refl))).
    rewrite (lookup_not_in pre _ Hpre).
    unfold read_slot, emitted_value, slot_ok in *. destruct (mf_kind mf) as [inv|], v as [x|[l|]]; try tauto; cbn.
    all: try (destruct (N.eqb_spec x inv) as [->|]; [reflexivity|]); rewrite ?ntype_eqb_refl; reflexivity.
  - rewrite app_assoc. apply IH; auto.
    + intros m Hm. apply Hsub. right. exact Hm.
    + intros f Hf. apply in_app_iff in Hf. destruct Hf as [Hf|Hf]; [apply Hpre; exact Hf|].
      destruct (emit_props _ _ _ _ Hf) as [Hn _]. rewrite Hn. intro E. apply Hnotin. rewrite E.
      apply (in_map mf_num), (in_combine_l _ _ _ _ Hin).
Qed.

Lemma map_eq_combine {A B} (g : A -> B) : forall (xs : list A) (ys : list B), length xs = length ys ->
  (forall x y, In (x, y) (combine xs ys) -> g x = y) -> map g xs = ys.
Proof.
  induction xs as [|x xr IH]; intros [|y yr] Hl H; cbn in *; try discriminate; [reflexivity|].
  f_equal; [apply H; left; reflexivity|apply IH; [lia|intros; apply H; right; assumption]].
Qed.

Lemma Forall2_len {A B} (R : A -> B -> Prop) xs ys : Forall2 R xs ys -> length xs = length ys.
Proof. induction 1; cbn; [reflexivity|f_equal; assumption]. Qed.

Theorem struct_mesg_struct t : canonical s t -> reset s (to_mesg s t) = t.
Proof.
  intros (Hslots & Hstate & Hunk). destruct Hwf as [Hnd Hb]. unfold reset, to_mesg.
  set (E := emit_all (state t) (ms_fields s) (slots t)).
  assert (HE : forall f, In f E -> goes_unknown s f = false).
  { intros f Hf. destruct (emit_all_props _ _ _ _ Hf) as (mf & Hin & Hn & Hk & _). eapply in_spec_not_unknown; eassumption. }
  assert (Hnil : forall p, (forall f, In f E -> p f = false) -> filter p E = []).
  { intros p Hp. clear - Hp. induction E as [|f r IH]; [reflexivity|]. cbn. rewrite (Hp f (or_introl eq_refl)). apply IH.
    intros g Hg. apply Hp. right. exact Hg. }
  assert (Hall : forall (p : field -> bool) l, Forall (fun f => p f = true) l -> filter p l = l).
  { intros p l Hl. induction Hl as [|u r Hu _ IH]; [reflexivity|]. cbn. rewrite Hu, IH. reflexivity. }
  (* unknown fields come back *)
  assert (H3 : filter (goes_unknown s) (E ++ unknown t) = unknown t).
  { rewrite filter_app, (Hnil _ HE), (Hall _ _ Hunk). reflexivity. }
  (* slots come back *)
  assert (H1 : map (fun mf => read_slot mf (lookup s (E ++ unknown t) (mf_num mf))) (ms_fields s) = slots t).
  { apply map_eq_combine; [eapply Forall2_len; eassumption|]. intros mf v Hin.
    rewrite (lookup_app_unknown E (unknown t) (mf_num mf) Hunk).
    apply (slots_back (state t) (ms_fields s) (slots t) (fun _ h => h) Hnd Hslots mf v [] Hin). intros f []. }
  (* expanded marks come back *)
  assert (H2 : map f_num (filter (fun f => negb (goes_unknown s f) && (f_num f <? ms_exp_bound s)%N && f_expanded f) (E ++ unknown t)) = state t).
  { rewrite filter_app. replace (filter _ (unknown t)) with (@nil field).
    - rewrite app_nil_r, Hstate. unfold marked. fold E. f_equal. apply filter_ext_in. intros f Hf.
      rewrite (HE f Hf). cbn [negb andb]. destruct (f_expanded f) eqn:Ee; [|apply andb_false_r]. rewrite andb_true_r.
      destruct (emit_all_props _ _ _ _ Hf) as (mf & Hin & Hn & _ & Hexp). rewrite Forall_forall in Hb.
      destruct (Hb mf Hin) as [_ Hlt]. rewrite Hn. apply N.ltb_lt, Hlt, Hexp, Ee.
    - symmetry. clear - Hunk. induction Hunk as [|u r Hu _ IH]; [reflexivity|]. cbn. rewrite Hu. cbn. exact IH. }
  rewrite H1, H2, H3. destruct t; reflexivity.
Qed.
End Proof.
Print Assumptions struct_mesg_struct.
