(* Design-phase feasibility probe (not wired into any check).
   decoder/accumulator.go, one (message, field) entry: feeding the observations of a k-bit wrapping
   counter (k <= 32) yields the running total modulo 2^32, whatever the number of wrap-arounds. *)
From Coq Require Import ZArith List Lia.
Import ListNotations.
Open Scope Z_scope.

Definition W := 2^32.
Record entry := { value : Z; last : Z }.

(* first occurrence: appended with value = last = val, returns val *)
Definition first (val : Z) : Z * entry := (val, {| value := val; last := val |}).
(* av.value += (val - av.last) & mask; av.last = val   -- all in uint32, mask = (1<<bits) - 1 *)
Definition accumulate (k : Z) (e : entry) (val : Z) : Z * entry :=
  let mask_and x := x mod 2^k in
  let v := (value e + mask_and ((val - last e) mod W)) mod W in
  (v, {| value := v; last := val |}).

Fixpoint run (k : Z) (e : entry) (vals : list Z) : list Z :=
  match vals with [] => [] | v :: r => let '(o, e') := accumulate k e v in o :: run k e' r end.

(* the counter that is being observed: true totals t0, t0+i1, t0+i1+i2, ... *)
Fixpoint totals (t : Z) (incs : list Z) : list Z :=
  match incs with [] => [] | i :: r => (t + i) :: totals (t + i) r end.

Lemma pow_split k : 0 <= k <= 32 -> W = 2^k * 2^(32 - k).
Proof. intros H. unfold W. rewrite <- Z.pow_add_r by lia. f_equal. lia. Qed.

Lemma mod_mod_pow k x : 0 <= k <= 32 -> (x mod W) mod 2^k = x mod 2^k.
Proof.
  intros H. rewrite (pow_split k H). assert (0 < 2^k) by (apply Z.pow_pos_nonneg; lia).
  assert (0 < 2^(32-k)) by (apply Z.pow_pos_nonneg; lia).
  rewrite Z.rem_mul_r by lia. rewrite Z.mul_comm, Z.mod_add by lia. apply Z.mod_mod; lia.
Qed.

Theorem accumulate_spec k : 0 <= k <= 32 ->
  forall incs t e,
  Forall (fun i => 0 <= i < 2^k) incs ->
  value e = t mod W -> last e = t mod 2^k ->
  run k e (map (fun x => x mod 2^k) (totals t incs)) = map (fun x => x mod W) (totals t incs).
Proof.
  intros Hk. assert (Hp : 0 < 2^k) by (apply Z.pow_pos_nonneg; lia).
  induction incs as [|i r IH]; intros t e Hall Hv Hl; cbn [totals map run]; [reflexivity|].
  inversion Hall as [|? ? Hi Hr]; subst.
  unfold accumulate. cbn [value last].
  assert (Hinc : ((((t + i) mod 2^k - last e) mod W) mod 2^k) = i).
  { rewrite mod_mod_pow by exact Hk. rewrite Hl. rewrite Zminus_mod_idemp_l, Zminus_mod_idemp_r.
    replace (t + i - t) with i by ring. apply Z.mod_small; exact Hi. }
  rewrite Hinc, Hv, Zplus_mod_idemp_l. f_equal.
  apply IH; [exact Hr|cbn; reflexivity|cbn; reflexivity].
Qed.

(* the first observation v0 starts the total at v0 itself *)
Corollary accumulate_from_first k v0 incs : 0 <= k <= 32 -> 0 <= v0 < 2^k ->
  Forall (fun i => 0 <= i < 2^k) incs ->
  run k (snd (first v0)) (map (fun x => x mod 2^k) (totals v0 incs)) = map (fun x => x mod W) (totals v0 incs).
Proof.
  intros Hk Hv Hall. apply accumulate_spec; auto; cbn.
  - symmetry. apply Z.mod_small. unfold W. assert (2^k <= 2^32) by (apply Z.pow_le_mono_r; lia). lia.
  - symmetry. apply Z.mod_small. exact Hv.
Qed.
Print Assumptions accumulate_from_first.
