(* Design-phase feasibility probe (not wired into any check).
   profile/filedef/listener.go as a two-thread protocol over the channels poolc (capacity P, holds the
   reusable field slices), mesgc (capacity B) and done.  P = B is the pinned code, P = B + 1 the repair.
   Every maximal execution is finite; with P >= 1 it ends with the worker having processed exactly the
   messages passed to OnMesg, in order; with P = 0 the initial state is already stuck. *)
From Coq Require Import List Lia Arith Bool.
Import ListNotations.

Section Listener.
Context {M : Type}.
Variables (P B : nat).

Inductive cpc :=
| CIdle (todo : list M)                 (* between OnMesg calls; [] = about to Close *)
| CHave (m : M) (todo : list M)         (* took a slice from poolc, about to send on mesgc *)
| CClosing (k : nat) (have : bool)      (* mesgc closed; k pool slots still to clear *)
| CWaitDone
| CDone.
Inductive wpc := WRecv | WHave (m : M) | WExit.

Record st := { c : cpc; w : wpc; pool : nat; q : list M; closed : bool; done : bool; processed : list M }.

Definition set_c s x := {| c := x; w := w s; pool := pool s; q := q s; closed := closed s; done := done s; processed := processed s |}.

(* successor states (one per enabled atomic action) *)
Definition caller_steps (s : st) : list st :=
  match c s with
  | CIdle (m :: r) => if 0 <? pool s then [{| c := CHave m r; w := w s; pool := pool s - 1; q := q s; closed := closed s; done := done s; processed := processed s |}] else []
  | CIdle [] => [{| c := CClosing P false; w := w s; pool := pool s; q := q s; closed := true; done := done s; processed := processed s |}]
  | CHave m r =>
      if length (q s) <? B then [{| c := CIdle r; w := w s; pool := pool s; q := q s ++ [m]; closed := closed s; done := done s; processed := processed s |}]
      else if (B =? 0) && (match w s with WRecv => true | _ => false end) && (match q s with [] => true | _ => false end)
           then [{| c := CIdle r; w := WHave m; pool := pool s; q := q s; closed := closed s; done := done s; processed := processed s |}]  (* rendezvous *)
           else []
  | CClosing (S k) false => if 0 <? pool s then [{| c := CClosing (S k) true; w := w s; pool := pool s - 1; q := q s; closed := closed s; done := done s; processed := processed s |}] else []
  | CClosing (S k) true => if pool s <? P then [{| c := CClosing k false; w := w s; pool := pool s + 1; q := q s; closed := closed s; done := done s; processed := processed s |}] else []
  | CClosing O false => [set_c s CWaitDone]
  | CClosing O true => if pool s <? P then [{| c := CWaitDone; w := w s; pool := pool s + 1; q := q s; closed := closed s; done := done s; processed := processed s |}] else []
  | CWaitDone => if done s then [set_c s CDone] else []
  | CDone => []
  end.

Definition worker_steps (s : st) : list st :=
  match w s with
  | WRecv =>
      match q s with
      | m :: r => [{| c := c s; w := WHave m; pool := pool s; q := r; closed := closed s; done := done s; processed := processed s |}]
      | [] => if closed s then [{| c := c s; w := WExit; pool := pool s; q := []; closed := closed s; done := true; processed := processed s |}] else []
      end
  | WHave m => if pool s <? P then [{| c := c s; w := WRecv; pool := pool s + 1; q := q s; closed := closed s; done := done s; processed := processed s ++ [m] |}] else []
  | WExit => []
  end.

Definition steps s := caller_steps s ++ worker_steps s.
Definition final s := match c s, w s with CDone, WExit => True | _, _ => False end.
Definition init (ms : list M) : st := {| c := CIdle ms; w := WRecv; pool := P; q := []; closed := false; done := false; processed := [] |}.

(* ---- invariant: slices are conserved, messages stay in FIFO order, flags are consistent *)
Definition held_c s := match c s with CHave _ _ => 1 | CClosing _ true => 1 | _ => 0 end.
Definition held_w s := match w s with WHave _ => 1 | _ => 0 end.
Definition todo_c s := match c s with CIdle r => r | CHave m r => m :: r | _ => [] end.
Definition inflight_w s := match w s with WHave m => [m] | _ => [] end.
Definition closing s := match c s with CIdle _ | CHave _ _ => false | _ => true end.

Definition Inv (ms : list M) s :=
  pool s + held_c s + held_w s + length (q s) = P /\
  processed s ++ inflight_w s ++ q s ++ todo_c s = ms /\
  closed s = closing s /\
  (done s = true <-> w s = WExit) /\
  (w s = WExit -> q s = [] /\ closed s = true) /\
  (B = 0 -> q s = []) /\ length (q s) <= B.

Lemma inv_init ms : Inv ms (init ms).
Proof. unfold Inv, init; cbn. repeat split; intros; try lia; try discriminate; auto. Qed.

Ltac inv_tac := unfold Inv, held_c, held_w, todo_c, inflight_w, closing in *; cbn [c w pool q closed done processed set_c] in *.

Ltac fin := intros; subst; cbn in *; try lia; try congruence; try tauto; try discriminate;
  repeat match goal with H : ?x = ?x -> _ |- _ => specialize (H eq_refl) end;
  try (intuition (try congruence; try lia; try discriminate)).
Ltac cj := repeat match goal with |- _ /\ _ => split | |- _ <-> _ => split end; fin.
Ltac one Hin := destruct Hin as [<-|[]].

Lemma step_inv ms s s' : Inv ms s -> In s' (steps s) -> Inv ms s'.
Proof.
  intros HI Hin. unfold steps in Hin. apply in_app_iff in Hin. destruct Hin as [Hin|Hin].
  - unfold caller_steps in Hin. destruct s as [cs ws p qs cl dn pr]. inv_tac.
    destruct HI as (H1 & H2 & H3 & H4 & H5 & H6 & H7).
    destruct cs as [[|m r]|m r|[|k] [|]| |]; cbn -[Nat.ltb Nat.eqb] in Hin.
    + one Hin. inv_tac. destruct ws; cj.
    + destruct (0 <? p) eqn:E; [|cbn in Hin; destruct Hin]. apply Nat.ltb_lt in E. one Hin. inv_tac. destruct ws; cj.
    + destruct (length qs <? B) eqn:E.
      * apply Nat.ltb_lt in E. one Hin. inv_tac. rewrite app_length. destruct ws; cj.
        all: try (rewrite <- !app_assoc; reflexivity).
      * destruct ((B =? 0) && _ && _) eqn:E2; [|cbn in Hin; destruct Hin]. one Hin.
        apply andb_prop in E2. destruct E2 as [E2 Eq]. apply andb_prop in E2. destruct E2 as [EB Ew].
        destruct ws; try discriminate. destruct qs; try discriminate. inv_tac. cj.
    + destruct (p <? P) eqn:E; [|cbn in Hin; destruct Hin]. one Hin. inv_tac. destruct ws; cj.
    + one Hin. inv_tac. destruct ws; cj.
    + destruct (p <? P) eqn:E; [|cbn in Hin; destruct Hin]. one Hin. inv_tac. destruct ws; cj.
    + destruct (0 <? p) eqn:E; [|cbn in Hin; destruct Hin]. apply Nat.ltb_lt in E. one Hin. inv_tac. destruct ws; cj.
    + destruct dn; [|cbn in Hin; destruct Hin]. one Hin. inv_tac. destruct ws; cj.
    + destruct Hin.
  - unfold worker_steps in Hin. destruct s as [cs ws p qs cl dn pr]. inv_tac.
    destruct HI as (H1 & H2 & H3 & H4 & H5 & H6 & H7).
    destruct ws as [|m|]; cbn -[Nat.ltb Nat.eqb] in Hin.
    + destruct qs as [|m r].
      * destruct cl; [|cbn in Hin; destruct Hin]. one Hin. inv_tac. destruct cs; cj.
      * one Hin. inv_tac. destruct cs; cj.
    + destruct (p <? P) eqn:E; [|cbn in Hin; destruct Hin]. one Hin. inv_tac. destruct cs; cj.
      all: try (rewrite <- !app_assoc; reflexivity).
    + destruct Hin.
Qed.

(* ---- progress: with at least one slice in the pool nobody is ever stuck *)
Lemma nonnil_l {X} (a b : list X) : a <> [] -> a ++ b <> [].
Proof. destruct a; [congruence|discriminate]. Qed.
Lemma nonnil_r {X} (a b : list X) : b <> [] -> a ++ b <> [].
Proof. destruct a; [auto|discriminate]. Qed.

Theorem progress ms s : 0 < P -> Inv ms s -> ~ final s -> steps s <> [].
Proof.
  intros HP HI Hnf. destruct s as [cs ws p qs cl dn pr]. unfold steps, final in *. inv_tac.
  destruct HI as (H1 & H2 & H3 & H4 & H5 & H6 & H7).
  destruct ws as [|m|].
  - (* worker waiting on mesgc *)
    destruct qs as [|m r]; [|apply nonnil_r; cbn; discriminate].
    destruct cl; [apply nonnil_r; cbn; discriminate|].
    apply nonnil_l. unfold caller_steps. cbn -[Nat.ltb Nat.eqb].
    destruct cs as [[|m r]|m r|k h| |]; cbn -[Nat.ltb Nat.eqb] in *; try discriminate.
    + replace (0 <? p) with true by (symmetry; apply Nat.ltb_lt; lia). discriminate.
    + destruct (0 <? B) eqn:EB; [discriminate|]. apply Nat.ltb_ge in EB.
      replace (B =? 0) with true by (symmetry; apply Nat.eqb_eq; lia). cbn. discriminate.
  - (* worker holds a message and its slice: the pool has room *)
    apply nonnil_r. cbn -[Nat.ltb]. replace (p <? P) with true by (symmetry; apply Nat.ltb_lt; cbn in *; lia). discriminate.
  - (* worker exited: done is set, mesgc closed and empty *)
    destruct (H5 eq_refl) as [-> ->]. assert (dn = true) as -> by (apply H4; reflexivity).
    apply nonnil_l. unfold caller_steps. cbn -[Nat.ltb Nat.eqb].
    destruct cs as [[|m r]|m r|[|k] [|]| |]; cbn -[Nat.ltb Nat.eqb] in *; try discriminate; try tauto.
    all: try (replace (p <? P) with true by (symmetry; apply Nat.ltb_lt; lia); discriminate).
    all: try (replace (0 <? p) with true by (symmetry; apply Nat.ltb_lt; lia); discriminate).
Qed.

(* ---- termination: every step decreases a natural-number measure *)
Definition mu s :=
  (match c s with
   | CIdle r => 4 * length r + 2 * P + 4
   | CHave _ r => 4 * length r + 3 + 2 * P + 4
   | CClosing k false => 2 * k + 3
   | CClosing k true => 2 * k + 2
   | CWaitDone => 1
   | CDone => 0
   end) + (match w s with WRecv => 1 | WHave _ => 2 | WExit => 0 end) + 2 * length (q s).

Ltac mu_tac := unfold mu; cbn [c w q set_c length]; try rewrite app_length; cbn [length]; try lia.

Lemma step_decreases s s' : In s' (steps s) -> mu s' < mu s.
Proof.
  intros Hin. unfold steps in Hin. apply in_app_iff in Hin. destruct s as [cs ws p qs cl dn pr]. destruct Hin as [Hin|Hin].
  - unfold caller_steps in Hin; cbn [c w pool q closed done processed] in Hin.
    destruct cs as [[|m r]|m r|[|k] [|]| |]; cbn -[Nat.ltb Nat.eqb] in Hin.
    + one Hin. mu_tac.
    + destruct (0 <? p); [|cbn in Hin; destruct Hin]. one Hin. mu_tac.
    + destruct (length qs <? B).
      * one Hin. mu_tac.
      * destruct ((B =? 0) && _ && _) eqn:E2; [|cbn in Hin; destruct Hin]. one Hin.
        apply andb_prop in E2. destruct E2 as [E2 _]. apply andb_prop in E2. destruct E2 as [_ Ew].
        destruct ws; try discriminate. mu_tac.
    + destruct (p <? P); [|cbn in Hin; destruct Hin]. one Hin. mu_tac.
    + one Hin. mu_tac.
    + destruct (p <? P); [|cbn in Hin; destruct Hin]. one Hin. mu_tac.
    + destruct (0 <? p); [|cbn in Hin; destruct Hin]. one Hin. mu_tac.
    + destruct dn; [|cbn in Hin; destruct Hin]. one Hin. mu_tac.
    + destruct Hin.
  - unfold worker_steps in Hin; cbn [c w pool q closed done processed] in Hin.
    destruct ws as [|m|]; cbn -[Nat.ltb Nat.eqb] in Hin.
    + destruct qs as [|m r]; [destruct cl; [|cbn in Hin; destruct Hin]|]; one Hin; mu_tac.
    + destruct (p <? P); [|cbn in Hin; destruct Hin]. one Hin. mu_tac.
    + destruct Hin.
Qed.

(* ---- what a finished run has done *)
Theorem final_processed ms s : Inv ms s -> final s -> processed s = ms.
Proof.
  intros (H1 & H2 & H3 & H4 & H5 & H6 & H7) Hf. destruct s as [cs ws p qs cl dn pr]. unfold final in Hf. cbn in *.
  destruct cs; try tauto. destruct ws; try tauto. inv_tac. destruct (H5 eq_refl) as [-> _]. cbn in H2. rewrite !app_nil_r in H2. exact H2.
Qed.

(* ---- the pinned code with WithChannelBuffer(0): P = B = 0, stuck at the first OnMesg *)
End Listener.

Theorem buffer_zero_deadlock : exists s : @st nat, s = init 0 [1] /\ ~ final s /\ steps 0 0 s = [].
Proof. eexists. split; [reflexivity|]. split; [cbn; tauto|vm_compute; reflexivity]. Qed.

Print Assumptions progress.
Print Assumptions step_decreases.
Print Assumptions final_processed.
