(* Design-phase feasibility probe (not wired into any check).
   C12_32bit / C05_value_32 on the executable primitive-float model, for a ROUNDING conversion
   (Go: uintNN(math.Round((float64(x)/s - o + o) * s)), the repaired code path):
   for every integer |x| <= 2^32 and every finite scale 1/2 <= s <= 2^17 and offset |o| <= 2^10 the raw
   value comes back exactly.  Combines Flocq's operation correctness theorems, error_N_FLT and the
   real-number bound of ScaleOffsetError.v. *)
From Coq Require Import ZArith Reals Floats Lia Lra.
From Flocq Require Import Core.Core Relative IEEE754.BinarySingleNaN IEEE754.PrimFloat.
From Interval Require Import Tactic.
Require Import ScaleOffsetError.
Require Semicircles.
Open Scope R_scope.
#[local] Existing Instance Hprec.
#[local] Existing Instance Hmax.

Definition of_Z := Semicircles.of_Z.
Definition apply (x : Z) (s o : PrimFloat.float) := PrimFloat.sub (PrimFloat.div (of_Z x) s) o.
Definition discard (v s o : PrimFloat.float) := PrimFloat.mul (PrimFloat.add v o) s.
Definition to_int_round (f : PrimFloat.float) : Z := Btrunc (Bnearbyint mode_NA (Prim2B f)).
Definition rt (x : Z) (s o : PrimFloat.float) : Z := to_int_round (discard (apply x s o) s o).

Eval vm_compute in (rt 29 100 0, rt 16039 100 0, rt 1 5 500, rt 4294967295 1000 0, rt (-2147483648) 65535 0).

Notation fexp := (SpecFloat.fexp prec emax).
Notation rnd := (round radix2 fexp (round_mode mode_NE)).

Lemma format_bpow k : (-1074 <= k <= 1023)%Z -> generic_format radix2 fexp (bpow radix2 k).
Proof.
  intros Hk. change fexp with (FLT_exp (SpecFloat.emin prec emax) prec). apply generic_format_bpow'.
  - apply FLT_exp_valid. reflexivity.
  - unfold FLT_exp, SpecFloat.emin, prec, emax. lia.
Qed.

Lemma rnd_bound y k : (-1074 <= k <= 1023)%Z -> Rabs y <= bpow radix2 k -> Rabs (rnd y) <= bpow radix2 k /\ Rabs (rnd y) < bpow radix2 emax.
Proof.
  intros Hk Hy. assert (H : Rabs (rnd y) <= bpow radix2 k).
  { apply abs_round_le_generic; [apply fexp_correct; reflexivity|apply valid_rnd_N|apply format_bpow; exact Hk|exact Hy]. }
  split; [exact H|]. eapply Rle_lt_trans; [exact H|]. apply bpow_lt. unfold emax. lia.
Qed.

Lemma rnd_error y : exists e h, Rabs e <= 1/9007199254740992 /\ Rabs h <= 1/1000000000000 /\ rnd y = y * (1 + e) + h.
Proof.
  destruct (error_N_FLT radix2 (SpecFloat.emin prec emax) prec ltac:(reflexivity) (fun n => negb (Z.even n)) y) as (e & h & He & Hh & _ & Hr).
  exists e, h. split; [|split].
  - eapply Rle_trans; [exact He|]. unfold prec. simpl bpow. lra.
  - eapply Rle_trans; [exact Hh|]. change (SpecFloat.emin prec emax) with (-1074)%Z.
    pose proof (bpow_ge_0 radix2 (-1074)) as H0.
    assert (H1 : bpow radix2 (-1074) <= bpow radix2 (-40)) by (apply bpow_le; lia).
    assert (H2 : bpow radix2 (-40) <= 1/1000000000000) by (simpl bpow; lra).
    lra.
  - exact Hr.
Qed.

Theorem scaled_roundtrip_32 (x : Z) (s o : PrimFloat.float) :
  (Z.abs x <= 2 ^ 32)%Z ->
  is_finite (Prim2B s) = true -> is_finite (Prim2B o) = true ->
  1/2 <= B2R (Prim2B s) <= 131072 -> Rabs (B2R (Prim2B o)) <= 1024 ->
  rt x s o = x.
Proof.
  intros Hx Fs Fo Hs Ho. unfold rt, to_int_round, discard, apply.
  set (S := B2R (Prim2B s)) in *. set (O := B2R (Prim2B o)) in *.
  destruct (Semicircles.of_Z_exact x ltac:(lia)) as [HX FX]. fold of_Z in HX, FX.
  assert (HXb : Rabs (IZR x) <= 4294967296).
  { rewrite <- abs_IZR. apply IZR_le in Hx. exact Hx. }
  (* a = fl(x / s) *)
  pose proof (Bdiv_correct prec emax Hprec Hmax mode_NE (Prim2B (of_Z x)) (Prim2B s)) as Ha.
  assert (HS0 : S <> 0) by lra. specialize (Ha HS0). rewrite HX in Ha. fold S in Ha.
  destruct (rnd_bound (IZR x / S) 34 ltac:(lia)) as [Hab Hao].
  { change (bpow radix2 34) with 17179869184. unfold Rdiv. interval. }
  rewrite Rlt_bool_true in Ha by exact Hao. destruct Ha as (HA & FA & _). rewrite FX in FA. rewrite <- div_equiv in HA, FA.
  (* b = fl(a - o) *)
  pose proof (Bminus_correct prec emax Hprec Hmax mode_NE _ _ FA Fo) as Hb. rewrite HA in Hb. fold O in Hb.
  destruct (rnd_bound (rnd (IZR x / S) - O) 35 ltac:(lia)) as [Hbb Hbo].
  { change (bpow radix2 34) with 17179869184 in Hab. change (bpow radix2 35) with 34359738368.
    revert Hab. generalize (rnd (IZR x / S)). intros A Hab. interval. }
  rewrite Rlt_bool_true in Hb by exact Hbo. destruct Hb as (HB & FB & _). rewrite <- sub_equiv in HB, FB.
  (* c = fl(b + o) *)
  pose proof (Bplus_correct prec emax Hprec Hmax mode_NE _ _ FB Fo) as Hc. rewrite HB in Hc. fold O in Hc.
  destruct (rnd_bound (rnd (rnd (IZR x / S) - O) + O) 36 ltac:(lia)) as [Hcb Hco].
  { change (bpow radix2 35) with 34359738368 in Hbb. change (bpow radix2 36) with 68719476736.
    revert Hbb. generalize (rnd (rnd (IZR x / S) - O)). intros Bv Hbb. interval. }
  rewrite Rlt_bool_true in Hc by exact Hco. destruct Hc as (HC & FC & _). rewrite <- add_equiv in HC, FC.
  (* d = fl(c * s) *)
  pose proof (Bmult_correct prec emax Hprec Hmax mode_NE
                (Prim2B (PrimFloat.add (PrimFloat.sub (PrimFloat.div (of_Z x) s) o) o)) (Prim2B s)) as Hd.
  rewrite HC in Hd. fold S in Hd.
  destruct (rnd_bound (rnd (rnd (rnd (IZR x / S) - O) + O) * S) 54 ltac:(lia)) as [Hdb Hdo].
  { change (bpow radix2 36) with 68719476736 in Hcb. change (bpow radix2 54) with 18014398509481984.
    revert Hcb. generalize (rnd (rnd (rnd (IZR x / S) - O) + O)). intros Cv Hcb. interval. }
  rewrite Rlt_bool_true in Hd by exact Hdo. destruct Hd as (HD & FD & _). rewrite FC, Fs in FD. cbn [andb] in FD.
  rewrite <- mul_equiv in HD, FD.
  (* error analysis *)
  destruct (rnd_error (IZR x / S)) as (e1 & h1 & E1 & G1 & R1).
  destruct (rnd_error (rnd (IZR x / S) - O)) as (e2 & h2 & E2 & G2 & R2).
  destruct (rnd_error (rnd (rnd (IZR x / S) - O) + O)) as (e3 & h3 & E3 & G3 & R3).
  destruct (rnd_error (rnd (rnd (rnd (IZR x / S) - O) + O) * S)) as (e4 & h4 & E4 & G4 & R4).
  assert (Hclose : Rabs (rnd (rnd (rnd (rnd (IZR x / S) - O) + O) * S) - IZR x) <= 1/4).
  { rewrite R4, R3, R2, R1. apply (scaled_roundtrip_error (IZR x) S O e1 e2 e3 e4 h1 h2 h3 h4); assumption. }
  (* round to nearest (away), then convert *)
  set (d := PrimFloat.mul (PrimFloat.add (PrimFloat.sub (PrimFloat.div (of_Z x) s) o) o) s) in *.
  destruct (Bnearbyint_correct prec emax Hmax mode_NA (Prim2B d)) as (HN & _ & _).
  apply eq_IZR. rewrite Btrunc_correct, HN, HD.
  assert (Hnear : round radix2 (FIX_exp 0) (round_mode mode_NA) (rnd (rnd (rnd (rnd (IZR x / S) - O) + O) * S)) = IZR x).
  { rewrite round_FIX_IZR. f_equal. apply Znearest_imp. eapply Rle_lt_trans; [exact Hclose|lra]. }
  rewrite Hnear. apply round_generic; [apply valid_rnd_ZR|].
  apply generic_format_FIX. exists (Float radix2 x 0); [unfold F2R; cbn; lra|reflexivity].
  Unshelve. all: try exact Hmax; try exact Hprec.
Qed.
Print Assumptions scaled_roundtrip_32.
