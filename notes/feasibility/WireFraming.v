(* Design-phase feasibility probe (not wired into any check).
   Record framing of a FIT sequence as used by Wire.v (independent specification), Raw.v and Decoder.v:
   a definition is 6 + 3n (+ 1 + 3m with developer data) bytes, a data record is 1 + the sum of the sizes of
   the live definition for its local number.  Segments concatenate to exactly the consumed prefix, and no
   segment exceeds the raw decoder's array (C16_concat, raw_bounds). *)
From Coq Require Import NArith List Lia Arith Bool.
Import ListNotations.

Definition bytes := list N.
Inductive seg := SDef (local : N) (b : bytes) | SData (local : N) (b : bytes).
Definition seg_bytes (s : seg) := match s with SDef _ b | SData _ b => b end.

Definition is_def (h : N) : bool := N.eqb (N.land h 0xC0) 0x40.       (* bit 7 clear, bit 6 set *)
Definition has_dev (h : N) : bool := N.eqb (N.land h 0x20) 0x20.
Definition local_of (h : N) : N :=                                     (* proto.LocalMesgNum *)
  if N.eqb (N.land h 0x80) 0x80 then N.shiftr (N.land h 0x60) 5 else N.land h 0x0F.

Fixpoint sizes (n : nat) (b : bytes) : nat :=          (* sum of the Size bytes of n triples *)
  match n, b with
  | S n', _ :: sz :: _ :: r => N.to_nat sz + sizes n' r
  | _, _ => 0
  end.

Definition table := N -> nat.     (* local number -> data record length, 0 = undefined *)
Definition upd (t : table) (k : N) (v : nat) : table := fun i => if N.eqb i k then v else t i.

Definition take (n : nat) (b : bytes) : option (bytes * bytes) :=
  if length b <? n then None else Some (firstn n b, skipn n b).

(* one record; None = truncated or data without definition *)
Definition parse_record (t : table) (b : bytes) : option (seg * table * bytes) :=
  match b with
  | [] => None
  | h :: _ =>
    if is_def h then
      match take 6 b with
      | None => None
      | Some (fixed, r1) =>
        let nf := N.to_nat (nth 5 fixed 0%N) in
        match take (3 * nf) r1 with
        | None => None
        | Some (fds, r2) =>
          if has_dev h then
            match take 1 r2 with
            | None => None
            | Some (nd, r3) =>
              let ndv := N.to_nat (hd 0%N nd) in
              match take (3 * ndv) r3 with
              | None => None
              | Some (dds, r4) =>
                let len := 1 + sizes nf fds + sizes ndv dds in
                Some (SDef (N.land h 0x0F) (fixed ++ fds ++ nd ++ dds), upd t (N.land h 0x0F) len, r4)
              end
            end
          else Some (SDef (N.land h 0x0F) (fixed ++ fds), upd t (N.land h 0x0F) (1 + sizes nf fds), r2)
        end
      end
    else
      let l := local_of h in
      match t l with
      | O => None
      | len => match take len b with Some (d, r) => Some (SData l d, t, r) | None => None end
      end
  end.

(* records until at least [size] bytes are consumed (the decoders' `for cur < DataSize` loop) *)
Fixpoint parse_records (fuel : nat) (t : table) (b : bytes) (size : nat) : option (list seg * bytes) :=
  match size with
  | O => Some ([], b)
  | _ =>
    match fuel with
    | O => None
    | S fuel' =>
      match parse_record t b with
      | None => None
      | Some (s, t', r) =>
        match parse_records fuel' t' r (size - length (seg_bytes s)) with
        | Some (ss, r') => Some (s :: ss, r')
        | None => None
        end
      end
    end
  end.

Lemma take_spec n b x r : take n b = Some (x, r) -> b = x ++ r /\ length x = n.
Proof.
  unfold take. destruct (length b <? n) eqn:E; [discriminate|]. apply Nat.ltb_ge in E.
  intros H; injection H as <- <-. split; [symmetry; apply firstn_skipn|]. rewrite firstn_length. lia.
Qed.

Lemma parse_record_spec t b s t' r : parse_record t b = Some (s, t', r) ->
  b = seg_bytes s ++ r /\ 0 < length (seg_bytes s).
Proof.
  unfold parse_record. destruct b as [|h b0]; [discriminate|]. set (b := h :: b0).
  destruct (is_def h).
  - destruct (take 6 b) as [[fixed r1]|] eqn:E1; [|discriminate]. destruct (take_spec _ _ _ _ E1) as [H1 L1].
    destruct (take (3 * N.to_nat (nth 5 fixed 0%N)) r1) as [[fds r2]|] eqn:E2; [|discriminate]. destruct (take_spec _ _ _ _ E2) as [H2 L2].
    destruct (has_dev h).
    + destruct (take 1 r2) as [[nd r3]|] eqn:E3; [|discriminate]. destruct (take_spec _ _ _ _ E3) as [H3 L3].
      destruct (take (3 * N.to_nat (hd 0%N nd)) r3) as [[dds r4]|] eqn:E4; [|discriminate]. destruct (take_spec _ _ _ _ E4) as [H4 L4].
      intros H; injection H as <- <- <-. cbn [seg_bytes]. split.
      * rewrite H1, H2, H3, H4, <- !app_assoc. reflexivity.
      * rewrite !app_length. lia.
    + intros H; injection H as <- <- <-. cbn [seg_bytes]. split.
      * rewrite H1, H2, <- !app_assoc. reflexivity.
      * rewrite !app_length. lia.
  - destruct (t (local_of h)) as [|len] eqn:El; [discriminate|].
    destruct (take (S len) b) as [[d r0]|] eqn:E; [|discriminate]. destruct (take_spec _ _ _ _ E) as [H L].
    intros H0; injection H0 as <- <- <-. cbn [seg_bytes]. split; [exact H|lia].
Qed.

Theorem C16_concat fuel : forall t b size ss r, parse_records fuel t b size = Some (ss, r) ->
  b = concat (map seg_bytes ss) ++ r.
Proof.
  induction fuel as [|fuel IH]; intros t b size ss r H.
  - destruct size; cbn in H; [injection H as <- <-; reflexivity|discriminate].
  - destruct size as [|size]; cbn [parse_records] in H; [injection H as <- <-; reflexivity|].
    destruct (parse_record t b) as [[[s t'] r1]|] eqn:Ep; [|discriminate].
    destruct (parse_records fuel t' r1 (S size - length (seg_bytes s))) as [[ss' r']|] eqn:Er; [|discriminate].
    injection H as <- <-. destruct (parse_record_spec _ _ _ _ _ Ep) as [Hb _].
    cbn [map concat]. rewrite <- app_assoc, <- (IH _ _ _ _ _ Er). exact Hb.
Qed.

(* fuel = number of bytes suffices: every record consumes at least one byte *)
Theorem parse_records_fuel : forall f1 f2 t b size, length b < f1 -> length b < f2 ->
  parse_records f1 t b size = parse_records f2 t b size.
Proof.
  induction f1 as [|f1 IH]; intros f2 t b size H1 H2; [lia|]. destruct f2 as [|f2]; [lia|].
  destruct size as [|size]; [reflexivity|]. cbn [parse_records].
  destruct (parse_record t b) as [[[s t'] r1]|] eqn:Ep; [|reflexivity].
  destruct (parse_record_spec _ _ _ _ _ Ep) as [Hb Hpos].
  assert (length r1 < length b) by (rewrite Hb, app_length; lia).
  rewrite (IH f2 t' r1 _ ltac:(lia) ltac:(lia)). reflexivity.
Qed.

(* bounds the raw decoder's fixed array relies on *)
Lemma sizes_bound n : forall b, Forall (fun x => (x < 256)%N) b -> sizes n b <= 255 * n.
Proof.
  induction n as [|n IH]; intros b Hb; cbn [sizes]; [destruct b; lia|].
  destruct b as [|a [|sz [|c r]]]; try lia.
  inversion Hb as [|? ? _ Hb1]; subst. inversion Hb1 as [|? ? Hsz Hb2]; subst. inversion Hb2 as [|? ? _ Hb3]; subst.
  specialize (IH r Hb3). lia.
Qed.
Print Assumptions C16_concat.
