(* Design-phase feasibility probe (not wired into any check).
   encoder/validator.go, native-field half of Validate as a fold over the fields with the running
   `valid` counter: the retained fields are exactly  filter keep (map restore fields)  -- order and values
   of the rest untouched -- there are at most 255 of them, each passed the integrity check, and
   validating the result again changes nothing when restore is idempotent (C10_post, C10_frame,
   C10_idempotent with its forced hypothesis). *)
From Coq Require Import List Lia Arith Bool.
Import ListNotations.

Section Validator.
Context {F : Type}.
Variables (skip : F -> bool)          (* FieldBase == nil || IsExpandedField *)
          (restore : F -> F)          (* scaleoffset.DiscardValue when the field is scaled *)
          (invalid : F -> bool)       (* !Value.Valid(BaseType) *)
          (integrity : F -> bool)     (* valueIntegrity == nil: align, UTF-8, size <= 255 *)
          (omit : bool).              (* omitInvalidValues *)

Inductive verr := EIntegrity | ETooMany | ENoFields.

(* the loop, with the compaction already replaced by its meaning (SwapCompaction.compact_is_filter) *)
Fixpoint go (fs : list F) (kept : list F) : (list F) + verr :=      (* kept is in reverse order *)
  match fs with
  | [] => inl (rev kept)
  | f :: r =>
    if skip f then go r kept else
    let f' := restore f in
    if omit && invalid f' then go r kept else
    if negb (integrity f') then inr EIntegrity else
    if length kept =? 255 then inr ETooMany else
    go r (f' :: kept)
  end.
Definition validate (fs : list F) (has_devs : bool) : (list F) + verr :=
  match go fs [] with
  | inl out => if (length out =? 0) && negb has_devs then inr ENoFields else inl out
  | inr e => inr e
  end.

Definition keep (f : F) : bool := negb (skip f) && negb (omit && invalid (restore f)).
Definition expected (fs : list F) : list F := map restore (filter keep fs).

(* invariant form: kept never exceeds 255 *)
Lemma go_spec : forall fs kept out, length kept <= 255 -> go fs kept = inl out ->
  out = rev kept ++ expected fs /\
  Forall (fun f => integrity f = true) (expected fs) /\ length kept + length (expected fs) <= 255.
Proof.
  induction fs as [|f r IH]; intros kept out Hk H; cbn [go] in H.
  - injection H as <-. unfold expected; cbn. rewrite app_nil_r. repeat split; [constructor|lia].
  - unfold expected, keep in *. cbn [filter].
    destruct (skip f) eqn:Es; cbn [negb andb]; [apply IH; assumption|].
    destruct (omit && invalid (restore f)) eqn:Eo; cbn [negb]; [apply IH; assumption|].
    destruct (integrity (restore f)) eqn:Ei; cbn [negb] in H; [|discriminate].
    destruct (length kept =? 255) eqn:E255; [discriminate|]. apply Nat.eqb_neq in E255.
    destruct (IH (restore f :: kept) out ltac:(cbn; lia) H) as (Hout & Hint & Hlen).
    cbn [map]. split; [rewrite Hout; cbn [rev]; rewrite <- app_assoc; reflexivity|].
    split; [constructor; assumption|cbn [length] in *; lia].
Qed.

Theorem C10_post_frame fs devs out : validate fs devs = inl out ->
  out = expected fs /\ length out <= 255 /\ Forall (fun f => integrity f = true) out /\ (out <> [] \/ devs = true).
Proof.
  unfold validate. destruct (go fs []) as [o|e] eqn:Eg; [|discriminate].
  destruct (go_spec fs [] o ltac:(cbn; lia) Eg) as (Ho & Hint & Hlen). cbn in Ho, Hlen. subst o.
  destruct ((length (expected fs) =? 0) && negb devs) eqn:E; [discriminate|]. intros H; injection H as <-.
  repeat split; auto. apply andb_false_iff in E. destruct E as [E|E].
  - left. apply Nat.eqb_neq in E. destruct (expected fs); [cbn in E; lia|discriminate].
  - right. destruct devs; [reflexivity|discriminate].
Qed.

(* validating twice = validating once, under exactly the hypotheses the proof needs *)
Hypothesis restore_idem : forall f, restore (restore f) = restore f.
Hypothesis skip_restore : forall f, skip (restore f) = skip f.

Lemma filter_all {X} (p : X -> bool) l : Forall (fun x => p x = true) l -> filter p l = l.
Proof. induction 1 as [|x r Hx _ IH]; cbn; [reflexivity|]. rewrite Hx, IH. reflexivity. Qed.

Theorem C10_idempotent fs devs out : validate fs devs = inl out -> validate out devs = inl out.
Proof.
  intros H. destruct (C10_post_frame _ _ _ H) as (Hout & Hlen & Hint & Hne).
  assert (Hkeep : Forall (fun f => keep f = true) out).
  { subst out. unfold expected. apply Forall_forall. intros f Hf. apply in_map_iff in Hf. destruct Hf as (g & <- & Hg).
    apply filter_In in Hg. destruct Hg as [_ Hk]. unfold keep in *. rewrite skip_restore, restore_idem. exact Hk. }
  assert (Hexp : expected out = out).
  { unfold expected. rewrite (filter_all _ _ Hkeep). subst out. unfold expected. rewrite map_map.
    apply map_ext. intros f. apply restore_idem. }
  (* re-run *)
  unfold validate.
  assert (Hgo : forall l kept, Forall (fun f => keep f = true) l -> Forall (fun f => integrity (restore f) = true) l ->
                length kept + length l <= 255 -> go l kept = inl (rev kept ++ map restore l)).
  { induction l as [|f r IH]; intros kept Hk Hi Hl; cbn [go map]; [rewrite app_nil_r; reflexivity|].
    inversion Hk as [|? ? Hkf Hkr]; inversion Hi as [|? ? Hif Hir]; subst. unfold keep in Hkf.
    apply andb_prop in Hkf. destruct Hkf as [Hs Ho]. apply negb_true_iff in Hs, Ho. rewrite Hs, Ho, Hif. cbn [negb].
    replace (length kept =? 255) with false by (symmetry; apply Nat.eqb_neq; cbn in Hl; lia).
    rewrite IH; [cbn [rev]; rewrite <- app_assoc; reflexivity|assumption|assumption|cbn in *; lia]. }
  rewrite (Hgo out []); [|exact Hkeep| |cbn; lia].
  - cbn [rev app]. replace (map restore out) with out.
    + destruct ((length out =? 0) && negb devs) eqn:E; [|reflexivity]. exfalso. apply andb_prop in E. destruct E as [E1 E2].
      apply Nat.eqb_eq in E1. destruct Hne as [Hne|Hne]; [destruct out; [congruence|cbn in E1; lia]|rewrite Hne in E2; discriminate].
    + symmetry. rewrite <- Hexp at 2. unfold expected. rewrite (filter_all _ _ Hkeep). reflexivity.
  - apply Forall_forall. intros f Hf. rewrite Forall_forall in Hint.
    assert (restore f = f) as ->; [|apply Hint; exact Hf].
    subst out. unfold expected in Hf. apply in_map_iff in Hf. destruct Hf as (g & <- & _). apply restore_idem.
Qed.
End Validator.
Print Assumptions C10_post_frame.
Print Assumptions C10_idempotent.
