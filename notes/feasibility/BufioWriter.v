(* Design-phase feasibility probe (not wired into any check).
   bufio.Writer as used by encoder/writebuffer.go, over an underlying writer that may fail at any call
   after accepting part of the data.  What reaches the destination is always a prefix of what was
   written, equals it after a successful Flush whatever the buffer size, and a failure is sticky and
   reported by every later Write/Flush (basis of C09 and C11). *)
From Coq Require Import List Lia Arith Bool.
Import ListNotations.

Section Bufio.
Context {Byte : Type}.

(* underlying io.Writer: each call consults the next plan entry:
   None = accept everything, Some k = accept min k (len-1) bytes and return an error *)
Record under := { content : list Byte; plan : list (option nat) }.
Definition u_write (u : under) (p : list Byte) : nat * bool * under :=   (* n, failed, state *)
  match plan u with
  | Some k :: r => let n := Nat.min k (length p - 1) in
                   (n, true, {| content := content u ++ firstn n p; plan := r |})
  | None :: r => (length p, false, {| content := content u ++ p; plan := r |})
  | [] => (length p, false, {| content := content u ++ p; plan := [] |})
  end.

Record bw := { size : nat; buffered : list Byte; failed : bool; wr : under }.

Definition flush (b : bw) : bool * bw :=       (* returns "error?" *)
  if failed b then (true, b)
  else match buffered b with
  | [] => (false, b)
  | _ => let '(n, f, u) := u_write (wr b) (buffered b) in
         if f then (true, {| size := size b; buffered := skipn n (buffered b); failed := true; wr := u |})
         else (false, {| size := size b; buffered := []; failed := false; wr := u |})
  end.

Fixpoint write_loop (fuel : nat) (b : bw) (p : list Byte) : bool * bw :=
  let avail := size b - length (buffered b) in
  if (avail <? length p) && negb (failed b) then
    match fuel with
    | O => (true, b) (* unreachable *)
    | S fuel' =>
      match buffered b with
      | [] => (* large write, empty buffer: write directly *)
        let '(n, f, u) := u_write (wr b) p in
        write_loop fuel' {| size := size b; buffered := []; failed := f; wr := u |} (skipn n p)
      | _ =>
        let b1 := {| size := size b; buffered := buffered b ++ firstn avail p; failed := failed b; wr := wr b |} in
        let '(_, b2) := flush b1 in
        write_loop fuel' b2 (skipn avail p)
      end
    end
  else if failed b then (true, b)
  else (false, {| size := size b; buffered := buffered b ++ p; failed := false; wr := wr b |}).

Definition write (b : bw) (p : list Byte) := write_loop (2 * length p + 3) b p.

(* ---- what has been handed to the writer so far, what has arrived *)
Definition arrived (b : bw) := content (wr b).
Definition pending (b : bw) := buffered b.
Definition nb (b : bw) := match buffered b with [] => 0 | _ => 1 end.

Lemma u_write_prefix u p n f u' : u_write u p = (n, f, u') ->
  content u' = content u ++ firstn n p /\ n <= length p /\ (f = false -> n = length p).
Proof.
  unfold u_write. destruct (plan u) as [|[k|] r]; intros H; inversion H; subst; cbn.
  - rewrite firstn_all. auto.
  - split; [reflexivity|]. split; [lia|discriminate].
  - rewrite firstn_all. auto.
Qed.

(* invariant relative to the total data [d] written so far:
   not failed: arrived ++ pending = d; failed: arrived is a prefix of d *)
Definition Inv (d : list Byte) (b : bw) :=
  if failed b then exists rest, d = arrived b ++ rest else d = arrived b ++ pending b.

Lemma flush_inv d b e b' : Inv d b -> flush b = (e, b') ->
  Inv d b' /\ e = failed b' /\ (e = false -> pending b' = [] /\ arrived b' = d) /\ (failed b = true -> e = true) /\ size b' = size b.
Proof.
  unfold flush, Inv, arrived, pending. destruct (failed b) eqn:Ef.
  - intros HI H. injection H as <- <-. rewrite Ef. repeat split; auto; discriminate.
  - intros HI. destruct (buffered b) as [|x r] eqn:Eb.
    + intros H. injection H as <- <-. rewrite Ef, Eb. rewrite app_nil_r in HI. repeat split; auto; try discriminate. rewrite app_nil_r. exact HI.
    + destruct (u_write (wr b) (x :: r)) as [[n f] u] eqn:Eu. destruct (u_write_prefix _ _ _ _ _ Eu) as (Hc & Hn & Hf).
      destruct f; intros H; injection H as <- <-; cbn.
      * split; [|repeat split; auto; discriminate]. exists (skipn n (x :: r)). rewrite HI, Hc, <- app_assoc, firstn_skipn. reflexivity.
      * specialize (Hf eq_refl). subst n. rewrite firstn_all in Hc. rewrite app_nil_r.
        repeat split; auto; try discriminate; rewrite Hc; first [exact HI | symmetry; exact HI].
Qed.

Lemma write_loop_inv fuel : forall d b p e b', Inv d b -> write_loop fuel b p = (e, b') ->
  (failed b = true \/ 2 * length p + nb b < fuel) ->
  exists q, Inv (d ++ q) b' /\ (e = false -> q = p /\ failed b' = false) /\ (e = true -> failed b' = true) /\
            (failed b = true -> e = true) /\ size b' = size b /\ (exists q', p = q ++ q').
Proof.
  induction fuel as [|fuel IH]; intros d b p e b' HI H Hfuel.
  - (* no fuel: only possible when already failed *)
    cbn [write_loop] in H. destruct Hfuel as [Hf|Hf]; [|lia]. rewrite Hf, andb_false_r in H. injection H as <- <-.
    exists []. rewrite app_nil_r. repeat split; auto; try congruence. exists p; reflexivity.
  - cbn [write_loop] in H.
    destruct ((size b - length (buffered b) <? length p) && negb (failed b)) eqn:Ec.
    + apply andb_prop in Ec. destruct Ec as [Elt Enf]. apply Nat.ltb_lt in Elt. apply negb_true_iff in Enf.
      destruct Hfuel as [Hf|Hfuel]; [congruence|].
      destruct (buffered b) as [|x r] eqn:Eb.
      * destruct (u_write (wr b) p) as [[n f] u] eqn:Eu. destruct (u_write_prefix _ _ _ _ _ Eu) as (Hc & Hn & Hf).
        set (b1 := {| size := size b; buffered := []; failed := f; wr := u |}) in *.
        assert (HI1 : Inv (d ++ firstn n p) b1).
        { unfold Inv in HI |- *. rewrite Enf in HI. unfold arrived, pending in *. rewrite Eb, app_nil_r in HI. cbn. destruct f; cbn.
          - exists []. rewrite app_nil_r, Hc, HI. reflexivity.
          - rewrite app_nil_r, Hc, HI. reflexivity. }
        assert (Hm : failed b1 = true \/ 2 * length (skipn n p) + nb b1 < fuel).
        { destruct f; [left; reflexivity|right]. rewrite (Hf eq_refl), skipn_all. unfold nb in *. rewrite Eb in Hfuel. cbn in *. lia. }
        destruct (IH _ _ _ _ _ HI1 H Hm) as (q & Hq & Hok & Hbad & Hst & Hsz & (q' & Hq')).
        exists (firstn n p ++ q). rewrite app_assoc. split; [exact Hq|]. split; [|split; [exact Hbad|split; [congruence|split; [exact Hsz|]]]].
        { intros He. destruct (Hok He) as [-> Hnf]. split; [apply firstn_skipn|exact Hnf]. }
        exists q'. rewrite <- app_assoc, <- Hq'. symmetry. apply firstn_skipn.
      * set (avail := size b - length (x :: r)) in *.
        set (b1 := {| size := size b; buffered := (x :: r) ++ firstn avail p; failed := failed b; wr := wr b |}) in *.
        assert (HI1 : Inv (d ++ firstn avail p) b1).
        { unfold Inv in HI |- *. cbn. rewrite Enf in *. unfold arrived, pending in *. cbn. rewrite Eb in HI. rewrite HI, <- app_assoc. reflexivity. }
        destruct (flush b1) as [e1 b2] eqn:Efl. destruct (flush_inv _ _ _ _ HI1 Efl) as (HI2 & He1 & Hemp & _ & Hsz2).
        assert (Hm : failed b2 = true \/ 2 * length (skipn avail p) + nb b2 < fuel).
        { destruct e1; [left; congruence|right]. destruct (Hemp eq_refl) as [Hp _]. unfold nb, pending in *. rewrite Hp.
          rewrite skipn_length. rewrite Eb in Hfuel. cbn in Hfuel |- *. lia. }
        destruct (IH _ _ _ _ _ HI2 H Hm) as (q & Hq & Hok & Hbad & Hst & Hsz & (q' & Hq')).
        exists (firstn avail p ++ q). rewrite app_assoc. split; [exact Hq|]. split; [|split; [exact Hbad|split; [congruence|split; [cbn in Hsz2; congruence|]]]].
        { intros He. destruct (Hok He) as [-> Hnf]. split; [apply firstn_skipn|exact Hnf]. }
        exists q'. rewrite <- app_assoc, <- Hq'. symmetry. apply firstn_skipn.
    + (* no flush needed, or already failed *)
      destruct (failed b) eqn:Ef.
      * injection H as <- <-. exists []. rewrite app_nil_r. repeat split; auto; try congruence. exists p; reflexivity.
      * injection H as <- <-. exists p. unfold Inv in HI |- *. rewrite Ef in HI. cbn. unfold arrived, pending in *. cbn.
        rewrite HI, <- app_assoc. repeat split; auto; try congruence. exists []. rewrite app_nil_r. reflexivity.
Qed.

(* ---- API level: a script of Write calls followed by Flush *)
Fixpoint run (b : bw) (ps : list (list Byte)) : bool * bw :=     (* error seen by any call? *)
  match ps with
  | [] => flush b
  | p :: r => let '(e, b') := write b p in let '(e', b'') := run b' r in (e || e', b'')
  end.

Lemma write_loop_failed fuel b p : failed b = true -> write_loop fuel b p = (true, b).
Proof. intros Hf. destruct fuel; cbn [write_loop]; rewrite Hf, andb_false_r; reflexivity. Qed.

Lemma run_failed ps : forall b e b', failed b = true -> run b ps = (e, b') -> b' = b /\ e = true.
Proof.
  induction ps as [|p r IH]; intros b e b' Hf H; cbn [run] in H.
  - unfold flush in H. rewrite Hf in H. injection H as <- <-. auto.
  - unfold write in H. rewrite (write_loop_failed _ _ _ Hf) in H.
    destruct (run b r) as [e2 b2] eqn:Er. destruct (IH _ _ _ Hf Er) as [-> ->]. injection H as <- <-. auto.
Qed.

Theorem bufio_run n u ps e b' :
  run {| size := n; buffered := []; failed := false; wr := u |} ps = (e, b') ->
  (e = false -> content (wr b') = content u ++ concat ps) /\
  (exists rest, content u ++ concat ps = content (wr b') ++ rest) /\
  (e = false <-> failed b' = false).
Proof.
  set (b0 := {| size := n; buffered := []; failed := false; wr := u |}).
  assert (G : forall ps d b e b', Inv d b -> failed b = false -> run b ps = (e, b') ->
            (e = false -> arrived b' = d ++ concat ps) /\ (exists rest, d ++ concat ps = arrived b' ++ rest) /\
            (e = false <-> failed b' = false)).
  { clear. induction ps as [|p r IH]; intros d b e b' HI Hnf H; cbn [run concat] in *.
    - destruct (flush_inv _ _ _ _ HI H) as (HI' & He & Hemp & Hst & _). rewrite app_nil_r.
      split; [intros E; apply Hemp; exact E|]. split.
      + unfold Inv in HI'. destruct (failed b'); [exact HI'|]. exists (pending b'). exact HI'.
      + split; congruence.
    - destruct (write b p) as [e1 b1] eqn:Ew. destruct (run b1 r) as [e2 b2] eqn:Er. injection H as <- <-.
      unfold write in Ew. destruct (write_loop_inv _ _ _ _ _ _ HI Ew) as (q & Hq & Hok & Hbad & Hst & _ & (q' & Hq')).
      { right. unfold nb. destruct (buffered b); lia. }
      destruct e1.
      + (* this write failed: nothing arrives any more *)
        specialize (Hbad eq_refl). destruct (run_failed _ _ _ _ Hbad Er) as [-> ->].
        split; [discriminate|]. split.
        * unfold Inv in Hq. rewrite Hbad in Hq. destruct Hq as [rest1 Hq]. exists (rest1 ++ q' ++ concat r).
          rewrite Hq', app_assoc, (app_assoc d q), Hq, <- !app_assoc. reflexivity.
        * split; [discriminate|congruence].
      + destruct (Hok eq_refl) as [-> Hnf1]. destruct (IH _ _ _ _ Hq Hnf1 Er) as (A1 & A2 & A3). cbn [orb].
        split; [intros E; rewrite (A1 E), app_assoc; reflexivity|]. split; [|exact A3].
        destruct A2 as [rest A2]. exists rest. rewrite <- A2, app_assoc. reflexivity. }
  intros H. apply (G ps (content u) b0 e b'); [unfold Inv, b0, arrived, pending; cbn; rewrite app_nil_r; reflexivity|reflexivity|exact H].
Qed.
End Bufio.
Print Assumptions bufio_run.
