(* Design-phase feasibility probe (not wired into any check).
   kit/semicircles: ToSemicircles (ToDegrees x) = x for every int32 x (other than the invalid sentinel,
   which maps to the invalid float and back by a separate branch).  The constant 180/2^31 = 45*2^-29 is a
   binary64 number, x*45 fits in 53 bits, so the product is exact and so is the quotient.
   Executable side: Coq primitive floats; proof side: Flocq's bridge. *)
From Coq Require Import ZArith Reals Floats Lia Lra.
From Flocq Require Import Core.Core IEEE754.BinarySingleNaN IEEE754.PrimFloat.
Open Scope R_scope.

Definition of_Z (z : Z) : PrimFloat.float :=
  match z with
  | Z0 => PrimFloat.zero
  | Zpos _ => PrimFloat.of_uint63 (Uint63.of_Z z)
  | Zneg p => PrimFloat.opp (PrimFloat.of_uint63 (Uint63.of_Z (Zpos p)))
  end.
Definition cf : PrimFloat.float := 0x1.68p-24%float.                  (* 180 / 2^31 *)
Definition to_degrees (x : Z) : PrimFloat.float := PrimFloat.mul (of_Z x) cf.
Definition to_int (f : PrimFloat.float) : Z := Btrunc (Prim2B f).     (* Go's in-range float -> int conversion *)
Definition to_semicircles (d : PrimFloat.float) : Z := to_int (PrimFloat.div d cf).

Eval vm_compute in (to_semicircles (to_degrees 123456789), to_semicircles (to_degrees (-2147483648)), to_semicircles (to_degrees 2147483646)).

Notation fexp := (SpecFloat.fexp prec emax).
Notation rnd := (round radix2 fexp (round_mode mode_NE)).

Lemma format_small_int (m e : Z) : (Z.abs m < 2 ^ 53)%Z -> (-1074 <= e)%Z ->
  generic_format radix2 fexp (F2R (Float radix2 m e)).
Proof.
  intros Hm He. change fexp with (FLT_exp (SpecFloat.emin prec emax) prec).
  apply generic_format_FLT. exists (Float radix2 m e); [reflexivity|exact Hm|exact He].
Qed.

Lemma rnd_exact (m e : Z) : (Z.abs m < 2 ^ 53)%Z -> (-1074 <= e)%Z ->
  rnd (F2R (Float radix2 m e)) = F2R (Float radix2 m e).
Proof. intros. apply round_generic; [apply valid_rnd_N|apply format_small_int; assumption]. Qed.

Lemma F2R_bound (m e : Z) : (Z.abs m < 2 ^ 53)%Z -> (e <= 0)%Z -> Rabs (F2R (Float radix2 m e)) < bpow radix2 emax.
Proof.
  intros Hm He. rewrite <- F2R_Zabs. cbn [Fnum Fexp F2R]. unfold F2R; cbn [Fnum Fexp].
  apply Rle_lt_trans with (IZR (Z.abs m) * 1).
  - apply Rmult_le_compat_l; [apply IZR_le; lia|]. replace 1 with (bpow radix2 0) by reflexivity. apply bpow_le; exact He.
  - rewrite Rmult_1_r. apply Rlt_trans with (IZR (2 ^ 53)); [apply IZR_lt; exact Hm|].
    change (IZR (2 ^ 53)) with (bpow radix2 53). apply bpow_lt. reflexivity.
Qed.

(* of_Z is exact and finite on 53-bit integers *)
Lemma of_uint63_exact (z : Z) : (0 <= z < 2 ^ 53)%Z ->
  B2R (Prim2B (PrimFloat.of_uint63 (Uint63.of_Z z))) = IZR z /\ is_finite (Prim2B (PrimFloat.of_uint63 (Uint63.of_Z z))) = true.
Proof.
  intros Hz. rewrite of_int63_equiv.
  assert (Hto : Uint63.to_Z (Uint63.of_Z z) = z).
  { rewrite Uint63.of_Z_spec. apply Z.mod_small. unfold Uint63.wB. cbn. lia. }
  rewrite Hto.
  pose proof (binary_normalize_correct prec emax Hprec Hmax mode_NE z 0 false) as H.
  cbv zeta in H. rewrite (rnd_exact z 0) in H by lia.
  rewrite Rlt_bool_true in H by (apply F2R_bound; lia).
  destruct H as (HR & HF & _). split; [|exact HF]. rewrite HR. unfold F2R; cbn. lra.
Qed.

Lemma of_Z_exact (z : Z) : (Z.abs z < 2 ^ 53)%Z ->
  B2R (Prim2B (of_Z z)) = IZR z /\ is_finite (Prim2B (of_Z z)) = true.
Proof.
  intros Hz. destruct z as [|p|p]; cbn [of_Z].
  - split; reflexivity.
  - apply of_uint63_exact. lia.
  - destruct (of_uint63_exact (Zpos p) ltac:(lia)) as [HR HF].
    rewrite opp_equiv, B2R_Bopp, is_finite_Bopp. split; [rewrite HR; rewrite <- opp_IZR; reflexivity|exact HF].
Qed.

Lemma cf_exact : B2R (Prim2B cf) = F2R (Float radix2 45 (-29)) /\ is_finite (Prim2B cf) = true.
Proof. split; [|reflexivity]. vm_compute. lra. Qed.

Lemma F2R_int (z : Z) : F2R (Float radix2 z 0) = IZR z.
Proof. unfold F2R; cbn. lra. Qed.

Theorem semicircles_roundtrip (x : Z) : (- 2 ^ 31 <= x < 2 ^ 31)%Z -> to_semicircles (to_degrees x) = x.
Proof.
  intros Hx. unfold to_semicircles, to_degrees, to_int.
  destruct (of_Z_exact x ltac:(lia)) as [Hfx Ffx]. destruct cf_exact as [Hc Fc].
  (* the product is exact *)
  pose proof (Bmult_correct prec emax Hprec Hmax mode_NE (Prim2B (of_Z x)) (Prim2B cf)) as Hm.
  rewrite Hfx, Hc in Hm.
  assert (Hprod : IZR x * F2R (Float radix2 45 (-29)) = F2R (Float radix2 (x * 45) (-29))).
  { unfold F2R; cbn [Fnum Fexp]. rewrite mult_IZR. ring. }
  rewrite Hprod, (rnd_exact (x * 45) (-29)) in Hm by lia.
  rewrite Rlt_bool_true in Hm by (apply F2R_bound; lia).
  destruct Hm as (HmR & HmF & _). rewrite Ffx, Fc in HmF. cbn [andb] in HmF.
  rewrite <- mul_equiv in HmR, HmF.
  (* the quotient is exact *)
  pose proof (Bdiv_correct prec emax Hprec Hmax mode_NE (Prim2B (PrimFloat.mul (of_Z x) cf)) (Prim2B cf)) as Hd.
  assert (Hcnz : B2R (Prim2B cf) <> 0).
  { rewrite Hc. unfold F2R; cbn [Fnum Fexp]. apply Rmult_integral_contrapositive_currified; [lra|]. apply Rgt_not_eq, bpow_gt_0. }
  specialize (Hd Hcnz). rewrite HmR, Hc in Hd.
  assert (Hquot : F2R (Float radix2 (x * 45) (-29)) / F2R (Float radix2 45 (-29)) = F2R (Float radix2 x 0)).
  { rewrite F2R_int. unfold F2R; cbn [Fnum Fexp]. rewrite mult_IZR. field. apply Rgt_not_eq, bpow_gt_0. }
  rewrite Hquot, (rnd_exact x 0) in Hd by lia.
  rewrite Rlt_bool_true in Hd by (apply F2R_bound; lia).
  destruct Hd as (HdR & _).
  (* back to primitive floats and truncate *)
  rewrite div_equiv.
  apply eq_IZR. rewrite Btrunc_correct, HdR, F2R_int.
  apply round_generic; [apply valid_rnd_ZR|]. apply generic_format_FIX. exists (Float radix2 x 0); [rewrite F2R_int; reflexivity|reflexivity].
  Unshelve. all: exact Hmax.
Qed.
Print Assumptions semicircles_roundtrip.
