(* Design-phase feasibility probe (not wired into any check).
   Destination model for C09/C11: a byte vector with a cursor (io.WriteSeeker) or absolute writes
   (io.WriterAt).  Writing a provisional header, the records and the CRC and then rewriting the header in
   place -- through Seek(-size, Current) / Write / Seek(size-n, Current) or through WriteAt(lastHeaderPos) --
   leaves exactly what the early-size strategy writes in one pass, also when the destination already holds
   earlier sequences. *)
From Coq Require Import NArith ZArith List Lia Arith.
Import ListNotations.

Record dest := { content : list N; cursor : nat }.

Definition overwrite (at_ : nat) (bs : list N) (c : list N) : list N :=
  firstn at_ c ++ bs ++ skipn (at_ + length bs) c.

Definition d_write (d : dest) (bs : list N) : dest :=
  {| content := overwrite (cursor d) bs (content d); cursor := cursor d + length bs |}.
Definition d_seek_cur (d : dest) (off : Z) : dest :=
  {| content := content d; cursor := Z.to_nat (Z.of_nat (cursor d) + off) |}.
Definition d_write_at (d : dest) (bs : list N) (pos : nat) : dest :=
  {| content := overwrite pos bs (content d); cursor := cursor d |}.

Lemma overwrite_end (c bs : list N) : overwrite (length c) bs c = c ++ bs.
Proof. unfold overwrite. rewrite firstn_all, skipn_all2 by lia. rewrite app_nil_r. reflexivity. Qed.

Lemma overwrite_mid (pre h0 hF d : list N) : length h0 = length hF ->
  overwrite (length pre) hF (pre ++ h0 ++ d) = pre ++ hF ++ d.
Proof.
  intros Hl. unfold overwrite.
  rewrite firstn_app, Nat.sub_diag, firstn_all, firstn_O, app_nil_r.
  rewrite skipn_app. rewrite (skipn_all2 pre) by lia. cbn [app].
  replace (length pre + length hF - length pre) with (length h0) by lia.
  rewrite skipn_app, Nat.sub_diag, skipn_all, skipn_O. reflexivity.
Qed.

(* append-only phase: cursor at the end *)
Definition at_end (d : dest) := cursor d = length (content d).
Lemma write_at_end d bs : at_end d -> content (d_write d bs) = content d ++ bs /\ at_end (d_write d bs).
Proof. unfold at_end, d_write. intros H; cbn. rewrite H, overwrite_end. split; [reflexivity|rewrite app_length; lia]. Qed.

(* direct-update strategy on a seeker: pre = earlier sequences of the same encoder *)
Theorem seeker_rewrite (pre h0 hF data crc : list N) : length h0 = length hF ->
  let d0 := {| content := pre; cursor := length pre |} in
  let d1 := d_write (d_write (d_write d0 h0) data) crc in
  let size := Z.of_nat (length h0 + length data + length crc) in
  let d2 := d_seek_cur d1 (- size) in
  let d3 := d_write d2 hF in
  let d4 := d_seek_cur d3 (size - Z.of_nat (length hF)) in
  content d4 = pre ++ hF ++ data ++ crc /\ at_end d4.
Proof.
  intros Hl d0 d1 size d2 d3 d4.
  assert (H0 : at_end d0) by reflexivity.
  destruct (write_at_end d0 h0 H0) as [C1 E1]. destruct (write_at_end _ data E1) as [C2 E2]. destruct (write_at_end _ crc E2) as [C3 E3].
  fold d1 in C3, E3. rewrite C2, C1 in C3. cbn [content d0] in C3.
  assert (Hc1 : cursor d1 = length pre + length h0 + length data + length crc).
  { unfold at_end in E3. rewrite E3, C3, !app_length. lia. }
  assert (Hc2 : cursor d2 = length pre).
  { unfold d2, d_seek_cur, size. cbn [cursor]. rewrite Hc1. lia. }
  assert (C4 : content d3 = pre ++ hF ++ data ++ crc).
  { unfold d3, d_write. cbn [content]. unfold d2 at 2. cbn [content d_seek_cur]. rewrite Hc2, C3, <- !app_assoc.
    apply (overwrite_mid pre h0 hF (data ++ crc) Hl). }
  split.
  - exact C4.
  - unfold at_end, d4, d_seek_cur. cbn [cursor content]. rewrite C4. unfold d3, d_write. cbn [cursor]. rewrite Hc2.
    unfold size. rewrite !app_length. lia.
Qed.

(* direct-update strategy on a WriterAt with lastFileHeaderPos = length pre *)
Theorem writer_at_rewrite (pre h0 hF data crc : list N) : length h0 = length hF ->
  let d0 := {| content := pre; cursor := length pre |} in
  let d1 := d_write (d_write (d_write d0 h0) data) crc in
  content (d_write_at d1 hF (length pre)) = pre ++ hF ++ data ++ crc.
Proof.
  intros Hl d0 d1.
  assert (H0 : at_end d0) by reflexivity.
  destruct (write_at_end d0 h0 H0) as [C1 E1]. destruct (write_at_end _ data E1) as [C2 E2]. destruct (write_at_end _ crc E2) as [C3 _].
  fold d1 in C3. rewrite C2, C1 in C3. cbn [content d0] in C3.
  unfold d_write_at. cbn [content]. rewrite C3, <- !app_assoc. apply (overwrite_mid pre h0 hF (data ++ crc) Hl).
Qed.

(* early-size strategy: one pass with the final header *)
Theorem plain_one_pass (pre hF data crc : list N) :
  let d0 := {| content := pre; cursor := length pre |} in
  content (d_write (d_write (d_write d0 hF) data) crc) = pre ++ hF ++ data ++ crc.
Proof.
  intros d0. assert (H0 : at_end d0) by reflexivity.
  destruct (write_at_end d0 hF H0) as [C1 E1]. destruct (write_at_end _ data E1) as [C2 E2]. destruct (write_at_end _ crc E2) as [C3 _].
  rewrite C3, C2, C1, <- !app_assoc. reflexivity.
Qed.
Print Assumptions seeker_rewrite.
