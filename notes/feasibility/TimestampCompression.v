(* Design-phase feasibility probe (not wired into any check).
   Compressed-timestamp core of C01: encoder (with the additive repair of DESIGN.md section 6)
   against the decoder's reconstruction, all arithmetic in uint32 / uint8 as in the Go code. *)
From Coq Require Import ZArith List Lia Bool.
Import ListNotations.
Open Scope Z_scope.

Definition W := 4294967296.          (* 2^32 *)
Definition u32 (x : Z) := x mod W.
Definition INVALID := 4294967295.
Definition DATETIME_MIN := 268435456. (* 0x10000000 *)

(* what goes on the wire for the timestamp of one message *)
Inductive wire := NoTs | Full (ts : Z) | Compressed (off : Z).

Record enc := { ref : Z; last : Z }.

(* encoder.compressTimestampIntoHeader, repaired: [last] follows every uint32 timestamp written *)
Definition enc_step (e : enc) (m : option Z) : wire * enc :=
  match m with
  | None => (NoTs, e)
  | Some ts =>
    let e1 := {| ref := ref e; last := ts |} in
    if ts =? INVALID then (Full ts, e1)
    else if ts <? DATETIME_MIN then (Full ts, e1)
    else if u32 (ts - ref e) >? 31 then (Full ts, {| ref := ts; last := ts |})
    else if u32 (ts - last e) >? 31 then (Full ts, e1)
    else (Compressed (ts mod 32), e1)
  end.

(* the pinned code: no [last] test *)
Definition enc_step_pinned (e : enc) (m : option Z) : wire * enc :=
  match m with
  | None => (NoTs, e)
  | Some ts =>
    if ts =? INVALID then (Full ts, e)
    else if ts <? DATETIME_MIN then (Full ts, e)
    else if u32 (ts - ref e) >? 31 then (Full ts, {| ref := ts; last := ts |})
    else (Compressed (ts mod 32), e)
  end.

Record dec := { T : Z; L : Z }.

(* decoder.decodeMessageData / decodeFields: timestamp, lastTimeOffset *)
Definition dec_step (d : dec) (w : wire) : option Z * dec :=
  match w with
  | NoTs => (None, d)
  | Full ts => (Some ts, {| T := ts; L := ts mod 32 |})
  | Compressed o =>
    let t := u32 (T d + ((o - L d) mod 256) mod 32) in   (* byte subtraction, & 0x1F *)
    (Some t, {| T := t; L := o |})
  end.

Fixpoint run_enc (step : enc -> option Z -> wire * enc) (e : enc) (ms : list (option Z)) : list wire :=
  match ms with [] => [] | m :: r => let '(w, e') := step e m in w :: run_enc step e' r end.
Fixpoint run_dec (d : dec) (ws : list wire) : list (option Z) :=
  match ws with [] => [] | w :: r => let '(o, d') := dec_step d w in o :: run_dec d' r end.

Definition ok_ts (m : option Z) := match m with None => True | Some ts => 0 <= ts < W end.
Definition R (e : enc) (d : dec) := last e = T d /\ L d = T d mod 32 /\ 0 <= T d < W.

Lemma mod32_of_u32 a : (a mod W) mod 32 = a mod 32.
Proof. unfold W. replace 4294967296 with (32 * 134217728) by reflexivity.
  rewrite Z.rem_mul_r by lia. rewrite Z.mul_comm, Z.mod_add by lia. apply Z.mod_mod; lia. Qed.

Lemma reconstruct t ts :
  0 <= t < W -> 0 <= ts < W -> 0 <= u32 (ts - t) <= 31 ->
  u32 (t + ((ts mod 32 - t mod 32) mod 256) mod 32) = ts.
Proof.
  intros Ht Hts Hd. unfold u32, W in *.
  Z.div_mod_to_equations. lia.
Qed.

Lemma step_sim e d m :
  R e d -> ok_ts m ->
  let '(w, e') := enc_step e m in
  let '(o, d') := dec_step d w in
  o = m /\ R e' d'.
Proof.
  intros (Hl & HL & HT) Hm. destruct m as [ts|]; cbn [enc_step].
  2:{ cbn. unfold R. auto. }
  cbn [ok_ts] in Hm. unfold R.
  destruct (ts =? INVALID) eqn:E1. { cbn. auto. }
  destruct (ts <? DATETIME_MIN) eqn:E2. { cbn. auto. }
  destruct (u32 (ts - ref e) >? 31) eqn:E3. { cbn. auto. }
  destruct (u32 (ts - last e) >? 31) eqn:E4. { cbn. auto. }
  cbn [dec_step last ref T L].
  assert (Hd : 0 <= u32 (ts - T d) <= 31).
  { rewrite <- Hl. split; [apply Z.mod_pos_bound; unfold W; lia|].
    destruct (Z.gtb_spec (u32 (ts - last e)) 31); [discriminate|lia]. }
  rewrite HL, (reconstruct (T d) ts HT Hm Hd). auto.
Qed.

Theorem compressed_roundtrip ms e d :
  R e d -> Forall ok_ts ms -> run_dec d (run_enc enc_step e ms) = ms.
Proof.
  revert e d. induction ms as [|m ms IH]; intros e d HR Hall; [reflexivity|].
  inversion Hall as [|? ? Hm Hms]; subst.
  pose proof (step_sim e d m HR Hm) as Hs.
  cbn [run_enc]. destruct (enc_step e m) as [w e'] eqn:Ee. cbn [run_dec].
  destruct (dec_step d w) as [o d'] eqn:Ed. destruct Hs as [-> HR']. f_equal. apply IH; assumption.
Qed.

Corollary compressed_roundtrip_init ms :
  Forall ok_ts ms -> run_dec {| T := 0; L := 0 |} (run_enc enc_step {| ref := 0; last := 0 |} ms) = ms.
Proof. apply compressed_roundtrip. unfold R; cbn. repeat split; lia. Qed.

(* the pinned encoder is refuted by the witness quoted in DESIGN.md *)
Definition t0 := 1000000000.
Theorem pinned_refuted :
  exists ms, Forall ok_ts ms /\
    run_dec {| T := 0; L := 0 |} (run_enc enc_step_pinned {| ref := 0; last := 0 |} ms) <> ms.
Proof.
  exists [Some t0; Some (t0+10); Some (t0+5); Some (t0+6)]. split.
  - repeat constructor; unfold t0, W; cbn; lia.
  - vm_compute. discriminate.
Qed.
Eval vm_compute in run_dec {| T := 0; L := 0 |} (run_enc enc_step_pinned {| ref := 0; last := 0 |} [Some t0; Some (t0+10); Some (t0+5); Some (t0+6)]).

Print Assumptions compressed_roundtrip_init.
