(* Design-phase feasibility probe (not wired into any check).
   Message level of C01 for numeric fields: the definition derived from a message (num, size, base type)
   plus the marshalled values is decoded back to the same fields, where the decoder takes type and array
   flag from the factory for known fields and from (base type, size) for unknown ones.
   The hypotheses are exactly clauses (2) and (3) of wf_input in DESIGN.md. *)
From Coq Require Import NArith List Lia Arith Bool.
Import ListNotations.
Require Import ValueCodec.

Record field := { f_num : N; f_value : value }.
Definition vtype (v : value) := match v with VNum t _ | VArr t _ => t end.
Definition is_arr (v : value) := match v with VArr _ _ => true | _ => false end.

Record fdef := { fd_num : N; fd_size : nat; fd_type : ntype }.     (* base type byte abstracted to its ntype *)

(* factory: for a known field its element type and array flag *)
Section WithFactory.
Variable fac : N -> option (ntype * bool).

Definition def_of (fs : list field) : list fdef :=
  map (fun f => {| fd_num := f_num f; fd_size := size (f_value f); fd_type := vtype (f_value f) |}) fs.
Definition data_of (big : bool) (fs : list field) : list N := flat_map (fun f => marshal big (f_value f)) fs.

(* decoder.decodeFields restricted to well-sized numeric fields *)
Fixpoint decode_fields (big : bool) (ds : list fdef) (b : list N) : option (list field) :=
  match ds with
  | [] => match b with [] => Some [] | _ => None end
  | d :: r =>
    if length b <? fd_size d then None else
    let '(t, arr) := match fac (fd_num d) with
                     | Some (t, arr) => (t, arr)
                     | None => (fd_type d, (width (fd_type d) <? fd_size d) && (fd_size d mod width (fd_type d) =? 0))
                     end in
    match decode_fields big r (skipn (fd_size d) b) with
    | Some fs => Some ({| f_num := fd_num d; f_value := unmarshal big t arr (firstn (fd_size d) b) |} :: fs)
    | None => None
    end
  end.

Definition shape_ok (f : field) : Prop :=
  value_ok (f_value f) /\
  match fac (f_num f) with
  | Some (t, arr) => t = vtype (f_value f) /\ arr = is_arr (f_value f)          (* clause (2) *)
  | None => match f_value f with VArr _ l => 2 <= length l | VNum _ _ => True end (* clause (3) *)
  end.

Lemma unknown_arr_flag v : value_ok v ->
  match v with VArr _ l => 2 <= length l | _ => True end ->
  (width (vtype v) <? size v) && (size v mod width (vtype v) =? 0) = is_arr v.
Proof.
  intros _ Hs. pose proof (width_pos (vtype v)) as Hw. destruct v as [t x|t l]; cbn [vtype size is_arr] in *.
  - rewrite Nat.ltb_irrefl. reflexivity.
  - replace (width t <? length l * width t) with true by (symmetry; apply Nat.ltb_lt; nia).
    rewrite Nat.mod_mul by lia. reflexivity.
Qed.

Theorem message_roundtrip big fs : Forall shape_ok fs -> decode_fields big (def_of fs) (data_of big fs) = Some fs.
Proof.
  induction fs as [|f fs IH]; intros Hall; cbn [def_of data_of map flat_map decode_fields]; [reflexivity|].
  inversion Hall as [|? ? [Hv Hf] Hrest]; subst. cbn [fd_num fd_size fd_type].
  rewrite app_length, C06_size.
  replace (size (f_value f) + length (flat_map (fun f0 => marshal big (f_value f0)) fs) <? size (f_value f)) with false
    by (symmetry; apply Nat.ltb_ge; lia).
  rewrite skipn_app, C06_size, Nat.sub_diag, skipn_O, (skipn_all2 (n := size (f_value f))) by (rewrite C06_size; lia).
  rewrite firstn_app, C06_size, Nat.sub_diag, firstn_O, app_nil_r, (firstn_all2 (n := size (f_value f))) by (rewrite C06_size; lia).
  cbn [app]. fold (data_of big fs). fold (def_of fs). rewrite (IH Hrest).
  assert (Hu : forall t arr, t = vtype (f_value f) -> arr = is_arr (f_value f) ->
               unmarshal big t arr (marshal big (f_value f)) = f_value f).
  { intros t arr -> ->. apply C06_roundtrip_numeric. exact Hv. }
  destruct (fac (f_num f)) as [[t arr]|] eqn:Ef.
  - destruct Hf as [Ht Ha]. rewrite (Hu t arr Ht Ha). destruct f; reflexivity.
  - rewrite (unknown_arr_flag _ Hv Hf), (Hu _ _ eq_refl eq_refl). destruct f; reflexivity.
Qed.
End WithFactory.
Print Assumptions message_roundtrip.
