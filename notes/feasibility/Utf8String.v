(* Design-phase feasibility probe (not wired into any check).
   proto.utf8String / utf8.DecodeRune at the byte level (Go's `first` and `acceptRanges` tables):
   valid sequences are copied, malformed bytes skipped one at a time, decoding stops at NUL, and the
   validly encoded U+FFFD (EF BF BD) is dropped (the pinned normalisation of DESIGN.md section 6).
   Theorem: a valid UTF-8 string without NUL and without U+FFFD, followed by its terminator and anything,
   comes back unchanged -- the string clause of C06/C01. *)
From Coq Require Import NArith List Lia Arith Bool.
Import ListNotations.
Open Scope N_scope.

Definition between (lo hi x : N) : bool := (lo <=? x) && (x <=? hi).
Definition cont (x : N) := between 0x80 0xBF x.

(* length of the well-formed sequence at the head of b, as utf8.DecodeRune accepts it *)
Definition seq_len (b : list N) : option nat :=
  match b with
  | [] => None
  | p0 :: r =>
    if p0 <=? 0x7F then Some 1%nat
    else if between 0xC2 0xDF p0 then
      match r with b1 :: _ => if cont b1 then Some 2%nat else None | _ => None end
    else if between 0xE0 0xEF p0 then
      match r with
      | b1 :: b2 :: _ =>
        let lo := if p0 =? 0xE0 then 0xA0 else 0x80 in
        let hi := if p0 =? 0xED then 0x9F else 0xBF in
        if between lo hi b1 && cont b2 then Some 3%nat else None
      | _ => None
      end
    else if between 0xF0 0xF4 p0 then
      match r with
      | b1 :: b2 :: b3 :: _ =>
        let lo := if p0 =? 0xF0 then 0x90 else 0x80 in
        let hi := if p0 =? 0xF4 then 0x8F else 0xBF in
        if between lo hi b1 && cont b2 && cont b3 then Some 4%nat else None
      | _ => None
      end
    else None
  end.

Definition is_fffd (s : list N) : bool := match s with [0xEF; 0xBF; 0xBD] => true | _ => false end.

(* utf8String: for len(b) > 0 { r, size := DecodeRune(b); if r == 0 {break}; if r != RuneError {append}; b = b[size:] } *)
Fixpoint utf8_string (fuel : nat) (b : list N) : list N :=
  match fuel with
  | O => []
  | S f =>
    match b with
    | [] => []
    | 0 :: _ => []
    | _ :: tl =>
      match seq_len b with
      | Some n => (if is_fffd (firstn n b) then [] else firstn n b) ++ utf8_string f (skipn n b)
      | None => utf8_string f tl                                  (* RuneError, size 1 *)
      end
    end
  end.

(* utf8.ValidString, together with the two extra conditions of the theorem *)
Inductive clean : list N -> Prop :=
| clean_nil : clean []
| clean_seq n s r : seq_len (s ++ r) = Some n -> length s = n -> hd 1 s <> 0 -> is_fffd s = false -> clean r -> clean (s ++ r).

Lemma seq_len_pos b n : seq_len b = Some n -> (1 <= n <= 4)%nat /\ (n <= length b)%nat.
Proof.
  unfold seq_len. destruct b as [|p0 r]; [discriminate|].
  destruct (p0 <=? 0x7F); [intros H; injection H as <-; cbn; lia|].
  destruct (between 0xC2 0xDF p0).
  { destruct r as [|b1 r]; [discriminate|]. destruct (cont b1); [|discriminate]. intros H; injection H as <-; cbn; lia. }
  destruct (between 0xE0 0xEF p0).
  { destruct r as [|b1 [|b2 r]]; try discriminate. destruct (_ && _); [|discriminate]. intros H; injection H as <-; cbn; lia. }
  destruct (between 0xF0 0xF4 p0); [|discriminate].
  destruct r as [|b1 [|b2 [|b3 r]]]; try discriminate. destruct (_ && _ && _); [|discriminate]. intros H; injection H as <-; cbn; lia.
Qed.

Theorem utf8_string_roundtrip s : clean s -> forall rest fuel, (length s < fuel)%nat ->
  utf8_string fuel (s ++ 0 :: rest) = s.
Proof.
  induction 1 as [|n s r Hseq Hlen Hnz Hf Hclean IH]; intros rest fuel Hfuel.
  - destruct fuel; [cbn in Hfuel; lia|]. reflexivity.
  - destruct fuel as [|fuel]; [lia|].
    destruct (seq_len_pos _ _ Hseq) as [[Hn1 Hn4] _].
    destruct s as [|s0 s']; [cbn in Hlen; lia|]. cbn [hd] in Hnz.
    assert (Hseq' : seq_len (((s0 :: s') ++ r) ++ 0 :: rest) = Some n).
    { (* seq_len only inspects the first n <= length s bytes *)
      revert Hseq. rewrite <- app_assoc. unfold seq_len. cbn [app].
      destruct (s0 <=? 0x7F); [auto|]. destruct (between 0xC2 0xDF s0).
      { destruct s' as [|b1 s']; [cbn in Hlen|]; cbn [app].
        - destruct r; [discriminate|]. destruct (cont n0); [intros H; injection H as <-; cbn in Hlen; lia|discriminate].
        - auto. }
      destruct (between 0xE0 0xEF s0).
      { destruct s' as [|b1 [|b2 s']]; cbn [app]; auto.
        - destruct r as [|r0 [|r1 r]]; try discriminate. destruct (_ && _); [intros H; injection H as <-; cbn in Hlen; lia|discriminate].
        - destruct r as [|r0 r]; try discriminate. destruct (_ && _); [intros H; injection H as <-; cbn in Hlen; lia|discriminate]. }
      destruct (between 0xF0 0xF4 s0); [|auto].
      destruct s' as [|b1 [|b2 [|b3 s']]]; cbn [app]; auto.
      - destruct r as [|r0 [|r1 [|r2 r]]]; try discriminate. destruct (_ && _ && _); [intros H; injection H as <-; cbn in Hlen; lia|discriminate].
      - destruct r as [|r0 [|r1 r]]; try discriminate. destruct (_ && _ && _); [intros H; injection H as <-; cbn in Hlen; lia|discriminate].
      - destruct r as [|r0 r]; try discriminate. destruct (_ && _ && _); [intros H; injection H as <-; cbn in Hlen; lia|discriminate]. }
    cbn [utf8_string]. rewrite <- app_assoc in Hseq' |- *. cbn [app] in Hseq' |- *.
    destruct s0 as [|p0]; [contradiction|]. rewrite Hseq'.
    change (N.pos p0 :: s' ++ r ++ 0 :: rest) with ((N.pos p0 :: s') ++ r ++ 0 :: rest).
    rewrite firstn_app, <- Hlen, Nat.sub_diag, firstn_all, firstn_O, app_nil_r.
    rewrite skipn_app, Nat.sub_diag, skipn_all, skipn_O. cbn [app].
    rewrite Hf. rewrite IH; [reflexivity|]. rewrite app_length in Hfuel. cbn in Hfuel, Hlen. lia.
Qed.

(* the pinned normalisation: a valid U+FFFD disappears *)
Example fffd_dropped : utf8_string 10 [0x61; 0xEF; 0xBF; 0xBD; 0x62; 0] = [0x61; 0x62].
Proof. reflexivity. Qed.
(* malformed bytes are skipped one at a time, an embedded NUL cuts the string *)
Example malformed_skipped : utf8_string 10 [0x61; 0xFF; 0xC0; 0x62; 0; 0x63] = [0x61; 0x62].
Proof. reflexivity. Qed.
Print Assumptions utf8_string_roundtrip.
