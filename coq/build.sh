#!/bin/sh
# regenerate the Coq makefile over every .v under coq/ (gen included) and build the requested targets
cd "$(dirname "$0")" || exit 2
{ cat _CoqProject; find gen Model Proofs Inst Props Run -name '*.v' | sort; } > .CoqProject.all
coq_makefile -f .CoqProject.all -o Makefile.coq >/dev/null 2>&1 || exit 2
exec timeout ${COQ_TIMEOUT:-3000} make -f Makefile.coq -j16 "$@"
