From Coq Require Import NArith List Bool.
Import ListNotations.
From Fit Require Export Model.Raw Run.RunCommon.
Open Scope N_scope.

Definition flag_eqb (a b : rawflag) : bool :=
  match a, b with RFHeader, RFHeader | RFDef, RFDef | RFData, RFData | RFCrc, RFCrc => true | _, _ => false end.
Definition seg_eqb (a b : rsegment) : bool := flag_eqb (fst a) (fst b) && list_N_eqb_raw (snd a) (snd b).
Definition err_class (e : N) : N := if e =? E_UnexpectedEOF then E_EOF else e.
(* (stream, observed segments, bytes consumed, error class) *)
Definition check_case (c : bytes * list rsegment * N * option N) : bool :=
  let '(bs, segs, n, e) := c in
  let '(msegs, mn, me) := raw_decode bs in
  list_eqb seg_eqb msegs segs && (mn =? n) && option_eqb (fun x y => err_class x =? err_class y) me e.

(* the lengths clause against the independent reading of the record layout (Model/Wire.v): whenever the raw decoder
   succeeds, and every record ends inside its data region, Wire's segmentation is the same *)
From Fit Require Import Model.Wire.
Definition kind_of (f : rawflag) : segkind := match f with RFHeader => SHeader | RFDef => SDef | RFData => SData | RFCrc => SCrc end.
Definition kind_eqb (a b : segkind) : bool :=
  match a, b with SHeader, SHeader | SDef, SDef | SData, SData | SCrc, SCrc => true | _, _ => false end.
Fixpoint segs_match (a : list rsegment) (b : list segment) : bool :=
  match a, b with
  | [], [] => true
  | x :: a', y :: b' => kind_eqb (kind_of (fst x)) (fst y) && list_N_eqb_raw (snd x) (snd y) && segs_match a' b'
  | _, _ => false
  end.
Definition check_wire (c : bytes * list rsegment * N * option N) : bool :=
  let '(bs, segs, n, e) := c in
  match e, segment_stream_b bs with
  | None, Some ws => segs_match segs ws
  | None, None => true     (* a record straddles the end of its data region: Wire rejects, the decoders tolerate it *)
  | Some _, _ => true
  end.
