(* helpers for cases.v files written by bin/check *)
From Coq Require Import NArith List Bool.
Import ListNotations.

Fixpoint bad_from {A} (check : A -> bool) (i : N) (l : list A) : list N :=
  match l with
  | [] => []
  | x :: r => if check x then bad_from check (N.succ i) r else i :: bad_from check (N.succ i) r
  end.
Definition bad_indices {A} (check : A -> bool) (l : list A) : list N := bad_from check 0%N l.

Fixpoint list_eqb {A} (eqb : A -> A -> bool) (a b : list A) : bool :=
  match a, b with
  | [], [] => true
  | x :: a', y :: b' => eqb x y && list_eqb eqb a' b'
  | _, _ => false
  end.
Definition option_eqb {A} (eqb : A -> A -> bool) (a b : option A) : bool :=
  match a, b with Some x, Some y => eqb x y | None, None => true | _, _ => false end.
Definition count_true {A} (f : A -> bool) (l : list A) : N := N.of_nat (length (filter f l)).
